(* Proofs about Model/Explain.v: what `-d explain` says is what made the step dirty. *)
From Coq Require Import String.
From N2 Require Import Model.All Model.Fancy Model.Explain Proofs.DbSpec Proofs.WorldSpec Proofs.WorldBase.
From Coq Require Import Lia.

Lemma first_missing_fs_some fs : forall names n,
  first_missing_fs fs names = Some n -> In n names /\ fs_get fs n = None.
Proof.
  induction names as [|x r IH]; intros n H; simpl in H; [discriminate|].
  destruct (fs_get fs x) eqn:E.
  - apply IH in H as [I G]. split; [now right|exact G].
  - inversion H; subst. split; [now left|exact E].
Qed.

Lemma first_missing_fs_exists fs : forall names,
  existsb (fs_missing fs) names = true -> exists n, first_missing_fs fs names = Some n.
Proof.
  induction names as [|x r IH]; intros H; simpl in *; [discriminate|].
  unfold fs_missing in H at 1. destruct (fs_get fs x) eqn:E.
  - simpl in H. now apply IH.
  - now exists x.
Qed.

Definition why_of (r : reason) : N :=
  match r with RMissing _ => 1%N | RNoRecord => 2%N | RChanged _ => 3%N end.

(* the facts about one run of the check, shared by all statements below *)
Lemma explain_analysis g w b bd r :
  explain_reason g w b bd = Some r ->
  snd (check_build_dirty g w b bd) = DDirty (why_of r) /\
  let w' := fst (check_build_dirty g w b bd) in
  match r with
  | RMissing n => In n (wb_dirtying bd ++ disc_of w b ++ wb_outs bd) /\ cache_get (ws_cache w') n = Some None
  | RNoRecord => assoc_nat b (ws_hashes w) = None
  | RChanged m => exists prev, assoc_nat b (ws_hashes w) = Some prev /\ hash_build m <> prev /\
                               manifest_of w' bd (disc_of w b) = Some m
  end.
Proof.
  unfold explain_reason, check_build_dirty.
  destruct (wb_cmdline bd) as [c|]; [|discriminate].
  destruct (ensure_inputs g w (wb_dirtying bd)) as [w1 r1] eqn:E1.
  pose proof (ensure_inputs_spec _ _ _ _ _ E1) as (X1 & _ & S1).
  destruct X1 as (F1 & D1 & H1 & _ & _ & _).
  assert (DD : disc_of w1 b = disc_of w b) by (unfold disc_of; now rewrite D1).
  destruct r1 as [[n|]|n]; [| |discriminate].
  - destruct (producer_of g n); [|discriminate]. intros H; inversion H; subst. simpl.
    destruct S1 as [I C]. split; [reflexivity|]. split; [|exact C]. apply in_or_app. now left.
  - destruct (ensure_inputs g w1 (disc_of w1 b)) as [w2 r2] eqn:E2.
    pose proof (ensure_inputs_spec _ _ _ _ _ E2) as (X2 & _ & S2).
    destruct X2 as (F2 & D2 & H2 & _ & _ & _).
    destruct r2 as [[n|]|n]; [| |discriminate].
    + intros H; inversion H; subst. simpl. destruct S2 as [I C]. split; [reflexivity|].
      split; [|exact C]. rewrite DD in I. apply in_or_app. right. apply in_or_app. now left.
    + destruct (stat_all w2 (wb_outs bd) false) as [w3 missing] eqn:E3.
      pose proof (stat_all_spec _ _ _ _ _ E3) as (X3 & M3 & C3).
      destruct X3 as (F3 & D3 & H3 & _ & _ & _).
      destruct missing.
      * destruct (first_missing_fs (ws_fs w3) (wb_outs bd)) as [n|] eqn:FM; [|discriminate].
        intros H; inversion H; subst. simpl. split; [reflexivity|].
        apply first_missing_fs_some in FM as [I G]. split.
        -- apply in_or_app. right. apply in_or_app. now right.
        -- rewrite (C3 _ I). now rewrite <- F3, G.
      * assert (HH : ws_hashes w3 = ws_hashes w) by (rewrite H3, H2; exact H1).
        assert (DD3 : disc_of w3 b = disc_of w b) by (unfold disc_of; rewrite D3, D2, D1; reflexivity).
        destruct (assoc_nat b (ws_hashes w3)) as [prev|] eqn:A.
        -- destruct (manifest_of w3 bd (disc_of w3 b)) as [m|] eqn:MO; [|discriminate].
           destruct (hash_build m =? prev)%N eqn:Q; [discriminate|].
           intros H; inversion H; subst. simpl. split; [reflexivity|].
           exists prev. rewrite <- HH. split; [exact A|]. split.
           ++ now apply N.eqb_neq.
           ++ now rewrite <- DD3.
        -- intros H; inversion H; subst. simpl. split; [reflexivity|]. now rewrite <- HH.
Qed.

Theorem explain_gives_the_verdicts_reason g w b bd r :
  explain_reason g w b bd = Some r -> snd (check_build_dirty g w b bd) = DDirty (why_of r).
Proof. intros H. now apply explain_analysis in H. Qed.

Theorem dirty_is_explained g w b bd why :
  snd (check_build_dirty g w b bd) = DDirty why -> exists r, explain_reason g w b bd = Some r /\ why_of r = why.
Proof.
  unfold explain_reason, check_build_dirty.
  destruct (wb_cmdline bd) as [c|].
  2:{ destruct (stat_all w (wb_outs bd) false). discriminate. }
  destruct (ensure_inputs g w (wb_dirtying bd)) as [w1 r1] eqn:E1.
  destruct r1 as [[n|]|n]; [| |discriminate].
  - destruct (producer_of g n); [|discriminate]. simpl. intros H; inversion H. eexists; split; reflexivity.
  - destruct (ensure_inputs g w1 (disc_of w1 b)) as [w2 r2] eqn:E2.
    destruct r2 as [[n|]|n]; [| |discriminate].
    + simpl. intros H; inversion H. eexists; split; reflexivity.
    + destruct (stat_all w2 (wb_outs bd) false) as [w3 missing] eqn:E3.
      pose proof (stat_all_spec _ _ _ _ _ E3) as (X3 & M3 & _).
      destruct X3 as (F3 & _).
      destruct missing.
      * simpl. intros H; inversion H. simpl in M3. symmetry in M3. rewrite <- F3 in M3.
        apply first_missing_fs_exists in M3 as [n FM]. rewrite FM. eexists; split; reflexivity.
      * destruct (assoc_nat b (ws_hashes w3)) as [prev|].
        -- destruct (manifest_of w3 bd (disc_of w3 b)) as [m|]; [|discriminate].
           destruct (hash_build m =? prev)%N; [discriminate|].
           simpl. intros H; inversion H. eexists; split; reflexivity.
        -- simpl. intros H; inversion H. eexists; split; reflexivity.
Qed.

Theorem explain_missing_is_missing g w b bd n :
  explain_reason g w b bd = Some (RMissing n) ->
  In n (wb_dirtying bd ++ disc_of w b ++ wb_outs bd) /\
  cache_get (ws_cache (fst (check_build_dirty g w b bd))) n = Some None.
Proof. intros H. apply explain_analysis in H as [_ H]. exact H. Qed.

Theorem explain_no_record_is_no_record g w b bd :
  explain_reason g w b bd = Some RNoRecord -> assoc_nat b (ws_hashes w) = None.
Proof. intros H. apply explain_analysis in H as [_ H]. exact H. Qed.

Theorem explain_changed_is_changed g w b bd m :
  explain_reason g w b bd = Some (RChanged m) ->
  exists prev, assoc_nat b (ws_hashes w) = Some prev /\ hash_build m <> prev /\
               manifest_of (fst (check_build_dirty g w b bd)) bd (disc_of w b) = Some m.
Proof. intros H. apply explain_analysis in H as [_ H]. exact H. Qed.

Theorem phony_is_never_explained g w b bd : wb_cmdline bd = None -> explain_reason g w b bd = None.
Proof. unfold explain_reason. now intros ->. Qed.

(* every verdict logs nothing (clean, error) or one message, or two for a changed manifest *)
Theorem explain_message_count g w b bd loc :
  match snd (check_build_dirty g w b bd) with
  | DDirty 3%N => length (explain_verdict g w b bd loc) = 2
  | DDirty _ => length (explain_verdict g w b bd loc) = 1
  | _ => explain_verdict g w b bd loc = []
  end.
Proof.
  unfold explain_verdict.
  destruct (explain_reason g w b bd) as [r|] eqn:E.
  - rewrite (explain_gives_the_verdicts_reason _ _ _ _ _ E). destruct r; reflexivity.
  - destruct (snd (check_build_dirty g w b bd)) as [|why|m] eqn:V; try reflexivity.
    apply dirty_is_explained in V as (r & R & _). congruence.
Qed.

(* the text shows times in milliseconds: two manifests that differ (and hash differently) can
   read the same *)
Definition ms_m1 : manifest := mkManifest [(bs "a", (1500000000, 1000001)%N)] [] (bs "cc") None [(bs "o", (1500000001, 0)%N)].
Definition ms_m2 : manifest := mkManifest [(bs "a", (1500000000, 1999999)%N)] [] (bs "cc") None [(bs "o", (1500000001, 0)%N)].
Example explanation_blind_below_a_millisecond :
  explain_manifest ms_m1 = explain_manifest ms_m2 /\ hash_build ms_m1 <> hash_build ms_m2.
Proof. split; [vm_compute; reflexivity|]. vm_compute. discriminate. Qed.

Example explain_manifest_example :
  explain_manifest (mkManifest [(bs "a.c", (1500000000, 5000000)%N)] [(bs "a.h", (1500000002, 0)%N)] (bs "cc a.c")
                               (Some (bs "o.rsp", bs "x")) [(bs "o", (1500000003, 0)%N)])
  = bs "in:" ++ [10%N] ++ bs "  1500000000005 a.c" ++ [10%N] ++ bs "discovered:" ++ [10%N] ++ bs "  1500000002000 a.h" ++ [10%N]
    ++ bs "cmdline: cc a.c" ++ [10%N] ++ bs "rspfile path: o.rsp" ++ [10%N]
    ++ bs "rspfile hash: " ++ hex_of_N (siphash13 (bs "x")) ++ [10%N] ++ bs "out:" ++ [10%N] ++ bs "  1500000003000 o" ++ [10%N].
Proof. vm_compute. reflexivity. Qed.

(* ------------------------------------------------------------------------------------ *)
(* non-vacuity: one step `cc a.c -> o` with a reported header, in four states *)
Definition ex_bd : wbuild := mkWBuild [bs "a.c"] 1 0 0 [bs "o"] (Some (bs "cc a.c")) None.
Definition ex_g : wgraph := mkWGraph [ex_bd] [(bs "o", 0%nat)].
Definition ex_t (s : N) : mtime := (1500000000 + s, 0)%N.
Definition ex_tree : fsmap := [(bs "a.c", ex_t 1); (bs "a.h", ex_t 2); (bs "o", ex_t 3)].
Definition ex_manifest : manifest := mkManifest [(bs "a.c", ex_t 1)] [(bs "a.h", ex_t 2)] (bs "cc a.c") None [(bs "o", ex_t 3)].
Definition ex_w (fs : fsmap) (h : list (nat * N)) : wstate := mkW fs [] [(0%nat, [bs "a.h"])] h [] [].

Example ex_clean : explain_reason ex_g (ex_w ex_tree [(0%nat, hash_build ex_manifest)]) 0 ex_bd = None
  /\ snd (check_build_dirty ex_g (ex_w ex_tree [(0%nat, hash_build ex_manifest)]) 0 ex_bd) = DClean.
Proof. vm_compute. split; reflexivity. Qed.

Example ex_header_gone :
  explain_verdict ex_g (ex_w [(bs "a.c", ex_t 1); (bs "o", ex_t 3)] [(0%nat, hash_build ex_manifest)]) 0 ex_bd (bs "build.ninja:3")
  = [bs "explain: build.ninja:3: input a.h missing"].
Proof. vm_compute. reflexivity. Qed.

Example ex_no_record :
  explain_verdict ex_g (ex_w ex_tree []) 0 ex_bd (bs "build.ninja:3") = [bs "explain: build.ninja:3: no previous state known"].
Proof. vm_compute. reflexivity. Qed.

Example ex_touched :
  explain_verdict ex_g (ex_w [(bs "a.c", ex_t 1); (bs "a.h", ex_t 9); (bs "o", ex_t 3)] [(0%nat, hash_build ex_manifest)]) 0 ex_bd (bs "build.ninja:3")
  = [bs "explain: build.ninja:3: manifest changed";
     bs "in:" ++ [10%N] ++ bs "  1500000001000 a.c" ++ [10%N] ++ bs "discovered:" ++ [10%N] ++ bs "  1500000009000 a.h" ++ [10%N]
     ++ bs "cmdline: cc a.c" ++ [10%N] ++ bs "out:" ++ [10%N] ++ bs "  1500000003000 o" ++ [10%N]].
Proof. vm_compute. reflexivity. Qed.

(* ------------------------------------------------------------------------------------ *)
(* along an invocation: on every trace the World replay accepts, explain_trace has exactly one
   entry per verdict, in order, and each entry is explain_verdict on the state the replay had *)
Fixpoint verdict_steps (evs : list wevent) : list nat :=
  match evs with
  | [] => []
  | WVerdict b _ :: r => b :: verdict_steps r
  | _ :: r => verdict_steps r
  end.

Lemma explain_trace_covers g locs : forall evs w pend i w',
  replay g w pend evs i = WOk w' -> map fst (explain_trace g locs w pend evs) = verdict_steps evs.
Proof.
  induction evs as [|e evs IH]; intros w pend i w' H; [reflexivity|].
  destruct e as [b v|b term reported|b h|b|n t|b]; cbn [replay explain_trace verdict_steps] in *.
  - destruct (check_build_dirty g w b (get_wbuild g b)) as [w1 r] eqn:E. cbn [fst map].
    destruct ((match r with DClean => 0 | DDirty _ => 1 | DError _ => 2 end =? v)%N); [|discriminate].
    f_equal. eapply IH; eauto.
  - destruct (term =? 0)%N; eapply IH; eauto.
  - destruct pend as [[b' rep]|]; [|discriminate].
    destruct (negb (b =? b')%nat); [discriminate|].
    destruct (record_finished w b (get_wbuild g b) rep) as [[w1 [h'|]]| | | |]; try discriminate.
    destruct (h =? h')%N; [|discriminate]. eapply IH; eauto.
  - destruct pend as [[b' rep]|]; [|discriminate].
    destruct (negb (b =? b')%nat); [discriminate|].
    destruct (record_finished w b (get_wbuild g b) rep) as [[w1 [h'|]]| | | |]; try discriminate.
    eapply IH; eauto.
  - eapply IH; eauto.
  - eapply IH; eauto.
Qed.

(* explaining changes nothing: the state after a verdict is the check's own, whatever is logged -
   the entry for the first verdict of a trace is explain_verdict on the state before it *)
Lemma explain_trace_first g locs w pend b v rest :
  explain_trace g locs w pend (WVerdict b v :: rest) =
  (b, explain_verdict g w b (get_wbuild g b) (nth b locs [])) ::
  explain_trace g locs (fst (check_build_dirty g w b (get_wbuild g b))) pend rest.
Proof. reflexivity. Qed.

(* from the audit (W4: the statement above compares the steps only, silence would satisfy it): the
   states the replay is in at its verdicts, and every entry of the trace is explain_verdict on the
   state of its verdict *)
Fixpoint verdict_states (g : wgraph) (w : wstate) (pend : option (nat * option (list bytes))) (evs : list wevent) : list (nat * wstate) :=
  match evs with
  | [] => []
  | e :: rest =>
    match e with
    | WWrite n t => verdict_states g (mkW (fs_set (ws_fs w) n t) (ws_cache w) (ws_disc w) (ws_hashes w) (ws_tbl w) (ws_log w)) pend rest
    | WVerdict b v => (b, w) :: verdict_states g (fst (check_build_dirty g w b (get_wbuild g b))) pend rest
    | WFinish b term reported =>
      if (term =? 0)%N then verdict_states g w (Some (b, reported)) rest else verdict_states g w None rest
    | WAdopt b => verdict_states g w (Some (b, Some (disc_of w b))) rest
    | WRecord b _ | WNoRecord b =>
      match pend with
      | Some (b', reported) =>
        match record_finished w b (get_wbuild g b) reported with
        | Ok (w', _) => verdict_states g w' None rest
        | _ => []
        end
      | None => []
      end
    end
  end.

Lemma explain_trace_is_verdicts g locs : forall evs w pend,
  explain_trace g locs w pend evs =
  map (fun bw => (fst bw, explain_verdict g (snd bw) (fst bw) (get_wbuild g (fst bw)) (nth (fst bw) locs []))) (verdict_states g w pend evs).
Proof.
  induction evs as [|e evs IH]; intros w pend; [reflexivity|].
  destruct e as [b v|b term reported|b h|b|n t|b]; cbn [explain_trace verdict_states map fst snd].
  - f_equal. apply IH.
  - destruct (term =? 0)%N; apply IH.
  - destruct pend as [[b' rep]|]; [|reflexivity].
    destruct (record_finished w b (get_wbuild g b) rep) as [[w1 o]| | | |]; try reflexivity. apply IH.
  - destruct pend as [[b' rep]|]; [|reflexivity].
    destruct (record_finished w b (get_wbuild g b) rep) as [[w1 o]| | | |]; try reflexivity. apply IH.
  - apply IH.
  - apply IH.
Qed.
