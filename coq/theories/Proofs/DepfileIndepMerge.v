(* C15: the parser model meets the independent specification of Proofs/DepfileIndep.v.
   [merge_is_grouped]: the insert-or-extend fold the parser performs ([merge_targets], i.e.
   [smallmap_extend] as called by [df_parse_loop] with fixed = true) computes [grouped].
   Then the round trip and the read_depfile theorems restated without any model function on the
   right-hand side. *)
From N2 Require Import Model.All Proofs.DepfileSpec Proofs.DepfileRound.
From N2 Require Import Proofs.DepfileIndep Proofs.DepfileIndepFacts.

Lemma bytes_eqb_dec a b : bytes_eqb a b = if bytes_dec a b then true else false.
Proof.
  destruct (bytes_dec a b) as [E|N].
  - now apply bytes_eqb_spec.
  - destruct (bytes_eqb a b) eqn:E; [|reflexivity]. apply bytes_eqb_spec in E. contradiction.
Qed.

(* one [smallmap_extend] on a map with distinct keys, described pointwise *)
Lemma ext_map (f : bytes -> list bytes) t ps l :
  NoDup l ->
  smallmap_extend t ps (map (fun t' => (t', f t')) l) =
  map (fun t' => (t', f t' ++ if bytes_dec t t' then ps else [])) l ++
  (if in_dec bytes_dec t l then [] else [(t, ps)]).
Proof.
  induction 1 as [|u l Hu Hnd IH]; cbn [map smallmap_extend app].
  - destruct (in_dec bytes_dec t []) as [[]|_]. reflexivity.
  - rewrite bytes_eqb_dec. destruct (bytes_dec u t) as [->|Hne].
    + destruct (bytes_dec t t) as [_|Hc]; [|congruence].
      destruct (in_dec bytes_dec t (t :: l)) as [_|Hn]; [|exfalso; apply Hn; now left].
      rewrite app_nil_r. f_equal. apply map_ext_in. intros t' Ht'.
      destruct (bytes_dec t t') as [<-|_]; [contradiction | now rewrite app_nil_r].
    + destruct (bytes_dec t u) as [Hc|_]; [congruence|]. rewrite app_nil_r, IH. cbn [app]. f_equal. f_equal.
      destruct (in_dec bytes_dec t l) as [Hin|Hn], (in_dec bytes_dec t (u :: l)) as [Hin'|Hn'];
        try reflexivity.
      * exfalso. apply Hn'. now right.
      * exfalso. destruct Hin' as [Heq|Hin']; [congruence | contradiction].
Qed.

Lemma targets_snoc es t ps :
  targets (es ++ [(t, ps)]) = targets es ++ if in_dec bytes_dec t (targets es) then [] else [t].
Proof.
  induction es as [|e r IH]; cbn [app targets fst].
  - destruct (in_dec bytes_dec t []) as [[]|_]. reflexivity.
  - rewrite IH, remove_app. cbn [app]. f_equal. f_equal.
    destruct (bytes_dec t (fst e)) as [->|Hne].
    + destruct (in_dec bytes_dec (fst e) (fst e :: remove bytes_dec (fst e) (targets r))) as [_|Hn];
        [|exfalso; apply Hn; now left].
      destruct (in_dec bytes_dec (fst e) (targets r)); [reflexivity|].
      cbn [remove]. destruct (bytes_dec (fst e) (fst e)); [reflexivity | congruence].
    + destruct (in_dec bytes_dec t (targets r)) as [Hin|Hn],
               (in_dec bytes_dec t (fst e :: remove bytes_dec (fst e) (targets r))) as [Hin'|Hn'].
      * reflexivity.
      * exfalso. apply Hn'. right. apply in_remove_iff. now split.
      * exfalso. destruct Hin' as [Heq|Hin']; [congruence|]. apply in_remove_iff in Hin'. tauto.
      * cbn [remove]. destruct (bytes_dec (fst e) t); [congruence | reflexivity].
Qed.

Lemma prereqs_snoc t' es t ps :
  prereqs_of t' (es ++ [(t, ps)]) = prereqs_of t' es ++ if bytes_dec t t' then ps else [].
Proof.
  unfold prereqs_of, entries_of. rewrite filter_app, map_app, concat_app. f_equal.
  cbn [filter]. unfold is_for. cbn [fst].
  destruct (bytes_dec t t'); cbn [map concat snd]; [apply app_nil_r | reflexivity].
Qed.

Lemma grouped_snoc es t ps : grouped (es ++ [(t, ps)]) = smallmap_extend t ps (grouped es).
Proof.
  unfold grouped. rewrite targets_snoc, map_app, ext_map by apply targets_nodup. f_equal.
  - apply map_ext. intro t'. now rewrite prereqs_snoc.
  - destruct (in_dec bytes_dec t (targets es)) as [_|Hn]; [reflexivity|].
    cbn [map]. rewrite prereqs_snoc. destruct (bytes_dec t t) as [_|Hc]; [|congruence].
    rewrite prereqs_of_notin; [reflexivity|]. now rewrite <- targets_in.
Qed.

(* item 2 *)
Lemma merge_is_grouped es : merge_targets es = grouped es.
Proof.
  induction es as [|[t ps] es IH] using rev_ind; [reflexivity|].
  unfold merge_targets in *. rewrite fold_left_app. cbn [fold_left fst snd].
  now rewrite IH, grouped_snoc.
Qed.

Lemma depfile_roundtrip_indep es text :
  spells_d es text ->
  depfile_parse text = Ok (grouped es) /\ depfile_deps text = Ok (all_deps es).
Proof.
  intro H. pose proof (depfile_roundtrip es text H) as E. rewrite merge_is_grouped in E.
  split; [exact E|]. unfold depfile_deps. rewrite E. reflexivity.
Qed.

(* item 3, membership and multiplicity *)
Lemma depfile_deps_exactly_listed es text :
  spells_d es text ->
  exists l, depfile_deps text = Ok l /\
    (forall d, In d l <-> exists t ps, In (t, ps) es /\ In d ps) /\
    (forall d, count_occ bytes_dec l d = count_occ bytes_dec (concat (map snd es)) d).
Proof.
  intro H. exists (all_deps es). split; [apply (depfile_roundtrip_indep es text H)|].
  split; [apply all_deps_in | apply all_deps_count].
Qed.

(* item 3, order: the result is the textual reading of the entries after [regroup] *)
Lemma depfile_deps_regrouped es text :
  spells_d es text -> depfile_deps text = Ok (concat (map snd (regroup es))).
Proof.
  intro H. rewrite (proj2 (depfile_roundtrip_indep es text H)). now rewrite all_deps_regroup.
Qed.

Lemma regroup_spec es :
  Permutation (regroup es) es /\
  (forall t, entries_of t (regroup es) = entries_of t es) /\
  (forall e1 e2, before (regroup es) e1 e2 <->
     (fst e1 = fst e2 /\ before es e1 e2) \/
     (fst e1 <> fst e2 /\ first_before (map fst es) (fst e1) (fst e2) /\ In e1 es /\ In e2 es)) /\
  (regroup es = es <-> clustered es).
Proof.
  split; [apply regroup_perm|]. split; [apply regroup_same_target|].
  split; [apply regroup_order | apply regroup_id_iff].
Qed.

(* item 3, order, at the level of single prerequisite occurrences *)
Lemma depfile_deps_order es text :
  spells_d es text ->
  exists occ : list (bytes * bytes),
    depfile_deps text = Ok (map snd occ) /\
    (forall t d, In (t, d) occ <-> exists ps, In (t, ps) es /\ In d ps) /\
    (forall t, filter (is_for t) occ = filter (is_for t) (tagged es)) /\
    (forall t1 d1 t2 d2, before occ (t1, d1) (t2, d2) <->
       (t1 = t2 /\ before (tagged es) (t1, d1) (t2, d2)) \/
       (t1 <> t2 /\ first_before (map fst es) t1 t2 /\
        In (t1, d1) (tagged es) /\ In (t2, d2) (tagged es))).
Proof.
  intro H. exists (tagged (grouped es)). split.
  - rewrite all_deps_tagged. apply (depfile_roundtrip_indep es text H).
  - split; [intros t d; rewrite tagged_grouped_in; apply tagged_in|].
    split; [intro t; apply tagged_same_target | apply tagged_order].
Qed.

Lemma depfile_deps_textual_when_clustered es text :
  spells_d es text -> clustered es -> depfile_deps text = Ok (concat (map snd es)).
Proof.
  intros H Hc. rewrite (proj2 (depfile_roundtrip_indep es text H)). now rewrite all_deps_clustered.
Qed.
