(* C11: variable scoping.  Lemmas about eval_var / evaluate / bind_step / attr_lookup. *)
From Coq Require Import String.
From N2 Require Import Model.All.

(* ------------------------------------------------------------------------------------ *)
(* keys *)

Lemma bytes_eqb_refl (k : bytes) : bytes_eqb k k = true.
Proof. apply bytes_eqb_spec. reflexivity. Qed.

Lemma bytes_eqb_neq (a b : bytes) : a <> b -> bytes_eqb a b = false.
Proof.
  intro H. destruct (bytes_eqb a b) eqn:E; [|reflexivity].
  apply bytes_eqb_spec in E. contradiction.
Qed.

Lemma bytes_eqb_false_neq (a b : bytes) : bytes_eqb a b = false -> a <> b.
Proof. intros E H. subst. rewrite bytes_eqb_refl in E. discriminate. Qed.

Lemma assoc_insert_same {V} (k : bytes) (v : V) (l : list (bytes * V)) :
  assoc_b k (insert_b k v l) = Some v.
Proof.
  induction l as [|[k' v'] r IH]; cbn [insert_b assoc_b].
  - rewrite bytes_eqb_refl. reflexivity.
  - destruct (bytes_eqb k' k) eqn:E; cbn [assoc_b]; rewrite E; [reflexivity | exact IH].
Qed.

Lemma assoc_insert_other {V} (k x : bytes) (v : V) (l : list (bytes * V)) :
  k <> x -> assoc_b k (insert_b x v l) = assoc_b k l.
Proof.
  intro N. induction l as [|[k' v'] r IH]; cbn [insert_b assoc_b].
  - rewrite (bytes_eqb_neq x k) by congruence. reflexivity.
  - destruct (bytes_eqb k' x) eqn:E; cbn [assoc_b].
    + apply bytes_eqb_spec in E. subst k'.
      rewrite (bytes_eqb_neq x k) by congruence. reflexivity.
    + destruct (bytes_eqb k' k); [reflexivity | exact IH].
Qed.

(* ------------------------------------------------------------------------------------ *)
(* eval.rs *)

Lemma eval_first_env_wins e rest v es :
  assoc_b v e = Some es -> eval_var (e :: rest) v = evaluate rest es.
Proof. intro H. cbn [eval_var]. rewrite H. reflexivity. Qed.

Lemma eval_skip_env e rest v :
  assoc_b v e = None -> eval_var (e :: rest) v = eval_var rest v.
Proof. intro H. cbn [eval_var]. rewrite H. reflexivity. Qed.

Lemma eval_undefined envs v :
  (forall e, In e envs -> assoc_b v e = None) -> eval_var envs v = [].
Proof.
  induction envs as [|e rest IH]; intro H; [reflexivity|].
  rewrite eval_skip_env by (apply H; left; reflexivity).
  apply IH. intros e' I. apply H. right. exact I.
Qed.

Lemma evaluate_nil envs : evaluate envs [] = [].
Proof. reflexivity. Qed.

Lemma evaluate_cons_lit envs s r : evaluate envs (Lit s :: r) = s ++ evaluate envs r.
Proof. reflexivity. Qed.

Lemma evaluate_cons_var envs v r : evaluate envs (Var v :: r) = eval_var envs v ++ evaluate envs r.
Proof. reflexivity. Qed.

Lemma evaluate_app envs a b : evaluate envs (a ++ b) = evaluate envs a ++ evaluate envs b.
Proof. unfold evaluate. rewrite map_app, concat_app. reflexivity. Qed.

Lemma evaluate_lit envs s : evaluate envs [Lit s] = s.
Proof. unfold evaluate. cbn [map concat]. apply app_nil_r. Qed.

Lemma evaluate_var envs v : evaluate envs [Var v] = eval_var envs v.
Proof. unfold evaluate. cbn [map concat]. apply app_nil_r. Qed.

Lemma evaluate_undefined envs v :
  (forall e, In e envs -> assoc_b v e = None) -> evaluate envs [Var v] = [].
Proof. intro H. rewrite evaluate_var. apply eval_undefined. exact H. Qed.

(* variables occurring in an evalstring *)
Fixpoint es_vars (es : evalstring) : list bytes :=
  match es with
  | [] => []
  | Lit _ :: r => es_vars r
  | Var v :: r => v :: es_vars r
  end.

Lemma evaluate_ext envs envs' es :
  (forall y, In y (es_vars es) -> eval_var envs y = eval_var envs' y) ->
  evaluate envs es = evaluate envs' es.
Proof.
  induction es as [|[s|v] r IH]; intro H; [reflexivity| |].
  - rewrite !evaluate_cons_lit. f_equal. apply IH. exact H.
  - rewrite !evaluate_cons_var. f_equal.
    + apply H. left. reflexivity.
    + apply IH. intros y I. apply H. right. exact I.
Qed.

(* ------------------------------------------------------------------------------------ *)
(* file scope: plain strings *)

Lemma assoc_vars_env vs k :
  assoc_b k (vars_env vs) = option_map (fun s => [Lit s]) (assoc_b k vs).
Proof.
  induction vs as [|[k' s] r IH]; [reflexivity|].
  cbn [vars_env map assoc_b fst snd]. destruct (bytes_eqb k' k); [reflexivity | exact IH].
Qed.

Definition var_value (vs : vars) (y : bytes) : bytes :=
  match assoc_b y vs with Some s => s | None => [] end.

Lemma eval_var_file rest vs y :
  eval_var (vars_env vs :: rest) y =
  match assoc_b y vs with Some s => s | None => eval_var rest y end.
Proof.
  cbn [eval_var]. rewrite assoc_vars_env. destruct (assoc_b y vs) as [s|]; cbn [option_map].
  - cbn [map concat]. apply app_nil_r.
  - reflexivity.
Qed.

Lemma eval_var_file1 vs y : eval_var [vars_env vs] y = var_value vs y.
Proof. rewrite eval_var_file. unfold var_value. destruct (assoc_b y vs); reflexivity. Qed.

Lemma bind_step_value vs x v :
  assoc_b x (bind_step vs x v) = Some (evaluate [vars_env vs] v).
Proof. unfold bind_step. apply assoc_insert_same. Qed.

Lemma bind_step_other vs x v k :
  k <> x -> assoc_b k (bind_step vs x v) = assoc_b k vs.
Proof. unfold bind_step. apply assoc_insert_other. Qed.

Lemma top_down vs x v :
  bind_step vs x v = insert_b x (evaluate [vars_env vs] v) vs /\
  assoc_b x (bind_step vs x v) = Some (evaluate [vars_env vs] v) /\
  (forall k, k <> x -> assoc_b k (bind_step vs x v) = assoc_b k vs).
Proof.
  split; [reflexivity|]. split; [apply bind_step_value|].
  intros k N. apply bind_step_other. exact N.
Qed.

(* the value computed for a binding depends only on the current values of the variables it
   mentions *)
Lemma value_depends_on_mentioned vs vs' v :
  (forall y, In y (es_vars v) -> assoc_b y vs = assoc_b y vs') ->
  evaluate [vars_env vs] v = evaluate [vars_env vs'] v.
Proof.
  intro H. apply evaluate_ext. intros y I. rewrite !eval_var_file1. unfold var_value.
  rewrite (H y I). reflexivity.
Qed.

(* a later binding (of x itself or of anything else) leaves values already stored under
   other names untouched, even if they were computed from the old x *)
Lemma later_rebinding_no_effect vs x v y w k :
  k <> y -> assoc_b k (bind_step (bind_step vs x v) y w) = assoc_b k (bind_step vs x v).
Proof. intro N. apply bind_step_other. exact N. Qed.

Lemma self_reference vs x s :
  assoc_b x (bind_step vs x [Var x; Lit s]) =
  Some ((match assoc_b x vs with Some old => old | None => [] end) ++ s).
Proof.
  rewrite bind_step_value. f_equal.
  rewrite evaluate_cons_var, evaluate_lit, eval_var_file1. reflexivity.
Qed.

(* ------------------------------------------------------------------------------------ *)
(* build attributes *)

Lemma build_binding_in_file_scope bvars rule implicit fenv key v :
  assoc_b key bvars = Some v ->
  attr_lookup bvars rule implicit fenv key = Some (evaluate [fenv] v).
Proof. intro H. unfold attr_lookup. rewrite H. reflexivity. Qed.

Lemma build_binding_independent bvars bvars' rule rule' implicit implicit' fenv key v :
  assoc_b key bvars = Some v -> assoc_b key bvars' = Some v ->
  attr_lookup bvars rule implicit fenv key = attr_lookup bvars' rule' implicit' fenv key.
Proof.
  intros H H'. rewrite (build_binding_in_file_scope _ _ _ _ _ _ H).
  rewrite (build_binding_in_file_scope _ _ _ _ _ _ H'). reflexivity.
Qed.

Lemma sibling_not_visible bvars rule implicit fenv key y w :
  assoc_b key bvars = Some [Var y] -> assoc_b y bvars = Some w -> assoc_b y fenv = None ->
  attr_lookup bvars rule implicit fenv key = Some [].
Proof.
  intros H _ F. rewrite (build_binding_in_file_scope _ _ _ _ _ _ H). f_equal.
  apply evaluate_undefined. intros e [<-|[]]. exact F.
Qed.

Lemma rule_binding_chain bvars rule implicit fenv key v :
  assoc_b key bvars = None -> assoc_b key rule = Some v ->
  attr_lookup bvars rule implicit fenv key = Some (evaluate [implicit; bvars; fenv] v).
Proof. intros H R. unfold attr_lookup. rewrite H, R. reflexivity. Qed.

Lemma attr_absent bvars rule implicit fenv key :
  assoc_b key bvars = None -> assoc_b key rule = None ->
  attr_lookup bvars rule implicit fenv key = None.
Proof. intros H R. unfold attr_lookup. rewrite H, R. reflexivity. Qed.

Lemma chain_implicit_first (implicit bvars fenv : env) y es :
  assoc_b y implicit = Some es ->
  eval_var [implicit; bvars; fenv] y = evaluate [bvars; fenv] es.
Proof. apply eval_first_env_wins. Qed.

Lemma chain_build_shadows_file (implicit bvars fenv : env) y es :
  assoc_b y implicit = None -> assoc_b y bvars = Some es ->
  eval_var [implicit; bvars; fenv] y = evaluate [fenv] es.
Proof. intros I B. rewrite eval_skip_env by exact I. apply eval_first_env_wins. exact B. Qed.

Lemma chain_file_last (implicit bvars fenv : env) y :
  assoc_b y implicit = None -> assoc_b y bvars = None ->
  eval_var [implicit; bvars; fenv] y = eval_var [fenv] y.
Proof. intros I B. rewrite !eval_skip_env by assumption. reflexivity. Qed.

Lemma magic_vars l pb ins outs (bvars fenv : env) :
  eval_var [implicit_env l pb ins outs; bvars; fenv] (bs "in")
    = join_names l (firstn (pb_explicit_ins pb) ins) 32%N /\
  eval_var [implicit_env l pb ins outs; bvars; fenv] (bs "in_newline")
    = join_names l (firstn (pb_explicit_ins pb) ins) 10%N /\
  eval_var [implicit_env l pb ins outs; bvars; fenv] (bs "out")
    = join_names l (firstn (pb_explicit_outs pb) outs) 32%N /\
  eval_var [implicit_env l pb ins outs; bvars; fenv] (bs "out_newline")
    = join_names l (firstn (pb_explicit_outs pb) outs) 10%N.
Proof.
  repeat split.
  - erewrite chain_implicit_first by (vm_compute; reflexivity). apply evaluate_lit.
  - erewrite chain_implicit_first by (vm_compute; reflexivity). apply evaluate_lit.
  - erewrite chain_implicit_first by (vm_compute; reflexivity). apply evaluate_lit.
  - erewrite chain_implicit_first by (vm_compute; reflexivity). apply evaluate_lit.
Qed.

(* ------------------------------------------------------------------------------------ *)
(* paths on a build line *)

Lemma evaluate_path_uses l p envs :
  evaluate_path l p envs =
  match evaluate envs p with [] => Err (bs "empty path") | path => load_path l path end.
Proof. reflexivity. Qed.

Lemma bind_ok {A B} (o : outcome A) (f : A -> outcome B) r :
  bind o f = Ok r -> exists a, o = Ok a /\ f a = Ok r.
Proof. destruct o; cbn [bind]; try discriminate. intro H. eexists. split; [reflexivity | exact H]. Qed.

(* what a successful Loader::add_build did *)
Lemma loader_add_build_ok fixed l filename fvars pb l' :
  loader_add_build fixed l filename fvars pb = Ok l' ->
  exists l1 ins l2 outs rule b,
    evaluate_paths l (pb_ins pb) [pb_vars pb; vars_env fvars] = Ok (l1, ins) /\
    evaluate_paths l1 (pb_outs pb) [pb_vars pb; vars_env fvars] = Ok (l2, outs) /\
    assoc_b (pb_rule pb) (l_rules l2) = Some rule /\
    lb_file b = filename /\ lb_line b = pb_line pb /\
    lb_ins b = ins /\ lb_outs b = outs /\ lb_explicit_outs b = pb_explicit_outs pb /\
    lb_cmdline b = attr_lookup (pb_vars pb) rule (implicit_env l2 pb ins outs) (vars_env fvars) (bs "command") /\
    lb_desc b = attr_lookup (pb_vars pb) rule (implicit_env l2 pb ins outs) (vars_env fvars) (bs "description") /\
    lb_depfile b = attr_lookup (pb_vars pb) rule (implicit_env l2 pb ins outs) (vars_env fvars) (bs "depfile") /\
    graph_add_build fixed l2 b = Ok l'.
Proof.
  unfold loader_add_build. intro H.
  apply bind_ok in H as [[l1 ins] [E1 H]].
  apply bind_ok in H as [[l2 outs] [E2 H]].
  destruct (assoc_b (pb_rule pb) (l_rules l2)) as [rule|] eqn:ER; [|discriminate].
  apply bind_ok in H as [showinc [_ H]].
  apply bind_ok in H as [rsp [_ H]].
  exists l1, ins, l2, outs, rule. eexists.
  repeat split; try eassumption; reflexivity.
Qed.
