(* C12, loader level: load_manifest (fixed variant) ends with Ok, a diagnostic, or one of the
   known panics: 0 = empty manifest name, 1 = more than 60 path components (F4),
   60 = include nesting deeper than [depth] (F20). *)
From Coq Require Import String Lia ZifyBool.
From N2 Require Import Model.All Proofs.CanonBase Proofs.CanonProps Proofs.DepfileSafe.
From N2 Require Import Proofs.ParseSpec Proofs.ParseSafeWit Proofs.ParseSafeScan Proofs.ParseSafeStmt.

(* Ok with a postcondition, Err, or a known panic; nothing else *)
Definition lsafeq {A} (Q : A -> Prop) (r : outcome A) : Prop :=
  match r with
  | Ok a => Q a
  | Err _ => True
  | Panic s => s = 1%N \/ s = 60%N
  | OutOfBounds _ => False
  | OutOfFuel => False
  end.
Definition lsafe {A} (r : outcome A) : Prop := lsafeq (fun _ => True) r.

Lemma lsafeq_bind {A B} (Q : A -> Prop) (Q' : B -> Prop) (o : outcome A) (f : A -> outcome B) :
  lsafeq Q o -> (forall a, Q a -> lsafeq Q' (f a)) -> lsafeq Q' (bind o f).
Proof.
  intros Ho Hf. destruct o; cbn in *; auto.
Qed.

Lemma lsafeq_weaken {A} (Q Q' : A -> Prop) (o : outcome A) :
  (forall a, Q a -> Q' a) -> lsafeq Q o -> lsafeq Q' o.
Proof. intros H. destruct o; cbn; auto. Qed.

(* ------------------------------------------------------------------------------------ *)
(* file ids handed out by the loader are inside the file table *)

Lemma find_file_range : forall fs name i j, find_file fs name i = Some j -> i <= j < i + length fs.
Proof.
  induction fs as [|f fs IH]; intros name i j H; cbn [find_file] in H; [discriminate|].
  destruct (bytes_eqb (lf_name f) name).
  - injection H as <-. cbn [length]. lia.
  - apply IH in H. cbn [length]. lia.
Qed.

Definition id_ok (l0 : loader) (r : loader * nat) : Prop :=
  snd r < length (l_files (fst r)) /\ length (l_files l0) <= length (l_files (fst r)).

Lemma id_from_canonical_ok l c : id_ok l (id_from_canonical l c).
Proof.
  unfold id_from_canonical, id_ok.
  destruct (find_file (l_files l) c 0) as [i|] eqn:E; cbn [fst snd l_files].
  - apply find_file_range in E. lia.
  - rewrite app_length. cbn [length]. lia.
Qed.

Lemma evaluate_path_ok l p envs : lsafeq (id_ok l) (evaluate_path l p envs).
Proof.
  unfold evaluate_path. destruct (evaluate envs p) as [|c r]; [exact I|].
  unfold load_path.
  destruct (canon_nonempty_outcomes (c :: r)) as [[q E]|E]; [discriminate| |]; rewrite E; cbn [bind lsafeq].
  - apply id_from_canonical_ok.
  - left; reflexivity.
Qed.

Definition ids_ok (l0 : loader) (r : loader * list nat) : Prop :=
  Forall (fun id => id < length (l_files (fst r))) (snd r) /\
  length (l_files l0) <= length (l_files (fst r)).

Lemma evaluate_paths_ok envs : forall ps l, lsafeq (ids_ok l) (evaluate_paths l ps envs).
Proof.
  induction ps as [|p ps IH]; intro l; cbn [evaluate_paths].
  - cbn. split; [constructor | cbn; lia].
  - eapply lsafeq_bind; [apply evaluate_path_ok|].
    intros [l1 id] (Hid & Hlen). cbn [fst snd] in Hid, Hlen.
    eapply lsafeq_bind; [apply IH|].
    intros [l2 ids] (Hids & Hlen2). cbn [fst snd] in Hids, Hlen2.
    cbn. split; [|cbn; lia]. constructor; [cbn; lia | exact Hids].
Qed.

(* ------------------------------------------------------------------------------------ *)
(* Graph::add_build *)

Lemma update_file_length f : forall fs i, length (update_file fs i f) = length fs.
Proof.
  induction fs as [|x fs IH]; intros [|i]; cbn; auto.
Qed.

Lemma fold_update_length (g : nat -> lfile -> lfile) : forall ids fs,
  length (fold_left (fun fs id => update_file fs id (g id)) ids fs) = length fs.
Proof.
  induction ids as [|id ids IH]; intro fs; cbn [fold_left]; [reflexivity|].
  rewrite IH. apply update_file_length.
Qed.

Section FoldStep.
  Variable step : outcome (list lfile * bool * list bytes) -> nat -> outcome (list lfile * bool * list bytes).
  Hypothesis step_err : forall m id, step (Err m) id = Err m.
  Hypothesis step_ok : forall fs d w id, id < length fs ->
    (exists fs' d' w', step (Ok (fs, d, w)) id = Ok (fs', d', w') /\ length fs' = length fs)
    \/ (exists m, step (Ok (fs, d, w)) id = Err m).

  Lemma fold_step_err : forall ids m, fold_left step ids (Err m) = Err m.
  Proof.
    induction ids as [|id ids IH]; intro m; cbn [fold_left]; [reflexivity|].
    rewrite step_err. apply IH.
  Qed.

  Lemma fold_step_safe : forall ids fs d w,
    Forall (fun id => id < length fs) ids ->
    (exists x, fold_left step ids (Ok (fs, d, w)) = Ok x)
    \/ (exists m, fold_left step ids (Ok (fs, d, w)) = Err m).
  Proof.
    induction ids as [|id ids IH]; intros fs d w HF; cbn [fold_left].
    - left. eexists. reflexivity.
    - inversion HF as [|x xs Hid Hrest]; subst.
      destruct (step_ok fs d w id Hid) as [(fs' & d' & w' & E & Hlen)|(m & E)]; rewrite E.
      + apply IH. rewrite Hlen. exact Hrest.
      + right. exists m. apply fold_step_err.
  Qed.
End FoldStep.

Lemma graph_add_build_safe fixed l b :
  Forall (fun id => id < length (l_files l)) (lb_outs b) ->
  lsafe (graph_add_build fixed l b).
Proof.
  intro HF. unfold graph_add_build. cbv zeta.
  match goal with |- context [fold_left ?stp (lb_outs b) (Ok (?files, false, []))] =>
                  set (step := stp); set (fls := files) end.
  assert (HE : forall m id, step (Err m) id = Err m) by reflexivity.
  assert (HS : forall fs d w id, id < length fs ->
             (exists fs' d' w', step (Ok (fs, d, w)) id = Ok (fs', d', w') /\ length fs' = length fs)
             \/ (exists m, step (Ok (fs, d, w)) id = Err m)).
  { intros fs d w id Hid. unfold step. cbn [bind].
    destruct (nth_error fs id) as [f|] eqn:En; [|apply nth_error_None in En; lia].
    destruct (lf_input f) as [prev|].
    - destruct (prev =? length (l_builds l))%nat.
      + left. eexists _, _, _. split; reflexivity.
      + right. eexists. reflexivity.
    - left. eexists _, _, _. split; [reflexivity | apply update_file_length]. }
  assert (Hlen : length fls = length (l_files l)).
  { unfold fls.
    apply (fold_update_length
             (fun (_ : nat) f => mkLFile (lf_name f) (lf_input f) (lf_dependents f ++ [length (l_builds l)]))). }
  destruct (fold_step_safe step HE HS (lb_outs b) fls false []) as [([[files' dups] warns] & E)|(m & E)].
  - rewrite Hlen. exact HF.
  - rewrite E. cbn [bind].
    destruct dups; [destruct (remove_duplicates fixed (lb_outs b) (lb_explicit_outs b))|]; exact I.
  - rewrite E. exact I.
Qed.

Lemma loader_add_build_safe fixed l filename fvars pb :
  lsafe (loader_add_build fixed l filename fvars pb).
Proof.
  unfold loader_add_build, lsafe. cbv zeta.
  eapply lsafeq_bind; [apply evaluate_paths_ok|].
  intros [l1 ins] _.
  eapply lsafeq_bind; [apply evaluate_paths_ok|].
  intros [l2 outs] (Houts & _). cbn [fst snd] in Houts.
  destruct (assoc_b (pb_rule pb) (l_rules l2)) as [rule|]; [|exact I].
  eapply (lsafeq_bind (fun _ => True)).
  { destruct (attr_lookup _ _ _ _ (bs "deps")) as [d|]; [|exact I].
    destruct (bytes_eqb d (bs "gcc")); [exact I|].
    destruct (bytes_eqb d (bs "msvc")); exact I. }
  intros showinc _.
  eapply (lsafeq_bind (fun _ => True)).
  { destruct (attr_lookup _ _ _ _ (bs "rspfile")); destruct (attr_lookup _ _ _ _ (bs "rspfile_content"));
      exact I. }
  intros rsp _.
  apply graph_add_build_safe. cbn [lb_outs]. exact Houts.
Qed.

(* ------------------------------------------------------------------------------------ *)
(* Loader::parse_with_parser: the statement loop of parse_file as a top-level function *)

Section StmtsLoop.
  Variable fixed : bool.
  (* [rec reading' l path content vs] reads an included file; [reading] are the canonical names
     of the files being read right now (fix for F20) *)
  Variable rec : list bytes -> loader -> bytes -> bytes -> vars -> outcome loader.
  Variable fs : list (bytes * bytes).
  Variable reading : list bytes.
  Variables buf filename : bytes.

Fixpoint stmts_loop (n : nat) (l : loader) (s : scanner) (vs : vars) : outcome loader :=
  match n with
  | O => OutOfFuel
  | S n =>
    match parser_read fixed (parse_fuel buf) s vs with
    | SErr m o => do txt <- format_parse_error buf filename m o; Err txt
    | SPanic x => Panic x
    | SOob x => OutOfBounds x
    | SFuel => OutOfFuel
    | SOk (None, vs) _ => Ok (with_builddir l (assoc_b (bs "builddir") vs))
    | SOk (Some st, vs) s =>
      match st with
      | SInclude p | SSubninja p =>
        do r <- evaluate_path l p [vars_env vs];
        let '(l, id) := r in
        let path := file_nm l id in
        if existsb (bytes_eqb path) reading
        then Err (filename ++ bs ": " ++ path ++ bs " includes itself")
        else
        match assoc_b path fs with
        | None => Err (bs "read " ++ path ++ bs ": No such file or directory (os error 2)")
        | Some content =>
          do l <- rec (reading ++ [path]) l path content vs;
          stmts_loop n l s vs
        end
      | SDefault ds =>
        do r <- evaluate_paths l ds [vars_env vs];
        let '(l, ids) := r in
        stmts_loop n (with_defaults l (l_defaults l ++ ids)) s vs
      | SRule name rv => stmts_loop n (with_rules l (insert_b name rv (l_rules l))) s vs
      | SBuild pb =>
        do l <- loader_add_build fixed l filename vs pb;
        stmts_loop n l s vs
      | SPool name depth => stmts_loop n (with_pools l (insert_b name depth (l_pools l))) s vs
      end
    end
  end.
End StmtsLoop.

Lemma parse_file_r_unfold fixed depth fs reading l filename text inherited :
  parse_file_r fixed (S depth) fs reading l filename text inherited =
  (do s0 <- sc_new (text ++ [0%N]);
   stmts_loop fixed (parse_file_r fixed depth fs) fs reading (text ++ [0%N]) filename
              (S (length (text ++ [0%N]))) l s0 inherited).
Proof. reflexivity. Qed.

Lemma parse_file_unfold fixed depth fs l filename text inherited :
  parse_file fixed (S depth) fs l filename text inherited =
  (do s0 <- sc_new (text ++ [0%N]);
   stmts_loop fixed (parse_file_r fixed depth fs) fs [] (text ++ [0%N]) filename
              (S (length (text ++ [0%N]))) l s0 inherited).
Proof. reflexivity. Qed.

Lemma stmts_loop_safe text filename fs reading rec :
  (forall rd l p c vs, lsafe (rec rd l p c vs)) ->
  forall n l s vs,
    good_scanner text s -> length text + 2 <= n + sofs s ->
    lsafe (stmts_loop true rec fs reading (text ++ [0%N]) filename n l s vs).
Proof.
  intro Hrec.
  induction n as [|n IH]; intros l s vs Hg Hn.
  { destruct Hg as (_ & Ho & _). lia. }
  cbn [stmts_loop].
  pose proof (parser_read_safe_gen text s vs Hg) as H. unfold parser_read_ok in H.
  destruct (parser_read true (parse_fuel (text ++ [0%N])) s vs) as [[[stm|] vs'] s'|m o| | |];
    try contradiction.
  - destruct H as (Hg' & Hlt).
    assert (Hn' : length text + 2 <= n + sofs s') by lia.
    destruct stm as [name rv|pb|ds|p|p|name d].
    + apply IH; assumption.
    + eapply lsafeq_bind; [apply loader_add_build_safe|]. intros l1 _. apply IH; assumption.
    + eapply lsafeq_bind; [apply evaluate_paths_ok|]. intros [l1 ids] _. apply IH; assumption.
    + eapply lsafeq_bind; [apply evaluate_path_ok|]. intros [l1 id] _.
      cbv zeta. destruct (existsb (bytes_eqb (file_nm l1 id)) reading); [exact I|].
      destruct (assoc_b (file_nm l1 id) fs) as [content|]; [|exact I].
      eapply lsafeq_bind; [apply Hrec|]. intros l2 _. apply IH; assumption.
    + eapply lsafeq_bind; [apply evaluate_path_ok|]. intros [l1 id] _.
      cbv zeta. destruct (existsb (bytes_eqb (file_nm l1 id)) reading); [exact I|].
      destruct (assoc_b (file_nm l1 id) fs) as [content|]; [|exact I].
      eapply lsafeq_bind; [apply Hrec|]. intros l2 _. apply IH; assumption.
    + apply IH; assumption.
  - exact I.
  - destruct (format_parse_error_ok (text ++ [0%N]) filename m o H) as (txt & E).
    rewrite E. exact I.
Qed.

Lemma parse_file_r_safe fs : forall depth reading l filename text inherited,
  lsafe (parse_file_r true depth fs reading l filename text inherited).
Proof.
  induction depth as [|depth IH]; intros reading l filename text inherited.
  - cbn. right; reflexivity.
  - rewrite parse_file_r_unfold. rewrite sc_new_nul. cbn [bind].
    apply stmts_loop_safe.
    + intros rd l' p c vs. apply IH.
    + apply good_scanner_initial.
    + rewrite app_length. cbn. lia.
Qed.

Lemma parse_file_safe fs depth l filename text inherited :
  lsafe (parse_file true depth fs l filename text inherited).
Proof. apply parse_file_r_safe. Qed.

(* T3 *)
Lemma manifest_safe : forall depth fs name text,
  match load_manifest true depth fs name text with
  | Ok _ | Err _ => True
  | Panic s => s = 0%N \/ s = 1%N \/ s = 60%N
  | OutOfBounds _ => False
  | OutOfFuel => False
  end.
Proof.
  intros depth fs name text. unfold load_manifest.
  destruct (canon_outcomes name) as [[q E]|[E|E]]; rewrite E; cbn [bind]; [|auto|auto].
  destruct (id_from_canonical loader_new q) as [l id].
  pose proof (parse_file_safe fs depth l name text []) as H.
  destruct (parse_file true depth fs l name text []) as [a|m|x|x|]; cbn in H; try contradiction;
    try exact I.
  destruct H as [->| ->]; [right; left | right; right]; reflexivity.
Qed.

(* Panic 0 is the empty manifest name and nothing else *)
Lemma manifest_panic0 : forall depth fs name text,
  load_manifest true depth fs name text = Panic 0%N -> name = [].
Proof.
  intros depth fs name text. unfold load_manifest.
  destruct name as [|c r]; [reflexivity|]. intro H. exfalso.
  destruct (canon_nonempty_outcomes (c :: r)) as [[q E]|E]; [discriminate| |]; rewrite E in H;
    cbn [bind] in H; [|discriminate].
  destruct (id_from_canonical loader_new q) as [l id].
  pose proof (parse_file_safe fs depth l (c :: r) text []) as H'. rewrite H in H'.
  cbn in H'. destruct H' as [H'|H']; discriminate.
Qed.

(* F20 (after the fix): a manifest that includes itself is rejected with a diagnostic; the depth
   fuel is not reached *)
Lemma include_cycle_rejected :
  load_manifest true 5 [(bs "build.ninja", bs "include build.ninja" ++ [10%N])] (bs "build.ninja")
    (bs "include build.ninja" ++ [10%N])
  = Err (bs "build.ninja: build.ninja includes itself").
Proof. vm_compute. reflexivity. Qed.
