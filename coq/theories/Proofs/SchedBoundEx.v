(* Concrete instances of the C06 boundedness theorems: the hypotheses are satisfiable and the
   bounds are attained (or nearly so) on the graphs of SchedWantSpec.v / SchedLive.v; and the
   witnesses that EUpdate / EQuiesce can repeat without bound. *)
From Coq Require Import Lia ZArith List Bool Arith.
From N2 Require Import Model.All Proofs.SchedSpec Proofs.SchedInv Proofs.SchedWantSpec Proofs.SchedLive
     Proofs.SchedBoundSpec Proofs.SchedBound Proofs.SchedBoundStutter Proofs.SchedBoundComplete Proofs.SchedBoundAny.
Import ListNotations.

(* ------------------------------------------------------------------------------------ *)
(* the double-visit graph: step 1 is Ready, steps 0 and 2 wait (0 for 1, 2 for 0) *)

Definition dv_cf : config := mkConfig double_visit_graph 1 false.

Lemma dv_graph_wf : graph_wf double_visit_graph.
Proof.
  split.
  - intros f b H. destruct f as [|[|[|f]]]; cbn in H; try (inversion H; subst; cbn; lia).
    unfold file_input in H. cbn in H. destruct f; discriminate H.
  - intros b f L I. destruct b as [|[|[|b]]]; cbn in L, I |- *; try lia;
      destruct I as [<-|[]]; lia.
Qed.

Definition dv_s0 : bstates :=
  match want_file (want_fuel double_visit_graph) double_visit_graph (bs_new 3 [], []) [] 0 with
  | Ok ((s, _), _) => s
  | _ => bs_new 3 []
  end.

Definition dv_r0 : rstate := run_init dv_s0 None.

Lemma dv_reachable : reachable dv_cf [] dv_r0.
Proof.
  apply reach_init.
  eapply w_step with (l := []) (f := 0); [apply w_refl|].
  vm_compute. reflexivity.
Qed.

(* examined, found dirty, queued, started, finished, recorded *)
Definition full_evs (b : nat) : list event :=
  [EPopReady b; EVerdict b VDirty; ESet b Ready Queued; ESet b Queued Running; EStart b;
   EFinish b TSuccess; ERecord b; ESet b Running Done].

Definition dv_run : list event :=
  full_evs 1 ++ [ESet 0 Want Ready] ++ full_evs 0 ++ [ESet 2 Want Ready] ++ full_evs 2 ++
  [EReturn (Some true)].

Definition dv_clean_run : list event :=
  clean_evs 1 ++ [ESet 0 Want Ready] ++ clean_evs 0 ++ [ESet 2 Want Ready] ++ clean_evs 2.

(* every ESet is paid for: the run spends the whole potential, 11 of the 4 * 3 *)
Example ex_bounded_sets :
  exists cf decls r evs r',
    graph_wf (cf_graph cf) /\ reachable cf decls r /\ accepts cf r evs = Some r' /\
    count_ev is_set evs = run_potential (cf_graph cf) (rs_bs r) /\ run_potential (cf_graph cf) (rs_bs r') = 0 /\
    count_ev is_set evs = 11 /\ 4 * length (g_builds (cf_graph cf)) = 12.
Proof.
  exists dv_cf, [], dv_r0, dv_run. eexists.
  split; [exact dv_graph_wf|]. split; [exact dv_reachable|].
  split; [vm_compute; reflexivity|]. vm_compute. repeat split.
Qed.

(* each of the other classes attains its bound: one event per unfinished step *)
Example ex_bounded_events :
  exists cf decls r evs r',
    graph_wf (cf_graph cf) /\ reachable cf decls r /\ accepts cf r evs = Some r' /\
    unfinished (cf_graph cf) (rs_bs r) = 3 /\ length (g_builds (cf_graph cf)) = 3 /\
    count_ev is_pop evs = 3 /\ count_ev is_verdict evs = 3 /\ count_ev is_start evs = 3 /\
    count_ev is_finish evs = 3 /\ count_ev is_record evs = 3 /\ count_ev is_return evs = 1.
Proof.
  exists dv_cf, [], dv_r0, dv_run. eexists.
  split; [exact dv_graph_wf|]. split; [exact dv_reachable|].
  split; [vm_compute; reflexivity|]. vm_compute. repeat split.
Qed.

(* 27 events against the bound 9 * 3 + 1 *)
Example ex_trace_length_partial :
  exists cf decls r evs r',
    graph_wf (cf_graph cf) /\ reachable cf decls r /\ accepts cf r evs = Some r' /\
    count_ev (fun e => negb (is_stutter e)) evs = 27 /\ 9 * unfinished (cf_graph cf) (rs_bs r) + 1 = 28.
Proof.
  exists dv_cf, [], dv_r0, dv_run. eexists.
  split; [exact dv_graph_wf|]. split; [exact dv_reachable|].
  split; [vm_compute; reflexivity|]. vm_compute. repeat split.
Qed.

(* ------------------------------------------------------------------------------------ *)
(* stuttering: while step 0 of the no-validation graph runs (step 1 found clean), both EUpdate
   and EQuiesce are accepted and leave the state as it is, so they can repeat for ever *)

Definition noval_s0 : bstates :=
  match want_targets noval_graph (bs_new 2 [], []) [1] with
  | Ok (s, _) => s
  | _ => bs_new 2 []
  end.

Definition noval_wait : list event := noval_start ++ clean_evs 1.

Definition noval_waiting : rstate :=
  match accepts noval_cf (run_init noval_s0 None) noval_wait with
  | Some r => r
  | None => run_init noval_s0 None
  end.

Lemma noval_waiting_reachable : reachable noval_cf [] noval_waiting.
Proof.
  apply (reach_accepts noval_cf [] noval_wait (run_init noval_s0 None)); [|vm_compute; reflexivity].
  apply reach_init.
  eapply w_step with (l := []) (f := 1); [apply w_refl|].
  vm_compute. reflexivity.
Qed.

Theorem trace_length_refuted :
  exists cf decls r c n,
    graph_wf (cf_graph cf) /\ reachable cf decls r /\
    forall k, accepts cf r (repeat (EUpdate c) k) = Some r /\
              accepts cf r (repeat (EQuiesce n) k) = Some r /\
              accepts cf r (repeat (EUpdate c) k ++ repeat (EQuiesce n) k ++ finish_evs 0 ++ [EReturn (Some true)]) <> None.
Proof.
  exists noval_cf, [], noval_waiting, (mkC6 0 0 0 1 1 0), 1.
  split; [exact noval_graph_wf|]. split; [exact noval_waiting_reachable|].
  intro k.
  assert (A : accepts noval_cf noval_waiting (repeat (EUpdate (mkC6 0 0 0 1 1 0)) k) = Some noval_waiting)
    by (apply accepts_repeat; vm_compute; reflexivity).
  assert (B : accepts noval_cf noval_waiting (repeat (EQuiesce 1) k) = Some noval_waiting)
    by (apply accepts_repeat; vm_compute; reflexivity).
  split; [exact A|]. split; [exact B|].
  rewrite accepts_app, A, accepts_app, B. vm_compute. discriminate.
Qed.

(* the hypotheses of C06_after_quiesce hold there, and EFinish does follow *)
Example ex_after_quiesce :
  exists cf decls r n r1 e r2,
    graph_wf (cf_graph cf) /\ reachable cf decls r /\
    accept1 cf r (EQuiesce n) = Some r1 /\ accept1 cf r1 e = Some r2 /\ e = EFinish 0 TSuccess.
Proof.
  exists noval_cf, [], noval_waiting, 1. eexists. exists (EFinish 0 TSuccess). eexists.
  split; [exact noval_graph_wf|]. split; [exact noval_waiting_reachable|].
  split; [vm_compute; reflexivity|]. split; [vm_compute; reflexivity|reflexivity].
Qed.

(* removing the stuttering events: 2 + 2 + 4 events become 4 *)
Example ex_destutter :
  exists cf decls r evs r',
    graph_wf (cf_graph cf) /\ reachable cf decls r /\ accepts cf r evs = Some r' /\
    length evs = 8 /\ filter (fun e => negb (is_stutter e)) evs = finish_evs 0 ++ [EReturn (Some true)] /\
    9 * unfinished (cf_graph cf) (rs_bs r) + 1 = 10.
Proof.
  exists noval_cf, [], noval_waiting,
    (repeat (EUpdate (mkC6 0 0 0 1 1 0)) 2 ++ repeat (EQuiesce 1) 2 ++ finish_evs 0 ++ [EReturn (Some true)]).
  eexists.
  split; [exact noval_graph_wf|]. split; [exact noval_waiting_reachable|].
  split; [vm_compute; reflexivity|]. vm_compute. repeat split.
Qed.

(* ------------------------------------------------------------------------------------ *)
(* completion: from the initial state of the double-visit graph, the all-clean continuation
   has 11 events, against the bound 3 * 11 *)

Example ex_can_complete :
  exists cf decls r evs r',
    graph_wf (cf_graph cf) /\ 1 <= cf_parallelism cf /\ reachable cf decls r /\ rs_ctl r = CIdle /\
    accepts cf r (evs ++ [EReturn (Some (rs_failed r =? 0))]) = Some r' /\
    count_ev is_stutter evs = 0 /\ length evs = 11 /\ 3 * run_potential (cf_graph cf) (rs_bs r) = 33.
Proof.
  exists dv_cf, [], dv_r0, dv_clean_run. eexists.
  split; [exact dv_graph_wf|]. split; [cbn; lia|]. split; [exact dv_reachable|].
  split; [reflexivity|]. split; [vm_compute; reflexivity|]. vm_compute. repeat split.
Qed.

(* ------------------------------------------------------------------------------------ *)
(* completion against an environment: every step is found dirty, step 0's command fails.
   Step 1 runs, step 0 runs and fails, step 2 can never be promoted: the loop returns false
   after 16 events (bound 4 * 11 + 4) *)

Definition dv_vd (b : nat) : verdict := if b <? 3 then VDirty else VClean.
Definition dv_tm (b : nat) : term := if b =? 0 then TFailure else TSuccess.

Lemma dv_vd_ok : forall b, b_phony (get_build (cf_graph dv_cf) b) = true -> dv_vd b <> VDirty.
Proof.
  intros b H. destruct b as [|[|[|b]]]; try (cbn in H; discriminate H). cbn. discriminate.
Qed.

Definition dv_fail_run : list event :=
  full_evs 1 ++ [ESet 0 Want Ready] ++
  [EPopReady 0; EVerdict 0 VDirty; ESet 0 Ready Queued; ESet 0 Queued Running; EStart 0;
   EFinish 0 TFailure; ESet 0 Running Failed].

Example ex_can_complete_any :
  exists cf decls vd tm r evs ok r',
    graph_wf (cf_graph cf) /\ 1 <= cf_parallelism cf /\
    (forall b, b_phony (get_build (cf_graph cf) b) = true -> vd b <> VDirty) /\
    reachable cf decls r /\ rs_ctl r = CIdle /\
    accepts cf r (evs ++ [EReturn ok]) = Some r' /\ Forall (obeys vd tm) evs /\
    ok = Some false /\ length evs = 16 /\ 4 * run_potential (cf_graph cf) (rs_bs r) + 4 = 48.
Proof.
  exists dv_cf, [], dv_vd, dv_tm, dv_r0, dv_fail_run, (Some false). eexists.
  split; [exact dv_graph_wf|]. split; [cbn; lia|]. split; [exact dv_vd_ok|].
  split; [exact dv_reachable|]. split; [reflexivity|].
  split; [vm_compute; reflexivity|]. split; [repeat constructor|]. vm_compute. repeat split.
Qed.

(* from the middle of an iteration: step 1's command has just finished *)
Definition dv_mid : rstate :=
  match accepts dv_cf dv_r0 (firstn 6 (full_evs 1)) with Some r => r | None => dv_r0 end.

Lemma dv_mid_reachable : reachable dv_cf [] dv_mid.
Proof.
  apply (reach_accepts dv_cf [] (firstn 6 (full_evs 1)) dv_r0); [exact dv_reachable|].
  vm_compute. reflexivity.
Qed.

Example ex_no_dead_end :
  exists cf decls vd tm r evs ok r',
    graph_wf (cf_graph cf) /\ 1 <= cf_parallelism cf /\
    (forall b, b_phony (get_build (cf_graph cf) b) = true -> vd b <> VDirty) /\
    reachable cf decls r /\ rs_ctl r = CFinished 1 TSuccess false /\
    accepts cf r (evs ++ [EReturn ok]) = Some r' /\ Forall (obeys vd tm) evs /\
    ok = Some true /\ length evs = 20 /\ 4 * run_potential (cf_graph cf) (rs_bs r) + 7 = 43.
Proof.
  exists dv_cf, [], dv_vd, (fun _ => TSuccess), dv_mid, (removelast (skipn 6 dv_run)), (Some true). eexists.
  split; [exact dv_graph_wf|]. split; [cbn; lia|]. split; [exact dv_vd_ok|].
  split; [exact dv_mid_reachable|]. split; [reflexivity|].
  split; [vm_compute; reflexivity|]. split; [vm_compute; repeat constructor|]. vm_compute. repeat split.
Qed.

(* ------------------------------------------------------------------------------------ *)
(* consequently no function of the graph bounds the number of EUpdate events, the number of
   EQuiesce events, or the length of an accepted trace *)

Lemma count_ev_repeat p e k : p e = true -> count_ev p (repeat e k) = k.
Proof.
  intro H. induction k as [|k IH]; [reflexivity|].
  cbn [repeat]. rewrite count_ev_cons, H, IH. reflexivity.
Qed.

Theorem update_count_refuted : ~ bounded_by_graph (count_ev is_update).
Proof.
  intros [f H].
  destruct trace_length_refuted as (cf & decls & r & c & n & Hwf & Hr & Hk).
  destruct (Hk (S (f (cf_graph cf)))) as (A & _ & _).
  specialize (H cf decls r _ r Hwf Hr A).
  rewrite count_ev_repeat in H by reflexivity. lia.
Qed.

Theorem quiesce_count_refuted : ~ bounded_by_graph (count_ev is_quiesce).
Proof.
  intros [f H].
  destruct trace_length_refuted as (cf & decls & r & c & n & Hwf & Hr & Hk).
  destruct (Hk (S (f (cf_graph cf)))) as (_ & B & _).
  specialize (H cf decls r _ r Hwf Hr B).
  rewrite count_ev_repeat in H by reflexivity. lia.
Qed.

Theorem trace_length_unbounded : ~ bounded_by_graph (@length event).
Proof.
  intros [f H].
  destruct trace_length_refuted as (cf & decls & r & c & n & Hwf & Hr & Hk).
  destruct (Hk (S (f (cf_graph cf)))) as (_ & B & _).
  specialize (H cf decls r _ r Hwf Hr B).
  rewrite repeat_length in H. lia.
Qed.
