(* Non-vacuity of the hypotheses of Props/C02Hist.v: a concrete two-step project

       m <- cc a        (reports a and x/../h: the dependency h is discovered)
       o <- ld m b

   with two histories from a tree without a log:
     1. build o; edit a; build o      (both steps run twice)
     2. build o; edit b; build o      (the second invocation judges step 0 clean and runs step 1)
   The content of a file is the seconds part of its mtime (so H-mtime holds by construction);
   cc writes a+h, ld writes m+b. *)
From Coq Require Import String List NArith ZArith Lia Bool Arith.
From N2 Require Import Model.All Proofs.SchedSpec Proofs.DbSpec Proofs.WorldSpec Proofs.WorldDirty
     Proofs.JointSpec Proofs.HistSpec Proofs.HistMain Proofs.HistThms.
Import ListNotations.
Local Open Scope string_scope.

(* ------------------------------------------------------------------------------------ *)
(* the project *)

Definition xa := bs "a". Definition xb := bs "b". Definition xh := bs "h".
Definition xm := bs "m". Definition xo := bs "o".

Definition hx_g : graph :=
  mkGraph [mkBuild [0] 1 0 0 [2] false None; mkBuild [2; 1] 2 0 0 [3] false None]
          [mkFile xa None [0]; mkFile xb None [1]; mkFile xm (Some 0) [1]; mkFile xo (Some 1) []].
Definition hx_wg : wgraph :=
  mkWGraph [mkWBuild [xa] 1 0 0 [xm] (Some (bs "cc")) None; mkWBuild [xm; xb] 2 0 0 [xo] (Some (bs "ld")) None]
           [(xm, 0); (xo, 1)].
Definition hx_cf := mkConfig hx_g 1 false.

Definition hx_content := N.
Definition hx_stamp (n : bytes) (t : mtime) : hx_content := fst t.
Definition val (c : option hx_content) : N := match c with Some v => v | None => 0%N end.
Definition hx_cmd (cl : bytes) (rsp : option (bytes * bytes)) (c : bytes -> option hx_content)
  : (bytes -> hx_content) * list bytes :=
  if bytes_eqb cl (bs "cc") then (fun _ => (val (c xa) + val (c xh))%N, [xa; bs "x/../h"])
  else (fun _ => (val (c xm) + val (c xb))%N, []).

Definition GRl (l : list (nat * manifest)) (b : nat) (m : manifest) : Prop := In (b, m) l.

Notation hx_cont := (cont hx_content hx_stamp).
Notation hx_run := (run hx_content hx_cmd).

(* ------------------------------------------------------------------------------------ *)
(* static_ok *)

Lemma hx_graph_wf : graph_wf hx_g.
Proof.
  split.
  - intros f b. destruct f as [|[|[|[|f]]]]; cbn; intro H; try discriminate;
      try (destruct f; discriminate); injection H as <-; lia.
  - intros b f L. destruct b as [|[|b]]; [| |cbn in L; lia]; cbn; intuition lia.
Qed.

Lemma hx_agree : graphs_agree hx_g hx_wg.
Proof.
  constructor.
  - reflexivity.
  - intros i L. destruct i as [|[|i]]; [| |cbn in L; lia]; cbv zeta;
      (repeat split; try reflexivity; intro H; discriminate H).
  - intros f1 f2 L1 L2. cbn in L1, L2.
    destruct f1 as [|[|[|[|f1]]]]; try lia; destruct f2 as [|[|[|[|f2]]]]; try lia;
      intro H; try reflexivity; vm_compute in H; discriminate H.
  - intros f L. cbn in L. destruct f as [|[|[|[|f]]]]; try lia; vm_compute; reflexivity.
  - intros f b. split.
    + destruct f as [|[|[|[|f]]]]; cbn; intro H; try discriminate;
        try (destruct f; discriminate); injection H as <-; cbn; split; auto.
    + intros (L & I). destruct b as [|[|b]]; [| |cbn in L; lia]; cbn in I; destruct I as [<-|[]]; reflexivity.
Qed.

Lemma hx_run0 c : hx_run (get_wbuild hx_wg 0) c = (fun _ => (val (c xa) + val (c xh))%N, [xa; bs "x/../h"]).
Proof. reflexivity. Qed.
Lemma hx_run1 c : hx_run (get_wbuild hx_wg 1) c = (fun _ => (val (c xm) + val (c xb))%N, []).
Proof. reflexivity. Qed.

Lemma hx_hermetic : forall b, b < 2 -> hermetic hx_content hx_cmd (get_wbuild hx_wg b).
Proof.
  intros b L c1 c2 Hd Hr. destruct b as [|[|b]]; [| |lia].
  - assert (Ea : c2 xa = c1 xa) by (apply Hd; cbn; auto).
    assert (Eh : c2 xh = c1 xh).
    { apply (Hr (bs "x/../h") xh); [rewrite hx_run0; cbn; auto|discriminate|vm_compute; reflexivity]. }
    rewrite !hx_run0, Ea, Eh. reflexivity.
  - assert (Em : c2 xm = c1 xm) by (apply Hd; cbn; auto).
    assert (Eb : c2 xb = c1 xb) by (apply Hd; cbn; auto).
    rewrite !hx_run1, Em, Eb. reflexivity.
Qed.

Lemma hx_static : static_ok hx_content hx_cmd hx_g hx_wg.
Proof.
  constructor.
  - exact hx_graph_wf.
  - exact hx_agree.
  - intros b L. destruct b as [|[|b]]; [| |cbn in L; lia]; discriminate.
  - intros b n L H. destruct b as [|[|b]]; [| |cbn in L; lia]; cbn in H;
      repeat (destruct H as [<-|H]; [vm_compute; reflexivity|]); destruct H.
  - intros b L. destruct b as [|[|b]]; [| |cbn in L; lia]; vm_compute; reflexivity.
  - intros b L _. apply hx_hermetic. exact L.
Qed.

(* ------------------------------------------------------------------------------------ *)
(* checkers *)

Definition nc_b (m m0 : manifest) : bool :=
  if (hash_build m =? hash_build m0)%N then list_eqb N.eqb (manifest_stream m) (manifest_stream m0) else true.

Lemma nc_b_ok m m0 : nc_b m m0 = true -> no_collision m m0.
Proof.
  unfold nc_b, no_collision. intros H E. rewrite E, N.eqb_refl in H.
  apply (proj1 (list_eqb_spec N.eqb N.eqb_eq _ _)). exact H.
Qed.

Definition in_bounds_b (w : wr) : bool :=
  (N.of_nat (length (w_outs w)) <? 32768)%N && (N.of_nat (length (w_deps w)) <? 65536)%N &&
  forallb (fun n => (N.of_nat (length n) <? 32768)%N) (w_outs w ++ w_deps w)%list &&
  (w_hash w <? 18446744073709551616)%N.

Lemma in_bounds_b_ok w : in_bounds_b w = true -> in_bounds w.
Proof.
  unfold in_bounds_b, in_bounds. rewrite !andb_true_iff, forallb_forall, !N.ltb_lt.
  intros (((H1 & H2) & H3) & H4). repeat split; auto. intros n Hn. apply N.ltb_lt. now apply H3.
Qed.

Lemma limits_ok ws : forallb in_bounds_b ws = true ->
  (N.of_nat (length (concat (map (fun w => (w_outs w ++ w_deps w)%list) ws))) <? 16777216)%N = true ->
  log_limits ws.
Proof.
  intros H1 H2. split.
  - apply Forall_forall. intros w Hw. apply in_bounds_b_ok. rewrite forallb_forall in H1. now apply H1.
  - unfold table_small. now apply N.ltb_lt.
Qed.

(* the manifest of step b read from a tree, and its hash *)
Definition M (fs : fsmap) (b : nat) (deps : list bytes) : manifest :=
  match fs_manifest fs (get_wbuild hx_wg b) deps with Some m => m | None => mkManifest [] [] [] None [] end.
Definition Hh (fs : fsmap) (b : nat) (deps : list bytes) : N := hash_build (M fs b deps).

(* ------------------------------------------------------------------------------------ *)
(* trees and traces *)

Definition rep0 : option (list bytes) := Some [xa; bs "x/../h"].

Definition t0 : fsmap := [(xa, (5, 0)); (xb, (1, 0)); (xh, (2, 0))]%N.
Definition t1 := fs_set t0 xm (Some (7, 0)%N).
Definition t2 := fs_set t1 xo (Some (8, 0)%N).
(* history 1: edit a *)
Definition t3 := fs_set t2 xa (Some (10, 0)%N).
Definition t4 := fs_set t3 xm (Some (12, 0)%N).
Definition t5 := fs_set t4 xo (Some (13, 0)%N).
(* history 2: edit b *)
Definition u3 := fs_set t2 xb (Some (3, 0)%N).
Definition u4 := fs_set u3 xo (Some (10, 0)%N).

Definition hx_s : bstates :=
  match want_file (want_fuel hx_g) hx_g (bs_new 2 [], []) [] 3 with Ok ((s, _), _) => s | _ => bs_new 2 [] end.

(* both steps run: m and o get the mtimes tm, to; the trees at the two records are fa, fb *)
Definition tr_both (tm to_ : mtime) (fa fb : fsmap) : list jitem :=
  [JPop 0; JVerdict 0 VDirty; JSet 0 Ready Queued; JSet 0 Queued Running; JStart 0;
   JWrite xm (Some tm); JFinish 0 TSuccess rep0; JRecord 0 (Hh fa 0 [xh]); JSet 0 Running Done;
   JSet 1 Want Ready; JPop 1; JVerdict 1 VDirty; JSet 1 Ready Queued; JSet 1 Queued Running; JStart 1;
   JWrite xo (Some to_); JFinish 1 TSuccess None; JRecord 1 (Hh fb 1 []); JSet 1 Running Done;
   JReturn (Some true)].

(* step 0 is judged clean, step 1 runs *)
Definition tr_clean0 (to_ : mtime) (fb : fsmap) : list jitem :=
  [JPop 0; JVerdict 0 VClean; JSet 0 Ready Done;
   JSet 1 Want Ready; JPop 1; JVerdict 1 VDirty; JSet 1 Ready Queued; JSet 1 Queued Running; JStart 1;
   JWrite xo (Some to_); JFinish 1 TSuccess None; JRecord 1 (Hh fb 1 []); JSet 1 Running Done;
   JReturn (Some true)].

Definition tr1 := tr_both (7, 0)%N (8, 0)%N t1 t2.
Definition tr2 := tr_both (12, 0)%N (13, 0)%N t4 t5.
Definition tr2' := tr_clean0 (10, 0)%N u4.

Definition inv_of (tr : list jitem) : invocation := mkInv hx_cf [] hx_s None tr.

(* the states of the Work of an invocation, computed *)
Definition dummy_w : wstate := mkW [] [] [] [] [] [].
Definition loadw (fs : fsmap) (log : bytes) : wstate :=
  match load_state hx_wg fs log with Ok w => w | _ => dummy_w end.
Definition endw (w0 : wstate) (tr : list jitem) : wstate :=
  match replay hx_wg w0 None (proj_w false None tr) 0 with WOk w => w | _ => dummy_w end.
Definition endr (tr : list jitem) : rstate :=
  match accepts hx_cf (run_init hx_s None) (proj_s tr) with Some r => r | None => run_init hx_s None end.

Definition w00 := loadw t0 [].
Definition w01 := endw w00 tr1.
(* history 1 *)
Definition w10 := loadw t3 (ws_log w01).
Definition w11 := endw w10 tr2.
(* history 2 *)
Definition v10 := loadw u3 (ws_log w01).
Definition v11 := endw v10 tr2'.

Definition ws1 : list wr := trace_ws hx_wg None [] tr1.

(* the manifests recorded in the two histories *)
Definition recs1 : list (nat * manifest) := [(0, M t1 0 [xh]); (1, M t2 1 []); (0, M t4 0 [xh]); (1, M t5 1 [])].
Definition recs2 : list (nat * manifest) := [(0, M t1 0 [xh]); (1, M t2 1 []); (1, M u4 1 [])].

Lemma hx_wanted : wanted hx_g (bs_new 2 []) hx_s.
Proof.
  eapply (w_step hx_g (bs_new 2 []) (bs_new 2 []) hx_s [] _ 3 _); [constructor|].
  vm_compute. reflexivity.
Qed.

(* ------------------------------------------------------------------------------------ *)
(* the per-item premises *)

Lemma rep0_ok : rep_ok hx_wg rep0.
Proof.
  intros n d Hn Hne Hc. cbn in Hn. destruct Hn as [<-|[<-|[]]]; vm_compute in Hc; injection Hc as <-;
    vm_compute; auto.
Qed.

Lemma repN_ok : rep_ok hx_wg None.
Proof. intros n d []. Qed.

Ltac fresh_tac := intros o Ho; cbn in Ho; destruct Ho as [<-|[]]; vm_compute; reflexivity.

Ltac gr_tac :=
  let rep := fresh "rep" in let deps := fresh "deps" in let m0 := fresh "m0" in
  let H1 := fresh "H1" in let H2 := fresh "H2" in let H3 := fresh "H3" in
  intros rep deps m0 H1 H2 H3; injection H1 as <-; vm_compute in H2; injection H2 as <-;
  vm_compute in H3; injection H3 as <-; vm_compute; tauto.

Ltac nc_tac :=
  let m := fresh "m" in let m0 := fresh "m0" in let H1 := fresh "H1" in let H2 := fresh "H2" in
  intros m m0 H1 H2; vm_compute in H1; injection H1 as <-;
  unfold GRl in H2; cbn [In] in H2;
  repeat (destruct H2 as [H2|H2]; [try discriminate H2; injection H2 as <-; apply nc_b_ok; vm_compute; reflexivity|]);
  destruct H2.

Lemma keep0 : keep_deps (wb_dirtying (get_wbuild hx_wg 0)) (reported_names rep0) [] = Ok [xh].
Proof. vm_compute. reflexivity. Qed.
Lemma keep1 : keep_deps (wb_dirtying (get_wbuild hx_wg 1)) (reported_names None) [] = Ok [].
Proof. vm_compute. reflexivity. Qed.

Lemma trace_ok_both (GR : nat -> manifest -> Prop) d fs tm to_ fa fb :
  fa = fs_set fs xm (Some tm) -> fb = fs_set fa xo (Some to_) ->
  wf_mtime tm = true -> wf_mtime to_ = true ->
  fresh hx_content hx_stamp hx_cmd fa (get_wbuild hx_wg 0) ->
  fresh hx_content hx_stamp hx_cmd fb (get_wbuild hx_wg 1) ->
  GR 0 (M fa 0 [xh]) -> GR 1 (M fb 1 []) ->
  fs_manifest fa (get_wbuild hx_wg 0) [xh] <> None -> fs_manifest fb (get_wbuild hx_wg 1) [] <> None ->
  trace_ok hx_content hx_stamp hx_cmd GR hx_wg d fs None (tr_both tm to_ fa fb).
Proof.
  intros -> -> W1 W2 F1 F2 G1 G2 N1 N2. cbn [tr_both trace_ok].
  split; [exact W1|]. split; [split; [exact rep0_ok|split; [reflexivity|exact F1]]|]. split.
  { intros rep deps m0 H1 H2 H3. injection H1 as <-. rewrite keep0 in H2. injection H2 as <-.
    unfold M in G1. rewrite H3 in G1. exact G1. }
  split; [exact W2|]. split; [split; [exact repN_ok|split; [reflexivity|exact F2]]|]. split; [|exact I].
  intros rep deps m0 H1 H2 H3. injection H1 as <-. rewrite keep1 in H2. injection H2 as <-.
  unfold M in G2. rewrite H3 in G2. exact G2.
Qed.

(* ------------------------------------------------------------------------------------ *)
(* the two histories *)

Notation hx_hstep GR := (hstep hx_content hx_stamp hx_cmd GR hx_g hx_wg).
Notation hx_hsteps GR := (hsteps hx_content hx_stamp hx_cmd GR hx_g hx_wg).

Definition st0 := mkH t0 [] [].
Definition st1 := mkH t2 (ws_log w01) ws1.

(* first invocation (common to both histories) *)
Lemma hx_invoke1 (GR : nat -> manifest -> Prop) : GR 0 (M t1 0 [xh]) -> GR 1 (M t2 1 []) -> hx_hstep GR st0 (HInvoke (inv_of tr1)) st1.
Proof.
  intros G1 G2.
  assert (E : st1 = mkH (ws_fs w01) (ws_log w01) (trace_ws hx_wg None (h_ws st0) (i_tr (inv_of tr1))))
    by (vm_compute; reflexivity).
  rewrite E. apply (hs_invoke hx_content hx_stamp hx_cmd GR hx_g hx_wg st0 (inv_of tr1) w00 (endr tr1) w01).
  - reflexivity.
  - reflexivity.
  - vm_compute. reflexivity.
  - exact hx_wanted.
  - split; vm_compute; reflexivity.
  - cbn. split; [exists 0; cbn; auto|]. split; [exists 1; cbn; auto|exact I].
  - apply trace_ok_both; try reflexivity; auto; try fresh_tac; vm_compute; discriminate.
  - apply limits_ok; vm_compute; reflexivity.
Qed.

(* history 1: edit a, both steps run again *)
Definition ws2 : list wr := trace_ws hx_wg None ws1 tr2.
Definition st3 := mkH t3 (ws_log w01) ws1.
Definition st5 := mkH t5 (ws_log w11) ws2.

Lemma hx_invoke2 (GR : nat -> manifest -> Prop) :
  GR 0 (M t4 0 [xh]) -> GR 1 (M t5 1 []) -> hx_hstep GR st3 (HInvoke (inv_of tr2)) st5.
Proof.
  intros G1 G2.
  assert (E : st5 = mkH (ws_fs w11) (ws_log w11) (trace_ws hx_wg None (h_ws st3) (i_tr (inv_of tr2))))
    by (vm_compute; reflexivity).
  rewrite E. apply (hs_invoke hx_content hx_stamp hx_cmd GR hx_g hx_wg st3 (inv_of tr2) w10 (endr tr2) w11).
  - reflexivity.
  - reflexivity.
  - vm_compute. reflexivity.
  - exact hx_wanted.
  - split; vm_compute; reflexivity.
  - cbn. split; [exists 0; cbn; auto|]. split; [exists 1; cbn; auto|exact I].
  - apply trace_ok_both; try reflexivity; auto; try fresh_tac; vm_compute; discriminate.
  - apply limits_ok; vm_compute; reflexivity.
Qed.

(* history 2: edit b, step 0 is judged clean, step 1 runs *)
Definition ws2' : list wr := trace_ws hx_wg None ws1 tr2'.
Definition su3 := mkH u3 (ws_log w01) ws1.
Definition su4 := mkH u4 (ws_log v11) ws2'.

Lemma hx_invoke2' : hx_hstep (GRl recs2) su3 (HInvoke (inv_of tr2')) su4.
Proof.
  assert (E : su4 = mkH (ws_fs v11) (ws_log v11) (trace_ws hx_wg None (h_ws su3) (i_tr (inv_of tr2'))))
    by (vm_compute; reflexivity).
  rewrite E. apply (hs_invoke hx_content hx_stamp hx_cmd (GRl recs2) hx_g hx_wg su3 (inv_of tr2') v10 (endr tr2') v11).
  - reflexivity.
  - reflexivity.
  - vm_compute. reflexivity.
  - exact hx_wanted.
  - split; vm_compute; reflexivity.
  - cbn. split; [exists 1; cbn; auto|exact I].
  - cbn [inv_of i_tr tr2' tr_clean0 trace_ok h_fs su3]. split.
    { (* the manifest hashed by the clean verdict does not collide with a recorded one *) nc_tac. }
    split; [reflexivity|]. split; [split; [exact repN_ok|split; [reflexivity|fresh_tac]]|]. split; [|exact I].
    intros rep deps m0 H1 H2 H3. injection H1 as <-. rewrite keep1 in H2. injection H2 as <-.
    assert (G : GRl recs2 1 (M u4 1 [])) by (vm_compute; tauto).
    unfold M in G. change (fs_set u3 xo (Some (10, 0)%N)) with u4 in H3. rewrite H3 in G. exact G.
  - apply limits_ok; vm_compute; reflexivity.
Qed.

Lemma t0_wf : fs_wf t0.
Proof. repeat constructor. Qed.

Example hx_history1 :
  hx_hsteps (GRl recs1) st0 [HInvoke (inv_of tr1); HEdit xa (Some (10, 0)%N); HInvoke (inv_of tr2)] st5.
Proof.
  apply (hss_cons _ _ _ _ _ _ st0 _ st1); [apply hx_invoke1; vm_compute; tauto|].
  apply (hss_cons _ _ _ _ _ _ st1 _ st3); [apply (hs_edit _ _ _ _ _ _ st1 xa (Some (10, 0)%N)); reflexivity|].
  apply (hss_cons _ _ _ _ _ _ st3 _ st5); [apply hx_invoke2; vm_compute; tauto|]. constructor.
Qed.

Example hx_history2 :
  hx_hsteps (GRl recs2) st0 [HInvoke (inv_of tr1); HEdit xb (Some (3, 0)%N); HInvoke (inv_of tr2')] su4.
Proof.
  apply (hss_cons _ _ _ _ _ _ st0 _ st1); [apply hx_invoke1; vm_compute; tauto|].
  apply (hss_cons _ _ _ _ _ _ st1 _ su3); [apply (hs_edit _ _ _ _ _ _ st1 xb (Some (3, 0)%N)); reflexivity|].
  apply (hss_cons _ _ _ _ _ _ su3 _ su4); [exact hx_invoke2'|]. constructor.
Qed.

(* ------------------------------------------------------------------------------------ *)
(* the theorems applied to the two histories *)

Lemma hx_wanted_all b : b < 2 -> get_state hx_s b <> Unknown.
Proof. intro L. destruct b as [|[|b]]; [| |lia]; vm_compute; discriminate. Qed.

Lemma hx_cmds b : b < 2 -> wb_cmdline (get_wbuild hx_wg b) <> None.
Proof. intro L. destruct b as [|[|b]]; [| |lia]; discriminate. Qed.

Example hx_inv_history1 : HInv hx_content hx_stamp hx_cmd (GRl recs1) hx_g hx_wg st5.
Proof. exact (hist_invariant_from_empty _ _ _ _ _ _ hx_static t0 _ st5 t0_wf hx_history1). Qed.

Example hx_inv_history2 : HInv hx_content hx_stamp hx_cmd (GRl recs2) hx_g hx_wg su4.
Proof. exact (hist_invariant_from_empty _ _ _ _ _ _ hx_static t0 _ su4 t0_wf hx_history2). Qed.

Lemma st0_inv GR : HInv hx_content hx_stamp hx_cmd GR hx_g hx_wg st0.
Proof. exact (HInv_init hx_content hx_stamp hx_cmd GR hx_g hx_wg t0 t0_wf). Qed.

(* both steps are fresh on the final tree of history 1 ... *)
Example hx_fresh_history1 : forall b, b < 2 -> fresh hx_content hx_stamp hx_cmd t5 (get_wbuild hx_wg b).
Proof.
  intros b L.
  exact (proj1 (success_all_fresh _ _ _ (GRl recs1) _ _ hx_static st0
           [HInvoke (inv_of tr1); HEdit xa (Some (10, 0)%N)] (inv_of tr2) (removelast tr2) st5
           (st0_inv _) hx_history1 eq_refl b (hx_wanted_all b L) (hx_cmds b L))).
Qed.

(* ... and of history 2, where step 0 did not run in the last invocation *)
Example hx_fresh_history2 : forall b, b < 2 -> fresh hx_content hx_stamp hx_cmd u4 (get_wbuild hx_wg b).
Proof.
  intros b L.
  exact (proj1 (success_all_fresh _ _ _ (GRl recs2) _ _ hx_static st0
           [HInvoke (inv_of tr1); HEdit xb (Some (3, 0)%N)] (inv_of tr2') (removelast tr2') su4
           (st0_inv _) hx_history2 eq_refl b (hx_wanted_all b L) (hx_cmds b L))).
Qed.

(* the outputs are what a clean build of the final sources produces: 10+2 = 12, 12+1 = 13 *)
Example hx_clean_history1 : forall b, b < 2 -> forall o, In o (wb_outs (get_wbuild hx_wg b)) ->
  hx_cont t5 o = clean_cont hx_content hx_cmd hx_wg 2 (hx_cont t5) o.
Proof.
  intros b L.
  exact (equals_clean_build _ _ _ (GRl recs1) _ _ hx_static st0
           [HInvoke (inv_of tr1); HEdit xa (Some (10, 0)%N)] (inv_of tr2) (removelast tr2) st5
           (st0_inv _) hx_history1 eq_refl 2 (le_n 2) b (hx_wanted_all b L) (hx_cmds b L)).
Qed.

Example hx_clean_history2 : forall b, b < 2 -> forall o, In o (wb_outs (get_wbuild hx_wg b)) ->
  hx_cont u4 o = clean_cont hx_content hx_cmd hx_wg 2 (hx_cont u4) o.
Proof.
  intros b L.
  exact (equals_clean_build _ _ _ (GRl recs2) _ _ hx_static st0
           [HInvoke (inv_of tr1); HEdit xb (Some (3, 0)%N)] (inv_of tr2') (removelast tr2') su4
           (st0_inv _) hx_history2 eq_refl 2 (le_n 2) b (hx_wanted_all b L) (hx_cmds b L)).
Qed.

Example hx_values :
  hx_cont t5 xm = Some 12%N /\ hx_cont t5 xo = Some 13%N /\ hx_cont u4 xm = Some 7%N /\ hx_cont u4 xo = Some 10%N /\
  clean_cont hx_content hx_cmd hx_wg 2 (hx_cont t5) xo = Some 13%N /\
  clean_cont hx_content hx_cmd hx_wg 2 (hx_cont u4) xo = Some 10%N.
Proof. vm_compute. repeat split; reflexivity. Qed.

(* all hypotheses of the history theorems at once, for both histories; 4 and 3 records are written *)
Lemma hx_all_hyps1 :
  static_ok hx_content hx_cmd hx_g hx_wg /\
  HInv hx_content hx_stamp hx_cmd (GRl recs1) hx_g hx_wg st0 /\
  hsteps hx_content hx_stamp hx_cmd (GRl recs1) hx_g hx_wg st0
    ([HInvoke (inv_of tr1); HEdit xa (Some (10, 0)%N)] ++ [HInvoke (inv_of tr2)])%list st5 /\
  i_tr (inv_of tr2) = (removelast tr2 ++ [JReturn (Some true)])%list /\
  (forall b, b < 2 -> get_state (i_s (inv_of tr2)) b <> Unknown /\ wb_cmdline (get_wbuild hx_wg b) <> None) /\
  length (g_builds hx_g) <= 2 /\ length (h_ws st5) = 4.
Proof.
  split; [exact hx_static|]. split; [exact (st0_inv _)|]. split; [exact hx_history1|].
  split; [reflexivity|]. split; [intros b L; split; [exact (hx_wanted_all b L)|exact (hx_cmds b L)]|].
  split; [cbn; lia|vm_compute; reflexivity].
Qed.

Lemma hx_all_hyps2 :
  static_ok hx_content hx_cmd hx_g hx_wg /\
  HInv hx_content hx_stamp hx_cmd (GRl recs2) hx_g hx_wg st0 /\
  hsteps hx_content hx_stamp hx_cmd (GRl recs2) hx_g hx_wg st0
    ([HInvoke (inv_of tr1); HEdit xb (Some (3, 0)%N)] ++ [HInvoke (inv_of tr2')])%list su4 /\
  i_tr (inv_of tr2') = (removelast tr2' ++ [JReturn (Some true)])%list /\
  (forall b, b < 2 -> get_state (i_s (inv_of tr2')) b <> Unknown /\ wb_cmdline (get_wbuild hx_wg b) <> None) /\
  In (JVerdict 0 VClean) tr2' /\ length (h_ws su4) = 3.
Proof.
  split; [exact hx_static|]. split; [exact (st0_inv _)|]. split; [exact hx_history2|].
  split; [reflexivity|]. split; [intros b L; split; [exact (hx_wanted_all b L)|exact (hx_cmds b L)]|].
  split; [right; left; reflexivity|vm_compute; reflexivity].
Qed.
