(* C10, manifests WITH include/subninja, spelling independence: vocabulary (definitions only).

   Two texts that spell the same abstract file ([spells_file_v], LoadGraphFile.v) are read by the
   parser into statement lists that agree up to [norm_stmt] ([stmts_norm_eq], LoadGraphNorm.v).
   With several files the loader state after the first file is no longer a fixed one, so the
   invariance is stated as a SIMULATION: related statements take related loaders to related
   outcomes.

   [strict : bool] throughout:
     strict = true    the two spellings put every `build` keyword on the same line: the loaders are
                      the same (file table, steps, defaults, pools, builddir, warnings; the rule
                      tables up to [norm_eval] of the unexpanded bindings) and a failure is the
                      same failure with the same text;
     strict = false   the lines of `build` statements may differ: the same, except for [lb_line]
                      of the steps, the warnings, and the text of an error ("file:LINE: ..."). *)
From Coq Require Import String.
From N2 Require Import Model.All.
From N2 Require Import Proofs.ParseSpell.
From N2 Require Import Proofs.LoadGraphSpec Proofs.LoadGraphNorm Proofs.LoadGraphFile Proofs.LoadGraphNames.
From N2 Require Import Proofs.LoadInclSpec Proofs.LoadInclFlat.

(* ------------------------------------------------------------------------------------ *)
(* 1. statements: up to norm_eval, and (strict = false) up to the line of a `build` *)

Definition unline_build (b : pbuild) : pbuild :=
  mkPBuild (pb_rule b) 0 (pb_outs b) (pb_explicit_outs b) (pb_ins b) (pb_explicit_ins b)
           (pb_implicit_ins b) (pb_order_only_ins b) (pb_validation_ins b) (pb_vars b).

Definition unline_stmt (st : statement) : statement :=
  match st with SBuild b => SBuild (unline_build b) | _ => st end.

Definition stmt_line (st : statement) : Z :=
  match st with SBuild b => pb_line b | _ => 0%Z end.

Definition stmt_sim (strict : bool) (a b : statement) : Prop :=
  norm_stmt (unline_stmt a) = norm_stmt (unline_stmt b) /\
  (strict = true -> stmt_line a = stmt_line b).

(* statement lists as the parser returns them, each statement with the file-level variables *)
Definition stmts_sim (strict : bool) (a b : list (statement * vars)) : Prop :=
  Forall2 (fun x y => stmt_sim strict (fst x) (fst y) /\ snd x = snd y) a b.

(* flat sequences (LoadInclSpec.v): the same files, related statements, the same variables *)
Definition fitem_sim (strict : bool) (a b : fitem) : Prop :=
  match a, b with
  | FStmt f1 st1 vs1, FStmt f2 st2 vs2 => f1 = f2 /\ stmt_sim strict st1 st2 /\ vs1 = vs2
  | FEnd vs1, FEnd vs2 => vs1 = vs2
  | _, _ => False
  end.

(* ------------------------------------------------------------------------------------ *)
(* 2. loaders and outcomes *)

Definition unline_lb (b : lbuild) : lbuild :=
  mkLBuild (lb_file b) 0 (lb_ins b) (lb_explicit_ins b) (lb_implicit_ins b) (lb_order_only_ins b)
           (lb_outs b) (lb_explicit_outs b) (lb_cmdline b) (lb_desc b) (lb_depfile b)
           (lb_showincludes b) (lb_rspfile b) (lb_pool b) (lb_hide_success b) (lb_hide_progress b).

Definition build_sim (strict : bool) (b1 b2 : lbuild) : Prop :=
  unline_lb b1 = unline_lb b2 /\ (strict = true -> lb_line b1 = lb_line b2).

(* the same build graph: the same files under the same numbers (with producer and dependents),
   the same steps in order, the same default targets, pools, builddir; the rule tables hold
   unexpanded bindings and agree up to norm_eval *)
Record graph_sim (strict : bool) (l1 l2 : loader) : Prop := mkGraphSim {
  gs_files : l_files l1 = l_files l2;
  gs_builds : Forall2 (build_sim strict) (l_builds l1) (l_builds l2);
  gs_defaults : l_defaults l1 = l_defaults l2;
  gs_rules : norm_rules (l_rules l1) = norm_rules (l_rules l2);
  gs_pools : l_pools l1 = l_pools l2;
  gs_builddir : l_builddir l1 = l_builddir l2;
  gs_warnings : strict = true -> l_warnings l1 = l_warnings l2 }.

(* both succeed with related results, or both fail in the same way (strict: with the same text) *)
Definition outcome_sim {A} (strict : bool) (R : A -> A -> Prop) (o1 o2 : outcome A) : Prop :=
  match o1, o2 with
  | Ok a, Ok b => R a b
  | Err m1, Err m2 => strict = true -> m1 = m2
  | Panic x, Panic y => x = y
  | OutOfBounds x, OutOfBounds y => x = y
  | OutOfFuel, OutOfFuel => True
  | _, _ => False
  end.

(* the kind of an outcome *)
Definition outcome_kind {A} (o : outcome A) : N :=
  match o with Ok _ => 0 | Err _ => 1 | Panic _ => 2 | OutOfBounds _ => 3 | OutOfFuel => 4 end%N.

(* a step by name, its line forgotten *)
Definition unline_view (v : step_view) : step_view :=
  mkView (sv_file v) 0 (sv_ins v) (sv_explicit_ins v) (sv_implicit_ins v) (sv_order_only_ins v)
         (sv_outs v) (sv_explicit_outs v) (sv_cmdline v) (sv_desc v) (sv_depfile v)
         (sv_showincludes v) (sv_rspfile v) (sv_pool v) (sv_hide_success v) (sv_hide_progress v).

(* ------------------------------------------------------------------------------------ *)
(* 3. two file maps that spell the same files.

   [same_decl strict svs1 svs2]: the same abstract file / the same up to the lines of `build`. *)

Definition same_decl (strict : bool) (svs1 svs2 : list (statement * vars)) : Prop :=
  if strict then svs1 = svs2
  else Forall2 (fun x y => unline_stmt (fst x) = unline_stmt (fst y) /\ snd x = snd y) svs1 svs2.

(* [spells_files strict fs1 fs2 reading inherited t1 t2]: the texts [t1] and [t2], read with the
   variables [inherited] while the files [reading] are being read, spell one abstract file
   ([svs1] / [svs2], final variables [vs']); and for every include/subninja line of it that names a
   file (not one being read: that is an error in both), either neither file map has the file, or
   both have it and the two contents are again such a pair, read with the variables of the line. *)
Inductive spells_files (strict : bool) (fs1 fs2 : list (bytes * bytes))
  : list bytes -> vars -> bytes -> bytes -> Prop :=
| spells_files_node reading inherited t1 t2 svs1 svs2 vs' :
    spells_file_v 1 inherited svs1 vs' t1 -> spells_file_v 1 inherited svs2 vs' t2 ->
    ~ In 13%N t1 -> ~ In 13%N t2 ->
    same_decl strict svs1 svs2 ->
    (forall st vs p path,
       In (st, vs) svs1 -> is_child_line st p -> include_path p vs = Ok path ->
       existsb (bytes_eqb path) reading = false ->
       (assoc_b path fs1 = None /\ assoc_b path fs2 = None) \/
       (exists c1 c2, assoc_b path fs1 = Some c1 /\ assoc_b path fs2 = Some c2 /\
                      spells_files strict fs1 fs2 (reading ++ [path]) vs c1 c2)) ->
    spells_files strict fs1 fs2 reading inherited t1 t2.

(* what an include line asks of the two loaders of files ([rec1], [rec2]: run_file depth fs1 /
   run_file depth fs2): the children are loaded alike from related loaders *)
Definition child_sim (strict : bool)
           (rec1 rec2 : list bytes -> loader -> bytes -> bytes -> vars -> outcome loader)
           (fs1 fs2 : list (bytes * bytes)) (reading : list bytes) (st : statement) (vs : vars) : Prop :=
  forall p path, is_child_line st p -> include_path p vs = Ok path ->
    existsb (bytes_eqb path) reading = false ->
    match assoc_b path fs1, assoc_b path fs2 with
    | None, None => True
    | Some c1, Some c2 =>
      forall l1 l2, graph_sim strict l1 l2 ->
        outcome_sim strict (graph_sim strict) (rec1 (reading ++ [path]) l1 path c1 vs)
                                              (rec2 (reading ++ [path]) l2 path c2 vs)
    | _, _ => False
    end.
