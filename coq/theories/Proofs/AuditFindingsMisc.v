(* audit file: AuditFindingsMisc
   Machine-checked demonstrations of the defects / weaknesses found while auditing the STATEMENTS
   of Props/C07.v, C08.v, C13.v, C15.v, C16.v, C17.v, C20.v.  No theorem of these files was found
   to be vacuous (see AuditNonVacuousDb.v / AuditNonVacuousMisc.v); the findings below are
   under-specification, decorative premises, and definitional statements.
   Each finding: a lemma demonstrating it + the proposed corrected statement as a comment. *)
From Coq Require Import String Lia.
From N2 Require Import Model.All Model.Build.
From N2 Require Import Proofs.DbSpec Proofs.DbCodec Proofs.DbWriter Proofs.DbReader Proofs.DbMain Proofs.DbRenumber.
From N2 Require Import Proofs.CanonBase Proofs.RenderTrunc Proofs.RenderMsg.
From N2 Require Import Proofs.AuditNonVacuousDb.

(* ==================================================================================== *)
(* M1 (C07_append_total, kind a/d): the four premises about the log are decorative.
   The conclusion holds for ANY id table whatsoever, so the theorem says nothing about recovery;
   it is plain writer totality (the proof in DbMain.v discards the premises with [_ _ _ _]). *)

Lemma M1_append_total_needs_no_log : forall (tbl : list bytes) w,
  in_bounds w ->
  (N.of_nat (length tbl + length (w_outs w) + length (w_deps w)) < 16777216)%N ->
  exists bytes tbl', write_build tbl (w_outs w) (w_deps w) (w_hash w) = Ok (bytes, tbl').
Proof.
  intros tbl w Hw Hsz.
  destruct (write_build_ok tbl w Hw Hsz) as (news & oids & dids & E & _).
  eexists _, _. exact E.
Qed.
(* Proposed: state it as above (forall tbl), or drop it: C07_append_after_recovery_exact together
   with M1 is what is really meant. *)

(* ==================================================================================== *)
(* M2 (C07_whole_records_survive, kind b): the conclusion only says that SOMETHING is loaded for a
   step that had an applicable record in ws1 ([loaded_for st b <> None]); together with
   C07_survivors_are_written_records this still allows the recovered state to hold a STALE
   (superseded) record.  The development proves the exact statement internally
   (DbMain.open_prefix) but does not export it.  The exact statement: *)

Lemma last_applicable_app producer b : forall ws1 ws2 acc,
  last_applicable producer (ws1 ++ ws2) b acc =
  last_applicable producer ws2 b (last_applicable producer ws1 b acc).
Proof. induction ws1 as [|w ws1 IH]; intros ws2 acc; cbn [app last_applicable]; [reflexivity | apply IH]. Qed.

Lemma M2_whole_records_survive_exact : forall producer ws1 ws2 log1 log k,
  Forall in_bounds (ws1 ++ ws2) -> table_small (ws1 ++ ws2) ->
  log_of ws1 = Ok log1 -> log_of (ws1 ++ ws2) = Ok log -> (length log1 <= k)%nat ->
  exists st f j, db_open true producer (firstn k log) = OpenOk st f /\ is_prefix log1 f /\
    forall b, loaded_for st b = last_applicable producer (ws1 ++ firstn j ws2) b None.
Proof.
  intros producer ws1 ws2 log1 log k Hb Hs Hlog1 Hlog Hk.
  apply Forall_app in Hb as [Hb1 Hb2].
  change (N.of_nat (nnames (ws1 ++ ws2)) < 16777216)%N in Hs. rewrite nnames_app in Hs.
  destruct (log_full producer ws1 Hb1) as (recs1 & tbl1 & st0 & E1 & Hok1 & Hw1 & Hl1 & Hap1 & Ht1 & Hld1);
    [change (N.of_nat (nnames ws1) < 16777216)%N; lia|].
  destruct (log_from_ok ws2 tbl1 Hb2) as (recs2 & tbl2 & E2 & Hok2 & Hw2 & _); [lia|].
  pose proof (log_from_app _ _ _ _ _ _ _ E1 E2) as E.
  rewrite (log_of_from _ _ _ E1) in Hlog1. apply Ok_inj in Hlog1. subst log1.
  rewrite (log_of_from _ _ _ E) in Hlog. apply Ok_inj in Hlog. subst log.
  rewrite (app_assoc signature), firstn_app, firstn_all2, <- app_assoc by exact Hk.
  destruct (open_prefix producer recs1 st0 tbl1 ws2 recs2 tbl2 (k - length (signature ++ encs recs1)))
    as (st & m & j & H1 & _ & _ & H4); try assumption.
  exists st, (signature ++ encs (recs1 ++ firstn m recs2)), j. split; [exact H1|]. split.
  - exists (encs (firstn m recs2)). now rewrite encs_app, app_assoc.
  - intros b. rewrite H4, Hld1, last_applicable_app. reflexivity.
Qed.

(* the exact form gives what the pinned form cannot: a step untouched by the torn tail keeps exactly
   its LATEST record of ws1 *)
Corollary M2_latest_record_survives : forall producer ws1 ws2 log1 log k,
  Forall in_bounds (ws1 ++ ws2) -> table_small (ws1 ++ ws2) ->
  log_of ws1 = Ok log1 -> log_of (ws1 ++ ws2) = Ok log -> (length log1 <= k)%nat ->
  exists st f, db_open true producer (firstn k log) = OpenOk st f /\
    forall b, (forall w, In w ws2 -> applicable producer w b = false) ->
              loaded_for st b = last_applicable producer ws1 b None.
Proof.
  intros producer ws1 ws2 log1 log k Hb Hs H1 H2 Hk.
  destruct (M2_whole_records_survive_exact producer ws1 ws2 log1 log k Hb Hs H1 H2 Hk) as (st & f & j & Ho & _ & Hl).
  exists st, f. split; [exact Ho|]. intros b Hna. rewrite Hl, last_applicable_app.
  assert (G : forall ws acc, (forall w, In w ws -> applicable producer w b = false) ->
                             last_applicable producer ws b acc = acc).
  { induction ws as [|w ws IH]; intros acc Hws; cbn [last_applicable]; [reflexivity|].
    rewrite (Hws w (or_introl eq_refl)). apply IH. intros w' Hw'. apply Hws. now right. }
  apply G. intros w Hw. apply Hna. now apply In_firstn in Hw.
Qed.

(* the pinned conclusion is satisfied by a state holding the superseded record: the third conjunct
   of C07_whole_records_survive does not distinguish the right state from this wrong one *)
Example M2_pinned_conclusion_accepts_stale_state :
  let ws1 := firstn 2 nv_ws in
  let stale := mkLoaded [] [(0, ([bs "x"], 11%N))] in
  (forall b, last_applicable nv_prod ws1 b None <> None -> loaded_for stale b <> None) /\
  loaded_for stale 0 <> last_applicable nv_prod ws1 0 None.
Proof.
  split.
  - intros [|b] H; [vm_compute; discriminate|]. exfalso. apply H.
    unfold last_applicable, applicable, firstn, nv_ws. cbn [w_outs forallb].
    change (nv_prod (bs "a")) with (Some 0). cbn. reflexivity.
  - vm_compute. discriminate.
Qed.
(* Proposed corrected statement: M2_whole_records_survive_exact (and likewise export
   DbMain.prefix_sem, which gives [loaded_for st b = last_applicable producer (firstn j ws) b None]
   for every cut k, instead of C07_survivors_are_written_records). *)

(* ==================================================================================== *)
(* M3 (C07 as a whole, kind a - coverage): "every byte prefix of every build log" quantifies only
   over prefixes of CRASH-FREE logs ([log_of ws]).  A file obtained by crash, recovery and append is
   in general not of that form (path records written before the crash are kept, so the record
   order differs from any crash-free run), hence a SECOND crash is outside all C07 theorems.
   Concrete instance (data of AuditNonVacuousDb.v): log cut at 40, then step 1 appended. *)

Definition m3_file : bytes :=
  let r := db_open true nv_prod (firstn 40 nv_log) in
  open_file r ++ fst (unok ([], []) (write_build (ld_tbl (open_st r)) (w_outs nv_w) (w_deps nv_w) (w_hash nv_w))).

(* it loads exactly the records of [first write; nv_w] ... *)
Example M3_file_loads : exists st, db_open true nv_prod m3_file = OpenOk st m3_file /\
  forall b, loaded_for st b = last_applicable nv_prod [nth 0 nv_ws nv_w; nv_w] b None.
Proof.
  exists (open_st (db_open true nv_prod m3_file)). split; [vm_compute; reflexivity|].
  intros [|[|b]]; vm_compute; reflexivity.
Qed.

(* ... but it is not the crash-free log of these records, nor a prefix of the original log *)
Example M3_file_is_not_that_log :
  log_of [nth 0 nv_ws nv_w; nv_w] <> Ok m3_file /\ ~ is_prefix m3_file nv_log /\
  (exists l, log_of [nth 0 nv_ws nv_w; nv_w] = Ok l /\ length l = length m3_file).
Proof.
  split; [vm_compute; discriminate|]. split.
  - intros [t Ht]. apply (f_equal (firstn 37)) in Ht. vm_compute in Ht. discriminate Ht.
  - eexists. split; vm_compute; reflexivity.
Qed.

(* the property does hold for every prefix of this file (checked by computation), but no theorem of
   Props/C07.v covers it *)
Example M3_second_crash_is_fine_but_uncovered :
  forallb (fun k => match db_open true nv_prod (firstn k m3_file) with OpenOk _ _ => true | _ => false end)
          (seq 0 (S (length m3_file))) = true.
Proof. vm_compute. reflexivity. Qed.
(* Proposed: state C07 over the inductive set of reachable files
     reach signature | reach f -> write_build .. = Ok (b,_) -> reach (f ++ b)
                     | reach f -> db_open true p (firstn k f) = OpenOk st f' -> reach f'
   (DbMain.good_file is almost this invariant: add "ids in range" to it). *)

(* ==================================================================================== *)
(* M4 (C08_renumbering_invariant, kind a/b): its third premise is derivable from the first two
   (it is C08_renumbering_opens), and the conclusion is silent about steps OUTSIDE the image of
   sigma, where the renumbered state must hold nothing. *)

Lemma M4_third_premise_redundant : forall producer sigma log st1,
  (forall x y : nat, sigma x = sigma y -> x = y) ->
  db_open true producer log = OpenOk st1 log ->
  exists st2, db_open true (fun n => option_map sigma (producer n)) log = OpenOk st2 log.
Proof.
  intros producer sigma log st1 Hinj H1.
  destruct (db_renumbering_opens producer sigma log st1 log Hinj H1) as (st2 & H2 & _). now exists st2.
Qed.

Lemma assoc_outside_image {V} (sigma : nat -> nat) c : (forall b, sigma b <> c) ->
  forall l : list (nat * V), assoc_nat c (map (fun e => (sigma (fst e), snd e)) l) = None.
Proof.
  intros Hc. induction l as [|[k v] l IH]; [reflexivity|].
  cbn [map assoc_nat fst snd]. destruct (Nat.eqb_spec c (sigma k)) as [E|_]; [|exact IH].
  exfalso. now apply (Hc k).
Qed.

Lemma M4_outside_image_empty : forall producer sigma log st1 st2 f,
  (forall x y : nat, sigma x = sigma y -> x = y) ->
  db_open true producer log = OpenOk st1 f ->
  db_open true (fun n => option_map sigma (producer n)) log = OpenOk st2 f ->
  forall c, (forall b, sigma b <> c) -> loaded_for st2 c = None.
Proof.
  intros producer sigma log st1 st2 f Hinj H1 H2 c Hc.
  pose proof (db_open_renumber sigma Hinj producer true log st1 f H1) as H3.
  unfold producer' in H3. rewrite H3 in H2. injection H2 as <-.
  unfold loaded_for, map_st. cbn [ld_builds]. now apply assoc_outside_image.
Qed.
(* Proposed: drop the third premise (use C08_renumbering_opens as the main statement) and add the
   conjunct of M4_outside_image_empty. *)

(* ==================================================================================== *)
(* M5 (C13_total, kind b): the premise counts ALL components, but the stack of canon only holds the
   currently open ordinary names, so the premise is sufficient and far from necessary: paths with
   arbitrarily many components are canonicalised.  (The bound itself is sharp for plain names:
   see C13_total_nonvacuous.) *)

Fixpoint rep (n : nat) (l : bytes) : bytes := match n with O => [] | S n => l ++ rep n l end.

Example M5_total_beyond_the_premise :
  (length (comps (rep 100 (bs "a/../"))) = 200%nat /\ canon (rep 100 (bs "a/../")) = Ok (bs ".")) /\
  (length (comps (rep 61 (bs "../"))) = 61%nat /\ exists q, canon (rep 61 (bs "../")) = Ok q) /\
  (length (comps (rep 59 (bs "a/") ++ rep 30 (bs "./"))) = 89%nat /\
   exists q, canon (rep 59 (bs "a/") ++ rep 30 (bs "./")) = Ok q).
Proof.
  split; [split; vm_compute; reflexivity|].
  split; (split; [vm_compute; reflexivity | eexists; vm_compute; reflexivity]).
Qed.
(* Proposed: replace [length (comps p) <= 60] by a bound on the nesting depth, e.g.
   [forall k, depth (firstn k (comps p)) <= 60] with depth = number of ordinary names minus the
   ".." that follow them; or keep the simple premise and add the converse for plain names
   (61 names -> Panic 1) so that the pinned constant is justified. *)

(* observation (C13_normal_form): [normal_form] accepts ".." directly below the root, which canon
   produces; whether "/.." is a normal form is a specification choice the reader should know *)
Example M5b_normal_form_accepts_root_dotdot :
  canon (bs "/../a") = Ok (bs "/../a") /\ normal_form (bs "/../a") = true /\ sem (bs "/../a") <> sem (bs "/a").
Proof. split; [vm_compute; reflexivity|]. split; [vm_compute; reflexivity | vm_compute; discriminate]. Qed.

(* ==================================================================================== *)
(* M6 (C16_output_is_concat / C16_output_chunking_independent, kind d): [accumulate] is
   [fold_left app] by definition, and the statement is the list folklore
   fold_left app l [] = concat l, valid for any element type: it carries no information about the
   read loop of process_posix.rs.  [accumulate] is also absent from the extraction list of
   theories/Extract.v, so it is never compared with the real code. *)

Lemma M6_fold_left_app_concat {A} (l : list (list A)) : fold_left (fun acc c => acc ++ c) l [] = concat l.
Proof.
  enough (H : forall acc, fold_left (fun a c => a ++ c) l acc = acc ++ concat l) by apply (H []).
  induction l as [|c l IH]; intro acc; cbn [fold_left concat]; [now rewrite app_nil_r|].
  now rewrite IH, app_assoc.
Qed.

Lemma M6_output_is_concat_is_that_folklore : forall chunks, accumulate chunks = concat chunks.
Proof. exact (@M6_fold_left_app_concat N). Qed.

(* the second statement follows from the first for ANY function in place of [accumulate] *)
Lemma M6_chunking_is_a_corollary (f : list bytes -> bytes) :
  (forall c, f c = concat c) -> forall c1 c2, concat c1 = concat c2 -> f c1 = f c2.
Proof. intros Hf c1 c2 H. now rewrite !Hf. Qed.
(* Proposed: either model the read loop (read returns 0..n bytes, EINTR, loop until EOF on both
   pipes) and prove the output independent of the schedule, or delete the two statements and rely
   on the black-box leg named in the header of C16.v. *)

(* ==================================================================================== *)
(* M7 (all C17_* theorems, kind d): [build] is a 15-line case table over three abstract
   parameters; every C17 theorem is read off that table after rewriting with the hypotheses.
   [Model/Build.v] is neither part of Model/All.v nor of the extraction list in Extract.v (so,
   contrary to README.md, this model is not diffed against src/run.rs), and [build] is never
   instantiated with the Load / Sched / World models.  The theorems therefore say nothing about
   the real orchestration. *)

Section M7.
  Context {W G : Type}.
  Variable load : W -> outcome G.
  Variable regen : G -> W -> W * option bool * nat.
  Variable main : G -> bool -> W -> W * option bool * nat.

  (* the whole content of the model, by reflexivity *)
  Lemma M7_build_is_its_case_table w0 :
    build load regen main w0 =
    match load w0 with
    | Ok g0 =>
      let '(w1, r1, t1) := regen g0 w0 in
      match r1, t1 with
      | None, _ => mkBT w1 BError None
      | Some false, _ => mkBT w1 BFailed None
      | Some true, O => finish_main main g0 true w1 0
      | Some true, S _ => match load w1 with Ok g1 => finish_main main g1 false w1 t1 | _ => mkBT w1 BError None end
      end
    | _ => mkBT w0 BError None
    end.
  Proof. unfold build. destruct (load w0); reflexivity. Qed.

  Ltac table := unfold build, finish_main; cbn.

  Lemma M7_failure_stops_is_case_analysis w0 g0 w1 r1 t1 :
    load w0 = Ok g0 -> regen g0 w0 = (w1, r1, t1) -> r1 <> Some true ->
    bt_main_on (build load regen main w0) = None /\ bt_world (build load regen main w0) = w1 /\
    (forall n, bt_result (build load regen main w0) <> BOk n).
  Proof. intros Hl Hr Hn. table. rewrite Hl, Hr. destruct r1 as [[|]|]; cbn; intuition congruence. Qed.

  Lemma M7_no_regen_is_case_analysis w0 g0 w1 :
    load w0 = Ok g0 -> regen g0 w0 = (w1, Some true, 0) ->
    bt_main_on (build load regen main w0) = Some (g0, true).
  Proof. intros Hl Hr. table. rewrite Hl, Hr. destruct (main g0 true w1) as [[w2 [[|]|]] t2]; reflexivity. Qed.

  Lemma M7_reload_error_is_case_analysis w0 g0 w1 t1 :
    load w0 = Ok g0 -> regen g0 w0 = (w1, Some true, S t1) -> (forall g, load w1 <> Ok g) ->
    bt_result (build load regen main w0) = BError /\ bt_main_on (build load regen main w0) = None.
  Proof. intros Hl Hr Hn. table. rewrite Hl, Hr. destruct (load w1) eqn:E; cbn; auto. now destruct (Hn a). Qed.
End M7.
(* Proposed: instantiate [build] with load := Load.load_state on the World model, regen/main :=
   the Sched run functions, add [build] to Extract.v and to the differential test, and state
   C17 on that instance (e.g. "the manifest text parsed for the main phase is the content of
   build.ninja in the world AFTER the regeneration commands ran"). *)

(* ==================================================================================== *)
(* M8 (C20_truncate_safe / _utf8 / _fits, kind b): the three statements do not say that the result is
   the LONGEST admissible prefix: a function that drops the whole string whenever it does not fit
   satisfies all three. *)

Definition truncate_bad (s : bytes) (max : nat) : bytes := if (length s <=? max)%nat then s else [].

Lemma M8_bad_truncate_satisfies_C20 :
  (forall s max, (length (truncate_bad s max) <= max)%nat /\ (exists t, s = truncate_bad s max ++ t) /\
                 is_char_boundary s (length (truncate_bad s max)) = true) /\
  (forall s max, utf8_ok s = true -> utf8_ok (truncate_bad s max) = true) /\
  (forall s max, (length s <= max)%nat -> truncate_bad s max = s).
Proof.
  unfold truncate_bad. split; [|split].
  - intros s max. destruct (length s <=? max)%nat eqn:E.
    + apply Nat.leb_le in E. split; [exact E|]. split; [exists []; now rewrite app_nil_r | apply icb_len].
    + split; [cbn; lia|]. split; [now exists s | reflexivity].
  - intros s max H. destruct (length s <=? max)%nat; [exact H | reflexivity].
  - intros s max H. apply Nat.leb_le in H. now rewrite H.
Qed.

(* the missing property, which does hold of the model: no char boundary lies between the cut and max *)
Lemma M8_trunc_boundary_maximal s : forall max j,
  (trunc_boundary s max < j <= max)%nat -> is_char_boundary s j = false.
Proof.
  induction max as [|m IH]; intros j Hj; cbn [trunc_boundary] in Hj.
  - destruct (is_char_boundary s 0); lia.
  - destruct (is_char_boundary s (S m)) eqn:E; [lia|].
    destruct (Nat.eq_dec j (S m)) as [->|Hne]; [exact E | apply IH; lia].
Qed.

Lemma M8_truncate_maximal s max j :
  (max < length s)%nat -> (length (truncate s max) < j <= max)%nat -> is_char_boundary s j = false.
Proof.
  intros Hlen Hj. unfold truncate in Hj.
  assert (E : (length s <=? max)%nat = false) by (apply Nat.leb_gt; exact Hlen).
  rewrite E in Hj. pose proof (trunc_boundary_le s max) as Hle.
  rewrite firstn_length, Nat.min_l in Hj by lia.
  now apply (M8_trunc_boundary_maximal s max j).
Qed.

Example M8_bad_truncate_differs : truncate_bad (bs "hello") 3 = [] /\ truncate (bs "hello") 3 = bs "hel".
Proof. split; vm_compute; reflexivity. Qed.
(* Proposed: add to C20_truncate_safe the conjunct
     (max < length s -> forall j, length (truncate s max) < j <= max -> is_char_boundary s j = false). *)

(* ==================================================================================== *)
(* M9 (C20_task_message / _fits, kind b): nothing is said about the CONTENT of the shortened
   message (that it keeps a prefix of the message, the "..." and the time note): a function that
   prints nothing when the message does not fit satisfies both statements. *)

Definition task_message_bad (m : bytes) (secs : N) (cols : nat) : outcome bytes :=
  if (length m + length (time_note secs) <? cols)%nat then Ok (m ++ time_note secs) else Ok [].

Lemma M9_bad_task_message_satisfies_C20 :
  (forall m secs cols, exists r, task_message_bad m secs cols = Ok r /\ (length r <= cols)%nat /\
                                 (utf8_ok m = true -> utf8_ok r = true)) /\
  (forall m secs cols, (length m + length (time_note secs) < cols)%nat ->
                       task_message_bad m secs cols = Ok (m ++ time_note secs)).
Proof.
  unfold task_message_bad. split.
  - intros m secs cols. destruct (length m + length (time_note secs) <? cols)%nat eqn:E.
    + apply Nat.ltb_lt in E. eexists. split; [reflexivity|]. split; [rewrite app_length; lia|].
      intros Hm. apply utf8_app; [exact Hm | apply time_note_utf8].
    + exists []. split; [reflexivity|]. split; [cbn; lia | reflexivity].
  - intros m secs cols H. apply Nat.ltb_lt in H. now rewrite H.
Qed.

(* the missing property, which does hold of the model *)
Lemma M9_task_message_shape m secs cols :
  (length (time_note secs) + 3 <= cols)%nat -> (cols <= length m + length (time_note secs))%nat ->
  task_message m secs cols =
    Ok (truncate m (cols - (length (time_note secs) + 3)) ++ bs "..." ++ time_note secs).
Proof.
  intros H1 H2. unfold task_message. cbv zeta.
  assert (E : (cols <=? length m + length (time_note secs))%nat = true) by (apply Nat.leb_le; exact H2).
  rewrite E. rewrite truncate_fits; [now rewrite <- app_assoc|].
  pose proof (truncate_length_le m (cols - (length (time_note secs) + 3))) as L.
  rewrite !app_length. change (length (bs "...")) with 3. lia.
Qed.

(* below that width the time note itself is cut (nat subtraction truncates at 0 in the model) *)
Example M9_narrow_terminal : task_message (bs "cc -c foo.c") 1000000%N 10 = Ok (bs "... (10000").
Proof. vm_compute. reflexivity. Qed.
(* Proposed: add M9_task_message_shape (and a statement for cols < note + 3) to C20. *)

(* ==================================================================================== *)
(* M10 (C20_truncate_utf8, C20_task_message, kind c): [utf8_ok] only checks the lead/continuation
   structure.  It accepts byte strings that Rust's [str] can never hold, so "utf8_ok r = true" in
   the conclusions is weaker than "r is valid UTF-8" (harmless as a premise, weak as a conclusion). *)

Example M10_utf8_ok_is_lax :
  utf8_ok [192; 128]%N = true (* overlong NUL *) /\ utf8_ok [237; 160; 128]%N = true (* surrogate D800 *) /\
  utf8_ok [247; 191; 191; 191]%N = true (* above U+10FFFF *).
Proof. repeat split. Qed.
(* Proposed: either strengthen [utf8_ok] to the real well-formedness table, or (simpler and
   sufficient) keep C20_truncate_safe's conjunct "truncate s max is a prefix of s ending on a char
   boundary of s" as THE statement and note that validity of prefixes at boundaries is Rust's own
   invariant. *)

(* ==================================================================================== *)
(* M11 (C07_pinned_refuted, kind e - statement only): the existential is also satisfied by cuts
   inside the 8-byte signature, which is not the defect F5/F6 is about (a torn RECORD).  The witness
   actually used (k = 10, inside the first path record) is the realistic one; see
   C07_pinned_refuted_witness_is_realistic in AuditNonVacuousDb.v. *)

Example M11_pinned_refuted_degenerate_witness :
  exists m, db_open false (fun _ => None) (firstn 3 nv_log) = OpenErr m.
Proof. eexists. vm_compute. reflexivity. Qed.
(* Proposed: add [(8 <= k)%nat] and [Forall in_bounds ws /\ table_small ws] to the statement. *)

(* ==================================================================================== *)
(* observation (Model/Db.v, guarded by the premises): [enc_id] accepts the id 2^24, which [u24le]
   writes as id 0.  [table_small] and the side condition of C07_append_* keep every id below 2^24, so
   the theorems are not affected; the premise [< 16777216] cannot be relaxed to [<=]. *)
Example M12_enc_id_wraps_at_the_boundary : enc_id 16777216 = Ok [0; 0; 0]%N /\ enc_id 0 = Ok [0; 0; 0]%N.
Proof. split; reflexivity. Qed.

(* ==================================================================================== *)
(* observation M13 (DbSpec.in_bounds, kind c): [bytes = list N] and [in_bounds] does not ask the
   elements of a name to be below 256.  This is harmless for C07/C08 (names are copied verbatim and
   the reader is length-driven; every header field is produced by u16le/u24le/u64le on a bounded
   number), but the "log" of such records is not a byte string, so the theorems are slightly more
   general than the file format.  The length/id/hash encoders do wrap outside the guarded range: *)
Example M13_non_byte_names_roundtrip :
  let ws := [mkWr [[1000%N; 70000%N]] [[300%N]] 5%N] in
  let p := fun n : bytes => if bytes_eqb n [1000%N; 70000%N] then Some 0 else None in
  Forall in_bounds ws /\ table_small ws /\
  exists log st, log_of ws = Ok log /\ In 70000%N log /\ db_open true p log = OpenOk st log /\
                 loaded_for st 0 = Some ([[300%N]], 5%N).
Proof.
  split; [repeat (apply Forall_cons; [in_bounds_tac|]); apply Forall_nil|].
  split; [vm_compute; reflexivity|].
  eexists _, _. split; [vm_compute; reflexivity|]. split; [vm_compute; tauto|].
  split; vm_compute; reflexivity.
Qed.

Example M13_encoders_wrap_outside_the_guards :
  u16le 65536 = u16le 0 /\ u24le 16777216 = u24le 0 /\ u64le 18446744073709551616 = u64le 0 /\
  u16le 300 = [44; 1]%N /\ of_le [300; 0]%N = 300%N.
Proof. repeat split. Qed.

(* ==================================================================================== *)
(* M14 (C15_roundtrip, kind d - specification reuses the implementation): the right-hand side
   [merge_targets d] is a fold of [smallmap_extend], the very helper the parser model calls (with
   fixed = true), so C15_roundtrip cannot detect a wrong merge; only the ORDER-insensitive
   C15_deps_all_listed and the no-repeated-target C15_deps_in_order are independent of it. *)
From N2 Require Import Proofs.DepfileSpec Proofs.DepfileExamples.

Lemma M14_merge_targets_is_the_parser_helper d :
  merge_targets d = fold_left (fun acc e => smallmap_extend (fst e) (snd e) acc) d [].
Proof. reflexivity. Qed.

(* an independent reading: targets in order of first occurrence, each with the concatenation of the
   prerequisites of all its entries, in file order *)
Fixpoint first_occ (seen l : list bytes) : list bytes :=
  match l with
  | [] => []
  | t :: r => if existsb (bytes_eqb t) seen then first_occ seen r else t :: first_occ (t :: seen) r
  end.
Definition merge_spec (d : list (bytes * list bytes)) : list (bytes * list bytes) :=
  map (fun t => (t, concat (map snd (filter (fun e => bytes_eqb (fst e) t) d)))) (first_occ [] (map fst d)).

Example M14_merge_spec_agrees_on_examples :
  merge_targets ex1_d = merge_spec ex1_d /\ merge_targets ex2_d = merge_spec ex2_d /\
  merge_targets f13_d = merge_spec f13_d /\
  merge_targets [(bs "a", [bs "x"]); (bs "b", [bs "y"]); (bs "a", [bs "z"]); (bs "b", []); (bs "c", [bs "x"])]
  = [(bs "a", [bs "x"; bs "z"]); (bs "b", [bs "y"]); (bs "c", [bs "x"])].
Proof. repeat split; vm_compute; reflexivity. Qed.
(* Proposed: state C15_roundtrip with [merge_spec] (prove [merge_targets d = merge_spec d] once). *)

(* exhaustive check of [merge_targets d = merge_spec d] for all 7381 entry lists of length <= 4 over
   three targets and three prerequisite lists *)
Definition m14_entries : list (bytes * list bytes) :=
  flat_map (fun t => map (fun v => (t, v)) [[]; [bs "x"]; [bs "y"; bs "z"]]) [bs "a"; bs "b"; bs "c"].
Fixpoint m14_lists (n : nat) : list (list (bytes * list bytes)) :=
  match n with
  | O => [[]]
  | S n => [] :: flat_map (fun d => map (fun e => e :: d) m14_entries) (m14_lists n)
  end.
Definition entry_eqb (a b : bytes * list bytes) : bool :=
  bytes_eqb (fst a) (fst b) && list_eqb bytes_eqb (snd a) (snd b).

Example M14_merge_spec_agrees_exhaustively :
  forallb (fun d => list_eqb entry_eqb (merge_targets d) (merge_spec d)) (m14_lists 4) = true /\
  N.of_nat (length (m14_lists 4)) = 7381%N.
Proof. split; vm_compute; reflexivity. Qed.

(* ==================================================================================== *)
(* M3, continued: the proposed corrected form of C07 is provable with the lemmas that are already in
   Db*.v.  [reach p f]: the file [f] can be produced by any interleaving of
   "open (recovering a torn tail)", "append one in-bounds record" and "crash anywhere". *)

Lemma apply_prefix_ok : forall fixed producer rs1 rs2 st st2,
  apply_records fixed producer (rs1 ++ rs2) st = Ok st2 ->
  exists st1, apply_records fixed producer rs1 st = Ok st1.
Proof.
  induction rs1 as [|r rs1 IH]; intros rs2 st st2 H; [now exists st|].
  cbn [app apply_records] in *. destruct r as [name|outs deps hash]; [now apply (IH rs2 _ st2)|].
  destruct (unique_build fixed producer (ld_tbl st) outs None false) as [u| | | |]; try discriminate.
  cbn [bind] in *.
  destruct (names_of (ld_tbl st) deps) as [dn| | | |]; try discriminate.
  cbn [bind] in *. destruct u; now apply (IH rs2 _ st2).
Qed.

Lemma M3_good_file_prefix producer f st k : good_file producer f st ->
  exists st' f', db_open true producer (firstn k f) = OpenOk st' f' /\ good_file producer f' st' /\
                 is_prefix f' f /\ (length f' <= Nat.max k 8)%nat.
Proof.
  intros (rs & -> & Hok & Hap).
  destruct (Nat.lt_ge_cases k 8) as [L|L].
  - exists ld_init, signature. split; [|split; [|split]].
    + apply db_open_short; [|reflexivity]. pose proof (firstn_le_length k (signature ++ encs rs)). lia.
    + apply good_file_init.
    + now exists (encs rs).
    + rewrite length_signature. lia.
  - rewrite firstn_app, firstn_all2, length_signature by (rewrite length_signature; exact L).
    destruct (encs_firstn rs (k - 8) Hok) as (m & p & E & Hp).
    rewrite <- (firstn_skipn m rs) in Hap.
    destruct (apply_prefix_ok _ _ _ _ _ _ Hap) as (st1 & Hap1).
    assert (Hok1 : Forall rec_ok (firstn m rs)) by now apply Forall_firstn.
    exists st1, (signature ++ encs (firstn m rs)). split; [|split; [|split]].
    + rewrite E. now apply db_open_encs.
    + exists (firstn m rs). repeat split; assumption.
    + exists (encs (skipn m rs)). now rewrite <- app_assoc, <- encs_app, firstn_skipn.
    + pose proof (firstn_le_length (k - 8) (encs rs)) as Lk. rewrite E, app_length in Lk.
      rewrite app_length, length_signature. lia.
Qed.

Inductive reach (producer : bytes -> option nat) : bytes -> Prop :=
| reach_new : reach producer signature
| reach_append f st w b t :
    reach producer f -> db_open true producer f = OpenOk st f -> in_bounds w ->
    (N.of_nat (length (ld_tbl st) + length (w_outs w) + length (w_deps w)) < 16777216)%N ->
    write_build (ld_tbl st) (w_outs w) (w_deps w) (w_hash w) = Ok (b, t) ->
    reach producer (f ++ b)
| reach_crash f k st f' :
    reach producer f -> db_open true producer (firstn k f) = OpenOk st f' -> reach producer f'.

Lemma M3_reach_good producer f : reach producer f -> exists st, good_file producer f st.
Proof.
  induction 1 as [|f st w b t _ (st0 & Hg) Ho Hw Hsz Hwb|f k st f' _ (st0 & Hg) Ho].
  - exists ld_init. apply good_file_init.
  - rewrite (good_file_open _ _ _ Hg) in Ho. injection Ho as <-.
    destruct (good_append producer f st0 w b t Hg Hw Hsz Hwb) as (st' & Hg' & _). now exists st'.
  - destruct (M3_good_file_prefix producer f st0 k Hg) as (st' & f'' & Ho' & Hg' & _).
    rewrite Ho in Ho'. injection Ho' as <- <-. now exists st.
Qed.

(* "every byte prefix of every REACHABLE build log opens, to a prefix of it, idempotently" *)
Theorem M3_every_reachable_prefix_opens producer f k : reach producer f ->
  exists st f', db_open true producer (firstn k f) = OpenOk st f' /\ is_prefix f' f /\
                (length f' <= Nat.max k 8)%nat /\ db_open true producer f' = OpenOk st f' /\
                reach producer f'.
Proof.
  intros Hr. destruct (M3_reach_good producer f Hr) as (st0 & Hg).
  destruct (M3_good_file_prefix producer f st0 k Hg) as (st & f' & Ho & Hg' & Hp & Hl).
  exists st, f'. split; [exact Ho|]. split; [exact Hp|]. split; [exact Hl|].
  split; [now apply good_file_open | exact (reach_crash producer f k st f' Hr Ho)].
Qed.

(* crash-free logs are reachable, so this subsumes C07_prefix_opens *)
Lemma M3_log_from_reach producer : forall ws f st tbl b tbl',
  reach producer f -> good_file producer f st -> ld_tbl st = tbl ->
  Forall in_bounds ws -> (N.of_nat (length tbl + nnames ws) < 16777216)%N ->
  log_from tbl ws = Ok (b, tbl') -> reach producer (f ++ b).
Proof.
  induction ws as [|w ws IH]; intros f st tbl b tbl' Hr Hg Ht Hb Hsz Hl.
  - cbn in Hl. injection Hl as <- <-. now rewrite app_nil_r.
  - inversion Hb as [|? ? Hw Hws]; subst. rewrite nnames_cons in Hsz. cbn [log_from] in Hl.
    destruct (write_build (ld_tbl st) (w_outs w) (w_deps w) (w_hash w)) as [[b1 t1]| | | |] eqn:Ew; try discriminate.
    cbn [bind] in Hl.
    destruct (log_from t1 ws) as [[b2 t2]| | | |] eqn:E2; try discriminate. cbn [bind] in Hl.
    injection Hl as <- <-.
    assert (Hsz1 : (N.of_nat (length (ld_tbl st) + length (w_outs w) + length (w_deps w)) < 16777216)%N) by lia.
    destruct (good_append producer f st w b1 t1 Hg Hw Hsz1 Ew) as (st' & Hg' & Ht' & _).
    rewrite app_assoc.
    apply (IH (f ++ b1) st' t1 b2 t2); try assumption.
    + exact (reach_append producer f st w b1 t1 Hr (good_file_open _ _ _ Hg) Hw Hsz1 Ew).
    + destruct (write_build_ok (ld_tbl st) w Hw Hsz1) as (news & oids & dids & E & Hlen & _).
      rewrite E in Ew. injection Ew as _ <-. rewrite app_length. lia.
Qed.

Corollary M3_crash_free_logs_are_reachable producer ws log :
  Forall in_bounds ws -> table_small ws -> log_of ws = Ok log -> reach producer log.
Proof.
  intros Hb Hs Hlog. unfold log_of in Hlog.
  destruct (log_from [] ws) as [[b t]| | | |] eqn:E; try discriminate. cbn [bind fst] in Hlog.
  injection Hlog as <-.
  apply (M3_log_from_reach producer ws signature ld_init [] b t);
    [apply reach_new | apply good_file_init | reflexivity | exact Hb | exact Hs | exact E].
Qed.

(* and the file of the instance above, which no C07 theorem covers, is reachable *)
Example M3_file_is_reachable : reach nv_prod m3_file.
Proof.
  pose (r := db_open true nv_prod (firstn 40 nv_log)).
  assert (Hr : reach nv_prod (open_file r)).
  { apply (reach_crash nv_prod nv_log 40 (open_st r) (open_file r)).
    - apply (M3_crash_free_logs_are_reachable nv_prod nv_ws nv_log nv_ws_in_bounds nv_ws_small nv_log_ok).
    - vm_compute. reflexivity. }
  unfold m3_file. fold r.
  apply (reach_append nv_prod (open_file r) (open_st r) nv_w _
           (snd (unok ([], []) (write_build (ld_tbl (open_st r)) (w_outs nv_w) (w_deps nv_w) (w_hash nv_w)))) Hr).
  - vm_compute. reflexivity.
  - in_bounds_tac.
  - vm_compute. reflexivity.
  - vm_compute. reflexivity.
Qed.
