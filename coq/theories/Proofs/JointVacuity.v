(* Why the statements of C03_null_build_invocation / C03_null_build_invocation_returned changed.

   They used to carry the premise

     forall ws1, log_is w1 ws1 -> Forall in_bounds ws1 /\ table_small ws1

   ("every record list the log after Work 1 could have been written from is within the limits of
   the record format").  [log_is w ws] does not determine the hashes in [ws]: the writer stores
   the hash modulo 2^64 (Db.enc_build), so bumping the hash of the last record by 2^64 gives a
   second record list with the same log and the same id table, and that one is not [in_bounds].
   Hence no World state whose log holds at least one build record satisfies the old premise, and
   the two theorems said nothing unless Work 1 left a log without records.

   (The same holds for the other narrowed fields: the record counts are written modulo 2^16.
   So a premise about ALL record lists of a log cannot be repaired by a weaker bound either; the
   repaired theorems name the one record list Work 1 wrote, [ws0 ++ work_records wg w1 tr1].) *)
From Coq Require Import Lia NArith List.
From N2 Require Import Model.All Proofs.DbSpec Proofs.WorldSpec.
Import ListNotations.

(* the same record with the hash shifted by 2^64 *)
Definition bump (x : wr) : wr := mkWr (w_outs x) (w_deps x) (w_hash x + 18446744073709551616).

Lemma enc_build_bump outs deps h :
  enc_build outs deps (h + 18446744073709551616) = enc_build outs deps h.
Proof.
  unfold enc_build.
  replace ((h + 18446744073709551616) mod 18446744073709551616)%N with (h mod 18446744073709551616)%N;
    [reflexivity|].
  rewrite <- (N.mul_1_l 18446744073709551616) at 2. rewrite N.mod_add by discriminate. reflexivity.
Qed.

Lemma write_build_bump tbl outs deps h :
  write_build tbl outs deps (h + 18446744073709551616) = write_build tbl outs deps h.
Proof.
  unfold write_build.
  destruct (ensure_ids outs tbl (N.of_nat (length tbl))) as [[[[oids p1] t1] n1]| | | |]; try reflexivity.
  cbn [bind]. destruct (ensure_ids deps t1 n1) as [[[[dids p2] t2] n2]| | | |]; try reflexivity.
  cbn [bind]. now rewrite enc_build_bump.
Qed.

Lemma log_from_bump x : forall ws tbl, log_from tbl (ws ++ [bump x]) = log_from tbl (ws ++ [x]).
Proof.
  induction ws as [|y ws IH]; intro tbl; cbn [app log_from].
  - cbn [bump w_outs w_deps w_hash]. now rewrite write_build_bump.
  - destruct (write_build tbl (w_outs y) (w_deps y) (w_hash y)) as [[b t]| | | |]; try reflexivity.
    cbn [bind]. now rewrite IH.
Qed.

(* the log does not determine the hashes of the records it was written from *)
Lemma log_is_bump w ws x : log_is w (ws ++ [x]) -> log_is w (ws ++ [bump x]).
Proof. intros (body & H1 & H2). exists body. now rewrite log_from_bump. Qed.

Lemma bump_not_in_bounds x : ~ in_bounds (bump x).
Proof. intros (_ & _ & _ & H). cbn [bump w_hash] in H. lia. Qed.

(* the old premise fails for every World state whose log holds a build record *)
Theorem old_log_premise_unsatisfiable : forall (w : wstate) (ws : list wr) (x : wr),
  log_is w (ws ++ [x]) -> ~ (forall ws1, log_is w ws1 -> Forall in_bounds ws1 /\ table_small ws1).
Proof.
  intros w ws x H Hall. destruct (Hall _ (log_is_bump w ws x H)) as (Hb & _).
  apply Forall_app in Hb. destruct Hb as (_ & Hb). inversion Hb as [|? ? Hx _]; subst.
  exact (bump_not_in_bounds x Hx).
Qed.
Print Assumptions old_log_premise_unsatisfiable.
