(* C10, parser half: a whole file.  On a text that spells the statements [sts] the loader's sequence
   of Parser::read calls returns [sts] (up to eval-string normalisation), then None. *)
From Coq Require Import String.
From N2 Require Import Model.All Proofs.ParseSpell Proofs.ParseRoundScan Proofs.ParseRoundMain
     Proofs.ParseRoundTotal.

Lemma file_at ln vs sts vs' text :
  spells_file ln vs sts vs' text -> forall pre s n,
  ~ In 13%N (sbuf s) -> sbuf s = pre ++ text ++ [0%N] -> sofs s = length pre -> sline s = ln ->
  length sts < n ->
  exists sts', read_all n (parse_fuel (sbuf s)) s vs =
               SOk (sts', vs') (mkScanner (sbuf s) (length (pre ++ text)) (ln + nlz text)) /\
               map norm_stmt sts' = map norm_stmt sts.
Proof.
  induction 1 as [ln vs vs' F HF|ln vs vs1 vs' F st txt sts rest HF Hst HX Hrest IH];
    intros pre s n H13 Hb Ho Hl Hn; (destruct n as [|n]; [cbn in Hn; lia|]); cbn [read_all].
  - rewrite (eof_roundtrip_total pre F vs vs' s HF H13 Hb Ho). cbn [sbind].
    exists []. split; [|reflexivity]. now rewrite Hl.
  - assert (Hb' : sbuf s = pre ++ F ++ txt ++ rest ++ [0%N]) by (rewrite Hb; now norm_app).
    rewrite <- Hl in Hst.
    destruct (statement_roundtrip_total pre F txt rest vs vs1 st s HF Hst HX H13 Hb' Ho)
      as (st' & E & Hn'). rewrite E. cbn [sbind].
    set (s1 := mkScanner (sbuf s) (length (pre ++ F ++ txt)) (sline s + nlz (F ++ txt))).
    assert (Hb1 : sbuf s1 = (pre ++ F ++ txt) ++ rest ++ [0%N]) by (cbn [s1 sbuf]; rewrite Hb'; now norm_app).
    destruct (IH (pre ++ F ++ txt) s1 n H13 Hb1 eq_refl ltac:(cbn [s1 sline]; now rewrite Hl)
                 ltac:(cbn [length] in Hn; lia)) as (sts' & E1 & Hn1).
    cbn [sbuf s1] in E1. fold s1. rewrite E1. cbn [sbind fst snd].
    exists (st' :: sts'). split.
    + f_equal. f_equal; [now norm_app|]. rewrite !nlz_app. lia.
    + cbn [map]. now rewrite Hn', Hn1.
Qed.

Lemma file_len ln vs sts vs' text : spells_file ln vs sts vs' text -> length sts <= length text.
Proof.
  induction 1 as [|ln vs vs1 vs2 F st txt sts rest HF Hst HX Hrest IH]; [cbn [length]; lia|].
  cbn [length]. rewrite !app_length.
  assert (0 < length txt); [|lia].
  destruct Hst; rewrite app_length;
    match goal with |- context [length (bs ?k)] =>
      let n := eval vm_compute in (length (bs k)) in change (length (bs k)) with n
    end; lia.
Qed.

Theorem file_roundtrip sts vs' text :
  spells_file 1 [] sts vs' text -> ~ In 13%N text ->
  exists sts', read_all (S (length (text ++ [0%N]))) (parse_fuel (text ++ [0%N]))
                        (mkScanner (text ++ [0%N]) 0 1) [] =
               SOk (sts', vs') (mkScanner (text ++ [0%N]) (length text) (1 + nlz text)) /\
               map norm_stmt sts' = map norm_stmt sts.
Proof.
  intros Hf H13.
  assert (H13' : ~ In 13%N (text ++ [0%N])) by (apply notin_app; [exact H13 | cbn; intuition discriminate]).
  assert (Hlen : length sts < S (length (text ++ [0%N]))).
  { pose proof (file_len _ _ _ _ _ Hf). rewrite app_length. cbn [length]. lia. }
  exact (file_at 1 [] sts vs' text Hf [] (mkScanner (text ++ [0%N]) 0 1) _ H13' eq_refl eq_refl eq_refl Hlen).
Qed.
