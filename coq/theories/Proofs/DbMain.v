(* Db log: the C07 / C08 theorems. *)
From N2 Require Import Model.All Proofs.DbSpec Proofs.DbCodec Proofs.DbWriter Proofs.DbReader.
From Coq Require Import Lia.

(* a file made of the signature and whole well-formed records, and the state it loads to *)
Definition good_file (producer : bytes -> option nat) (f : bytes) (st : loaded) : Prop :=
  exists rs, f = signature ++ encs rs /\ Forall rec_ok rs /\ apply_records true producer rs ld_init = Ok st.

Lemma good_file_open producer f st : good_file producer f st -> db_open true producer f = OpenOk st f.
Proof. intros (rs & -> & Hok & Hap). now apply db_open_encs_whole. Qed.

Lemma good_file_init producer : good_file producer signature ld_init.
Proof. exists []. cbn [encs map concat]. rewrite app_nil_r. repeat split. constructor. Qed.

(* open a file cut anywhere inside the bytes of [ws], written after the whole records [recs0] *)
Lemma open_prefix producer recs0 st0 tbl ws recs tbl' k :
  Forall rec_ok recs0 -> apply_records true producer recs0 ld_init = Ok st0 -> ld_tbl st0 = tbl ->
  Forall rec_ok recs -> wrecs tbl ws recs tbl' ->
  exists st m j,
    db_open true producer (signature ++ encs recs0 ++ firstn k (encs recs)) =
      OpenOk st (signature ++ encs (recs0 ++ firstn m recs)) /\
    good_file producer (signature ++ encs (recs0 ++ firstn m recs)) st /\
    length (encs (firstn m recs)) <= k /\
    (forall b, loaded_for st b = last_applicable producer (firstn j ws) b (loaded_for st0 b)).
Proof.
  intros H0 Hap0 Ht Hok Hw.
  destruct (encs_firstn recs k Hok) as (m & p & E & Hp).
  destruct (apply_wrecs producer _ _ _ _ Hw st0 m Ht) as (st & j & Hap & Hl & _).
  exists st, m, j.
  assert (Hok' : Forall rec_ok (recs0 ++ firstn m recs))
    by (apply Forall_app; split; [assumption | now apply Forall_firstn]).
  assert (Hap' : apply_records true producer (recs0 ++ firstn m recs) ld_init = Ok st)
    by (rewrite (apply_app _ _ _ _ _ _ Hap0); exact Hap).
  split; [|split; [|split]].
  - rewrite E, (app_assoc (encs recs0)), <- encs_app. now apply db_open_encs.
  - exists (recs0 ++ firstn m recs). repeat split; assumption.
  - pose proof (firstn_le_length k (encs recs)) as L. rewrite E, app_length in L. lia.
  - exact Hl.
Qed.

Lemma table_small_nnames ws : table_small ws <-> (N.of_nat (nnames ws) < 16777216)%N.
Proof. reflexivity. Qed.

(* the whole log of a run *)
Lemma log_full producer ws : Forall in_bounds ws -> table_small ws ->
  exists recs tbl' st,
    log_from [] ws = Ok (encs recs, tbl') /\ Forall rec_ok recs /\ wrecs [] ws recs tbl' /\
    length tbl' <= nnames ws /\
    apply_records true producer recs ld_init = Ok st /\ ld_tbl st = tbl' /\
    (forall b, loaded_for st b = last_applicable producer ws b None).
Proof.
  intros Hb Hs. change (N.of_nat (nnames ws) < 16777216)%N in Hs.
  destruct (log_from_ok ws [] Hb) as (recs & tbl' & E & Hok & Hw & Hl); [exact Hs|].
  destruct (apply_wrecs producer _ _ _ _ Hw ld_init (length recs) eq_refl) as (st & j & Hap & Hld & Hfull).
  rewrite firstn_all in Hap. destruct Hfull as [Hj Ht]; [lia|]. rewrite Hj in Hld.
  exists recs, tbl', st. repeat split; assumption.
Qed.

Lemma Ok_inj {A} (a b : A) : Ok a = Ok b -> a = b.
Proof. now intros [= ->]. Qed.

Lemma log_of_from ws bytes tbl' : log_from [] ws = Ok (bytes, tbl') -> log_of ws = Ok (signature ++ bytes).
Proof. intros E. unfold log_of. rewrite E. reflexivity. Qed.

(* ------------------------------------------------------------------------------------ *)
(* C08 *)

Lemma db_roundtrip : forall producer ws log, Forall in_bounds ws -> table_small ws -> log_of ws = Ok log ->
  exists st, db_open true producer log = OpenOk st log /\
    forall b, loaded_for st b = last_applicable producer ws b None.
Proof.
  intros producer ws log Hb Hs Hlog.
  destruct (log_full producer ws Hb Hs) as (recs & tbl' & st & E & Hok & _ & _ & Hap & _ & Hld).
  rewrite (log_of_from _ _ _ E) in Hlog. apply Ok_inj in Hlog. subst log.
  exists st. split; [now apply db_open_encs_whole | exact Hld].
Qed.

Lemma db_writer_total : forall ws, Forall in_bounds ws -> table_small ws -> exists log, log_of ws = Ok log.
Proof.
  intros ws Hb Hs.
  destruct (log_full (fun _ => None) ws Hb Hs) as (recs & tbl' & st & E & _).
  eexists. exact (log_of_from _ _ _ E).
Qed.

Lemma db_applied_only_if_all_outputs_match : forall producer ws log st b deps h,
  Forall in_bounds ws -> table_small ws -> log_of ws = Ok log ->
  db_open true producer log = OpenOk st log -> loaded_for st b = Some (deps, h) ->
  exists w, In w ws /\ w_deps w = deps /\ w_hash w = h /\ w_outs w <> [] /\
    forall o, In o (w_outs w) -> producer o = Some b.
Proof.
  intros producer ws log st b deps h Hb Hs Hlog Hopen Hld.
  destruct (db_roundtrip producer ws log Hb Hs Hlog) as (st' & Hopen' & Hl).
  rewrite Hopen in Hopen'. injection Hopen' as <-.
  rewrite Hl in Hld. apply last_applicable_some in Hld as [Hld|(w & Hin & Ha & Hv)]; [discriminate|].
  injection Hv as -> ->. apply applicable_spec in Ha as [Hne Hall].
  exists w. repeat split; assumption.
Qed.

Definition refute_producer : bytes -> option nat := fun n => if bytes_eqb n [97%N] then Some 0 else None.
Definition refute_ws : list wr := [mkWr [[97%N]; [98%N]] [] 0%N].

Lemma db_pinned_attribution_refuted : exists producer ws log st b,
  log_of ws = Ok log /\ db_open false producer log = OpenOk st log /\ loaded_for st b <> None /\
  last_applicable producer ws b None = None.
Proof.
  exists refute_producer, refute_ws.
  exists (match log_of refute_ws with Ok l => l | _ => [] end).
  exists (match db_open false refute_producer (match log_of refute_ws with Ok l => l | _ => [] end) with
          | OpenOk st _ => st | _ => ld_init end).
  exists 0.
  split; [vm_compute; reflexivity|]. split; [vm_compute; reflexivity|].
  split; [vm_compute; discriminate | vm_compute; reflexivity].
Qed.

(* ------------------------------------------------------------------------------------ *)
(* C07 *)

Lemma prefix_sem producer ws log k : Forall in_bounds ws -> table_small ws -> log_of ws = Ok log ->
  exists st f j, db_open true producer (firstn k log) = OpenOk st f /\ good_file producer f st /\
    is_prefix f log /\ length f <= Nat.max k 8 /\
    forall b, loaded_for st b = last_applicable producer (firstn j ws) b None.
Proof.
  intros Hb Hs Hlog.
  destruct (log_full producer ws Hb Hs) as (recs & tbl' & stf & E & Hok & Hw & _).
  rewrite (log_of_from _ _ _ E) in Hlog. apply Ok_inj in Hlog. subst log.
  destruct (Nat.lt_ge_cases k 8) as [L|L].
  - exists ld_init, signature, 0. split; [|split; [|split; [|split]]].
    + apply db_open_short; [|reflexivity]. pose proof (firstn_le_length k (signature ++ encs recs)). lia.
    + apply good_file_init.
    + now exists (encs recs).
    + rewrite length_signature. lia.
    + reflexivity.
  - rewrite firstn_app, firstn_all2, length_signature by (rewrite length_signature; exact L).
    destruct (open_prefix producer [] ld_init [] ws recs tbl' (k - 8)) as (st & m & j & H1 & H2 & H3 & H4);
      [constructor | reflexivity | reflexivity | exact Hok | exact Hw |].
    change (encs [] ++ firstn (k - 8) (encs recs)) with (firstn (k - 8) (encs recs)) in H1.
    change ([] ++ firstn m recs) with (firstn m recs) in H1, H2.
    exists st, (signature ++ encs (firstn m recs)), j. split; [exact H1|]. split; [exact H2|].
    split; [|split].
    + exists (encs (skipn m recs)). now rewrite <- app_assoc, <- encs_app, firstn_skipn.
    + rewrite app_length, length_signature. lia.
    + exact H4.
Qed.

Lemma db_prefix_opens : forall producer ws log k, Forall in_bounds ws -> table_small ws -> log_of ws = Ok log ->
  exists st f, db_open true producer (firstn k log) = OpenOk st f /\ is_prefix f log /\
    (length f <= Nat.max k 8)%nat /\ db_open true producer f = OpenOk st f.
Proof.
  intros producer ws log k Hb Hs Hlog.
  destruct (prefix_sem producer ws log k Hb Hs Hlog) as (st & f & j & H1 & H2 & H3 & H4 & _).
  exists st, f. repeat split; try assumption. now apply good_file_open.
Qed.

Lemma db_survivors_are_written_records : forall producer ws log k st f,
  Forall in_bounds ws -> table_small ws -> log_of ws = Ok log ->
  db_open true producer (firstn k log) = OpenOk st f ->
  forall b deps h, loaded_for st b = Some (deps, h) ->
  exists w, In w ws /\ w_deps w = deps /\ w_hash w = h /\ applicable producer w b = true.
Proof.
  intros producer ws log k st f Hb Hs Hlog Hopen b deps h Hld.
  destruct (prefix_sem producer ws log k Hb Hs Hlog) as (st' & f' & j & H1 & _ & _ & _ & H5).
  rewrite Hopen in H1. injection H1 as <- <-.
  rewrite H5 in Hld. apply last_applicable_some in Hld as [Hld|(w & Hin & Ha & Hv)]; [discriminate|].
  injection Hv as -> ->. exists w. repeat split; [now apply In_firstn in Hin | exact Ha].
Qed.

Lemma db_whole_records_survive : forall producer ws1 ws2 log1 log k,
  Forall in_bounds (ws1 ++ ws2) -> table_small (ws1 ++ ws2) ->
  log_of ws1 = Ok log1 -> log_of (ws1 ++ ws2) = Ok log -> (length log1 <= k)%nat ->
  exists st f, db_open true producer (firstn k log) = OpenOk st f /\ is_prefix log1 f /\
    forall b, last_applicable producer ws1 b None <> None -> loaded_for st b <> None.
Proof.
  intros producer ws1 ws2 log1 log k Hb Hs Hlog1 Hlog Hk.
  apply Forall_app in Hb as [Hb1 Hb2].
  change (N.of_nat (nnames (ws1 ++ ws2)) < 16777216)%N in Hs. rewrite nnames_app in Hs.
  destruct (log_full producer ws1 Hb1) as (recs1 & tbl1 & st0 & E1 & Hok1 & Hw1 & Hl1 & Hap1 & Ht1 & Hld1);
    [change (N.of_nat (nnames ws1) < 16777216)%N; lia|].
  destruct (log_from_ok ws2 tbl1 Hb2) as (recs2 & tbl2 & E2 & Hok2 & Hw2 & _); [lia|].
  pose proof (log_from_app _ _ _ _ _ _ _ E1 E2) as E.
  rewrite (log_of_from _ _ _ E1) in Hlog1. apply Ok_inj in Hlog1. subst log1.
  rewrite (log_of_from _ _ _ E) in Hlog. apply Ok_inj in Hlog. subst log.
  rewrite (app_assoc signature), firstn_app, firstn_all2, <- app_assoc by exact Hk.
  destruct (open_prefix producer recs1 st0 tbl1 ws2 recs2 tbl2 (k - length (signature ++ encs recs1)))
    as (st & m & j & H1 & _ & _ & H4); try assumption.
  exists st, (signature ++ encs (recs1 ++ firstn m recs2)). split; [exact H1|]. split.
  - exists (encs (firstn m recs2)). now rewrite encs_app, app_assoc.
  - intros b Hne. rewrite H4. apply last_applicable_keeps. now rewrite Hld1.
Qed.

Lemma good_append producer f st w bytes tbl' : good_file producer f st -> in_bounds w ->
  (N.of_nat (length (ld_tbl st) + length (w_outs w) + length (w_deps w)) < 16777216)%N ->
  write_build (ld_tbl st) (w_outs w) (w_deps w) (w_hash w) = Ok (bytes, tbl') ->
  exists st', good_file producer (f ++ bytes) st' /\ ld_tbl st' = tbl' /\
    forall b, loaded_for st' b = if applicable producer w b then Some (w_deps w, w_hash w) else loaded_for st b.
Proof.
  intros (rs & -> & Hok & Hap) Hb Hsz Hwb.
  destruct (write_build_ok (ld_tbl st) w Hb Hsz) as (news & oids & dids & E & _ & Hio & Hid & Hrec).
  rewrite E in Hwb. injection Hwb as <- <-.
  pose proof (apply_write producer news oids dids w [] st Hio Hid) as Haw. cbn [apply_records] in Haw.
  eexists. split; [|split].
  - exists (rs ++ map DPath news ++ [DBuild oids dids (w_hash w)]). split; [|split].
    + now rewrite <- app_assoc, <- encs_app.
    + apply Forall_app. now split.
    + rewrite (apply_app _ _ _ _ _ _ Hap). exact Haw.
  - reflexivity.
  - intros b. unfold loaded_for. cbn [ld_builds]. apply loaded_for_step.
Qed.

Lemma db_append_after_recovery : forall producer ws log k st f w bytes tbl',
  Forall in_bounds ws -> table_small ws -> log_of ws = Ok log ->
  db_open true producer (firstn k log) = OpenOk st f -> in_bounds w ->
  (N.of_nat (length (ld_tbl st) + length (w_outs w) + length (w_deps w)) < 16777216)%N ->
  write_build (ld_tbl st) (w_outs w) (w_deps w) (w_hash w) = Ok (bytes, tbl') ->
  exists st', db_open true producer (f ++ bytes) = OpenOk st' (f ++ bytes) /\ ld_tbl st' = tbl' /\
    forall b, applicable producer w b = true -> loaded_for st' b = Some (w_deps w, w_hash w).
Proof.
  intros producer ws log k st f w bytes tbl' Hb Hs Hlog Hopen Hw Hsz Hwb.
  destruct (prefix_sem producer ws log k Hb Hs Hlog) as (st0 & f0 & j & H1 & H2 & _).
  rewrite Hopen in H1. injection H1 as <- <-.
  destruct (good_append producer f st w bytes tbl' H2 Hw Hsz Hwb) as (st' & Hg & Ht & Hl).
  exists st'. split; [now apply good_file_open|]. split; [exact Ht|].
  intros b Ha. now rewrite Hl, Ha.
Qed.

Definition refute7_ws : list wr := [mkWr [[97%N]] [] 0%N].

Lemma db_pinned_refuted : exists producer ws log k,
  log_of ws = Ok log /\ (exists m, db_open false producer (firstn k log) = OpenErr m).
Proof.
  exists (fun _ => None), refute7_ws.
  exists (match log_of refute7_ws with Ok l => l | _ => [] end), 10.
  split; [vm_compute; reflexivity|].
  eexists. vm_compute. reflexivity.
Qed.

(* the appended record changes exactly the step it names *)
Lemma db_append_after_recovery_exact : forall producer ws log k st f w bytes tbl',
  Forall in_bounds ws -> table_small ws -> log_of ws = Ok log ->
  db_open true producer (firstn k log) = OpenOk st f -> in_bounds w ->
  (N.of_nat (length (ld_tbl st) + length (w_outs w) + length (w_deps w)) < 16777216)%N ->
  write_build (ld_tbl st) (w_outs w) (w_deps w) (w_hash w) = Ok (bytes, tbl') ->
  exists st', db_open true producer (f ++ bytes) = OpenOk st' (f ++ bytes) /\ ld_tbl st' = tbl' /\
    forall b, loaded_for st' b = if applicable producer w b then Some (w_deps w, w_hash w) else loaded_for st b.
Proof.
  intros producer ws log k st f w bytes tbl' Hb Hs Hlog Hopen Hw Hsz Hwb.
  destruct (prefix_sem producer ws log k Hb Hs Hlog) as (st0 & f0 & j & H1 & H2 & _).
  rewrite Hopen in H1. injection H1 as <- <-.
  destruct (good_append producer f st w bytes tbl' H2 Hw Hsz Hwb) as (st' & Hg & Ht & Hl).
  exists st'. split; [now apply good_file_open|]. split; [exact Ht | exact Hl].
Qed.

(* the writer cannot fail after recovery either *)
Lemma db_append_total : forall producer ws log k st f w,
  Forall in_bounds ws -> table_small ws -> log_of ws = Ok log ->
  db_open true producer (firstn k log) = OpenOk st f -> in_bounds w ->
  (N.of_nat (length (ld_tbl st) + length (w_outs w) + length (w_deps w)) < 16777216)%N ->
  exists bytes tbl', write_build (ld_tbl st) (w_outs w) (w_deps w) (w_hash w) = Ok (bytes, tbl').
Proof.
  intros producer ws log k st f w _ _ _ _ Hw Hsz.
  destruct (write_build_ok (ld_tbl st) w Hw Hsz) as (news & oids & dids & E & _).
  eexists _, _. exact E.
Qed.
