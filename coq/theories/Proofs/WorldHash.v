(* C02: the hashed stream determines the manifest; a clean verdict means the manifest is the
   recorded one. *)
From Coq Require Import String.
From N2 Require Import Model.All Proofs.DbSpec Proofs.DbCodec Proofs.WorldSpec Proofs.WorldBase
     Proofs.WorldDeps Proofs.WorldDirty.
From Coq Require Import Lia.

(* ------------------------------------------------------------------------------------ *)
(* parsing the stream back *)

Lemma no255_In l : no255 l = true <-> ~ In 255%N l.
Proof.
  unfold no255. rewrite negb_true_iff. split.
  - intros H Hin. assert (existsb (N.eqb 255) l = true); [|congruence].
    apply existsb_exists. exists 255%N. split; [assumption | apply N.eqb_refl].
  - intros H. destruct (existsb (N.eqb 255) l) eqn:E; [|reflexivity].
    apply existsb_exists in E as (x & Hx & E). apply N.eqb_eq in E. subst. contradiction.
Qed.

Lemma split_at_255 : forall a b x y, ~ In 255%N a -> ~ In 255%N b ->
  a ++ 255%N :: x = b ++ 255%N :: y -> a = b /\ x = y.
Proof.
  induction a as [|c a IH]; intros [|d b] x y Ha Hb E; cbn [app] in E.
  - injection E as <-. now split.
  - injection E as <- _. exfalso. apply Hb. now left.
  - injection E as -> _. exfalso. apply Ha. now left.
  - injection E as <- E. destruct (IH b x y) as (-> & ->); [intro; apply Ha; now right | intro; apply Hb; now right | assumption|].
    now split.
Qed.

Lemma app_inv_length {A} : forall (a b x y : list A), length a = length b ->
  a ++ x = b ++ y -> a = b /\ x = y.
Proof.
  induction a as [|c a IH]; intros [|d b] x y Hl E; cbn in Hl; try discriminate.
  - now split.
  - cbn [app] in E. injection E as <- E. injection Hl as Hl.
    destruct (IH b x y Hl E) as (-> & ->). now split.
Qed.

Lemma le_bytes_inj k n1 n2 : (n1 < 256 ^ N.of_nat k)%N -> (n2 < 256 ^ N.of_nat k)%N ->
  le_bytes k n1 = le_bytes k n2 -> n1 = n2.
Proof.
  intros H1 H2 E. apply (f_equal of_le) in E. now rewrite !of_le_le_bytes in E.
Qed.

Lemma wf_mtime_bounds t : wf_mtime t = true ->
  (fst t < 256 ^ N.of_nat 8)%N /\ (snd t < 256 ^ N.of_nat 4)%N.
Proof.
  unfold wf_mtime. rewrite andb_true_iff, !N.ltb_lt.
  change (256 ^ N.of_nat 8)%N with 18446744073709551616%N.
  change (256 ^ N.of_nat 4)%N with 4294967296%N. tauto.
Qed.

Lemma hash_mtime_inj t1 t2 x y : wf_mtime t1 = true -> wf_mtime t2 = true ->
  hash_mtime t1 ++ x = hash_mtime t2 ++ y -> t1 = t2 /\ x = y.
Proof.
  intros H1 H2 E. apply wf_mtime_bounds in H1 as (A1 & B1). apply wf_mtime_bounds in H2 as (A2 & B2).
  unfold hash_mtime in E.
  apply app_inv_length in E as (E & ->); [|now rewrite !app_length, !length_le_bytes].
  apply app_inv_length in E as (Ea & Eb); [|now rewrite !length_le_bytes].
  apply le_bytes_inj in Ea; [|assumption|assumption]. apply le_bytes_inj in Eb; [|assumption|assumption].
  split; [|reflexivity]. destruct t1, t2. cbn [fst snd] in *. now subst.
Qed.

Lemma hash_files_nil : hash_files [] = [31%N].
Proof. reflexivity. Qed.

Lemma hash_files_cons f fs :
  hash_files (f :: fs) = fst f ++ 255%N :: (hash_mtime (snd f) ++ hash_files fs).
Proof.
  unfold hash_files, hash_str. cbn [map concat]. rewrite <- !app_assoc. reflexivity.
Qed.

Lemma wf_name_parts n : wf_name n = true -> ~ In 255%N n /\ exists c r, n = c :: r /\ c <> 31%N.
Proof.
  unfold wf_name. rewrite andb_true_iff, no255_In. intros (H & Hn). split; [assumption|].
  destruct n as [|c r]; [discriminate|]. exists c, r. split; [reflexivity|].
  rewrite negb_true_iff in Hn. now apply N.eqb_neq.
Qed.

Lemma hash_files_inj : forall l1 l2 r1 r2, forallb wf_file l1 = true -> forallb wf_file l2 = true ->
  hash_files l1 ++ r1 = hash_files l2 ++ r2 -> l1 = l2 /\ r1 = r2.
Proof.
  induction l1 as [|f1 l1 IH]; intros [|f2 l2] r1 r2 H1 H2 E.
  - rewrite hash_files_nil in E. injection E as <-. now split.
  - exfalso. cbn [forallb] in H2. apply andb_true_iff in H2 as (H2 & _).
    unfold wf_file in H2. apply andb_true_iff in H2 as (H2 & _).
    apply wf_name_parts in H2 as (_ & c & r & En & Hc).
    rewrite hash_files_nil, hash_files_cons, En in E. cbn [app] in E. injection E as E _. congruence.
  - exfalso. cbn [forallb] in H1. apply andb_true_iff in H1 as (H1 & _).
    unfold wf_file in H1. apply andb_true_iff in H1 as (H1 & _).
    apply wf_name_parts in H1 as (_ & c & r & En & Hc).
    rewrite hash_files_nil, hash_files_cons, En in E. cbn [app] in E. injection E as E _. congruence.
  - cbn [forallb] in H1, H2. apply andb_true_iff in H1 as (W1 & H1). apply andb_true_iff in H2 as (W2 & H2).
    unfold wf_file in W1, W2. apply andb_true_iff in W1 as (N1 & T1). apply andb_true_iff in W2 as (N2 & T2).
    apply wf_name_parts in N1 as (N1 & _). apply wf_name_parts in N2 as (N2 & _).
    rewrite !hash_files_cons in E. rewrite <- !app_assoc in E. cbn [app] in E.
    apply split_at_255 in E as (En & E); [|assumption|assumption].
    rewrite <- !app_assoc in E. apply hash_mtime_inj in E as (Et & E); [|assumption|assumption].
    destruct (IH l2 r1 r2 H1 H2 E) as (-> & ->). split; [|reflexivity].
    destruct f1, f2. cbn [fst snd] in *. now subst.
Qed.

Definition rsp_part (m : manifest) : bytes :=
  match mf_rsp m with
  | Some (p, c) => hash_path p ++ hash_str c
  | None => []
  end.

Lemma manifest_stream_eq m :
  manifest_stream m =
  hash_files (mf_ins m) ++ hash_files (mf_discovered m) ++
  (mf_cmdline m ++ 255%N :: 31%N :: (rsp_part m ++ hash_files (mf_outs m))).
Proof.
  unfold manifest_stream, rsp_part, hash_str. rewrite <- !app_assoc. reflexivity.
Qed.

Lemma wf_manifest_parts m : wf_manifest m = true ->
  forallb wf_file (mf_ins m) = true /\ forallb wf_file (mf_discovered m) = true /\
  forallb wf_file (mf_outs m) = true /\ ~ In 255%N (mf_cmdline m).
Proof. unfold wf_manifest. rewrite !andb_true_iff, no255_In. tauto. Qed.

(* the part before the response file is determined whatever follows *)
Lemma manifest_stream_prefix_injective : forall m1 m2,
  wf_manifest m1 = true -> wf_manifest m2 = true -> manifest_stream m1 = manifest_stream m2 ->
  mf_ins m1 = mf_ins m2 /\ mf_discovered m1 = mf_discovered m2 /\ mf_cmdline m1 = mf_cmdline m2 /\
  rsp_part m1 ++ hash_files (mf_outs m1) = rsp_part m2 ++ hash_files (mf_outs m2).
Proof.
  intros m1 m2 W1 W2 E. rewrite !manifest_stream_eq in E.
  apply wf_manifest_parts in W1 as (I1 & D1 & O1 & C1).
  apply wf_manifest_parts in W2 as (I2 & D2 & O2 & C2).
  apply hash_files_inj in E as (Ei & E); [|assumption|assumption].
  apply hash_files_inj in E as (Ed & E); [|assumption|assumption].
  apply split_at_255 in E as (Ec & E); [|assumption|assumption].
  injection E as E. now repeat split.
Qed.

Lemma manifest_stream_injective : forall m1 m2,
  wf_manifest m1 = true -> wf_manifest m2 = true -> mf_rsp m1 = mf_rsp m2 ->
  manifest_stream m1 = manifest_stream m2 -> m1 = m2.
Proof.
  intros m1 m2 W1 W2 Er E.
  destruct (manifest_stream_prefix_injective m1 m2 W1 W2 E) as (Ei & Ed & Ec & Eo).
  apply wf_manifest_parts in W1 as (_ & _ & O1 & _).
  apply wf_manifest_parts in W2 as (_ & _ & O2 & _).
  unfold rsp_part in Eo. rewrite Er in Eo. apply app_inv_head in Eo.
  rewrite <- (app_nil_r (hash_files (mf_outs m1))), <- (app_nil_r (hash_files (mf_outs m2))) in Eo.
  apply hash_files_inj in Eo as (Eo & _); [|assumption|assumption].
  destruct m1 as [i1 d1 c1 p1 o1], m2 as [i2 d2 c2 p2 o2].
  cbn [mf_ins mf_discovered mf_cmdline mf_rsp mf_outs] in *. now subst.
Qed.

(* ------------------------------------------------------------------------------------ *)
(* C02.5 *)

Lemma record_manifest_exists : forall w b bd reported w1 h,
  record_finished w b bd reported = Ok (w1, Some h) ->
  exists m0, manifest_of w1 bd (disc_of w1 b) = Some m0 /\ hash_build m0 = h.
Proof.
  intros w b bd reported w1 h E.
  destruct (record_some_inv _ _ _ _ _ _ E) as (deps & m & Hd & _ & _ & _ & _ & Hm & Hh & _).
  exists m. now rewrite Hd.
Qed.

Lemma clean_has_manifest : forall g w2 b bd w2' h,
  check_build_dirty g w2 b bd = (w2', DClean) -> wb_cmdline bd <> None ->
  assoc_nat b (ws_hashes w2) = Some h ->
  cache_ext w2 w2' /\ exists m, manifest_of w2' bd (disc_of w2 b) = Some m /\ hash_build m = h.
Proof.
  intros g w b bd w' h E Hc Hh.
  destruct (wb_cmdline bd) as [c|] eqn:Ec; [|congruence].
  destruct (check_inv _ _ _ _ _ _ _ Ec E) as (wa & r1 & E1 & H1).
  apply ensure_inputs_spec in E1 as (X1 & _ & _).
  destruct r1 as [[n|]|n].
  - destruct H1 as (_ & Hr). destruct (producer_of g n); discriminate.
  - destruct H1 as (wb & r2 & E2 & H2). apply ensure_inputs_spec in E2 as (X2 & _ & _).
    destruct r2 as [[n|]|n]; [destruct H2; discriminate | | destruct H2; discriminate].
    destruct H2 as (mo & E3 & Hr). apply stat_all_spec in E3 as (X3 & _ & _).
    pose proof (cache_ext_trans _ _ _ (cache_ext_trans _ _ _ X1 X2) X3) as X.
    split; [assumption|].
    destruct mo; [discriminate|]. unfold verdict_tail in Hr.
    assert (Hh' : ws_hashes w' = ws_hashes w) by apply X.
    rewrite Hh', Hh, (cache_ext_disc_of _ _ b X) in Hr.
    destruct (manifest_of w' bd (disc_of w b)) as [m|]; [|discriminate].
    destruct (hash_build m =? h)%N eqn:Eh; [|discriminate]. apply N.eqb_eq in Eh. now exists m.
  - destruct H1 as (_ & Hr). discriminate.
Qed.

(* the clean verdict compared the hash of the current manifest with the recorded one *)
Lemma clean_same_hash : forall g w b bd reported w1 h bd' w2 w2',
  record_finished w b bd reported = Ok (w1, Some h) ->
  check_build_dirty g w2 b bd' = (w2', DClean) -> wb_cmdline bd' <> None ->
  assoc_nat b (ws_hashes w2) = Some h ->
  exists m0 m, manifest_of w1 bd (disc_of w1 b) = Some m0 /\ hash_build m0 = h /\
               manifest_of w2' bd' (disc_of w2 b) = Some m /\ hash_build m = hash_build m0.
Proof.
  intros g w b bd reported w1 h bd' w2 w2' Er Ec Hc Hh.
  destruct (record_manifest_exists _ _ _ _ _ _ Er) as (m0 & Hm0 & Hh0).
  destruct (clean_has_manifest _ _ _ _ _ _ Ec Hc Hh) as (_ & m & Hm & Hhm).
  exists m0, m. repeat split; try assumption. congruence.
Qed.

Lemma clean_implies_recorded_manifest :
  (forall m1 m2, hash_build m1 = hash_build m2 -> manifest_stream m1 = manifest_stream m2) ->
  forall g w b bd reported w1 h bd' w2 w2',
  record_finished w b bd reported = Ok (w1, Some h) ->
  check_build_dirty g w2 b bd' = (w2', DClean) -> wb_cmdline bd' <> None ->
  assoc_nat b (ws_hashes w2) = Some h ->
  exists m0 m, manifest_of w1 bd (disc_of w1 b) = Some m0 /\ hash_build m0 = h /\
               manifest_of w2' bd' (disc_of w2 b) = Some m /\
               manifest_stream m = manifest_stream m0.
Proof.
  intros Hhash g w b bd reported w1 h bd' w2 w2' Er Ec Hc Hh.
  destruct (clean_same_hash _ _ _ _ _ _ _ _ _ _ Er Ec Hc Hh) as (m0 & m & H1 & H2 & H3 & H4).
  exists m0, m. repeat split; try assumption. now apply Hhash.
Qed.

(* C02.5 + C02.6: clean means the manifest is exactly the recorded one *)
Lemma clean_means_identical : forall g w b bd reported w1 h bd' w2 w2' m0,
  record_finished w b bd reported = Ok (w1, Some h) ->
  manifest_of w1 bd (disc_of w1 b) = Some m0 -> wf_manifest m0 = true ->
  check_build_dirty g w2 b bd' = (w2', DClean) -> wb_cmdline bd' <> None ->
  assoc_nat b (ws_hashes w2) = Some h ->
  wb_rsp bd' = wb_rsp bd ->
  (forall m, manifest_of w2' bd' (disc_of w2 b) = Some m -> wf_manifest m = true /\ no_collision m m0) ->
  manifest_of w2' bd' (disc_of w2 b) = Some m0.
Proof.
  intros g w b bd reported w1 h bd' w2 w2' m0 Er Hm0 W0 Ec Hc Hh Hrsp Hwf.
  destruct (clean_same_hash _ _ _ _ _ _ _ _ _ _ Er Ec Hc Hh)
    as (m0' & m & Hm0' & _ & Hm & Hs).
  rewrite Hm0 in Hm0'. injection Hm0' as <-.
  destruct (Hwf m Hm) as (Wm & Hnc).
  rewrite Hm. f_equal. apply manifest_stream_injective; [assumption | assumption | | now apply Hnc].
  unfold manifest_of in Hm, Hm0.
  destruct (with_mtimes (ws_cache w2') (wb_dirtying bd')), (with_mtimes (ws_cache w2') (disc_of w2 b)),
    (with_mtimes (ws_cache w2') (wb_outs bd')); try discriminate.
  destruct (with_mtimes (ws_cache w1) (wb_dirtying bd)), (with_mtimes (ws_cache w1) (disc_of w1 b)),
    (with_mtimes (ws_cache w1) (wb_outs bd)); try discriminate.
  injection Hm as <-. injection Hm0 as <-. exact Hrsp.
Qed.

(* ------------------------------------------------------------------------------------ *)
(* what a manifest contains *)

Lemma manifest_of_shape : forall w bd d m, manifest_of w bd d = Some m ->
  map fst (mf_ins m) = wb_dirtying bd /\ map fst (mf_discovered m) = d /\
  map fst (mf_outs m) = wb_outs bd /\
  mf_cmdline m = match wb_cmdline bd with Some c => c | None => [] end /\
  mf_rsp m = wb_rsp bd /\
  forall n t, In (n, t) (mf_ins m ++ mf_discovered m ++ mf_outs m) ->
              cache_get (ws_cache w) n = Some (Some t).
Proof.
  intros w bd d m E. unfold manifest_of in E.
  destruct (with_mtimes (ws_cache w) (wb_dirtying bd)) as [i|] eqn:Ei; [|discriminate].
  destruct (with_mtimes (ws_cache w) d) as [dd|] eqn:Ed; [|discriminate].
  destruct (with_mtimes (ws_cache w) (wb_outs bd)) as [o|] eqn:Eo; [|discriminate].
  injection E as <-. cbn [mf_ins mf_discovered mf_outs mf_cmdline mf_rsp].
  apply with_mtimes_names in Ei as (Ni & Ci). apply with_mtimes_names in Ed as (Nd & Cd).
  apply with_mtimes_names in Eo as (No & Co).
  repeat split; try assumption.
  intros n t Hn. apply in_app_or in Hn as [Hn|Hn]; [now apply Ci|].
  apply in_app_or in Hn as [Hn|Hn]; [now apply Cd | now apply Co].
Qed.


  (* C02.7 *)
  Lemma never_skips_changed : forall g w b bd reported w1 h bd' w2 w2' r m0,
    record_finished w b bd reported = Ok (w1, Some h) ->
    manifest_of w1 bd (disc_of w1 b) = Some m0 -> wf_manifest m0 = true ->
    check_build_dirty g w2 b bd' = (w2', r) -> wb_cmdline bd' <> None ->
    assoc_nat b (ws_hashes w2) = Some h ->
    wb_rsp bd' = wb_rsp bd ->
    (forall m, manifest_of w2' bd' (disc_of w2 b) = Some m -> wf_manifest m = true /\ no_collision m m0) ->
    ((exists n t0, In (n, t0) (mf_ins m0 ++ mf_discovered m0 ++ mf_outs m0) /\
                   cache_get (ws_cache w2') n <> Some (Some t0)) \/
     wb_dirtying bd' <> map fst (mf_ins m0) \/
     disc_of w2 b <> map fst (mf_discovered m0) \/
     wb_outs bd' <> map fst (mf_outs m0) \/
     match wb_cmdline bd' with Some c => c | None => [] end <> mf_cmdline m0) ->
    r <> DClean.
  Proof.
    intros g w b bd reported w1 h bd' w2 w2' r m0 Er Hm0 W0 Ec Hc Hh Hrsp Hwf Hchg ->.
    pose proof (clean_means_identical _ _ _ _ _ _ _ _ _ _ _ Er Hm0 W0 Ec Hc Hh Hrsp Hwf) as Hm.
    apply manifest_of_shape in Hm as (Hi & Hd & Ho & Hcmd & _ & Hcache).
    destruct Hchg as [(n & t0 & Hin & Hne)|[H|[H|[H|H]]]]; try congruence.
    apply Hne. now apply Hcache.
  Qed.

  (* the same, reading "changed" off the tree *)
  Lemma never_skips_changed_tree : forall g w b bd reported w1 h bd' w2 w2' r m0 n t0,
    record_finished w b bd reported = Ok (w1, Some h) ->
    manifest_of w1 bd (disc_of w1 b) = Some m0 -> wf_manifest m0 = true ->
    check_build_dirty g w2 b bd' = (w2', r) -> wb_cmdline bd' <> None ->
    assoc_nat b (ws_hashes w2) = Some h ->
    wb_rsp bd' = wb_rsp bd ->
    (forall m, manifest_of w2' bd' (disc_of w2 b) = Some m -> wf_manifest m = true /\ no_collision m m0) ->
    cache_consistent w2 ->
    In (n, t0) (mf_ins m0 ++ mf_discovered m0 ++ mf_outs m0) -> fs_get (ws_fs w2) n <> Some t0 ->
    r <> DClean.
  Proof.
    intros g w b bd reported w1 h bd' w2 w2' r m0 n t0 Er Hm0 W0 Ec Hc Hh Hrsp Hwf Hcons Hin Hfs Hr.
    subst r. destruct (clean_has_manifest _ _ _ _ _ _ Ec Hc Hh) as (X & _).
    pose proof (cache_ext_consistent _ _ X Hcons) as Hcons'.
    assert (F : ws_fs w2' = ws_fs w2) by apply X.
    refine (never_skips_changed _ _ _ _ _ _ _ _ _ _ _ _ Er Hm0 W0 Ec Hc Hh Hrsp Hwf _ eq_refl).
    left. exists n, t0. split; [assumption|]. intros Hcg. apply Hcons' in Hcg. rewrite F in Hcg. congruence.
  Qed.
