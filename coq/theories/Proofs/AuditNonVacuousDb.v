(* audit file: AuditNonVacuousDb
   Machine-checked NON-VACUITY instances for every theorem of Props/C07.v and Props/C08.v:
   each example instantiates ALL hypotheses of the theorem with concrete data written by the
   model's own writer ([log_of]) and adds a fact showing that the instance is not degenerate. *)
From Coq Require Import String Lia.
From N2 Require Import Model.All Proofs.DbSpec.
From N2 Require Import Proofs.DbCodec Proofs.DbWriter Proofs.DbReader Proofs.DbMain Proofs.DbRenumber.

(* ------------------------------------------------------------------------------------ *)
(* concrete data *)

(* "a" is produced by step 0, "b" by step 1, nothing else has a producer *)
Definition nv_prod : bytes -> option nat :=
  fun n => if bytes_eqb n (bs "a") then Some 0 else if bytes_eqb n (bs "b") then Some 1 else None.

(* five completion records: step 0 twice (the first is superseded), step 1 once, one record whose
   output lost its producer, one record naming outputs of two different steps *)
Definition nv_ws : list wr :=
  [ mkWr [bs "a"] [bs "x"] 11; mkWr [bs "a"] [bs "y"] 22; mkWr [bs "b"] [bs "x"] 33;
    mkWr [bs "c"] [] 44; mkWr [bs "a"; bs "b"] [] 55 ]%N.

Definition unok {A} (d : A) (o : outcome A) : A := match o with Ok a => a | _ => d end.
Definition nv_log : bytes := unok [] (log_of nv_ws).
Definition nv_log1 : bytes := unok [] (log_of (firstn 2 nv_ws)).

Definition open_st (r : open_result) : loaded := match r with OpenOk st _ => st | _ => mkLoaded [] [] end.
Definition open_file (r : open_result) : bytes := match r with OpenOk _ f => f | _ => [] end.

Ltac in_bounds_tac :=
  repeat split; try (vm_compute; reflexivity);
  let n := fresh "n" in let H := fresh "H" in
  intros n H; cbn in H;
  repeat (destruct H as [H|H]; [subst n; vm_compute; reflexivity|]); contradiction.

Lemma nv_ws_in_bounds : Forall in_bounds nv_ws.
Proof. repeat (apply Forall_cons; [in_bounds_tac|]). apply Forall_nil. Qed.

Lemma nv_ws_small : table_small nv_ws.
Proof. vm_compute. reflexivity. Qed.

Lemma nv_log_ok : log_of nv_ws = Ok nv_log.
Proof. vm_compute. reflexivity. Qed.

(* the file: 8 signature bytes, record 1 = bytes 8..31, record 2 = bytes 32..52, ... *)
Example nv_log_shape : length nv_log = 110 /\ length nv_log1 = 53 /\ log_of (firstn 1 nv_ws) = Ok (firstn 32 nv_log).
Proof. vm_compute. repeat split. Qed.

(* ------------------------------------------------------------------------------------ *)
(* C07 *)

(* k = 40 is inside the build record of the second write (its path record "y" is whole):
   the first record IS loaded, the second is not, the file is cut back to 35 bytes *)
Example C07_prefix_opens_nonvacuous :
  exists producer ws log k,
    Forall in_bounds ws /\ table_small ws /\ log_of ws = Ok log /\
    (* non-triviality *)
    (2 <= length ws)%nat /\
    (exists l1 l2, log_of (firstn 1 ws) = Ok l1 /\ log_of (firstn 2 ws) = Ok l2 /\ (length l1 < k < length l2)%nat) /\
    exists st f, db_open true producer (firstn k log) = OpenOk st f /\
      loaded_for st 0 = Some ([bs "x"], 11%N) /\ loaded_for st 1 = None /\
      (8 < length f < k)%nat /\ ld_tbl st = [bs "a"; bs "x"; bs "y"].
Proof.
  exists nv_prod, nv_ws, nv_log, 40.
  split; [exact nv_ws_in_bounds|]. split; [exact nv_ws_small|]. split; [exact nv_log_ok|].
  split; [vm_compute; lia|]. split.
  - exists (firstn 32 nv_log), nv_log1. split; [vm_compute; reflexivity|]. split; [vm_compute; reflexivity|].
    vm_compute. lia.
  - exists (open_st (db_open true nv_prod (firstn 40 nv_log))), (open_file (db_open true nv_prod (firstn 40 nv_log))).
    split; [vm_compute; reflexivity|]. split; [vm_compute; reflexivity|]. split; [vm_compute; reflexivity|].
    split; [vm_compute; lia | vm_compute; reflexivity].
Qed.

(* the conclusion of C07_prefix_opens on this instance, obtained FROM the theorem: the state it
   speaks of is the one above (db_open is a function), so the existential is not degenerate *)
Example C07_prefix_opens_instance_is_informative :
  forall st f, db_open true nv_prod (firstn 40 nv_log) = OpenOk st f -> loaded_for st 0 = Some ([bs "x"], 11%N).
Proof.
  intros st f H.
  assert (E : db_open true nv_prod (firstn 40 nv_log) =
              OpenOk (open_st (db_open true nv_prod (firstn 40 nv_log))) (open_file (db_open true nv_prod (firstn 40 nv_log))))
    by (vm_compute; reflexivity).
  rewrite E in H. injection H as <- <-. vm_compute. reflexivity.
Qed.

Example C07_survivors_are_written_records_nonvacuous :
  exists producer ws log k st f b deps h,
    Forall in_bounds ws /\ table_small ws /\ log_of ws = Ok log /\
    db_open true producer (firstn k log) = OpenOk st f /\ loaded_for st b = Some (deps, h) /\
    (* non-triviality: a torn log (k strictly inside), and the survivor is not the last applicable record of ws *)
    (k < length log)%nat /\ f <> log /\ last_applicable producer ws b None <> Some (deps, h).
Proof.
  exists nv_prod, nv_ws, nv_log, 40.
  exists (open_st (db_open true nv_prod (firstn 40 nv_log))), (open_file (db_open true nv_prod (firstn 40 nv_log))).
  exists 0, [bs "x"], 11%N.
  split; [exact nv_ws_in_bounds|]. split; [exact nv_ws_small|]. split; [exact nv_log_ok|].
  split; [vm_compute; reflexivity|]. split; [vm_compute; reflexivity|].
  split; [vm_compute; lia|]. split; vm_compute; discriminate.
Qed.

(* ws1 = the first two writes, k = 60 is inside the third write *)
Example C07_whole_records_survive_nonvacuous :
  exists producer ws1 ws2 log1 log k,
    Forall in_bounds (ws1 ++ ws2) /\ table_small (ws1 ++ ws2) /\ log_of ws1 = Ok log1 /\
    log_of (ws1 ++ ws2) = Ok log /\ (length log1 <= k)%nat /\
    (* non-triviality *)
    (k < length log)%nat /\ ws2 <> [] /\
    (exists b, last_applicable producer ws1 b None <> None) /\
    exists st f, db_open true producer (firstn k log) = OpenOk st f /\
                 loaded_for st 0 = Some ([bs "y"], 22%N) /\ loaded_for st 1 = None /\
                 (length log1 < length f < k)%nat.
Proof.
  exists nv_prod, (firstn 2 nv_ws), (skipn 2 nv_ws), nv_log1, nv_log, 60.
  split; [exact nv_ws_in_bounds|]. split; [exact nv_ws_small|]. split; [vm_compute; reflexivity|].
  split; [exact nv_log_ok|]. split; [vm_compute; lia|]. split; [vm_compute; lia|].
  split; [discriminate|]. split; [exists 0; vm_compute; discriminate|].
  exists (open_st (db_open true nv_prod (firstn 60 nv_log))), (open_file (db_open true nv_prod (firstn 60 nv_log))).
  split; [vm_compute; reflexivity|]. split; [vm_compute; reflexivity|]. split; [vm_compute; reflexivity|].
  vm_compute. lia.
Qed.

(* torn log (k = 40: only the first record survives), then step 1 is appended; after reopening
   BOTH the surviving record of step 0 and the appended record of step 1 are loaded.  This
   instantiates all hypotheses of C07_append_after_recovery, C07_append_after_recovery_exact and
   C07_append_total at once. *)
Definition nv_w : wr := mkWr [bs "b"] [bs "y"; bs "z"] 77%N.

Example C07_append_after_recovery_exact_nonvacuous :
  exists producer ws log k st f w bytes tbl',
    Forall in_bounds ws /\ table_small ws /\ log_of ws = Ok log /\
    db_open true producer (firstn k log) = OpenOk st f /\ in_bounds w /\
    (N.of_nat (length (ld_tbl st) + length (w_outs w) + length (w_deps w)) < 16777216)%N /\
    write_build (ld_tbl st) (w_outs w) (w_deps w) (w_hash w) = Ok (bytes, tbl') /\
    (* non-triviality *)
    (k < length log)%nat /\ bytes <> [] /\ ld_tbl st <> [] /\ tbl' <> ld_tbl st /\
    applicable producer w 1 = true /\ applicable producer w 0 = false /\
    exists st', db_open true producer (f ++ bytes) = OpenOk st' (f ++ bytes) /\
                loaded_for st' 0 = Some ([bs "x"], 11%N) /\
                loaded_for st' 1 = Some ([bs "y"; bs "z"], 77%N) /\
                ~ is_prefix (f ++ bytes) log.
Proof.
  exists nv_prod, nv_ws, nv_log, 40.
  pose (r := db_open true nv_prod (firstn 40 nv_log)).
  pose (wb := unok ([], []) (write_build (ld_tbl (open_st r)) (w_outs nv_w) (w_deps nv_w) (w_hash nv_w))).
  exists (open_st r), (open_file r), nv_w, (fst wb), (snd wb).
  split; [exact nv_ws_in_bounds|]. split; [exact nv_ws_small|]. split; [exact nv_log_ok|].
  split; [vm_compute; reflexivity|]. split; [in_bounds_tac|].
  split; [vm_compute; reflexivity|]. split; [vm_compute; reflexivity|].
  split; [vm_compute; lia|]. split; [vm_compute; discriminate|]. split; [vm_compute; discriminate|].
  split; [vm_compute; discriminate|]. split; [vm_compute; reflexivity|]. split; [vm_compute; reflexivity|].
  exists (open_st (db_open true nv_prod (open_file r ++ fst wb))).
  split; [vm_compute; reflexivity|]. split; [vm_compute; reflexivity|]. split; [vm_compute; reflexivity|].
  intros [t Ht]. apply (f_equal (firstn 37)) in Ht. vm_compute in Ht. discriminate Ht.
Qed.

Example C07_append_total_nonvacuous :
  exists producer ws log k st f w,
    Forall in_bounds ws /\ table_small ws /\ log_of ws = Ok log /\
    db_open true producer (firstn k log) = OpenOk st f /\ in_bounds w /\
    (N.of_nat (length (ld_tbl st) + length (w_outs w) + length (w_deps w)) < 16777216)%N /\
    (k < length log)%nat /\ ld_tbl st <> [].
Proof.
  destruct C07_append_after_recovery_exact_nonvacuous
    as (p & ws & log & k & st & f & w & b & t & H1 & H2 & H3 & H4 & H5 & H6 & _ & H8 & _ & H9 & _).
  exists p, ws, log, k, st, f, w.
  split; [exact H1|]. split; [exact H2|]. split; [exact H3|]. split; [exact H4|]. split; [exact H5|].
  split; [exact H6|]. split; [exact H8 | exact H9].
Qed.

(* C07_pinned_refuted: the witness in DbMain.v is the log of ONE in-bounds record written by the
   model's writer, cut at k = 10, i.e. inside its first path record; the pinned reader answers
   "failed to fill whole buffer" while the fixed reader recovers.  The witness is realistic. *)
Example C07_pinned_refuted_witness_is_realistic :
  Forall in_bounds refute7_ws /\ table_small refute7_ws /\
  exists log, log_of refute7_ws = Ok log /\ (8 < 10 < length log)%nat /\
    db_open false (fun _ => None) (firstn 10 log) = OpenErr (bs "failed to fill whole buffer") /\
    db_open true (fun _ => None) (firstn 10 log) = OpenOk (mkLoaded [] []) signature /\
    (* and the pinned reader does accept the whole log *)
    exists st, db_open false (fun _ => None) log = OpenOk st log.
Proof.
  split; [repeat (apply Forall_cons; [in_bounds_tac|]); apply Forall_nil|].
  split; [vm_compute; reflexivity|].
  exists (unok [] (log_of refute7_ws)).
  split; [vm_compute; reflexivity|]. split; [vm_compute; lia|].
  split; [vm_compute; reflexivity|]. split; [vm_compute; reflexivity|].
  eexists. vm_compute. reflexivity.
Qed.

(* ------------------------------------------------------------------------------------ *)
(* C08 *)

Example C08_roundtrip_nonvacuous :
  exists producer ws log,
    Forall in_bounds ws /\ table_small ws /\ log_of ws = Ok log /\
    (* non-triviality: a superseded record, two inapplicable records, two different steps loaded *)
    (exists w1 w2 rest, ws = w1 :: w2 :: rest /\ applicable producer w1 0 = true /\ applicable producer w2 0 = true /\
                        w_deps w1 <> w_deps w2) /\
    (exists w, In w ws /\ forall b, applicable producer w b = false) /\
    last_applicable producer ws 0 None = Some ([bs "y"], 22%N) /\
    last_applicable producer ws 1 None = Some ([bs "x"], 33%N) /\
    last_applicable producer ws 2 None = None /\
    exists st, db_open true producer log = OpenOk st log /\ length (ld_builds st) = 3.
Proof.
  exists nv_prod, nv_ws, nv_log.
  split; [exact nv_ws_in_bounds|]. split; [exact nv_ws_small|]. split; [exact nv_log_ok|].
  split. { eexists _, _, _. split; [reflexivity|]. repeat split; vm_compute; (reflexivity || discriminate). }
  split. { exists (mkWr [bs "a"; bs "b"] [] 55%N). split; [vm_compute; tauto|].
           intros b. unfold applicable. cbn [w_outs forallb]. change (nv_prod (bs "a")) with (Some 0).
           change (nv_prod (bs "b")) with (Some 1). destruct b as [|[|b]]; reflexivity. }
  split; [vm_compute; reflexivity|]. split; [vm_compute; reflexivity|]. split; [vm_compute; reflexivity|].
  exists (open_st (db_open true nv_prod nv_log)). split; vm_compute; reflexivity.
Qed.

Example C08_writer_total_nonvacuous :
  exists ws, Forall in_bounds ws /\ table_small ws /\ (5 <= length ws)%nat /\
             exists log, log_of ws = Ok log /\ (length signature < length log)%nat.
Proof.
  exists nv_ws. split; [exact nv_ws_in_bounds|]. split; [exact nv_ws_small|]. split; [vm_compute; lia|].
  exists nv_log. split; [exact nv_log_ok | vm_compute; lia].
Qed.

Example C08_applied_only_if_all_outputs_match_nonvacuous :
  exists producer ws log st b deps h,
    Forall in_bounds ws /\ table_small ws /\ log_of ws = Ok log /\
    db_open true producer log = OpenOk st log /\ loaded_for st b = Some (deps, h) /\
    (* non-triviality: the log also holds a record naming an output of b that is NOT loaded for b *)
    exists w, In w ws /\ In (bs "a") (w_outs w) /\ producer (bs "a") = Some b /\ w_hash w <> h /\
              (exists i j w', nth_error ws i = Some w /\ nth_error ws j = Some w' /\ w_hash w' = h /\ (j < i)%nat).
Proof.
  exists nv_prod, nv_ws, nv_log, (open_st (db_open true nv_prod nv_log)), 0, [bs "y"], 22%N.
  split; [exact nv_ws_in_bounds|]. split; [exact nv_ws_small|]. split; [exact nv_log_ok|].
  split; [vm_compute; reflexivity|]. split; [vm_compute; reflexivity|].
  exists (mkWr [bs "a"; bs "b"] [] 55%N).
  split; [vm_compute; tauto|]. split; [vm_compute; tauto|]. split; [reflexivity|]. split; [discriminate|].
  exists 4, 1, (mkWr [bs "a"] [bs "y"] 22%N). repeat split. lia.
Qed.

(* a non-identity renumbering: the steps 0 and 1 are swapped *)
Definition nv_sigma (n : nat) : nat := match n with 0 => 1 | 1 => 0 | _ => n end.
Lemma nv_sigma_inj : forall x y : nat, nv_sigma x = nv_sigma y -> x = y.
Proof. intros [|[|x]] [|[|y]]; cbn; intro H; congruence. Qed.

Example C08_renumbering_invariant_nonvacuous :
  exists producer sigma log st1 st2,
    (forall x y : nat, sigma x = sigma y -> x = y) /\
    db_open true producer log = OpenOk st1 log /\
    db_open true (fun n => option_map sigma (producer n)) log = OpenOk st2 log /\
    (* non-triviality: sigma is not the identity, records are loaded, and the two states differ *)
    sigma 0 <> 0 /\ (exists ws, log_of ws = Ok log /\ (5 <= length ws)%nat) /\
    loaded_for st1 0 = Some ([bs "y"], 22%N) /\ loaded_for st1 1 = Some ([bs "x"], 33%N) /\
    loaded_for st2 0 = Some ([bs "x"], 33%N) /\ st1 <> st2.
Proof.
  exists nv_prod, nv_sigma, nv_log.
  exists (open_st (db_open true nv_prod nv_log)).
  exists (open_st (db_open true (fun n => option_map nv_sigma (nv_prod n)) nv_log)).
  split; [exact nv_sigma_inj|]. split; [vm_compute; reflexivity|]. split; [vm_compute; reflexivity|].
  split; [discriminate|]. split; [exists nv_ws; split; [exact nv_log_ok | vm_compute; lia]|].
  split; [vm_compute; reflexivity|]. split; [vm_compute; reflexivity|]. split; [vm_compute; reflexivity|].
  vm_compute. discriminate.
Qed.

(* same, on a TORN file (the returned file differs from the input) *)
Example C08_renumbering_opens_nonvacuous :
  exists producer sigma log st1 f,
    (forall x y : nat, sigma x = sigma y -> x = y) /\
    db_open true producer log = OpenOk st1 f /\
    sigma 0 <> 0 /\ f <> log /\ loaded_for st1 0 = Some ([bs "x"], 11%N) /\
    exists st2, db_open true (fun n => option_map sigma (producer n)) log = OpenOk st2 f /\
                loaded_for st2 1 = Some ([bs "x"], 11%N) /\ loaded_for st2 0 = None.
Proof.
  exists nv_prod, nv_sigma, (firstn 40 nv_log).
  exists (open_st (db_open true nv_prod (firstn 40 nv_log))), (open_file (db_open true nv_prod (firstn 40 nv_log))).
  split; [exact nv_sigma_inj|]. split; [vm_compute; reflexivity|]. split; [discriminate|].
  split; [vm_compute; discriminate|]. split; [vm_compute; reflexivity|].
  exists (open_st (db_open true (fun n => option_map nv_sigma (nv_prod n)) (firstn 40 nv_log))).
  split; [vm_compute; reflexivity|]. split; vm_compute; reflexivity.
Qed.

(* C08_pinned_attribution_refuted: the witness is one in-bounds record with outputs a, b written
   by the model's writer; b has lost its producer.  The pinned reader attributes the record to
   step 0 (finding F9), the fixed reader drops it. *)
Example C08_pinned_attribution_refuted_witness_is_realistic :
  Forall in_bounds refute_ws /\ table_small refute_ws /\
  exists log, log_of refute_ws = Ok log /\
    (exists st, db_open false refute_producer log = OpenOk st log /\ loaded_for st 0 = Some ([], 0%N)) /\
    (exists st, db_open true refute_producer log = OpenOk st log /\ loaded_for st 0 = None) /\
    refute_producer (bs "a") = Some 0 /\ refute_producer (bs "b") = None.
Proof.
  split; [repeat (apply Forall_cons; [in_bounds_tac|]); apply Forall_nil|].
  split; [vm_compute; reflexivity|].
  exists (unok [] (log_of refute_ws)). split; [vm_compute; reflexivity|].
  split; [eexists; split; vm_compute; reflexivity|].
  split; [eexists; split; vm_compute; reflexivity|]. split; reflexivity.
Qed.
