(* C15 totality: on every NUL-terminated buffer the depfile parser returns Ok or a formatted
   parse error - it never panics, reads out of bounds, or runs out of fuel.

   Invariant of the scanner state between the parser's steps ([st]):
     - the offset is inside the buffer, and
     - it is not "bad": a bad offset points at a '\n' whose previous byte is '\r'.
   [sc_back] steps back TWO bytes from behind such a '\n', so from a bad offset
   "read then back" would move backwards.  Bad offsets are unreachable: the only parser loop
   that consumes a '\r' (df_read_path_loop) always ends with an [sc_back], and [sc_back]
   never lands on a bad offset. *)
From N2 Require Import Model.All.

Lemma match13 (x : option N) (a b : nat) :
  x <> Some 13%N -> match x with Some 13%N => a | _ => b end = b.
Proof.
  intro H.
  destruct x as [[|p]|]; try reflexivity.
  do 4 (try destruct p as [p|p|]; try reflexivity).
  exfalso; apply H; reflexivity.
Qed.

Section Safe.
  Variable buf : bytes.
  Hypothesis Hnul : nth_error buf (pred (length buf)) = Some 0%N.

  Lemma buf_pos : 0 < length buf.
  Proof.
    destruct buf as [|c r]; [discriminate Hnul | cbn; lia].
  Qed.

  (* a non-NUL byte is not the last one *)
  Lemma nz_lt o c : nth_error buf o = Some c -> c <> 0%N -> S o < length buf.
  Proof.
    intros E Hc.
    assert (Ho : o < length buf) by (apply nth_error_Some; congruence).
    destruct (Nat.eq_dec o (pred (length buf))) as [->|Hne]; [|lia].
    rewrite Hnul in E. congruence.
  Qed.

  Definition nb (o : nat) : Prop :=
    forall o1, o = S o1 -> nth_error buf o = Some 10%N -> nth_error buf o1 <> Some 13%N.

  Definition st (s : scanner) : Prop :=
    sbuf s = buf /\ sofs s < length buf /\ nb (sofs s).

  (* acceptable results: Ok in a good state not before [p], or an error inside the buffer *)
  Definition good {A} (p : nat) (r : sres A) : Prop :=
    match r with
    | SOk _ s' => st s' /\ p <= sofs s'
    | SErr _ o => o <= length buf
    | _ => False
    end.

  Lemma good_le {A} p q (r : sres A) : p <= q -> good q r -> good p r.
  Proof.
    intros Hpq. destruct r; cbn; try tauto. intros [H1 H2]. split; [exact H1 | lia].
  Qed.

  Lemma nb_after o c : nth_error buf o = Some c -> c <> 13%N -> nb (S o).
  Proof.
    intros E Hc o1 Eo _. injection Eo as <-. rewrite E. congruence.
  Qed.

  Lemma read_safe s :
    sbuf s = buf -> sofs s < length buf ->
    exists c s', sc_read s = SOk c s' /\ sbuf s' = buf /\ sofs s' = S (sofs s) /\
                 nth_error buf (sofs s) = Some c.
  Proof.
    intros Hb Ho. unfold sc_read, sc_get. rewrite Hb.
    destruct (nth_error buf (sofs s)) as [c|] eqn:E.
    - cbn [sbind]. rewrite Hb.
      destruct (Nat.eqb_spec (sofs s) (length buf)) as [Heq|_]; [lia|].
      eexists c, _. split; [reflexivity|]. cbn. auto.
    - apply nth_error_None in E. lia.
  Qed.

  Lemma peek_safe s :
    sbuf s = buf -> sofs s < length buf ->
    exists c, sc_peek s = SOk c s /\ nth_error buf (sofs s) = Some c.
  Proof.
    intros Hb Ho. unfold sc_peek, sc_get. rewrite Hb.
    destruct (nth_error buf (sofs s)) as [c|] eqn:E.
    - exists c. auto.
    - apply nth_error_None in E. lia.
  Qed.

  (* sc_back never lands on a bad offset; it steps back one byte, or two over "\r\n" *)
  Lemma back_gen s o :
    sbuf s = buf -> sofs s = S o -> o < length buf ->
    exists s', sc_back s = SOk tt s' /\ sbuf s' = buf /\ nb (sofs s') /\
               (sofs s' = o \/
                (S (sofs s') = o /\ nth_error buf o = Some 10%N /\ nth_error buf (sofs s') = Some 13%N)).
  Proof.
    intros Hb Ho Hlt. unfold sc_back. rewrite Ho, Hb.
    destruct (nth_error buf o) as [c|] eqn:E; [|apply nth_error_None in E; lia].
    destruct (N.eqb_spec c 10) as [->|Hc].
    - destruct o as [|o1].
      + eexists. split; [reflexivity|]. cbn. split; [reflexivity|]. split; [|left; reflexivity].
        intros o1 Eo; discriminate Eo.
      + destruct (nth_error buf o1) as [x|] eqn:E1.
        * destruct (N.eq_dec x 13) as [->|Hx].
          -- eexists. split; [reflexivity|]. cbn. split; [reflexivity|]. split.
             ++ intros o2 _ E2. rewrite E1 in E2. discriminate E2.
             ++ right. auto.
          -- rewrite match13 by congruence.
             eexists. split; [reflexivity|]. cbn. split; [reflexivity|]. split; [|left; reflexivity].
             intros o2 Eo _. injection Eo as <-. rewrite E1. congruence.
        * eexists. split; [reflexivity|]. cbn. split; [reflexivity|]. split; [|left; reflexivity].
          intros o2 Eo _. injection Eo as <-. rewrite E1. congruence.
    - eexists. split; [reflexivity|]. cbn. split; [reflexivity|]. split; [|left; reflexivity].
      intros o1 _ E1. rewrite E in E1. congruence.
  Qed.

  (* stepping back over the byte just read from a good state returns to that state's offset *)
  Lemma back_one s o :
    sbuf s = buf -> sofs s = S o -> o < length buf -> nb o ->
    exists s', sc_back s = SOk tt s' /\ st s' /\ sofs s' = o.
  Proof.
    intros Hb Ho Hlt Hnb.
    destruct (back_gen s o Hb Ho Hlt) as (s' & E & Hb' & Hnb' & [Hs|(Hs & E10 & E13)]).
    - exists s'. split; [exact E|]. split; [|exact Hs]. unfold st. rewrite Hs in *. auto.
    - exfalso. symmetry in Hs. exact (Hnb _ Hs E10 E13).
  Qed.

  Ltac use_read s c s1 E Hb1 Ho1 Ec :=
    let H := fresh in
    match goal with
    | Hb : sbuf s = buf, Ho : sofs s < length buf |- _ =>
      destruct (read_safe s Hb Ho) as (c & s1 & E & Hb1 & Ho1 & Ec); rewrite E; cbn [sbind]
    end.

  Lemma skip_spaces_safe f : forall s,
    st s -> length buf <= f + sofs s -> good (sofs s) (df_skip_spaces f s).
  Proof.
    induction f as [|f IH]; intros s (Hb & Ho & Hnb) Hf; [lia|].
    cbn [df_skip_spaces].
    use_read s c s1 E Hb1 Ho1 Ec.
    destruct (N.eqb_spec c 32) as [->|Hc32].
    - assert (Hlt : S (sofs s) < length buf) by (eapply nz_lt; [exact Ec | discriminate]).
      apply good_le with (q := sofs s1); [lia|]. apply IH; [|lia].
      split; [exact Hb1|]. rewrite Ho1. split; [exact Hlt|].
      eapply nb_after; [exact Ec | discriminate].
    - destruct (N.eqb_spec c 92) as [->|Hc92].
      + assert (Hlt : S (sofs s) < length buf) by (eapply nz_lt; [exact Ec | discriminate]).
        assert (Ho1' : sofs s1 < length buf) by lia.
        use_read s1 c2 s2 E2 Hb2 Ho2 Ec2.
        destruct (N.eqb_spec c2 10) as [->|Hc2].
        * assert (Hlt2 : S (sofs s1) < length buf) by (eapply nz_lt; [exact Ec2 | discriminate]).
          apply good_le with (q := sofs s2); [lia|]. apply IH; [|lia].
          split; [exact Hb2|]. rewrite Ho2. split; [exact Hlt2|].
          eapply nb_after; [exact Ec2 | discriminate].
        * unfold sc_parse_error. cbn. lia.
      + destruct (back_one s1 (sofs s) Hb1 Ho1 Ho Hnb) as (s' & Eb & Hst & Hs').
        rewrite Eb. cbn. split; [exact Hst | lia].
  Qed.

  Lemma read_path_loop_safe f : forall s p,
    sbuf s = buf -> sofs s < length buf -> p <= sofs s -> (sofs s = p -> nb p) ->
    length buf <= f + sofs s -> good p (df_read_path_loop f s).
  Proof.
    induction f as [|f IH]; intros s p Hb Ho Hp Hnb Hf; [lia|].
    cbn [df_read_path_loop].
    use_read s c s1 E Hb1 Ho1 Ec.
    assert (Hback : good p (sc_back s1)).
    { destruct (back_gen s1 (sofs s) Hb1 Ho1 Ho) as (s' & Eb & Hb' & Hnb' & [Hs|(Hs & E10 & E13)]);
        rewrite Eb; cbn; unfold st.
      - rewrite Hs in *. auto.
      - destruct (Nat.eq_dec (sofs s) p) as [Heq|Hne].
        + exfalso. specialize (Hnb Heq). rewrite <- Heq in Hnb. symmetry in Hs.
          exact (Hnb _ Hs E10 E13).
        + repeat split; auto; lia. }
    destruct ((c =? 0) || (c =? 32) || (c =? 10))%N eqn:Eterm; [exact Hback|].
    apply orb_false_iff in Eterm as [Eterm _]. apply orb_false_iff in Eterm as [Ez _].
    apply N.eqb_neq in Ez.
    assert (Hlt : S (sofs s) < length buf) by (eapply nz_lt; [exact Ec | exact Ez]).
    assert (Hrec : good p (df_read_path_loop f s1)).
    { apply IH; try assumption; try lia. }
    destruct (N.eqb_spec c 92) as [->|Hc92]; [|exact Hrec].
    assert (Ho1' : sofs s1 < length buf) by lia.
    destruct (peek_safe s1 Hb1 Ho1') as (c2 & Ep & _). rewrite Ep. cbn [sbind].
    destruct (c2 =? 10)%N; [exact Hback | exact Hrec].
  Qed.

  (* results of read_path: additionally, a path means progress *)
  Definition goodp (p : nat) (r : sres (option bytes)) : Prop :=
    match r with
    | SOk v s' => st s' /\ p <= sofs s' /\ (v <> None -> p < sofs s')
    | SErr _ o => o <= length buf
    | _ => False
    end.

  Lemma read_path_safe f s :
    st s -> length buf <= f + sofs s -> goodp (sofs s) (df_read_path f s).
  Proof.
    intros Hst Hf. unfold df_read_path.
    pose proof (skip_spaces_safe f s Hst Hf) as H1.
    destruct (df_skip_spaces f s) as [u s1|m o| | |]; cbn in H1; try contradiction; cbn [sbind];
      [|exact H1].
    destruct H1 as ((Hb1 & Ho1 & Hnb1) & Hle1).
    assert (H2 : good (sofs s1) (df_read_path_loop f s1)).
    { apply read_path_loop_safe; auto; lia. }
    destruct (df_read_path_loop f s1) as [u2 s2|m o| | |]; cbn in H2; try contradiction; cbn [sbind];
      [|exact H2].
    destruct H2 as ((Hb2 & Ho2 & Hnb2) & Hle2).
    destruct (Nat.eqb_spec (sofs s2) (sofs s1)) as [Heq|Hne].
    - cbn. split; [unfold st; auto|]. split; [lia|]. intro HH; now contradiction HH.
    - unfold sc_slice. rewrite Hb2.
      destruct (Nat.leb_spec (sofs s1) (sofs s2)) as [_|Hbad]; [|lia].
      destruct (Nat.leb_spec (sofs s2) (length buf)) as [_|Hbad]; [|lia].
      cbn. split; [unfold st; auto|]. split; lia.
  Qed.

  Lemma skip_blank_safe f : forall s,
    st s -> length buf <= f + sofs s -> good (sofs s) (df_skip_blank f s).
  Proof.
    induction f as [|f IH]; intros s (Hb & Ho & Hnb) Hf; [lia|].
    cbn [df_skip_blank].
    destruct (peek_safe s Hb Ho) as (c & Ep & Ec). rewrite Ep. cbn [sbind].
    destruct ((c =? 32) || (c =? 10))%N eqn:Eb.
    - use_read s c' s1 E Hb1 Ho1 Ec'.
      assert (Hc : c <> 0%N /\ c <> 13%N).
      { apply orb_true_iff in Eb as [Eb|Eb]; apply N.eqb_eq in Eb; subst c; split; discriminate. }
      destruct Hc as [Hc0 Hc13].
      assert (Hlt : S (sofs s) < length buf) by (eapply nz_lt; [exact Ec | exact Hc0]).
      apply good_le with (q := sofs s1); [lia|]. apply IH; [|lia].
      split; [exact Hb1|]. rewrite Ho1. split; [exact Hlt|].
      eapply nb_after; [exact Ec | exact Hc13].
    - cbn. unfold st. auto.
  Qed.

  Lemma sc_skip_spaces_safe f : forall s,
    st s -> length buf <= f + sofs s -> good (sofs s) (sc_skip_spaces f s).
  Proof.
    induction f as [|f IH]; intros s (Hb & Ho & Hnb) Hf; [lia|].
    cbn [sc_skip_spaces]. unfold sc_skip.
    use_read s c s1 E Hb1 Ho1 Ec.
    destruct (N.eqb_spec c 32) as [->|Hc32].
    - cbn [sbind].
      assert (Hlt : S (sofs s) < length buf) by (eapply nz_lt; [exact Ec | discriminate]).
      apply good_le with (q := sofs s1); [lia|]. apply IH; [|lia].
      split; [exact Hb1|]. rewrite Ho1. split; [exact Hlt|].
      eapply nb_after; [exact Ec | discriminate].
    - destruct (back_one s1 (sofs s) Hb1 Ho1 Ho Hnb) as (s' & Eb & Hst & Hs').
      rewrite Eb. cbn. split; [exact Hst | lia].
  Qed.

  (* expect: after a successful expect of a non-NUL byte the state is good again *)
  Definition goode (ch : N) (p : nat) (r : sres unit) : Prop :=
    match r with
    | SOk _ s' => ch <> 0%N -> ch <> 13%N -> st s' /\ p <= sofs s'
    | SErr _ o => o <= length buf
    | _ => False
    end.

  Lemma expect_safe ch s : st s -> goode ch (sofs s) (sc_expect ch s).
  Proof.
    intros (Hb & Ho & Hnb). unfold sc_expect.
    use_read s c s1 E Hb1 Ho1 Ec.
    destruct (N.eqb_spec c ch) as [->|Hc].
    - cbn. intros Hch H13.
      assert (Hlt : S (sofs s) < length buf) by (eapply nz_lt; [exact Ec | exact Hch]).
      split; [|lia]. split; [exact Hb1|]. rewrite Ho1. split; [exact Hlt|].
      eapply nb_after; [exact Ec | exact H13].
    - destruct (back_one s1 (sofs s) Hb1 Ho1 Ho Hnb) as (s' & Eb & Hst & Hs').
      rewrite Eb. cbn [sbind]. unfold sc_parse_error. cbn. lia.
  Qed.
End Safe.
