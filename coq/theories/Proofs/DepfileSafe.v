(* C15 totality: on every NUL-terminated buffer the depfile parser returns Ok or a formatted
   parse error - it never panics, reads out of bounds, or runs out of fuel.

   Invariant of the scanner state between the parser's steps ([st]):
     - the offset is inside the buffer, and
     - it is not "bad": a bad offset points at a '\n' whose previous byte is '\r'.
   [sc_back] steps back TWO bytes from behind such a '\n', so from a bad offset
   "read then back" would move backwards.  Bad offsets are unreachable: the only parser loop
   that consumes a '\r' (df_read_path_loop) always ends with an [sc_back], and [sc_back]
   never lands on a bad offset. *)
From Coq Require Import String.
From N2 Require Import Model.All.

Lemma match13 (x : option N) (a b : nat) :
  x <> Some 13%N -> match x with Some 13%N => a | _ => b end = b.
Proof.
  intro H.
  destruct x as [[|p]|]; try reflexivity.
  do 4 (try destruct p as [p|p|]; try reflexivity).
  exfalso; apply H; reflexivity.
Qed.

Section Safe.
  Variable buf : bytes.
  Hypothesis Hnul : nth_error buf (pred (length buf)) = Some 0%N.

  Lemma buf_pos : 0 < length buf.
  Proof.
    destruct buf as [|c r]; [discriminate Hnul | cbn; lia].
  Qed.

  (* a non-NUL byte is not the last one *)
  Lemma nz_lt o c : nth_error buf o = Some c -> c <> 0%N -> S o < length buf.
  Proof.
    intros E Hc.
    assert (Ho : o < length buf) by (apply nth_error_Some; congruence).
    destruct (Nat.eq_dec o (pred (length buf))) as [->|Hne]; [|lia].
    rewrite Hnul in E. congruence.
  Qed.

  Definition nb (o : nat) : Prop :=
    forall o1, o = S o1 -> nth_error buf o = Some 10%N -> nth_error buf o1 <> Some 13%N.

  Definition st (s : scanner) : Prop :=
    sbuf s = buf /\ sofs s < length buf /\ nb (sofs s).

  (* acceptable results: Ok in a good state not before [p], or an error inside the buffer *)
  Definition good {A} (p : nat) (r : sres A) : Prop :=
    match r with
    | SOk _ s' => st s' /\ p <= sofs s'
    | SErr _ o => o <= length buf
    | _ => False
    end.

  Lemma good_le {A} p q (r : sres A) : p <= q -> good q r -> good p r.
  Proof.
    intros Hpq. destruct r; cbn; try tauto. intros [H1 H2]. split; [exact H1 | lia].
  Qed.

  Lemma nb_after o c : nth_error buf o = Some c -> c <> 13%N -> nb (S o).
  Proof.
    intros E Hc o1 Eo _. injection Eo as <-. rewrite E. congruence.
  Qed.

  Lemma read_safe s :
    sbuf s = buf -> sofs s < length buf ->
    exists c s', sc_read s = SOk c s' /\ sbuf s' = buf /\ sofs s' = S (sofs s) /\
                 nth_error buf (sofs s) = Some c.
  Proof.
    intros Hb Ho. unfold sc_read, sc_get. rewrite Hb.
    destruct (nth_error buf (sofs s)) as [c|] eqn:E.
    - cbn [sbind]. rewrite Hb.
      destruct (Nat.eqb_spec (sofs s) (length buf)) as [Heq|_]; [lia|].
      eexists c, _. split; [reflexivity|]. cbn. auto.
    - apply nth_error_None in E. lia.
  Qed.

  Lemma peek_safe s :
    sbuf s = buf -> sofs s < length buf ->
    exists c, sc_peek s = SOk c s /\ nth_error buf (sofs s) = Some c.
  Proof.
    intros Hb Ho. unfold sc_peek, sc_get. rewrite Hb.
    destruct (nth_error buf (sofs s)) as [c|] eqn:E.
    - exists c. auto.
    - apply nth_error_None in E. lia.
  Qed.

  (* sc_back never lands on a bad offset; it steps back one byte, or two over "\r\n" *)
  Lemma back_gen s o :
    sbuf s = buf -> sofs s = S o -> o < length buf ->
    exists s', sc_back s = SOk tt s' /\ sbuf s' = buf /\ nb (sofs s') /\
               (sofs s' = o \/
                (S (sofs s') = o /\ nth_error buf o = Some 10%N /\ nth_error buf (sofs s') = Some 13%N)).
  Proof.
    intros Hb Ho Hlt. unfold sc_back. rewrite Ho, Hb.
    destruct (nth_error buf o) as [c|] eqn:E; [|apply nth_error_None in E; lia].
    destruct (N.eqb_spec c 10) as [->|Hc].
    - destruct o as [|o1].
      + eexists. split; [reflexivity|]. cbn. split; [reflexivity|]. split; [|left; reflexivity].
        intros o1 Eo; discriminate Eo.
      + assert (D : nth_error buf o1 = Some 13%N \/ nth_error buf o1 <> Some 13%N).
        { destruct (nth_error buf o1) as [x|]; [|right; discriminate].
          destruct (N.eq_dec x 13); [left; congruence | right; congruence]. }
        destruct D as [E1|E1].
        * rewrite E1.
          eexists. split; [reflexivity|]. cbn. split; [reflexivity|]. split.
          -- intros o2 _ E2. rewrite E1 in E2. discriminate E2.
          -- right. auto.
        * rewrite match13 by exact E1.
          eexists. split; [reflexivity|]. cbn. split; [reflexivity|]. split; [|left; reflexivity].
          intros o2 Eo _. injection Eo as <-. exact E1.
    - eexists. split; [reflexivity|]. cbn. split; [reflexivity|]. split; [|left; reflexivity].
      intros o1 _ E1. rewrite E in E1. congruence.
  Qed.

  (* stepping back over the byte just read from a good state returns to that state's offset *)
  Lemma back_one s o :
    sbuf s = buf -> sofs s = S o -> o < length buf -> nb o ->
    exists s', sc_back s = SOk tt s' /\ st s' /\ sofs s' = o.
  Proof.
    intros Hb Ho Hlt Hnb.
    destruct (back_gen s o Hb Ho Hlt) as (s' & E & Hb' & Hnb' & [Hs|(Hs & E10 & E13)]).
    - exists s'. split; [exact E|]. split; [|exact Hs]. unfold st. rewrite Hs in *. auto.
    - exfalso. symmetry in Hs. exact (Hnb _ Hs E10 E13).
  Qed.

  Ltac use_read s c s1 E Hb1 Ho1 Ec :=
    let H := fresh in
    match goal with
    | Hb : sbuf s = buf, Ho : sofs s < length buf |- _ =>
      destruct (read_safe s Hb Ho) as (c & s1 & E & Hb1 & Ho1 & Ec); rewrite E; cbn [sbind]
    end.

  Lemma skip_spaces_safe f : forall s,
    st s -> length buf <= f + sofs s -> good (sofs s) (df_skip_spaces f s).
  Proof.
    induction f as [|f IH]; intros s (Hb & Ho & Hnb) Hf; [lia|].
    cbn [df_skip_spaces].
    use_read s c s1 E Hb1 Ho1 Ec.
    destruct (N.eqb_spec c 32) as [->|Hc32].
    - assert (Hlt : S (sofs s) < length buf) by (eapply nz_lt; [exact Ec | discriminate]).
      apply good_le with (q := sofs s1); [lia|]. apply IH; [|lia].
      split; [exact Hb1|]. rewrite Ho1. split; [exact Hlt|].
      eapply nb_after; [exact Ec | discriminate].
    - destruct (N.eqb_spec c 92) as [->|Hc92].
      + assert (Hlt : S (sofs s) < length buf) by (eapply nz_lt; [exact Ec | discriminate]).
        assert (Ho1' : sofs s1 < length buf) by lia.
        use_read s1 c2 s2 E2 Hb2 Ho2 Ec2.
        destruct (N.eqb_spec c2 10) as [->|Hc2].
        * assert (Hlt2 : S (sofs s1) < length buf) by (eapply nz_lt; [exact Ec2 | discriminate]).
          apply good_le with (q := sofs s2); [lia|]. apply IH; [|lia].
          split; [exact Hb2|]. rewrite Ho2. split; [exact Hlt2|].
          eapply nb_after; [exact Ec2 | discriminate].
        * unfold sc_parse_error. cbn. lia.
      + destruct (back_one s1 (sofs s) Hb1 Ho1 Ho Hnb) as (s' & Eb & Hst & Hs').
        rewrite Eb. cbn. split; [exact Hst | lia].
  Qed.

  Lemma read_path_loop_safe f : forall s p,
    sbuf s = buf -> sofs s < length buf -> p <= sofs s -> (sofs s = p -> nb p) ->
    length buf <= f + sofs s -> good p (df_read_path_loop f s).
  Proof.
    induction f as [|f IH]; intros s p Hb Ho Hp Hnb Hf; [lia|].
    cbn [df_read_path_loop].
    use_read s c s1 E Hb1 Ho1 Ec.
    assert (Hback : good p (sc_back s1)).
    { destruct (back_gen s1 (sofs s) Hb1 Ho1 Ho) as (s' & Eb & Hb' & Hnb' & [Hs|(Hs & E10 & E13)]);
        rewrite Eb; cbn; unfold st.
      - rewrite Hs in *. auto.
      - destruct (Nat.eq_dec (sofs s) p) as [Heq|Hne].
        + exfalso. specialize (Hnb Heq). rewrite <- Heq in Hnb. symmetry in Hs.
          exact (Hnb _ Hs E10 E13).
        + repeat split; auto; lia. }
    destruct ((c =? 0) || (c =? 32) || (c =? 10))%N eqn:Eterm; [exact Hback|].
    apply orb_false_iff in Eterm as [Eterm _]. apply orb_false_iff in Eterm as [Ez _].
    apply N.eqb_neq in Ez.
    assert (Hlt : S (sofs s) < length buf) by (eapply nz_lt; [exact Ec | exact Ez]).
    assert (Hrec : good p (df_read_path_loop f s1)).
    { apply IH; try assumption; try lia. }
    destruct (N.eqb_spec c 92) as [->|Hc92]; [|exact Hrec].
    assert (Ho1' : sofs s1 < length buf) by lia.
    destruct (peek_safe s1 Hb1 Ho1') as (c2 & Ep & _). rewrite Ep. cbn [sbind].
    destruct (c2 =? 10)%N; [exact Hback | exact Hrec].
  Qed.

  (* results of read_path: additionally, a path means progress *)
  Definition goodp (p : nat) (r : sres (option bytes)) : Prop :=
    match r with
    | SOk v s' => st s' /\ p <= sofs s' /\ (v <> None -> p < sofs s')
    | SErr _ o => o <= length buf
    | _ => False
    end.

  Lemma read_path_safe f s :
    st s -> length buf <= f + sofs s -> goodp (sofs s) (df_read_path f s).
  Proof.
    intros Hst Hf. unfold df_read_path.
    pose proof (skip_spaces_safe f s Hst Hf) as H1.
    destruct (df_skip_spaces f s) as [u s1|m o| | |]; cbn in H1; try contradiction; cbn [sbind];
      [|exact H1].
    destruct H1 as ((Hb1 & Ho1 & Hnb1) & Hle1).
    assert (H2 : good (sofs s1) (df_read_path_loop f s1)).
    { apply read_path_loop_safe; auto; lia. }
    destruct (df_read_path_loop f s1) as [u2 s2|m o| | |]; cbn in H2; try contradiction; cbn [sbind];
      [|exact H2].
    destruct H2 as ((Hb2 & Ho2 & Hnb2) & Hle2).
    destruct (Nat.eqb_spec (sofs s2) (sofs s1)) as [Heq|Hne].
    - cbn. split; [unfold st; auto|]. split; [lia|]. intro HH; now contradiction HH.
    - unfold sc_slice. rewrite Hb2.
      destruct (Nat.leb_spec (sofs s1) (sofs s2)) as [_|Hbad]; [|lia].
      destruct (Nat.leb_spec (sofs s2) (length buf)) as [_|Hbad]; [|lia].
      cbn. split; [unfold st; auto|]. split; lia.
  Qed.

  Lemma skip_blank_safe f : forall s,
    st s -> length buf <= f + sofs s -> good (sofs s) (df_skip_blank f s).
  Proof.
    induction f as [|f IH]; intros s (Hb & Ho & Hnb) Hf; [lia|].
    cbn [df_skip_blank].
    destruct (peek_safe s Hb Ho) as (c & Ep & Ec). rewrite Ep. cbn [sbind].
    destruct ((c =? 32) || (c =? 10))%N eqn:Eb.
    - use_read s c' s1 E Hb1 Ho1 Ec'.
      assert (Hc : c <> 0%N /\ c <> 13%N).
      { apply orb_true_iff in Eb as [Eb|Eb]; apply N.eqb_eq in Eb; subst c; split; discriminate. }
      destruct Hc as [Hc0 Hc13].
      assert (Hlt : S (sofs s) < length buf) by (eapply nz_lt; [exact Ec | exact Hc0]).
      apply good_le with (q := sofs s1); [lia|]. apply IH; [|lia].
      split; [exact Hb1|]. rewrite Ho1. split; [exact Hlt|].
      eapply nb_after; [exact Ec | exact Hc13].
    - cbn. unfold st. auto.
  Qed.

  Lemma sc_skip_spaces_safe f : forall s,
    st s -> length buf <= f + sofs s -> good (sofs s) (sc_skip_spaces f s).
  Proof.
    induction f as [|f IH]; intros s (Hb & Ho & Hnb) Hf; [lia|].
    cbn [sc_skip_spaces]. unfold sc_skip.
    use_read s c s1 E Hb1 Ho1 Ec.
    destruct (N.eqb_spec c 32) as [->|Hc32].
    - cbn [sbind].
      assert (Hlt : S (sofs s) < length buf) by (eapply nz_lt; [exact Ec | discriminate]).
      apply good_le with (q := sofs s1); [lia|]. apply IH; [|lia].
      split; [exact Hb1|]. rewrite Ho1. split; [exact Hlt|].
      eapply nb_after; [exact Ec | discriminate].
    - destruct (back_one s1 (sofs s) Hb1 Ho1 Ho Hnb) as (s' & Eb & Hst & Hs').
      rewrite Eb. cbn. split; [exact Hst | lia].
  Qed.

  (* expect: after a successful expect of a non-NUL byte the state is good again *)
  Definition goode (ch : N) (p : nat) (r : sres unit) : Prop :=
    match r with
    | SOk _ s' => ch <> 0%N -> ch <> 13%N -> st s' /\ p <= sofs s'
    | SErr _ o => o <= length buf
    | _ => False
    end.

  Lemma expect_safe ch s : st s -> goode ch (sofs s) (sc_expect ch s).
  Proof.
    intros (Hb & Ho & Hnb). unfold sc_expect.
    use_read s c s1 E Hb1 Ho1 Ec.
    destruct (N.eqb_spec c ch) as [->|Hc].
    - cbn. intros Hch H13.
      assert (Hlt : S (sofs s) < length buf) by (eapply nz_lt; [exact Ec | exact Hch]).
      split; [|lia]. split; [exact Hb1|]. rewrite Ho1. split; [exact Hlt|].
      eapply nb_after; [exact Ec | exact H13].
    - destruct (back_one s1 (sofs s) Hb1 Ho1 Ho Hnb) as (s' & Eb & Hst & Hs').
      rewrite Eb. cbn [sbind]. unfold sc_parse_error. cbn. lia.
  Qed.

  Lemma read_deps_safe f : forall s acc,
    st s -> length buf + 1 <= f + sofs s -> good (sofs s) (df_read_deps f s acc).
  Proof.
    induction f as [|f IH]; intros s acc Hst Hf; [destruct Hst as (_ & Ho & _); lia|].
    cbn [df_read_deps].
    assert (H1 : goodp (sofs s) (df_read_path f s)) by (apply read_path_safe; [exact Hst | lia]).
    destruct (df_read_path f s) as [v s1|m o| | |]; cbn in H1; try contradiction; cbn [sbind];
      [|exact H1].
    destruct H1 as (Hst1 & Hle1 & Hprog).
    destruct v as [p|].
    - assert (Hlt : sofs s < sofs s1) by (apply Hprog; discriminate).
      apply good_le with (q := sofs s1); [lia|]. apply IH; [exact Hst1 | lia].
    - cbn. auto.
  Qed.

  Definition final {A} (r : sres A) : Prop :=
    match r with
    | SOk _ _ => True
    | SErr _ o => o <= length buf
    | _ => False
    end.

  Lemma parse_loop_safe fixed f : forall s acc,
    st s -> length buf + 3 <= f + sofs s -> final (df_parse_loop fixed f s acc).
  Proof.
    induction f as [|f IH]; intros s acc Hst Hf; [destruct Hst as (_ & Ho & _); lia|].
    cbn [df_parse_loop].
    assert (H1 : good (sofs s) (df_skip_blank f s)) by (apply skip_blank_safe; [exact Hst | lia]).
    destruct (df_skip_blank f s) as [u1 s1|m o| | |]; cbn in H1; try contradiction; cbn [sbind];
      [|exact H1].
    destruct H1 as (Hst1 & Hle1).
    assert (H2 : goodp (sofs s1) (df_read_path f s1)) by (apply read_path_safe; [exact Hst1 | lia]).
    destruct (df_read_path f s1) as [v s2|m o| | |]; cbn in H2; try contradiction; cbn [sbind];
      [|exact H2].
    destruct H2 as (Hst2 & Hle2 & Hprog).
    destruct v as [target|].
    - assert (Hlt : sofs s1 < sofs s2) by (apply Hprog; discriminate).
      assert (H3 : good (sofs s2) (sc_skip_spaces f s2)) by (apply sc_skip_spaces_safe; [exact Hst2 | lia]).
      destruct (sc_skip_spaces f s2) as [u3 s3|m o| | |]; cbn in H3; try contradiction; cbn [sbind];
        [|exact H3].
      destruct H3 as (Hst3 & Hle3).
      assert (H4 : good (sofs s3)
                        (match strip_colon target with
                         | Some t' => SOk t' s3
                         | None => sdo (_, s) <- sc_expect 58%N s3; SOk target s
                         end)).
      { destruct (strip_colon target) as [t'|].
        - cbn. auto.
        - pose proof (expect_safe 58%N s3 Hst3) as H4.
          destruct (sc_expect 58%N s3) as [u4 s4|m o| | |]; cbn in H4; try contradiction; cbn [sbind];
            [|exact H4].
          cbn. apply H4; discriminate. }
      destruct (match strip_colon target with
                | Some t' => SOk t' s3
                | None => sdo (_, s) <- sc_expect 58%N s3; SOk target s
                end) as [t4 s4|m o| | |]; cbn in H4; try contradiction; cbn [sbind]; [|exact H4].
      destruct H4 as (Hst4 & Hle4).
      assert (H5 : good (sofs s4) (df_read_deps f s4 [])) by (apply read_deps_safe; [exact Hst4 | lia]).
      destruct (df_read_deps f s4 []) as [deps s5|m o| | |]; cbn in H5; try contradiction; cbn [sbind];
        [|exact H5].
      destruct H5 as (Hst5 & Hle5).
      apply IH; [exact Hst5 | lia].
    - pose proof (expect_safe 0%N s2 Hst2) as H3.
      destruct (sc_expect 0%N s2) as [u3 s3|m o| | |]; cbn in H3; try contradiction; cbn [sbind];
        [exact I | exact H3].
  Qed.
End Safe.

(* ------------------------------------------------------------------------------------ *)
(* format_parse_error (fixed variant) finds a line for every offset inside the buffer *)

Definition lines_len (lines : list bytes) : nat :=
  fold_right (fun line n => length line + 1 + n) 0 lines.

Lemma split_on_len sep : forall l cur,
  lines_len (split_on sep cur l) = length cur + length l + 1.
Proof.
  induction l as [|c r IH]; intros cur; cbn [split_on].
  - cbn. rewrite rev_length. lia.
  - destruct (c =? sep)%N.
    + cbn [lines_len fold_right]. change (fold_right _ 0 ?x) with (lines_len x).
      rewrite IH, rev_length. cbn. lia.
    + rewrite IH. cbn. lia.
Qed.

Lemma fpe_lines_ok filename msg eofs : forall lines ln ofs,
  ofs <= eofs -> eofs + 1 <= ofs + lines_len lines ->
  exists txt, fpe_lines true filename msg eofs lines ln ofs = Ok txt.
Proof.
  induction lines as [|line rest IH]; intros ln ofs Hlo Hhi.
  - cbn in Hhi. lia.
  - cbn [fpe_lines].
    destruct (Nat.leb_spec eofs (ofs + length line)) as [Hfound|Hnot].
    + destruct (Nat.ltb_spec eofs ofs) as [Hbad|_]; [lia|].
      destruct (40 <? eofs - ofs)%nat; cbn [bind];
        match goal with |- context[if (40 <? length ?c)%nat then _ else _] =>
                        destruct (40 <? length c)%nat end; cbn [bind]; eexists; reflexivity.
    + apply IH; [lia|]. cbn [lines_len fold_right] in Hhi. change (fold_right _ 0 ?x) with (lines_len x) in Hhi.
      lia.
Qed.

Lemma format_parse_error_ok buf filename msg eofs :
  eofs <= length buf -> exists txt, format_parse_error buf filename msg eofs = Ok txt.
Proof.
  intro H. unfold format_parse_error, format_parse_error_gen.
  apply fpe_lines_ok; [lia|]. rewrite split_on_len. cbn. lia.
Qed.

(* ------------------------------------------------------------------------------------ *)

Lemma nul_terminated (t : bytes) : nth_error (t ++ [0%N]) (pred (length (t ++ [0%N]))) = Some 0%N.
Proof.
  rewrite app_length. cbn [length]. replace (pred (length t + 1)) with (length t) by lia.
  rewrite nth_error_app2 by lia. rewrite Nat.sub_diag. reflexivity.
Qed.

Lemma sc_new_nul (t : bytes) : sc_new (t ++ [0%N]) = Ok (mkScanner (t ++ [0%N]) 0 1).
Proof. unfold sc_new. rewrite rev_app_distr. reflexivity. Qed.

Lemma st_initial (t : bytes) : st (t ++ [0%N]) (mkScanner (t ++ [0%N]) 0 1).
Proof.
  split; [reflexivity|]. cbn [sofs]. split.
  - rewrite app_length. cbn. lia.
  - intros o1 E. discriminate E.
Qed.

(* the raw parse loop never ends in Panic / OutOfBounds / OutOfFuel *)
Lemma parse_loop_final fixed (t : bytes) :
  final (t ++ [0%N]) (df_parse_loop fixed (df_fuel t) (mkScanner (t ++ [0%N]) 0 1) []).
Proof.
  apply parse_loop_safe; [apply nul_terminated | apply st_initial|].
  unfold df_fuel. rewrite app_length. cbn. lia.
Qed.

Lemma depfile_parse_gen_total fixed t :
  (exists m, depfile_parse_gen fixed t = Ok m) \/ (exists e, depfile_parse_gen fixed t = Err e).
Proof.
  unfold depfile_parse_gen. rewrite sc_new_nul. cbn [bind].
  pose proof (parse_loop_final fixed t) as H.
  destruct (df_parse_loop fixed (df_fuel t) _ []) as [m s'|m o| | |]; cbn in H; try contradiction.
  - left. exists m. reflexivity.
  - right. cbn [finish_sres].
    destruct (format_parse_error_ok (t ++ [0%N]) (bs "d") m o H) as (txt & E).
    rewrite E. exists txt. reflexivity.
Qed.

Lemma depfile_total t :
  (exists m, depfile_parse t = Ok m) \/ (exists e, depfile_parse t = Err e).
Proof. apply depfile_parse_gen_total. Qed.
