(* The invocation-level null build: two consecutive Works on the same manifest. *)
From Coq Require Import Lia ZArith List Bool Arith.
From N2 Require Import Model.All Proofs.SchedSpec Proofs.SchedInv Proofs.SchedRunBase
     Proofs.SchedRunStep Proofs.SchedRunCore Proofs.SchedRunAux Proofs.SchedRunRInv Proofs.SchedRunThms
     Proofs.SchedWantInv Proofs.SchedRunFinal Proofs.SchedLive.
From N2 Require Import Proofs.DbSpec Proofs.WorldSpec Proofs.WorldBase Proofs.WorldDeps Proofs.WorldDirty
     Proofs.WorldLog Proofs.JointSpec Proofs.JointBase Proofs.JointSched Proofs.JointInv Proofs.JointThms
     Proofs.JointLog Proofs.JointNull.
Import ListNotations.

(* ------------------------------------------------------------------------------------ *)
(* Work 2 alone *)

Section W2.
Variable cf : config.
Variable decls : list (bytes * nat).
Variable wg : wgraph.
Notation g := (cf_graph cf).
Notation nb := (length (g_builds (cf_graph cf))).
Hypothesis Hwf : graph_wf g.
Hypothesis Hag : graphs_agree g wg.

Lemma work2_null fs1 w20 s2 fl2 tr2 r2 w2 :
  wanted g (bs_new nb decls) s2 -> ws_cache w20 = [] -> ws_fs w20 = fs1 ->
  (forall b, b < nb -> wb_cmdline (get_wbuild wg b) <> None -> get_state s2 b <> Unknown ->
             good wg fs1 w20 b) ->
  jaccepted cf wg (run_init s2 fl2) w20 tr2 r2 w2 -> writes_ok wg [] tr2 ->
  Forall ok_item tr2 /\ rs_tasks_run r2 = 0.
Proof.
  intros W Hca Hfs Hgood Ha Ho.
  destruct (fresh_start_wanted cf decls Hwf s2 fl2 w20 W Hca) as (R & Hc & Hd & _).
  apply jaccepted_jrun in Ha; [|exact Ho]. apply jrun_end in Ha. destruct Ha as (b & Hr & Er & Ew).
  pose proof (JInv_init cf decls wg _ w20 R Hc Hd Hca) as J.
  assert (N : NInv cf wg fs1 w20 (jinit (run_init s2 fl2) w20)).
  { constructor; cbn [jinit j_r j_w j_run run_init rs_bs rs_ctl rs_tasks_run]; auto.
    - intro x. destruct (wanted_frame_holds g Hwf _ _ x W) as [E|(_ & [E|E])]; rewrite E; [rewrite get_state_bs_new| |]; cbn; tauto.
    - exact I. }
  destruct (Work2_reach cf decls wg Hwf Hag fs1 w20 _ _ _ J N Hr) as (_ & Nb & Hf).
  split; [exact Hf|]. rewrite <- Er. exact (ni_tasks _ _ _ _ _ Nb).
Qed.

End W2.

(* ------------------------------------------------------------------------------------ *)
(* Work 1 alone: at a successful return every wanted step with a command whose files all exist
   has a record that a reload makes current *)

Section W1.
Variable cf : config.
Variable decls : list (bytes * nat).
Variable wg : wgraph.
Notation g := (cf_graph cf).
Notation nb := (length (g_builds (cf_graph cf))).
Notation P := (producer_of wg).
Hypothesis Hwf : graph_wf g.
Hypothesis Hag : graphs_agree g wg.
Hypothesis Had : cf_adopt cf = false.
Hypothesis Houts : forall b, b < nb -> wb_outs (get_wbuild wg b) <> [].

Lemma work1_records wp ws0 fs0 w0 s1 fl1 tr1 r1 w1 :
  log_is wp ws0 -> Forall in_bounds ws0 -> table_small ws0 -> load_state wg fs0 (ws_log wp) = Ok w0 ->
  wanted g (bs_new nb decls) s1 ->
  jaccepted cf wg (run_init s1 fl1) w0 tr1 r1 w1 -> writes_ok wg [] tr1 ->
  rs_ctl r1 = CReturned (Some true) ->
  (forall b d, get_state s1 b <> Unknown -> In d (disc_of w0 b) -> P d = None) ->
  (forall b t rep n d, In (JFinish b t rep) tr1 -> In n (reported_names rep) -> n <> [] ->
                       canon n = Ok d -> P d = None) ->
  log_is w1 (ws0 ++ work_records wg w1 tr1) /\
    forall b, b < nb -> wb_cmdline (get_wbuild wg b) <> None -> get_state s1 b <> Unknown ->
      HM wg w1 (ws0 ++ work_records wg w1 tr1) b.
Proof.
  intros Hlog Hb Hs El W Ha Ho Hret Hd0 Hrep.
  destruct (load_log_is wg fs0 wp ws0 Hlog Hb Hs) as (wL & El' & _ & Hca & _ & _ & HlL & Hld).
  rewrite El in El'. injection El' as <-.
  destruct (fresh_start_wanted cf decls Hwf s1 fl1 w0 W Hca) as (R & Hc & Hd & _).
  pose proof Ha as (Hacc & _).
  apply jaccepted_jrun in Ha; [|exact Ho]. apply jrun_end in Ha. destruct Ha as (a1 & Hr & Er & Ew).
  pose proof (JInv_init cf decls wg _ w0 R Hc Hd Hca) as J.
  set (W0 := fun b => get_state s1 b <> Unknown).
  assert (L : LInv cf wg w0 ws0 W0 (jinit (run_init s1 fl1) w0) ws0).
  { apply LInv_init; auto. }
  assert (Hf : Forall (item_src wg) tr1).
  { apply Forall_forall. intros j Hj. destruct j; try exact I. cbn [item_src].
    intros n d Hn Hne Hcn. exact (Hrep _ _ _ n d Hj Hn Hne Hcn). }
  destruct (Work1_reach cf decls wg Hwf Hag Had Houts w0 ws0 W0 Hld Hd0 _ tr1 a1 J L Hf Hr)
    as (J1 & L1).
  rewrite <- Ew. split; [exact (li_log _ _ _ _ _ _ _ L1)|].
  intros b Lb Hcmd Hw. apply (li_settled _ _ _ _ _ _ _ L1 b Lb Hcmd). left.
  pose proof (ji_r _ _ _ _ J1) as R1. pose proof (ri_ctl _ _ _ R1) as K. rewrite Er, Hret in K.
  cbn [ctl_ok] in K. destruct K as (_ & _ & AD). rewrite Er.
  destruct (AD b) as [E|E]; [exfalso|exact E].
  apply (proj2 (accepts_known cf decls b _ _ _ R Hacc)) in Hw. contradiction.
Qed.

End W1.

(* ------------------------------------------------------------------------------------ *)

Theorem null_build_invocation :
  forall (cf cf2 : config) (decls decls2 : list (bytes * nat)) (wg : wgraph)
         (wp : wstate) (ws0 : list wr) (fs0 : fsmap) (w0 : wstate)
         (s1 : bstates) (fl1 : option nat) (tr1 : list jitem) (r1 : rstate) (w1 : wstate)
         (w20 : wstate) (s2 : bstates) (fl2 : option nat) (tr2 : list jitem) (r2 : rstate) (w2 : wstate),
  graph_wf (cf_graph cf) -> graphs_agree (cf_graph cf) wg ->
  cf_graph cf2 = cf_graph cf -> cf_adopt cf = false ->
  (forall b, b < length (g_builds (cf_graph cf)) -> wb_outs (get_wbuild wg b) <> []) ->
  (* Work 1: loaded from the log of a crash-free writer, returns success *)
  log_is wp ws0 -> Forall in_bounds ws0 -> table_small ws0 -> load_state wg fs0 (ws_log wp) = Ok w0 ->
  wanted (cf_graph cf) (bs_new (length (g_builds (cf_graph cf))) decls) s1 ->
  jaccepted cf wg (run_init s1 fl1) w0 tr1 r1 w1 -> writes_ok wg [] tr1 ->
  rs_ctl r1 = CReturned (Some true) ->
  (* discovered dependencies, loaded or reported, are source files *)
  (forall b d, get_state s1 b <> Unknown -> In d (disc_of w0 b) -> producer_of wg d = None) ->
  (forall b t rep n d, In (JFinish b t rep) tr1 -> In n (reported_names rep) -> n <> [] ->
                       canon n = Ok d -> producer_of wg d = None) ->
  (* every declared input, discovered dependency and output of every wanted step with a command
     exists after Work 1 *)
  (forall b n, b < length (g_builds (cf_graph cf)) -> wb_cmdline (get_wbuild wg b) <> None ->
               get_state s1 b <> Unknown ->
               In n (wb_dirtying (get_wbuild wg b) ++ disc_of w1 b ++ wb_outs (get_wbuild wg b)) ->
               fs_get (ws_fs w1) n <> None) ->
  (* the records Work 1 appended are within the limits of the record format (F7), and so is
     the id table of the whole log *)
  Forall in_bounds (work_records wg w1 tr1) -> table_small (ws0 ++ work_records wg w1 tr1) ->
  (* Work 2: the tree and the log Work 1 left, the same manifest, no new targets *)
  load_state wg (ws_fs w1) (ws_log w1) = Ok w20 ->
  wanted (cf_graph cf) (bs_new (length (g_builds (cf_graph cf))) decls2) s2 ->
  (forall b, get_state s2 b <> Unknown -> get_state s1 b <> Unknown) ->
  jaccepted cf2 wg (run_init s2 fl2) w20 tr2 r2 w2 -> writes_ok wg [] tr2 ->
  (forall b, ~ In (JStart b) tr2) /\
  (forall b v, In (JVerdict b v) tr2 -> v = VClean) /\
  (forall n t, ~ In (JWrite n t) tr2) /\
  (forall b h, ~ In (JRecord b h) tr2) /\
  (forall ok, In (JReturn ok) tr2 -> ok = Some true) /\
  rs_tasks_run r2 = 0.
Proof.
  intros cf cf2 decls decls2 wg wp ws0 fs0 w0 s1 fl1 tr1 r1 w1 w20 s2 fl2 tr2 r2 w2
         Hwf Hag Hg2 Had Houts Hlog Hb Hs El W1 Ha1 Ho1 Hret Hd0 Hrep Hpres Hbr Hs1 El2 W2 Hsub Ha2 Ho2.
  destruct (work1_records cf decls wg Hwf Hag Had Houts wp ws0 fs0 w0 s1 fl1 tr1 r1 w1
              Hlog Hb Hs El W1 Ha1 Ho1 Hret Hd0 Hrep) as (Hlog1 & HHM).
  set (ws1 := ws0 ++ work_records wg w1 tr1) in *.
  assert (Hb1 : Forall in_bounds ws1) by (apply Forall_app; now split).
  destruct (load_log_is wg (ws_fs w1) w1 ws1 Hlog1 Hb1 Hs1) as (wL & El' & Hfs & Hca & _ & _ & _ & Hld).
  rewrite El2 in El'. injection El' as <-.
  assert (Hgood : forall b, b < length (g_builds (cf_graph cf)) -> wb_cmdline (get_wbuild wg b) <> None ->
                            get_state s2 b <> Unknown -> good wg (ws_fs w1) w20 b).
  { intros b Lb Hcmd Hw2. pose proof (Hsub b Hw2) as Hw1.
    destruct (HHM b Lb Hcmd Hw1) as (Hsrc & [(h & m & H1 & H2 & H3)|(n & Hn & Hm)]).
    - destruct (Hld b) as (Ld & Lh). rewrite H1 in Ld, Lh. cbn [option_map fst snd] in Ld, Lh.
      assert (Hd : disc_of w20 b = disc_of w1 b) by (unfold disc_of at 1; now rewrite Ld).
      exists h, m. rewrite Hd. auto.
    - exfalso. exact (Hpres b n Lb Hcmd Hw1 Hn Hm). }
  pose proof (work2_null cf2 decls2 wg) as H2. rewrite Hg2 in H2.
  destruct (H2 Hwf Hag (ws_fs w1) w20 s2 fl2 tr2 r2 w2 W2 Hca Hfs Hgood Ha2 Ho2) as (Hf & Ht).
  rewrite Forall_forall in Hf.
  repeat split; try exact Ht.
  - intros b Hin. exact (Hf _ Hin).
  - intros b v Hin. exact (Hf _ Hin).
  - intros n t Hin. exact (Hf _ Hin).
  - intros b h Hin. exact (Hf _ Hin).
  - intros ok Hin. exact (Hf _ Hin).
Qed.

(* the same with "Work 1 returned success" read off the trace *)
Lemma return_ctl cf r ok r' : accept1 cf r (EReturn ok) = Some r' -> rs_ctl r' = CReturned ok.
Proof. intro H. apply accept1_step in H. inversion H; reflexivity. Qed.

Lemma jaccepted_ends_return cf wg r0 w0 pre ok r w :
  jaccepted cf wg r0 w0 (pre ++ [JReturn ok]) r w -> rs_ctl r = CReturned ok.
Proof.
  intros (Hs & _). rewrite proj_s_app in Hs. apply accepts_app in Hs. destruct Hs as (r1 & _ & Hs).
  change (proj_s [JReturn ok]) with [EReturn ok] in Hs. apply accepts_one in Hs.
  exact (return_ctl _ _ _ _ Hs).
Qed.

Theorem null_build_invocation_trace :
  forall (cf cf2 : config) (decls decls2 : list (bytes * nat)) (wg : wgraph)
         (wp : wstate) (ws0 : list wr) (fs0 : fsmap) (w0 : wstate)
         (s1 : bstates) (fl1 : option nat) (pre1 : list jitem) (r1 : rstate) (w1 : wstate)
         (w20 : wstate) (s2 : bstates) (fl2 : option nat) (tr2 : list jitem) (r2 : rstate) (w2 : wstate),
  graph_wf (cf_graph cf) -> graphs_agree (cf_graph cf) wg ->
  cf_graph cf2 = cf_graph cf -> cf_adopt cf = false ->
  (forall b, b < length (g_builds (cf_graph cf)) -> wb_outs (get_wbuild wg b) <> []) ->
  log_is wp ws0 -> Forall in_bounds ws0 -> table_small ws0 -> load_state wg fs0 (ws_log wp) = Ok w0 ->
  wanted (cf_graph cf) (bs_new (length (g_builds (cf_graph cf))) decls) s1 ->
  jaccepted cf wg (run_init s1 fl1) w0 (pre1 ++ [JReturn (Some true)]) r1 w1 ->
  writes_ok wg [] (pre1 ++ [JReturn (Some true)]) ->
  (forall b d, get_state s1 b <> Unknown -> In d (disc_of w0 b) -> producer_of wg d = None) ->
  (forall b t rep n d, In (JFinish b t rep) pre1 -> In n (reported_names rep) -> n <> [] ->
                       canon n = Ok d -> producer_of wg d = None) ->
  (forall b n, b < length (g_builds (cf_graph cf)) -> wb_cmdline (get_wbuild wg b) <> None ->
               get_state s1 b <> Unknown ->
               In n (wb_dirtying (get_wbuild wg b) ++ disc_of w1 b ++ wb_outs (get_wbuild wg b)) ->
               fs_get (ws_fs w1) n <> None) ->
  Forall in_bounds (work_records wg w1 pre1) -> table_small (ws0 ++ work_records wg w1 pre1) ->
  load_state wg (ws_fs w1) (ws_log w1) = Ok w20 ->
  wanted (cf_graph cf) (bs_new (length (g_builds (cf_graph cf))) decls2) s2 ->
  (forall b, get_state s2 b <> Unknown -> get_state s1 b <> Unknown) ->
  jaccepted cf2 wg (run_init s2 fl2) w20 tr2 r2 w2 -> writes_ok wg [] tr2 ->
  (forall b, ~ In (JStart b) tr2) /\
  (forall b v, In (JVerdict b v) tr2 -> v = VClean) /\
  (forall n t, ~ In (JWrite n t) tr2) /\
  (forall b h, ~ In (JRecord b h) tr2) /\
  (forall ok, In (JReturn ok) tr2 -> ok = Some true) /\
  rs_tasks_run r2 = 0.
Proof.
  intros cf cf2 decls decls2 wg wp ws0 fs0 w0 s1 fl1 pre1 r1 w1 w20 s2 fl2 tr2 r2 w2
         Hwf Hag Hg2 Had Houts Hlog Hb Hs El W1 Ha1 Ho1 Hd0 Hrep Hpres Hbr Hs1 El2 W2 Hsub Ha2 Ho2.
  assert (Er : work_records wg w1 (pre1 ++ [JReturn (Some true)]) = work_records wg w1 pre1).
  { unfold work_records. rewrite trace_records_snoc. cbn [rec_item]. now rewrite app_nil_r. }
  apply (null_build_invocation cf cf2 decls decls2 wg wp ws0 fs0 w0 s1 fl1 _ r1 w1 w20 s2 fl2 tr2 r2 w2
           Hwf Hag Hg2 Had Houts Hlog Hb Hs El W1 Ha1 Ho1); auto.
  - exact (jaccepted_ends_return _ _ _ _ _ _ _ _ Ha1).
  - intros b t rep n d Hin. apply in_app_or in Hin. destruct Hin as [Hin|[Hin|[]]]; [|discriminate].
    exact (Hrep b t rep n d Hin).
  - now rewrite Er.
  - now rewrite Er.
Qed.
