(* Proofs about Model/Proc.v: status decoding and output accumulation (C16). *)
From Coq Require Import Lia.
From N2 Require Import Model.All.

Lemma accumulate_from (chunks : list bytes) : forall acc,
  fold_left (fun a c => a ++ c) chunks acc = acc ++ concat chunks.
Proof.
  induction chunks as [|c cs IH]; intro acc; simpl.
  - now rewrite app_nil_r.
  - rewrite IH. now rewrite app_assoc.
Qed.

Lemma accumulate_is_concat (chunks : list bytes) : accumulate chunks = concat chunks.
Proof. unfold accumulate. now rewrite accumulate_from. Qed.

(* whatever the chunking, the accumulated output is the same byte string *)
Lemma accumulate_chunking (c1 c2 : list bytes) :
  concat c1 = concat c2 -> accumulate c1 = accumulate c2.
Proof. intro H. now rewrite !accumulate_is_concat. Qed.

Lemma decode_status_range (st : N) : decode_status st = 0%N \/ decode_status st = 1%N \/ decode_status st = 2%N.
Proof.
  unfold decode_status.
  destruct (st mod 128 =? 0)%N; [destruct ((st / 256) mod 256 =? 0)%N; auto|].
  destruct (st mod 128 =? 127)%N; auto.
  destruct (st mod 128 =? 2)%N; auto.
Qed.

(* success iff the process exited (no signal) with code 0 *)
Lemma decode_status_success (st : N) :
  decode_status st = 0%N <-> ((st mod 128 = 0)%N /\ ((st / 256) mod 256 = 0)%N).
Proof.
  unfold decode_status.
  destruct (st mod 128 =? 0)%N eqn:E1.
  - apply N.eqb_eq in E1. destruct ((st / 256) mod 256 =? 0)%N eqn:E2.
    + apply N.eqb_eq in E2. tauto.
    + apply N.eqb_neq in E2. split; [discriminate | tauto].
  - apply N.eqb_neq in E1.
    destruct (st mod 128 =? 127)%N; [split; [discriminate|tauto]|].
    destruct (st mod 128 =? 2)%N; split; try discriminate; tauto.
Qed.

(* interrupted iff killed by signal 2 *)
Lemma decode_status_interrupted (st : N) : decode_status st = 2%N <-> (st mod 128 = 2)%N.
Proof.
  unfold decode_status.
  destruct (st mod 128 =? 0)%N eqn:E1.
  - apply N.eqb_eq in E1. rewrite E1.
    destruct ((st / 256) mod 256 =? 0)%N; split; intro H; discriminate.
  - destruct (st mod 128 =? 127)%N eqn:E2.
    + apply N.eqb_eq in E2. rewrite E2. split; intro H; discriminate.
    + destruct (st mod 128 =? 2)%N eqn:E3.
      * apply N.eqb_eq in E3. tauto.
      * apply N.eqb_neq in E3. split; [discriminate | tauto].
Qed.

(* an exit code 1..255 and every other signal is a failure *)
Lemma decode_status_exit_code (code : N) :
  (code < 256)%N -> decode_status (code * 256) = (if (code =? 0)%N then 0 else 1)%N.
Proof.
  intro H. unfold decode_status.
  assert (E : ((code * 256) mod 128 = 0)%N).
  { replace (code * 256)%N with ((code * 2) * 128)%N by lia. apply N.mod_mul. discriminate. }
  rewrite E. cbn [N.eqb].
  rewrite N.div_mul by discriminate. rewrite N.mod_small by exact H. reflexivity.
Qed.

Lemma find_last_line_empty : find_last_line [] = [].
Proof. reflexivity. Qed.
