(* C10, spelling independence with include/subninja (3): whole manifests.  Two file maps and two
   manifest texts that spell the same files ([spells_files], LoadInclSpellSpec.v) load alike:
   both fail in the same way, or both load the same graph. *)
From Coq Require Import String.
From N2 Require Import Model.All Proofs.EvalScope Proofs.GraphDedup Proofs.GraphAddBuild Proofs.GraphLoad.
From N2 Require Import Proofs.ParseSpell Proofs.ParseRound1 Proofs.ParseRoundScan.
From N2 Require Import Proofs.LoadGraphSpec Proofs.LoadGraphBuild Proofs.LoadGraphRun Proofs.LoadGraphNorm
     Proofs.LoadGraphFile Proofs.LoadGraphNames.
From N2 Require Import Proofs.LoadInclSpec Proofs.LoadInclRun Proofs.LoadInclFlat.
From N2 Require Import Proofs.LoadInclSpellSpec Proofs.LoadInclSpellStep Proofs.LoadInclSpellRun.

(* ------------------------------------------------------------------------------------ *)
(* the parser on a spelled file, read with inherited variables (file_reads with [inherited]) *)

Lemma spelled_file_stmts inherited svs vs' text :
  spells_file_v 1 inherited svs vs' text -> ~ In 13%N text ->
  exists svs' z, file_stmts text inherited = (svs', SOk (None, vs') z) /\ stmts_norm_eq svs' svs.
Proof.
  intros Hf H13.
  assert (H13' : ~ In 13%N (text ++ [0%N])) by (apply notin_app; [exact H13 | cbn; intuition discriminate]).
  destruct (file_v_at 1 inherited svs vs' text Hf [] (mkScanner (text ++ [0%N]) 0 1) H13' eq_refl eq_refl eq_refl)
    as (svs' & [z R] & N).
  exists svs', z. split; [|exact N]. apply reads_file_stmts. exact R.
Qed.

Lemma Forall2_In_Forall {A B} (R : A -> B -> Prop) (Q : B -> Prop) (P : A -> Prop) :
  (forall x y, R x y -> Q y -> P x) ->
  forall a b, Forall2 R a b -> (forall y, In y b -> Q y) -> Forall P a.
Proof.
  intros K a b H. induction H as [|x y a b H1 H IH]; intro HQ; constructor.
  - eapply K; [exact H1 | apply HQ; left; reflexivity].
  - apply IH. intros y' I. apply HQ. right. exact I.
Qed.

(* a statement the parser read stands for the declared one: its include line names the same file *)
Lemma child_line_norm st' st p' :
  norm_stmt st' = norm_stmt st -> is_child_line st' p' ->
  exists p, is_child_line st p /\ norm_eval p' = norm_eval p.
Proof.
  intros N [->| ->]; apply norm_stmt_shape in N; destruct st; try contradiction;
    eexists; (split; [|exact N]); [left | right]; reflexivity.
Qed.

(* ------------------------------------------------------------------------------------ *)
(* files *)

Theorem run_file_spells strict fs1 fs2 : forall depth reading inherited t1 t2 filename l1 l2,
  spells_files strict fs1 fs2 reading inherited t1 t2 -> graph_sim strict l1 l2 ->
  outcome_sim strict (graph_sim strict) (run_file depth fs1 reading l1 filename t1 inherited)
                                         (run_file depth fs2 reading l2 filename t2 inherited).
Proof.
  induction depth as [|depth IH]; intros reading inherited t1 t2 filename l1 l2 T S.
  - cbn [run_file outcome_sim]. reflexivity.
  - inversion T as [rd inh u1 u2 svs1 svs2 vs' F1 F2 N1 N2 D CH]; subst rd inh u1 u2.
    destruct (spelled_file_stmts _ _ _ _ F1 N1) as (r1 & z1 & E1 & M1).
    destruct (spelled_file_stmts _ _ _ _ F2 N2) as (r2 & z2 & E2 & M2).
    rewrite !run_file_unfold, E1, E2. cbn [fst snd].
    apply (outcome_sim_bind strict (graph_sim strict)).
    + apply run_stmts_files_sim2; [| |exact S].
      * eapply stmts_sim_trans; [apply stmts_norm_eq_sim; exact M1|].
        eapply stmts_sim_trans; [apply same_decl_sim; exact D|].
        apply stmts_sim_sym. apply stmts_norm_eq_sim. exact M2.
      * refine (Forall2_In_Forall _ (fun y => forall p path, is_child_line (fst y) p ->
                  include_path p (snd y) = Ok path -> existsb (bytes_eqb path) reading = false ->
                  (assoc_b path fs1 = None /\ assoc_b path fs2 = None) \/
                  (exists c1 c2, assoc_b path fs1 = Some c1 /\ assoc_b path fs2 = Some c2 /\
                                 spells_files strict fs1 fs2 (reading ++ [path]) (snd y) c1 c2)) _ _ _ _ M1 _).
        -- intros [st' vs0'] [st vs0] [Nst Nvs] Q. cbn [fst snd] in *. subst vs0'.
           intros p' path CL P X.
           destruct (child_line_norm _ _ _ Nst CL) as (p & CLp & Np).
           rewrite (include_path_sim p' p vs0 Np) in P.
           destruct (Q p path CLp P X) as [[A1 A2]|(c1 & c2 & A1 & A2 & T')]; rewrite A1, A2; [exact I|].
           intros la lb Sa. apply IH; assumption.
        -- intros [st vs0] I p path CL P X. cbn [fst snd] in *. eapply CH; eassumption.
    + intros la lb Sa. cbn [finish outcome_sim]. apply graph_sim_with_builddir. exact Sa.
Qed.

(* deliverable 2, as a simulation *)
Theorem load_manifest_spells strict depth fs1 fs2 name t1 t2 :
  spells_files strict fs1 fs2 [] [] t1 t2 ->
  outcome_sim strict (graph_sim strict) (load_manifest true depth fs1 name t1)
                                         (load_manifest true depth fs2 name t2).
Proof.
  intro T. rewrite !load_manifest_is_run_file.
  destruct (canon name) as [c|m|x|x|]; cbn [bind outcome_sim]; auto.
  apply run_file_spells; [exact T | apply graph_sim_refl].
Qed.

(* ------------------------------------------------------------------------------------ *)
(* ... spelled out *)

(* the same abstract files: the same graph, or the same failure *)
Theorem files_graph_spelling_independent depth fs1 fs2 name t1 t2 :
  spells_files true fs1 fs2 [] [] t1 t2 ->
  (exists l1 l2,
     load_manifest true depth fs1 name t1 = Ok l1 /\ load_manifest true depth fs2 name t2 = Ok l2 /\
     l_files l1 = l_files l2 /\ l_builds l1 = l_builds l2 /\ l_defaults l1 = l_defaults l2 /\
     norm_rules (l_rules l1) = norm_rules (l_rules l2) /\ l_pools l1 = l_pools l2 /\
     l_builddir l1 = l_builddir l2 /\ l_warnings l1 = l_warnings l2 /\
     map (view l1) (l_builds l1) = map (view l2) (l_builds l2) /\
     map (file_nm l1) (l_defaults l1) = map (file_nm l2) (l_defaults l2))
  \/
  ((forall l, load_manifest true depth fs1 name t1 <> Ok l) /\
   load_manifest true depth fs2 name t2 = load_manifest true depth fs1 name t1).
Proof.
  intro T. pose proof (load_manifest_spells true depth fs1 fs2 name t1 t2 T) as H.
  destruct (load_manifest true depth fs1 name t1) as [l1|m1|x1|x1|] eqn:E1.
  - left. destruct (load_manifest true depth fs2 name t2) as [l2|m2|x2|x2|]; cbn [outcome_sim] in H; try contradiction.
    exists l1, l2. split; [reflexivity|]. split; [reflexivity|].
    destruct (graph_sim_strict_view _ _ H) as (B & W & V).
    destruct (graph_sim_view _ _ _ H) as (_ & _ & Dn & _).
    destruct H as [F _ D R P BD _].
    repeat (split; [assumption|]). exact Dn.
  - right. split; [discriminate|]. symmetry. eapply outcome_sim_strict_fail; [exact H | discriminate].
  - right. split; [discriminate|]. symmetry. eapply outcome_sim_strict_fail; [exact H | discriminate].
  - right. split; [discriminate|]. symmetry. eapply outcome_sim_strict_fail; [exact H | discriminate].
  - right. split; [discriminate|]. symmetry. eapply outcome_sim_strict_fail; [exact H | discriminate].
Qed.

(* the same up to the lines of `build` statements: the same graph up to [lb_line], or a failure of
   the same kind (the text of an error may name other lines) *)
Theorem files_graph_spelling_independent_lines depth fs1 fs2 name t1 t2 :
  spells_files false fs1 fs2 [] [] t1 t2 ->
  (exists l1 l2,
     load_manifest true depth fs1 name t1 = Ok l1 /\ load_manifest true depth fs2 name t2 = Ok l2 /\
     l_files l1 = l_files l2 /\ map unline_lb (l_builds l1) = map unline_lb (l_builds l2) /\
     l_defaults l1 = l_defaults l2 /\
     norm_rules (l_rules l1) = norm_rules (l_rules l2) /\ l_pools l1 = l_pools l2 /\
     l_builddir l1 = l_builddir l2 /\
     map (fun b => unline_view (view l1 b)) (l_builds l1) = map (fun b => unline_view (view l2 b)) (l_builds l2) /\
     map (file_nm l1) (l_defaults l1) = map (file_nm l2) (l_defaults l2))
  \/
  ((forall l, load_manifest true depth fs1 name t1 <> Ok l) /\
   outcome_kind (load_manifest true depth fs2 name t2) = outcome_kind (load_manifest true depth fs1 name t1)).
Proof.
  intro T. pose proof (load_manifest_spells false depth fs1 fs2 name t1 t2 T) as H.
  pose proof (outcome_sim_kind _ _ _ _ H) as K.
  destruct (load_manifest true depth fs1 name t1) as [l1|m1|x1|x1|] eqn:E1.
  - left. destruct (load_manifest true depth fs2 name t2) as [l2|m2|x2|x2|]; cbn [outcome_sim] in H; try contradiction.
    exists l1, l2. split; [reflexivity|]. split; [reflexivity|].
    destruct (graph_sim_view _ _ _ H) as (V & _ & Dn & _).
    destruct H as [F B D R P BD _]. pose proof (builds_sim_unline _ _ _ B) as U.
    repeat (split; [assumption|]). exact Dn.
  - right. split; [discriminate | symmetry; exact K].
  - right. split; [discriminate | symmetry; exact K].
  - right. split; [discriminate | symmetry; exact K].
  - right. split; [discriminate | symmetry; exact K].
Qed.

(* the form of C10_graph_spelling_independent (both loads succeed) *)
Corollary files_graph_spelling_independent_ok depth fs1 fs2 name t1 t2 l1 l2 :
  spells_files true fs1 fs2 [] [] t1 t2 ->
  load_manifest true depth fs1 name t1 = Ok l1 -> load_manifest true depth fs2 name t2 = Ok l2 ->
  map (view l1) (l_builds l1) = map (view l2) (l_builds l2) /\
  l_pools l1 = l_pools l2 /\
  map (file_nm l1) (l_defaults l1) = map (file_nm l2) (l_defaults l2) /\
  l_builddir l1 = l_builddir l2.
Proof.
  intros T E1 E2. pose proof (load_manifest_spells true depth fs1 fs2 name t1 t2 T) as H.
  rewrite E1, E2 in H. cbn [outcome_sim] in H.
  destruct (graph_sim_strict_view _ _ H) as (_ & _ & V).
  destruct (graph_sim_view _ _ _ H) as (_ & P & Dn & BD). repeat split; assumption.
Qed.

(* one load succeeds iff the other does *)
Corollary files_load_ok_iff strict depth fs1 fs2 name t1 t2 :
  spells_files strict fs1 fs2 [] [] t1 t2 ->
  ((exists l1, load_manifest true depth fs1 name t1 = Ok l1) <->
   (exists l2, load_manifest true depth fs2 name t2 = Ok l2)).
Proof.
  intro T. pose proof (load_manifest_spells strict depth fs1 fs2 name t1 t2 T) as H.
  destruct (load_manifest true depth fs1 name t1), (load_manifest true depth fs2 name t2);
    cbn [outcome_sim] in H; try contradiction;
    split; intros [l E]; try discriminate E; eexists; reflexivity.
Qed.

(* ------------------------------------------------------------------------------------ *)
(* the one-file theorem is the instance without include lines *)

Lemma spells_files_one_file strict fs1 fs2 reading inherited svs vs' t1 t2 :
  spells_file_v 1 inherited svs vs' t1 -> spells_file_v 1 inherited svs vs' t2 ->
  ~ In 13%N t1 -> ~ In 13%N t2 -> no_include svs ->
  spells_files strict fs1 fs2 reading inherited t1 t2.
Proof.
  intros F1 F2 N1 N2 NI. apply (spells_files_node strict fs1 fs2 reading inherited t1 t2 svs svs vs'); try assumption.
  - destruct strict; cbn [same_decl]; [reflexivity|].
    clear. induction svs; constructor; [split; reflexivity | assumption].
  - intros st vs p path I CL _ _. exfalso.
    unfold no_include in NI. rewrite Forall_forall in NI. specialize (NI _ I). cbn [fst] in NI.
    destruct CL as [->| ->]; discriminate NI.
Qed.

(* ------------------------------------------------------------------------------------ *)
(* the relations, for the statement file *)

Lemma stmt_sim_strict_iff a b : stmt_sim true a b <-> norm_stmt a = norm_stmt b.
Proof. split; [apply stmt_sim_strict_norm | apply norm_stmt_sim]. Qed.

Lemma stmts_sim_equiv strict :
  (forall a, stmts_sim strict a a) /\
  (forall a b, stmts_sim strict a b -> stmts_sim strict b a) /\
  (forall a b c, stmts_sim strict a b -> stmts_sim strict b c -> stmts_sim strict a c).
Proof.
  split; [apply stmts_sim_refl|]. split; [apply stmts_sim_sym|].
  intros a b c H K. exact (stmts_sim_trans strict a b H c K).
Qed.

Lemma spells_files_meaning strict fs1 fs2 reading inherited t1 t2 :
  spells_files strict fs1 fs2 reading inherited t1 t2 <->
  exists svs1 svs2 vs',
    spells_file_v 1 inherited svs1 vs' t1 /\ spells_file_v 1 inherited svs2 vs' t2 /\
    ~ In 13%N t1 /\ ~ In 13%N t2 /\ same_decl strict svs1 svs2 /\
    (forall st vs p path,
       In (st, vs) svs1 -> is_child_line st p -> include_path p vs = Ok path ->
       existsb (bytes_eqb path) reading = false ->
       (assoc_b path fs1 = None /\ assoc_b path fs2 = None) \/
       (exists c1 c2, assoc_b path fs1 = Some c1 /\ assoc_b path fs2 = Some c2 /\
                      spells_files strict fs1 fs2 (reading ++ [path]) vs c1 c2)).
Proof.
  split.
  - intro H. inversion H as [rd inh u1 u2 svs1 svs2 vs' F1 F2 N1 N2 D CH]; subst.
    exists svs1, svs2, vs'. repeat (split; [assumption|]). exact CH.
  - intros (svs1 & svs2 & vs' & F1 & F2 & N1 & N2 & D & CH). econstructor; eassumption.
Qed.
