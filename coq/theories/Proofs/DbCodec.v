(* Db log: record codec.  A pure encoder for [dbrec], the round trip through [parse_record],
   framing (prefix stability), [parse_records] on an encoded list plus torn tail, [db_open] on such files. *)
From Coq Require Import String.
From N2 Require Import Model.All Proofs.DbSpec.
From Coq Require Import Lia.

Local Open Scope N_scope.

(* ------------------------------------------------------------------------------------ *)
(* little-endian numbers *)

Lemma of_le_le_bytes : forall k n, n < 256 ^ N.of_nat k -> of_le (le_bytes k n) = n.
Proof.
  induction k as [|k IH]; intros n Hn.
  - cbn in *. lia.
  - cbn [le_bytes of_le].
    rewrite IH.
    + rewrite (N.div_mod' n 256) at 3. lia.
    + rewrite Nat2N.inj_succ, N.pow_succ_r' in Hn.
      apply N.div_lt_upper_bound; lia.
Qed.

Lemma length_le_bytes : forall k n, length (le_bytes k n) = k.
Proof. induction k as [|k IH]; intros n; cbn [le_bytes length]; [reflexivity | now rewrite IH]. Qed.

Lemma u16le_le n : u16le n = le_bytes 2 n.
Proof. reflexivity. Qed.

Lemma u24le_le n : u24le n = le_bytes 3 n.
Proof.
  unfold u24le. cbn [le_bytes]. rewrite N.div_div by lia. reflexivity.
Qed.

Lemma of_le_u16le n : n < 65536 -> of_le (u16le n) = n.
Proof. intros H. rewrite u16le_le. apply of_le_le_bytes. exact H. Qed.

Lemma of_le_u24le n : n < 16777216 -> of_le (u24le n) = n.
Proof. intros H. rewrite u24le_le. apply of_le_le_bytes. exact H. Qed.

Lemma of_le_u64le n : n < 18446744073709551616 -> of_le (u64le n) = n.
Proof. intros H. unfold u64le. apply of_le_le_bytes. exact H. Qed.

Lemma length_u16le n : length (u16le n) = 2%nat.
Proof. reflexivity. Qed.
Lemma length_u24le n : length (u24le n) = 3%nat.
Proof. reflexivity. Qed.
Lemma length_u64le n : length (u64le n) = 8%nat.
Proof. reflexivity. Qed.

Lemma lor_mark n : n < 32768 -> N.lor n 32768 = n + 32768.
Proof.
  intros H.
  assert (L : N.land n 32768 = 0).
  { apply N.bits_inj. intros i. rewrite N.land_spec, N.bits_0.
    change 32768 with (2 ^ 15). rewrite N.pow2_bits_eqb.
    destruct (N.eqb_spec 15 i) as [<-|_]; [|apply andb_false_r].
    rewrite <- (N.mod_small n (2 ^ 15)) by exact H.
    rewrite N.mod_pow2_bits_high by lia. reflexivity. }
  rewrite <- N.lxor_lor by exact L. symmetry. apply N.add_nocarry_lxor. exact L.
Qed.

(* ------------------------------------------------------------------------------------ *)
(* the encoder the proofs talk about *)

Definition enc_idl (ids : list N) : bytes := concat (map u24le ids).

Definition enc_rec (r : dbrec) : bytes :=
  match r with
  | DPath name => u16le (N.of_nat (length name)) ++ name
  | DBuild outs deps hash =>
    u16le (N.of_nat (length outs) + 32768) ++ enc_idl outs ++
    u16le (N.of_nat (length deps)) ++ enc_idl deps ++ u64le hash
  end.

Definition encs (rs : list dbrec) : bytes := concat (map enc_rec rs).

Definition id_ok (i : N) : Prop := i < 16777216.

Definition rec_ok (r : dbrec) : Prop :=
  match r with
  | DPath name => N.of_nat (length name) < 32768
  | DBuild outs deps hash =>
    N.of_nat (length outs) < 32768 /\ N.of_nat (length deps) < 65536 /\
    Forall id_ok outs /\ Forall id_ok deps /\ hash < 18446744073709551616
  end.

Lemma encs_app a b : encs (a ++ b) = encs a ++ encs b.
Proof. unfold encs. now rewrite map_app, concat_app. Qed.

Lemma encs_cons r rs : encs (r :: rs) = enc_rec r ++ encs rs.
Proof. reflexivity. Qed.

Lemma length_enc_idl ids : length (enc_idl ids) = (3 * length ids)%nat.
Proof.
  induction ids as [|i ids IH]; [reflexivity|].
  unfold enc_idl in *. cbn [map concat]. rewrite app_length, IH, length_u24le. cbn [length]. lia.
Qed.

Lemma enc_rec_len r : (2 <= length (enc_rec r))%nat.
Proof. destruct r; cbn [enc_rec]; rewrite app_length, length_u16le; lia. Qed.

Lemma encs_len rs : (length rs <= length (encs rs))%nat.
Proof.
  induction rs as [|r rs IH]; [cbn; lia|].
  rewrite encs_cons, app_length. pose proof (enc_rec_len r). cbn [length]. lia.
Qed.

(* ------------------------------------------------------------------------------------ *)
(* take / take_ids *)

Local Close Scope N_scope.

Lemma take_app n (a r : bytes) : length a = n -> take n (a ++ r) = Some (a, r).
Proof.
  intros H. unfold take. rewrite app_length.
  destruct (Nat.ltb_spec (length a + length r) n) as [L|_]; [lia|].
  subst n. f_equal. f_equal.
  - replace (length a) with (length a + 0) by lia. rewrite firstn_app_2. cbn. apply app_nil_r.
  - rewrite skipn_app, skipn_all, Nat.sub_diag. reflexivity.
Qed.

Lemma take_mono n (l t a r : bytes) : take n l = Some (a, r) -> take n (l ++ t) = Some (a, r ++ t).
Proof.
  unfold take. intros H.
  destruct (Nat.ltb_spec (length l) n) as [L|L]; [discriminate|].
  injection H as <- <-.
  rewrite app_length.
  destruct (Nat.ltb_spec (length l + length t) n) as [L'|_]; [lia|].
  rewrite firstn_app, skipn_app.
  replace (n - length l) with 0 by lia. cbn [firstn skipn]. now rewrite app_nil_r.
Qed.

Lemma take_ids_enc ids r : Forall id_ok ids -> take_ids (length ids) (enc_idl ids ++ r) = Some (ids, r).
Proof.
  induction 1 as [|i ids Hi _ IH]; [reflexivity|].
  cbn [length take_ids]. unfold enc_idl in *. cbn [map concat].
  rewrite <- app_assoc, (take_app 3) by apply length_u24le.
  rewrite IH, of_le_u24le by exact Hi. reflexivity.
Qed.

Lemma take_ids_mono : forall k l t ids r, take_ids k l = Some (ids, r) -> take_ids k (l ++ t) = Some (ids, r ++ t).
Proof.
  induction k as [|k IH]; intros l t ids r H; cbn [take_ids] in *.
  - now injection H as <- <-.
  - destruct (take 3 l) as [[a r0]|] eqn:E; [|discriminate].
    rewrite (take_mono _ _ t _ _ E).
    destruct (take_ids k r0) as [[ids' r']|] eqn:E2; [|discriminate].
    rewrite (IH _ t _ _ E2). now injection H as <- <-.
Qed.

(* ------------------------------------------------------------------------------------ *)
(* one record *)

Lemma parse_record_enc r rest : rec_ok r -> parse_record (enc_rec r ++ rest) = Some (r, rest).
Proof.
  intros Hok. unfold parse_record. destruct r as [name|outs deps hash]; cbn [enc_rec rec_ok] in *.
  - rewrite <- app_assoc, (take_app 2) by apply length_u16le.
    rewrite of_le_u16le by lia.
    destruct (N.ltb_spec (N.of_nat (length name)) 32768) as [_|L]; [|lia].
    rewrite Nat2N.id, take_app by reflexivity. reflexivity.
  - destruct Hok as (Ho & Hd & Hio & Hid & Hh).
    rewrite <- app_assoc, (take_app 2) by apply length_u16le.
    rewrite of_le_u16le by lia.
    destruct (N.ltb_spec (N.of_nat (length outs) + 32768) 32768) as [L|_]; [lia|].
    rewrite N.add_sub, Nat2N.id.
    rewrite <- app_assoc, take_ids_enc by exact Hio.
    rewrite <- app_assoc, (take_app 2) by apply length_u16le.
    rewrite of_le_u16le by lia. rewrite Nat2N.id.
    rewrite <- app_assoc, take_ids_enc by exact Hid.
    rewrite (take_app 8) by apply length_u64le.
    rewrite of_le_u64le by exact Hh. reflexivity.
Qed.

Lemma parse_record_mono l t r rest : parse_record l = Some (r, rest) -> parse_record (l ++ t) = Some (r, rest ++ t).
Proof.
  unfold parse_record. intros H.
  destruct (take 2 l) as [[h r0]|] eqn:E; [|discriminate].
  rewrite (take_mono _ _ t _ _ E).
  destruct (of_le h <? 32768)%N.
  - destruct (take (N.to_nat (of_le h)) r0) as [[name r']|] eqn:E1; [|discriminate].
    rewrite (take_mono _ _ t _ _ E1). now injection H as <- <-.
  - destruct (take_ids (N.to_nat (of_le h - 32768)) r0) as [[outs r1]|] eqn:E1; [|discriminate].
    rewrite (take_ids_mono _ _ t _ _ E1).
    destruct (take 2 r1) as [[h2 r2]|] eqn:E2; [|discriminate].
    rewrite (take_mono _ _ t _ _ E2).
    destruct (take_ids (N.to_nat (of_le h2)) r2) as [[deps r3]|] eqn:E3; [|discriminate].
    rewrite (take_ids_mono _ _ t _ _ E3).
    destruct (take 8 r3) as [[hb r4]|] eqn:E4; [|discriminate].
    rewrite (take_mono _ _ t _ _ E4). now injection H as <- <-.
Qed.

(* a record cut short is not a record *)
Lemma parse_record_torn r k : rec_ok r -> k < length (enc_rec r) -> parse_record (firstn k (enc_rec r)) = None.
Proof.
  intros Hok Hk.
  destruct (parse_record (firstn k (enc_rec r))) as [[r' rest']|] eqn:E; [|reflexivity].
  exfalso.
  apply (parse_record_mono _ (skipn k (enc_rec r))) in E.
  rewrite firstn_skipn in E.
  pose proof (parse_record_enc r [] Hok) as E'. rewrite app_nil_r in E'.
  rewrite E' in E. injection E as _ E.
  assert (L : length (skipn k (enc_rec r)) = 0).
  { destruct rest'; [|discriminate]. destruct (skipn k (enc_rec r)); [reflexivity|discriminate]. }
  rewrite skipn_length in L. lia.
Qed.

Lemma parse_record_nil : parse_record [] = None.
Proof. reflexivity. Qed.

(* ------------------------------------------------------------------------------------ *)
(* record lists *)

Lemma parse_records_encs : forall rs fuel tail, Forall rec_ok rs -> parse_record tail = None -> length rs < fuel ->
  parse_records fuel (encs rs ++ tail) = (rs, tail).
Proof.
  induction rs as [|r rs IH]; intros fuel tail Hok Ht Hf.
  - destruct fuel as [|fuel]; [lia|]. cbn [encs map concat app parse_records]. now rewrite Ht.
  - destruct fuel as [|fuel]; [cbn in Hf; lia|].
    inversion Hok as [|? ? Hr Hrs]; subst.
    rewrite encs_cons, <- app_assoc. cbn [parse_records].
    rewrite parse_record_enc by exact Hr.
    rewrite IH; [reflexivity | exact Hrs | exact Ht | cbn in Hf; lia].
Qed.

(* a byte prefix of an encoded list = an encoded prefix of the list + a torn record *)
Lemma encs_firstn : forall rs k, Forall rec_ok rs ->
  exists m p, firstn k (encs rs) = encs (firstn m rs) ++ p /\ parse_record p = None.
Proof.
  induction rs as [|r rs IH]; intros k Hok.
  - exists 0, []. rewrite firstn_nil. split; reflexivity.
  - inversion Hok as [|? ? Hr Hrs]; subst.
    rewrite encs_cons, firstn_app.
    destruct (Nat.lt_ge_cases k (length (enc_rec r))) as [L|L].
    + exists 0, (firstn k (enc_rec r)).
      replace (k - length (enc_rec r)) with 0 by lia. cbn [firstn encs map concat app].
      split; [apply app_nil_r | now apply parse_record_torn].
    + destruct (IH (k - length (enc_rec r)) Hrs) as (m & p & E & Hp).
      exists (S m), p. rewrite firstn_all2 by exact L. rewrite E.
      cbn [firstn]. rewrite encs_cons, <- app_assoc. split; [reflexivity | exact Hp].
Qed.

Lemma Forall_firstn {A} (P : A -> Prop) n l : Forall P l -> Forall P (firstn n l).
Proof.
  intros H. rewrite <- (firstn_skipn n l) in H. apply Forall_app in H. apply H.
Qed.

(* ------------------------------------------------------------------------------------ *)
(* db_open *)

Definition ld_init : loaded := mkLoaded [] [].

Lemma length_signature : length signature = 8.
Proof. reflexivity. Qed.

Lemma db_open_short fixed producer file : length file < 8 -> fixed = true ->
  db_open fixed producer file = OpenOk ld_init signature.
Proof.
  intros H ->. unfold db_open.
  destruct (Nat.ltb_spec (length file) 8) as [_|L]; [reflexivity | lia].
Qed.

Lemma db_open_sig producer body :
  db_open true producer (signature ++ body) =
  let '(rs, tail) := parse_records (S (length body)) body in
  match apply_records true producer rs ld_init with
  | Ok st => OpenOk st (firstn (length (signature ++ body) - length tail) (signature ++ body))
  | Panic s => OpenPanic s
  | _ => OpenPanic 0%N
  end.
Proof. reflexivity. Qed.

(* the pinned reader on the same input *)
Lemma db_open_sig_pinned producer body :
  db_open false producer (signature ++ body) =
  let '(rs, tail) := parse_records (S (length body)) body in
  match apply_records false producer rs ld_init with
  | Ok st => if (length tail <=? 1)%nat then OpenOk st (signature ++ body) else OpenErr (bs "failed to fill whole buffer")
  | Panic s => OpenPanic s
  | _ => OpenPanic 0%N
  end.
Proof. reflexivity. Qed.

Lemma db_open_encs producer rs st tail :
  Forall rec_ok rs -> apply_records true producer rs ld_init = Ok st -> parse_record tail = None ->
  db_open true producer (signature ++ encs rs ++ tail) = OpenOk st (signature ++ encs rs).
Proof.
  intros Hok Hap Ht. rewrite db_open_sig.
  rewrite parse_records_encs; [| exact Hok | exact Ht |].
  2:{ rewrite app_length. pose proof (encs_len rs). lia. }
  rewrite Hap. f_equal.
  rewrite (app_assoc signature), app_length.
  replace (length (signature ++ encs rs) + length tail - length tail) with (length (signature ++ encs rs) + 0) by lia.
  rewrite firstn_app_2. cbn [firstn]. apply app_nil_r.
Qed.

Lemma db_open_encs_whole producer rs st :
  Forall rec_ok rs -> apply_records true producer rs ld_init = Ok st ->
  db_open true producer (signature ++ encs rs) = OpenOk st (signature ++ encs rs).
Proof.
  intros Hok Hap. pose proof (db_open_encs producer rs st [] Hok Hap parse_record_nil) as H.
  now rewrite app_nil_r in H.
Qed.
