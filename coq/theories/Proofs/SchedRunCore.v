(* BCore / ReadyOk / QueueOk: the decomposition of BInv used by the run-loop invariant,
   bs_new_BInv, init_pools facts, and preservation of BCore by bs_set and by queue edits. *)
From Coq Require Import Lia ZArith List Bool Arith String.
From N2 Require Import Model.All Proofs.SchedSpec Proofs.SchedInv Proofs.SchedRunBase Proofs.SchedRunStep.
Import ListNotations.
Local Open Scope string_scope.
Local Open Scope list_scope.
Local Open Scope nat_scope.

(* the fields of BInv that hold in every reachable run state *)
Record BCore (g : graph) (decls : list (bytes * nat)) (s : bstates) : Prop := {
  bc_len : length (bs_states s) = length (g_builds g);
  bc_prod : forall b p, In (get_state s b) [Ready; Queued; Running; Done] -> ordering_producer g b p -> get_state s p = Done;
  bc_closed : forall b p, get_state s b <> Unknown -> any_producer g b p -> get_state s p <> Unknown;
  bc_counts : bs_counts s = census g s;
  bc_pending : bs_pending s = (count_state g s Want false + count_state g s Ready false + count_state g s Queued false + count_state g s Running false)%Z;
  bc_pool_names : map (fun p => (p_name p, p_depth p)) (bs_pools s) = map (fun p => (p_name p, p_depth p)) (init_pools decls);
  bc_pool_names_nodup : NoDup (map p_name (bs_pools s));
  bc_pool_running : forall p, In p (bs_pools s) -> p_running p = running_in_pool g s (p_name p);
  bc_pool_queued : forall p b, In p (bs_pools s) -> In b (p_queued p) -> (get_state s b = Queued /\ pool_name (get_build g b) = p_name p);
  bc_pool_queued_nodup : forall p, In p (bs_pools s) -> NoDup (p_queued p);
  bc_nonphony : forall b, In (get_state s b) [Queued; Running] -> b_phony (get_build g b) = false;
}.

(* the ready queue holds exactly the Ready steps, except the one [h] being examined *)
Definition ReadyOk (g : graph) (s : bstates) (h : option nat) : Prop :=
  NoDup (bs_ready s) /\
  forall b, In b (bs_ready s) <-> (b < length (g_builds g) /\ get_state s b = Ready /\ Some b <> h).

Definition QueueOk (g : graph) (s : bstates) : Prop :=
  forall b, b < length (g_builds g) ->
    (In (get_state s b) [Queued; Running] -> pool_find (bs_pools s) (pool_name (get_build g b)) <> None) /\
    (get_state s b = Queued ->
     exists p, In p (bs_pools s) /\ p_name p = pool_name (get_build g b) /\ In b (p_queued p)).

Lemma BInv_split g decls s : BInv g decls s <-> (BCore g decls s /\ ReadyOk g s None /\ QueueOk g s).
Proof.
  split.
  - intros [H1 H2 H3 H4 H5 [H6a H6b] H7 H8 H9 H10 H11 H12 H13 H14].
    split; [constructor; assumption|]. split.
    + split; [exact H6a|]. intro b. rewrite H6b. split.
      * intros [A B]. repeat split; auto. discriminate.
      * intros (A & B & _). auto.
    + intros b Hb. split; [apply H13; exact Hb | apply H12; exact Hb].
  - intros ([H1 H2 H3 H4 H5 H7 H8 H9 H10 H11 H14] & [Ra Rb] & Q).
    constructor; try assumption.
    + split; [exact Ra|]. intro b. rewrite Rb. split.
      * intros (A & B & _). auto.
      * intros [A B]. repeat split; auto. discriminate.
    + intros b Hb. apply (Q b Hb).
    + intros b Hb. apply (Q b Hb).
Qed.

Lemma BInv_core g decls s : BInv g decls s -> BCore g decls s.
Proof. intro H. now apply BInv_split in H. Qed.

(* ------------------------------------------------------------------------------------ *)
(* init_pools *)

Lemma pools_insert_names ps n d x :
  In x (map p_name (pools_insert ps n d)) -> x = n \/ In x (map p_name ps).
Proof.
  induction ps as [|p r IH]; cbn.
  - intros [<-|[]]. now left.
  - destruct (bytes_eqb (p_name p) n) eqn:E; cbn.
    + intros [<-|I]; auto.
    + intros [<-|I]; auto. destruct (IH I); auto.
Qed.

Lemma pools_insert_nodup ps n d : NoDup (map p_name ps) -> NoDup (map p_name (pools_insert ps n d)).
Proof.
  induction ps as [|p r IH]; cbn; intro N.
  - constructor; [intros []|constructor].
  - inversion N as [|? ? N1 N2]; subst.
    destruct (bytes_eqb (p_name p) n) eqn:E; cbn.
    + apply bytes_eqb_spec in E. subst n. constructor; assumption.
    + constructor; [|now apply IH].
      intro I. apply pools_insert_names in I. destruct I as [I|I]; [|contradiction].
      apply bytes_eqb_false in E. congruence.
Qed.

Lemma pools_insert_fresh ps n d :
  Forall (fun p => p_queued p = [] /\ p_running p = 0%Z) ps ->
  Forall (fun p => p_queued p = [] /\ p_running p = 0%Z) (pools_insert ps n d).
Proof.
  induction ps as [|p r IH]; cbn; intro F.
  - constructor; [split; reflexivity|constructor].
  - inversion F; subst. destruct (bytes_eqb (p_name p) n); constructor; auto.
Qed.

Lemma pool_find_insert ps n d m :
  pool_find (pools_insert ps n d) m =
  if bytes_eqb n m then Some (mkPool n [] 0 d) else pool_find ps m.
Proof.
  induction ps as [|p r IH]; cbn.
  - reflexivity.
  - destruct (bytes_eqb (p_name p) n) eqn:E; cbn.
    + apply bytes_eqb_spec in E. rewrite E. destruct (bytes_eqb n m); reflexivity.
    + rewrite IH. destruct (bytes_eqb (p_name p) m) eqn:E2; [|reflexivity].
      destruct (bytes_eqb n m) eqn:E3; [|reflexivity].
      apply bytes_eqb_spec in E2, E3. apply bytes_eqb_false in E. congruence.
Qed.

Lemma init_pools_gen (P : list pool -> Prop) :
  (forall ps n d, P ps -> P (pools_insert ps n d)) ->
  forall decls ps, P ps -> P (fold_left (fun ps d => pools_insert ps (fst d) (snd d)) decls ps).
Proof.
  intros Hstep decls. induction decls as [|d decls IH]; intros ps H; cbn; [exact H|].
  apply IH. now apply Hstep.
Qed.

Lemma init_pools_nodup decls : NoDup (map p_name (init_pools decls)).
Proof.
  unfold init_pools. apply (init_pools_gen (fun ps => NoDup (map p_name ps))).
  - intros. now apply pools_insert_nodup.
  - cbn. constructor.
    + intros [E|[]]. vm_compute in E. discriminate.
    + constructor; [intros []|constructor].
Qed.

Lemma init_pools_fresh decls p : In p (init_pools decls) -> p_queued p = [] /\ p_running p = 0%Z.
Proof.
  assert (F : Forall (fun p => p_queued p = [] /\ p_running p = 0%Z) (init_pools decls)).
  { unfold init_pools. apply (init_pools_gen (Forall (fun p => p_queued p = [] /\ p_running p = 0%Z))).
    - intros. now apply pools_insert_fresh.
    - repeat constructor. }
  rewrite Forall_forall in F. apply F.
Qed.

Lemma C04_console_depth decls :
  ~ In (bs "console") (map fst decls) ->
  exists p, pool_find (init_pools decls) (bs "console") = Some p /\ p_depth p = 1.
Proof.
  intro H. exists (mkPool (bs "console") [] 0 1). split; [|reflexivity].
  unfold init_pools.
  assert (G : forall ps, pool_find (fold_left (fun ps d => pools_insert ps (fst d) (snd d)) decls ps) (bs "console")
                         = pool_find ps (bs "console")).
  { induction decls as [|d decls IH]; intro ps; cbn; [reflexivity|].
    rewrite IH by (intro I; apply H; right; exact I).
    rewrite pool_find_insert.
    destruct (bytes_eqb (fst d) (bs "console")) eqn:E; [|reflexivity].
    apply bytes_eqb_spec in E. exfalso. apply H. left. exact E. }
  rewrite G. vm_compute. reflexivity.
Qed.

(* ------------------------------------------------------------------------------------ *)
(* bs_new *)

Lemma nth_repeat_unknown n b : nth b (repeat Unknown n) Unknown = Unknown.
Proof. revert b. induction n as [|n IH]; intros [|b]; cbn; auto. Qed.

Lemma get_state_bs_new n decls b : get_state (bs_new n decls) b = Unknown.
Proof. unfold get_state, bs_new. cbn [bs_states]. apply nth_repeat_unknown. Qed.

Lemma bs_new_BInv g decls : BInv g decls (bs_new (length (g_builds g)) decls).
Proof.
  set (s := bs_new (length (g_builds g)) decls).
  assert (U : forall b, get_state s b = Unknown) by (intro b; apply get_state_bs_new).
  assert (Z0 : forall st fl, st <> Unknown -> count_state g s st fl = 0%Z).
  { intros st fl Hst. apply count_state_zero_intro. intros b _. rewrite U. congruence. }
  constructor.
  - unfold s, bs_new. cbn [bs_states]. apply repeat_length.
  - intros b p I. rewrite U in I. cbn in I. intuition discriminate.
  - intros b p I. rewrite U in I. congruence.
  - unfold census. rewrite !Z0 by discriminate. reflexivity.
  - rewrite !Z0 by discriminate. reflexivity.
  - split; [constructor|]. intro b. rewrite U. cbn. split; [intros []|intros [_ E]; discriminate].
  - reflexivity.
  - apply init_pools_nodup.
  - intros p I. cbn in I. destruct (init_pools_fresh decls p I) as [_ ->].
    symmetry. apply running_in_pool_zero_intro. intros b _. rewrite U. discriminate.
  - intros p b I Ib. cbn in I. destruct (init_pools_fresh decls p I) as [E _]. rewrite E in Ib. destruct Ib.
  - intros p I. cbn in I. destruct (init_pools_fresh decls p I) as [-> _]. constructor.
  - intros b _ E. rewrite U in E. discriminate.
  - intros b _ I. rewrite U in I. cbn in I. intuition discriminate.
  - intros b I. rewrite U in I. cbn in I. intuition discriminate.
Qed.

(* ------------------------------------------------------------------------------------ *)
(* consequences of BCore *)

Lemma BCore_range g decls s b : BCore g decls s -> get_state s b <> Unknown -> b < length (g_builds g).
Proof. intros C H. rewrite <- (bc_len _ _ _ C). now apply get_state_range. Qed.

Lemma BCore_ord_reach g decls s b f :
  BCore g decls s -> ord_reach g b f ->
  In (get_state s b) [Ready; Queued; Running; Done] -> get_state s f = Done.
Proof.
  intros C R. induction R as [b p H|b p q H R IH]; intro I.
  - exact (bc_prod _ _ _ C b p I H).
  - apply IH. rewrite (bc_prod _ _ _ C b p I H). cbn. tauto.
Qed.

Lemma BCore_not_queued g decls s b :
  BCore g decls s -> get_state s b <> Queued -> forall p, In p (bs_pools s) -> ~ In b (p_queued p).
Proof. intros C H p I Ib. destruct (bc_pool_queued _ _ _ C p b I Ib) as [E _]. contradiction. Qed.

(* all steps Unknown or Done when nothing is pending and nothing failed *)
Lemma BCore_all_done g decls s :
  BCore g decls s -> bs_pending s = 0%Z -> count_state g s Failed false = 0%Z ->
  forall b, get_state s b = Unknown \/ get_state s b = Done.
Proof.
  intros C P F b.
  destruct (Nat.lt_ge_cases b (length (g_builds g))) as [L|L].
  - rewrite (bc_pending _ _ _ C) in P.
    pose proof (count_state_nonneg g s Want false).
    pose proof (count_state_nonneg g s Ready false).
    pose proof (count_state_nonneg g s Queued false).
    pose proof (count_state_nonneg g s Running false).
    assert (W : count_state g s Want false = 0%Z) by lia.
    assert (R : count_state g s Ready false = 0%Z) by lia.
    assert (Q : count_state g s Queued false = 0%Z) by lia.
    assert (U : count_state g s Running false = 0%Z) by lia.
    pose proof (count_state_zero g s _ W b L).
    pose proof (count_state_zero g s _ R b L).
    pose proof (count_state_zero g s _ Q b L).
    pose proof (count_state_zero g s _ U b L).
    pose proof (count_state_zero g s _ F b L).
    destruct (get_state s b); auto; congruence.
  - left. unfold get_state. apply nth_overflow. rewrite (bc_len _ _ _ C). exact L.
Qed.

(* ------------------------------------------------------------------------------------ *)
(* pools with the same queues *)

Definition same_queues (ps ps' : list pool) : Prop :=
  map p_name ps' = map p_name ps /\
  (forall p, In p ps -> exists p', In p' ps' /\ p_name p' = p_name p /\ p_queued p' = p_queued p) /\
  (forall p', In p' ps' -> exists p, In p ps /\ p_name p' = p_name p /\ p_queued p' = p_queued p).

Lemma same_queues_refl ps : same_queues ps ps.
Proof. split; [reflexivity|]. split; intros p I; exists p; auto. Qed.

Lemma same_queues_padd ps nm d ps' :
  NoDup (map p_name ps) -> pool_update ps nm (padd d) = Some ps' -> same_queues ps ps'.
Proof.
  intros N U.
  destruct (pool_update_In ps nm (padd d) ps' (fun _ => eq_refl) N U) as (p0 & I0 & Hn & _ & Hm & Hin).
  split; [exact Hm|]. split.
  - intros p I. destruct (list_eq_dec N.eq_dec (p_name p) nm) as [E|E].
    + exists (padd d p0). split; [apply Hin; now left|].
      assert (p = p0).
      { pose proof (pool_find_of_In ps p N I) as F1. pose proof (pool_find_of_In ps p0 N I0) as F2.
        rewrite E in F1. rewrite Hn in F2. congruence. }
      subst p. split; reflexivity.
    + exists p. split; [apply Hin; right; auto|]. auto.
  - intros p' I. apply Hin in I. destruct I as [->|[I _]].
    + exists p0. auto.
    + exists p'. auto.
Qed.

(* ------------------------------------------------------------------------------------ *)
(* BCore is preserved by the six state transitions of the run loop *)

Definition trans_ok (prev st : bstate) : Prop :=
  (prev = Want /\ st = Ready) \/ (prev = Ready /\ st = Done) \/ (prev = Ready /\ st = Queued) \/
  (prev = Queued /\ st = Running) \/ (prev = Running /\ st = Done) \/ (prev = Running /\ st = Failed).

Lemma pool_running_padd g s s' ps ps' nm d :
  NoDup (map p_name ps) ->
  (forall p, In p ps -> p_running p = running_in_pool g s (p_name p)) ->
  pool_update ps nm (padd d) = Some ps' ->
  (forall n, running_in_pool g s' n = (running_in_pool g s n + (if bytes_eqb nm n then d else 0))%Z) ->
  forall p, In p ps' -> p_running p = running_in_pool g s' (p_name p).
Proof.
  intros N R U E p I.
  destruct (pool_update_In ps nm (padd d) ps' (fun _ => eq_refl) N U) as (p0 & I0 & Hn & _ & _ & Hin).
  apply Hin in I. destruct I as [->|[I Ne]].
  - cbn [padd p_running p_name]. rewrite E, Hn, bytes_eqb_refl, (R p0 I0), Hn. reflexivity.
  - rewrite E. assert (F : bytes_eqb nm (p_name p) = false) by (apply bytes_eqb_false; congruence).
    rewrite F, (R p I). lia.
Qed.

Lemma bs_set_BCore g decls s b st s' :
  BCore g decls s -> b < length (g_builds g) ->
  trans_ok (get_state s b) st ->
  (In st [Ready; Queued; Running; Done] -> forall p, ordering_producer g b p -> get_state s p = Done) ->
  (forall p, In p (bs_pools s) -> ~ In b (p_queued p)) ->
  (In st [Queued; Running] -> b_phony (get_build g b) = false) ->
  bs_set s b (get_build g b) st = Ok s' ->
  BCore g decls s' /\ get_state s' b = st /\ upd_at s s' b /\
  bs_ready s' = (match st with Ready => bs_ready s ++ [b] | _ => bs_ready s end) /\
  same_queues (bs_pools s) (bs_pools s').
Proof.
  intros C R T Hprod Hq Hnp H.
  assert (Hne : get_state s b <> Unknown).
  { unfold trans_ok in T. intro E. rewrite E in T. intuition discriminate. }
  destruct (bs_set_spec s b _ st s' Hne H) as (Est & Ecnt & Epend & Eready & ps1 & Eps1 & Eps').
  assert (Rs : b < length (bs_states s)) by (rewrite (bc_len _ _ _ C); exact R).
  destruct (get_state_set s s' b st Est Rs) as [Gb U].
  assert (Gx : forall x, get_state s' x = if (x =? b)%nat then st else get_state s x).
  { intro x. destruct (Nat.eqb_spec x b) as [->|Ne]; [exact Gb|now apply U]. }
  assert (Hnd : get_state s b <> Done).
  { unfold trans_ok in T. intro E. rewrite E in T. intuition discriminate. }
  assert (Hst : st <> Unknown).
  { unfold trans_ok in T. intro E. rewrite E in T. intuition discriminate. }
  (* pools *)
  assert (SQ : same_queues (bs_pools s) (bs_pools s') /\
               (forall p, In p (bs_pools s') -> p_running p = running_in_pool g s' (p_name p)) /\
               map (fun p => (p_name p, p_depth p)) (bs_pools s') = map (fun p => (p_name p, p_depth p)) (bs_pools s)).
  { pose proof (running_in_pool_upd g s s' b) as RU.
    pose proof (bc_pool_names_nodup _ _ _ C) as N.
    pose proof (bc_pool_running _ _ _ C) as PR.
    rewrite Gb in RU.
    unfold trans_ok in T.
    destruct T as [[Ep ->]|[[Ep ->]|[[Ep ->]|[[Ep ->]|[[Ep ->]|[Ep ->]]]]]];
      rewrite Ep in Eps1, RU; cbn [bstate_eqb] in Eps1, RU; cbn [andb Z.b2z] in RU.
    1,2,3: subst ps1; rewrite Eps'; split; [apply same_queues_refl|]; split; [|reflexivity];
      intros p I; rewrite (RU (p_name p) R U), (PR p I); lia.
    - subst ps1. split; [eapply same_queues_padd; eauto|]. split.
      + eapply pool_running_padd; eauto. intro n. rewrite (RU n R U).
        destruct (bytes_eqb (pool_name (get_build g b)) n); cbn [Z.b2z]; lia.
      + exact (pool_update_map (fun p => (p_name p, p_depth p)) _ _ (padd 1) _ (fun _ => eq_refl) Eps').
    - rewrite Eps'. split; [eapply same_queues_padd; eauto|]. split.
      + eapply pool_running_padd; eauto. intro n. rewrite (RU n R U).
        destruct (bytes_eqb (pool_name (get_build g b)) n); cbn [Z.b2z]; lia.
      + exact (pool_update_map (fun p => (p_name p, p_depth p)) _ _ (padd (-1)) _ (fun _ => eq_refl) Eps1).
    - rewrite Eps'. split; [eapply same_queues_padd; eauto|]. split.
      + eapply pool_running_padd; eauto. intro n. rewrite (RU n R U).
        destruct (bytes_eqb (pool_name (get_build g b)) n); cbn [Z.b2z]; lia.
      + exact (pool_update_map (fun p => (p_name p, p_depth p)) _ _ (padd (-1)) _ (fun _ => eq_refl) Eps1). }
  destruct SQ as (SQ & PR' & PN').
  split; [|split; [exact Gb|split; [exact U|split; [exact Eready|exact SQ]]]].
  constructor.
  - rewrite Est, set_nth_state_length. apply (bc_len _ _ _ C).
  - intros d p Hd Hp. rewrite Gx in Hd. rewrite Gx.
    destruct (Nat.eqb_spec d b) as [->|Nd].
    + pose proof (Hprod Hd p Hp) as Dp.
      destruct (Nat.eqb_spec p b) as [->|Np]; [contradiction|exact Dp].
    + pose proof (bc_prod _ _ _ C d p Hd Hp) as Dp.
      destruct (Nat.eqb_spec p b) as [->|Np]; [contradiction|exact Dp].
  - intros d p Hd Hp. rewrite Gx.
    destruct (Nat.eqb_spec p b) as [->|Np]; [exact Hst|].
    apply (bc_closed _ _ _ C d p); [|exact Hp].
    rewrite Gx in Hd. destruct (Nat.eqb_spec d b) as [->|Nd]; [exact Hne|exact Hd].
  - rewrite Ecnt, (census_upd g s s' b R U), Gb, (bc_counts _ _ _ C). reflexivity.
  - rewrite Epend, (bc_pending _ _ _ C).
    rewrite !(count_state_upd g s s' b _ false R U), Gb.
    cbn [negb orb]. rewrite !andb_true_r.
    unfold trans_ok in T.
    destruct T as [[Ep ->]|[[Ep ->]|[[Ep ->]|[[Ep ->]|[[Ep ->]|[Ep ->]]]]]];
      rewrite Ep; cbn [bstate_eqb Z.b2z]; lia.
  - rewrite PN'. apply (bc_pool_names _ _ _ C).
  - destruct SQ as (M & _). rewrite M. apply (bc_pool_names_nodup _ _ _ C).
  - exact PR'.
  - intros p' x I Ix. destruct SQ as (_ & _ & Back).
    destruct (Back p' I) as (p & Ip & En & Eqq). rewrite Eqq in Ix. rewrite En.
    destruct (Nat.eq_dec x b) as [Exb|Nx]; [exfalso; apply (Hq p Ip); rewrite <- Exb; exact Ix|].
    rewrite (U x Nx). exact (bc_pool_queued _ _ _ C p x Ip Ix).
  - intros p' I. destruct SQ as (_ & _ & Back).
    destruct (Back p' I) as (p & Ip & _ & Eqq). rewrite Eqq. exact (bc_pool_queued_nodup _ _ _ C p Ip).
  - intros x Hx. destruct (Nat.eq_dec x b) as [Exb|Nx].
    + rewrite Exb in Hx |- *. rewrite Gb in Hx. exact (Hnp Hx).
    + rewrite (U x Nx) in Hx. exact (bc_nonphony _ _ _ C x Hx).
Qed.

(* changing one pool's queue *)
Lemma set_queue_BCore g decls s nm (fq : list nat -> list nat) ps :
  BCore g decls s ->
  pool_update (bs_pools s) nm (fun p => mkPool (p_name p) (fq (p_queued p)) (p_running p) (p_depth p)) = Some ps ->
  (forall p, In p (bs_pools s) -> p_name p = nm ->
     NoDup (fq (p_queued p)) /\
     forall x, In x (fq (p_queued p)) -> get_state s x = Queued /\ pool_name (get_build g x) = nm) ->
  BCore g decls (set_pools s ps) /\
  exists p0, In p0 (bs_pools s) /\ p_name p0 = nm /\ pool_find (bs_pools s) nm = Some p0 /\
    forall q, In q ps <-> (q = mkPool (p_name p0) (fq (p_queued p0)) (p_running p0) (p_depth p0) \/
                           (In q (bs_pools s) /\ p_name q <> nm)).
Proof.
  intros C U Hq.
  pose proof (bc_pool_names_nodup _ _ _ C) as N.
  set (f := fun p => mkPool (p_name p) (fq (p_queued p)) (p_running p) (p_depth p)) in *.
  destruct (pool_update_In _ nm f ps (fun _ => eq_refl) N U) as (p0 & I0 & Hn & Hf & Hm & Hin).
  split; [|exists p0; auto].
  destruct (Hq p0 I0 Hn) as [Nq Sq].
  constructor; cbn [set_pools bs_pools bs_counts bs_pending bs_ready].
  - exact (bc_len _ _ _ C).
  - exact (bc_prod _ _ _ C).
  - exact (bc_closed _ _ _ C).
  - exact (bc_counts _ _ _ C).
  - exact (bc_pending _ _ _ C).
  - rewrite <- (bc_pool_names _ _ _ C).
    exact (pool_update_map (fun p => (p_name p, p_depth p)) _ _ f _ (fun _ => eq_refl) U).
  - rewrite Hm. exact N.
  - intros p I. apply Hin in I. destruct I as [->|[I _]].
    + unfold f. cbn [p_running p_name]. exact (bc_pool_running _ _ _ C p0 I0).
    + exact (bc_pool_running _ _ _ C p I).
  - intros p x I Ix. apply Hin in I. destruct I as [->|[I _]].
    + unfold f in Ix |- *. cbn [p_queued p_name] in Ix |- *. rewrite Hn. exact (Sq x Ix).
    + exact (bc_pool_queued _ _ _ C p x I Ix).
  - intros p I. apply Hin in I. destruct I as [->|[I _]].
    + unfold f. cbn [p_queued]. exact Nq.
    + exact (bc_pool_queued_nodup _ _ _ C p I).
  - exact (bc_nonphony _ _ _ C).
Qed.
