(* Boundedness of the run loop (C06, second half): every accepted event except the two
   stuttering ones (EUpdate, EQuiesce) pays for itself out of a potential of the run state,
   so their numbers are bounded by the size of the graph. *)
From Coq Require Import Lia ZArith List Bool Arith.
From N2 Require Import Model.All Proofs.SchedSpec Proofs.SchedInv Proofs.SchedRunBase
     Proofs.SchedRunStep Proofs.SchedRunCore Proofs.SchedRunAux Proofs.SchedRunRInv
     Proofs.SchedRunThms Proofs.SchedRunFinal Proofs.SchedBoundSpec.
Import ListNotations.

(* ------------------------------------------------------------------------------------ *)
(* sums over an index range *)

Lemma list_sum_cons a l : list_sum (a :: l) = a + list_sum l.
Proof. reflexivity. Qed.

Lemma sum_seq_same (P Q : nat -> nat) : forall n a,
  (forall i, a <= i < a + n -> P i = Q i) -> list_sum (map P (seq a n)) = list_sum (map Q (seq a n)).
Proof.
  intros n a H. f_equal. apply map_ext_in. intros i Hi. apply in_seq in Hi. apply H. lia.
Qed.

Lemma sum_seq_change (P Q : nat -> nat) b : forall n a,
  (forall i, i <> b -> P i = Q i) -> a <= b < a + n ->
  list_sum (map Q (seq a n)) + P b = list_sum (map P (seq a n)) + Q b.
Proof.
  induction n as [|n IH]; intros a H R; [lia|].
  cbn [seq map]. rewrite !list_sum_cons.
  destruct (Nat.eq_dec a b) as [E|E].
  - subst a. rewrite (sum_seq_same P Q n (S b)) by (intros i Hi; apply H; lia). lia.
  - rewrite (H a E). specialize (IH (S a) H ltac:(lia)). lia.
Qed.

Lemma sum_seq_ge (P : nat -> nat) b : forall n a, a <= b < a + n -> P b <= list_sum (map P (seq a n)).
Proof.
  induction n as [|n IH]; intros a R; [lia|].
  cbn [seq map]. rewrite list_sum_cons.
  destruct (Nat.eq_dec a b) as [E|E]; [subst a; lia|].
  specialize (IH (S a) ltac:(lia)). lia.
Qed.

Lemma sum_map_le {A} (f : A -> nat) k l : (forall x, f x <= k) -> list_sum (map f l) <= k * length l.
Proof.
  intro H. induction l as [|x l IH]; cbn [map length]; [cbn; lia|]. rewrite list_sum_cons. specialize (H x). lia.
Qed.

Lemma sum_map_add {A} (f h : A -> nat) l :
  list_sum (map (fun x => f x + h x) l) = list_sum (map f l) + list_sum (map h l).
Proof. induction l as [|x l IH]; cbn [map]; [reflexivity|]. rewrite !list_sum_cons. lia. Qed.

(* ------------------------------------------------------------------------------------ *)
(* state_sum *)

Lemma state_sum_same w g s s' :
  (forall x, get_state s' x = get_state s x) -> state_sum w g s' = state_sum w g s.
Proof.
  intro H. unfold state_sum. f_equal. apply map_ext. intro i. now rewrite H.
Qed.

Lemma state_sum_upd w g s s' b :
  b < length (g_builds g) -> upd_at s s' b ->
  state_sum w g s' + w (get_state s b) = state_sum w g s + w (get_state s' b).
Proof.
  intros R U. unfold state_sum, indices.
  apply (sum_seq_change (fun i => w (get_state s i)) (fun i => w (get_state s' i)) b).
  - intros i Hi. now rewrite (U i Hi).
  - lia.
Qed.

Lemma state_sum_ge w g s b : b < length (g_builds g) -> w (get_state s b) <= state_sum w g s.
Proof.
  intro R. unfold state_sum, indices.
  apply (sum_seq_ge (fun i => w (get_state s i)) b). lia.
Qed.

Lemma state_sum_le w k g s : (forall st, w st <= k) -> state_sum w g s <= k * length (g_builds g).
Proof.
  intro H. unfold state_sum, indices.
  rewrite <- (seq_length (length (g_builds g)) 0) at 2.
  apply sum_map_le. intro i. apply H.
Qed.

Lemma state_sum_add w1 w2 g s :
  state_sum (fun st => w1 st + w2 st) g s = state_sum w1 g s + state_sum w2 g s.
Proof. unfold state_sum. apply sum_map_add. Qed.

Lemma state_sum_mono w1 w2 g s : (forall st, w1 st <= w2 st) -> state_sum w1 g s <= state_sum w2 g s.
Proof.
  intro H. unfold state_sum.
  induction (indices (g_builds g)) as [|i l IH]; cbn [map]; [lia|]. rewrite !list_sum_cons.
  specialize (H (get_state s i)). lia.
Qed.

Lemma run_potential_le g s : run_potential g s <= 4 * length (g_builds g).
Proof. apply state_sum_le. intros []; cbn; lia. Qed.

Lemma unfinished_le g s : unfinished g s <= length (g_builds g).
Proof.
  unfold unfinished. rewrite <- (Nat.mul_1_l (length (g_builds g))).
  apply state_sum_le. intros []; cbn; lia.
Qed.

Lemma run_potential_unfinished g s : run_potential g s <= 4 * unfinished g s.
Proof.
  unfold run_potential, unfinished, state_sum.
  induction (indices (g_builds g)) as [|i l IH]; cbn [map]; [cbn; lia|]. rewrite !list_sum_cons.
  destruct (get_state s i); cbn [sets_left w_unfinished]; lia.
Qed.

(* ------------------------------------------------------------------------------------ *)
(* counting events *)

Lemma count_ev_cons p e tr : count_ev p (e :: tr) = (if p e then 1 else 0) + count_ev p tr.
Proof. unfold count_ev. cbn [filter]. destruct (p e); reflexivity. Qed.

Lemma count_ev_app p tr1 tr2 : count_ev p (tr1 ++ tr2) = count_ev p tr1 + count_ev p tr2.
Proof. unfold count_ev. now rewrite filter_app, app_length. Qed.

Lemma count_ev_le p tr : count_ev p tr <= length tr.
Proof.
  unfold count_ev. induction tr as [|e tr IH]; cbn [filter length]; [lia|].
  destruct (p e); cbn [length]; lia.
Qed.

(* every event belongs to exactly one class *)
Lemma count_classes tr :
  length tr = count_ev is_stutter tr + count_ev is_set tr + count_ev is_pop tr + count_ev is_verdict tr +
              count_ev is_start tr + count_ev is_finish tr + count_ev is_record tr + count_ev is_return tr.
Proof.
  induction tr as [|e tr IH]; [reflexivity|].
  rewrite !count_ev_cons. cbn [length].
  destruct e; cbn [is_stutter is_update is_quiesce is_set is_pop is_verdict is_start is_finish is_record
                   is_return orb]; lia.
Qed.

Lemma count_nonstutter tr :
  count_ev (fun e => negb (is_stutter e)) tr =
  count_ev is_set tr + count_ev is_pop tr + count_ev is_verdict tr +
  count_ev is_start tr + count_ev is_finish tr + count_ev is_record tr + count_ev is_return tr.
Proof.
  induction tr as [|e tr IH]; [reflexivity|].
  rewrite !count_ev_cons.
  destruct e; cbn [is_stutter is_update is_quiesce is_set is_pop is_verdict is_start is_finish is_record
                   is_return orb negb]; lia.
Qed.

Lemma accepts_app cf : forall tr1 r tr2,
  accepts cf r (tr1 ++ tr2) =
  match accepts cf r tr1 with Some r1 => accepts cf r1 tr2 | None => None end.
Proof.
  induction tr1 as [|e tr1 IH]; intros r tr2; cbn [app accepts]; [reflexivity|].
  destruct (accept1 cf r e) as [r1|]; [apply IH|reflexivity].
Qed.

(* ------------------------------------------------------------------------------------ *)

Section Bound.
Variable cf : config.
Variable decls : list (bytes * nat).
Notation g := (cf_graph cf).
Notation nb := (length (g_builds (cf_graph cf))).

(* ---- shape of one accepted event, with the event class ---- *)

Local Ltac shape_tac r b st E Hl L :=
  match goal with Hs : bs_set ?s0 b _ st = Ok ?s' |- _ =>
    let Hne := fresh "Hne" in
    assert (Hne : get_state s0 b <> Unknown)
      by (let Hx := fresh in intro Hx; change (get_state s0 b) with (get_state (rs_bs r) b) in Hx; congruence);
    let Gb := fresh "Gb" in let U := fresh "U" in
    destruct (set_shape cf s0 b st s' Hl Hne Hs) as (L & Gb & U);
    change (upd_at s0 s' b) with (upd_at (rs_bs r) s' b) in U;
    rewrite E
  end.

Lemma step_shape_ev r e r' :
  RInv cf decls r -> step cf r e r' ->
  (is_set e = false /\ forall x, get_state (rs_bs r') x = get_state (rs_bs r) x) \/
  exists b st, b < nb /\ trans_ok (get_state (rs_bs r) b) st /\
               get_state (rs_bs r') b = st /\ upd_at (rs_bs r) (rs_bs r') b /\
               e = ESet b (get_state (rs_bs r) b) st.
Proof.
  intros Hinv Hstep. pose proof (ri_core _ _ _ Hinv) as C. pose proof (ri_ctl _ _ _ Hinv) as K.
  pose proof (bc_len _ _ _ C) as Hl.
  destruct Hstep;
    try (left; split; [reflexivity|intro x; reflexivity]);
    match goal with Hc : rs_ctl _ = _ |- _ => rewrite Hc in K; cbn [ctl_ok] in K end;
    right; cbn [with_bs rs_bs].
  - (* run *)
    exists b, Running.
    match goal with E0 : get_state _ b = _ |- _ => rename E0 into E end.
    shape_tac r b Running E Hl L.
    repeat split; auto. unfold trans_ok. tauto.
  - (* ready_done *)
    exists b, Done.
    destruct K as (L & _ & [(E & _)|(Ev & _)]);
      [|subst v; match goal with Hv : _ \/ _ |- _ => destruct Hv as [[? _]|[? _]]; discriminate end].
    shape_tac r b Done E Hl L2.
    repeat split; auto. unfold trans_ok. tauto.
  - (* enqueue *)
    exists b, Queued.
    destruct K as (L & _ & [(E & _)|(Ev & _)]); [|discriminate].
    shape_tac r b Queued E Hl L2.
    repeat split; auto. unfold trans_ok. tauto.
  - (* enqueue_fail *)
    exists b, Queued.
    destruct K as (L & _ & [(E & _)|(Ev & _)]); [|discriminate].
    shape_tac r b Queued E Hl L2.
    repeat split; auto. unfold trans_ok. tauto.
  - (* promote *)
    exists d, Ready.
    match goal with E0 : get_state _ d = _ |- _ => rename E0 into E end.
    shape_tac r d Ready E Hl L.
    repeat split; auto. unfold trans_ok. tauto.
  - (* done *)
    exists b, Done. destruct K as (_ & _ & L & E).
    shape_tac r b Done E Hl L2.
    repeat split; auto. unfold trans_ok. tauto.
  - (* failed *)
    exists b, Failed. destruct K as (_ & _ & L & E).
    shape_tac r b Failed E Hl L2.
    repeat split; auto. unfold trans_ok. tauto.
Qed.

(* ---- a potential that pays for the events of a class bounds their number ---- *)

Definition pays (p : event -> bool) (m : rstate -> nat) : Prop :=
  forall r e r', RInv cf decls r -> step cf r e r' -> (if p e then 1 else 0) + m r' <= m r.

Lemma accepts_pays p m : pays p m ->
  forall tr r r', RInv cf decls r -> accepts cf r tr = Some r' -> count_ev p tr + m r' <= m r.
Proof.
  intros Hp. induction tr as [|e tr IH]; intros r r' Hinv H; cbn [accepts] in H.
  - injection H as <-. cbn. lia.
  - destruct (accept1 cf r e) as [r1|] eqn:E1; [|discriminate].
    pose proof (accept1_step cf r e r1 E1) as Hs.
    pose proof (step_RInv cf decls r e r1 Hinv Hs) as Hinv1.
    specialize (IH r1 r' Hinv1 H). specialize (Hp r e r1 Hinv Hs).
    rewrite count_ev_cons. lia.
Qed.

(* ---- ESet ---- *)

Definition m_set (r : rstate) : nat := run_potential g (rs_bs r).

Lemma sets_left_trans prev st : trans_ok prev st -> sets_left st < sets_left prev.
Proof.
  unfold trans_ok. intros [[-> ->]|[[-> ->]|[[-> ->]|[[-> ->]|[[-> ->]|[-> ->]]]]]]; cbn; lia.
Qed.

Lemma pays_set : pays is_set m_set.
Proof.
  intros r e r' Hinv Hs. unfold m_set, run_potential.
  destruct (step_shape_ev r e r' Hinv Hs) as [[Hns Same]|(b & st & L & T & Gb & U & He)].
  - rewrite Hns, (state_sum_same sets_left g _ _ Same). lia.
  - pose proof (state_sum_upd sets_left g _ _ b L U) as S.
    apply sets_left_trans in T. rewrite Gb in S. subst e. cbn [is_set]. lia.
Qed.

(* ---- the other classes: a stock of steps in some states, corrected by the control state ---- *)

Definition w_ready (st : bstate) : nat := match st with Ready => 1 | _ => 0 end.

Definition measure (w : bstate -> nat) (credit : ctl -> nat) (debt : ctl -> bstates -> nat) (r : rstate) : nat :=
  match rs_ctl r with
  | CReturned _ => 0
  | c => state_sum w g (rs_bs r) + credit c - debt c (rs_bs r)
  end.

Definition no_credit (c : ctl) : nat := 0.

(* EPopReady: Want and Ready steps, less the one being examined *)
Definition debt_pop (c : ctl) (s : bstates) : nat :=
  match c with CChecking _ => 1 | CVerdict b _ _ => w_ready (get_state s b) | _ => 0 end.
Definition m_pop := measure w_unexamined no_credit debt_pop.

(* EVerdict: Want and Ready steps, less the one whose verdict is in *)
Definition debt_verdict (c : ctl) (s : bstates) : nat :=
  match c with CVerdict b _ _ => w_ready (get_state s b) | _ => 0 end.
Definition m_verdict := measure w_unexamined no_credit debt_verdict.

(* EStart: Want, Ready and Queued steps, plus the one set Running and about to start *)
Definition credit_start (c : ctl) : nat := match c with CStarting _ => 1 | _ => 0 end.
Definition no_debt (c : ctl) (s : bstates) : nat := 0.
Definition m_start := measure w_unstarted credit_start no_debt.

(* EFinish: unfinished steps, less the one that has just finished *)
Definition debt_finish (c : ctl) (s : bstates) : nat :=
  match c with CFinished _ _ _ => 1 | _ => 0 end.
Definition m_finish := measure w_unfinished no_credit debt_finish.

(* ERecord: unfinished steps, less the one that has just been recorded *)
Definition debt_record (c : ctl) (s : bstates) : nat :=
  match c with CVerdict _ _ true | CFinished _ _ true => 1 | _ => 0 end.
Definition m_record := measure w_unfinished no_credit debt_record.

(* EReturn *)
Definition m_return (r : rstate) : nat := match rs_ctl r with CReturned _ => 0 | _ => 1 end.

Local Ltac unfold_measures :=
  unfold m_pop, m_verdict, m_start, m_finish, m_record, measure, no_credit, no_debt,
    debt_pop, debt_verdict, credit_start, debt_finish, debt_record.

(* all the facts about one step, then arithmetic *)
Local Ltac pays_tac w :=
  let r := fresh "r" in let e := fresh "e" in let r' := fresh "r'" in
  let Hinv := fresh "Hinv" in let Hs := fresh "Hs" in
  intros r e r' Hinv Hs;
  pose proof (ri_ctl _ _ _ Hinv) as K;
  pose proof (ri_ctl _ _ _ (step_RInv cf decls r e r' Hinv Hs)) as K';
  destruct (step_shape_ev r e r' Hinv Hs) as [[Hns Same]|(b0 & st0 & L0 & T0 & Gb0 & U0 & He0)];
  [ pose proof (state_sum_same w g _ _ Same) as ES;
    destruct Hs; try discriminate Hns
  | pose proof (state_sum_upd w g _ _ b0 L0 U0) as ES;
    destruct Hs; try discriminate He0;
    (let Eb := fresh "Eb" in let Ep := fresh "Ep" in let Est := fresh "Est" in
     injection He0 as Eb Ep Est;
     rewrite Gb0 in ES; rewrite <- Est in ES, Gb0; subst b0; rewrite <- Ep in *) ];
  match goal with Hc : rs_ctl _ = _ |- _ => rewrite Hc in K; unfold_measures; rewrite Hc end;
  cbn [with_bs with_ctl rs_bs rs_ctl rs_running rs_failed rs_failures_left rs_tasks_run ctl_ok] in *;
  cbn [is_pop is_verdict is_start is_finish is_record is_return is_set
       w_unexamined w_unstarted w_unfinished w_ready] in *;
  repeat match goal with H : _ /\ _ |- _ => destruct H end;
  repeat match goal with E : ?c = get_state _ _ |- _ => rewrite <- E end;
  repeat match goal with E : get_state _ _ = _ |- _ => rewrite E end;
  cbn [w_unexamined w_unstarted w_unfinished w_ready].

Lemma pays_return : pays is_return m_return.
Proof.
  intros r e r' _ Hs. unfold m_return.
  destruct Hs; match goal with Hc : rs_ctl _ = _ |- _ => rewrite Hc end;
    cbn [with_bs with_ctl rs_ctl is_return]; lia.
Qed.

Local Ltac ge_tac w r :=
  match goal with L : ?x < nb |- _ =>
    let G := fresh "G" in
    pose proof (state_sum_ge w g (rs_bs r) x L) as G;
    repeat match type of G with context[get_state ?s ?y] =>
      match goal with E : get_state s y = _ |- _ => rewrite E in G end end;
    cbn [w_unexamined w_unstarted w_unfinished w_ready] in G; lia
  end.

Lemma pays_pop : pays is_pop m_pop.
Proof. pays_tac w_unexamined. all: try lia. all: ge_tac w_unexamined r. Qed.

Lemma pays_verdict : pays is_verdict m_verdict.
Proof. pays_tac w_unexamined. all: try lia. all: ge_tac w_unexamined r. Qed.

Lemma pays_start : pays is_start m_start.
Proof. pays_tac w_unstarted. all: try lia. all: ge_tac w_unstarted r. Qed.

Lemma pays_finish : pays is_finish m_finish.
Proof. pays_tac w_unfinished. all: try lia. all: ge_tac w_unfinished r. Qed.

Lemma pays_record : pays is_record m_record.
Proof. pays_tac w_unfinished. all: try lia. all: try ge_tac w_unfinished r.
  all: try (destruct rec; lia).
  match goal with D : _ \/ _ |- _ => destruct D as [(E & _)|(E & _)]; [|discriminate] end.
  ge_tac w_unfinished r.
Qed.

(* ---- the potentials are bounded by the number of unfinished steps ---- *)

Lemma measure_le w d r : (forall st, w st <= w_unfinished st) -> measure w no_credit d r <= unfinished g (rs_bs r).
Proof.
  intro H. pose proof (state_sum_mono w w_unfinished g (rs_bs r) H) as M.
  unfold measure, no_credit, unfinished. destruct (rs_ctl r); lia.
Qed.

Lemma m_pop_le r : m_pop r <= unfinished g (rs_bs r).
Proof. apply measure_le. intros []; cbn; lia. Qed.
Lemma m_verdict_le r : m_verdict r <= unfinished g (rs_bs r).
Proof. apply measure_le. intros []; cbn; lia. Qed.
Lemma m_finish_le r : m_finish r <= unfinished g (rs_bs r).
Proof. apply measure_le. intros []; cbn; lia. Qed.
Lemma m_record_le r : m_record r <= unfinished g (rs_bs r).
Proof. apply measure_le. intros []; cbn; lia. Qed.

Definition w_running (st : bstate) : nat := match st with Running => 1 | _ => 0 end.

Lemma m_start_le r : RInv cf decls r -> m_start r <= unfinished g (rs_bs r).
Proof.
  intro Hinv. pose proof (ri_ctl _ _ _ Hinv) as K.
  assert (A : state_sum w_unstarted g (rs_bs r) + state_sum w_running g (rs_bs r) <= unfinished g (rs_bs r)).
  { rewrite <- state_sum_add. apply state_sum_mono. intros []; cbn; lia. }
  unfold m_start, measure, no_debt, credit_start.
  destruct (rs_ctl r) eqn:Hc; try lia.
  cbn [ctl_ok] in K. destruct K as (_ & _ & L & E).
  pose proof (state_sum_ge w_running g (rs_bs r) b L) as G. rewrite E in G. cbn [w_running] in G. lia.
Qed.

Lemma m_return_le r : m_return r <= 1.
Proof. unfold m_return. destruct (rs_ctl r); lia. Qed.

(* ---- bounds from a state that satisfies the invariant ---- *)

Section FromRInv.
Variables (r r' : rstate) (evs : list event).
Hypothesis Hinv : RInv cf decls r.
Hypothesis Hacc : accepts cf r evs = Some r'.

Lemma sets_bound_RInv :
  count_ev is_set evs + run_potential g (rs_bs r') <= run_potential g (rs_bs r).
Proof. exact (accepts_pays is_set m_set pays_set evs r r' Hinv Hacc). Qed.

Lemma pops_bound_RInv : count_ev is_pop evs <= unfinished g (rs_bs r).
Proof.
  pose proof (accepts_pays is_pop m_pop pays_pop evs r r' Hinv Hacc). pose proof (m_pop_le r). lia.
Qed.

Lemma verdicts_bound_RInv : count_ev is_verdict evs <= unfinished g (rs_bs r).
Proof.
  pose proof (accepts_pays is_verdict m_verdict pays_verdict evs r r' Hinv Hacc).
  pose proof (m_verdict_le r). lia.
Qed.

Lemma starts_bound_RInv : count_ev is_start evs <= unfinished g (rs_bs r).
Proof.
  pose proof (accepts_pays is_start m_start pays_start evs r r' Hinv Hacc).
  pose proof (m_start_le r Hinv). lia.
Qed.

Lemma finishes_bound_RInv : count_ev is_finish evs <= unfinished g (rs_bs r).
Proof.
  pose proof (accepts_pays is_finish m_finish pays_finish evs r r' Hinv Hacc).
  pose proof (m_finish_le r). lia.
Qed.

Lemma records_bound_RInv : count_ev is_record evs <= unfinished g (rs_bs r).
Proof.
  pose proof (accepts_pays is_record m_record pays_record evs r r' Hinv Hacc).
  pose proof (m_record_le r). lia.
Qed.

Lemma returns_bound_RInv : count_ev is_return evs <= 1.
Proof.
  pose proof (accepts_pays is_return m_return pays_return evs r r' Hinv Hacc).
  pose proof (m_return_le r). lia.
Qed.

(* all events except EUpdate and EQuiesce *)
Lemma nonstutter_bound_RInv :
  count_ev (fun e => negb (is_stutter e)) evs <= 9 * unfinished g (rs_bs r) + 1.
Proof.
  rewrite count_nonstutter.
  pose proof sets_bound_RInv. pose proof (run_potential_unfinished g (rs_bs r)).
  pose proof pops_bound_RInv. pose proof verdicts_bound_RInv. pose proof starts_bound_RInv.
  pose proof finishes_bound_RInv. pose proof records_bound_RInv. pose proof returns_bound_RInv.
  lia.
Qed.

End FromRInv.

End Bound.

(* ------------------------------------------------------------------------------------ *)
(* closed forms: from any reachable state of a well-formed graph *)

Section BoundClosed.
Variable cf : config.
Variable decls : list (bytes * nat).
Hypothesis Hwf : graph_wf (cf_graph cf).
Notation g := (cf_graph cf).
Notation nb := (length (g_builds (cf_graph cf))).
Variables (r : rstate) (evs : list event) (r' : rstate).
Hypothesis Hr : reachable cf decls r.
Hypothesis Hacc : accepts cf r evs = Some r'.

Let Hinv : RInv cf decls r := reachable_RInv_closed cf decls Hwf r Hr.

Theorem C06_bounded_sets_potential :
  count_ev is_set evs + run_potential g (rs_bs r') <= run_potential g (rs_bs r) /\
  run_potential g (rs_bs r) <= 4 * unfinished g (rs_bs r) /\ unfinished g (rs_bs r) <= nb.
Proof.
  split; [exact (sets_bound_RInv cf decls r r' evs Hinv Hacc)|].
  split; [apply run_potential_unfinished|apply unfinished_le].
Qed.

Theorem C06_bounded_sets : count_ev is_set evs <= 4 * nb.
Proof. destruct C06_bounded_sets_potential as (A & B & C). lia. Qed.

Theorem C06_bounded_pops : count_ev is_pop evs <= unfinished g (rs_bs r) /\ unfinished g (rs_bs r) <= nb.
Proof. split; [exact (pops_bound_RInv cf decls r r' evs Hinv Hacc)|apply unfinished_le]. Qed.

Theorem C06_bounded_verdicts : count_ev is_verdict evs <= unfinished g (rs_bs r) /\ unfinished g (rs_bs r) <= nb.
Proof. split; [exact (verdicts_bound_RInv cf decls r r' evs Hinv Hacc)|apply unfinished_le]. Qed.

Theorem C06_bounded_starts : count_ev is_start evs <= unfinished g (rs_bs r) /\ unfinished g (rs_bs r) <= nb.
Proof. split; [exact (starts_bound_RInv cf decls r r' evs Hinv Hacc)|apply unfinished_le]. Qed.

Theorem C06_bounded_finishes : count_ev is_finish evs <= unfinished g (rs_bs r) /\ unfinished g (rs_bs r) <= nb.
Proof. split; [exact (finishes_bound_RInv cf decls r r' evs Hinv Hacc)|apply unfinished_le]. Qed.

Theorem C06_bounded_records : count_ev is_record evs <= unfinished g (rs_bs r) /\ unfinished g (rs_bs r) <= nb.
Proof. split; [exact (records_bound_RInv cf decls r r' evs Hinv Hacc)|apply unfinished_le]. Qed.

Theorem C06_bounded_returns : count_ev is_return evs <= 1.
Proof. exact (returns_bound_RInv cf decls r r' evs Hinv Hacc). Qed.

Theorem C06_trace_length_partial :
  count_ev (fun e => negb (is_stutter e)) evs <= 9 * unfinished g (rs_bs r) + 1 /\
  unfinished g (rs_bs r) <= nb.
Proof. split; [exact (nonstutter_bound_RInv cf decls r r' evs Hinv Hacc)|apply unfinished_le]. Qed.

End BoundClosed.
