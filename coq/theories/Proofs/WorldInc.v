(* C09, the /showIncludes filter of src/task.rs (Model/Proc.v). *)
From Coq Require Import String.
From N2 Require Import Model.All Proofs.DbSpec Proofs.WorldSpec.
From Coq Require Import Lia.

(* ------------------------------------------------------------------------------------ *)
(* split_on / join_nl *)

Lemma split_on_nosep sep : forall a cur, ~ In sep a -> split_on sep cur a = [rev cur ++ a].
Proof.
  induction a as [|c a IH]; intros cur Hn; cbn [split_on].
  - now rewrite app_nil_r.
  - destruct (c =? sep)%N eqn:E.
    + apply N.eqb_eq in E. subst. exfalso. apply Hn. now left.
    + rewrite IH by (intro; apply Hn; now right). cbn [rev]. now rewrite <- app_assoc.
Qed.

Lemma split_on_sep sep : forall a cur r, ~ In sep a ->
  split_on sep cur (a ++ sep :: r) = (rev cur ++ a) :: split_on sep [] r.
Proof.
  induction a as [|c a IH]; intros cur r Hn; cbn [split_on app].
  - rewrite N.eqb_refl. now rewrite app_nil_r.
  - destruct (c =? sep)%N eqn:E.
    + apply N.eqb_eq in E. subst. exfalso. apply Hn. now left.
    + rewrite IH by (intro; apply Hn; now right). cbn [rev]. now rewrite <- app_assoc.
Qed.

Lemma split_on_lines_nosep sep : forall l cur, ~ In sep cur ->
  Forall (fun x => ~ In sep x) (split_on sep cur l).
Proof.
  induction l as [|c l IH]; intros cur Hn; cbn [split_on].
  - constructor; [|constructor]. now rewrite <- in_rev.
  - destruct (c =? sep)%N eqn:E.
    + constructor; [now rewrite <- in_rev|]. apply IH. intros [].
    + apply IH. intros [H|H]; [|now apply Hn]. subst. now rewrite N.eqb_refl in E.
Qed.

Lemma lines_nosep o : Forall (fun x => ~ In 10%N x) (lines o).
Proof. apply split_on_lines_nosep. intros []. Qed.

Lemma lines_join ls : ls <> [] -> Forall (fun x => ~ In 10%N x) ls -> lines (join_nl ls) = ls.
Proof.
  unfold lines. induction ls as [|l ls IH]; intros Hne Hf; [congruence|].
  inversion Hf as [|? ? Hl Hls]; subst.
  destruct ls as [|l' ls].
  - cbn [join_nl]. now rewrite split_on_nosep.
  - change (join_nl (l :: l' :: ls)) with (l ++ 10%N :: join_nl (l' :: ls)).
    rewrite split_on_sep by assumption. cbn [rev app]. f_equal. apply IH; [discriminate|assumption].
Qed.

Lemma join_nl_snoc k l :
  join_nl (k ++ [l]) = join_nl k ++ (match k with [] => [] | _ => [10%N] end) ++ l.
Proof.
  induction k as [|x k IH]; [reflexivity|].
  destruct k as [|y k].
  - reflexivity.
  - change (join_nl ((x :: y :: k) ++ [l])) with (x ++ [10%N] ++ join_nl ((y :: k) ++ [l])).
    rewrite IH. change (join_nl (x :: y :: k)) with (x ++ [10%N] ++ join_nl (y :: k)).
    now rewrite <- !app_assoc.
Qed.

(* ------------------------------------------------------------------------------------ *)
(* strip_prefix *)

Lemma strip_prefix_spec : forall pre l p, strip_prefix pre l = Some p <-> l = pre ++ p.
Proof.
  induction pre as [|c pre IH]; intros l p; cbn [strip_prefix app].
  - split; [now intros [= ->] | now intros ->].
  - destruct l as [|d l]; [split; discriminate|].
    destruct (c =? d)%N eqn:E.
    + apply N.eqb_eq in E. subst d. rewrite IH. split; [now intros -> | now intros [= ->]].
    + split; [discriminate|]. intros [= <- _]. now rewrite N.eqb_refl in E.
Qed.

(* ------------------------------------------------------------------------------------ *)
(* the fold *)

Definition kept (ls : list bytes) : list bytes := filter (fun l => negb (is_note l)) ls.

Definition nonempty {A} (l : list A) : bool := match l with [] => false | _ => true end.

Lemma si_step_note incs out seen l p : strip_prefix note_prefix l = Some p ->
  si_step true (incs, out, seen) l = (include_payload p :: incs, out, seen).
Proof. intros E. unfold si_step. now rewrite E. Qed.

Lemma si_step_keep incs out seen l : strip_prefix note_prefix l = None ->
  si_step true (incs, out, seen) l = (incs, out ++ (if seen then [10%N] else []) ++ l, true).
Proof. intros E. unfold si_step. now rewrite E. Qed.

Lemma si_fold : forall ls incs k out seen, out = join_nl k -> seen = nonempty k ->
  fold_left (si_step true) ls (incs, out, seen) =
  (rev (map include_payload (note_payloads ls)) ++ incs, join_nl (k ++ kept ls), nonempty (k ++ kept ls)).
Proof.
  induction ls as [|l ls IH]; intros incs k out seen Ho Hs.
  - cbn. rewrite app_nil_r. now subst.
  - cbn [fold_left note_payloads kept filter]. unfold is_note.
    destruct (strip_prefix note_prefix l) as [p|] eqn:E.
    + rewrite (si_step_note _ _ _ _ _ E). cbn [negb]. rewrite (IH _ k) by assumption.
      cbn [map rev]. now rewrite <- app_assoc.
    + rewrite (si_step_keep _ _ _ _ E). cbn [negb].
      rewrite (IH _ (k ++ [l])).
      * fold (kept ls). now rewrite <- app_assoc.
      * subst. rewrite join_nl_snoc. now destruct k.
      * now destruct k.
Qed.

Lemma showincludes_eq o :
  extract_showincludes o = (map include_payload (note_payloads (lines o)), join_nl (kept (lines o))).
Proof.
  unfold extract_showincludes, extract_showincludes_gen. fold (lines o).
  rewrite (si_fold _ _ []) by reflexivity. cbn [app]. now rewrite app_nil_r, rev_involutive.
Qed.

Lemma showincludes_filter : forall o,
  snd (extract_showincludes o) = join_nl (filter (fun l => negb (is_note l)) (lines o)) /\
  (forall l, In l (lines (snd (extract_showincludes o))) -> strip_prefix note_prefix l = None) /\
  fst (extract_showincludes o) = map include_payload (note_payloads (lines o)).
Proof.
  intros o. rewrite showincludes_eq. cbn [fst snd]. split; [reflexivity|]. split; [|reflexivity].
  intros l Hl. fold (kept (lines o)) in Hl. destruct (kept (lines o)) as [|x k] eqn:Ek.
  - cbn in Hl. destruct Hl as [<-|[]]. reflexivity.
  - rewrite lines_join in Hl.
    + rewrite <- Ek in Hl. unfold kept in Hl. apply filter_In in Hl as [_ Hl].
      unfold is_note in Hl. now destruct (strip_prefix note_prefix l).
    + discriminate.
    + rewrite <- Ek. unfold kept. apply Forall_forall. intros y Hy. apply filter_In in Hy as [Hy _].
      pose proof (lines_nosep o) as Hf. rewrite Forall_forall in Hf. now apply Hf.
Qed.

Lemma note_payloads_spec : forall ls p,
  In p (note_payloads ls) <-> exists l, In l ls /\ l = note_prefix ++ p.
Proof.
  induction ls as [|l ls IH]; intros p; cbn [note_payloads].
  - split; [intros [] | intros (l & [] & _)].
  - destruct (strip_prefix note_prefix l) as [q|] eqn:E.
    + apply strip_prefix_spec in E. cbn [In]. rewrite IH. split.
      * intros [<-|(l' & Hl & E')]; [exists l; split; [now left|assumption]|].
        exists l'. split; [now right|assumption].
      * intros (l' & [<-|Hl] & E').
        -- left. rewrite E in E'. now apply app_inv_head in E'.
        -- right. now exists l'.
    + rewrite IH. split.
      * intros (l' & Hl & E'). exists l'. split; [now right|assumption].
      * intros (l' & [<-|Hl] & E'); [|now exists l'].
        apply strip_prefix_spec in E'. congruence.
Qed.

(* ------------------------------------------------------------------------------------ *)
(* include_payload *)

Lemma drop_spaces_spec : forall l,
  exists n, l = repeat 32%N n ++ drop_spaces l /\
            (forall c r, drop_spaces l = c :: r -> c <> 32%N).
Proof.
  induction l as [|c l (n & E & H)].
  - exists 0. split; [reflexivity|]. cbn. discriminate.
  - destruct (N.eq_dec c 32) as [->|Hc].
    + exists (S n). change (drop_spaces (32%N :: l)) with (drop_spaces l).
      split; [cbn [repeat app]; now rewrite <- E | exact H].
    + exists 0. assert (Ed : drop_spaces (c :: l) = c :: l).
      { cbn [drop_spaces]. destruct c as [|p]; [reflexivity|].
        repeat (destruct p as [p|p|]; try reflexivity). congruence. }
      rewrite Ed. split; [reflexivity|]. now intros c' r [= <- _].
Qed.

Lemma strip_cr_spec l :
  (exists r, l = r ++ [13%N] /\ strip_cr l = r) \/ ((forall r, l <> r ++ [13%N]) /\ strip_cr l = l).
Proof.
  unfold strip_cr. destruct (rev l) as [|c r] eqn:E.
  - right. split; [|reflexivity]. intros r ->. rewrite rev_app_distr in E. discriminate.
  - assert (El : l = rev r ++ [c]) by (rewrite <- (rev_involutive l), E; reflexivity).
    destruct (N.eq_dec c 13) as [->|Hc].
    + left. exists (rev r). now split.
    + right. split.
      * intros r' ->. rewrite rev_app_distr in E. cbn in E. congruence.
      * destruct c as [|p]; [reflexivity|].
        repeat (destruct p as [p|p|]; try reflexivity). congruence.
Qed.

Lemma rev_13_suffix : forall a b r, b <> [] -> rev (a ++ b) = 13%N :: r -> exists r', rev b = 13%N :: r'.
Proof.
  intros a b r Hb E. rewrite rev_app_distr in E.
  destruct (rev b) as [|c rb] eqn:Eb.
  - apply (f_equal (@rev N)) in Eb. rewrite rev_involutive in Eb. cbn in Eb. congruence.
  - cbn in E. injection E as -> _. now exists rb.
Qed.

Lemma removelast_rev (l : bytes) c r : rev l = c :: r -> removelast l = rev r.
Proof.
  intros E. assert (El : l = rev r ++ [c]) by (rewrite <- (rev_involutive l), E; reflexivity).
  rewrite El. now rewrite removelast_last.
Qed.

Lemma include_payload_spec : forall inc,
  (drop_spaces inc = [] -> include_payload inc = inc) /\
  (drop_spaces inc <> [] -> include_payload inc = strip_cr (drop_spaces inc)).
Proof.
  intros inc. destruct (drop_spaces_spec inc) as (n & E & Hd). split.
  - intros E0. unfold include_payload. rewrite E0. rewrite E0, app_nil_r in E.
    destruct (rev inc) as [|c r] eqn:Er; [reflexivity|].
    assert (Hc : In c inc) by (rewrite in_rev, Er; now left).
    rewrite E in Hc. apply repeat_spec in Hc. subst c. reflexivity.
  - intros Hne. unfold include_payload.
    destruct (drop_spaces inc) as [|d ds] eqn:Ed; [congruence|].
    unfold strip_cr.
    destruct (rev inc) as [|c r] eqn:Er.
    + rewrite E, rev_app_distr in Er. apply app_eq_nil in Er as [Er _].
      apply (f_equal (@rev N)) in Er. rewrite rev_involutive in Er. discriminate.
    + rewrite E, rev_app_distr in Er.
      destruct (rev (d :: ds)) as [|c' r'] eqn:Er'.
      * apply (f_equal (@rev N)) in Er'. rewrite rev_involutive in Er'. discriminate.
      * cbn [app] in Er. injection Er as -> _.
        destruct (N.eq_dec c 13) as [->|Hc].
        -- now apply removelast_rev with (c := 13%N).
        -- destruct c as [|p]; [reflexivity|].
           repeat (destruct p as [p|p|]; try reflexivity). congruence.
Qed.

Lemma showincludes_pinned_refuted :
  extract_showincludes_pinned [10%N] = ([], []) /\ lines [10%N] = [[]; []] /\
  extract_showincludes [10%N] = ([], [10%N]).
Proof. vm_compute. repeat split. Qed.
