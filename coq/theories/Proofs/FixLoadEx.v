(* Instance for Props/C14Start.v: a file used twice by one step, a file used as an explicit and as
   a validation input of another. *)
From Coq Require Import String.
From N2 Require Import Model.All Proofs.EvalFiles Proofs.FixLoadSpec.

Definition dx_text : bytes :=
  ln "rule r" (ln "  command = c" (ln "build a: r x x | y" (ln "build b: r a x || z |@ a" []))).

Example dependents_example :
  exists l, load_manifest true 1 [] (bs "build.ninja") dx_text = Ok l /\
    map lf_name (l_files l) = [bs "build.ninja"; bs "x"; bs "y"; bs "a"; bs "z"; bs "b"] /\
    map lb_ins (l_builds l) = [[1; 1; 2]; [3; 1; 4; 3]] /\
    map lf_dependents (l_files l) = [[]; [0; 0; 1]; [0]; [1; 1]; [1]; []] /\
    dependents_from (l_builds l) 0 1 = [0; 0; 1] /\ dependents_from (l_builds l) 0 3 = [1; 1].
Proof. eexists. split; [vm_compute; reflexivity|]. repeat split. Qed.

From N2 Require Import Proofs.SchedSpec Proofs.DbSpec Proofs.WorldSpec Proofs.JointSpec.
From N2 Require Import Proofs.SchedRunFinal Proofs.AuditFindings Proofs.FixLoadGraph.

(* the two views of the same manifest *)
Example loaded_graph_example :
  exists l, load_manifest true 1 [] (bs "build.ninja") dx_text = Ok l /\
    sched_graph_of l =
      mkGraph [mkBuild [1; 1; 2] 2 1 0 [3] false None; mkBuild [3; 1; 4; 3] 2 0 1 [5] false None]
              [mkFile (bs "build.ninja") None []; mkFile (bs "x") None [0; 0; 1]; mkFile (bs "y") None [0];
               mkFile (bs "a") (Some 0) [1; 1]; mkFile (bs "z") None [1]; mkFile (bs "b") (Some 1) []] /\
    world_graph_of l =
      mkWGraph [mkWBuild [bs "x"; bs "x"; bs "y"] 2 1 0 [bs "a"] (Some (bs "c")) None;
                mkWBuild [bs "a"; bs "x"; bs "z"; bs "a"] 2 0 1 [bs "b"] (Some (bs "c")) None]
               [(bs "a", 0); (bs "b", 1)].
Proof. eexists. split; [vm_compute; reflexivity|]. split; vm_compute; reflexivity. Qed.

(* a scheduler theorem applied to an arbitrary loaded manifest: no graph premise is left *)
Theorem at_most_once_loaded depth fs name text l : load_manifest true depth fs name text = Ok l ->
  forall cf decls, cf_graph cf = sched_graph_of l ->
  forall r tr r' b, reachable cf decls r -> accepts cf r tr = Some r' -> (starts_of b tr <= 1)%nat.
Proof.
  intros H cf decls E. apply C01_at_most_once_reachable_closed. rewrite E.
  exact (proj1 (loaded_graph_ok depth fs name text l H)).
Qed.
