(* Db log: what the reader makes of the records the writer emitted. *)
From N2 Require Import Model.All Proofs.DbSpec Proofs.DbCodec Proofs.DbWriter.
From Coq Require Import Lia.

(* read_build's decision, on names *)
Fixpoint ub (producer : bytes -> option nat) (outs : list bytes) (u : option nat) (obs : bool) : option nat :=
  match outs with
  | [] => u
  | o :: rest =>
    if obs then ub producer rest u true else
    match producer o with
    | None => ub producer rest None true
    | Some b =>
      match u with
      | None => ub producer rest (Some b) false
      | Some u' => if (u' =? b)%nat then ub producer rest u false else ub producer rest None true
      end
    end
  end.

Lemma unique_build_spec producer tbl ids names : Forall2 (id_name tbl) ids names ->
  forall u obs, unique_build true producer tbl ids u obs = Ok (ub producer names u obs).
Proof.
  induction 1 as [|i nm ids names Hi _ IH]; intros u obs; [reflexivity|].
  cbn [unique_build ub]. destruct obs; [apply IH|].
  unfold id_name in Hi. rewrite Hi.
  destruct (producer nm) as [b|]; [|apply IH].
  destruct u as [u'|]; [|apply IH].
  destruct (u' =? b)%nat; apply IH.
Qed.

Lemma names_of_spec tbl ids names : Forall2 (id_name tbl) ids names -> names_of tbl ids = Ok names.
Proof.
  induction 1 as [|i nm ids names Hi _ IH]; [reflexivity|].
  cbn [names_of]. unfold id_name in Hi. rewrite Hi, IH. reflexivity.
Qed.

Definition is_b (producer : bytes -> option nat) (b : nat) (o : bytes) : bool :=
  match producer o with Some b' => (b' =? b)%nat | None => false end.

Lemma ub_obsolete producer outs : ub producer outs None true = None.
Proof. induction outs as [|o outs IH]; [reflexivity | exact IH]. Qed.

Lemma ub_some producer b : forall outs u,
  ub producer outs (Some u) false = Some b <-> u = b /\ forallb (is_b producer b) outs = true.
Proof.
  induction outs as [|o outs IH]; intros u; cbn [ub forallb].
  - split; [intros [= ->]; now split | intros [-> _]; reflexivity].
  - unfold is_b at 1. destruct (producer o) as [b'|].
    + destruct (Nat.eqb_spec u b') as [->|Hne].
      * rewrite IH. split.
        -- intros [-> H]. rewrite Nat.eqb_refl. now split.
        -- intros [-> H]. apply andb_true_iff in H as [_ H]. now split.
      * rewrite ub_obsolete. split; [discriminate|].
        intros [-> H]. apply andb_true_iff in H as [H _]. apply Nat.eqb_eq in H. congruence.
    + rewrite ub_obsolete. split; [discriminate | intros [_ H]; discriminate].
Qed.

Lemma ub_applicable producer w b : ub producer (w_outs w) None false = Some b <-> applicable producer w b = true.
Proof.
  unfold applicable. destruct (w_outs w) as [|o outs]; [split; discriminate|].
  change (forallb _ (o :: outs)) with (forallb (is_b producer b) (o :: outs)).
  cbn [ub forallb]. unfold is_b at 1. destruct (producer o) as [b'|].
  - rewrite ub_some. split.
    + intros [-> H]. now rewrite Nat.eqb_refl.
    + intros H. apply andb_true_iff in H as [H1 H2]. apply Nat.eqb_eq in H1. now split.
  - rewrite ub_obsolete. split; discriminate.
Qed.

Lemma applicable_spec producer w b : applicable producer w b = true ->
  w_outs w <> [] /\ forall o, In o (w_outs w) -> producer o = Some b.
Proof.
  unfold applicable. destruct (w_outs w) as [|o outs]; [discriminate|]. intros H.
  split; [discriminate|]. intros o' Hin. rewrite forallb_forall in H. specialize (H o' Hin).
  destruct (producer o') as [b'|]; [|discriminate]. apply Nat.eqb_eq in H. now subst.
Qed.

Lemma loaded_for_step {V} producer w b (v : V) l :
  assoc_nat b (match ub producer (w_outs w) None false with Some b' => (b', v) :: l | None => l end) =
  if applicable producer w b then Some v else assoc_nat b l.
Proof.
  destruct (ub producer (w_outs w) None false) as [b'|] eqn:E.
  - cbn [assoc_nat]. destruct (Nat.eqb_spec b b') as [->|Hne].
    + apply ub_applicable in E. now rewrite E.
    + destruct (applicable producer w b) eqn:Ea; [|reflexivity].
      apply ub_applicable in Ea. congruence.
  - destruct (applicable producer w b) eqn:Ea; [|reflexivity].
    apply ub_applicable in Ea. congruence.
Qed.

(* ------------------------------------------------------------------------------------ *)
(* apply_records *)

Lemma apply_paths : forall news fixed producer rest st,
  apply_records fixed producer (map DPath news ++ rest) st =
  apply_records fixed producer rest (mkLoaded (ld_tbl st ++ news) (ld_builds st)).
Proof.
  induction news as [|nm news IH]; intros fixed producer rest st.
  - cbn [map app]. rewrite app_nil_r. now destruct st.
  - cbn [map app apply_records]. rewrite IH. cbn [ld_tbl ld_builds]. now rewrite <- app_assoc.
Qed.

Lemma apply_app : forall fixed producer rs1 rs2 st st1,
  apply_records fixed producer rs1 st = Ok st1 ->
  apply_records fixed producer (rs1 ++ rs2) st = apply_records fixed producer rs2 st1.
Proof.
  induction rs1 as [|r rs1 IH]; intros rs2 st st1 H.
  - cbn in H. injection H as <-. reflexivity.
  - cbn [app apply_records] in *. destruct r as [name|outs deps hash]; [now apply IH|].
    destruct (unique_build fixed producer (ld_tbl st) outs None false) as [u| | | |]; try discriminate.
    cbn [bind] in *.
    destruct (names_of (ld_tbl st) deps) as [dn| | | |]; try discriminate.
    cbn [bind] in *. destruct u; now apply IH.
Qed.

Lemma apply_write producer news oids dids w rest st :
  Forall2 (id_name (ld_tbl st ++ news)) oids (w_outs w) ->
  Forall2 (id_name (ld_tbl st ++ news)) dids (w_deps w) ->
  apply_records true producer (map DPath news ++ DBuild oids dids (w_hash w) :: rest) st =
  apply_records true producer rest
    (mkLoaded (ld_tbl st ++ news)
       (match ub producer (w_outs w) None false with
        | Some b => (b, (w_deps w, w_hash w)) :: ld_builds st
        | None => ld_builds st
        end)).
Proof.
  intros Ho Hd. rewrite apply_paths. cbn [apply_records ld_tbl ld_builds].
  rewrite (unique_build_spec producer _ _ _ Ho), (names_of_spec _ _ _ Hd). cbn [bind].
  destruct (ub producer (w_outs w) None false); reflexivity.
Qed.

Lemma apply_wrecs producer : forall tbl ws recs tbl', wrecs tbl ws recs tbl' -> forall st m, ld_tbl st = tbl ->
  exists st' j, apply_records true producer (firstn m recs) st = Ok st' /\
    (forall b, loaded_for st' b = last_applicable producer (firstn j ws) b (loaded_for st b)) /\
    (length recs <= m -> firstn j ws = ws /\ ld_tbl st' = tbl').
Proof.
  induction 1 as [tbl | tbl w ws news oids dids recs tbl' Ho Hd Hw IH]; intros st m Htbl.
  - exists st, 0. rewrite firstn_nil. repeat split; assumption.
  - subst tbl. destruct (Nat.le_gt_cases m (length news)) as [L|L].
    + exists (mkLoaded (ld_tbl st ++ firstn m news) (ld_builds st)), 0.
      rewrite firstn_app, map_length. replace (m - length news) with 0 by lia.
      cbn [firstn]. rewrite firstn_map, apply_paths.
      split; [reflexivity|]. split; [reflexivity|].
      intros Hlen. rewrite app_length, map_length in Hlen. cbn [length] in Hlen. lia.
    + destruct m as [|m]; [lia|].
      replace (S m) with (length (map DPath news) + S (m - length news)) by (rewrite map_length; lia).
      rewrite firstn_app_2. cbn [firstn]. rewrite (apply_write producer news oids dids w _ st Ho Hd).
      set (st1 := mkLoaded _ _).
      destruct (IH st1 (m - length news) eq_refl) as (st' & j & E & Hl & Hfull).
      exists st', (S j). split; [exact E|]. split.
      * intros b. rewrite Hl. cbn [firstn last_applicable]. f_equal.
        unfold loaded_for, st1. cbn [ld_builds]. apply loaded_for_step.
      * intros Hlen. rewrite app_length in Hlen. cbn [length] in Hlen.
        destruct Hfull as [Hj Ht]; [lia|]. cbn [firstn]. now rewrite Hj.
Qed.

(* ------------------------------------------------------------------------------------ *)
(* last_applicable *)

Lemma last_applicable_some producer b : forall ws acc v, last_applicable producer ws b acc = Some v ->
  acc = Some v \/ exists w, In w ws /\ applicable producer w b = true /\ v = (w_deps w, w_hash w).
Proof.
  induction ws as [|w ws IH]; intros acc v H; cbn [last_applicable] in H; [now left|].
  apply IH in H as [H|(w' & Hin & Ha & Hv)].
  - destruct (applicable producer w b) eqn:Ea; [|now left].
    right. exists w. injection H as <-. repeat split; [now left | exact Ea].
  - right. exists w'. repeat split; [now right | exact Ha | exact Hv].
Qed.

Lemma last_applicable_keeps producer b : forall ws acc, acc <> None -> last_applicable producer ws b acc <> None.
Proof.
  induction ws as [|w ws IH]; intros acc H; cbn [last_applicable]; [exact H|].
  apply IH. destruct (applicable producer w b); [discriminate | exact H].
Qed.

Lemma In_firstn {A} (x : A) n l : In x (firstn n l) -> In x l.
Proof. intros H. rewrite <- (firstn_skipn n l). apply in_or_app. now left. Qed.
