(* C10 round trip, stage 2 (and the block part of stage 3): path lists, "= value" definitions,
   indented blocks, and the build statement. *)
From Coq Require Import String.
From N2 Require Import Model.All Proofs.ParseSpell Proofs.ParseRoundScan Proofs.ParseRound1.

(* ------------------------------------------------------------------------------------ *)
(* first bytes *)

Lemma plain_true_spec c :
  plain_char true c = true ->
  c <> 0%N /\ c <> 10%N /\ c <> 32%N /\ c <> 36%N /\ c <> 58%N /\ c <> 124%N.
Proof. intro H. repeat split; intros ->; discriminate H. Qed.

Lemma plain_false_spec c : plain_char false c = true -> c <> 0%N /\ c <> 10%N /\ c <> 36%N.
Proof. intro H. repeat split; intros ->; discriminate H. Qed.

Lemma raw_head path es t :
  spells_eval_raw path es t -> t <> [] -> not_cont_head t ->
  exists c r, t = c :: r /\
    (plain_char path c = true \/ (c = 36%N /\ exists d r', r = d :: r' /\ d <> 10%N)).
Proof.
  intros H Hne Hnc.
  destruct H as [|l es t Hl Hplain Hes|c es t Hc Hes|n es t Hes Hnext
                 |v es t Hv Hsimple Hes Hnext|v es t Hv Hbrace Hes].
  - contradiction.
  - destruct l as [|x l]; [contradiction|]. cbn [forallb] in Hplain.
    apply andb_true_iff in Hplain as [Hx _]. exists x, (l ++ t). split; [reflexivity | now left].
  - exists 36%N, (c :: t). split; [reflexivity|]. right. split; [reflexivity|].
    exists c, t. split; [reflexivity|]. destruct Hc as [->|[->| ->]]; discriminate.
  - exfalso. eapply Hnc. reflexivity.
  - destruct v as [|x v]; [contradiction|]. cbn [forallb] in Hsimple.
    apply andb_true_iff in Hsimple as [Hx _]. apply simple_not in Hx.
    exists 36%N, ((x :: v) ++ t). split; [reflexivity|]. right. split; [reflexivity|].
    exists x, (v ++ t). split; [reflexivity | tauto].
  - exists 36%N, (123%N :: v ++ 125%N :: t). split; [reflexivity|]. right. split; [reflexivity|].
    eexists _, _. split; [reflexivity | discriminate].
Qed.

Lemma path_head e t :
  path_text e t ->
  exists c r, t = c :: r /\ c <> 32%N /\ c <> 58%N /\ c <> 124%N /\ c <> 10%N /\
              (c = 36%N -> exists d r', r = d :: r' /\ d <> 10%N).
Proof.
  intros ((es0 & Hraw & _) & Hne & Hnc).
  destruct (raw_head true es0 t Hraw Hne Hnc) as (c & r & -> & [Hp|(-> & Hd)]).
  - apply plain_true_spec in Hp as (_ & H10 & H32 & H36 & H58 & H124).
    exists c, r. repeat split; auto. intro E. contradiction.
  - exists 36%N, r. repeat split; try discriminate. intros _. exact Hd.
Qed.

Lemma value_head e v :
  value_text e v -> v <> [] ->
  exists c r, v = c :: r /\ c <> 32%N /\ c <> 10%N /\
              (c = 36%N -> exists d r', r = d :: r' /\ d <> 10%N).
Proof.
  intros ((es0 & Hraw & _) & Hnc & H32) Hne.
  destruct (raw_head false es0 v Hraw Hne Hnc) as (c & r & -> & [Hp|(-> & Hd)]).
  - apply plain_false_spec in Hp as (_ & H10 & H36).
    exists c, r. repeat split; auto.
    + intros ->. eapply H32. reflexivity.
    + intro E. contradiction.
  - exists 36%N, r. repeat split; try discriminate. intros _. exact Hd.
Qed.

Lemma spells_eval_nil path e : spells_eval path e [] -> atoms e = [].
Proof.
  intros (es0 & Hraw & <-). remember (@nil N) as t0 eqn:E0.
  destruct Hraw as [|l es t Hl Hplain Hes| | | |]; try discriminate E0; [reflexivity|].
  apply app_eq_nil in E0 as [-> _]. congruence.
Qed.

Lemma ident_head k : ident k -> exists c r, k = c :: r /\ is_ident_char c = true.
Proof.
  intros (Hne & Hall). destruct k as [|c r]; [contradiction|]. cbn [forallb] in Hall.
  apply andb_true_iff in Hall as [Hc _]. eauto.
Qed.

Lemma ident_char_not c :
  is_ident_char c = true -> c <> 0%N /\ c <> 9%N /\ c <> 10%N /\ c <> 32%N /\ c <> 35%N /\ c <> 36%N.
Proof. intro H. repeat split; intros ->; discriminate H. Qed.

(* white space, then a non-identifier byte: no identifier byte at the front *)
Lemma ws_then_head w c Y : ws w -> is_ident_char c = false ->
  exists c' r, w ++ c :: Y = c' :: r /\ is_ident_char c' = false.
Proof.
  intros Hw Hc. destruct Hw; cbn [app]; eexists _, _; (split; [reflexivity|]); auto.
Qed.

Lemma ws_stop_of c r : c <> 32%N -> c <> 36%N -> ws_stop (c :: r).
Proof. intros H32 H36. exists c, r. split; [reflexivity|]. split; [exact H32|]. intro E. contradiction. Qed.

Lemma paths_stop_ws_stop X : paths_stop X -> ws_stop X.
Proof.
  intros (c & r & -> & Hc). apply ws_stop_of; destruct Hc as [->|[->| ->]]; discriminate.
Qed.

Lemma paths_ws_stop es r X : spells_paths es r -> paths_stop X -> ws_stop (r ++ X).
Proof.
  intros Hr HX. destruct Hr as [|e es t w r Ht Hw Hne Hr].
  - now apply paths_stop_ws_stop.
  - destruct (path_head e t Ht) as (c & tr & -> & H32 & _ & _ & _ & H36).
    exists c, (tr ++ (w ++ r) ++ X). split; [now norm_app|]. split; [exact H32|].
    intro E. destruct (H36 E) as (d & r' & -> & Hd). eexists _, _. split; [reflexivity | exact Hd].
Qed.

Lemma value_ws_stop e v Y : value_text e v -> ws_stop (v ++ 10%N :: Y).
Proof.
  intro Hv. destruct v as [|c0 r0] eqn:Ev.
  - apply ws_stop_of; discriminate.
  - rewrite <- Ev in *. destruct (value_head e v Hv ltac:(rewrite Ev; discriminate)) as (c & r & -> & H32 & _ & H36).
    exists c, (r ++ 10%N :: Y). split; [reflexivity|]. split; [exact H32|].
    intro E. destruct (H36 E) as (d & r' & -> & Hd). eexists _, _. split; [reflexivity | exact Hd].
Qed.

(* ------------------------------------------------------------------------------------ *)
(* variable lists up to atoms *)

Definition vl_atoms (l : varlist) : list (bytes * list eatom) :=
  map (fun kv => (fst kv, atoms (snd kv))) l.

Lemma vl_atoms_insert k v v' : atoms v = atoms v' -> forall a b,
  vl_atoms a = vl_atoms b -> vl_atoms (insert_b k v a) = vl_atoms (insert_b k v' b).
Proof.
  intros Hv. induction a as [|[k1 v1] a IH]; intros [|[k2 v2] b] E; cbn [vl_atoms map fst snd] in E;
    try discriminate.
  - cbn [insert_b vl_atoms map fst snd]. now rewrite Hv.
  - injection E as Ek Ev Er. subst k2. cbn [insert_b].
    destruct (bytes_eqb k1 k); cbn [vl_atoms map fst snd].
    + rewrite Hv. f_equal. exact Er.
    + rewrite Ev. f_equal. apply IH. exact Er.
Qed.

Lemma map_norm_of_atoms (a b : list evalstring) :
  map atoms a = map atoms b -> map norm_eval a = map norm_eval b.
Proof.
  intro H. unfold norm_eval. rewrite <- !(map_map atoms of_atoms). now rewrite H.
Qed.

Lemma map_atoms_length (a b : list evalstring) : map atoms a = map atoms b -> length a = length b.
Proof. intro H. apply (f_equal (@length _)) in H. now rewrite !map_length in H. Qed.

Lemma norm_vars_of_atoms a b : vl_atoms a = vl_atoms b -> norm_vars a = norm_vars b.
Proof.
  intro H. unfold norm_vars, norm_eval.
  assert (E : forall l, map (fun kv : bytes * evalstring => (fst kv, of_atoms (atoms (snd kv)))) l =
                        map (fun ka : bytes * list eatom => (fst ka, of_atoms (snd ka))) (vl_atoms l)).
  { intro l. unfold vl_atoms. rewrite map_map. reflexivity. }
  now rewrite !E, H.
Qed.

Section R2.
  Variable buf : bytes.
  Variable L0 : Z.
  Hypothesis Hno13 : ~ In 13%N buf.

  Notation at_ := (at_ buf L0).

  (* -------------------------------------------------------------------------------- *)
  (* path lists *)

  Definition paths_post (acc es : list evalstring) (pre txt X : bytes)
             (v : list evalstring) (s' : scanner) : Prop :=
    at_ s' (pre ++ txt) X /\ exists es', v = acc ++ es' /\ map atoms es' = map atoms es.

  Lemma paths_at es txt : spells_paths es txt -> forall pre X s f acc,
    paths_stop X -> at_ s pre (txt ++ X) ->
    pc (paths_post acc es pre txt X) (read_paths_to f s acc).
  Proof.
    induction 1 as [|e es t w r Ht Hw Hne Hr IH]; intros pre X s f acc HX Hat;
      (destruct f as [|f]; [apply pc_fuel|]); cbn [read_paths_to].
    - destruct HX as (c & r & -> & Hc). cbn [app] in Hat.
      rewrite (peek_at _ _ _ _ _ _ Hat). cbn [sbind].
      replace ((c =? 58) || (c =? 124) || (c =? 10))%N with true
        by (destruct Hc as [->|[->| ->]]; reflexivity).
      apply pc_ok. split; [now rewrite app_nil_r|]. exists []. rewrite app_nil_r. auto.
    - destruct (path_head e t Ht) as (c & tr & Et & H32 & H58 & H124 & H10 & H36).
      assert (Hat1 : at_ s pre (c :: tr ++ w ++ r ++ X)).
      { eapply at_eq; [exact Hat | reflexivity|]. rewrite Et. now norm_app. }
      rewrite (peek_at _ _ _ _ _ _ Hat1). cbn [sbind].
      apply N.eqb_neq in H58, H124, H10. rewrite H58, H124, H10. cbn [orb]. cbv iota.
      assert (Hstop : eval_stop true (w ++ r ++ X)).
      { destruct Hw as (_ & [->|(w' & ->)]).
        - destruct es as [|e2 es]; [|exfalso; apply Hne; [discriminate | reflexivity]].
          inversion Hr; subst. cbn [app].
          destruct HX as (c0 & r0 & -> & Hc0). exists c0, r0. split; [reflexivity|].
          destruct Hc0 as [->|[->| ->]]; [right | right | left]; auto.
        - eexists _, _. split; [reflexivity|]. right. auto. }
      assert (Hat2 : at_ s pre (t ++ w ++ r ++ X)) by (eapply at_eq; [exact Hat | reflexivity | now norm_app]).
      destruct Ht as (Hsp & Htne & _).
      eapply pc_bind;
        [apply (read_eval_spells buf L0 Hno13 true e t pre _ s f Hsp Htne Hstop Hat2) | apply pc_fuel|].
      intros e' s1 (H1 & Hatoms & _). cbv beta.
      eapply pc_bind;
        [apply (p_skip_spaces_at buf L0 Hno13 w (proj1 Hw) _ _ s1 f H1 (paths_ws_stop es r X Hr HX))
        | apply pc_fuel|].
      intros ? s2 H2. cbv beta.
      eapply pc_mono; [apply (IH _ X s2 f (acc ++ [e']) HX H2)|].
      intros v0 s3 (H3 & es' & -> & Hes'). split.
      + eapply at_eq; [exact H3 | now norm_app | reflexivity].
      + exists (e' :: es'). split; [now norm_app|]. cbn [map]. now rewrite Hatoms, Hes'.
  Qed.

  Lemma upaths_at es w txt pre X s f acc :
    ws w -> spells_paths es txt -> paths_stop X -> at_ s pre (w ++ txt ++ X) ->
    pc (paths_post acc es pre (w ++ txt) X) (read_unevaluated_paths_to f s acc).
  Proof.
    intros Hw Hes HX Hat. unfold read_unevaluated_paths_to.
    eapply pc_bind;
      [apply (p_skip_spaces_at buf L0 Hno13 w Hw _ _ s f Hat (paths_ws_stop es txt X Hes HX)) | apply pc_fuel|].
    intros ? s1 H1. cbv beta.
    eapply pc_mono; [apply (paths_at es txt Hes _ X s1 f acc HX H1)|].
    intros v0 s2 (H2 & Hv). split; [|exact Hv].
    eapply at_eq; [exact H2 | now norm_app | reflexivity].
  Qed.

  Lemma wpaths_at es B pre X s f acc :
    spells_wpaths es B -> paths_stop X -> at_ s pre (B ++ X) ->
    pc (paths_post acc es pre B X) (read_unevaluated_paths_to f s acc).
  Proof.
    intros (w & p & -> & Hw & Hp) HX Hat.
    apply upaths_at; auto. eapply at_eq; [exact Hat | reflexivity | now norm_app].
  Qed.

  (* -------------------------------------------------------------------------------- *)
  (* "= value\n" *)

  Lemma vardef_at fixed e w2 v pre X s f :
    ws w2 -> value_text e v -> at_ s pre (61%N :: w2 ++ v ++ 10%N :: X) ->
    pc (fun v' s' => atoms v' = atoms e /\ at_ s' (pre ++ 61%N :: w2 ++ v ++ [10%N]) X)
       (read_vardef fixed f s).
  Proof.
    intros Hw2 Hv Hat. unfold read_vardef.
    assert (Hat0 : at_ s pre ([] ++ 61%N :: w2 ++ v ++ 10%N :: X)) by exact Hat.
    eapply pc_bind;
      [apply (p_skip_spaces_at buf L0 Hno13 [] ws_nil _ _ s f Hat0); apply ws_stop_of; discriminate
      | apply pc_fuel|].
    intros ? s1 H1. cbv beta. rewrite app_nil_r in H1.
    destruct (expect_at _ _ _ _ _ _ H1) as (s2 & E2 & H2). rewrite E2. cbn [sbind].
    eapply pc_bind;
      [apply (p_skip_spaces_at buf L0 Hno13 w2 Hw2 _ _ s2 f H2 (value_ws_stop e v X Hv)) | apply pc_fuel|].
    intros ? s3 H3. cbv beta.
    destruct v as [|c0 r0] eqn:Ev.
    - cbn [app] in H3. rewrite (peek_at _ _ _ _ _ _ H3). cbn [sbind].
      change (10 =? 10)%N with true. cbv iota.
      destruct (expect_at _ _ _ _ _ _ H3) as (s4 & E4 & H4). rewrite E4. cbn [sbind].
      apply pc_ok. split.
      + destruct Hv as (Hsp & _). symmetry. now apply (spells_eval_nil false).
      + eapply at_eq; [exact H4 | now norm_app | reflexivity].
    - rewrite <- Ev in *. assert (Hne : v <> []) by (rewrite Ev; discriminate).
      destruct (value_head e v Hv Hne) as (c & r & Ecr & _ & H10 & _).
      assert (H3' : at_ s3 ((pre ++ [61%N]) ++ w2) (c :: r ++ 10%N :: X))
        by (eapply at_eq; [exact H3 | reflexivity | rewrite Ecr; reflexivity]).
      rewrite (peek_at _ _ _ _ _ _ H3'). cbn [sbind].
      apply N.eqb_neq in H10. rewrite H10.
      assert (Hstop : eval_stop false (10%N :: X)) by (eexists _, _; split; [reflexivity | now left]).
      destruct Hv as (Hsp & _).
      destruct (read_eval_spells buf L0 Hno13 false e v _ (10%N :: X) s3 f Hsp Hne Hstop H3)
        as [E|(v' & s4 & E & H4 & Hatoms & _)]; rewrite E; [apply pc_fuel|].
      destruct (expect_at _ _ _ _ _ _ H4) as (s5 & E5 & H5). rewrite E5. cbn [sbind].
      apply pc_ok. split; [exact Hatoms|].
      eapply at_eq; [exact H5 | now norm_app | reflexivity].
  Qed.

  (* -------------------------------------------------------------------------------- *)
  (* indented blocks *)

  Definition no_space_head (X : bytes) : Prop := exists c r, X = c :: r /\ c <> 32%N.

  Definition fold_vars (bl : list (bytes * evalstring)) (acc : varlist) : varlist :=
    fold_left (fun a kv => insert_b (fst kv) (snd kv) a) bl acc.

  Lemma block_at fixed valid bl t : spells_block valid bl t -> forall pre X s f acc acc0,
    no_space_head X -> at_ s pre (t ++ X) -> vl_atoms acc = vl_atoms acc0 ->
    pc (fun vs s' => at_ s' (pre ++ t) X /\ vl_atoms vs = vl_atoms (fold_vars bl acc0))
       (read_scoped_vars fixed f valid s acc).
  Proof.
    induction 1 as [|n k w1 w2 e v bl t Hk Hvalid Hw1 Hw2 Hv Hbl IH];
      intros pre X s f acc acc0 HX Hat Hacc;
      (destruct f as [|f]; [apply pc_fuel|]); cbn [read_scoped_vars].
    - destruct HX as (c & r & -> & Hc). cbn [app] in Hat.
      rewrite (peek_at _ _ _ _ _ _ Hat). cbn [sbind].
      apply N.eqb_neq in Hc. rewrite Hc. cbn [negb].
      apply pc_ok. split; [now rewrite app_nil_r | exact Hacc].
    - destruct (ident_head k Hk) as (kc & kr & Ek & Hkc).
      pose proof (ident_char_not kc Hkc) as (_ & _ & _ & Hkc32 & _).
      set (Y := w1 ++ 61%N :: w2 ++ v ++ 10%N :: t ++ X).
      assert (Hat1 : at_ s pre (32%N :: repeat 32%N n ++ kc :: kr ++ Y)).
      { eapply at_eq; [exact Hat | reflexivity|]. subst Y. rewrite Ek. cbn [repeat]. now norm_app. }
      rewrite (peek_at _ _ _ _ _ _ Hat1). cbn [sbind]. change (negb (32 =? 32)%N) with false. cbv iota.
      eapply pc_bind;
        [apply (sc_skip_spaces_at buf L0 Hno13 (S n) pre kc (kr ++ Y) s f Hat1 Hkc32) | apply pc_fuel|].
      intros ? s1 H1. cbv beta.
      destruct (ws_then_head w1 61%N (w2 ++ v ++ 10%N :: t ++ X) Hw1 eq_refl) as (yc & yr & EY & Hyc).
      fold Y in EY.
      assert (H1' : at_ s1 (pre ++ repeat 32%N (S n)) (k ++ yc :: yr))
        by (eapply at_eq; [exact H1 | reflexivity | rewrite <- EY, Ek; reflexivity]).
      destruct Hk as (Hkne & Hkall).
      eapply pc_bind;
        [apply (read_ident_gen_at buf L0 Hno13 is_ident_char (bs "failed to scan ident") k _ yc yr s1 f
                                  Hkne Hkall H1' Hyc)
        | apply pc_fuel|].
      intros name s2 (-> & H2). cbv beta. rewrite Hvalid. cbn [negb].
      assert (H2' : at_ s2 ((pre ++ repeat 32%N (S n)) ++ k) (w1 ++ 61%N :: w2 ++ v ++ 10%N :: t ++ X))
        by (eapply at_eq; [exact H2 | reflexivity | rewrite <- EY; reflexivity]).
      eapply pc_bind;
        [apply (p_skip_spaces_at buf L0 Hno13 w1 Hw1 _ _ s2 f H2'); apply ws_stop_of; discriminate
        | apply pc_fuel|].
      intros ? s3 H3. cbv beta.
      eapply pc_bind; [apply (vardef_at fixed e w2 v _ (t ++ X) s3 f Hw2 Hv H3) | apply pc_fuel|].
      intros v' s4 (Hatoms & H4). cbv beta.
      eapply pc_mono;
        [apply (IH _ X s4 f (insert_b k v' acc) (insert_b k e acc0) HX H4
                   (vl_atoms_insert k v' e Hatoms acc acc0 Hacc))|].
      intros vs s5 (H5 & Hvs). split; [|exact Hvs].
      eapply at_eq; [exact H5 | cbn [repeat]; now norm_app | reflexivity].
  Qed.
End R2.

(* ------------------------------------------------------------------------------------ *)
(* the build statement.  [read_build] cut into its phases (same text as the model, see
   [read_build_unfold]) *)

Definition rb5 (fixed : bool) (fuel : nat) (rule : bytes) (line : Z) (outs : list evalstring) (eo : nat)
           (ins : list evalstring) (ei ii oi vi : nat) (s : scanner) : sres statement :=
  sdo (_, s) <- sc_expect 10%N s;
  sdo (vs, s) <- read_scoped_vars fixed fuel (fun _ => true) s [];
  SOk (SBuild (mkPBuild rule line outs eo ins ei ii oi vi vs)) s.

Definition rb4 (fixed : bool) (fuel : nat) (rule : bytes) (line : Z) (outs : list evalstring) (eo : nat)
           (ins : list evalstring) (ei ii oi : nat) (s : scanner) : sres statement :=
  sdo (p, s) <- sc_peek s;
  sdo (ins, s) <- (if (p =? 124)%N then
                     sdo (_, s) <- sc_read s;
                     sdo (_, s) <- sc_expect 64%N s;
                     read_unevaluated_paths_to fuel s ins
                   else SOk ins s);
  rb5 fixed fuel rule line outs eo ins ei ii oi (length ins - oi - ii - ei)%nat s.

Definition rb3 (fixed : bool) (fuel : nat) (rule : bytes) (line : Z) (outs : list evalstring) (eo : nat)
           (ins : list evalstring) (ei ii : nat) (s : scanner) : sres statement :=
  sdo (p, s) <- sc_peek s;
  sdo (ins, s) <- (if (p =? 124)%N then
                     sdo (_, s) <- sc_read s;
                     sdo (p2, s) <- sc_peek s;
                     if (p2 =? 64)%N then sdo (_, s) <- sc_back s; SOk ins s
                     else sdo (_, s) <- sc_expect 124%N s; read_unevaluated_paths_to fuel s ins
                   else SOk ins s);
  rb4 fixed fuel rule line outs eo ins ei ii (length ins - ii - ei)%nat s.

Definition rb2 (fixed : bool) (fuel : nat) (rule : bytes) (line : Z) (outs : list evalstring) (eo : nat)
           (ins : list evalstring) (ei : nat) (s : scanner) : sres statement :=
  sdo (p, s) <- sc_peek s;
  sdo (ins, s) <- (if (p =? 124)%N then
                     sdo (_, s) <- sc_read s;
                     sdo (p2, s) <- sc_peek s;
                     if ((p2 =? 124) || (p2 =? 64))%N then sdo (_, s) <- sc_back s; SOk ins s
                     else read_unevaluated_paths_to fuel s ins
                   else SOk ins s);
  rb3 fixed fuel rule line outs eo ins ei (length ins - ei)%nat s.

Definition rb1 (fixed : bool) (fuel : nat) (line : Z) (outs : list evalstring) (eo : nat) (s : scanner)
  : sres statement :=
  sdo (_, s) <- sc_expect 58%N s;
  sdo (_, s) <- p_skip_spaces fuel s;
  sdo (rule, s) <- read_ident fuel s;
  sdo (ins, s) <- read_unevaluated_paths_to fuel s [];
  rb2 fixed fuel rule line outs eo ins (length ins) s.

Lemma read_build_unfold fixed fuel s :
  read_build fixed fuel s =
  sbind (read_unevaluated_paths_to fuel s [])
        (fun outs s1 =>
           sbind (sc_peek s1)
                 (fun p s2 =>
                    sbind (if (p =? 124)%N
                           then sbind (sc_read s2) (fun _ s => read_unevaluated_paths_to fuel s outs)
                           else SOk outs s2)
                          (fun outs2 s3 => rb1 fixed fuel (sline s) outs2 (length outs) s3))).
Proof. reflexivity. Qed.

Lemma vtail_head v T : spells_vtail v T -> T = [10%N] \/ exists r, T = 124%N :: 64%N :: r.
Proof. destruct 1; [now left | right; eauto]. Qed.

Lemma otail_head o v T :
  spells_otail o v T ->
  T = [10%N] \/ (exists r, T = 124%N :: 64%N :: r) \/ (exists r, T = 124%N :: 124%N :: r).
Proof.
  destruct 1 as [v T Hv|o v B T HB Hv].
  - destruct (vtail_head v T Hv) as [->|H]; auto.
  - right. right. eauto.
Qed.

Lemma itail_head i o v T : spells_itail i o v T -> T = [10%N] \/ exists r, T = 124%N :: r.
Proof.
  destruct 1 as [o v T Ho|i o v B T HB Ho _ _].
  - destruct (otail_head o v T Ho) as [->|[(r & ->)|(r & ->)]]; eauto.
  - right. eauto.
Qed.

Lemma paths_stop_10 Y : paths_stop (10%N :: Y).
Proof. eexists _, _. split; [reflexivity | auto]. Qed.
Lemma paths_stop_124 Y : paths_stop (124%N :: Y).
Proof. eexists _, _. split; [reflexivity | auto]. Qed.
Lemma paths_stop_58 Y : paths_stop (58%N :: Y).
Proof. eexists _, _. split; [reflexivity | auto]. Qed.

Section R2b.
  Variable buf : bytes.
  Variable L0 : Z.
  Hypothesis Hno13 : ~ In 13%N buf.

  Notation at_ := (at_ buf L0).

  Variable fixed : bool.
  Variables (rule : bytes) (line : Z) (outs : list evalstring) (eo : nat).
  Variables (bl : list (bytes * evalstring)) (Bt X : bytes).
  Hypothesis Hbl : spells_block (fun _ => true) bl Bt.
  Hypothesis HX : no_space_head X.

  Lemma rb5_at ins ei ii oi vi pre s f :
    at_ s pre (10%N :: Bt ++ X) ->
    pc (fun st s' => at_ s' (pre ++ 10%N :: Bt) X /\
                     exists vs, st = SBuild (mkPBuild rule line outs eo ins ei ii oi vi vs) /\
                                vl_atoms vs = vl_atoms (block_vars bl))
       (rb5 fixed f rule line outs eo ins ei ii oi vi s).
  Proof.
    intro Hat. unfold rb5.
    destruct (expect_at _ _ _ _ _ _ Hat) as (s1 & E1 & H1). rewrite E1. cbn [sbind].
    eapply pc_bind;
      [apply (block_at buf L0 Hno13 fixed (fun _ => true) bl Bt Hbl _ X s1 f [] [] HX H1 eq_refl)
      | apply pc_fuel|].
    intros vs s2 (H2 & Hvs). cbv beta. apply pc_ok. split.
    - eapply at_eq; [exact H2 | now norm_app | reflexivity].
    - exists vs. split; [reflexivity | exact Hvs].
  Qed.

  Lemma rb4_at v T : spells_vtail v T -> forall ins ei ii oi pre s f,
    length ins = ei + ii + oi -> at_ s pre (T ++ Bt ++ X) ->
    pc (fun st s' => at_ s' (pre ++ T ++ Bt) X /\
                     exists v' vs,
                       st = SBuild (mkPBuild rule line outs eo (ins ++ v') ei ii oi (length v') vs) /\
                       map atoms v' = map atoms v /\ vl_atoms vs = vl_atoms (block_vars bl))
       (rb4 fixed f rule line outs eo ins ei ii oi s).
  Proof.
    intros Hv ins ei ii oi pre s f Hlen Hat. unfold rb4.
    destruct Hv as [|v B HB].
    - cbn [app] in Hat. rewrite (peek_at _ _ _ _ _ _ Hat). cbn [sbind].
      change (10 =? 124)%N with false. cbv iota. cbn [sbind].
      replace (length ins - oi - ii - ei) with 0 by lia.
      eapply pc_mono; [apply (rb5_at ins ei ii oi 0 pre s f Hat)|].
      intros st s' (H' & vs & -> & Hvs). split; [exact H'|].
      exists [], vs. rewrite app_nil_r. auto.
    - cbn [app] in Hat. rewrite (peek_at _ _ _ _ _ _ Hat). cbn [sbind].
      change (124 =? 124)%N with true. cbv iota.
      destruct (read_at _ _ _ _ _ _ Hat) as (s1 & E1 & H1). rewrite E1. cbn [sbind].
      destruct (expect_at _ _ _ _ _ _ H1) as (s2 & E2 & H2). rewrite E2. cbn [sbind].
      assert (H2' : at_ s2 ((pre ++ [124%N]) ++ [64%N]) (B ++ 10%N :: Bt ++ X))
        by (eapply at_eq; [exact H2 | reflexivity | now norm_app]).
      eapply pc_bind;
        [apply (wpaths_at buf L0 Hno13 v B _ _ s2 f ins HB (paths_stop_10 _) H2') | apply pc_fuel|].
      intros ins2 s3 (H3 & v' & -> & Hv'). cbv beta.
      replace (length (ins ++ v') - oi - ii - ei) with (length v') by (rewrite app_length; lia).
      eapply pc_mono; [apply (rb5_at (ins ++ v') ei ii oi (length v') _ s3 f H3)|].
      intros st s' (H' & vs & -> & Hvs). split.
      + eapply at_eq; [exact H' | now norm_app | reflexivity].
      + exists v', vs. auto.
  Qed.

  Lemma rb3_at o v T : spells_otail o v T -> forall ins ei ii pre s f,
    length ins = ei + ii -> at_ s pre (T ++ Bt ++ X) ->
    pc (fun st s' => at_ s' (pre ++ T ++ Bt) X /\
                     exists o' v' vs,
                       st = SBuild (mkPBuild rule line outs eo (ins ++ o' ++ v') ei ii
                                             (length o') (length v') vs) /\
                       map atoms o' = map atoms o /\ map atoms v' = map atoms v /\
                       vl_atoms vs = vl_atoms (block_vars bl))
       (rb3 fixed f rule line outs eo ins ei ii s).
  Proof.
    intros Ho ins ei ii pre s f Hlen Hat. unfold rb3.
    destruct Ho as [v T Hv|o v B T HB Hv].
    - (* no order-only section *)
      match goal with |- pc ?Q _ =>
        assert (Hk : forall s1, at_ s1 pre (T ++ Bt ++ X) ->
                     pc Q (rb4 fixed f rule line outs eo ins ei ii (length ins - ii - ei) s1))
      end.
      { intros s1 H1. replace (length ins - ii - ei) with 0 by lia.
        eapply pc_mono; [apply (rb4_at v T Hv ins ei ii 0 pre s1 f ltac:(lia) H1)|].
        intros st s' (H' & v' & vs & -> & Hv' & Hvs). split; [exact H'|].
        exists [], v', vs. cbn [app length]. auto. }
      destruct (vtail_head v T Hv) as [ET|(r & ET)]; rewrite ET in Hat; cbn [app] in Hat.
      + rewrite (peek_at _ _ _ _ _ _ Hat). cbn [sbind]. change (10 =? 124)%N with false. cbv iota.
        cbn [sbind]. apply Hk. rewrite ET. exact Hat.
      + rewrite (peek_at _ _ _ _ _ _ Hat). cbn [sbind]. change (124 =? 124)%N with true. cbv iota.
        destruct (read_at _ _ _ _ _ _ Hat) as (s1 & E1 & H1). rewrite E1. cbn [sbind].
        rewrite (peek_at _ _ _ _ _ _ H1). cbn [sbind]. change (64 =? 64)%N with true. cbv iota.
        destruct (back_at _ _ Hno13 _ _ _ _ H1) as (s2 & E2 & H2). rewrite E2. cbn [sbind].
        apply Hk. rewrite ET. exact H2.
    - (* "||" paths *)
      cbn [app] in Hat. rewrite (peek_at _ _ _ _ _ _ Hat). cbn [sbind].
      change (124 =? 124)%N with true. cbv iota.
      destruct (read_at _ _ _ _ _ _ Hat) as (s1 & E1 & H1). rewrite E1. cbn [sbind].
      rewrite (peek_at _ _ _ _ _ _ H1). cbn [sbind]. change (124 =? 64)%N with false. cbv iota.
      destruct (expect_at _ _ _ _ _ _ H1) as (s2 & E2 & H2). rewrite E2. cbn [sbind].
      assert (Hstop : paths_stop (T ++ Bt ++ X)).
      { destruct (vtail_head v T Hv) as [->|(r & ->)]; [apply paths_stop_10 | apply paths_stop_124]. }
      assert (H2' : at_ s2 ((pre ++ [124%N]) ++ [124%N]) (B ++ T ++ Bt ++ X))
        by (eapply at_eq; [exact H2 | reflexivity | now norm_app]).
      eapply pc_bind;
        [apply (wpaths_at buf L0 Hno13 o B _ _ s2 f ins HB Hstop H2') | apply pc_fuel|].
      intros ins2 s3 (H3 & o' & -> & Ho'). cbv beta.
      replace (length (ins ++ o') - ii - ei) with (length o') by (rewrite app_length; lia).
      eapply pc_mono;
        [apply (rb4_at v T Hv (ins ++ o') ei ii (length o') _ s3 f ltac:(rewrite app_length; lia) H3)|].
      intros st s' (H' & v' & vs & -> & Hv' & Hvs). split.
      + eapply at_eq; [exact H' | now norm_app | reflexivity].
      + exists o', v', vs. rewrite <- app_assoc. auto.
  Qed.

  Lemma rb2_at i o v T : spells_itail i o v T -> forall ins ei pre s f,
    length ins = ei -> at_ s pre (T ++ Bt ++ X) ->
    pc (fun st s' => at_ s' (pre ++ T ++ Bt) X /\
                     exists i' o' v' vs,
                       st = SBuild (mkPBuild rule line outs eo (ins ++ i' ++ o' ++ v') ei
                                             (length i') (length o') (length v') vs) /\
                       map atoms i' = map atoms i /\ map atoms o' = map atoms o /\
                       map atoms v' = map atoms v /\ vl_atoms vs = vl_atoms (block_vars bl))
       (rb2 fixed f rule line outs eo ins ei s).
  Proof.
    intros Hi ins ei pre s f Hlen Hat. unfold rb2.
    destruct Hi as [o v T Ho|i o v B T HB Ho Hn124 Hn64].
    - (* no implicit section *)
      match goal with |- pc ?Q _ =>
        assert (Hk : forall s1, at_ s1 pre (T ++ Bt ++ X) ->
                     pc Q (rb3 fixed f rule line outs eo ins ei (length ins - ei) s1))
      end.
      { intros s1 H1. replace (length ins - ei) with 0 by lia.
        eapply pc_mono; [apply (rb3_at o v T Ho ins ei 0 pre s1 f ltac:(lia) H1)|].
        intros st s' (H' & o' & v' & vs & -> & Ho' & Hv' & Hvs). split; [exact H'|].
        exists [], o', v', vs. cbn [app length]. auto. }
      destruct (otail_head o v T Ho) as [ET|[(r & ET)|(r & ET)]]; rewrite ET in Hat; cbn [app] in Hat.
      + rewrite (peek_at _ _ _ _ _ _ Hat). cbn [sbind]. change (10 =? 124)%N with false. cbv iota.
        cbn [sbind]. apply Hk. rewrite ET. exact Hat.
      + rewrite (peek_at _ _ _ _ _ _ Hat). cbn [sbind]. change (124 =? 124)%N with true. cbv iota.
        destruct (read_at _ _ _ _ _ _ Hat) as (s1 & E1 & H1). rewrite E1. cbn [sbind].
        rewrite (peek_at _ _ _ _ _ _ H1). cbn [sbind].
        change ((64 =? 124) || (64 =? 64))%N with true. cbv iota.
        destruct (back_at _ _ Hno13 _ _ _ _ H1) as (s2 & E2 & H2). rewrite E2. cbn [sbind].
        apply Hk. rewrite ET. exact H2.
      + rewrite (peek_at _ _ _ _ _ _ Hat). cbn [sbind]. change (124 =? 124)%N with true. cbv iota.
        destruct (read_at _ _ _ _ _ _ Hat) as (s1 & E1 & H1). rewrite E1. cbn [sbind].
        rewrite (peek_at _ _ _ _ _ _ H1). cbn [sbind].
        change ((124 =? 124) || (124 =? 64))%N with true. cbv iota.
        destruct (back_at _ _ Hno13 _ _ _ _ H1) as (s2 & E2 & H2). rewrite E2. cbn [sbind].
        apply Hk. rewrite ET. exact H2.
    - (* "|" paths *)
      cbn [app] in Hat. rewrite (peek_at _ _ _ _ _ _ Hat). cbn [sbind].
      change (124 =? 124)%N with true. cbv iota.
      destruct (read_at _ _ _ _ _ _ Hat) as (s1 & E1 & H1). rewrite E1. cbn [sbind].
      assert (Hstop : paths_stop (T ++ Bt ++ X)).
      { destruct (otail_head o v T Ho) as [->|[(r & ->)|(r & ->)]];
          [apply paths_stop_10 | apply paths_stop_124 | apply paths_stop_124]. }
      assert (Hhd : exists c r, B ++ T = c :: r).
      { destruct (B ++ T) as [|c r] eqn:E; [|eauto]. apply app_eq_nil in E as [_ ->].
        destruct (otail_head o v [] Ho) as [E|[(r & E)|(r & E)]]; discriminate. }
      destruct Hhd as (c & r & Ecr).
      assert (H1' : at_ s1 (pre ++ [124%N]) (c :: r ++ Bt ++ X)).
      { eapply at_eq; [exact H1 | reflexivity|].
        change (c :: r ++ Bt ++ X) with ((c :: r) ++ Bt ++ X). rewrite <- Ecr. now norm_app. }
      rewrite (peek_at _ _ _ _ _ _ H1'). cbn [sbind].
      assert (Hc : ((c =? 124) || (c =? 64))%N = false).
      { apply orb_false_iff. split; apply N.eqb_neq; intros ->; [eapply Hn124 | eapply Hn64]; exact Ecr. }
      rewrite Hc.
      assert (H1'' : at_ s1 (pre ++ [124%N]) (B ++ T ++ Bt ++ X))
        by (eapply at_eq; [exact H1 | reflexivity | now norm_app]).
      eapply pc_bind;
        [apply (wpaths_at buf L0 Hno13 i B _ _ s1 f ins HB Hstop H1'') | apply pc_fuel|].
      intros ins2 s3 (H3 & i' & -> & Hi'). cbv beta.
      replace (length (ins ++ i') - ei) with (length i') by (rewrite app_length; lia).
      eapply pc_mono;
        [apply (rb3_at o v T Ho (ins ++ i') ei (length i') _ s3 f ltac:(rewrite app_length; lia) H3)|].
      intros st s' (H' & o' & v' & vs & -> & Ho' & Hv' & Hvs). split.
      + eapply at_eq; [exact H' | now norm_app | reflexivity].
      + exists i', o', v', vs. rewrite <- app_assoc. auto.
  Qed.
End R2b.

Section R2c.
  Variable buf : bytes.
  Variable L0 : Z.
  Hypothesis Hno13 : ~ In 13%N buf.

  Notation at_ := (at_ buf L0).

  (* S2: the build statement, entered behind "build" and its white space *)
  Lemma build_at fixed d L bl Bt X pre s f :
    spells_build_line d L -> spells_block (fun _ => true) bl Bt -> no_space_head X ->
    at_ s pre (L ++ Bt ++ X) ->
    pc (fun st s' => at_ s' (pre ++ L ++ Bt) X /\
                     exists b, st = SBuild b /\
                               norm_build b = norm_build (decl_build d (L0 + nlz pre) (block_vars bl)))
       (read_build fixed f s).
  Proof.
    intros (P & IO & w & I1 & T & -> & HP & HIO & Hw & Hrule & HI1 & HT & Hnih) Hbl HX Hat.
    rewrite read_build_unfold.
    pose proof Hat as (_ & _ & _ & Hline). rewrite Hline.
    set (Y := 58%N :: w ++ d_rule d ++ I1 ++ T ++ Bt ++ X).
    assert (Hstop1 : paths_stop (IO ++ Y)).
    { destruct HIO; [apply paths_stop_58 | apply paths_stop_124]. }
    assert (Hat1 : at_ s pre ([] ++ P ++ IO ++ Y))
      by (eapply at_eq; [exact Hat | reflexivity | subst Y; now norm_app]).
    eapply pc_bind;
      [apply (upaths_at buf L0 Hno13 (d_outs d) [] P pre _ s f [] ws_nil HP Hstop1 Hat1) | apply pc_fuel|].
    intros outs1 s1 (H1 & o' & -> & Ho'). cbv beta. cbn [app] in H1 |- *.
    (* implicit outputs *)
    match goal with |- pc ?Q _ =>
      assert (Hk : forall io' s3, map atoms io' = map atoms (d_iouts d) ->
                     at_ s3 (pre ++ P ++ IO) Y ->
                     pc Q (rb1 fixed f (L0 + nlz pre) (o' ++ io') (length o') s3))
    end.
    { intros io' s3 Hio' H3. unfold rb1. subst Y.
      destruct (expect_at _ _ _ _ _ _ H3) as (s4 & E4 & H4). rewrite E4. cbn [sbind].
      destruct (ident_head _ Hrule) as (rc & rr & Erule & Hrc).
      pose proof (ident_char_not rc Hrc) as (_ & _ & _ & Hrc32 & _ & Hrc36).
      assert (Hws : ws_stop (d_rule d ++ I1 ++ T ++ Bt ++ X))
        by (rewrite Erule; apply ws_stop_of; assumption).
      eapply pc_bind; [apply (p_skip_spaces_at buf L0 Hno13 w Hw _ _ s4 f H4 Hws) | apply pc_fuel|].
      intros ? s5 H5. cbv beta.
      assert (Hhd : exists c r, I1 ++ T = c :: r /\ is_ident_char c = false).
      { destruct (I1 ++ T) as [|c r] eqn:E; [|exists c, r; split; [reflexivity | exact Hnih]].
        apply app_eq_nil in E as [_ ->]. destruct (itail_head _ _ _ [] HT) as [E|(r & E)]; discriminate. }
      destruct Hhd as (c & r & Ecr & Hc).
      assert (H5' : at_ s5 (((pre ++ P ++ IO) ++ [58%N]) ++ w) (d_rule d ++ c :: r ++ Bt ++ X)).
      { eapply at_eq; [exact H5 | reflexivity|].
        change (c :: r ++ Bt ++ X) with ((c :: r) ++ Bt ++ X). rewrite <- Ecr. now norm_app. }
      destruct Hrule as (Hrne & Hrall).
      eapply pc_bind;
        [apply (read_ident_gen_at buf L0 Hno13 is_ident_char (bs "failed to scan ident") (d_rule d) _ c
                                  (r ++ Bt ++ X) s5 f Hrne Hrall H5' Hc)
        | apply pc_fuel|].
      intros name s6 (-> & H6). cbv beta.
      assert (Hstop : paths_stop (T ++ Bt ++ X)).
      { destruct (itail_head _ _ _ T HT) as [->|(r' & ->)]; [apply paths_stop_10 | apply paths_stop_124]. }
      assert (H6' : at_ s6 ((((pre ++ P ++ IO) ++ [58%N]) ++ w) ++ d_rule d) (I1 ++ T ++ Bt ++ X)).
      { eapply at_eq; [exact H6 | reflexivity|].
        change (c :: r ++ Bt ++ X) with ((c :: r) ++ Bt ++ X). rewrite <- Ecr. now norm_app. }
      eapply pc_bind;
        [apply (wpaths_at buf L0 Hno13 (d_ins d) I1 _ _ s6 f [] HI1 Hstop H6') | apply pc_fuel|].
      intros ins1 s7 (H7 & i1' & -> & Hi1'). cbv beta. cbn [app].
      eapply pc_mono;
        [apply (rb2_at buf L0 Hno13 fixed (d_rule d) (L0 + nlz pre)%Z (o' ++ io') (length o') bl Bt X Hbl HX
                       _ _ _ T HT i1' (length i1') _ s7 f eq_refl H7)|].
      intros st s' (H' & i' & oo' & v' & vs & -> & Hi' & Hoo' & Hv' & Hvs). split.
      - eapply at_eq; [exact H' | now norm_app | reflexivity].
      - eexists. split; [reflexivity|]. unfold norm_build, decl_build.
        cbn [pb_rule pb_line pb_outs pb_explicit_outs pb_ins pb_explicit_ins pb_implicit_ins
             pb_order_only_ins pb_validation_ins pb_vars].
        rewrite (map_atoms_length _ _ Ho'), (map_atoms_length _ _ Hi1'), (map_atoms_length _ _ Hi'),
                (map_atoms_length _ _ Hoo'), (map_atoms_length _ _ Hv').
        rewrite (norm_vars_of_atoms _ _ Hvs), !map_app.
        rewrite (map_norm_of_atoms _ _ Ho'), (map_norm_of_atoms _ _ Hio'), (map_norm_of_atoms _ _ Hi1'),
                (map_norm_of_atoms _ _ Hi'), (map_norm_of_atoms _ _ Hoo'), (map_norm_of_atoms _ _ Hv').
        reflexivity. }
    destruct HIO as [|io B HB].
    - cbn [app] in H1. subst Y. rewrite (peek_at _ _ _ _ _ _ H1). cbn [sbind].
      change (58 =? 124)%N with false. cbv iota. cbn [sbind].
      specialize (Hk [] s1 eq_refl). rewrite (app_nil_r o') in Hk. apply Hk.
      eapply at_eq; [exact H1 | now norm_app | reflexivity].
    - cbn [app] in H1. rewrite (peek_at _ _ _ _ _ _ H1). cbn [sbind].
      change (124 =? 124)%N with true. cbv iota.
      destruct (read_at _ _ _ _ _ _ H1) as (s2 & E2 & H2). rewrite E2. cbn [sbind].
      eapply pc_bind;
        [apply (wpaths_at buf L0 Hno13 io B _ Y s2 f o' HB (paths_stop_58 _) H2) | apply pc_fuel|].
      intros outs2 s3 (H3 & io' & -> & Hio'). cbv beta.
      apply Hk; [exact Hio'|]. eapply at_eq; [exact H3 | now norm_app | reflexivity].
  Qed.
End R2c.
