(* C06, termination, against an arbitrary environment: whatever verdict the dirtiness check
   gives for each step and however each started command terminates, from every reachable state
   at the top of the loop the acceptor's language contains a run to the return that obeys
   these answers.  The scheduler's own choices (which ready step to examine, which queued
   step to start, which dependent to promote) are the ones the proof makes. *)
From Coq Require Import Lia ZArith List Bool Arith.
From N2 Require Import Model.All Proofs.SchedSpec Proofs.SchedInv Proofs.SchedRunBase
     Proofs.SchedRunStep Proofs.SchedRunCore Proofs.SchedRunAux Proofs.SchedRunRInv
     Proofs.SchedRunThms Proofs.SchedRunFinal Proofs.SchedLive Proofs.SchedBoundSpec Proofs.SchedBound
     Proofs.SchedBoundComplete.
Import ListNotations.

(* the "recorded" flag of a verdict is only ever set for a dirty step in adopt mode *)
Definition rec_ok (cf : config) (r : rstate) : Prop :=
  match rs_ctl r with
  | CVerdict _ v true => v = VDirty /\ cf_adopt cf = true
  | _ => True
  end.

Lemma step_rec_ok cf r e r' : step cf r e r' -> rec_ok cf r'.
Proof.
  intro Hs. unfold rec_ok.
  destruct Hs; cbn [with_bs with_ctl rs_ctl]; auto;
    match goal with Hc : rs_ctl _ = _ |- _ => rewrite Hc end; exact I.
Qed.

Lemma reachable_rec_ok cf decls r : reachable cf decls r -> rec_ok cf r.
Proof.
  induction 1 as [s fl W|r e r' Hr IH Ha|r s fl Hr IH Hc W].
  - exact I.
  - exact (step_rec_ok cf r e r' (accept1_step cf r e r' Ha)).
  - exact I.
Qed.

Section Any.
Variable cf : config.
Variable decls : list (bytes * nat).
Hypothesis Hwf : graph_wf (cf_graph cf).
Hypothesis Hpar : 1 <= cf_parallelism cf.
Notation g := (cf_graph cf).
Notation nb := (length (g_builds (cf_graph cf))).

Variable vd : nat -> verdict.
Variable tm : nat -> term.
(* a step without a command is never found dirty *)
Hypothesis Hvd : forall b, b_phony (get_build g b) = true -> vd b <> VDirty.

(* ---- single events ---- *)

Lemma acc_verdict r b v :
  rs_ctl r = CChecking b -> (v = VDirty -> b_phony (get_build g b) = false) ->
  accept1 cf r (EVerdict b v) = Some (with_ctl r (CVerdict b v false)).
Proof.
  intros Hc Hv. unfold accept1. rewrite Hc, Nat.eqb_refl.
  destruct v; cbn [negb]; rewrite ?andb_false_r; try reflexivity.
  rewrite (Hv eq_refl). reflexivity.
Qed.

Lemma acc_error_return r b rec :
  rs_ctl r = CVerdict b VError rec -> accept1 cf r (EReturn None) = Some (with_ctl r (CReturned None)).
Proof. intro Hc. unfold accept1. rewrite Hc. reflexivity. Qed.

Lemma acc_adopt_record r b :
  rs_ctl r = CVerdict b VDirty false -> cf_adopt cf = true ->
  accept1 cf r (ERecord b) = Some (with_ctl r (CVerdict b VDirty true)).
Proof. intros Hc Ha. unfold accept1. rewrite Hc, Nat.eqb_refl, Ha. reflexivity. Qed.

Lemma acc_adopt_done r b rec s' :
  rs_ctl r = CVerdict b VDirty rec -> cf_adopt cf = true ->
  bs_set (rs_bs r) b (get_build g b) Done = Ok s' ->
  accept1 cf r (ESet b Ready Done) = Some (with_bs r s' CIdle).
Proof. intros Hc Ha Hs. unfold accept1. rewrite Hc, Nat.eqb_refl, Ha, Hs. destruct rec; reflexivity. Qed.

Lemma acc_enqueue r b s' :
  rs_ctl r = CVerdict b VDirty false -> cf_adopt cf = false ->
  bs_set (rs_bs r) b (get_build g b) Queued = Ok s' ->
  accept1 cf r (ESet b Ready Queued) =
  Some (match pool_update (bs_pools s') (pool_name (get_build g b)) (ppush_q b) with
        | Some ps => with_bs r (set_pools s' ps) CIdle
        | None => with_bs r s' (CVerdict b VError false)
        end).
Proof.
  intros Hc Ha Hs. unfold accept1. rewrite Hc, Nat.eqb_refl, Ha, Hs. cbn [negb andb].
  unfold ppush_q, set_pools.
  destruct (pool_update (bs_pools s') (pool_name (get_build g b)) _); reflexivity.
Qed.

Lemma acc_failed r b rec s' :
  rs_ctl r = CFinished b TFailure rec -> rs_failures_left r <> Some 1 ->
  bs_set (rs_bs r) b (get_build g b) Failed = Ok s' ->
  accept1 cf r (ESet b Running Failed) =
  Some (mkRS s' (rs_running r) (S (rs_failed r)) (option_map pred (rs_failures_left r)) (rs_tasks_run r) CIdle).
Proof.
  intros Hc Hfl Hs. unfold accept1. rewrite Hc, Nat.eqb_refl, Hs.
  destruct (rs_failures_left r) as [[|[|n]]|]; try reflexivity; try (destruct rec; reflexivity).
  all: try contradiction.
  all: destruct rec; try reflexivity; exfalso; apply Hfl; reflexivity.
Qed.

Lemma acc_budget r b rec :
  rs_ctl r = CFinished b TFailure rec -> rs_failures_left r = Some 1 ->
  accept1 cf r (EReturn (Some false)) = Some (with_ctl r (CReturned (Some false))).
Proof. intros Hc Hfl. unfold accept1. rewrite Hc, Hfl. destruct rec; reflexivity. Qed.

Lemma acc_interrupted r b rec :
  rs_ctl r = CFinished b TInterrupted rec ->
  accept1 cf r (EReturn (Some false)) = Some (with_ctl r (CReturned (Some false))).
Proof. intro Hc. unfold accept1. rewrite Hc. destruct rec; reflexivity. Qed.

(* ---- continuations ---- *)

(* either the loop returns after at most n more events, or it is back at the top after at most n
   events, c of them ESet *)
Definition cont_ok (r : rstate) (n c : nat) : Prop :=
  (exists evs ok r', accepts cf r (evs ++ [EReturn ok]) = Some r' /\ rs_ctl r' = CReturned ok /\
     Forall (obeys vd tm) evs /\ count_ev is_stutter evs = 0 /\ length evs <= n) \/
  (exists evs r2, accepts cf r evs = Some r2 /\ rs_ctl r2 = CIdle /\ count_ev is_set evs = c /\
     Forall (obeys vd tm) evs /\ count_ev is_stutter evs = 0 /\ length evs <= n).

Lemma cont_weaken r n n' c : n <= n' -> cont_ok r n c -> cont_ok r n' c.
Proof.
  intros Hn [(evs & ok & r' & A & Hc & Ob & St & Len)|(evs & r2 & A & Hc & S1 & Ob & St & Len)].
  - left. exists evs, ok, r'. repeat split; auto. lia.
  - right. exists evs, r2. repeat split; auto. lia.
Qed.

Lemma cont_prepend r e r1 n c :
  accept1 cf r e = Some r1 -> obeys vd tm e -> is_stutter e = false ->
  cont_ok r1 n c -> cont_ok r (S n) ((if is_set e then 1 else 0) + c).
Proof.
  intros H Ob1 St1 [(evs & ok & r' & A & Hc & Ob & St & Len)|(evs & r2 & A & Hc & S1 & Ob & St & Len)].
  - left. exists (e :: evs), ok, r'. cbn [app accepts length]. rewrite H, count_ev_cons, St1.
    repeat split; auto. lia.
  - right. exists (e :: evs), r2. cbn [accepts length]. rewrite H, !count_ev_cons, St1.
    repeat split; auto. lia.
Qed.

Local Ltac obeys_tac := repeat constructor; cbn [obeys]; auto.
Local Ltac fin_cont := repeat split; auto; try (cbn; lia); try obeys_tac.

(* the loop returns at once *)
Lemma cont_return_now r ok r' n c :
  accept1 cf r (EReturn ok) = Some r' -> rs_ctl r' = CReturned ok -> cont_ok r n c.
Proof.
  intros A Hc. left. exists [], ok, r'. cbn [app accepts]. rewrite A.
  repeat split; auto. cbn. lia.
Qed.

(* one ESet brings the loop back to the top *)
Lemma cont_one_set r b p st r2 n :
  accept1 cf r (ESet b p st) = Some r2 -> rs_ctl r2 = CIdle -> cont_ok r (S n) 1.
Proof.
  intros A Hc. right. exists [ESet b p st], r2. cbn [accepts]. rewrite A.
  fin_cont.
Qed.

(* after the verdict *)
Lemma verdict_cont r b v rec :
  RInv cf decls r -> rec_ok cf r -> rs_ctl r = CVerdict b v rec -> cont_ok r 2 1.
Proof.
  intros Hinv Hrec Hc. pose proof (ri_ctl _ _ _ Hinv) as K.
  unfold rec_ok in Hrec. rewrite Hc in K, Hrec. cbn [ctl_ok] in K. destruct K as (L & Hph & D).
  assert (Hset : v <> VError -> forall st, st <> Running -> exists s', bs_set (rs_bs r) b (get_build g b) st = Ok s').
  { intros Hv st Hst. destruct D as [(E & _)|(Ev & _)]; [|contradiction].
    apply bs_set_total_nopool; [| |exact Hst]; rewrite E; discriminate. }
  destruct v.
  - (* clean *)
    destruct rec; [destruct Hrec; discriminate|].
    destruct (Hset ltac:(discriminate) Done ltac:(discriminate)) as [s' Hs].
    eapply cont_one_set; [exact (acc_clean_done cf r b s' Hc Hs)|reflexivity].
  - (* dirty *)
    destruct (cf_adopt cf) eqn:Ea.
    + destruct (Hset ltac:(discriminate) Done ltac:(discriminate)) as [s' Hs].
      destruct rec.
      * eapply cont_one_set; [exact (acc_adopt_done r b true s' Hc Ea Hs)|reflexivity].
      * apply (cont_prepend r (ERecord b) _ 1 1 (acc_adopt_record r b Hc Ea) I eq_refl).
        eapply cont_one_set; [exact (acc_adopt_done (with_ctl r (CVerdict b VDirty true)) b true s' eq_refl Ea Hs)|reflexivity].
    + destruct rec; [destruct Hrec; discriminate|].
      destruct (Hset ltac:(discriminate) Queued ltac:(discriminate)) as [s' Hs].
      pose proof (acc_enqueue r b s' Hc Ea Hs) as A.
      destruct (pool_update (bs_pools s') (pool_name (get_build g b)) (ppush_q b)) as [ps|] eqn:EU.
      * eapply cont_one_set; [exact A|reflexivity].
      * (* unknown pool: the run ends with an error *)
        left. exists [ESet b Ready Queued], None. eexists. cbn [app accepts]. rewrite A.
        erewrite acc_error_return; [|reflexivity].
        fin_cont.
  - (* the check failed *)
    eapply cont_return_now; [exact (acc_error_return r b rec Hc)|reflexivity].
Qed.

(* the step being examined gets the verdict the environment says *)
Lemma checking_cont r b : RInv cf decls r -> rs_ctl r = CChecking b -> cont_ok r 3 1.
Proof.
  intros Hinv Hc.
  assert (Hv : vd b = VDirty -> b_phony (get_build g b) = false).
  { intro Ev. destruct (b_phony (get_build g b)) eqn:Ep; [|reflexivity].
    exfalso. exact (Hvd b Ep Ev). }
  pose proof (acc_verdict r b (vd b) Hc Hv) as A.
  apply (cont_prepend r (EVerdict b (vd b)) _ 2 1 A eq_refl eq_refl).
  apply (verdict_cont _ b (vd b) false); [exact (accept1_RInv cf decls r _ _ Hinv A)|exact I|reflexivity].
Qed.

(* after the start *)
Lemma starting_cont r b : rs_ctl r = CStarting b -> cont_ok r 1 0.
Proof.
  intro Hc. right. exists [EStart b]. eexists. cbn [accepts]. rewrite (acc_start cf r b Hc).
  fin_cont.
Qed.

(* after the termination *)
Lemma finished_cont r b t rec : RInv cf decls r -> rs_ctl r = CFinished b t rec -> cont_ok r 2 1.
Proof.
  intros Hinv Hc. pose proof (ri_ctl _ _ _ Hinv) as K.
  rewrite Hc in K. cbn [ctl_ok] in K. destruct K as (_ & QO & L & E).
  assert (Hpf : pool_find (bs_pools (rs_bs r)) (pool_name (get_build g b)) <> None).
  { apply (proj1 (QO b L)). rewrite E. cbn. tauto. }
  destruct t.
  - (* success *)
    destruct (bs_set_leave_running (rs_bs r) b (get_build g b) Done E Hpf (or_introl eq_refl)) as [s' Hs].
    destruct rec.
    + eapply cont_one_set; [exact (acc_done cf r b true s' Hc Hs)|reflexivity].
    + apply (cont_prepend r (ERecord b) _ 1 1 (acc_record cf r b Hc) I eq_refl).
      eapply cont_one_set; [exact (acc_done cf (with_ctl r (CFinished b TSuccess true)) b true s' eq_refl Hs)|reflexivity].
  - (* failure *)
    destruct (bs_set_leave_running (rs_bs r) b (get_build g b) Failed E Hpf (or_intror eq_refl)) as [s' Hs].
    assert (D : rs_failures_left r = Some 1 \/ rs_failures_left r <> Some 1).
    { destruct (rs_failures_left r) as [[|[|n]]|]; try (right; discriminate). now left. }
    destruct D as [Hfl|Hfl].
    + eapply cont_return_now; [exact (acc_budget r b rec Hc Hfl)|reflexivity].
    + eapply cont_one_set; [exact (acc_failed r b rec s' Hc Hfl Hs)|reflexivity].
  - (* interrupted *)
    eapply cont_return_now; [exact (acc_interrupted r b rec Hc)|reflexivity].
Qed.

(* ---- one macro step from the top of the loop ---- *)

(* a running task terminates the way the environment says *)
Lemma any_finish r b :
  RInv cf decls r -> rs_ctl r = CIdle -> get_state (rs_bs r) b = Running -> 0 < rs_running r ->
  cont_ok r 3 1.
Proof.
  intros Hinv Hc E Hrun.
  pose proof (acc_finish cf r b (tm b) Hc E Hrun) as A.
  apply (cont_prepend r (EFinish b (tm b)) _ 2 1 A eq_refl eq_refl).
  apply (finished_cont _ b (tm b) false); [exact (accept1_RInv cf decls r _ _ Hinv A)|reflexivity].
Qed.

(* a ready step is examined *)
Lemma any_examine r :
  RInv cf decls r -> rs_ctl r = CIdle -> bs_ready (rs_bs r) <> [] -> cont_ok r 4 1.
Proof.
  intros Hinv Hc Hne. pose proof (ri_ctl _ _ _ Hinv) as K.
  rewrite Hc in K. cbn [ctl_ok] in K. destruct K as [[_ RO] _].
  destruct (bs_ready (rs_bs r)) as [|b q] eqn:ER; [contradiction|].
  assert (I : In b (b :: q)) by now left.
  apply RO in I. destruct I as (L & E & _).
  assert (Hq : remove_first b (bs_ready (rs_bs r)) = Some q).
  { rewrite ER. cbn [remove_first]. now rewrite Nat.eqb_refl. }
  pose proof (acc_pop cf r b q Hc E Hq) as A.
  apply (cont_prepend r (EPopReady b) _ 3 1 A I eq_refl).
  apply (checking_cont _ b); [exact (accept1_RInv cf decls r _ _ Hinv A)|reflexivity].
Qed.

(* a queued step is started *)
Lemma any_start r :
  reachable cf decls r -> rs_ctl r = CIdle -> rs_running r = 0 -> some_startable (rs_bs r) = true ->
  cont_ok r 2 1.
Proof.
  intros Hr Hc Hrun P.
  assert (B : BInv g decls (rs_bs r)) by (apply (reachable_BInv_closed cf decls Hwf r Hr); now left).
  unfold some_startable in P. apply existsb_exists in P. destruct P as (p & Ip & Hp2).
  apply andb_true_iff in Hp2. destruct Hp2 as [Room Hq].
  destruct (p_queued p) as [|b q] eqn:EQ; [discriminate|].
  assert (Iq : In b (p_queued p)) by (rewrite EQ; now left).
  destruct (bi_pool_queued _ _ _ B p b Ip Iq) as [E Hn].
  assert (F : pool_find (bs_pools (rs_bs r)) (pool_name (get_build g b)) = Some p).
  { rewrite Hn. apply pool_find_of_In; [exact (bi_pool_names_nodup _ _ _ B)|exact Ip]. }
  destruct (pool_update_some (bs_pools (rs_bs r)) (pool_name (get_build g b))
              (fun p0 => mkPool (p_name p0) q (p_running p0) (p_depth p0)) p F) as [ps EU].
  destruct (bs_set_total_run
              (mkBS (bs_states (rs_bs r)) (bs_counts (rs_bs r)) (bs_pending (rs_bs r)) (bs_ready (rs_bs r)) ps)
              b (get_build g b)) as [s' ES].
  { exact E. }
  { cbn [bs_pools]. apply (pool_find_names (bs_pools (rs_bs r)) ps).
    - eapply pool_update_map; [|exact EU]. intro p0. reflexivity.
    - rewrite F. discriminate. }
  assert (A : accept1 cf r (ESet b Queued Running) = Some (with_bs r s' (CStarting b))).
  { unfold accept1. rewrite Hc, E, F, Room, EQ, Hrun. cbn [bstate_eqb negb remove_first].
    rewrite Nat.eqb_refl.
    assert (Hlt : (0 <? cf_parallelism cf) = true) by (apply Nat.ltb_lt; lia).
    rewrite Hlt. cbn [negb]. rewrite EU, ES. reflexivity. }
  apply (cont_prepend r (ESet b Queued Running) _ 1 0 A I eq_refl).
  apply (starting_cont _ b). reflexivity.
Qed.

Lemma any_step r : reachable cf decls r -> rs_ctl r = CIdle -> cont_ok r 4 1.
Proof.
  intros Hr Hc. pose proof (reachable_RInv_closed cf decls Hwf r Hr) as Hinv.
  destruct (Nat.eq_dec (rs_running r) 0) as [Hrun|Hrun].
  2:{ destruct (some_running cf decls Hwf r Hr Hc ltac:(lia)) as (b & E & _).
      apply (cont_weaken r 3 4 1 ltac:(lia)). exact (any_finish r b Hinv Hc E ltac:(lia)). }
  destruct (bs_ready (rs_bs r)) as [|b0 q0] eqn:ER.
  2:{ apply (any_examine r Hinv Hc). rewrite ER. discriminate. }
  destruct (some_startable (rs_bs r)) eqn:ES.
  { apply (cont_weaken r 2 4 1 ltac:(lia)). exact (any_start r Hr Hc Hrun ES). }
  destruct (some_promotable g (rs_bs r)) eqn:EP.
  { destruct (do_promote cf r Hc EP) as (d & r2 & A & Hc2 & _ & _).
    cbn [accepts] in A. destruct (accept1 cf r (ESet d Want Ready)) as [r3|] eqn:A1; [|discriminate].
    injection A as ->. eapply cont_one_set; [exact A1|exact Hc2]. }
  (* nothing can progress: the loop returns *)
  destruct (can_return cf decls Hwf Hpar r Hr Hc Hrun ER ES EP) as [r' A].
  eapply cont_return_now; [exact A|].
  apply accept1_step in A. inversion A; subst; reflexivity.
Qed.

(* ---- iteration ---- *)

Lemma any_complete_gen : forall k r,
  run_potential g (rs_bs r) <= k -> reachable cf decls r -> rs_ctl r = CIdle ->
  exists evs ok r',
    accepts cf r (evs ++ [EReturn ok]) = Some r' /\ rs_ctl r' = CReturned ok /\
    Forall (obeys vd tm) evs /\ count_ev is_stutter evs = 0 /\
    length evs <= 4 * run_potential g (rs_bs r) + 4.
Proof.
  induction k as [|k IH]; intros r Hk Hr Hc.
  - destruct (any_step r Hr Hc) as [(evs & ok & r' & A & Hc' & Ob & St & Len)|(evs & r2 & A & _ & S1 & _)].
    + exists evs, ok, r'. repeat split; auto. lia.
    + pose proof (sets_bound_RInv cf decls r r2 evs (reachable_RInv_closed cf decls Hwf r Hr) A). lia.
  - destruct (any_step r Hr Hc) as [(evs & ok & r' & A & Hc' & Ob & St & Len)
                                   |(evs1 & r2 & A & Hc2 & S1 & Ob1 & St1 & Len1)].
    + exists evs, ok, r'. repeat split; auto. lia.
    + pose proof (sets_bound_RInv cf decls r r2 evs1 (reachable_RInv_closed cf decls Hwf r Hr) A) as Pot.
      destruct (IH r2 ltac:(lia) (reach_accepts cf decls evs1 r r2 Hr A) Hc2)
        as (evs2 & ok & r' & A2 & Hc' & Ob2 & St2 & Len2).
      exists (evs1 ++ evs2), ok, r'. rewrite <- app_assoc, accepts_app, A.
      split; [exact A2|]. split; [exact Hc'|]. split; [apply Forall_app; auto|].
      rewrite count_ev_app, app_length. lia.
Qed.

Theorem C06_can_complete_any r :
  reachable cf decls r -> rs_ctl r = CIdle ->
  exists evs ok r',
    accepts cf r (evs ++ [EReturn ok]) = Some r' /\ rs_ctl r' = CReturned ok /\
    Forall (obeys vd tm) evs /\ count_ev is_stutter evs = 0 /\
    length evs <= 4 * run_potential g (rs_bs r) + 4 /\ run_potential g (rs_bs r) <= 4 * nb.
Proof.
  intros Hr Hc.
  destruct (any_complete_gen (run_potential g (rs_bs r)) r (le_n _) Hr Hc)
    as (evs & ok & r' & A & Hc' & Ob & St & Len).
  exists evs, ok, r'. repeat split; auto. apply run_potential_le.
Qed.

(* ---- from any reachable state that has not returned ---- *)

Theorem C06_no_dead_end r :
  reachable cf decls r -> (forall ok, rs_ctl r <> CReturned ok) ->
  exists evs ok r',
    accepts cf r (evs ++ [EReturn ok]) = Some r' /\ rs_ctl r' = CReturned ok /\
    Forall (obeys vd tm) evs /\ count_ev is_stutter evs = 0 /\
    length evs <= 4 * run_potential g (rs_bs r) + 7 /\ run_potential g (rs_bs r) <= 4 * nb.
Proof.
  intros Hr Hnr. pose proof (reachable_RInv_closed cf decls Hwf r Hr) as Hinv.
  assert (C : exists c, cont_ok r 3 c).
  { destruct (rs_ctl r) as [|b|b v rec|b|b t rec|ok] eqn:Hc.
    - exists 0. right. exists [], r. fin_cont.
    - exists 1. exact (checking_cont r b Hinv Hc).
    - exists 1. apply (cont_weaken r 2 3 1 ltac:(lia)).
      exact (verdict_cont r b v rec Hinv (reachable_rec_ok cf decls r Hr) Hc).
    - exists 0. apply (cont_weaken r 1 3 0 ltac:(lia)). exact (starting_cont r b Hc).
    - exists 1. apply (cont_weaken r 2 3 1 ltac:(lia)). exact (finished_cont r b t rec Hinv Hc).
    - exfalso. exact (Hnr ok eq_refl). }
  destruct C as (c & [(evs & ok & r' & A & Hc' & Ob & St & Len)|(evs1 & r2 & A & Hc2 & S1 & Ob1 & St1 & Len1)]).
  - exists evs, ok, r'. repeat split; auto; [lia|apply run_potential_le].
  - pose proof (sets_bound_RInv cf decls r r2 evs1 Hinv A) as Pot.
    destruct (C06_can_complete_any r2 (reach_accepts cf decls evs1 r r2 Hr A) Hc2)
      as (evs2 & ok & r' & A2 & Hc' & Ob2 & St2 & Len2 & _).
    exists (evs1 ++ evs2), ok, r'. rewrite <- app_assoc, accepts_app, A.
    split; [exact A2|]. split; [exact Hc'|]. split; [apply Forall_app; auto|].
    rewrite count_ev_app, app_length. split; [lia|]. split; [lia|apply run_potential_le].
Qed.

End Any.
