From Coq Require Import String.
From N2 Require Import Model.All Model.Fancy Model.Terminal Proofs.FancyFrame.
From Coq Require Import Lia.

Lemma max_cols_ge_10 io : (10 <= max_cols io)%N.
Proof.
  unfold max_cols, get_cols. destruct io as [c|]; [|lia].
  destruct (c <? 10)%N eqn:E; [lia|]. apply N.ltb_ge in E. exact E.
Qed.

Lemma max_cols_is_width c : (10 <= c)%N -> max_cols (Some c) = c.
Proof. intros H. unfold max_cols, get_cols. apply N.ltb_ge in H. now rewrite H. Qed.

Lemma max_cols_fallback io : (forall c, io = Some c -> (c < 10)%N) -> max_cols io = 80%N.
Proof.
  intros H. unfold max_cols, get_cols. destruct io as [c|]; [|reflexivity].
  specialize (H c eq_refl). apply N.ltb_lt in H. now rewrite H.
Qed.

(* the frame theorem with no premise on the width left: whatever the terminal reports *)
Lemma frame_any_terminal st now io :
  let cols := N.to_nat (max_cols io) in
  exists body, f_print st now cols = Ok (frame_of st (body ++ more_line (length (fs_tasks st))), mkFState clear_seq (fs_counts st) (fs_tasks st) (fs_verbose st)) /\
    Forall (fun l => (length l <= cols)%nat) body /\
    (Nat.min max_tasks (length (fs_tasks st)) <= length body <= 2 * max_tasks)%nat /\
    (Forall task_valid (fs_tasks st) -> Forall (fun l => utf8_ok l = true) body).
Proof.
  intros cols. apply frame_spec. unfold cols. pose proof (max_cols_ge_10 io). lia.
Qed.
