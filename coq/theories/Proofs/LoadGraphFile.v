(* C10, loader half, L4 (2): whole manifests.  load_manifest on a one-file manifest is [run_stmts]
   over the parser's reads; on a text that SPELLS the statements [svs] (ParseSpell.v) the loaded
   graph is characterised by the declared statements themselves. *)
From Coq Require Import String.
From N2 Require Import Model.All Proofs.EvalScope Proofs.GraphDedup Proofs.GraphAddBuild Proofs.GraphLoad.
From N2 Require Import Proofs.ParseSpell Proofs.ParseRoundScan Proofs.ParseRoundMain Proofs.ParseRoundTotal.
From N2 Require Import Proofs.LoadGraphSpec Proofs.LoadGraphBuild Proofs.LoadGraphRun Proofs.LoadGraphNorm.

(* ------------------------------------------------------------------------------------ *)
(* load_manifest: the manifest is file 0, the only rule is phony *)

Definition loader_start (c : bytes) : loader :=
  mkLoader [mkLFile c None []] [] [] [(bs "phony", [])] [] None [].

Lemma load_manifest_start fixed depth fs name text :
  load_manifest fixed depth fs name text =
  do c <- canon name; parse_file fixed depth fs (loader_start c) name text [].
Proof. reflexivity. Qed.

Lemma LInv_start c : LInv (loader_start c).
Proof.
  assert (E : id_from_canonical loader_new c = (loader_start c, 0)) by reflexivity.
  destruct (id_from_canonical_spec _ _ _ _ E) as [X _].
  eapply Ext_LInv; [exact X | apply LInv_new].
Qed.

(* every one-file manifest: parser errors, loader errors and the loaded graph alike *)
Theorem load_manifest_reads depth fs name text sts r :
  reads_to (text ++ [0%N]) (mkScanner (text ++ [0%N]) 0 1) [] sts r -> no_include sts ->
  load_manifest true (S depth) fs name text =
  do c <- canon name;
  do l' <- run_stmts (loader_start c) name sts;
  finish (text ++ [0%N]) name l' r.
Proof.
  intros R NI. rewrite load_manifest_start. destruct (canon name) as [c|m|x|x|]; try reflexivity.
  cbn [bind]. apply parse_file_is_run_stmts_gen; assumption.
Qed.

(* the loaded graph in terms of the statements the parser returned *)
Theorem graph_of_reads depth fs name text sts r l :
  reads_to (text ++ [0%N]) (mkScanner (text ++ [0%N]) 0 1) [] sts r -> no_include sts ->
  load_manifest true (S depth) fs name text = Ok l ->
  exists vs' s',
    r = SOk (None, vs') s' /\
    length (l_builds l) = count_builds sts /\
    Forall2 (item_ok l name) (build_items [(bs "phony", [])] sts) (l_builds l) /\
    l_rules l = rules_of [(bs "phony", [])] sts /\
    l_pools l = pools_of [] sts /\
    Forall2 (default_ok l) (default_items sts) (l_defaults l) /\
    l_builddir l = assoc_b (bs "builddir") vs' /\
    canon name = Ok (file_nm l 0).
Proof.
  intros R NI H. rewrite (load_manifest_reads _ _ _ _ _ _ R NI) in H.
  apply bind_ok in H as [c [C H]]. apply bind_ok in H as [l' [RS H]].
  pose proof (reads_to_builds_wf _ _ _ _ _ R) as W.
  destruct (run_stmts_spec name sts _ _ (LInv_start c) W RS)
    as (J & X & (bs0 & B & FB) & RL & PL & (ids & D & FD & _) & BD).
  cbn [loader_start l_builds l_rules l_pools l_defaults l_builddir app] in B, FB, RL, PL, D.
  destruct r as [[[st|] vs'] s'|m o|x|x|]; cbn [finish] in H; try discriminate.
  2:{ apply bind_ok in H as [txt [_ H]]. discriminate. }
  inversion H; subst l; clear H.
  exists vs', s'. split; [reflexivity|].
  assert (N : NamesExt l' (with_builddir l' (assoc_b (bs "builddir") vs'))) by (apply NamesExt_same; reflexivity).
  cbn [with_builddir l_builds l_rules l_pools l_defaults l_builddir].
  rewrite B, D.
  split; [rewrite <- (Forall2_length_eq _ _ _ FB); apply build_items_length|].
  split.
  { eapply Forall2_impl; [|exact FB]. intros it b OK. unfold item_ok in *.
    eapply build_ok_mono; [exact N | exact OK]. }
  split; [exact RL|]. split; [exact PL|].
  split.
  { eapply Forall2_impl; [|exact FD]. intros pv id OK. exact OK. }
  split; [reflexivity|].
  rewrite C. f_equal. symmetry.
  change (file_nm (with_builddir l' (assoc_b (bs "builddir") vs')) 0) with (file_nm l' 0).
  rewrite (NamesExt_file_nm _ _ 0 X); [reflexivity | cbn; lia].
Qed.

(* ------------------------------------------------------------------------------------ *)
(* spelled files: [spells_file] (ParseSpell.v) with the file-level variables in force at every
   statement written next to it *)

Inductive spells_file_v : Z -> vars -> list (statement * vars) -> vars -> bytes -> Prop :=
| sfv_end ln vs vs' F : spells_pre vs vs' F -> spells_file_v ln vs [] vs' F
| sfv_stmt ln vs vs1 vs' F st txt svs rest :
    spells_pre vs vs1 F -> spells_stmt (ln + nlz F) st txt -> follow_ok st (rest ++ [0%N]) ->
    spells_file_v (ln + nlz (F ++ txt)) vs1 svs vs' rest ->
    spells_file_v ln vs ((st, vs1) :: svs) vs' (F ++ txt ++ rest).

Lemma spells_file_v_iff ln vs sts vs' text :
  spells_file ln vs sts vs' text <-> exists svs, map fst svs = sts /\ spells_file_v ln vs svs vs' text.
Proof.
  split.
  - induction 1 as [ln vs vs' F HF|ln vs vs1 vs' F st txt sts rest HF Hst HX Hrest IH].
    + exists []. split; [reflexivity | constructor; exact HF].
    + destruct IH as (svs & <- & IH). exists ((st, vs1) :: svs). split; [reflexivity|].
      econstructor; eassumption.
  - intros (svs & <- & H). induction H as [ln vs vs' F HF|ln vs vs1 vs' F st txt svs rest HF Hst HX Hrest IH].
    + constructor. exact HF.
    + cbn [map fst]. econstructor; eassumption.
Qed.

(* the parser half (C10_file_roundtrip), with the variables: the loader's reads on a spelled file *)
Lemma file_v_at ln vs svs vs' text :
  spells_file_v ln vs svs vs' text -> forall pre s,
  ~ In 13%N (sbuf s) -> sbuf s = pre ++ text ++ [0%N] -> sofs s = length pre -> sline s = ln ->
  exists svs', reads (sbuf s) s vs svs' vs' /\ stmts_norm_eq svs' svs.
Proof.
  induction 1 as [ln vs vs' F HF|ln vs vs1 vs' F st txt svs rest HF Hst HX Hrest IH];
    intros pre s H13 Hb Ho Hl.
  - exists []. split; [|constructor]. eexists. apply rt_last.
    + exact (eof_roundtrip_total pre F vs vs' s HF H13 Hb Ho).
    + intros (st & v & z & X). discriminate.
  - assert (Hb' : sbuf s = pre ++ F ++ txt ++ rest ++ [0%N]) by (rewrite Hb; now norm_app).
    rewrite <- Hl in Hst.
    destruct (statement_roundtrip_total pre F txt rest vs vs1 st s HF Hst HX H13 Hb' Ho)
      as (st' & E & Hn').
    set (s1 := mkScanner (sbuf s) (length (pre ++ F ++ txt)) (sline s + nlz (F ++ txt))) in *.
    assert (Hb1 : sbuf s1 = (pre ++ F ++ txt) ++ rest ++ [0%N]) by (cbn [s1 sbuf]; rewrite Hb'; now norm_app).
    destruct (IH (pre ++ F ++ txt) s1 H13 Hb1 eq_refl ltac:(cbn [s1 sline]; now rewrite Hl))
      as (svs' & [z R] & Hn1).
    cbn [sbuf s1] in R. fold s1 in R.
    exists ((st', vs1) :: svs'). split.
    + exists z. eapply rt_stmt; [exact E | exact R].
    + constructor; [split; [exact Hn' | reflexivity] | exact Hn1].
Qed.

Theorem file_reads svs vs' text :
  spells_file_v 1 [] svs vs' text -> ~ In 13%N text ->
  exists svs', reads (text ++ [0%N]) (mkScanner (text ++ [0%N]) 0 1) [] svs' vs' /\ stmts_norm_eq svs' svs.
Proof.
  intros Hf H13.
  assert (H13' : ~ In 13%N (text ++ [0%N])) by (apply notin_app; [exact H13 | cbn; intuition discriminate]).
  exact (file_v_at 1 [] svs vs' text Hf [] (mkScanner (text ++ [0%N]) 0 1) H13' eq_refl eq_refl eq_refl).
Qed.

(* L4: load_manifest on a spelled one-file manifest is run_stmts on the statements the parser
   returns, which are the declared ones up to normalisation *)
Theorem load_manifest_is_run_stmts depth fs name text svs vs' :
  spells_file_v 1 [] svs vs' text -> ~ In 13%N text -> no_include svs ->
  exists svs', stmts_norm_eq svs' svs /\
    reads (text ++ [0%N]) (mkScanner (text ++ [0%N]) 0 1) [] svs' vs' /\
    load_manifest true (S depth) fs name text =
    do c <- canon name;
    do l' <- run_stmts (loader_start c) name svs';
    Ok (with_builddir l' (assoc_b (bs "builddir") vs')).
Proof.
  intros Hf H13 NI. destruct (file_reads svs vs' text Hf H13) as (svs' & [z R] & N).
  exists svs'. split; [exact N|]. split; [exists z; exact R|].
  rewrite (load_manifest_reads _ _ _ _ _ _ R (no_include_norm _ _ N NI)). reflexivity.
Qed.

(* the loaded graph of a spelled manifest, in terms of the DECLARED statements: one step per
   `build` statement, in order, each as declared (build_ok); pools, defaults, builddir *)
Theorem graph_of_spelled_file depth fs name text svs vs' l :
  spells_file_v 1 [] svs vs' text -> ~ In 13%N text -> no_include svs ->
  load_manifest true (S depth) fs name text = Ok l ->
  length (l_builds l) = count_builds svs /\
  Forall2 (item_ok l name) (build_items [(bs "phony", [])] svs) (l_builds l) /\
  norm_rules (l_rules l) = norm_rules (rules_of [(bs "phony", [])] svs) /\
  l_pools l = pools_of [] svs /\
  Forall2 (default_ok l) (default_items svs) (l_defaults l) /\
  l_builddir l = assoc_b (bs "builddir") vs' /\
  canon name = Ok (file_nm l 0).
Proof.
  intros Hf H13 NI H. destruct (file_reads svs vs' text Hf H13) as (svs' & [z R] & N).
  destruct (graph_of_reads _ _ _ _ _ _ _ R (no_include_norm _ _ N NI) H)
    as (v & z' & E & LB & FB & RL & PL & FD & BD & C).
  inversion E; subst v z'.
  split; [rewrite LB; apply count_builds_norm; exact N|].
  split; [eapply items_ok_norm; [exact N | reflexivity | exact FB]|].
  split; [rewrite RL; apply rules_of_norm; [exact N | reflexivity]|].
  split; [rewrite PL; apply pools_of_norm; exact N|].
  split; [eapply defaults_ok_norm; eassumption|].
  split; assumption.
Qed.

(* the graph does not depend on the spelling: two texts spelling the same statements (with the same
   variables in force) load into graphs described by the same declaration *)
Corollary graph_spelling_independent depth fs name t1 t2 svs vs1 vs2 l1 l2 :
  spells_file_v 1 [] svs vs1 t1 -> spells_file_v 1 [] svs vs2 t2 ->
  ~ In 13%N t1 -> ~ In 13%N t2 -> no_include svs ->
  load_manifest true (S depth) fs name t1 = Ok l1 -> load_manifest true (S depth) fs name t2 = Ok l2 ->
  length (l_builds l1) = length (l_builds l2) /\
  Forall2 (item_ok l1 name) (build_items [(bs "phony", [])] svs) (l_builds l1) /\
  Forall2 (item_ok l2 name) (build_items [(bs "phony", [])] svs) (l_builds l2) /\
  l_pools l1 = l_pools l2.
Proof.
  intros F1 F2 N1 N2 NI H1 H2.
  destruct (graph_of_spelled_file _ _ _ _ _ _ _ F1 N1 NI H1) as (A1 & A2 & _ & A4 & _).
  destruct (graph_of_spelled_file _ _ _ _ _ _ _ F2 N2 NI H2) as (B1 & B2 & _ & B4 & _).
  split; [congruence|]. split; [exact A2|]. split; [exact B2|]. congruence.
Qed.
