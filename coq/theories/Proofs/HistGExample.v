(* Non-vacuity of the hypotheses of Props/C02HistG.v: the project of Proofs/HistExample.v, and a
   history in which the manifest changes:

     1. build o                       with   m <- cc a ;  o <- ld m b      (two records)
     2. the manifest is edited: the command of the second step becomes "ld -O"
     3. build o                       step 0 is judged clean against the record made under the old
                                      manifest, step 1 (command line changed) runs again (one record) *)
From Coq Require Import String List NArith ZArith Lia Bool Arith.
From N2 Require Import Model.All Proofs.SchedSpec Proofs.DbSpec Proofs.WorldSpec Proofs.WorldDirty
     Proofs.JointSpec Proofs.HistSpec Proofs.HistMain Proofs.HistThms Proofs.HistExample
     Proofs.HistGSpec Proofs.HistGMain.
Import ListNotations.
Local Open Scope string_scope.

Definition hx_wg2 : wgraph :=
  mkWGraph [mkWBuild [xa] 1 0 0 [xm] (Some (bs "cc")) None; mkWBuild [xm; xb] 2 0 0 [xo] (Some (bs "ld -O")) None]
           [(xm, 0); (xo, 1)].

Lemma hx_agree2 : graphs_agree hx_g hx_wg2.
Proof.
  constructor.
  - reflexivity.
  - intros i L. destruct i as [|[|i]]; [| |cbn in L; lia]; cbv zeta;
      (repeat split; try reflexivity; intro H; discriminate H).
  - intros f1 f2 L1 L2. cbn in L1, L2.
    destruct f1 as [|[|[|[|f1]]]]; try lia; destruct f2 as [|[|[|[|f2]]]]; try lia;
      intro H; try reflexivity; vm_compute in H; discriminate H.
  - intros f L. cbn in L. destruct f as [|[|[|[|f]]]]; try lia; vm_compute; reflexivity.
  - intros f b. split.
    + destruct f as [|[|[|[|f]]]]; cbn; intro H; try discriminate;
        try (destruct f; discriminate); injection H as <-; cbn; split; auto.
    + intros (L & I). destruct b as [|[|b]]; [| |cbn in L; lia]; cbn in I; destruct I as [<-|[]]; reflexivity.
Qed.

Lemma hx2_run0 c : run hx_content hx_cmd (get_wbuild hx_wg2 0) c = (fun _ => (val (c xa) + val (c xh))%N, [xa; bs "x/../h"]).
Proof. reflexivity. Qed.
Lemma hx2_run1 c : run hx_content hx_cmd (get_wbuild hx_wg2 1) c = (fun _ => (val (c xm) + val (c xb))%N, []).
Proof. reflexivity. Qed.

Lemma hx_hermetic2 : forall b, b < 2 -> hermetic hx_content hx_cmd (get_wbuild hx_wg2 b).
Proof.
  intros b L c1 c2 Hd Hr. destruct b as [|[|b]]; [| |lia].
  - assert (Ea : c2 xa = c1 xa) by (apply Hd; cbn; auto).
    assert (Eh : c2 xh = c1 xh).
    { apply (Hr (bs "x/../h") xh); [rewrite hx2_run0; cbn; auto|discriminate|vm_compute; reflexivity]. }
    rewrite !hx2_run0, Ea, Eh. reflexivity.
  - assert (Em : c2 xm = c1 xm) by (apply Hd; cbn; auto).
    assert (Eb : c2 xb = c1 xb) by (apply Hd; cbn; auto).
    rewrite !hx2_run1, Em, Eb. reflexivity.
Qed.

Lemma hx_static2 : static_ok hx_content hx_cmd hx_g hx_wg2.
Proof.
  constructor.
  - exact hx_graph_wf.
  - exact hx_agree2.
  - intros b L. destruct b as [|[|b]]; [| |cbn in L; lia]; discriminate.
  - intros b n L H. destruct b as [|[|b]]; [| |cbn in L; lia]; cbn in H;
      repeat (destruct H as [<-|H]; [vm_compute; reflexivity|]); destruct H.
  - intros b L. destruct b as [|[|b]]; [| |cbn in L; lia]; vm_compute; reflexivity.
  - intros b L _. apply hx_hermetic2. exact L.
Qed.

(* manifests under the new manifest *)
Definition M2 (fs : fsmap) (b : nat) (deps : list bytes) : manifest :=
  match fs_manifest fs (get_wbuild hx_wg2 b) deps with Some m => m | None => mkManifest [] [] [] None [] end.
Definition Hh2 (fs : fsmap) (b : nat) (deps : list bytes) : N := hash_build (M2 fs b deps).

(* o is written again: same content 7+1, a new mtime *)
Definition g2 := fs_set t2 xo (Some (8, 5)%N).

Definition tr3 : list jitem :=
  [JPop 0; JVerdict 0 VClean; JSet 0 Ready Done;
   JSet 1 Want Ready; JPop 1; JVerdict 1 VDirty; JSet 1 Ready Queued; JSet 1 Queued Running; JStart 1;
   JWrite xo (Some (8, 5)%N); JFinish 1 TSuccess None; JRecord 1 (Hh2 g2 1 []); JSet 1 Running Done;
   JReturn (Some true)].

Definition ginv1 : ginvocation := mkGInv hx_cf hx_wg [] hx_s None tr1.
Definition ginv3 : ginvocation := mkGInv hx_cf hx_wg2 [] hx_s None tr3.

Definition loadw2 (fs : fsmap) (log : bytes) : wstate :=
  match load_state hx_wg2 fs log with Ok w => w | _ => dummy_w end.
Definition endw2 (w0 : wstate) (tr : list jitem) : wstate :=
  match replay hx_wg2 w0 None (proj_w false None tr) 0 with WOk w => w | _ => dummy_w end.

Definition x10 := loadw2 t2 (ws_log w01).
Definition x11 := endw2 x10 tr3.
Definition ws3 : list wr := trace_ws hx_wg2 None ws1 tr3.
Definition sg2 := mkH g2 (ws_log x11) ws3.

(* the recorded manifests, under their hashes *)
Definition GRhl (l : list (N * manifest)) (h : N) (m : manifest) : Prop := In (h, m) l.
Definition grecs : list (N * manifest) :=
  [(Hh t1 0 [xh], M t1 0 [xh]); (Hh t2 1 [], M t2 1 []); (Hh2 g2 1 [], M2 g2 1 [])].

Notation hx_ghstep := (ghstep hx_content hx_stamp hx_cmd (GRhl grecs)).
Notation hx_ghsteps := (ghsteps hx_content hx_stamp hx_cmd (GRhl grecs)).

Lemma g_invoke1 : hx_ghstep st0 (GInvoke ginv1) st1.
Proof.
  assert (E : st1 = mkH (ws_fs w01) (ws_log w01) (trace_ws (gi_wg ginv1) None (h_ws st0) (gi_tr ginv1)))
    by (vm_compute; reflexivity).
  rewrite E. apply (hg_invoke hx_content hx_stamp hx_cmd (GRhl grecs) st0 ginv1 w00 (endr tr1) w01).
  - exact hx_static.
  - reflexivity.
  - vm_compute. reflexivity.
  - exact hx_wanted.
  - split; vm_compute; reflexivity.
  - cbn. split; [exists 0; cbn; auto|]. split; [exists 1; cbn; auto|exact I].
  - cbn [ginv1 gi_tr gi_wg tr1 tr_both trace_gen h_fs st0].
    split; [reflexivity|]. split; [split; [exact rep0_ok|split; [reflexivity|fresh_tac]]|]. split.
    { intros rep deps m0 H1 H2 H3. injection H1 as <-. rewrite keep0 in H2. injection H2 as <-.
      assert (G : GRrec (GRhl grecs) 0 (M t1 0 [xh])) by (vm_compute; tauto).
      unfold M in G. change (fs_set t0 xm (Some (7, 0)%N)) with t1 in H3. rewrite H3 in G. exact G. }
    split; [reflexivity|]. split; [split; [exact repN_ok|split; [reflexivity|fresh_tac]]|]. split; [|exact I].
    intros rep deps m0 H1 H2 H3. injection H1 as <-. rewrite keep1 in H2. injection H2 as <-.
    assert (G : GRrec (GRhl grecs) 1 (M t2 1 [])) by (vm_compute; tauto).
    unfold M in G. change (fs_set (fs_set t0 xm (Some (7, 0)%N)) xo (Some (8, 0)%N)) with t2 in H3.
    rewrite H3 in G. exact G.
  - intros b d _ Hd. destruct b as [|[|b]]; vm_compute in Hd; destruct Hd.
  - apply limits_ok; vm_compute; reflexivity.
Qed.

Lemma keep1_2 : keep_deps (wb_dirtying (get_wbuild hx_wg2 1)) (reported_names None) [] = Ok [].
Proof. vm_compute. reflexivity. Qed.

Lemma repN_ok2 : rep_ok hx_wg2 None.
Proof. intros n d []. Qed.

Definition ncs_b (m m0 : manifest) : bool :=
  list_eqb N.eqb (manifest_stream m) (manifest_stream m0) &&
  match mf_rsp m, mf_rsp m0 with None, None => true | _, _ => false end.

Lemma ncs_b_ok m m0 : ncs_b m m0 = true -> manifest_stream m = manifest_stream m0 /\ mf_rsp m = mf_rsp m0.
Proof.
  unfold ncs_b. rewrite andb_true_iff. intros (H1 & H2). split.
  - apply (proj1 (list_eqb_spec N.eqb N.eqb_eq _ _)). exact H1.
  - destruct (mf_rsp m), (mf_rsp m0); try discriminate. reflexivity.
Qed.

(* the invocation under the changed manifest *)
Lemma g_invoke3 : hx_ghstep st1 (GInvoke ginv3) sg2.
Proof.
  assert (E : sg2 = mkH (ws_fs x11) (ws_log x11) (trace_ws (gi_wg ginv3) None (h_ws st1) (gi_tr ginv3)))
    by (vm_compute; reflexivity).
  rewrite E. apply (hg_invoke hx_content hx_stamp hx_cmd (GRhl grecs) st1 ginv3 x10 (endr tr3) x11).
  - exact hx_static2.
  - reflexivity.
  - vm_compute. reflexivity.
  - exact hx_wanted.
  - split; vm_compute; reflexivity.
  - cbn. split; [exists 1; cbn; auto|exact I].
  - cbn [ginv3 gi_tr gi_wg tr3 trace_gen h_fs st1]. split.
    { (* the clean verdict of step 0 against the record made under the old manifest *)
      intros m m0 H1 H2. vm_compute in H1. injection H1 as <-.
      unfold GRhl in H2. cbn [In grecs] in H2.
      repeat (destruct H2 as [H2|H2];
              [let Hf := fresh "Hf" in
               pose proof (f_equal fst H2) as Hf; cbn [fst] in Hf; vm_compute in Hf;
               first [discriminate Hf
                     |apply (f_equal snd) in H2; cbn [snd] in H2; rewrite <- H2; apply ncs_b_ok; vm_compute; reflexivity]|]).
      destruct H2. }
    split; [reflexivity|]. split; [split; [exact repN_ok2|split; [reflexivity|fresh_tac]]|]. split; [|exact I].
    intros rep deps m0 H1 H2 H3. injection H1 as <-. rewrite keep1_2 in H2. injection H2 as <-.
    assert (G : GRrec (GRhl grecs) 1 (M2 g2 1 [])) by (vm_compute; tauto).
    unfold M2 in G. change (fs_set t2 xo (Some (8, 5)%N)) with g2 in H3. rewrite H3 in G. exact G.
  - intros b d _ Hd. destruct b as [|[|b]]; vm_compute in Hd; [destruct Hd as [<-|[]]; vm_compute; reflexivity|destruct Hd|destruct Hd].
  - apply limits_ok; vm_compute; reflexivity.
Qed.

Example hx_ghistory : hx_ghsteps st0 [GInvoke ginv1; GInvoke ginv3] sg2.
Proof.
  apply (ghs_cons _ _ _ _ st0 _ st1); [exact g_invoke1|].
  apply (ghs_cons _ _ _ _ st1 _ sg2); [exact g_invoke3|]. constructor.
Qed.

Lemma hx_cmds2 b : b < 2 -> wb_cmdline (get_wbuild hx_wg2 b) <> None.
Proof. intro L. destruct b as [|[|b]]; [| |lia]; discriminate. Qed.

Lemma gst0_inv : GHInv hx_content hx_stamp hx_cmd (GRhl grecs) st0.
Proof. exact (GHInv_init hx_content hx_stamp hx_cmd (GRhl grecs) t0 t0_wf). Qed.

Example hx_ginv_history : GHInv hx_content hx_stamp hx_cmd (GRhl grecs) sg2.
Proof. exact (g_hist_invariant_from_empty _ _ _ _ t0 _ sg2 t0_wf hx_ghistory). Qed.

Example hx_gfresh : forall b, b < 2 -> fresh hx_content hx_stamp hx_cmd g2 (get_wbuild hx_wg2 b).
Proof.
  intros b L.
  exact (proj1 (g_success_all_fresh _ _ _ (GRhl grecs) st0 [GInvoke ginv1] ginv3 (removelast tr3) sg2
           gst0_inv hx_ghistory eq_refl b (hx_wanted_all b L) (hx_cmds2 b L))).
Qed.

Example hx_gclean : forall b, b < 2 -> forall o, In o (wb_outs (get_wbuild hx_wg2 b)) ->
  cont hx_content hx_stamp g2 o = clean_cont hx_content hx_cmd hx_wg2 2 (cont hx_content hx_stamp g2) o.
Proof.
  intros b L.
  exact (g_equals_clean_build _ _ _ (GRhl grecs) st0 [GInvoke ginv1] ginv3 (removelast tr3) sg2
           gst0_inv hx_ghistory eq_refl 2 (le_n 2) b (hx_wanted_all b L) (hx_cmds2 b L)).
Qed.

Lemma hx_ghistory_facts :
  gi_wg ginv1 <> gi_wg ginv3 /\ In (JVerdict 0 VClean) (gi_tr ginv3) /\ length (h_ws sg2) = 3.
Proof.
  split; [|split].
  - intro H. apply (f_equal (fun w => wb_cmdline (get_wbuild w 1))) in H. vm_compute in H. discriminate H.
  - right. left. reflexivity.
  - vm_compute. reflexivity.
Qed.

(* all hypotheses of the generalised history theorems at once; 3 records are written *)
Lemma hx_all_hypsG :
  GHInv hx_content hx_stamp hx_cmd (GRhl grecs) st0 /\
  ghsteps hx_content hx_stamp hx_cmd (GRhl grecs) st0 ([GInvoke ginv1] ++ [GInvoke ginv3])%list sg2 /\
  gi_tr ginv3 = (removelast tr3 ++ [JReturn (Some true)])%list /\
  (forall b, b < 2 -> get_state (gi_s ginv3) b <> Unknown /\ wb_cmdline (get_wbuild (gi_wg ginv3) b) <> None) /\
  length (g_builds (cf_graph (gi_cf ginv3))) <= 2 /\
  gi_wg ginv1 <> gi_wg ginv3 /\ In (JVerdict 0 VClean) (gi_tr ginv3) /\ length (h_ws sg2) = 3.
Proof.
  split; [exact gst0_inv|]. split; [exact hx_ghistory|]. split; [reflexivity|].
  split; [intros b L; split; [exact (hx_wanted_all b L)|exact (hx_cmds2 b L)]|].
  split; [cbn; lia|exact hx_ghistory_facts].
Qed.
