(* C09: the list of discovered dependencies record_finished keeps. *)
From Coq Require Import String.
From N2 Require Import Model.All Proofs.DbSpec Proofs.WorldSpec Proofs.WorldBase.
From Coq Require Import Lia.

Lemma mem_bytes_In c l : mem_bytes c l = true <-> In c l.
Proof.
  unfold mem_bytes. rewrite existsb_exists. split.
  - intros (x & Hx & E). apply bytes_eqb_spec in E. now subst.
  - intros H. exists c. split; [assumption | apply bytes_eqb_refl].
Qed.

Lemma mem_bytes_false c l : mem_bytes c l = false <-> ~ In c l.
Proof. rewrite <- mem_bytes_In. destruct (mem_bytes c l); split; congruence. Qed.

Lemma bytes_eqb_sym a b : bytes_eqb a b = bytes_eqb b a.
Proof.
  destruct (bytes_eqb a b) eqn:E1, (bytes_eqb b a) eqn:E2; try reflexivity.
  - apply bytes_eqb_spec in E1. subst. now rewrite bytes_eqb_refl in E2.
  - apply bytes_eqb_spec in E2. subst. now rewrite bytes_eqb_refl in E1.
Qed.

(* ------------------------------------------------------------------------------------ *)
(* keep_deps as canon_names followed by an accumulator-free filter *)

Fixpoint keep_first (dirtying seen cs : list bytes) : list bytes :=
  match cs with
  | [] => []
  | c :: r => if mem_bytes c seen || mem_bytes c dirtying then keep_first dirtying seen r
              else c :: keep_first dirtying (c :: seen) r
  end.

Lemma keep_deps_first d : forall names acc,
  keep_deps d names acc = do cs <- canon_names names; Ok (rev acc ++ keep_first d acc cs).
Proof.
  induction names as [|n names IH]; intros acc.
  - cbn. now rewrite app_nil_r.
  - destruct n as [|c0 n'].
    + cbn [keep_deps canon_names]. apply IH.
    + cbn [keep_deps canon_names]. set (n := c0 :: n').
      destruct (canon n) as [c| | | |]; cbn [bind]; try reflexivity.
      fold (mem_bytes c acc). fold (mem_bytes c d).
      destruct (mem_bytes c acc || mem_bytes c d) eqn:Em.
      * rewrite IH. destruct (canon_names names) as [cs| | | |]; cbn [bind]; try reflexivity.
        cbn [keep_first]. now rewrite Em.
      * rewrite IH. destruct (canon_names names) as [cs| | | |]; cbn [bind]; try reflexivity.
        cbn [keep_first rev]. now rewrite Em, <- app_assoc.
Qed.

Lemma filter_filter {A} (f g : A -> bool) l : filter f (filter g l) = filter (fun y => f y && g y) l.
Proof.
  induction l as [|x l IH]; [reflexivity|]. cbn [filter].
  destruct (g x) eqn:Eg; cbn [filter]; destruct (f x); cbn [andb]; now rewrite IH.
Qed.

Lemma filter_true {A} (f : A -> bool) l : (forall x, In x l -> f x = true) -> filter f l = l.
Proof.
  induction l as [|x l IH]; intros H; [reflexivity|]. cbn [filter].
  rewrite (H x (or_introl eq_refl)), IH; [reflexivity|]. intros y Hy. apply H. now right.
Qed.

Lemma kept_deps_cons d c cs :
  kept_deps d (c :: cs) =
  if mem_bytes c d then kept_deps d cs
  else c :: filter (fun y => negb (bytes_eqb c y)) (kept_deps d cs).
Proof. unfold kept_deps. cbn [filter]. now destruct (mem_bytes c d). Qed.

Lemma keep_first_filter d : forall cs seen,
  keep_first d seen cs = filter (fun y => negb (mem_bytes y seen)) (kept_deps d cs).
Proof.
  induction cs as [|c cs IH]; intros seen; [reflexivity|].
  cbn [keep_first]. rewrite kept_deps_cons.
  destruct (mem_bytes c d) eqn:Ed.
  - rewrite orb_true_r. apply IH.
  - rewrite orb_false_r. destruct (mem_bytes c seen) eqn:Es.
    + cbn [filter]. rewrite Es. cbn [negb]. rewrite IH, filter_filter.
      apply filter_ext. intros y. destruct (mem_bytes y seen) eqn:Ey; [reflexivity|]. cbn [negb andb].
      destruct (bytes_eqb c y) eqn:Ec; [|reflexivity]. apply bytes_eqb_spec in Ec. congruence.
    + cbn [filter]. rewrite Es. cbn [negb]. f_equal. rewrite IH, filter_filter.
      apply filter_ext. intros y. unfold mem_bytes at 1. cbn [existsb]. fold (mem_bytes y seen).
      rewrite (bytes_eqb_sym y c). rewrite negb_orb. apply andb_comm.
Qed.

Lemma keep_deps_eq d names :
  keep_deps d names [] = do cs <- canon_names names; Ok (kept_deps d cs).
Proof.
  rewrite keep_deps_first. destruct (canon_names names) as [cs| | | |]; cbn [bind]; try reflexivity.
  cbn [rev app]. rewrite keep_first_filter, filter_true; [reflexivity|]. reflexivity.
Qed.

(* ------------------------------------------------------------------------------------ *)
(* what the pieces mean *)

Lemma first_occurrences_In : forall l x, In x (first_occurrences l) <-> In x l.
Proof.
  induction l as [|y l IH]; intros x; [reflexivity|]. cbn [first_occurrences In].
  rewrite filter_In, IH. split.
  - intros [H|[H _]]; [now left | now right].
  - intros [H|H]; [now left|]. destruct (bytes_eq_dec y x) as [E|E]; [now left|].
    right. split; [assumption|]. now rewrite bytes_eqb_neq.
Qed.

Lemma first_occurrences_NoDup : forall l, NoDup (first_occurrences l).
Proof.
  induction l as [|y l IH]; [constructor|]. cbn [first_occurrences]. constructor.
  - rewrite filter_In. intros [_ H]. now rewrite bytes_eqb_refl in H.
  - now apply NoDup_filter.
Qed.

Lemma canon_names_In : forall names cs, canon_names names = Ok cs ->
  forall c, In c cs <-> exists n, In n names /\ n <> [] /\ canon n = Ok c.
Proof.
  induction names as [|n names IH]; intros cs E c.
  - cbn in E. injection E as <-. split; [intros [] | intros (n & [] & _)].
  - destruct n as [|c0 n'].
    + cbn [canon_names] in E. rewrite (IH cs E). split.
      * intros (n & Hn & Hne & Hc). exists n. split; [now right|]. now split.
      * intros (n & [<-|Hn] & Hne & Hc); [congruence|]. now exists n.
    + cbn [canon_names] in E. set (n := c0 :: n') in *.
      destruct (canon n) as [c1| | | |] eqn:Ec; cbn [bind] in E; try discriminate.
      destruct (canon_names names) as [cs'| | | |]; cbn [bind] in E; try discriminate.
      injection E as <-. cbn [In]. rewrite (IH cs' eq_refl). split.
      * intros [<-|(k & Hk & Hne & Hc)].
        -- exists n. split; [now left|]. split; [discriminate|assumption].
        -- exists k. split; [now right|]. now split.
      * intros (k & [<-|Hk] & Hne & Hc).
        -- left. congruence.
        -- right. now exists k.
Qed.

Lemma kept_deps_In d cs x : In x (kept_deps d cs) <-> In x cs /\ ~ In x d.
Proof.
  unfold kept_deps. rewrite first_occurrences_In, filter_In, negb_true_iff, mem_bytes_false. reflexivity.
Qed.

Lemma keep_deps_spec : forall dirtying names l, keep_deps dirtying names [] = Ok l ->
  NoDup l /\
  (forall d, In d l <-> exists n, In n names /\ n <> [] /\ canon n = Ok d /\ ~ In d dirtying) /\
  exists cs, canon_names names = Ok cs /\ l = kept_deps dirtying cs.
Proof.
  intros d names l E. rewrite keep_deps_eq in E.
  destruct (canon_names names) as [cs| | | |] eqn:Ec; cbn [bind] in E; try discriminate.
  injection E as <-. split; [apply first_occurrences_NoDup|]. split; [|now exists cs].
  intros x. rewrite kept_deps_In, (canon_names_In names cs Ec). split.
  - intros ((n & Hn & Hne & Hc) & Hd). exists n. now repeat split.
  - intros (n & Hn & Hne & Hc & Hd). split; [|assumption]. now exists n.
Qed.

Lemma spellings_collapse : forall dirtying names l n1 n2 d,
  keep_deps dirtying names [] = Ok l ->
  In n1 names -> In n2 names -> n1 <> [] -> n2 <> [] -> canon n1 = Ok d -> canon n2 = Ok d ->
  ~ In d dirtying ->
  exists l1 l2, l = l1 ++ d :: l2 /\ ~ In d l1 /\ ~ In d l2.
Proof.
  intros dirtying names l n1 n2 d E H1 _ Hne1 _ Hc1 _ Hd.
  destruct (keep_deps_spec _ _ _ E) as (Hnd & Hin & _).
  assert (Hl : In d l) by (apply Hin; exists n1; now repeat split).
  apply in_split in Hl as (l1 & l2 & ->). exists l1, l2. split; [reflexivity|].
  apply NoDup_remove_2 in Hnd. split; intro; apply Hnd; apply in_or_app; [now left | now right].
Qed.

(* ------------------------------------------------------------------------------------ *)
(* record_finished replaces the list of the step wholesale *)

Lemma replace_wholesale : forall w b bd reported w1 r,
  record_finished w b bd reported = Ok (w1, r) ->
  keep_deps (wb_dirtying bd) (reported_names reported) [] = Ok (disc_of w1 b) /\
  forall b', b' <> b -> disc_of w1 b' = disc_of w b'.
Proof.
  intros w b bd reported w1 r E.
  destruct (record_finished_inv _ _ _ _ _ _ E) as (deps & wa & mi & wb & mo & Hk & Ea & Eb & Hr).
  apply stat_all_spec in Ea as (Ha & _). apply stat_all_spec in Eb as (Hb & _).
  pose proof (cache_ext_trans _ _ _ Ha Hb) as Hext.
  assert (Hd : forall b', disc_of w1 b' = disc_of (with_disc w b deps) b').
  { intros b'. destruct Hr as [(_ & -> & _)|(_ & m & bytes & tbl & _ & _ & -> & _)].
    - now apply cache_ext_disc_of.
    - rewrite <- (cache_ext_disc_of _ _ b' Hext). reflexivity. }
  split.
  - now rewrite Hd, disc_of_with_disc_same.
  - intros b' Hne. now rewrite Hd, disc_of_with_disc_other.
Qed.
