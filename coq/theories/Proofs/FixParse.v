(* Instances for Props/C12Depth.v: the depth bound of D1 is tight, and the premises of the total
   roundtrips (D4) are satisfiable on the non-trivial texts of AuditNonVacuousParse.v. *)
From Coq Require Import String Lia.
From N2 Require Import Model.All.
From N2 Require Import Proofs.ParseSpell Proofs.ParseRoundEx Proofs.ParseSpec Proofs.ParseSafeStmt.
From N2 Require Import Proofs.AuditNonVacuousParse Proofs.AuditFindingsParse.

(* a chain of includes through every file of the file map: with depth = number of files the model
   runs out of depth, with one more it loads *)
Definition chain_fs : list (bytes * bytes) :=
  [(bs "a.ninja", bs "include b.ninja" ++ [10%N]); (bs "b.ninja", bs "rule r" ++ [10%N] ++ bs "  command = c" ++ [10%N])].

Example depth_bound_tight :
  load_manifest true (length chain_fs) chain_fs (bs "build.ninja") (bs "include a.ninja" ++ [10%N]) = Panic 60%N /\
  exists l, load_manifest true (S (length chain_fs)) chain_fs (bs "build.ninja") (bs "include a.ninja" ++ [10%N]) = Ok l /\
            map fst (l_rules l) = [bs "phony"; bs "r"].
Proof. split; [vm_compute; reflexivity|]. eexists. split; vm_compute; reflexivity. Qed.

Example eval_roundtrip_total_example :
  exists path es txt pre rest s fuel,
    spells_eval path es txt /\ txt <> [] /\ eval_stop path (rest ++ [0%N]) /\
    ~ In 13%N (pre ++ rest) /\
    sbuf s = pre ++ txt ++ rest ++ [0%N] /\ sofs s = length pre /\
    length (sbuf s) <= fuel + sofs s /\
    length es = 4 /\ pre <> [].
Proof.
  destruct C10_eval_roundtrip_nonvacuous as (path & es & txt & pre & rest & s & fuel & H1 & H2 & H3 & H4 & H5 & H6 & H7 & H8 & _ & ->).
  exists path, es, txt, pre, rest, s, (parse_fuel (sbuf s)).
  repeat (split; [assumption|]). split; [unfold parse_fuel; lia|]. split; assumption.
Qed.

Example build_roundtrip_total_example :
  exists pre L Bt rest d bl s fuel,
    spells_build_line d L /\ spells_block (fun _ => true) bl Bt /\
    (exists c r, rest ++ [0%N] = c :: r /\ c <> 32%N) /\
    ~ In 13%N (sbuf s) /\
    sbuf s = pre ++ L ++ Bt ++ rest ++ [0%N] /\ sofs s = length pre /\
    length (sbuf s) + 1 <= fuel + sofs s /\
    (d_outs d <> [] /\ d_iouts d <> [] /\ d_ins d <> [] /\ d_iins d <> [] /\ d_oins d <> [] /\ d_vins d <> []) /\
    bl <> [] /\ rest <> [].
Proof.
  exists (bs "build "), exL_a, exBt_a, (bs "default a.o" ++ nl), ex_decl, ex_block,
         (mkScanner (bs "build " ++ exL_a ++ exBt_a ++ (bs "default a.o" ++ nl) ++ [0%N]) 6 1), 400.
  split; [exact exL_a_spells|]. split; [exact exBt_a_spells|].
  split; [exists 100%N, (bs "efault a.o" ++ nl ++ [0%N]); split; [reflexivity | discriminate]|].
  split; [no13|]. split; [reflexivity|]. split; [reflexivity|].
  split; [apply Nat.leb_le; vm_compute; reflexivity|].
  split; [repeat split; discriminate|]. split; [discriminate | vm_compute; discriminate].
Qed.
