(* Histories, basic layer: contents of trees, transfer of freshness between trees that agree on the
   files of a step (H-cmd), manifests read from trees. *)
From Coq Require Import Lia ZArith List Bool Arith.
From N2 Require Import Model.All Proofs.SchedSpec.
From N2 Require Import Proofs.DbSpec Proofs.WorldSpec Proofs.WorldBase Proofs.WorldDeps Proofs.WorldDirty
     Proofs.WorldHash Proofs.JointSpec Proofs.JointBase Proofs.HistSpec.
Import ListNotations.

Section HistBase.
Variable content : Type.
Variable stamp : bytes -> mtime -> content.
Variable cmd : bytes -> option (bytes * bytes) -> (bytes -> option content) -> (bytes -> content) * list bytes.

Notation cont := (cont content stamp).
Notation run := (run content cmd).
Notation hermetic := (hermetic content cmd).
Notation fresh := (fresh content stamp cmd).
Notation fresh_at := (fresh_at content stamp cmd).

Lemma cont_agree fs fs' n : fs_get fs' n = fs_get fs n -> cont fs' n = cont fs n.
Proof. unfold HistSpec.cont. now intros ->. Qed.

(* H-cmd between two trees *)
Lemma run_agree bd fs fs' :
  hermetic bd ->
  (forall n, In n (wb_dirtying bd) -> fs_get fs' n = fs_get fs n) ->
  (forall n d, In n (snd (run bd (cont fs))) -> n <> [] -> canon n = Ok d -> fs_get fs' d = fs_get fs d) ->
  run bd (cont fs') = run bd (cont fs).
Proof.
  intros Hh Hd Hr. apply Hh.
  - intros n Hn. apply cont_agree. now apply Hd.
  - intros n d Hn Hne Hc. apply cont_agree. now apply (Hr n d).
Qed.

Definition files_of (bd : wbuild) (deps : list bytes) : list bytes := wb_dirtying bd ++ deps ++ wb_outs bd.

Lemma in_files_dirtying bd deps n : In n (wb_dirtying bd) -> In n (files_of bd deps).
Proof. intro H. apply in_or_app. now left. Qed.
Lemma in_files_deps bd deps n : In n deps -> In n (files_of bd deps).
Proof. intro H. apply in_or_app. right. apply in_or_app. now left. Qed.
Lemma in_files_outs bd deps n : In n (wb_outs bd) -> In n (files_of bd deps).
Proof. intro H. apply in_or_app. right. apply in_or_app. now right. Qed.

(* a reported name is a declared dirtying input or a kept dependency *)
Lemma reported_in_files bd names deps n d :
  keep_deps (wb_dirtying bd) names [] = Ok deps -> In n names -> n <> [] -> canon n = Ok d ->
  In d (wb_dirtying bd) \/ In d deps.
Proof.
  intros Hk Hn Hne Hc. destruct (keep_deps_spec _ _ _ Hk) as (_ & Hin & _).
  destruct (in_dec bytes_eq_dec d (wb_dirtying bd)) as [Hd|Hd]; [now left|right].
  apply Hin. exists n. auto.
Qed.

(* freshness moves between trees that agree on the files of the step *)
Lemma fresh_at_agree bd deps fs0 fs :
  hermetic bd -> fresh_at fs0 bd deps ->
  (forall n, In n (files_of bd deps) -> fs_get fs n = fs_get fs0 n) ->
  fresh_at fs bd deps.
Proof.
  intros Hh (Hk & Hf) Hag.
  assert (Hr : run bd (cont fs) = run bd (cont fs0)).
  { apply run_agree; [exact Hh| |].
    - intros n Hn. apply Hag. now apply in_files_dirtying.
    - intros n d Hn Hne Hc. apply Hag.
      destruct (reported_in_files _ _ _ n d Hk Hn Hne Hc) as [Hd|Hd];
        [now apply in_files_dirtying|now apply in_files_deps]. }
  split.
  - now rewrite Hr.
  - intros o Ho. rewrite Hr, <- (Hf o Ho). apply cont_agree. apply Hag. now apply in_files_outs.
Qed.

Lemma fresh_at_fresh fs bd deps : fresh_at fs bd deps -> fresh fs bd.
Proof. intros (_ & H). exact H. Qed.

(* ------------------------------------------------------------------------------------ *)
(* trees *)

Lemma fs_wf_get : forall fs n t, fs_wf fs -> fs_get fs n = Some t -> wf_mtime t = true.
Proof.
  induction fs as [|[k v] fs IH]; intros n t W H; [discriminate|].
  inversion W as [|? ? W1 W2]; subst. rewrite fs_get_cons in H.
  destruct (bytes_eqb k n); [injection H as <-; exact W1|exact (IH n t W2 H)].
Qed.

Lemma fs_wf_set : forall fs n v, fs_wf fs -> mt_wf v -> fs_wf (fs_set fs n v).
Proof.
  induction fs as [|[k t] fs IH]; intros n v W Hv; cbn [fs_set].
  - destruct v as [t|]; [|constructor]. constructor; [exact Hv|constructor].
  - inversion W as [|? ? W1 W2]; subst. destruct (bytes_eqb k n).
    + destruct v as [t'|]; [constructor; [exact Hv|exact W2]|exact W2].
    + constructor; [exact W1|now apply IH].
Qed.

(* ------------------------------------------------------------------------------------ *)
(* manifests read from trees *)

Lemma fs_mtimes_agree fs fs0 : forall names l,
  fs_mtimes fs names = Some l -> fs_mtimes fs0 names = Some l ->
  forall n, In n names -> fs_get fs n = fs_get fs0 n.
Proof.
  induction names as [|k names IH]; intros l E E0 n Hn; [destruct Hn|]. cbn [fs_mtimes] in E, E0.
  destruct (fs_get fs k) as [t|] eqn:Ek; [|discriminate].
  destruct (fs_mtimes fs names) as [l1|] eqn:El; [|discriminate].
  destruct (fs_get fs0 k) as [t0|] eqn:Ek0; [|discriminate].
  destruct (fs_mtimes fs0 names) as [l2|] eqn:El0; [|discriminate].
  injection E as <-. injection E0 as E1 E2. subst t0 l2.
  destruct Hn as [<-|Hn]; [congruence|]. exact (IH l1 eq_refl eq_refl n Hn).
Qed.

Lemma fs_manifest_agree fs fs0 bd deps m :
  fs_manifest fs bd deps = Some m -> fs_manifest fs0 bd deps = Some m ->
  forall n, In n (files_of bd deps) -> fs_get fs n = fs_get fs0 n.
Proof.
  unfold fs_manifest, files_of. intros E E0 n Hn.
  destruct (fs_mtimes fs (wb_dirtying bd)) as [i|] eqn:Ei; [|discriminate].
  destruct (fs_mtimes fs deps) as [d|] eqn:Ed; [|discriminate].
  destruct (fs_mtimes fs (wb_outs bd)) as [o|] eqn:Eo; [|discriminate].
  destruct (fs_mtimes fs0 (wb_dirtying bd)) as [i0|] eqn:Ei0; [|discriminate].
  destruct (fs_mtimes fs0 deps) as [d0|] eqn:Ed0; [|discriminate].
  destruct (fs_mtimes fs0 (wb_outs bd)) as [o0|] eqn:Eo0; [|discriminate].
  injection E as <-. injection E0 as E1 E2 E3. subst i0 d0 o0.
  apply in_app_or in Hn as [Hn|Hn]; [exact (fs_mtimes_agree _ _ _ _ Ei Ei0 n Hn)|].
  apply in_app_or in Hn as [Hn|Hn]; [exact (fs_mtimes_agree _ _ _ _ Ed Ed0 n Hn)|exact (fs_mtimes_agree _ _ _ _ Eo Eo0 n Hn)].
Qed.

Lemma fs_mtimes_wf fs : fs_wf fs -> forall names l, fs_mtimes fs names = Some l ->
  (forall n, In n names -> wf_name n = true) -> forallb wf_file l = true.
Proof.
  intros W. induction names as [|k names IH]; intros l E Hn; cbn [fs_mtimes] in E.
  - injection E as <-. reflexivity.
  - destruct (fs_get fs k) as [t|] eqn:Ek; [|discriminate].
    destruct (fs_mtimes fs names) as [l1|] eqn:El; [|discriminate]. injection E as <-.
    cbn [forallb]. apply andb_true_iff. split.
    + unfold wf_file. cbn [fst snd]. apply andb_true_iff. split; [apply Hn; now left|exact (fs_wf_get _ _ _ W Ek)].
    + apply (IH l1 eq_refl). intros n H. apply Hn. now right.
Qed.

Lemma fs_manifest_wf fs bd deps m :
  fs_wf fs -> fs_manifest fs bd deps = Some m ->
  (forall n, In n (files_of bd deps) -> wf_name n = true) ->
  no255 (cmdline_of bd) = true -> wf_manifest m = true.
Proof.
  unfold fs_manifest, files_of. intros W E Hn Hc.
  destruct (fs_mtimes fs (wb_dirtying bd)) as [i|] eqn:Ei; [|discriminate].
  destruct (fs_mtimes fs deps) as [d|] eqn:Ed; [|discriminate].
  destruct (fs_mtimes fs (wb_outs bd)) as [o|] eqn:Eo; [|discriminate].
  injection E as <-. unfold wf_manifest. cbn [mf_ins mf_discovered mf_outs mf_cmdline].
  rewrite (fs_mtimes_wf fs W _ _ Ei) by (intros n H; apply Hn, in_or_app; now left).
  rewrite (fs_mtimes_wf fs W _ _ Ed) by (intros n H; apply Hn, in_or_app; right; apply in_or_app; now left).
  rewrite (fs_mtimes_wf fs W _ _ Eo) by (intros n H; apply Hn, in_or_app; right; apply in_or_app; now right).
  exact Hc.
Qed.

Lemma fs_manifest_rsp fs bd deps m : fs_manifest fs bd deps = Some m -> mf_rsp m = wb_rsp bd.
Proof.
  unfold fs_manifest. intro E.
  destruct (fs_mtimes fs (wb_dirtying bd)), (fs_mtimes fs deps), (fs_mtimes fs (wb_outs bd)); try discriminate.
  now injection E as <-.
Qed.

(* two manifests of the same step that do not collide and hash alike are the same manifest *)
Lemma same_hash_same_manifest fs fs0 bd deps m m0 :
  fs_manifest fs bd deps = Some m -> fs_manifest fs0 bd deps = Some m0 ->
  wf_manifest m = true -> wf_manifest m0 = true -> no_collision m m0 -> hash_build m = hash_build m0 ->
  m = m0.
Proof.
  intros E E0 W W0 Hnc Hh. apply manifest_stream_injective; auto.
  now rewrite (fs_manifest_rsp _ _ _ _ E), (fs_manifest_rsp _ _ _ _ E0).
Qed.

End HistBase.
