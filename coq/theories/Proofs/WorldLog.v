(* C09.11: the discovered dependencies and the hash persist through the log. *)
From Coq Require Import String.
From N2 Require Import Model.All Proofs.DbSpec Proofs.DbCodec Proofs.DbWriter Proofs.DbReader Proofs.DbMain.
From N2 Require Import Proofs.WorldSpec Proofs.WorldBase Proofs.WorldDeps Proofs.WorldDirty.
From Coq Require Import Lia.

Lemma record_extends_log : forall w b bd reported w1 h,
  record_finished w b bd reported = Ok (w1, Some h) ->
  exists bytes, ws_log w1 = ws_log w ++ bytes /\
    write_build (ws_tbl w) (wb_outs bd) (disc_of w1 b) h = Ok (bytes, ws_tbl w1).
Proof.
  intros w b bd reported w1 h E.
  pose proof (replace_wholesale _ _ _ _ _ _ E) as (Hk & _).
  destruct (record_finished_inv _ _ _ _ _ _ E) as (deps & wa & mi & wb & mo & Hk' & Ea & Eb & Hr).
  rewrite Hk in Hk'. injection Hk' as Hdeps.
  destruct Hr as [(_ & _ & ?)|(_ & m & bytes & tbl & _ & Hwb & Hw1 & Hh)]; [discriminate|].
  injection Hh as ->.
  apply stat_all_spec in Ea as (Xa & _). apply stat_all_spec in Eb as (Xb & _).
  pose proof (cache_ext_trans _ _ _ Xa Xb) as X.
  assert (Ht : ws_tbl wb = ws_tbl w) by apply X.
  assert (Hl : ws_log wb = ws_log w) by apply X.
  exists bytes. rewrite Hdeps, Hw1. cbn [ws_log ws_tbl]. rewrite Hl. split; [reflexivity|].
  now rewrite <- Ht.
Qed.

Lemma record_none_keeps_log : forall w b bd reported w1,
  record_finished w b bd reported = Ok (w1, None) -> ws_log w1 = ws_log w /\ ws_tbl w1 = ws_tbl w.
Proof.
  intros w b bd reported w1 E.
  destruct (record_finished_inv _ _ _ _ _ _ E) as (deps & wa & mi & wb & mo & _ & Ea & Eb & Hr).
  destruct Hr as [(_ & -> & _)|(_ & m & bytes & tbl & _ & _ & _ & ?)]; [|discriminate].
  apply stat_all_spec in Ea as (Xa & _). apply stat_all_spec in Eb as (Xb & _).
  pose proof (cache_ext_trans _ _ _ Xa Xb) as X. split; apply X.
Qed.

Lemma log_from_single tbl x bytes tbl' :
  write_build tbl (w_outs x) (w_deps x) (w_hash x) = Ok (bytes, tbl') ->
  log_from tbl [x] = Ok (bytes, tbl').
Proof. intros E. cbn [log_from]. rewrite E. cbn [bind]. now rewrite app_nil_r. Qed.

Lemma log_is_record : forall w ws b bd reported w1 h,
  log_is w ws -> record_finished w b bd reported = Ok (w1, Some h) ->
  log_is w1 (ws ++ [wr_of bd (disc_of w1 b) h]).
Proof.
  intros w ws b bd reported w1 h (body & Hf & Hl) E.
  destruct (record_extends_log _ _ _ _ _ _ E) as (bytes & Hl1 & Hwb).
  exists (body ++ bytes). split.
  - eapply log_from_app; [eassumption|]. now apply log_from_single.
  - now rewrite Hl1, Hl, app_assoc.
Qed.

Lemma log_is_no_record : forall w ws b bd reported w1,
  log_is w ws -> record_finished w b bd reported = Ok (w1, None) -> log_is w1 ws.
Proof.
  intros w ws b bd reported w1 (body & Hf & Hl) E.
  destruct (record_none_keeps_log _ _ _ _ _ E) as (H1 & H2). exists body. now rewrite H1, H2.
Qed.

Lemma log_is_fresh g fs : forall wL, load_state g fs [] = Ok wL -> log_is wL [].
Proof. intros wL E. cbn in E. injection E as <-. exists []. split; [reflexivity | now rewrite app_nil_r]. Qed.

Lemma last_applicable_snoc p : forall ws x b acc,
  last_applicable p (ws ++ [x]) b acc =
  if applicable p x b then Some (w_deps x, w_hash x) else last_applicable p ws b acc.
Proof. induction ws as [|y ws IH]; intros x b acc; cbn [app last_applicable]; [reflexivity | apply IH]. Qed.

Lemma assoc_nat_map {V W} (f : V -> W) b : forall l : list (nat * V),
  assoc_nat b (map (fun e => (fst e, f (snd e))) l) = option_map f (assoc_nat b l).
Proof.
  induction l as [|[k v] l IH]; [reflexivity|]. cbn [map assoc_nat fst snd].
  destruct (b =? k)%nat; [reflexivity | apply IH].
Qed.

Lemma load_state_nonempty g fs log : log <> [] ->
  load_state g fs log =
  match db_open true (producer_of g) log with
  | OpenOk st file =>
    Ok (mkW fs [] (map (fun e => (fst e, fst (snd e))) (ld_builds st))
            (map (fun e => (fst e, snd (snd e))) (ld_builds st)) (ld_tbl st) file)
  | OpenErr m => Err (bs "load .n2_db: " ++ m)
  | OpenPanic s => Panic s
  end.
Proof. destruct log; [congruence | reflexivity]. Qed.

(* a Work loaded from the log of a crash-free run sees, for every step, the latest applicable record *)
Lemma load_log_is : forall g fs w ws, log_is w ws -> Forall in_bounds ws -> table_small ws ->
  exists wL, load_state g fs (ws_log w) = Ok wL /\
    ws_fs wL = fs /\ ws_cache wL = [] /\ ws_log wL = ws_log w /\ ws_tbl wL = ws_tbl w /\ log_is wL ws /\
    forall b, assoc_nat b (ws_disc wL) = option_map fst (last_applicable (producer_of g) ws b None) /\
              assoc_nat b (ws_hashes wL) = option_map snd (last_applicable (producer_of g) ws b None).
Proof.
  intros g fs w ws (body & Hf & Hl) Hb Hs.
  destruct (log_full (producer_of g) ws Hb Hs) as (recs & tbl' & st & E & Hok & _ & _ & Hap & Ht & Hld).
  rewrite Hf in E. injection E as -> <-.
  rewrite load_state_nonempty.
  2:{ rewrite Hl. intros H. apply (f_equal (@length N)) in H. rewrite app_length, length_signature in H. discriminate. }
  rewrite Hl, (db_open_encs_whole _ _ _ Hok Hap).
  eexists. split; [reflexivity|]. cbn [ws_fs ws_cache ws_log ws_tbl ws_disc ws_hashes].
  repeat split; try assumption.
  - exists (encs recs). cbn [ws_tbl ws_log]. rewrite Ht. now split.
  - rewrite (assoc_nat_map fst). f_equal. apply Hld.
  - rewrite (assoc_nat_map snd). f_equal. apply Hld.
Qed.

(* C09.11 *)
Lemma persist_through_log : forall g fs w ws b bd reported w1 h,
  log_is w ws -> record_finished w b bd reported = Ok (w1, Some h) ->
  Forall in_bounds (ws ++ [wr_of bd (disc_of w1 b) h]) -> table_small (ws ++ [wr_of bd (disc_of w1 b) h]) ->
  exists wL, load_state g fs (ws_log w1) = Ok wL /\
    ws_fs wL = fs /\ ws_cache wL = [] /\ ws_log wL = ws_log w1 /\
    log_is wL (ws ++ [wr_of bd (disc_of w1 b) h]) /\
    forall b',
      if applicable (producer_of g) (wr_of bd (disc_of w1 b) h) b'
      then disc_of wL b' = disc_of w1 b /\ assoc_nat b' (ws_hashes wL) = Some h
      else assoc_nat b' (ws_disc wL) = option_map fst (last_applicable (producer_of g) ws b' None) /\
           assoc_nat b' (ws_hashes wL) = option_map snd (last_applicable (producer_of g) ws b' None).
Proof.
  intros g fs w ws b bd reported w1 h Hlog E Hb Hs.
  pose proof (log_is_record _ _ _ _ _ _ _ Hlog E) as Hlog1.
  destruct (load_log_is g fs w1 _ Hlog1 Hb Hs) as (wL & El & Hfs & Hc & Hl & _ & HlL & Hld).
  exists wL. repeat split; try assumption.
  intros b'. destruct (Hld b') as (Hd & Hh). rewrite last_applicable_snoc in Hd, Hh.
  destruct (applicable (producer_of g) (wr_of bd (disc_of w1 b) h) b').
  - cbn [option_map fst snd wr_of w_deps w_hash] in Hd, Hh. split; [|assumption].
    unfold disc_of at 1. now rewrite Hd.
  - now split.
Qed.

(* the step that produces all of bd's outputs gets the record *)
Lemma applicable_own g bd deps h b : wb_outs bd <> [] ->
  (forall o, In o (wb_outs bd) -> producer_of g o = Some b) ->
  applicable (producer_of g) (wr_of bd deps h) b = true.
Proof.
  intros Hne Hp. unfold applicable, wr_of. cbn [w_outs].
  destruct (wb_outs bd) as [|o outs] eqn:Eo; [congruence|].
  apply forallb_forall. intros x Hx. rewrite (Hp x Hx). apply Nat.eqb_refl.
Qed.

Lemma persist_own_step : forall g fs w ws b bd reported w1 h,
  log_is w ws -> record_finished w b bd reported = Ok (w1, Some h) ->
  Forall in_bounds (ws ++ [wr_of bd (disc_of w1 b) h]) -> table_small (ws ++ [wr_of bd (disc_of w1 b) h]) ->
  wb_outs bd <> [] -> (forall o, In o (wb_outs bd) -> producer_of g o = Some b) ->
  exists wL, load_state g fs (ws_log w1) = Ok wL /\ ws_fs wL = fs /\ ws_cache wL = [] /\
    disc_of wL b = disc_of w1 b /\ assoc_nat b (ws_hashes wL) = Some h.
Proof.
  intros g fs w ws b bd reported w1 h Hlog E Hb Hs Hne Hp.
  destruct (persist_through_log g fs _ _ _ _ _ _ _ Hlog E Hb Hs) as (wL & El & Hfs & Hc & _ & _ & H).
  specialize (H b). rewrite (applicable_own g bd _ h b Hne Hp) in H.
  exists wL. now repeat split.
Qed.

(* the null build, through the log: record, exit, start again on the untouched tree *)
Lemma null_build_after_reload : forall g w ws b bd reported w1 h,
  log_is w ws -> record_finished w b bd reported = Ok (w1, Some h) ->
  Forall in_bounds (ws ++ [wr_of bd (disc_of w1 b) h]) -> table_small (ws ++ [wr_of bd (disc_of w1 b) h]) ->
  wb_cmdline bd <> None -> wb_outs bd <> [] ->
  (forall o, In o (wb_outs bd) -> producer_of g o = Some b) ->
  (forall n, In n (wb_dirtying bd ++ disc_of w1 b) -> producer_of g n = None) ->
  exists wL, load_state g (ws_fs w1) (ws_log w1) = Ok wL /\ snd (check_build_dirty g wL b bd) = DClean.
Proof.
  intros g w ws b bd reported w1 h Hlog E Hb Hs Hc Hne Hp Hsrc.
  destruct (persist_own_step g (ws_fs w1) _ _ _ _ _ _ _ Hlog E Hb Hs Hne Hp) as (wL & El & Hfs & Hca & Hd & Hh).
  exists wL. split; [assumption|].
  eapply clean_after_record; try eassumption.
  - intros n v Hn. rewrite Hca in Hn. discriminate.
  - intros n Hn Hpn. now rewrite (Hsrc n Hn) in Hpn.
Qed.
