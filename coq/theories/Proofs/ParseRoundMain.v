(* C10, parser half: the round-trip theorems on explicit scanners.
   The buffer is [pre ++ text ++ rest ++ [NUL]] and the scanner stands at [text]. *)
From Coq Require Import String.
From N2 Require Import Model.All Proofs.ParseSpell Proofs.ParseRoundScan Proofs.ParseRound1
     Proofs.ParseRound2 Proofs.ParseRound3.

Lemma at_final buf L0 s' pre' suf' o l :
  at_ buf L0 s' pre' suf' -> o = length pre' -> l = (L0 + nlz pre')%Z -> s' = mkScanner buf o l.
Proof.
  intros (Hb & _ & Ho & Hl) -> ->. destruct s' as [b o' l']. cbn in *. congruence.
Qed.

(* S2: the build statement behind "build" and its white space *)
Theorem build_roundtrip fixed pre L Bt rest d bl s fuel :
  spells_build_line d L -> spells_block (fun _ => true) bl Bt ->
  (exists c r, rest ++ [0%N] = c :: r /\ c <> 32%N) ->
  ~ In 13%N (sbuf s) ->
  sbuf s = pre ++ L ++ Bt ++ rest ++ [0%N] -> sofs s = length pre ->
  read_build fixed fuel s = SFuel \/
  exists b, read_build fixed fuel s =
            SOk (SBuild b) (mkScanner (sbuf s) (length (pre ++ L ++ Bt)) (sline s + nlz (L ++ Bt))) /\
            norm_build b = norm_build (decl_build d (sline s) (block_vars bl)).
Proof.
  intros HL Hbl HX H13 Hb Ho.
  assert (Hb' : sbuf s = pre ++ (L ++ Bt ++ rest ++ [0%N])) by exact Hb.
  pose proof (at_intro (sbuf s) (sline s) pre _ s eq_refl Hb' Ho eq_refl) as Hat.
  destruct (build_at (sbuf s) _ H13 fixed d L bl Bt (rest ++ [0%N]) pre s fuel HL Hbl HX Hat)
    as [E|(st & s' & E & H' & b & -> & Hnb)]; [now left|].
  right. exists b. split.
  - rewrite E. f_equal. eapply at_final; [exact H' | reflexivity|]. rewrite !nlz_app. lia.
  - rewrite Hnb. do 2 f_equal. lia.
Qed.

(* S3: blank lines, comments and file-level bindings [F], then the statement [st] *)
Theorem statement_roundtrip fixed pre F txt rest vs vs' st s fuel :
  spells_pre vs vs' F -> spells_stmt (sline s + nlz F) st txt -> follow_ok st (rest ++ [0%N]) ->
  ~ In 13%N (sbuf s) ->
  sbuf s = pre ++ F ++ txt ++ rest ++ [0%N] -> sofs s = length pre ->
  parser_read fixed fuel s vs = SFuel \/
  exists st', parser_read fixed fuel s vs =
              SOk (Some st', vs')
                  (mkScanner (sbuf s) (length (pre ++ F ++ txt)) (sline s + nlz (F ++ txt))) /\
              norm_stmt st' = norm_stmt st.
Proof.
  intros HF Hst HX H13 Hb Ho.
  assert (Hb' : sbuf s = pre ++ (F ++ txt ++ rest ++ [0%N])) by exact Hb.
  pose proof (at_intro (sbuf s) (sline s) pre _ s eq_refl Hb' Ho eq_refl) as Hat.
  assert (Hst' : spells_stmt (sline s - nlz pre + nlz (pre ++ F)) st txt).
  { replace (sline s - nlz pre + nlz (pre ++ F))%Z with (sline s + nlz F)%Z by (rewrite nlz_app; lia).
    exact Hst. }
  destruct (read_stmt_at (sbuf s) _ H13 fixed F st txt vs vs' pre (rest ++ [0%N]) s fuel HF Hst' HX Hat)
    as [E|(r & s' & E & H' & st' & -> & Hn)]; [now left|].
  right. exists st'. split; [|exact Hn].
  rewrite E. f_equal. eapply at_final; [exact H' | now norm_app|]. rewrite !nlz_app. lia.
Qed.

(* ... then the end of the file *)
Theorem eof_roundtrip fixed pre F vs vs' s fuel :
  spells_pre vs vs' F -> ~ In 13%N (sbuf s) ->
  sbuf s = pre ++ F ++ [0%N] -> sofs s = length pre ->
  parser_read fixed fuel s vs = SFuel \/
  parser_read fixed fuel s vs =
  SOk (None, vs') (mkScanner (sbuf s) (length (pre ++ F)) (sline s + nlz F)).
Proof.
  intros HF H13 Hb Ho.
  pose proof (at_intro (sbuf s) (sline s) pre _ s eq_refl Hb Ho eq_refl) as Hat.
  destruct (read_eof_at (sbuf s) _ H13 fixed F vs vs' pre s fuel HF Hat)
    as [E|(r & s' & E & -> & H')]; [now left|].
  right. rewrite E. f_equal. eapply at_final; [exact H' | reflexivity|]. rewrite !nlz_app. lia.
Qed.

(* two spellings of the same statement (in front of the same file-level bindings, however spelled)
   are read as the same statement *)
Corollary statement_spelling_independent fixed st vs vs'
          pre1 F1 t1 rest1 s1 fuel1 r1 z1 pre2 F2 t2 rest2 s2 fuel2 r2 z2 :
  spells_pre vs vs' F1 -> spells_stmt (sline s1 + nlz F1) st t1 -> follow_ok st (rest1 ++ [0%N]) ->
  ~ In 13%N (sbuf s1) -> sbuf s1 = pre1 ++ F1 ++ t1 ++ rest1 ++ [0%N] -> sofs s1 = length pre1 ->
  spells_pre vs vs' F2 -> spells_stmt (sline s2 + nlz F2) st t2 -> follow_ok st (rest2 ++ [0%N]) ->
  ~ In 13%N (sbuf s2) -> sbuf s2 = pre2 ++ F2 ++ t2 ++ rest2 ++ [0%N] -> sofs s2 = length pre2 ->
  parser_read fixed fuel1 s1 vs = SOk r1 z1 -> parser_read fixed fuel2 s2 vs = SOk r2 z2 ->
  exists st1 st2, r1 = (Some st1, vs') /\ r2 = (Some st2, vs') /\ norm_stmt st1 = norm_stmt st2.
Proof.
  intros HF1 Hst1 HX1 C1 B1 O1 HF2 Hst2 HX2 C2 B2 O2 R1 R2.
  destruct (statement_roundtrip fixed pre1 F1 t1 rest1 vs vs' st s1 fuel1 HF1 Hst1 HX1 C1 B1 O1)
    as [E|(st1 & E1 & N1)]; [congruence|].
  destruct (statement_roundtrip fixed pre2 F2 t2 rest2 vs vs' st s2 fuel2 HF2 Hst2 HX2 C2 B2 O2)
    as [E|(st2 & E2 & N2)]; [congruence|].
  rewrite R1 in E1. rewrite R2 in E2. injection E1 as -> _. injection E2 as -> _.
  exists st1, st2. split; [reflexivity|]. split; [reflexivity | congruence].
Qed.
