(* Proofs about Model/Fancy.v, part 3: the cursor-up count of a frame is the number of line breaks
   painted, provided no message contains one (descriptions and command lines come from the manifest,
   where a line break cannot be written; last-output lines come from find_last_line). *)
From Coq Require Import String.
From Coq Require Import List NArith Arith Lia Bool.
From N2 Require Import Base.Base Model.Scanner Model.Render Model.Fancy.
From N2 Require Import Proofs.RenderTrunc Proofs.RenderMsg Proofs.RenderBar Proofs.FixRender Proofs.FancyLossy Proofs.FancyFrame.
Import ListNotations.

Definition not_nl (c : N) : bool := negb (c =? 10)%N.
Definition nonl (l : bytes) : Prop := forallb not_nl l = true.
Definition nl_count (l : bytes) : nat := length (filter (fun c => (c =? 10)%N) l).

Lemma nonl_app a b : nonl (a ++ b) <-> nonl a /\ nonl b.
Proof. unfold nonl. rewrite forallb_app, andb_true_iff. tauto. Qed.

Lemma nonl_nil : nonl []. Proof. reflexivity. Qed.

Lemma nonl_count l : nonl l -> nl_count l = 0.
Proof.
  unfold nonl, nl_count. induction l as [|c r IH]; [reflexivity|]. cbn [forallb filter].
  intros H. apply andb_true_iff in H as [Hc Hr]. unfold not_nl in Hc. apply negb_true_iff in Hc.
  rewrite Hc. apply IH, Hr.
Qed.

Lemma nl_count_app a b : nl_count (a ++ b) = nl_count a + nl_count b.
Proof. unfold nl_count. now rewrite filter_app, app_length. Qed.

Lemma nonl_digits d : forallb is_digit d = true -> nonl d.
Proof.
  unfold nonl. induction d as [|c r IH]; [reflexivity|]. cbn [forallb]. intros H.
  apply andb_true_iff in H as [Hc Hr]. rewrite (IH Hr), andb_true_r.
  unfold is_digit in Hc. apply andb_true_iff in Hc as [H1 _]. apply N.leb_le in H1.
  unfold not_nl. apply negb_true_iff. apply N.eqb_neq. lia.
Qed.

Lemma nonl_dec n : nonl (dec_of_N n).
Proof. destruct (dec_of_N_spec n) as (d & E & _ & Hd & _). rewrite E. apply nonl_digits, Hd. Qed.

Lemma nonl_repeat c n : c <> 10%N -> nonl (repeat_byte c n).
Proof.
  intros Hc. unfold nonl. induction n as [|n IH]; [reflexivity|]. cbn [repeat_byte forallb].
  rewrite IH, andb_true_r. unfold not_nl. apply negb_true_iff, N.eqb_neq, Hc.
Qed.

Lemma nonl_firstn n l : nonl l -> nonl (firstn n l).
Proof.
  unfold nonl. revert l; induction n as [|n IH]; intros l H; [reflexivity|].
  destruct l as [|c r]; [reflexivity|]. cbn [firstn forallb] in *.
  apply andb_true_iff in H as [Hc Hr]. now rewrite Hc, (IH r Hr).
Qed.

Lemma nonl_truncate s max : nonl s -> nonl (truncate s max).
Proof. intros H. unfold truncate. destruct (length s <=? max)%nat; [exact H | apply nonl_firstn, H]. Qed.

Lemma nonl_time_note secs : nonl (time_note secs).
Proof.
  unfold time_note. destruct (2 <? secs)%N; [|reflexivity].
  apply nonl_app. split; [reflexivity|]. apply nonl_app. split; [apply nonl_dec | reflexivity].
Qed.

Lemma nonl_task_message m secs cols r : nonl m -> task_message m secs cols = Ok r -> nonl r.
Proof.
  intros Hm. unfold task_message. cbv zeta. intros E. inversion E; subst. apply nonl_truncate.
  apply nonl_app. split; [|apply nonl_time_note].
  destruct (cols <=? length m + length (time_note secs))%nat; [|exact Hm].
  apply nonl_app. split; [apply nonl_truncate, Hm | reflexivity].
Qed.

Lemma nonl_bar c n : nonl (progress_bar c n).
Proof.
  unfold progress_bar. destruct (counts_total c =? 0)%N; [apply nonl_repeat; discriminate|].
  cbn [fold_left]. unfold bar_step. cbn [fst].
  repeat (apply nonl_app; split); try apply nonl_nil; apply nonl_repeat; discriminate.
Qed.

Lemma nonl_lossy_n : forall n s, (length s <= n)%nat -> nonl s -> nonl (lossy s).
Proof.
  unfold nonl.
  induction n as [|n IH]; intros s Hl.
  - destruct s; [reflexivity | simpl in Hl; lia].
  - destruct s as [|b r]; [reflexivity|]. cbn [length] in Hl.
    assert (Hr : forall t, (length t <= length r)%nat -> forallb not_nl t = true -> forallb not_nl (lossy t) = true)
      by (intros; apply IH; [lia | assumption]).
    assert (Hrep : forall y, forallb not_nl (u_repl ++ y) = forallb not_nl y) by reflexivity.
    cbn [lossy forallb]. intros H. apply andb_true_iff in H as [Hb Hrest].
    destruct (b <? 128)%N. { cbn [forallb]. rewrite Hb. apply Hr; [lia | exact Hrest]. }
    destruct ((194 <=? b) && (b <=? 223))%N.
    { destruct r as [|c1 r1]; [reflexivity|]. cbn [forallb] in Hrest. apply andb_true_iff in Hrest as [H1 Hr1].
      destruct (u_cont c1).
      - cbn [forallb]. rewrite Hb, H1. apply Hr; [cbn [length]; lia | exact Hr1].
      - rewrite Hrep. apply Hr; [lia|]. cbn [forallb]. now rewrite H1, Hr1. }
    destruct ((224 <=? b) && (b <=? 239))%N.
    { destruct r as [|c1 r1]; [reflexivity|]. cbn [forallb] in Hrest. apply andb_true_iff in Hrest as [H1 Hr1].
      destruct (second3 b c1).
      - destruct r1 as [|c2 r2]; [reflexivity|]. cbn [forallb] in Hr1. apply andb_true_iff in Hr1 as [H2 Hr2].
        destruct (u_cont c2).
        + cbn [forallb]. rewrite Hb, H1, H2. apply Hr; [cbn [length]; lia | exact Hr2].
        + rewrite Hrep. apply Hr; [cbn [length]; lia|]. cbn [forallb]. now rewrite H2, Hr2.
      - rewrite Hrep. apply Hr; [lia|]. cbn [forallb]. now rewrite H1, Hr1. }
    destruct ((240 <=? b) && (b <=? 244))%N.
    { destruct r as [|c1 r1]; [reflexivity|]. cbn [forallb] in Hrest. apply andb_true_iff in Hrest as [H1 Hr1].
      destruct (second4 b c1).
      - destruct r1 as [|c2 r2]; [reflexivity|]. cbn [forallb] in Hr1. apply andb_true_iff in Hr1 as [H2 Hr2].
        destruct (u_cont c2).
        + destruct r2 as [|c3 r3]; [reflexivity|]. cbn [forallb] in Hr2. apply andb_true_iff in Hr2 as [H3 Hr3].
          destruct (u_cont c3).
          * cbn [forallb]. rewrite Hb, H1, H2, H3. apply Hr; [cbn [length]; lia | exact Hr3].
          * rewrite Hrep. apply Hr; [cbn [length]; lia|]. cbn [forallb]. now rewrite H3, Hr3.
        + rewrite Hrep. apply Hr; [cbn [length]; lia|]. cbn [forallb]. now rewrite H2, Hr2.
      - rewrite Hrep. apply Hr; [lia|]. cbn [forallb]. now rewrite H1, Hr1. }
    rewrite Hrep. apply Hr; [lia | exact Hrest].
Qed.

Lemma nonl_lossy s : nonl s -> nonl (lossy s).
Proof. apply (nonl_lossy_n (length s)). lia. Qed.

(* ---- lines of a frame ---- *)

Definition task_nonl (t : ftask) : Prop := nonl (ft_msg t) /\ forall l, ft_last t = Some l -> nonl l.

Lemma task_lines_nonl now cols t ls :
  task_nonl t -> task_lines now cols t = Ok ls -> Forall nonl ls.
Proof.
  intros [Hm Hl]. unfold task_lines. cbv zeta.
  destruct (task_message (ft_msg t) ((now - ft_start t) / 1000)%N cols) as [m| | | |] eqn:Em; cbn [bind]; try discriminate.
  pose proof (nonl_task_message _ _ _ _ Hm Em) as Hmm.
  destruct (ft_last t) as [l|] eqn:El.
  - destruct (cols <? 2)%nat; [discriminate|]. intros E. inversion E; subst.
    constructor; [exact Hmm|]. constructor; [|constructor].
    change (nonl (bs "  " ++ truncate l (cols - 2))). apply nonl_app. split; [reflexivity|].
    apply nonl_truncate, Hl. reflexivity.
  - intros E. inversion E; subst. constructor; [exact Hmm | constructor].
Qed.

Lemma body_lines_nonl now cols : forall ts ls,
  Forall task_nonl ts -> body_lines now cols ts = Ok ls -> Forall nonl ls.
Proof.
  induction ts as [|t r IH]; intros ls H E.
  - inversion E; subst. constructor.
  - inversion H as [|? ? Ht Hr]; subst. cbn [body_lines] in E.
    destruct (task_lines now cols t) as [a| | | |] eqn:Ea; cbn [bind] in E; try discriminate.
    destruct (body_lines now cols r) as [b| | | |] eqn:Eb; cbn [bind] in E; try discriminate.
    inversion E; subst. apply Forall_app. split; [exact (task_lines_nonl _ _ _ _ Ht Ea) | exact (IH _ Hr eq_refl)].
Qed.

Lemma nl_count_lines lines : Forall nonl lines -> nl_count (concat (map with_nl lines)) = length lines.
Proof.
  induction 1 as [|l r Hl Hr IH]; [reflexivity|]. cbn [map concat length].
  rewrite nl_count_app, IH. unfold with_nl. rewrite nl_count_app, (nonl_count l Hl). reflexivity.
Qed.

Lemma nonl_more n : Forall nonl (more_line n).
Proof.
  unfold more_line. destruct (max_tasks <? n)%nat; [|constructor]. constructor; [|constructor].
  apply nonl_app. split; [reflexivity|]. apply nonl_app. split; [apply nonl_dec | reflexivity].
Qed.

Lemma nonl_cursor_up n : nonl (cursor_up n).
Proof.
  unfold cursor_up. change (27%N :: bs "[" ++ dec_of_nat n ++ bs "A") with ([27%N; 91%N] ++ dec_of_nat n ++ bs "A").
  apply nonl_app. split; [reflexivity|]. apply nonl_app. split; [apply nonl_dec | reflexivity].
Qed.

Lemma status_line_count c n : nl_count (status_line c n) = 1.
Proof.
  unfold status_line. cbv zeta.
  repeat rewrite nl_count_app.
  rewrite (nonl_count (progress_bar c 40%N) (nonl_bar c 40%N)).
  rewrite !(nonl_count (dec_of_N _) (nonl_dec _)).
  unfold dec_of_nat. rewrite (nonl_count (dec_of_N _) (nonl_dec _)).
  destruct (0 <? c_failed c)%N; [rewrite nl_count_app, (nonl_count (dec_of_N _) (nonl_dec _))|]; reflexivity.
Qed.

(* the frame minus the pending text contains exactly as many line breaks as the cursor-up sequence
   at its end says: the next frame starts on the status line of this one *)
Theorem frame_line_count st now cols :
  (2 <= cols)%nat -> Forall task_nonl (fs_tasks st) ->
  exists lines st',
    f_print st now cols =
      Ok (fs_pending st ++ status_line (fs_counts st) (length (fs_tasks st)) ++ concat (map with_nl lines)
            ++ cursor_up (1 + length lines), st') /\
    nl_count (status_line (fs_counts st) (length (fs_tasks st)) ++ concat (map with_nl lines) ++ cursor_up (1 + length lines))
      = (1 + length lines)%nat.
Proof.
  intros Hc Hn. unfold f_print. cbv zeta.
  destruct (body_lines_spec now cols (firstn max_tasks (fs_tasks st)) Hc) as (b & Eb & _).
  rewrite Eb. cbn [bind]. do 2 eexists. split; [reflexivity|].
  assert (Hb : Forall nonl b) by (eapply body_lines_nonl; [apply firstn_Forall, Hn | exact Eb]).
  rewrite !nl_count_app, status_line_count, nl_count_lines, (nonl_count _ (nonl_cursor_up _)); [lia|].
  apply Forall_app; split; [exact Hb | apply nonl_more].
Qed.

(* the premise is kept by the display operations when the texts they are given contain no line
   break: lossy decoding introduces none *)
Theorem lossy_keeps_nonl s : nonl s -> nonl (lossy s).
Proof. exact (nonl_lossy s). Qed.
