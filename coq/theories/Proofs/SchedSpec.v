(* Specification vocabulary for the scheduler theorems (C01 C04 C05 C06 C18 C19).
   Definitions only. *)
From N2 Require Import Model.All.

(* ---- graph relations ---- *)

(* well-formed graph: every id that occurs is in range *)
Definition graph_wf (g : graph) : Prop :=
  (forall f b, file_input g f = Some b -> b < length (g_builds g)) /\
  (forall b f, b < length (g_builds g) -> In f (b_ins (get_build g b)) -> f < length (g_files g)).

(* [p] produces an ordering (explicit, implicit or order-only) input of [b] *)
Definition ordering_producer (g : graph) (b p : nat) : Prop :=
  exists f, In f (ordering_ins (get_build g b)) /\ file_input g f = Some p.

(* [p] produces any input of [b], validation inputs included *)
Definition any_producer (g : graph) (b p : nat) : Prop :=
  exists f, In f (b_ins (get_build g b)) /\ file_input g f = Some p.

(* transitive closure *)
Inductive ord_reach (g : graph) : nat -> nat -> Prop :=
| or_step b p : ordering_producer g b p -> ord_reach g b p
| or_trans b p q : ordering_producer g b p -> ord_reach g p q -> ord_reach g b q.

(* the steps needed by a set of files: least set containing their producers and closed under
   producers of any input *)
Inductive needed (g : graph) (targets : list nat) : nat -> Prop :=
| nd_target f b : In f targets -> file_input g f = Some b -> needed g targets b
| nd_input b p : needed g targets b -> any_producer g b p -> needed g targets p.

(* ---- census ---- *)

Definition count_state (g : graph) (s : bstates) (st : bstate) (nonphony_only : bool) : Z :=
  Z.of_nat (length (filter (fun i => bstate_eqb (get_state s i) st &&
                                     (negb nonphony_only || negb (b_phony (get_build g i))))
                           (indices (g_builds g)))).

Definition census (g : graph) (s : bstates) : counts6 :=
  mkC6 (count_state g s Want true) (count_state g s Ready true) (count_state g s Queued true)
       (count_state g s Running true) (count_state g s Done true) (count_state g s Failed true).

Definition running_in_pool (g : graph) (s : bstates) (name : bytes) : Z :=
  Z.of_nat (length (filter (fun i => bstate_eqb (get_state s i) Running &&
                                     bytes_eqb (pool_name (get_build g i)) name)
                           (indices (g_builds g)))).

Definition wanted_b (s : bstates) (b : nat) : Prop := get_state s b <> Unknown.

(* ---- the states the implementation can be in ---- *)

(* [wanted g s s']: s' results from s by a sequence of successful Work::want_file calls *)
Inductive wanted (g : graph) : bstates -> bstates -> Prop :=
| w_refl s : wanted g s s
| w_step s s1 s2 l l' f rdy :
    wanted g s s1 ->
    want_file (want_fuel g) g (s1, l) [] f = Ok ((s2, l'), rdy) ->
    wanted g s s2.

(* run states reachable by an invocation: a fresh Work, wanted targets, accepted events;
   the manifest-regeneration phase may hand its state over to the main phase *)
Inductive reachable (cf : config) (decls : list (bytes * nat)) : rstate -> Prop :=
| reach_init s fl :
    wanted (cf_graph cf) (bs_new (length (g_builds (cf_graph cf))) decls) s ->
    reachable cf decls (run_init s fl)
| reach_step r e r' :
    reachable cf decls r -> accept1 cf r e = Some r' -> reachable cf decls r'
| reach_reuse r s fl :
    reachable cf decls r -> rs_ctl r = CReturned (Some true) ->
    wanted (cf_graph cf) (rs_bs r) s ->
    reachable cf decls (run_init s fl).

(* number of occurrences of [EStart b] in a trace *)
Fixpoint starts_of (b : nat) (tr : list event) : nat :=
  match tr with
  | [] => 0
  | EStart b' :: r => (if (b =? b')%nat then 1 else 0) + starts_of b r
  | _ :: r => starts_of b r
  end.

(* ---- C06 vocabulary (appended by proof-sched-want) ---- *)

(* the wanted part of the graph has no cycle of ordering edges: a rank decreases along them *)
Definition acyclic_wanted (g : graph) (s : bstates) : Prop :=
  exists rank : nat -> nat,
    forall b p, get_state s b <> Unknown -> ordering_producer g b p -> rank p < rank b.

(* file [b] is an ordering input of the step that produces file [a] *)
Definition ord_edge (g : graph) (a b : nat) : Prop :=
  exists p, file_input g a = Some p /\ In b (ordering_ins (get_build g p)).

(* consecutive elements are ordering edges *)
Fixpoint ord_chain (g : graph) (l : list nat) : Prop :=
  match l with
  | a :: (b :: _) as r => ord_edge g a b /\ ord_chain g r
  | _ => True
  end.

(* ---- C19 vocabulary (appended by proof-sched-live) ---- *)

(* number of non-phony steps that have a state *)
Definition count_wanted_nonphony (g : graph) (s : bstates) : nat :=
  length (filter (fun i => negb (bstate_eqb (get_state s i) Unknown) && negb (b_phony (get_build g i)))
                 (indices (g_builds g))).
