(* Histories with a changing manifest: the record invariant [Forall wprov] provides what
   Proofs/HistInv.v needs; one invocation; induction over the history; the three theorems. *)
From Coq Require Import Lia ZArith List Bool Arith.
From N2 Require Import Model.All Proofs.SchedSpec Proofs.SchedInv Proofs.SchedRunBase
     Proofs.SchedRunStep Proofs.SchedRunCore Proofs.SchedRunAux Proofs.SchedRunRInv Proofs.SchedRunThms
     Proofs.SchedWantInv Proofs.SchedRunFinal Proofs.SchedLive.
From N2 Require Import Proofs.DbSpec Proofs.WorldSpec Proofs.WorldBase Proofs.WorldDeps Proofs.WorldDirty
     Proofs.WorldHash Proofs.WorldLog Proofs.JointSpec Proofs.JointBase Proofs.JointSched Proofs.JointInv
     Proofs.JointThms Proofs.JointLog Proofs.JointMain
     Proofs.HistSpec Proofs.HistBase Proofs.HistInv Proofs.HistMain Proofs.HistClean Proofs.HistGSpec.
Import ListNotations.

(* ------------------------------------------------------------------------------------ *)
(* lists of records, manifests *)

Lemma last_applicable_In (P : bytes -> option nat) b : forall ws acc d h,
  last_applicable P ws b acc = Some (d, h) ->
  acc = Some (d, h) \/ exists x, In x ws /\ applicable P x b = true /\ w_deps x = d /\ w_hash x = h.
Proof.
  induction ws as [|y ws IH]; intros acc d h H; cbn [last_applicable] in H; [now left|].
  destruct (IH _ d h H) as [E|(x & Hx & Hr)].
  - destruct (applicable P y b) eqn:Ea; [|now left].
    injection E as <- <-. right. exists y. cbn [In]. auto.
  - right. exists x. cbn [In]. tauto.
Qed.

Lemma fs_mtimes_names fs : forall names l, fs_mtimes fs names = Some l -> map fst l = names.
Proof.
  induction names as [|k names IH]; intros l E; cbn [fs_mtimes] in E.
  - now injection E as <-.
  - destruct (fs_get fs k) as [t|]; [|discriminate].
    destruct (fs_mtimes fs names) as [l1|] eqn:El; [|discriminate]. injection E as <-.
    cbn [map fst]. now rewrite (IH l1 eq_refl).
Qed.

Lemma fs_manifest_shape fs bd deps m : fs_manifest fs bd deps = Some m ->
  map fst (mf_ins m) = wb_dirtying bd /\ map fst (mf_discovered m) = deps /\
  map fst (mf_outs m) = wb_outs bd /\ mf_cmdline m = cmdline_of bd /\ mf_rsp m = wb_rsp bd.
Proof.
  unfold fs_manifest. intro E.
  destruct (fs_mtimes fs (wb_dirtying bd)) as [i|] eqn:Ei; [|discriminate].
  destruct (fs_mtimes fs deps) as [d|] eqn:Ed; [|discriminate].
  destruct (fs_mtimes fs (wb_outs bd)) as [o|] eqn:Eo; [|discriminate].
  injection E as <-. cbn [mf_ins mf_discovered mf_outs mf_cmdline mf_rsp].
  rewrite (fs_mtimes_names _ _ _ Ei), (fs_mtimes_names _ _ _ Ed), (fs_mtimes_names _ _ _ Eo). auto.
Qed.

Lemma wf_files_names l : forallb wf_file l = true -> forall n, In n (map fst l) -> wf_name n = true.
Proof.
  intros H n Hn. apply in_map_iff in Hn. destruct Hn as ([n' t] & <- & Hin).
  rewrite forallb_forall in H. specialize (H _ Hin). unfold wf_file in H. cbn [fst snd] in *.
  now apply andb_true_iff in H.
Qed.

Section GInvoke.
Variable content : Type.
Variable stamp : bytes -> mtime -> content.
Variable cmd : bytes -> option (bytes * bytes) -> (bytes -> option content) -> (bytes -> content) * list bytes.
Variable GRh : N -> manifest -> Prop.
Variable cf : config.
Variable decls : list (bytes * nat).
Variable wg : wgraph.
Notation g := (cf_graph cf).
Notation nb := (length (g_builds (cf_graph cf))).
Notation bd_ b := (get_wbuild wg b).
Notation P := (producer_of wg).
Notation cont := (cont content stamp).
Notation run := (run content cmd).
Notation fresh_at := (fresh_at content stamp cmd).
Notation wprov := (wprov content stamp cmd GRh).
Notation GRrec := (GRrec GRh).
Notation nc_hash := (nc_hash GRh wg).

Hypothesis Hst : static_ok content cmd (cf_graph cf) wg.
Hypothesis Had : cf_adopt cf = false.

(* freshness moves between two build statements with the same manifest parts *)
Lemma fresh_at_same_parts bd0 bd fs deps :
  wb_dirtying bd = wb_dirtying bd0 -> wb_outs bd = wb_outs bd0 -> cmdline_of bd = cmdline_of bd0 ->
  wb_rsp bd = wb_rsp bd0 -> fresh_at fs bd0 deps -> fresh_at fs bd deps.
Proof.
  intros Ed Eo Ec Er (Hk & Hf).
  assert (E : forall c, run bd c = run bd0 c) by (intro c; unfold HistSpec.run; now rewrite Ec, Er).
  split.
  - now rewrite E, Ed.
  - intros o Ho. rewrite E. apply Hf. now rewrite <- Eo.
Qed.

Section GFixed.
Variable w0 : wstate.
Variable ws0 : list wr.
Hypothesis Hload : forall b,
  assoc_nat b (ws_disc w0) = option_map fst (last_applicable P ws0 b None) /\
  assoc_nat b (ws_hashes w0) = option_map snd (last_applicable P ws0 b None).
Hypothesis Hrecs0 : Forall wprov ws0.

Lemma g_clean0 : forall b prev fs m, b < nb -> wb_cmdline (bd_ b) <> None ->
  assoc_nat b (ws_hashes w0) = Some prev -> fs_wf fs ->
  fs_manifest fs (bd_ b) (disc_of w0 b) = Some m -> hash_build m = prev ->
  nc_hash (disc_of w0) b fs ->
  fresh_at fs (bd_ b) (disc_of w0 b).
Proof.
  intros b prev fs m Lb Hcne Hprev Wf Efs Hhm Hnc.
  pose proof (loaded_record wg w0 ws0 Hload b prev Hprev) as El0.
  destruct (last_applicable_In P b ws0 None _ _ El0) as [E|(x & Hx & _ & Hdx & Hhx)]; [discriminate|].
  rewrite Forall_forall in Hrecs0.
  destruct (Hrecs0 x Hx) as (bd0 & fs0 & m0 & Eo0 & Wf0 & Em0 & Hh0 & Hgr & Wm0 & Hfr).
  rewrite Hdx in Em0, Hfr. rewrite Hhx in Hh0, Hgr.
  destruct (fs_manifest_shape _ _ _ _ Em0) as (S1 & S2 & S3 & S4 & S5).
  destruct (fs_manifest_shape _ _ _ _ Efs) as (T1 & T2 & T3 & T4 & T5).
  (* the loaded dependency names are hashed injectively: they are the names of a well-formed manifest *)
  assert (Hdn : forall n, In n (disc_of w0 b) -> wf_name n = true).
  { intros n Hn. apply (wf_files_names (mf_discovered m0)); [|now rewrite S2].
    apply wf_manifest_parts in Wm0. tauto. }
  assert (Wm : wf_manifest m = true).
  { apply (fs_manifest_wf fs (bd_ b) (disc_of w0 b) m); auto.
    - intros n Hn. unfold files_of in Hn. apply in_app_or in Hn. destruct Hn as [Hn|Hn].
      + apply (so_names _ _ _ _ Hst b n Lb). apply in_or_app. now left.
      + apply in_app_or in Hn. destruct Hn as [Hn|Hn]; [now apply Hdn|].
        apply (so_names _ _ _ _ Hst b n Lb). apply in_or_app. now right.
    - exact (so_cmd255 _ _ _ _ Hst b Lb). }
  rewrite <- Hhm in Hgr. destruct (Hnc m m0 Efs Hgr) as (Es & Er).
  assert (Em : m = m0) by (apply manifest_stream_injective; auto).
  subst m0.
  apply (fresh_at_agree content stamp cmd (bd_ b) (disc_of w0 b) fs0 fs).
  - exact (so_hermetic _ _ _ _ Hst b Lb Hcne).
  - apply (fresh_at_same_parts bd0 (bd_ b)); try congruence.
  - unfold files_of. intros n Hn.
    (* both trees give the files of the (common) manifest the same mtimes *)
    assert (Hag : forall l, In n (map fst l) ->
              forall fsa fsb names, fs_mtimes fsa names = Some l -> fs_mtimes fsb names = Some l ->
              fs_get fsa n = fs_get fsb n).
    { intros l Hl fsa fsb names Ea Eb. apply (fs_mtimes_agree fsa fsb names l Ea Eb).
      now rewrite <- (fs_mtimes_names _ _ _ Ea). }
    unfold fs_manifest in Efs, Em0.
    destruct (fs_mtimes fs (wb_dirtying (bd_ b))) as [i|] eqn:Ei; [|discriminate].
    destruct (fs_mtimes fs (disc_of w0 b)) as [d|] eqn:Ed; [|discriminate].
    destruct (fs_mtimes fs (wb_outs (bd_ b))) as [o|] eqn:Eo; [|discriminate].
    destruct (fs_mtimes fs0 (wb_dirtying bd0)) as [i0|] eqn:Ei0; [|discriminate].
    destruct (fs_mtimes fs0 (disc_of w0 b)) as [d0|] eqn:Ed0; [|discriminate].
    destruct (fs_mtimes fs0 (wb_outs bd0)) as [o0|] eqn:Eo0'; [|discriminate].
    injection Efs as <-. injection Em0 as E1 E2 _ _ E3. subst i0 d0 o0.
    cbn [mf_ins mf_discovered mf_outs mf_cmdline mf_rsp] in *.
    assert (Ddir : wb_dirtying (bd_ b) = wb_dirtying bd0) by congruence.
    assert (Dout : wb_outs (bd_ b) = wb_outs bd0) by congruence.
    rewrite <- Ddir in Ei0. rewrite <- Dout in Eo0'.
    apply in_app_or in Hn as [Hn|Hn]; [exact (fs_mtimes_agree _ _ _ _ Ei Ei0 n Hn)|].
    apply in_app_or in Hn as [Hn|Hn]; [exact (fs_mtimes_agree _ _ _ _ Ed Ed0 n Hn)|exact (fs_mtimes_agree _ _ _ _ Eo Eo0' n Hn)].
Qed.

End GFixed.

Lemma g_rec_step : forall ws b deps h fs m, Forall wprov ws -> b < nb -> wb_cmdline (bd_ b) <> None ->
  fs_wf fs -> fs_manifest fs (bd_ b) deps = Some m -> hash_build m = h -> GRrec b m ->
  fresh_at fs (bd_ b) deps -> srcs wg deps -> Forall wprov (ws ++ [wr_of (bd_ b) deps h]).
Proof.
  intros ws b deps h fs m Rc Lb Hcne Wf Hfm Hhm Hgr Hfr Hsrc.
  apply Forall_app. split; [exact Rc|]. constructor; [|constructor].
  exists (bd_ b), fs, m. unfold wr_of. cbn [w_outs w_deps w_hash].
  split; [reflexivity|]. split; [exact Wf|]. split; [exact Hfm|]. split; [exact Hhm|].
  split; [unfold HistGSpec.GRrec in Hgr; now rewrite <- Hhm|]. split; [|exact Hfr].
  apply (fs_manifest_wf fs (bd_ b) deps m); auto.
  - intros n Hn. unfold files_of in Hn. apply in_app_or in Hn. destruct Hn as [Hn|Hn].
    + apply (so_names _ _ _ _ Hst b n Lb). apply in_or_app. now left.
    + apply in_app_or in Hn. destruct Hn as [Hn|Hn]; [exact (proj2 (Hsrc n Hn))|].
      apply (so_names _ _ _ _ Hst b n Lb). apply in_or_app. now right.
  - exact (so_cmd255 _ _ _ _ Hst b Lb).
Qed.

Lemma g_invoke_core fs log ws w0 s fl tr r w1 :
  fs_wf fs -> hlog_is log ws -> Forall in_bounds ws -> table_small ws -> Forall wprov ws ->
  load_state wg fs log = Ok w0 -> wanted g (bs_new nb decls) s ->
  jaccepted cf wg (run_init s fl) w0 tr r w1 -> writes_ok wg [] tr ->
  trace_gen content stamp cmd GRrec wg (nc_hash (disc_of w0)) fs None tr ->
  (forall b d, get_state s b <> Unknown -> In d (disc_of w0 b) -> P d = None) ->
  fs_wf (ws_fs w1) /\ (log_is w1 (trace_ws wg None ws tr) /\ Forall wprov (trace_ws wg None ws tr)) /\
  (rs_ctl r = CReturned (Some true) ->
   forall b, get_state s b <> Unknown -> wb_cmdline (bd_ b) <> None ->
     b < nb /\ fresh_at (ws_fs w1) (bd_ b) (disc_of w1 b) /\
     forall d, In d (disc_of w1 b) -> P d = None).
Proof.
  intros Wf Hlog Hb Hs Hrc El W Ha Ho Ht Hsrc.
  destruct (load_facts wg fs log ws w0 Hlog Hb Hs El) as (Hfs & Hca & Hlog0 & Hload).
  pose proof (so_wf _ _ _ _ Hst) as Hwf.
  destruct (fresh_start_wanted cf decls Hwf s fl w0 W Hca) as (R & Hc & Hd & _).
  pose proof Ha as (Hacc & _).
  apply jaccepted_jrun in Ha; [|exact Ho].
  pose proof (JInv_init cf decls wg _ w0 R Hc Hd Hca) as J.
  set (W0 := fun b => get_state s b <> Unknown).
  assert (L : LInv cf wg w0 ws W0 (jinit (run_init s fl) w0) ws).
  { apply LInv_init; auto. }
  assert (F : FInv content stamp cmd cf wg (Forall wprov) (jinit (run_init s fl) w0) ws None).
  { constructor; cbn [jinit j_r j_w j_aw j_pend].
    - now rewrite Hfs.
    - discriminate.
    - intros b _ _ [E|[E|E]]; [destruct (Hd b E)|rewrite Hc in E; discriminate ..].
    - exact Hlog0.
    - exact Hrc. }
  assert (Ht' : trace_gen content stamp cmd GRrec wg (nc_hash (disc_of w0))
                  (ws_fs (j_w (jinit (run_init s fl) w0))) None tr)
    by (cbn [jinit j_w]; now rewrite Hfs).
  destruct (inv_run content stamp cmd GRrec cf decls wg Hst Had w0 ws Hload (Forall wprov) (nc_hash (disc_of w0))
              W0 Hsrc (g_clean0 w0 ws Hload Hrc) g_rec_step
              tr _ ws ws None r w1 J L F Ht' Ha)
    as (a' & wsL' & lf' & Er & Ew & J' & L' & F').
  subst r w1. split; [exact (fi_wf _ _ _ _ _ _ _ _ _ F')|]. split.
  - split; [exact (fi_log _ _ _ _ _ _ _ _ _ F')|exact (fi_recs _ _ _ _ _ _ _ _ _ F')].
  - intros Hret b Hw Hcmd.
    pose proof (ji_r _ _ _ _ J') as R1. pose proof (ri_ctl _ _ _ R1) as K. rewrite Hret in K.
    cbn [ctl_ok] in K. destruct K as (_ & _ & AD).
    assert (Hw' : get_state (rs_bs (j_r a')) b <> Unknown)
      by (apply (proj2 (accepts_known cf decls b _ _ _ R Hacc)); exact Hw).
    assert (Lb : b < nb) by exact (BCore_range g decls _ b (ri_core _ _ _ R1) Hw').
    split; [exact Lb|].
    assert (Sb : settled (j_r a') b) by (left; destruct (AD b) as [E|E]; [contradiction|exact E]).
    split; [exact (fi_settled _ _ _ _ _ _ _ _ _ F' b Lb Hcmd Sb)|].
    exact (proj1 (li_settled _ _ _ _ _ _ _ L' b Lb Hcmd Sb)).
Qed.

End GInvoke.

(* ------------------------------------------------------------------------------------ *)

Section HistG.
Variable content : Type.
Variable stamp : bytes -> mtime -> content.
Variable cmd : bytes -> option (bytes * bytes) -> (bytes -> option content) -> (bytes -> content) * list bytes.
Variable GRh : N -> manifest -> Prop.
Notation cont := (cont content stamp).
Notation fresh := (fresh content stamp cmd).
Notation fresh_at := (fresh_at content stamp cmd).
Notation GHInv := (GHInv content stamp cmd GRh).
Notation ghstep := (ghstep content stamp cmd GRh).
Notation ghsteps := (ghsteps content stamp cmd GRh).

Lemma GHInv_init fs : fs_wf fs -> GHInv (mkH fs [] []).
Proof.
  intro Wf. split; [exact Wf|]. split; [left; auto|]. split; [split; [constructor|]|constructor].
  unfold table_small. cbn. lia.
Qed.

Lemma ghstep_inv st it st' : GHInv st -> ghstep st it st' -> GHInv st'.
Proof.
  intros (Wf & Hlog & (Hb & Hs) & Hrc) H.
  inversion H as [st0 n t Hmt|st0 inv w0 r w1 Hst Had El W Ha Ho Ht Hsrc Hlim]; subst st0 it st'.
  - split; [cbn [h_fs]; now apply fs_wf_set|]. cbn [h_log h_ws].
    split; [exact Hlog|]. split; [split; [exact Hb|exact Hs]|exact Hrc].
  - destruct (g_invoke_core content stamp cmd GRh (gi_cf inv) (gi_decls inv) (gi_wg inv) Hst Had _ _ _ w0 _ _ _ r w1
                Wf Hlog Hb Hs Hrc El W Ha Ho Ht Hsrc) as (Wf1 & (Hlog1 & Hrc1) & _).
    split; [exact Wf1|]. cbn [h_log h_ws]. split; [right; exists w1; auto|].
    split; [exact Hlim|exact Hrc1].
Qed.

Theorem g_hist_invariant : forall st H st', GHInv st -> ghsteps st H st' -> GHInv st'.
Proof.
  intros st H st' Hi Hs. induction Hs as [st|st it st1 H st2 H1 _ IH]; [exact Hi|].
  apply IH. exact (ghstep_inv _ _ _ Hi H1).
Qed.

Theorem g_hist_invariant_from_empty : forall fs H st', fs_wf fs -> ghsteps (mkH fs [] []) H st' -> GHInv st'.
Proof. intros fs H st' Wf Hs. exact (g_hist_invariant _ H st' (GHInv_init fs Wf) Hs). Qed.

Lemma ghsteps_snoc_inv st H it st2 :
  ghsteps st (H ++ [it]) st2 -> exists st1, ghsteps st H st1 /\ ghstep st1 it st2.
Proof.
  revert st. induction H as [|x H IH]; intros st Hs; cbn [app] in Hs.
  - inversion Hs as [|? ? st1 ? ? H1 H2]; subst. inversion H2; subst. exists st. split; [constructor|exact H1].
  - inversion Hs as [|? ? st1 ? ? H1 H2]; subst. destruct (IH st1 H2) as (st1' & Ha & Hb).
    exists st1'. split; [econstructor; eassumption|exact Hb].
Qed.

Lemma g_invoke_all_fresh st inv st2 pre :
  GHInv st -> ghstep st (GInvoke inv) st2 -> gi_tr inv = pre ++ [JReturn (Some true)] ->
  static_ok content cmd (cf_graph (gi_cf inv)) (gi_wg inv) /\
  wanted (cf_graph (gi_cf inv)) (bs_new (length (g_builds (cf_graph (gi_cf inv)))) (gi_decls inv)) (gi_s inv) /\
  forall b, get_state (gi_s inv) b <> Unknown -> wb_cmdline (get_wbuild (gi_wg inv) b) <> None ->
    b < length (g_builds (cf_graph (gi_cf inv))) /\
    (exists deps, fresh_at (h_fs st2) (get_wbuild (gi_wg inv) b) deps /\
                  forall d, In d deps -> producer_of (gi_wg inv) d = None) /\
    (forall n p, In n (wb_dirtying (get_wbuild (gi_wg inv) b)) -> producer_of (gi_wg inv) n = Some p ->
                 get_state (gi_s inv) p <> Unknown).
Proof.
  intros (Wf & Hlog & (Hb & Hs) & Hrc) H Htr.
  inversion H as [|st0 inv0 w0 r w1 Hst Had El W Ha Ho Ht Hsrc Hlim]; subst st0 inv0 st2.
  split; [exact Hst|]. split; [exact W|]. intros b Hw Hcmd.
  pose proof Ha as Ha'. rewrite Htr in Ha'. apply jaccepted_ends_return in Ha'.
  destruct (g_invoke_core content stamp cmd GRh (gi_cf inv) (gi_decls inv) (gi_wg inv) Hst Had _ _ _ w0 _ _ _ r w1
              Wf Hlog Hb Hs Hrc El W Ha Ho Ht Hsrc) as (_ & _ & Hfr).
  destruct (Hfr Ha' b Hw Hcmd) as (Lb & Hf & Hsrc'). split; [exact Lb|]. split.
  - exists (disc_of w1 b). split; [exact Hf|exact Hsrc'].
  - intros n p Hn Hp. exact (wanted_closed content cmd (gi_cf inv) (gi_decls inv) (gi_wg inv) Hst _ b n p W Hw Hn Hp).
Qed.

Lemma g_last_invocation st H inv st2 :
  GHInv st -> ghsteps st (H ++ [GInvoke inv]) st2 -> exists st1, GHInv st1 /\ ghstep st1 (GInvoke inv) st2.
Proof.
  intros Hi Hs. apply ghsteps_snoc_inv in Hs. destruct Hs as (st1 & H1 & H2).
  exists st1. split; [exact (g_hist_invariant _ _ _ Hi H1)|exact H2].
Qed.

Theorem g_success_all_fresh : forall st H inv pre st2,
  GHInv st -> ghsteps st (H ++ [GInvoke inv]) st2 -> gi_tr inv = pre ++ [JReturn (Some true)] ->
  forall b, get_state (gi_s inv) b <> Unknown -> wb_cmdline (get_wbuild (gi_wg inv) b) <> None ->
    fresh (h_fs st2) (get_wbuild (gi_wg inv) b) /\
    (forall n p, In n (wb_dirtying (get_wbuild (gi_wg inv) b)) -> producer_of (gi_wg inv) n = Some p ->
                 get_state (gi_s inv) p <> Unknown).
Proof.
  intros st H inv pre st2 Hi Hs Htr b Hw Hc.
  destruct (g_last_invocation st H inv st2 Hi Hs) as (st1 & Hi1 & H1).
  destruct (g_invoke_all_fresh st1 inv st2 pre Hi1 H1 Htr) as (_ & _ & Hall).
  destruct (Hall b Hw Hc) as (_ & (deps & Hf & _) & Hcl).
  split; [exact (fresh_at_fresh content stamp cmd _ _ _ Hf)|exact Hcl].
Qed.

Theorem g_equals_clean_build : forall st H inv pre st2,
  GHInv st -> ghsteps st (H ++ [GInvoke inv]) st2 -> gi_tr inv = pre ++ [JReturn (Some true)] ->
  forall fuel, length (g_builds (cf_graph (gi_cf inv))) <= fuel ->
  forall b, get_state (gi_s inv) b <> Unknown -> wb_cmdline (get_wbuild (gi_wg inv) b) <> None ->
  forall o, In o (wb_outs (get_wbuild (gi_wg inv) b)) ->
    cont (h_fs st2) o = clean_cont content cmd (gi_wg inv) fuel (cont (h_fs st2)) o.
Proof.
  intros st H inv pre st2 Hi Hs Htr fuel Hfuel b Hw Hc o Ho.
  destruct (g_last_invocation st H inv st2 Hi Hs) as (st1 & Hi1 & H1).
  destruct (g_invoke_all_fresh st1 inv st2 pre Hi1 H1 Htr) as (Hst & W & Hall).
  apply (clean_build_equiv content stamp cmd (cf_graph (gi_cf inv)) (gi_wg inv) Hst (h_fs st2)
           (fun x => get_state (gi_s inv) x <> Unknown)) with (b := b); auto.
  exact (reachable_acyclic (gi_cf inv) (gi_decls inv) (so_wf _ _ _ _ Hst) _
           (reach_init (gi_cf inv) (gi_decls inv) (gi_s inv) (gi_fl inv) W)).
Qed.

End HistG.
