(* C13: properties of the functional form [canon], by induction on [Run] with the state
   invariant [St] (out = root ++ "..s"* ++ (name s)*, stack = offsets of the names). *)
From Coq Require Import List NArith Arith Lia Bool.
From N2 Require Import Model.All Proofs.CanonBase.
Import ListNotations.
Local Open Scope nat_scope.

(* ---------------------------------------------------------------------------------- *)
(* comps / resolve on shapes. *)

Lemma comps_aux_nosep n : forall cur tl, nosep n = true ->
  comps_aux cur (n ++ tl) = comps_aux (rev n ++ cur) tl.
Proof.
  induction n as [|c n IH]; intros cur tl H; [reflexivity|].
  apply nosep_cons in H as [Hc Hn]. cbn [app comps_aux rev]. rewrite Hc.
  rewrite (IH _ _ Hn). rewrite <- app_assoc. reflexivity.
Qed.

Lemma rev_nonnil {A} (l : list A) : l <> [] -> rev l <> [].
Proof.
  intros H E. apply H. rewrite <- (rev_involutive l), E. reflexivity.
Qed.

Lemma comps_sep c rest : is_sep c = true -> comps (c :: rest) = comps rest.
Proof. intro H. unfold comps. cbn [comps_aux]. rewrite H. reflexivity. Qed.

Lemma comps_name_sep n s rest : n <> [] -> nosep n = true -> is_sep s = true ->
  comps (n ++ s :: rest) = n :: comps rest.
Proof.
  intros Hn Hns Hs. unfold comps. rewrite comps_aux_nosep by assumption.
  rewrite app_nil_r. cbn [comps_aux]. rewrite Hs.
  pose proof (rev_nonnil n Hn) as Hr.
  destruct (rev n) as [|x l] eqn:E; [congruence|].
  rewrite <- E, rev_involutive. reflexivity.
Qed.

Lemma comps_name_end n : n <> [] -> nosep n = true -> comps n = [n].
Proof.
  intros Hn Hns. unfold comps. rewrite <- (app_nil_r n) at 1.
  rewrite comps_aux_nosep by assumption.
  rewrite app_nil_r. cbn [comps_aux].
  pose proof (rev_nonnil n Hn) as Hr.
  destruct (rev n) as [|x l] eqn:E; [congruence|].
  rewrite <- E, rev_involutive. reflexivity.
Qed.

Lemma comps_good_sep n s rest : good n = true -> is_sep s = true ->
  comps (n ++ s :: rest) = n :: comps rest.
Proof. intros Hg Hs. apply comps_name_sep; auto using good_nonnil, good_nosep. Qed.

Lemma comps_good_end n : good n = true -> comps n = [n].
Proof. intros Hg. apply comps_name_end; auto using good_nonnil, good_nosep. Qed.

Lemma comps_dot_sep s rest : is_sep s = true ->
  comps (46%N :: s :: rest) = [46%N] :: comps rest.
Proof. intro Hs. apply (comps_name_sep [46%N]); [discriminate | reflexivity | assumption]. Qed.

Lemma comps_up_sep s rest : is_sep s = true ->
  comps (46%N :: 46%N :: s :: rest) = [46%N; 46%N] :: comps rest.
Proof. intro Hs. apply (comps_name_sep [46%N; 46%N]); [discriminate | reflexivity | assumption]. Qed.

Lemma comps_root r tl : isroot r = true -> comps (r ++ tl) = comps tl.
Proof.
  destruct r as [|c [|d r]]; intro H; [reflexivity | | discriminate].
  cbn [isroot] in H. cbn [app]. apply comps_sep. assumption.
Qed.

Lemma comps_root_body p : comps p = comps (body p).
Proof. rewrite (root_body p) at 1. apply comps_root, isroot_root. Qed.

Lemma resolve_good n cs u nm : good n = true ->
  resolve (n :: cs) u nm = resolve cs u (n :: nm).
Proof.
  intro Hg. destruct (good_inv n Hg) as (_ & _ & Hd & Hdd).
  cbn [resolve]. rewrite Hd, Hdd. reflexivity.
Qed.

(* ---------------------------------------------------------------------------------- *)
(* never longer *)

Lemma Run_length out st src res : Run out st src res ->
  forall q, res = Ok q -> length q <= length out + length src.
Proof.
  induction 1 as
    [out st|out st c rest res Hc HR IH|out st|out st s rest res Hs HR IH|out|out ofs st
    |out s rest res Hs HR IH|out ofs st s rest res Hs HR IH|out st n Hn Hst|out st n s rest Hn Hs Hst
    |out st n Hn Hst|out st n s rest res Hn Hs Hst HR IH]; intros q Hq;
    try (injection Hq as <-); try discriminate Hq.
  - cbn [length]. lia.
  - specialize (IH q Hq). cbn [length]. lia.
  - cbn [length]. lia.
  - specialize (IH q Hq). cbn [length]. lia.
  - rewrite app_length. cbn [length]. lia.
  - rewrite firstn_length. lia.
  - specialize (IH q Hq). rewrite app_length in IH. cbn [length] in *. lia.
  - specialize (IH q Hq). rewrite firstn_length in IH. cbn [length]. lia.
  - rewrite app_length. lia.
  - specialize (IH q Hq). rewrite !app_length in IH. rewrite app_length. cbn [length] in *. lia.
Qed.

Theorem canon_never_longer : forall p q, canon p = Ok q -> length q <= length p.
Proof.
  intros p q H. apply canon_ok_Run in H as (Hp & out & HR & ->).
  pose proof (Run_length _ _ _ _ HR out eq_refl) as HL.
  rewrite <- app_length, <- root_body in HL.
  destruct out as [|c out]; [|exact HL].
  cbn [fixdot length]. destruct p; [congruence | cbn [length]; lia].
Qed.

(* ---------------------------------------------------------------------------------- *)
(* outcomes and totality *)

Lemma Run_outcomes out st src res : Run out st src res ->
  (exists q, res = Ok q) \/ res = Panic 1%N.
Proof.
  induction 1; eauto.
Qed.

Theorem canon_outcomes : forall p,
  (exists q, canon p = Ok q) \/ canon p = Panic 0%N \/ canon p = Panic 1%N.
Proof.
  intro p. destruct p as [|c r] eqn:Ep; [right; left; reflexivity|]. rewrite <- Ep.
  assert (Hp : p <> []) by (subst; discriminate).
  destruct (Run_total (body p) (root p) []) as [res HR].
  rewrite (canon_Run p res Hp HR).
  destruct (Run_outcomes _ _ _ _ HR) as [[q ->]| ->]; cbn [bind]; eauto.
Qed.

Lemma Run_ok out st src res : Run out st src res ->
  length st + length (comps src) <= stack_cap -> exists q, res = Ok q.
Proof.
  induction 1 as
    [out st|out st c rest res Hc HR IH|out st|out st s rest res Hs HR IH|out|out ofs st
    |out s rest res Hs HR IH|out ofs st s rest res Hs HR IH|out st n Hn Hst|out st n s rest Hn Hs Hst
    |out st n Hn Hst|out st n s rest res Hn Hs Hst HR IH]; intro Hb; eauto.
  - apply IH. rewrite comps_sep in Hb by assumption. assumption.
  - apply IH. rewrite comps_dot_sep in Hb by assumption. cbn [length] in Hb. lia.
  - apply IH. rewrite comps_up_sep in Hb by assumption. cbn [length] in *. lia.
  - apply IH. rewrite comps_up_sep in Hb by assumption. cbn [length] in *. lia.
  - rewrite comps_good_end in Hb by assumption. cbn [length] in Hb. lia.
  - rewrite comps_good_sep in Hb by assumption. cbn [length] in Hb. lia.
  - apply IH. rewrite comps_good_sep in Hb by assumption. cbn [length] in *. lia.
Qed.

Theorem canon_total : forall p, p <> [] -> length (comps p) <= 60 -> exists q, canon p = Ok q.
Proof.
  intros p Hp Hc.
  destruct (Run_total (body p) (root p) []) as [res HR].
  rewrite (canon_Run p res Hp HR).
  destruct (Run_ok _ _ _ _ HR) as [q ->].
  - rewrite <- comps_root_body. exact Hc.
  - cbn [bind]. eauto.
Qed.

(* ---------------------------------------------------------------------------------- *)
(* The state invariant.  [U]: separators of the leading ".." run, newest first;
   [Nm]: stacked names with their separators, newest first. *)

Inductive St (r : bytes) : bytes -> list nat -> list N -> list (bytes * N) -> Prop :=
| St0 : St r r [] [] []
| StUp out U s : St r out [] U [] -> is_sep s = true ->
    St r (out ++ [46%N; 46%N; s]) [] (s :: U) []
| StName out st U Nm n s : St r out st U Nm -> good n = true -> is_sep s = true ->
    length st < stack_cap ->
    St r (out ++ n ++ [s]) (length out :: st) U ((n, s) :: Nm).

Lemma firstn_app_exact {A} (a b : list A) : firstn (length a) (a ++ b) = a.
Proof. induction a as [|x a IH]; [reflexivity|]. cbn. rewrite IH. reflexivity. Qed.

Lemma St_len r out st U Nm : St r out st U Nm -> length st = length Nm.
Proof. induction 1; cbn [length]; congruence. Qed.

Lemma St_empty r out U Nm : St r out [] U Nm -> Nm = [].
Proof. intro H. apply St_len in H. destruct Nm; [reflexivity | discriminate]. Qed.

Lemma St_pop r out ofs st U Nm : St r out (ofs :: st) U Nm ->
  exists n s Nm', Nm = (n, s) :: Nm' /\ St r (firstn ofs out) st U Nm' /\
                  out = firstn ofs out ++ n ++ [s] /\ good n = true /\ is_sep s = true.
Proof.
  intro H. inversion H as [| |out' st' U' Nm' n s HSt Hg Hs Hlen]. subst.
  exists n, s, Nm'. rewrite firstn_app_exact. auto.
Qed.

Lemma St_good r out st U Nm : St r out st U Nm ->
  forall n, In n (map fst Nm) -> good n = true.
Proof.
  induction 1 as [|out U s HSt IH Hs|out st U Nm n s HSt IH Hg Hs Hlen]; intros m Hin.
  - destruct Hin.
  - destruct Hin.
  - cbn [map fst In] in Hin. destruct Hin as [<-|Hin]; auto.
Qed.

(* replay: the output so far, read again after the root, leads back to the same state *)
Lemma St_replay r out st U Nm : St r out st U Nm ->
  exists b, out = r ++ b /\ forall src res, Run out st src res -> Run r [] (b ++ src) res.
Proof.
  induction 1 as [|out U s HSt IH Hs|out st U Nm n s HSt IH Hg Hs Hlen].
  - exists []. split; [symmetry; apply app_nil_r | auto].
  - destruct IH as (b & -> & IH). exists (b ++ [46%N; 46%N; s]). split.
    + rewrite app_assoc. reflexivity.
    + intros src res HR. rewrite <- app_assoc. apply IH. cbn [app].
      apply RUpSepE; assumption.
  - destruct IH as (b & Eb & IH). exists (b ++ n ++ [s]). split.
    + rewrite Eb, <- !app_assoc. reflexivity.
    + intros src res HR. rewrite <- !app_assoc. apply IH. cbn [app].
      apply RNameSep; assumption.
Qed.

(* ---------------------------------------------------------------------------------- *)
(* Final states. *)

Definition Tail (st : list nat) (tail : bytes) : Prop :=
  tail = [] \/ (tail = [46%N; 46%N] /\ st = []) \/ (good tail = true /\ length st < stack_cap).

Definition Fin (r q : bytes) : Prop :=
  exists out st U Nm tail, St r out st U Nm /\ Tail st tail /\ q = out ++ tail.

Lemma Fin_St r out st U Nm : St r out st U Nm -> Fin r out.
Proof.
  intro H. exists out, st, U, Nm, []. split; [assumption|]. split; [left; reflexivity|].
  symmetry; apply app_nil_r.
Qed.

Lemma Run_Fin out st src res : Run out st src res ->
  forall q r U Nm, res = Ok q -> St r out st U Nm -> Fin r q.
Proof.
  induction 1 as
    [out st|out st c rest res Hc HR IH|out st|out st s rest res Hs HR IH|out|out ofs st
    |out s rest res Hs HR IH|out ofs st s rest res Hs HR IH|out st n Hn Hst|out st n s rest Hn Hs Hst
    |out st n Hn Hst|out st n s rest res Hn Hs Hst HR IH]; intros q r U Nm Hq HSt;
    try (injection Hq as <-); try discriminate Hq.
  - eapply Fin_St; eassumption.
  - eapply IH; eassumption.
  - eapply Fin_St; eassumption.
  - eapply IH; eassumption.
  - exists out, [], U, Nm, [46%N; 46%N]. split; [assumption|]. split; [|reflexivity].
    right; left. auto.
  - apply St_pop in HSt as (n & s & Nm' & -> & HSt & _). eapply Fin_St; eassumption.
  - pose proof (St_empty _ _ _ _ HSt) as ->.
    eapply IH; [eassumption|]. apply StUp; eassumption.
  - apply St_pop in HSt as (n & s' & Nm' & -> & HSt & _). eapply IH; eassumption.
  - exists out, st, U, Nm, n. split; [assumption|]. split; [|reflexivity].
    right; right. auto.
  - eapply IH; [eassumption|]. apply StName; eassumption.
Qed.

Lemma Tail_Run out st tail : Tail st tail -> Run out st tail (Ok (out ++ tail)).
Proof.
  intros [->|[[-> ->]|[Hg Hlen]]].
  - rewrite app_nil_r. apply RNil.
  - apply RUpEndE.
  - apply RNameEnd; assumption.
Qed.

Lemma Fin_Run r q : Fin r q -> exists b, q = r ++ b /\ Run r [] b (Ok q).
Proof.
  intros (out & st & U & Nm & tail & HSt & HT & ->).
  destruct (St_replay _ _ _ _ _ HSt) as (b & Eb & Hrep).
  exists (b ++ tail). split.
  - rewrite Eb, app_assoc. reflexivity.
  - apply Hrep. apply Tail_Run. assumption.
Qed.

(* the first byte after an empty root is never a separator *)
Lemma St_rooted out st U Nm : St [] out st U Nm ->
  forall tl, rooted tl = false -> rooted (out ++ tl) = false.
Proof.
  induction 1 as [|out U s HSt IH Hs|out st U Nm n s HSt IH Hg Hs Hlen]; intros tl Htl.
  - exact Htl.
  - rewrite <- app_assoc. apply IH. reflexivity.
  - rewrite <- !app_assoc. apply IH.
    pose proof (good_nonnil n Hg). destruct n as [|c n]; [congruence|].
    cbn [app rooted]. apply (good_head c n Hg).
Qed.

Lemma Tail_rooted st tail : Tail st tail -> rooted tail = false.
Proof.
  intros [->|[[-> ->]|[Hg Hlen]]]; try reflexivity.
  pose proof (good_nonnil tail Hg). destruct tail as [|c n]; [congruence|].
  cbn [rooted]. apply (good_head c n Hg).
Qed.

Lemma Fin_rooted q : Fin [] q -> rooted q = false.
Proof.
  intros (out & st & U & Nm & tail & HSt & HT & ->).
  eapply St_rooted; [eassumption|]. eapply Tail_rooted; eassumption.
Qed.

Lemma Fin_root r q : isroot r = true -> Fin r q -> q <> [] -> root q = r.
Proof.
  intros Hr HF Hq. destruct r as [|c [|d r]]; [| |discriminate Hr].
  - apply root_nil_rooted. apply Fin_rooted. assumption.
  - cbn [isroot] in Hr. destruct (Fin_Run _ _ HF) as (b & -> & _).
    cbn [app root]. rewrite Hr. reflexivity.
Qed.

(* ---------------------------------------------------------------------------------- *)
(* idempotence *)

Lemma fixdot_nonnil out : out <> [] -> fixdot out = out.
Proof. destruct out; [congruence | reflexivity]. Qed.

Lemma canon_Fin p q : canon p = Ok q ->
  exists out, Fin (root p) out /\ Run (root p) [] (body p) (Ok out) /\ q = fixdot out.
Proof.
  intro H. apply canon_ok_Run in H as (Hp & out & HR & ->).
  exists out. split; [|auto].
  eapply Run_Fin; [eassumption | reflexivity | apply St0].
Qed.

Lemma Fin_canon r q : isroot r = true -> Fin r q -> q <> [] -> canon q = Ok q.
Proof.
  intros Hr HF Hq.
  pose proof (Fin_root r q Hr HF Hq) as Eroot.
  destruct (Fin_Run _ _ HF) as (b & Eq & HR).
  assert (Eb : body q = b).
  { pose proof (root_body q) as E. rewrite Eroot in E. rewrite Eq in E at 1.
    apply app_inv_head in E. congruence. }
  rewrite (canon_Run q (Ok q) Hq).
  - cbn [bind]. rewrite fixdot_nonnil by assumption. reflexivity.
  - rewrite Eroot, Eb. exact HR.
Qed.

Theorem canon_idempotent : forall p q, canon p = Ok q -> canon q = Ok q.
Proof.
  intros p q H. apply canon_Fin in H as (out & HF & _ & ->).
  destruct out as [|c out]; [reflexivity|].
  cbn [fixdot]. apply (Fin_canon (root p)); [apply isroot_root | assumption | discriminate].
Qed.

(* ---------------------------------------------------------------------------------- *)
(* semantics *)

Lemma St_resolve r out st U Nm : isroot r = true -> St r out st U Nm ->
  forall tl, resolve (comps (out ++ tl)) 0 [] = resolve (comps tl) (length U) (map fst Nm).
Proof.
  intro Hr.
  induction 1 as [|out U s HSt IH Hs|out st U Nm n s HSt IH Hg Hs Hlen]; intro tl.
  - rewrite comps_root by assumption. reflexivity.
  - rewrite <- app_assoc, IH. cbn [app]. rewrite comps_up_sep by assumption. reflexivity.
  - rewrite <- !app_assoc, IH. cbn [app]. rewrite comps_good_sep by assumption.
    rewrite resolve_good by assumption. reflexivity.
Qed.

Lemma Run_sem out st src res : Run out st src res ->
  forall q r U Nm, res = Ok q -> isroot r = true -> St r out st U Nm ->
  resolve (comps q) 0 [] = resolve (comps src) (length U) (map fst Nm).
Proof.
  induction 1 as
    [out st|out st c rest res Hc HR IH|out st|out st s rest res Hs HR IH|out|out ofs st
    |out s rest res Hs HR IH|out ofs st s rest res Hs HR IH|out st n Hn Hst|out st n s rest Hn Hs Hst
    |out st n Hn Hst|out st n s rest res Hn Hs Hst HR IH]; intros q r U Nm Hq Hr HSt;
    try (injection Hq as <-); try discriminate Hq.
  - rewrite <- (app_nil_r out). eapply St_resolve; eassumption.
  - rewrite comps_sep by assumption. eapply IH; eassumption.
  - rewrite <- (app_nil_r out). rewrite (St_resolve _ _ _ _ _ Hr HSt). reflexivity.
  - rewrite comps_dot_sep by assumption. erewrite IH by eassumption. reflexivity.
  - pose proof (St_empty _ _ _ _ HSt) as ->. eapply St_resolve; eassumption.
  - apply St_pop in HSt as (n & s & Nm' & -> & HSt & _).
    rewrite <- (app_nil_r (firstn ofs out)). rewrite (St_resolve _ _ _ _ _ Hr HSt). reflexivity.
  - pose proof (St_empty _ _ _ _ HSt) as ->.
    rewrite comps_up_sep by assumption.
    erewrite IH; [|eassumption|eassumption|apply StUp; eassumption]. reflexivity.
  - apply St_pop in HSt as (n & s' & Nm' & -> & HSt & _).
    rewrite comps_up_sep by assumption.
    erewrite IH by eauto. reflexivity.
  - eapply St_resolve; eassumption.
  - rewrite comps_good_sep by assumption. rewrite resolve_good by assumption.
    erewrite IH; [|eassumption|eassumption|apply StName; eassumption]. reflexivity.
Qed.

Theorem canon_sem_preserved : forall p q, canon p = Ok q -> sem q = sem p.
Proof.
  intros p q H. apply canon_Fin in H as (out & HF & HR & ->).
  pose proof (Run_sem _ _ _ _ HR out (root p) [] [] eq_refl (isroot_root p) (St0 _)) as HS.
  cbn [length map] in HS. rewrite <- comps_root_body in HS.
  unfold sem. rewrite <- HS.
  destruct out as [|c out].
  - cbn [fixdot]. destruct (Fin_Run _ _ HF) as (b & Eb & _).
    symmetry in Eb. apply app_eq_nil in Eb as [Er _].
    apply root_nil_rooted in Er. rewrite Er. reflexivity.
  - cbn [fixdot]. f_equal.
    pose proof (Fin_root (root p) (c :: out) (isroot_root p) HF) as Eroot.
    assert (Hne : c :: out <> []) by discriminate. specialize (Eroot Hne).
    destruct (rooted p) eqn:Erp.
    + apply root_cons_rooted in Erp as (c' & Ec' & Hc'). apply root_cons_rooted.
      exists c'. split; [congruence | assumption].
    + apply root_nil_rooted in Erp. apply root_nil_rooted. congruence.
Qed.

(* ---------------------------------------------------------------------------------- *)
(* normal form *)

Lemma nds_nonsep_cons c tl : is_sep c = false -> no_double_sep tl = true ->
  no_double_sep (c :: tl) = true.
Proof.
  intros Hc Htl. destruct tl as [|d tl]; [reflexivity|].
  change (negb (is_sep c && is_sep d) && no_double_sep (d :: tl) = true).
  rewrite Hc, Htl. reflexivity.
Qed.

Lemma nds_cons_nonsep c tl : rooted tl = false -> no_double_sep tl = true ->
  no_double_sep (c :: tl) = true.
Proof.
  intros Hr Htl. destruct tl as [|d tl]; [reflexivity|].
  change (negb (is_sep c && is_sep d) && no_double_sep (d :: tl) = true).
  cbn [rooted] in Hr. rewrite Hr, Htl, andb_false_r. reflexivity.
Qed.

Lemma nds_nosep_app n tl : nosep n = true -> no_double_sep tl = true ->
  no_double_sep (n ++ tl) = true.
Proof.
  induction n as [|c n IH]; intros Hn Htl; [exact Htl|].
  apply nosep_cons in Hn as [Hc Hn]. cbn [app]. apply nds_nonsep_cons; auto.
Qed.

Lemma rooted_nosep_app n tl : n <> [] -> nosep n = true -> rooted (n ++ tl) = false.
Proof.
  intros Hn Hns. destruct n as [|c n]; [congruence|].
  apply nosep_cons in Hns as [Hc _]. exact Hc.
Qed.

Lemma St_nds r out st U Nm : isroot r = true -> St r out st U Nm ->
  forall tl, rooted tl = false -> no_double_sep tl = true -> no_double_sep (out ++ tl) = true.
Proof.
  intro Hr.
  induction 1 as [|out U s HSt IH Hs|out st U Nm n s HSt IH Hg Hs Hlen]; intros tl Hrt Htl.
  - destruct r as [|c [|d r]]; [exact Htl | | discriminate Hr].
    cbn [app]. apply nds_cons_nonsep; assumption.
  - rewrite <- app_assoc. apply IH; [reflexivity|].
    apply (nds_nosep_app [46%N; 46%N]); [reflexivity|].
    apply nds_cons_nonsep; assumption.
  - rewrite <- !app_assoc. apply IH.
    + apply rooted_nosep_app; auto using good_nonnil, good_nosep.
    + apply nds_nosep_app; [auto using good_nosep|]. apply nds_cons_nonsep; assumption.
Qed.

Lemma Tail_nds st tail : Tail st tail -> no_double_sep tail = true.
Proof.
  intros [->|[[-> ->]|[Hg Hlen]]]; try reflexivity.
  rewrite <- (app_nil_r tail). apply nds_nosep_app; [auto using good_nosep | reflexivity].
Qed.

Lemma repeat_snoc {A} (x : A) n l : repeat x n ++ x :: l = x :: repeat x n ++ l.
Proof. induction n as [|n IH]; [reflexivity|]. cbn [repeat app]. rewrite IH. reflexivity. Qed.

Lemma St_comps r out st U Nm : isroot r = true -> St r out st U Nm ->
  forall tl, comps (out ++ tl) =
             repeat [46%N; 46%N] (length U) ++ rev (map fst Nm) ++ comps tl.
Proof.
  intro Hr.
  induction 1 as [|out U s HSt IH Hs|out st U Nm n s HSt IH Hg Hs Hlen]; intro tl.
  - rewrite comps_root by assumption. reflexivity.
  - rewrite <- app_assoc, IH. cbn [app]. rewrite comps_up_sep by assumption.
    cbn [map rev app length repeat]. apply repeat_snoc.
  - rewrite <- !app_assoc, IH. cbn [app]. rewrite comps_good_sep by assumption.
    cbn [map fst rev]. rewrite <- !app_assoc. reflexivity.
Qed.

Definition notdots (c : bytes) : bool := negb (is_dot c) && negb (is_dotdot c).

Lemma good_notdots n : good n = true -> notdots n = true.
Proof.
  intro Hg. destruct (good_inv n Hg) as (_ & _ & Hd & Hdd).
  unfold notdots. rewrite Hd, Hdd. reflexivity.
Qed.

Lemma drop_repeat k l : drop_dotdots (repeat [46%N; 46%N] k ++ l) = drop_dotdots l.
Proof. induction k as [|k IH]; [reflexivity|]. cbn [repeat app]. exact IH. Qed.

Lemma forallb_drop (P : bytes -> bool) l :
  forallb P l = true -> forallb P (drop_dotdots l) = true.
Proof.
  induction l as [|c l IH]; intro H; [reflexivity|].
  cbn [drop_dotdots]. destruct (is_dotdot c); [|exact H].
  cbn [forallb] in H. apply andb_true_iff in H as [_ H]. auto.
Qed.

Lemma Fin_normal r q : isroot r = true -> Fin r q -> q <> [] -> normal_form q = true.
Proof.
  intros Hr (out & st & U & Nm & tail & HSt & HT & ->) Hq.
  unfold normal_form. apply orb_true_iff. right.
  apply andb_true_iff. split; [apply andb_true_iff; split|].
  - destruct (out ++ tail); [congruence | reflexivity].
  - eapply St_nds; eauto using Tail_rooted, Tail_nds.
  - fold notdots. change (fun c => negb (is_dot c) && negb (is_dotdot c)) with notdots.
    rewrite (St_comps _ _ _ _ _ Hr HSt), drop_repeat.
    pose proof (St_good _ _ _ _ _ HSt) as Hgood.
    destruct HT as [->|[[-> ->]|[Hg Hlen]]].
    + apply forallb_drop. apply forallb_forall. intros x Hin.
      rewrite app_nil_r in Hin. apply in_rev in Hin. auto using good_notdots.
    + pose proof (St_empty _ _ _ _ HSt) as ->. reflexivity.
    + apply forallb_drop. apply forallb_forall. intros x Hin.
      rewrite comps_good_end in Hin by assumption.
      apply in_app_or in Hin as [Hin|[<-|[]]]; [|auto using good_notdots].
      apply in_rev in Hin. auto using good_notdots.
Qed.

Theorem canon_normal_form : forall p q, canon p = Ok q -> normal_form q = true.
Proof.
  intros p q H. apply canon_Fin in H as (out & HF & _ & ->).
  destruct out as [|c out]; [reflexivity|].
  cbn [fixdot]. apply (Fin_normal (root p)); [apply isroot_root | assumption | discriminate].
Qed.
