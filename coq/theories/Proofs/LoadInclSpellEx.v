(* C10, spelling independence with include/subninja: a three-file manifest in two spellings.
   build.ninja includes a.ninja, which subninjas b.ninja.  The second spelling has comments, blank
   lines, `$`-newline continuations (in a value, behind `=`, behind `include`, `build`, `default`,
   behind `:`), `${v}` for `$v`, other spacing - and every `build` on another line.
   The hypothesis of the theorem ([spells_files false]) is proved for the two spellings, so the
   theorem applies; the loads are also run ([vm_compute]). *)
From Coq Require Import String.
From N2 Require Import Model.All Proofs.EvalFiles.
From N2 Require Import Proofs.ParseSpell Proofs.ParseRoundEx.
From N2 Require Import Proofs.LoadGraphSpec Proofs.LoadGraphRun Proofs.LoadGraphNorm Proofs.LoadGraphFile
     Proofs.LoadGraphNames.
From N2 Require Import Proofs.LoadInclSpec Proofs.LoadInclFlat.
From N2 Require Import Proofs.LoadInclSpellSpec Proofs.LoadInclSpellStep Proofs.LoadInclSpellRun
     Proofs.LoadInclSpellFiles.

Definition sp (n : nat) : bytes := repeat 32%N n.
Definition cont (n : nat) : bytes := 36%N :: 10%N :: repeat 32%N n.      (* "$\n" and n spaces *)
Definition eq1 : bytes := [61%N].

(* ------------------------------------------------------------------------------------ *)
(* small spelling lemmas *)

Lemma ident_of k : k <> [] -> forallb is_ident_char k = true -> ident k.
Proof. intros A B. split; assumption. Qed.

(* a build line  "out[w0]:[w1]rule\n"  with one output and nothing else *)
Definition dsimple (out rule : bytes) : build_decl := mkDecl [[Lit out]] [] rule [] [] [] [].
Definition lsimple (out w0 w1 rule : bytes) : bytes :=
  (out ++ w0 ++ []) ++ [] ++ [58%N] ++ w1 ++ rule ++ ([] ++ []) ++ [10%N].

Lemma simple_line out w0 w1 rule :
  out <> [] -> forallb (plain_char true) out = true -> path_sep w0 -> ws w1 -> ident rule ->
  spells_build_line (dsimple out rule) (lsimple out w0 w1 rule).
Proof.
  intros Ho Hp Hs Hw Hr. exists (out ++ w0 ++ []), [], w1, ([] ++ []), [10%N]. split; [reflexivity|].
  split; [apply paths_one; assumption|]. split; [constructor|]. split; [exact Hw|]. split; [exact Hr|].
  split; [exists [], []; split; [reflexivity|]; split; constructor|].
  split; [apply it_none, ot_none, vt_none | reflexivity].
Qed.

Lemma simple_build ln w out w0 w1 rule :
  ws w -> not_ident_head (w ++ lsimple out w0 w1 rule) ->
  out <> [] -> forallb (plain_char true) out = true -> path_sep w0 -> ws w1 -> ident rule ->
  spells_stmt ln (SBuild (decl_build (dsimple out rule) (ln + nlz w) []))
              (bs "build" ++ w ++ lsimple out w0 w1 rule ++ []).
Proof.
  intros Hw Hn Ho Hp Hs Hw1 Hr.
  exact (ss_build ln w (dsimple out rule) _ [] [] Hw (simple_line out w0 w1 rule Ho Hp Hs Hw1 Hr) Hn
                  (sb_nil _)).
Qed.

(* a file-level binding with a plain value *)
Lemma pre_bind_plain k w1 w2 val vs vs' t :
  ident k -> is_keyword k = false -> ws w1 -> ws w2 ->
  val <> [] -> forallb (plain_char false) val = true -> hd 0%N val <> 32%N ->
  spells_pre (bind_step vs k [Lit val]) vs' t ->
  spells_pre vs vs' (k ++ w1 ++ eq1 ++ w2 ++ val ++ [10%N] ++ t).
Proof.
  intros Hk Hkw H1 H2 Hv Hp Hh Ht.
  exact (pr_bind k w1 w2 [Lit val] val vs vs' t Hk Hkw H1 H2 (plain_value_text val Hv Hp Hh) Ht).
Qed.

(* one indented binding *)
Lemma block_one valid n k w1 w2 e v :
  ident k -> valid k = true -> ws w1 -> ws w2 -> value_text e v ->
  spells_block valid [(k, e)] (repeat 32%N (S n) ++ k ++ w1 ++ eq1 ++ w2 ++ v ++ [10%N] ++ []).
Proof. intros. apply sb_cons; try assumption. constructor. Qed.

Ltac wsp := repeat constructor.
Ltac idn := apply ident_of; [discriminate | reflexivity].
Ltac follow := vm_compute; eexists _, _; split; [reflexivity | first [reflexivity | discriminate]].

(* ------------------------------------------------------------------------------------ *)
(* the values with variable references *)

Definition cmd_c : evalstring := [Lit (bs "c."); Var (bs "v"); Lit (bs "."); Var (bs "w")].
Definition cmd_d : evalstring := [Lit (bs "d."); Var (bs "v"); Lit (bs "."); Var (bs "w")].

Definition cmd_c_text1 : bytes := bs "c.$v.$w".
Definition cmd_c_text2 : bytes := bs "c.${v}.$" ++ [10%N] ++ sp 8 ++ bs "$w".
Definition cmd_d_text1 : bytes := bs "d.$v.$w".
Definition cmd_d_text2 : bytes := bs "d.${v}.${w}".

Lemma value_of e v es0 :
  spells_eval_raw false es0 v -> atoms es0 = atoms e -> not_cont_head v -> (forall r, v <> 32%N :: r) ->
  value_text e v.
Proof. intros R A C S. split; [exists es0; split; assumption | split; assumption]. Qed.

Lemma cmd_c_1 : value_text cmd_c cmd_c_text1.
Proof.
  apply (value_of _ _ cmd_c); [|reflexivity | intros r E; discriminate E | intros r E; discriminate E].
  vm_compute.
  refine (se_lit false [99; 46]%N _ _ _ _ _); [discriminate | reflexivity|].
  refine (se_var false [118]%N _ _ _ _ _ _); [discriminate | reflexivity | | reflexivity].
  refine (se_lit false [46]%N _ _ _ _ _); [discriminate | reflexivity|].
  refine (se_var false [119]%N _ [] _ _ _ _); [discriminate | reflexivity | constructor | exact I].
Qed.

Lemma cmd_c_2 : value_text cmd_c cmd_c_text2.
Proof.
  apply (value_of _ _ cmd_c); [|reflexivity | intros r E; discriminate E | intros r E; discriminate E].
  vm_compute.
  refine (se_lit false [99; 46]%N _ _ _ _ _); [discriminate | reflexivity|].
  refine (se_bvar false [118]%N _ _ _ _ _); [discriminate | reflexivity|].
  refine (se_lit false [46]%N _ _ _ _ _); [discriminate | reflexivity|].
  refine (se_cont false 8 _ _ _ _); [|discriminate].
  refine (se_var false [119]%N _ [] _ _ _ _); [discriminate | reflexivity | constructor | exact I].
Qed.

Lemma cmd_d_1 : value_text cmd_d cmd_d_text1.
Proof.
  apply (value_of _ _ cmd_d); [|reflexivity | intros r E; discriminate E | intros r E; discriminate E].
  vm_compute.
  refine (se_lit false [100; 46]%N _ _ _ _ _); [discriminate | reflexivity|].
  refine (se_var false [118]%N _ _ _ _ _ _); [discriminate | reflexivity | | reflexivity].
  refine (se_lit false [46]%N _ _ _ _ _); [discriminate | reflexivity|].
  refine (se_var false [119]%N _ [] _ _ _ _); [discriminate | reflexivity | constructor | exact I].
Qed.

Lemma cmd_d_2 : value_text cmd_d cmd_d_text2.
Proof.
  apply (value_of _ _ cmd_d); [|reflexivity | intros r E; discriminate E | intros r E; discriminate E].
  vm_compute.
  refine (se_lit false [100; 46]%N _ _ _ _ _); [discriminate | reflexivity|].
  refine (se_bvar false [118]%N _ _ _ _ _); [discriminate | reflexivity|].
  refine (se_lit false [46]%N _ _ _ _ _); [discriminate | reflexivity|].
  refine (se_bvar false [119]%N _ [] _ _ _); [discriminate | reflexivity | constructor].
Qed.

(* "c$\nw" spells the value cw *)
Definition cw_text2 : bytes := bs "c$" ++ [10%N] ++ bs "w".
Lemma cw_2 : value_text [Lit (bs "cw")] cw_text2.
Proof.
  apply (value_of _ _ [Lit (bs "c"); Lit (bs "w")]);
    [|reflexivity | intros r E; discriminate E | intros r E; discriminate E].
  vm_compute.
  refine (se_lit false [99]%N _ _ _ _ _); [discriminate | reflexivity|].
  refine (se_cont false 0 _ _ _ _); [|discriminate].
  refine (se_lit false [119]%N _ [] _ _ _); [discriminate | reflexivity | constructor].
Qed.

(* ------------------------------------------------------------------------------------ *)
(* build.ninja, first spelling *)

Definition vs_top : vars := [(bs "v", bs "top")].
Definition vs_child : vars := [(bs "v", bs "child"); (bs "w", bs "cw")].

Definition m1_T1 : bytes :=                                   (* rule r / command = c.$v.$w *)
  bs "rule" ++ sp 1 ++ bs "r" ++ [10%N] ++ (repeat 32%N 2 ++ bs "command" ++ sp 1 ++ eq1 ++ sp 1 ++ cmd_c_text1 ++ [10%N] ++ []).
Definition m1_F2 : bytes := bs "v" ++ sp 1 ++ eq1 ++ sp 1 ++ bs "top" ++ [10%N] ++ [].
Definition m1_T2 : bytes := bs "include" ++ sp 1 ++ bs "a.ninja".
Definition m1_F3 : bytes := [10%N].
Definition m1_T3 : bytes := bs "build" ++ sp 1 ++ lsimple (bs "o1") [] (sp 1) (bs "r2") ++ [].
Definition m1_T4 : bytes := bs "build" ++ sp 1 ++ lsimple (bs "o2") [] (sp 1) (bs "r") ++ [].
Definition m1_T5 : bytes := bs "default" ++ sp 1 ++ (bs "o1" ++ [] ++ []) ++ [10%N].

Definition m1_R4 : bytes := [] ++ m1_T5 ++ [].
Definition m1_R3 : bytes := [] ++ m1_T4 ++ m1_R4.
Definition m1_R2 : bytes := m1_F3 ++ m1_T3 ++ m1_R3.
Definition m1_R1 : bytes := m1_F2 ++ m1_T2 ++ m1_R2.
Definition ex_main1 : bytes := [] ++ m1_T1 ++ m1_R1.

Example ex_main1_text : ex_main1 =
  ln "rule r" (ln "  command = c.$v.$w" (ln "v = top" (ln "include a.ninja"
  (ln "build o1: r2" (ln "build o2: r" (ln "default o1" [])))))).
Proof. vm_compute. reflexivity. Qed.

(* the abstract build.ninja; [k1], [k2]: the lines of the two `build` statements *)
Definition main_svs (k1 k2 : Z) : list (statement * vars) :=
  [ (SRule (bs "r") (block_vars [(bs "command", cmd_c)]), []);
    (SInclude [Lit (bs "a.ninja")], vs_top);
    (SBuild (decl_build (dsimple (bs "o1") (bs "r2")) k1 []), vs_top);
    (SBuild (decl_build (dsimple (bs "o2") (bs "r")) k2 []), vs_top);
    (SDefault [[Lit (bs "o1")]], vs_top) ].

Lemma ex_main1_spells : spells_file_v 1 [] (main_svs 5 6) vs_top ex_main1.
Proof.
  unfold ex_main1, main_svs.
  refine (sfv_stmt 1 [] _ _ [] _ m1_T1 _ m1_R1 (pr_nil _) _ _ _).
  { apply (ss_rule _ (sp 1) (bs "r") [(bs "command", cmd_c)]); [wsp | discriminate | idn|].
    apply block_one; [idn | reflexivity | wsp | wsp | exact cmd_c_1]. }
  { follow. }
  unfold m1_R1.
  refine (sfv_stmt _ [] _ _ m1_F2 _ m1_T2 _ m1_R2 _ _ _ _).
  { apply pre_bind_plain; [idn | reflexivity | wsp | wsp | discriminate | reflexivity | discriminate | constructor]. }
  { apply ss_include; [wsp | apply plain_value_text; [discriminate | reflexivity | discriminate] | discriminate | reflexivity]. }
  { follow. }
  unfold m1_R2.
  refine (sfv_stmt _ _ _ _ m1_F3 _ m1_T3 _ m1_R3 _ _ _ _).
  { apply pr_blank. constructor. }
  { refine (simple_build _ (sp 1) (bs "o1") [] (sp 1) (bs "r2") _ _ _ _ _ _ _);
      [wsp | reflexivity | discriminate | reflexivity | sep0 | wsp | idn]. }
  { follow. }
  unfold m1_R3.
  refine (sfv_stmt _ _ _ _ [] _ m1_T4 _ m1_R4 (pr_nil _) _ _ _).
  { refine (simple_build _ (sp 1) (bs "o2") [] (sp 1) (bs "r") _ _ _ _ _ _ _);
      [wsp | reflexivity | discriminate | reflexivity | sep0 | wsp | idn]. }
  { follow. }
  unfold m1_R4.
  refine (sfv_stmt _ _ _ _ [] _ m1_T5 _ [] (pr_nil _) _ _ _).
  { apply ss_default; [wsp | discriminate | apply paths_one; [discriminate | reflexivity | sep0] | reflexivity]. }
  { follow. }
  apply sfv_end. constructor.
Qed.

(* ------------------------------------------------------------------------------------ *)
(* build.ninja, second spelling *)

Definition m2_F1 : bytes := 35%N :: bs " main manifest" ++ 10%N :: 10%N :: [].
Definition m2_T1 : bytes :=
  bs "rule" ++ sp 3 ++ bs "r" ++ [10%N] ++ (repeat 32%N 4 ++ bs "command" ++ sp 1 ++ eq1 ++ sp 1 ++ cmd_c_text2 ++ [10%N] ++ []).
Definition m2_F2 : bytes := bs "v" ++ sp 1 ++ eq1 ++ (sp 1 ++ cont 2) ++ bs "top" ++ [10%N] ++ [].
Definition m2_T2 : bytes := bs "include" ++ (sp 1 ++ cont 3) ++ bs "a.ninja".
Definition m2_F3 : bytes := 10%N :: 10%N :: [].
Definition m2_T3 : bytes := bs "build" ++ sp 1 ++ lsimple (bs "o1") (sp 1) (sp 1) (bs "r2") ++ [].
Definition m2_T4 : bytes := bs "build" ++ (sp 1 ++ cont 2) ++ lsimple (bs "o2") [] (sp 1) (bs "r") ++ [].
Definition m2_F5 : bytes := 35%N :: bs " trailing comment" ++ 10%N :: [].
Definition m2_T5 : bytes := bs "default" ++ (sp 1 ++ cont 2) ++ (bs "o1" ++ [] ++ []) ++ [10%N].
Definition m2_F6 : bytes := 10%N :: [].

Definition m2_R4 : bytes := m2_F5 ++ m2_T5 ++ m2_F6.
Definition m2_R3 : bytes := [] ++ m2_T4 ++ m2_R4.
Definition m2_R2 : bytes := m2_F3 ++ m2_T3 ++ m2_R3.
Definition m2_R1 : bytes := m2_F2 ++ m2_T2 ++ m2_R2.
Definition ex_main2 : bytes := m2_F1 ++ m2_T1 ++ m2_R1.

Example ex_main2_text : ex_main2 =
  ln "# main manifest" (ln "" (ln "rule   r" (ln "    command = c.${v}.$" (ln "        $w"
  (ln "v = $" (ln "  top" (ln "include $" (ln "   a.ninja" (ln ""
  (ln "build o1 : r2" (ln "build $" (ln "  o2: r" (ln "# trailing comment"
  (ln "default $" (ln "  o1" (ln "" [])))))))))))))))).
Proof. vm_compute. reflexivity. Qed.

Lemma ex_main2_spells : spells_file_v 1 [] (main_svs 11 13) vs_top ex_main2.
Proof.
  unfold ex_main2, main_svs.
  refine (sfv_stmt 1 [] _ _ m2_F1 _ m2_T1 _ m2_R1 _ _ _ _).
  { apply pr_comment; [reflexivity|]. apply pr_blank. constructor. }
  { apply (ss_rule _ (sp 3) (bs "r") [(bs "command", cmd_c)]); [wsp | discriminate | idn|].
    apply block_one; [idn | reflexivity | wsp | wsp | exact cmd_c_2]. }
  { follow. }
  unfold m2_R1.
  refine (sfv_stmt _ [] _ _ m2_F2 _ m2_T2 _ m2_R2 _ _ _ _).
  { apply pre_bind_plain; [idn | reflexivity | wsp | wsp | discriminate | reflexivity | discriminate | constructor]. }
  { apply ss_include; [wsp | apply plain_value_text; [discriminate | reflexivity | discriminate] | discriminate | reflexivity]. }
  { follow. }
  unfold m2_R2.
  refine (sfv_stmt _ _ _ _ m2_F3 _ m2_T3 _ m2_R3 _ _ _ _).
  { apply pr_blank. apply pr_blank. constructor. }
  { refine (simple_build _ (sp 1) (bs "o1") (sp 1) (sp 1) (bs "r2") _ _ _ _ _ _ _);
      [wsp | reflexivity | discriminate | reflexivity | sep1 | wsp | idn]. }
  { follow. }
  unfold m2_R3.
  refine (sfv_stmt _ _ _ _ [] _ m2_T4 _ m2_R4 (pr_nil _) _ _ _).
  { refine (simple_build _ (sp 1 ++ cont 2) (bs "o2") [] (sp 1) (bs "r") _ _ _ _ _ _ _);
      [wsp | reflexivity | discriminate | reflexivity | sep0 | wsp | idn]. }
  { follow. }
  unfold m2_R4.
  refine (sfv_stmt _ _ _ _ m2_F5 _ m2_T5 _ m2_F6 _ _ _ _).
  { apply pr_comment; [reflexivity|]. constructor. }
  { apply ss_default; [wsp | discriminate | apply paths_one; [discriminate | reflexivity | sep0] | reflexivity]. }
  { follow. }
  apply sfv_end. apply pr_blank. constructor.
Qed.

(* ------------------------------------------------------------------------------------ *)
(* a.ninja, read with v = top *)

Definition a_svs (k : Z) : list (statement * vars) :=
  [ (SRule (bs "r2") (block_vars [(bs "command", cmd_d)]), vs_child);
    (SPool (bs "pl") 2, vs_child);
    (SBuild (decl_build (dsimple (bs "p") (bs "r")) k []), vs_child);
    (SSubninja [Lit (bs "b.ninja")], vs_child) ].

(* first spelling *)
Definition a1_F1 : bytes :=
  bs "v" ++ sp 1 ++ eq1 ++ sp 1 ++ bs "child" ++ [10%N] ++ (bs "w" ++ sp 1 ++ eq1 ++ sp 1 ++ bs "cw" ++ [10%N] ++ []).
Definition a1_T1 : bytes :=
  bs "rule" ++ sp 1 ++ bs "r2" ++ [10%N] ++ (repeat 32%N 2 ++ bs "command" ++ sp 1 ++ eq1 ++ sp 1 ++ cmd_d_text1 ++ [10%N] ++ []).
Definition a1_T2 : bytes :=
  bs "pool" ++ sp 1 ++ bs "pl" ++ [10%N] ++ (repeat 32%N 2 ++ bs "depth" ++ sp 1 ++ eq1 ++ sp 1 ++ bs "2" ++ [10%N] ++ []).
Definition a1_T3 : bytes := bs "build" ++ sp 1 ++ lsimple (bs "p") [] (sp 1) (bs "r") ++ [].
Definition a1_T4 : bytes := bs "subninja" ++ sp 1 ++ bs "b.ninja".
Definition a1_F5 : bytes := 10%N :: [].

Definition a1_R3 : bytes := [] ++ a1_T4 ++ a1_F5.
Definition a1_R2 : bytes := [] ++ a1_T3 ++ a1_R3.
Definition a1_R1 : bytes := [] ++ a1_T2 ++ a1_R2.
Definition ex_a1 : bytes := a1_F1 ++ a1_T1 ++ a1_R1.

Example ex_a1_text : ex_a1 =
  ln "v = child" (ln "w = cw" (ln "rule r2" (ln "  command = d.$v.$w" (ln "pool pl" (ln "  depth = 2"
  (ln "build p: r" (ln "subninja b.ninja" []))))))).
Proof. vm_compute. reflexivity. Qed.

Lemma ex_a1_spells : spells_file_v 1 vs_top (a_svs 7) vs_child ex_a1.
Proof.
  unfold ex_a1, a_svs.
  refine (sfv_stmt 1 vs_top _ _ a1_F1 _ a1_T1 _ a1_R1 _ _ _ _).
  { apply pre_bind_plain; [idn | reflexivity | wsp | wsp | discriminate | reflexivity | discriminate|].
    apply pre_bind_plain; [idn | reflexivity | wsp | wsp | discriminate | reflexivity | discriminate|].
    constructor. }
  { apply (ss_rule _ (sp 1) (bs "r2") [(bs "command", cmd_d)]); [wsp | discriminate | idn|].
    apply block_one; [idn | reflexivity | wsp | wsp | exact cmd_d_1]. }
  { follow. }
  unfold a1_R1.
  refine (sfv_stmt _ _ _ _ [] _ a1_T2 _ a1_R2 (pr_nil _) _ _ _).
  { apply (ss_pool _ (sp 1) (bs "pl") [Lit (bs "2")] 2); [wsp | discriminate | idn | | reflexivity].
    apply block_one; [idn | reflexivity | wsp | wsp | apply plain_value_text; [discriminate | reflexivity | discriminate]]. }
  { follow. }
  unfold a1_R2.
  refine (sfv_stmt _ _ _ _ [] _ a1_T3 _ a1_R3 (pr_nil _) _ _ _).
  { refine (simple_build _ (sp 1) (bs "p") [] (sp 1) (bs "r") _ _ _ _ _ _ _);
      [wsp | reflexivity | discriminate | reflexivity | sep0 | wsp | idn]. }
  { follow. }
  unfold a1_R3.
  refine (sfv_stmt _ _ _ _ [] _ a1_T4 _ a1_F5 (pr_nil _) _ _ _).
  { apply ss_subninja; [wsp | apply plain_value_text; [discriminate | reflexivity | discriminate] | discriminate | reflexivity]. }
  { follow. }
  apply sfv_end. apply pr_blank. constructor.
Qed.

(* second spelling *)
Definition a2_F1 : bytes :=
  bs "v" ++ [] ++ eq1 ++ [] ++ bs "child" ++ [10%N] ++
  (35%N :: bs " comment" ++ 10%N ::
   (bs "w" ++ sp 1 ++ eq1 ++ sp 1 ++ cw_text2 ++ [10%N] ++ [])).
Definition a2_T1 : bytes :=
  bs "rule" ++ sp 1 ++ bs "r2" ++ [10%N] ++ (repeat 32%N 1 ++ bs "command" ++ [] ++ eq1 ++ [] ++ cmd_d_text2 ++ [10%N] ++ []).
Definition a2_F2 : bytes := 10%N :: [].
Definition a2_T2 : bytes :=
  bs "pool" ++ sp 1 ++ bs "pl" ++ [10%N] ++ (repeat 32%N 2 ++ bs "depth" ++ [] ++ eq1 ++ [] ++ bs "2" ++ [10%N] ++ []).
Definition a2_T3 : bytes := bs "build" ++ sp 1 ++ lsimple (bs "p") (sp 1) [] (bs "r") ++ [].
Definition a2_T4 : bytes := bs "subninja" ++ sp 2 ++ bs "b.ninja".
Definition a2_F5 : bytes := 10%N :: [].

Definition a2_R3 : bytes := [] ++ a2_T4 ++ a2_F5.
Definition a2_R2 : bytes := [] ++ a2_T3 ++ a2_R3.
Definition a2_R1 : bytes := a2_F2 ++ a2_T2 ++ a2_R2.
Definition ex_a2 : bytes := a2_F1 ++ a2_T1 ++ a2_R1.

Example ex_a2_text : ex_a2 =
  ln "v=child" (ln "# comment" (ln "w = c$" (ln "w" (ln "rule r2" (ln " command=d.${v}.${w}" (ln ""
  (ln "pool pl" (ln "  depth=2" (ln "build p :r" (ln "subninja  b.ninja" [])))))))))).
Proof. vm_compute. reflexivity. Qed.

Lemma ex_a2_spells : spells_file_v 1 vs_top (a_svs 10) vs_child ex_a2.
Proof.
  unfold ex_a2, a_svs.
  refine (sfv_stmt 1 vs_top _ _ a2_F1 _ a2_T1 _ a2_R1 _ _ _ _).
  { apply pre_bind_plain; [idn | reflexivity | wsp | wsp | discriminate | reflexivity | discriminate|].
    apply pr_comment; [reflexivity|].
    refine (pr_bind (bs "w") (sp 1) (sp 1) [Lit (bs "cw")] cw_text2 _ _ [] _ _ _ _ cw_2 _);
      [idn | reflexivity | wsp | wsp | constructor]. }
  { apply (ss_rule _ (sp 1) (bs "r2") [(bs "command", cmd_d)]); [wsp | discriminate | idn|].
    apply (block_one _ 0); [idn | reflexivity | wsp | wsp | exact cmd_d_2]. }
  { follow. }
  unfold a2_R1.
  refine (sfv_stmt _ _ _ _ a2_F2 _ a2_T2 _ a2_R2 _ _ _ _).
  { apply pr_blank. constructor. }
  { apply (ss_pool _ (sp 1) (bs "pl") [Lit (bs "2")] 2); [wsp | discriminate | idn | | reflexivity].
    apply block_one; [idn | reflexivity | wsp | wsp | apply plain_value_text; [discriminate | reflexivity | discriminate]]. }
  { follow. }
  unfold a2_R2.
  refine (sfv_stmt _ _ _ _ [] _ a2_T3 _ a2_R3 (pr_nil _) _ _ _).
  { refine (simple_build _ (sp 1) (bs "p") (sp 1) [] (bs "r") _ _ _ _ _ _ _);
      [wsp | reflexivity | discriminate | reflexivity | sep1 | wsp | idn]. }
  { follow. }
  unfold a2_R3.
  refine (sfv_stmt _ _ _ _ [] _ a2_T4 _ a2_F5 (pr_nil _) _ _ _).
  { apply ss_subninja; [wsp | apply plain_value_text; [discriminate | reflexivity | discriminate] | discriminate | reflexivity]. }
  { follow. }
  apply sfv_end. apply pr_blank. constructor.
Qed.

(* ------------------------------------------------------------------------------------ *)
(* b.ninja, read with v = child, w = cw: one step with the output [o] *)

Definition b_svs (o : bytes) (k : Z) : list (statement * vars) :=
  [ (SBuild (decl_build (dsimple o (bs "r2")) k []), vs_child) ].

Definition b1_T1 (o : bytes) : bytes := bs "build" ++ sp 1 ++ lsimple o [] (sp 1) (bs "r2") ++ [].
Definition b1_of (o : bytes) : bytes := [] ++ b1_T1 o ++ [].

Definition b2_F1 : bytes := 10%N :: 35%N :: bs " b" ++ 10%N :: [].
Definition b2_T1 (o : bytes) : bytes := bs "build" ++ sp 1 ++ lsimple o [] (sp 1 ++ cont 1) (bs "r2") ++ [].
Definition b2_of (o : bytes) : bytes := b2_F1 ++ b2_T1 o ++ [].

Definition ex_b1 : bytes := b1_of (bs "q").
Definition ex_b2 : bytes := b2_of (bs "q").

Example ex_b_text :
  ex_b1 = ln "build q: r2" [] /\ ex_b2 = ln "" (ln "# b" (ln "build q: $" (ln " r2" []))).
Proof. split; vm_compute; reflexivity. Qed.

Lemma b1_spells o : o <> [] -> forallb (plain_char true) o = true ->
  spells_file_v 1 vs_child (b_svs o 1) vs_child (b1_of o).
Proof.
  intros Ho Hp. unfold b1_of, b_svs.
  refine (sfv_stmt 1 vs_child _ _ [] _ (b1_T1 o) _ [] (pr_nil _) _ _ _).
  { refine (simple_build _ (sp 1) o [] (sp 1) (bs "r2") _ _ _ _ _ _ _);
      [wsp | reflexivity | exact Ho | exact Hp | sep0 | wsp | idn]. }
  { follow. }
  apply sfv_end. constructor.
Qed.

Lemma b2_spells o : o <> [] -> forallb (plain_char true) o = true ->
  spells_file_v 1 vs_child (b_svs o 3) vs_child (b2_of o).
Proof.
  intros Ho Hp. unfold b2_of, b_svs.
  refine (sfv_stmt 1 vs_child _ _ b2_F1 _ (b2_T1 o) _ [] _ _ _ _).
  { apply pr_blank. apply pr_comment; [reflexivity|]. constructor. }
  { refine (simple_build _ (sp 1) o [] (sp 1 ++ cont 1) (bs "r2") _ _ _ _ _ _ _);
      [wsp | reflexivity | exact Ho | exact Hp | sep0 | wsp | idn]. }
  { follow. }
  apply sfv_end. constructor.
Qed.

(* no '\r' in a text, by computation *)
Lemma no_cr (t : bytes) : forallb (fun c => negb (c =? 13)%N) t = true -> ~ In 13%N t.
Proof.
  intros H I. rewrite forallb_forall in H. specialize (H _ I). discriminate H.
Qed.

Lemma no_cr_app a b : ~ In 13%N a -> ~ In 13%N b -> ~ In 13%N (a ++ b).
Proof. intros A B I. apply in_app_or in I as [I|I]; auto. Qed.

Lemma no_cr_plain o : forallb (plain_char true) o = true -> ~ In 13%N o.
Proof.
  intros H I. rewrite forallb_forall in H. specialize (H _ I). discriminate H.
Qed.

Ltac nocr Hp :=
  repeat first [ apply no_cr; reflexivity | apply no_cr_plain; exact Hp | apply no_cr_app ].

Lemma b1_no_cr o : forallb (plain_char true) o = true -> ~ In 13%N (b1_of o).
Proof. intro Hp. unfold b1_of, b1_T1, lsimple. nocr Hp. Qed.

Lemma b2_no_cr o : forallb (plain_char true) o = true -> ~ In 13%N (b2_of o).
Proof. intro Hp. unfold b2_of, b2_T1, lsimple. nocr Hp. Qed.
