(* Vocabulary for Props/C07Crash.v (definitions only): the inductive crash model of the build log.

   A [history] is the list of completion records a file still holds, each with the length the
   file had right after the record was written (the byte offset where the record ends).
   [crash_reach producer f h]: the file [f] can be produced, and holds the history [h], by any
   alternation of
     - appending one in-bounds record with the real writer model [write_build], using the id
       table obtained by opening the file,
     - a crash that keeps an arbitrary byte prefix [firstn k f] of the file, followed by the
       recovery of [db_open] (which truncates the file to its last whole record).
   A record survives a crash at [k] exactly when it ends at or before byte [k]. *)
From N2 Require Import Model.All Proofs.DbSpec.

Definition history := list (wr * nat).

Definition records (h : history) : list wr := map fst h.

Definition survivors (k : nat) (h : history) : history := filter (fun e => (snd e <=? k)%nat) h.

Inductive crash_reach (producer : bytes -> option nat) : bytes -> history -> Prop :=
| cr_new : crash_reach producer signature []
| cr_append f h st w b t :
    crash_reach producer f h -> db_open true producer f = OpenOk st f -> in_bounds w ->
    (N.of_nat (length (ld_tbl st) + length (w_outs w) + length (w_deps w)) < 16777216)%N ->
    write_build (ld_tbl st) (w_outs w) (w_deps w) (w_hash w) = Ok (b, t) ->
    crash_reach producer (f ++ b) (h ++ [(w, length (f ++ b))])
| cr_crash f h k st f' :
    crash_reach producer f h -> db_open true producer (firstn k f) = OpenOk st f' ->
    crash_reach producer f' (survivors k h).

(* the new names a write enters into the id table, in the order of their path records *)
Fixpoint new_names (names tbl : list bytes) : list bytes :=
  match names with
  | [] => []
  | nm :: rest =>
    match index_of nm tbl 0 with
    | Some _ => new_names rest tbl
    | None => nm :: new_names rest (tbl ++ [nm])
    end
  end.
