(* Repairs of audit findings M2 and M3 (Props/C07Crash.v): the exact survival statement and the
   inductive crash model with the history of surviving records. *)
From Coq Require Import Lia.
From N2 Require Import Model.All Proofs.DbSpec Proofs.DbCodec Proofs.DbWriter Proofs.DbReader Proofs.DbMain.
From N2 Require Import Proofs.FixDbCrashSpec.

(* ------------------------------------------------------------------------------------ *)
(* M2: the exact version of C07_whole_records_survive *)

Lemma last_applicable_app producer b : forall ws1 ws2 acc,
  last_applicable producer (ws1 ++ ws2) b acc =
  last_applicable producer ws2 b (last_applicable producer ws1 b acc).
Proof. induction ws1 as [|w ws1 IH]; intros ws2 acc; cbn [app last_applicable]; [reflexivity | apply IH]. Qed.

Lemma whole_records_survive_exact : forall producer ws1 ws2 log1 log k,
  Forall in_bounds (ws1 ++ ws2) -> table_small (ws1 ++ ws2) ->
  log_of ws1 = Ok log1 -> log_of (ws1 ++ ws2) = Ok log -> (length log1 <= k)%nat ->
  exists st f j, db_open true producer (firstn k log) = OpenOk st f /\ is_prefix log1 f /\
    is_prefix f log /\ db_open true producer f = OpenOk st f /\
    forall b, loaded_for st b = last_applicable producer (ws1 ++ firstn j ws2) b None.
Proof.
  intros producer ws1 ws2 log1 log k Hb Hs Hlog1 Hlog Hk.
  apply Forall_app in Hb as [Hb1 Hb2].
  change (N.of_nat (nnames (ws1 ++ ws2)) < 16777216)%N in Hs. rewrite nnames_app in Hs.
  destruct (log_full producer ws1 Hb1) as (recs1 & tbl1 & st0 & E1 & Hok1 & Hw1 & Hl1 & Hap1 & Ht1 & Hld1);
    [change (N.of_nat (nnames ws1) < 16777216)%N; lia|].
  destruct (log_from_ok ws2 tbl1 Hb2) as (recs2 & tbl2 & E2 & Hok2 & Hw2 & _); [lia|].
  pose proof (log_from_app _ _ _ _ _ _ _ E1 E2) as E.
  rewrite (log_of_from _ _ _ E1) in Hlog1. apply Ok_inj in Hlog1. subst log1.
  rewrite (log_of_from _ _ _ E) in Hlog. apply Ok_inj in Hlog. subst log.
  rewrite (app_assoc signature), firstn_app, firstn_all2, <- app_assoc by exact Hk.
  destruct (open_prefix producer recs1 st0 tbl1 ws2 recs2 tbl2 (k - length (signature ++ encs recs1)))
    as (st & m & j & H1 & H2 & _ & H4); try assumption.
  exists st, (signature ++ encs (recs1 ++ firstn m recs2)), j. split; [exact H1|]. split; [|split; [|split]].
  - exists (encs (firstn m recs2)). now rewrite encs_app, app_assoc.
  - exists (encs (skipn m recs2)).
    rewrite encs_app, <- !app_assoc, <- (encs_app (firstn m recs2)), firstn_skipn. reflexivity.
  - now apply good_file_open.
  - intros b. rewrite H4, Hld1, last_applicable_app. reflexivity.
Qed.

(* ------------------------------------------------------------------------------------ *)
(* M3: the invariant of the crash model.  The record list of the file, built from the left:
   path records extend the id table, a build record is some completion record [w] whose names
   are decoded by the table at that point; the history remembers where it ends. *)

Inductive hrecs (producer : bytes -> option nat) : list dbrec -> history -> loaded -> Prop :=
| hr_nil : hrecs producer [] [] ld_init
| hr_path rs h st n : hrecs producer rs h st -> rec_ok (DPath n) ->
    hrecs producer (rs ++ [DPath n]) h (mkLoaded (ld_tbl st ++ [n]) (ld_builds st))
| hr_build rs h st w oids dids : hrecs producer rs h st ->
    Forall2 (id_name (ld_tbl st)) oids (w_outs w) -> Forall2 (id_name (ld_tbl st)) dids (w_deps w) ->
    rec_ok (DBuild oids dids (w_hash w)) ->
    hrecs producer (rs ++ [DBuild oids dids (w_hash w)])
          (h ++ [(w, 8 + length (encs (rs ++ [DBuild oids dids (w_hash w)])))])
          (mkLoaded (ld_tbl st)
             (match ub producer (w_outs w) None false with
              | Some b => (b, (w_deps w, w_hash w)) :: ld_builds st
              | None => ld_builds st
              end)).

Lemma last_applicable_snoc producer b ws w :
  last_applicable producer (ws ++ [w]) b None =
  if applicable producer w b then Some (w_deps w, w_hash w) else last_applicable producer ws b None.
Proof. rewrite last_applicable_app. reflexivity. Qed.

Lemma hrecs_ok producer rs h st : hrecs producer rs h st ->
  Forall rec_ok rs /\ apply_records true producer rs ld_init = Ok st /\
  (forall b, loaded_for st b = last_applicable producer (records h) b None) /\
  (forall e, In e h -> 8 < snd e <= 8 + length (encs rs)).
Proof.
  induction 1 as [|rs h st n _ (Hok & Hap & Hld & Hb) Hn
                  |rs h st w oids dids _ (Hok & Hap & Hld & Hb) Ho Hd Hr].
  - split; [constructor|]. split; [reflexivity|]. split; [reflexivity|]. intros e [].
  - split; [apply Forall_app; split; [exact Hok | constructor; [exact Hn | constructor]]|].
    split; [rewrite (apply_app _ _ _ _ _ _ Hap); reflexivity|].
    split; [exact Hld|].
    intros e He. specialize (Hb e He). rewrite encs_app, app_length. lia.
  - split; [apply Forall_app; split; [exact Hok | constructor; [exact Hr | constructor]]|].
    split.
    { rewrite (apply_app _ _ _ _ _ _ Hap). cbn [apply_records].
      rewrite (unique_build_spec producer _ _ _ Ho), (names_of_spec _ _ _ Hd). cbn [bind].
      destruct (ub producer (w_outs w) None false); [reflexivity | destruct st; reflexivity]. }
    split.
    { intros b. unfold records. rewrite map_app. cbn [map fst]. rewrite last_applicable_snoc.
      fold (records h). rewrite <- Hld. unfold loaded_for. cbn [ld_builds]. apply loaded_for_step. }
    intros e He. apply in_app_or in He as [He|[<-|[]]].
    + specialize (Hb e He). rewrite encs_app, app_length. lia.
    + cbn [snd]. split; [|lia]. rewrite encs_app, app_length.
      pose proof (enc_rec_len (DBuild oids dids (w_hash w))) as L.
      cbn [encs map concat]. rewrite app_nil_r. lia.
Qed.

Lemma hrecs_good producer rs h st : hrecs producer rs h st -> good_file producer (signature ++ encs rs) st.
Proof.
  intro H. destruct (hrecs_ok producer rs h st H) as (Hok & Hap & _). exists rs. repeat split; assumption.
Qed.

Lemma hrecs_paths producer : forall news rs h st, hrecs producer rs h st -> Forall rec_ok (map DPath news) ->
  hrecs producer (rs ++ map DPath news) h (mkLoaded (ld_tbl st ++ news) (ld_builds st)).
Proof.
  induction news as [|n news IH]; intros rs h st H F.
  - cbn [map]. rewrite !app_nil_r. destruct st. exact H.
  - cbn [map] in F |- *. inversion F as [|? ? Hn Hr]; subst.
    pose proof (IH _ _ _ (hr_path producer rs h st n H Hn) Hr) as H1.
    cbn [ld_tbl ld_builds] in H1. rewrite <- !app_assoc in H1. exact H1.
Qed.

Lemma survivors_app k h1 h2 : survivors k (h1 ++ h2) = survivors k h1 ++ survivors k h2.
Proof. apply filter_app. Qed.

Lemma survivors_all k h : (forall e, In e h -> snd e <= k) -> survivors k h = h.
Proof.
  induction h as [|e h IH]; intro H; [reflexivity|]. unfold survivors. cbn [filter].
  assert (E : (snd e <=? k) = true) by (apply Nat.leb_le, H; now left). rewrite E.
  fold (survivors k h). rewrite IH; [reflexivity|]. intros e' He'. apply H. now right.
Qed.

Lemma survivors_none k h : (forall e, In e h -> k < snd e) -> survivors k h = [].
Proof.
  induction h as [|e h IH]; intro H; [reflexivity|]. unfold survivors. cbn [filter].
  assert (E : (snd e <=? k) = false) by (apply Nat.leb_gt, H; now left). rewrite E.
  apply IH. intros e' He'. apply H. now right.
Qed.

(* a byte cut of the record area = a record cut + a torn record; the history is cut with it *)
Lemma hrecs_prefix producer rs h st : hrecs producer rs h st -> forall k,
  exists m p st', firstn k (encs rs) = encs (firstn m rs) ++ p /\ parse_record p = None /\
    m <= length rs /\ hrecs producer (firstn m rs) (survivors (8 + k) h) st'.
Proof.
  induction 1 as [|rs h st n H IH Hn|rs h st w oids dids H IH Ho Hd Hr]; intro k.
  - exists 0, [], ld_init. rewrite firstn_nil. cbn [firstn encs map concat app length survivors filter].
    repeat split; [lia | constructor].
  - destruct (hrecs_ok producer rs h st H) as (Hok & _ & _ & Hb).
    destruct (Nat.lt_ge_cases k (length (encs rs))) as [L|L].
    + destruct (IH k) as (m & p & st' & E & Hp & Hm & Hh).
      exists m, p, st'. rewrite encs_app, firstn_app. replace (k - length (encs rs)) with 0 by lia.
      cbn [firstn]. rewrite app_nil_r, firstn_app. replace (m - length rs) with 0 by lia.
      cbn [firstn]. rewrite app_nil_r. repeat split; try assumption. rewrite app_length. lia.
    + destruct (Nat.lt_ge_cases k (length (encs (rs ++ [DPath n])))) as [L2|L2].
      * exists (length rs), (firstn (k - length (encs rs)) (enc_rec (DPath n))), st.
        rewrite encs_app in L2 |- *. rewrite app_length in L2. cbn [encs map concat] in L2 |- *.
        rewrite app_nil_r in L2 |- *.
        rewrite firstn_app, (firstn_all2 (encs rs)) by exact L.
        rewrite firstn_app, Nat.sub_diag, firstn_all. cbn [firstn]. rewrite app_nil_r.
        split; [reflexivity|]. split; [apply parse_record_torn; [exact Hn | lia]|].
        split; [rewrite app_length; lia|].
        rewrite survivors_all; [exact H|]. intros e He. specialize (Hb e He). lia.
      * exists (length (rs ++ [DPath n])), [], (mkLoaded (ld_tbl st ++ [n]) (ld_builds st)).
        rewrite firstn_all2 by exact L2. rewrite firstn_all, app_nil_r.
        split; [reflexivity|]. split; [reflexivity|]. split; [lia|].
        rewrite survivors_all; [now constructor|].
        intros e He. specialize (Hb e He). rewrite encs_app, app_length in L2. lia.
  - destruct (hrecs_ok producer rs h st H) as (Hok & _ & _ & Hb).
    set (r := DBuild oids dids (w_hash w)) in *.
    destruct (Nat.lt_ge_cases k (length (encs (rs ++ [r])))) as [L2|L2].
    + assert (Hs : survivors (8 + k) (h ++ [(w, 8 + length (encs (rs ++ [r])))]) = survivors (8 + k) h).
      { rewrite survivors_app, (survivors_none _ [_]), app_nil_r; [reflexivity|].
        intros e [<-|[]]. cbn [snd]. lia. }
      rewrite Hs.
      destruct (Nat.lt_ge_cases k (length (encs rs))) as [L|L].
      * destruct (IH k) as (m & p & st' & E & Hp & Hm & Hh).
        exists m, p, st'. rewrite encs_app, firstn_app. replace (k - length (encs rs)) with 0 by lia.
        cbn [firstn]. rewrite app_nil_r, firstn_app. replace (m - length rs) with 0 by lia.
        cbn [firstn]. rewrite app_nil_r. repeat split; try assumption. rewrite app_length. lia.
      * exists (length rs), (firstn (k - length (encs rs)) (enc_rec r)), st.
        rewrite encs_app in L2 |- *. rewrite app_length in L2. cbn [encs map concat] in L2 |- *.
        rewrite app_nil_r in L2 |- *.
        rewrite firstn_app, (firstn_all2 (encs rs)) by exact L.
        rewrite firstn_app, Nat.sub_diag, firstn_all. cbn [firstn]. rewrite app_nil_r.
        split; [reflexivity|]. split; [apply parse_record_torn; [exact Hr | lia]|].
        split; [rewrite app_length; lia|].
        rewrite survivors_all; [exact H|]. intros e He. specialize (Hb e He). lia.
    + eexists (length (rs ++ [r])), [], _.
      rewrite firstn_all2 by exact L2. rewrite firstn_all, app_nil_r.
      split; [reflexivity|]. split; [reflexivity|]. split; [lia|].
      rewrite survivors_all; [exact (hr_build producer rs h st w oids dids H Ho Hd Hr)|].
      intros e He. apply in_app_or in He as [He|[<-|[]]]; [|cbn [snd]; lia].
      specialize (Hb e He). rewrite encs_app, app_length in L2. lia.
Qed.

(* opening a cut of a file that satisfies the invariant *)
Lemma hrecs_cut producer rs h st : hrecs producer rs h st -> forall k,
  exists rs' st', db_open true producer (firstn k (signature ++ encs rs)) = OpenOk st' (signature ++ encs rs') /\
    hrecs producer rs' (survivors k h) st' /\ is_prefix (signature ++ encs rs') (signature ++ encs rs) /\
    length (signature ++ encs rs') <= Nat.max k 8.
Proof.
  intros H k. destruct (hrecs_ok producer rs h st H) as (Hok & _ & _ & Hb).
  destruct (Nat.lt_ge_cases k 8) as [L|L].
  - exists [], ld_init. split; [|split; [|split]].
    + cbn [encs map concat]. rewrite app_nil_r. apply db_open_short; [|reflexivity].
      pose proof (firstn_le_length k (signature ++ encs rs)). lia.
    + rewrite survivors_none; [constructor|]. intros e He. specialize (Hb e He). lia.
    + exists (encs rs). cbn [encs map concat]. now rewrite app_nil_r.
    + cbn [encs map concat]. rewrite app_nil_r, length_signature. lia.
  - rewrite firstn_app, firstn_all2, length_signature by (rewrite length_signature; exact L).
    destruct (hrecs_prefix producer rs h st H (k - 8)) as (m & p & st' & E & Hp & Hm & Hh).
    replace (8 + (k - 8)) with k in Hh by lia.
    exists (firstn m rs), st'. split; [|split; [|split]].
    + rewrite E. destruct (hrecs_ok producer _ _ _ Hh) as (Hok' & Hap' & _). now apply db_open_encs.
    + exact Hh.
    + exists (encs (skipn m rs)). now rewrite <- app_assoc, <- encs_app, firstn_skipn.
    + pose proof (firstn_le_length (k - 8) (encs rs)) as Lk. rewrite E, app_length in Lk.
      rewrite app_length, length_signature. lia.
Qed.

Lemma open_inj st f st' f' : OpenOk st f = OpenOk st' f' -> st = st' /\ f = f'.
Proof. intro H. injection H as -> ->. split; reflexivity. Qed.

Theorem crash_reach_inv producer f h : crash_reach producer f h ->
  exists rs st, f = signature ++ encs rs /\ hrecs producer rs h st.
Proof.
  induction 1 as [|f h st w b t _ (rs & st0 & -> & Hh) Ho Hw Hsz Hwb|f h k st f' _ (rs & st0 & -> & Hh) Ho].
  - exists [], ld_init. split; [cbn [encs map concat]; now rewrite app_nil_r | constructor].
  - rewrite (good_file_open _ _ _ (hrecs_good producer rs h st0 Hh)) in Ho.
    apply open_inj in Ho as [<- _].
    destruct (write_build_ok (ld_tbl st0) w Hw Hsz) as (news & oids & dids & E & _ & Hio & Hid & Hrec).
    rewrite E in Hwb. injection Hwb as <- <-.
    apply Forall_app in Hrec as [Hrp Hrb]. inversion Hrb as [|? ? Hr _]; subst.
    pose proof (hrecs_paths producer news rs h st0 Hh Hrp) as H1.
    pose proof (hr_build producer _ h _ w oids dids H1 Hio Hid Hr) as H2.
    eexists ((rs ++ map DPath news) ++ [DBuild oids dids (w_hash w)]), _. split.
    + rewrite <- app_assoc, <- !encs_app, <- app_assoc. reflexivity.
    + replace (length ((signature ++ encs rs) ++ encs (map DPath news ++ [DBuild oids dids (w_hash w)])))
        with (8 + length (encs ((rs ++ map DPath news) ++ [DBuild oids dids (w_hash w)]))); [exact H2|].
      rewrite <- (app_assoc rs), (encs_app rs), !app_length, length_signature. lia.
  - destruct (hrecs_cut producer rs h st0 Hh k) as (rs' & st' & Ho' & Hh' & _).
    rewrite Ho in Ho'. apply open_inj in Ho' as [-> ->]. exists rs', st'. split; [reflexivity | exact Hh'].
Qed.

(* ------------------------------------------------------------------------------------ *)
(* the theorems *)

(* a reachable file opens, unchanged, to exactly its history *)
Theorem reachable_opens_exact producer f h : crash_reach producer f h ->
  exists st, db_open true producer f = OpenOk st f /\
    forall b, loaded_for st b = last_applicable producer (records h) b None.
Proof.
  intro R. destruct (crash_reach_inv producer f h R) as (rs & st & -> & Hh).
  exists st. split; [apply good_file_open; eapply hrecs_good; exact Hh|].
  exact (proj1 (proj2 (proj2 (hrecs_ok producer rs h st Hh)))).
Qed.

(* the offsets of a history grow, so the survivors of a crash are a prefix of it *)
Lemma hrecs_survivors_prefix producer rs h st : hrecs producer rs h st -> forall k,
  exists j, j <= length h /\ survivors k h = firstn j h.
Proof.
  induction 1 as [|rs h st n H IH Hn|rs h st w oids dids H IH Ho Hd Hr]; intro k.
  - exists 0. split; [lia | reflexivity].
  - apply IH.
  - destruct (hrecs_ok producer rs h st H) as (_ & _ & _ & Hb).
    set (off := 8 + length (encs (rs ++ [DBuild oids dids (w_hash w)]))).
    assert (Hoff : 8 + length (encs rs) <= off) by (unfold off; rewrite encs_app, app_length; lia).
    destruct (Nat.le_gt_cases off k) as [L|L].
    + exists (length (h ++ [(w, off)])). split; [lia|]. rewrite firstn_all. apply survivors_all.
      intros e He. apply in_app_or in He as [He|[<-|[]]]; [specialize (Hb e He); lia | exact L].
    + destruct (IH k) as (j & Hj & E). exists j. rewrite app_length. split; [lia|].
      rewrite survivors_app, (survivors_none _ [_]), app_nil_r, E.
      * rewrite firstn_app. replace (j - length h) with 0 by lia. cbn [firstn]. now rewrite app_nil_r.
      * intros e [<-|[]]. exact L.
Qed.

Theorem every_reachable_prefix_opens producer f h k : crash_reach producer f h ->
  exists st f', db_open true producer (firstn k f) = OpenOk st f' /\ is_prefix f' f /\
    (length f' <= Nat.max k 8)%nat /\ db_open true producer f' = OpenOk st f' /\
    crash_reach producer f' (survivors k h) /\
    (forall b, loaded_for st b = last_applicable producer (records (survivors k h)) b None) /\
    (exists j, survivors k h = firstn j h) /\
    (forall e, In e (survivors k h) -> (snd e <= length f')%nat).
Proof.
  intro R. destruct (crash_reach_inv producer f h R) as (rs & st0 & -> & Hh).
  destruct (hrecs_cut producer rs h st0 Hh k) as (rs' & st' & Ho & Hh' & Hp & Hl).
  destruct (hrecs_ok producer rs' _ st' Hh') as (_ & _ & Hld & Hb).
  exists st', (signature ++ encs rs'). split; [exact Ho|]. split; [exact Hp|]. split; [exact Hl|].
  split; [apply good_file_open; eapply hrecs_good; exact Hh'|].
  split; [exact (cr_crash producer _ h k st' _ R Ho)|]. split; [exact Hld|]. split.
  - destruct (hrecs_survivors_prefix producer rs h st0 Hh k) as (j & _ & E). now exists j.
  - intros e He. specialize (Hb e He). rewrite app_length, length_signature. lia.
Qed.

(* an append is always possible on a reachable file (within the format limits), and the new
   file holds one more record *)
Theorem reachable_append producer f h w : crash_reach producer f h ->
  exists st, db_open true producer f = OpenOk st f /\
    (in_bounds w -> (N.of_nat (length (ld_tbl st) + length (w_outs w) + length (w_deps w)) < 16777216)%N ->
     exists b t, write_build (ld_tbl st) (w_outs w) (w_deps w) (w_hash w) = Ok (b, t) /\
                 crash_reach producer (f ++ b) (h ++ [(w, length (f ++ b))])).
Proof.
  intro R. destruct (reachable_opens_exact producer f h R) as (st & Ho & _).
  exists st. split; [exact Ho|]. intros Hw Hsz.
  destruct (write_build_ok (ld_tbl st) w Hw Hsz) as (news & oids & dids & E & _).
  eexists _, _. split; [exact E|]. exact (cr_append producer f h st w _ _ R Ho Hw Hsz E).
Qed.

(* crash-free logs are reachable, with the history of all their records: the crash model
   contains everything the old C07 statements quantify over *)
Lemma log_from_reach producer : forall ws f h st tbl b tbl',
  crash_reach producer f h -> db_open true producer f = OpenOk st f -> ld_tbl st = tbl ->
  Forall in_bounds ws -> (N.of_nat (length tbl + nnames ws) < 16777216)%N ->
  log_from tbl ws = Ok (b, tbl') -> exists h', crash_reach producer (f ++ b) (h ++ h') /\ records h' = ws.
Proof.
  induction ws as [|w ws IH]; intros f h st tbl b tbl' Hr Ho Ht Hb Hsz Hl.
  - cbn in Hl. injection Hl as <- <-. exists []. rewrite !app_nil_r. split; [exact Hr | reflexivity].
  - inversion Hb as [|? ? Hw Hws]; subst. rewrite nnames_cons in Hsz. cbn [log_from] in Hl.
    destruct (write_build (ld_tbl st) (w_outs w) (w_deps w) (w_hash w)) as [[b1 t1]| | | |] eqn:Ew; try discriminate.
    cbn [bind] in Hl.
    destruct (log_from t1 ws) as [[b2 t2]| | | |] eqn:E2; try discriminate. cbn [bind] in Hl.
    injection Hl as <- <-.
    assert (Hsz1 : (N.of_nat (length (ld_tbl st) + length (w_outs w) + length (w_deps w)) < 16777216)%N) by lia.
    pose proof (cr_append producer f h st w b1 t1 Hr Ho Hw Hsz1 Ew) as Hr1.
    destruct (crash_reach_inv producer f h Hr) as (rs & st0 & Ef & Hh).
    pose proof (hrecs_good producer rs h st0 Hh) as Hg. rewrite <- Ef in Hg.
    rewrite (good_file_open _ _ _ Hg) in Ho. apply open_inj in Ho as [<- _].
    destruct (good_append producer f st0 w b1 t1 Hg Hw Hsz1 Ew) as (st' & Hg' & Ht' & _).
    destruct (IH (f ++ b1) (h ++ [(w, length (f ++ b1))]) st' t1 b2 t2 Hr1 (good_file_open _ _ _ Hg') Ht' Hws)
      as (h' & Hr2 & Hrec); [|exact E2|].
    + destruct (write_build_ok (ld_tbl st0) w Hw Hsz1) as (news & oids & dids & E & Hlen & _).
      rewrite E in Ew. injection Ew as _ <-. rewrite app_length. lia.
    + exists ((w, length (f ++ b1)) :: h'). rewrite <- !app_assoc in Hr2. cbn [app] in Hr2.
      split; [exact Hr2|]. cbn [records map fst]. f_equal. exact Hrec.
Qed.

Theorem crash_free_logs_are_reachable producer ws log :
  Forall in_bounds ws -> table_small ws -> log_of ws = Ok log ->
  exists h, crash_reach producer log h /\ records h = ws.
Proof.
  intros Hb Hs Hlog. unfold log_of in Hlog.
  destruct (log_from [] ws) as [[b t]| | | |] eqn:E; try discriminate. cbn [bind fst] in Hlog.
  injection Hlog as <-.
  destruct (log_from_reach producer ws signature [] ld_init [] b t) as (h' & Hr & Hrec);
    [apply cr_new | apply good_file_open, good_file_init | reflexivity | exact Hb | exact Hs | exact E|].
  exists h'. split; [exact Hr | exact Hrec].
Qed.
