(* C18 (the wanted set is exactly the closure of the targets under producers) and the
   C06 cycle theorems. *)
From N2 Require Import Model.All Proofs.SchedSpec Proofs.SchedInv Proofs.SchedWantRel
     Proofs.SchedWantSteps Proofs.SchedWantInv.

(* the double visit: step 0 (A) has an ordering input made by step 1 (C); C has a validation
   input made by step 2 (D); D has an ordering input made by A.  A is visited again below
   C's validation edge while its own ordering inputs are still being visited, so
   BuildStates::set is called twice for A -- the second time Want -> Want. *)
Example double_visit_graph : graph :=
  mkGraph [mkBuild [1] 1 0 0 [0] false None; mkBuild [2] 0 0 0 [1] false None;
           mkBuild [0] 1 0 0 [2] false None]
          [mkFile [97%N] (Some 0) [2]; mkFile [99%N] (Some 1) [0]; mkFile [100%N] (Some 2) []].

Example double_visit_log :
  match want_file (want_fuel double_visit_graph) double_visit_graph (bs_new 3 [], []) [] 0 with
  | Ok ((s, log), _) =>
    log = [(1, Ready); (0, Want); (2, Want); (0, Want)] /\
    bs_states s = [Want; Ready; Want] /\ bs_ready s = [1] /\ bs_pending s = 3%Z /\
    bs_counts s = mkC6 2 1 0 0 0 0
  | _ => False
  end.
Proof. vm_compute. repeat split. Qed.

(* ---------------------------------------------------------------------------------- *)
(* C18 *)

Section Closure18.
Variable g : graph.

Definition Rc (R : nat -> Prop) : Prop := forall b p, R b -> any_producer g b p -> R p.

Definition newR (w w' : wst) (R : nat -> Prop) : Prop :=
  forall b, known (fst w') b -> known (fst w) b \/ R b.

Lemma want_new_all :
  (forall w stack id w' st, WB g w stack id w' st ->
     forall R, Rc R -> R id -> newR w w' R) /\
  (forall w stack f w' ok, WF g w stack f w' ok ->
     forall R, Rc R -> (forall p, file_input g f = Some p -> R p) -> newR w w' R) /\
  (forall w stack ins ready w' ready', OL g w stack ins ready w' ready' ->
     forall R, Rc R -> (forall f p, In f ins -> file_input g f = Some p -> R p) -> newR w w' R) /\
  (forall w ins w', VL g w ins w' ->
     forall R, Rc R -> (forall f p, In f ins -> file_input g f = Some p -> R p) -> newR w w' R).
Proof.
  apply want_mutind; unfold newR.
  - intros; now left.
  - intros w stack id w1 ready s' w2 HU _ IHOL Hset _ IHVL R HR Hid b Hb.
    assert (Hins : forall f p, In f (b_ins (get_build g id)) -> file_input g f = Some p -> R p).
    { intros f p Hf Hp. apply (HR id p Hid). exists f; auto. }
    destruct (IHVL R HR) with (b := b) as [Hk|Hr]; [| exact Hb | | now right].
    { intros f p Hf. apply Hins. now apply validation_ins_incl. }
    cbn [fst] in Hk.
    destruct (Nat.eq_dec b id) as [->|Hne]; [now right|].
    unfold known in Hk. rewrite (bs_set_get_other _ _ _ _ _ b Hset Hne) in Hk.
    apply (IHOL R HR); [|exact Hk].
    intros f p Hf. apply Hins. now apply ordering_ins_incl.
  - intros; now left.
  - intros w stack f bid w' st _ HF _ IH R HR Hp b Hb. apply (IH R HR); auto.
  - intros; now left.
  - intros w stack f rest ready w1 ok w2 ready2 _ IH1 _ IH2 R HR Hp b Hb.
    destruct (IH2 R HR) with (b := b) as [Hk|Hr]; [| exact Hb | | now right].
    { intros f' p Hf'. apply Hp. now right. }
    apply (IH1 R HR); [|exact Hk]. intros p. apply Hp. now left.
  - intros; now left.
  - intros w f rest w1 ok w2 _ IH1 _ IH2 R HR Hp b Hb.
    destruct (IH2 R HR) with (b := b) as [Hk|Hr]; [| exact Hb | | now right].
    { intros f' p Hf'. apply Hp. now right. }
    apply (IH1 R HR); [|exact Hk]. intros p. apply Hp. now left.
Qed.

Lemma needed_Rc ts : Rc (needed g ts).
Proof. intros b p Hb Hp. eapply nd_input; eauto. Qed.

Lemma needed_incl ts ts' b : incl ts ts' -> needed g ts b -> needed g ts' b.
Proof.
  intros Hi H. induction H as [f b Hf Hb|b p _ IH Hp].
  - eapply nd_target; eauto.
  - eapply nd_input; eauto.
Qed.

Hypothesis Hwf : graph_wf g.

Lemma wanted_trans s1 s2 s3 : wanted g s1 s2 -> wanted g s2 s3 -> wanted g s1 s3.
Proof.
  intros H12 H23. induction H23 as [s|s sa sb l l' f rdy _ IH Hw]; [assumption|].
  eapply w_step; [apply IH; exact H12|exact Hw].
Qed.

Lemma want_targets_wanted ts : forall s l s' l',
  want_targets g (s, l) ts = Ok (s', l') -> wanted g s s'.
Proof.
  induction ts as [|t rest IH]; intros s l s' l' H; cbn [want_targets] in H.
  - inversion H; subst. constructor.
  - apply bind_ok in H as [[[s1 l1] ok] [H1 H2]]. cbn [fst] in H2.
    eapply wanted_trans; [|eapply IH; exact H2].
    eapply w_step; [constructor|exact H1].
Qed.

Theorem want_targets_closure decls ts : forall s l s' l',
  BInv g decls s -> want_targets g (s, l) ts = Ok (s', l') ->
  forall b, get_state s' b <> Unknown <-> (get_state s b <> Unknown \/ needed g ts b).
Proof.
  intros s l s' l' HB H.
  assert (HB' : BInv g decls s').
  { eapply (wanted_preserves_BInv g Hwf); [exact HB|]. eapply want_targets_wanted; eauto. }
  assert (Hfwd : forall b, known s' b -> known s b \/ needed g ts b).
  { clear HB'. revert s l HB H. induction ts as [|t rest IH]; intros s l HB H b Hb; cbn [want_targets] in H.
    - inversion H; subst. now left.
    - apply bind_ok in H as [[[s1 l1] ok] [H1 H2]]. cbn [fst] in H2.
      assert (HB1 : BInv g decls s1) by (eapply (want_file_preserves_BInv g Hwf); eauto).
      destruct (IH s1 l1 HB1 H2 b Hb) as [Hk|Hn].
      + pose proof (want_file_sound g _ _ _ _ _ _ H1) as HWF.
        destruct (proj1 (proj2 want_new_all) _ _ _ _ _ HWF (needed g (t :: rest)) (needed_Rc _))
          with (b := b) as [Hk0|Hn]; auto.
        intros p Hp. eapply nd_target; [now left|exact Hp].
      + right. eapply needed_incl; [|exact Hn]. intros x Hx. now right. }
  assert (Hbwd : forall b, needed g ts b -> known s' b).
  { intros b Hn. induction Hn as [f b Hf Hb|b p _ IH Hp].
    - clear Hfwd HB'. revert s l HB H Hf. induction ts as [|t rest IH]; intros s l HB H Hf; [destruct Hf|].
      cbn [want_targets] in H.
      apply bind_ok in H as [[[s1 l1] ok] [H1 H2]]. cbn [fst] in H2.
      assert (HB1 : BInv g decls s1) by (eapply (want_file_preserves_BInv g Hwf); eauto).
      destruct Hf as [->|Hf]; [|eapply IH; eauto].
      pose proof (want_file_sound g _ _ _ _ _ _ H1) as HWF.
      pose proof (WF_known g Hwf _ _ _ _ _ b HWF (bi_len _ _ _ HB) Hb) as Hk. cbn [fst] in Hk.
      eapply ext_known; [|exact Hk]. apply steps_ext. apply (wanted_steps g Hwf).
      eapply want_targets_wanted; eauto.
    - apply (bi_closed _ _ _ HB' b p IH Hp). }
  intros b. split.
  - apply Hfwd.
  - intros [Hk|Hn]; [|now apply Hbwd].
    eapply ext_known; [|exact Hk]. apply steps_ext. apply (wanted_steps g Hwf).
    eapply want_targets_wanted; eauto.
Qed.

(* want_named = want_targets on the selected targets *)
Lemma want_named_targets manifest adopt names : forall w w',
  want_named g manifest adopt names w = Ok w' ->
  exists ts, select_named g manifest adopt names = Ok ts /\ want_targets g w ts = Ok w'.
Proof.
  induction names as [|n rest IH]; intros w w' H; cbn [want_named select_named] in *.
  - exists []. split; [reflexivity|exact H].
  - destruct (resolve_target g n) as [[t|]| | | |]; cbn [bind] in *; try discriminate.
    + destruct (opt_nat_eqb (Some t) manifest).
      * destruct (IH _ _ H) as (ts & Hs & Ht). exists ts. rewrite Hs. cbn [bind]. auto.
      * apply bind_ok in H as [r [H1 H2]].
        destruct (IH _ _ H2) as (ts & Hs & Ht). exists (t :: ts). rewrite Hs. cbn [bind want_targets].
        split; [reflexivity|]. rewrite H1. cbn [bind]. exact Ht.
    + destruct adopt; [|discriminate]. apply IH. exact H.
Qed.

Lemma want_main_targets defaults manifest adopt names w w' :
  want_main g defaults manifest adopt names w = Ok w' ->
  exists ts, select_targets g defaults manifest adopt names = Ok ts /\ want_targets g w ts = Ok w'.
Proof.
  unfold want_main. destruct names as [|n rest]; intro H.
  - apply bind_ok in H as [ts [H1 H2]]. eauto.
  - apply want_named_targets in H. exact H.
Qed.

End Closure18.

Theorem C18_wanted_is_closure g decls s l ts s' l' :
  graph_wf g -> BInv g decls s -> want_targets g (s, l) ts = Ok (s', l') ->
  forall b, b < length (g_builds g) ->
    (get_state s' b <> Unknown <-> (get_state s b <> Unknown \/ needed g ts b)).
Proof. intros Hwf HB H b _. eapply want_targets_closure; eauto. Qed.

Theorem C18_want_named_is_closure g decls manifest adopt names s l s' l' :
  graph_wf g -> BInv g decls s ->
  want_named g manifest adopt names (s, l) = Ok (s', l') ->
  exists ts, select_named g manifest adopt names = Ok ts /\
    forall b, b < length (g_builds g) ->
      (get_state s' b <> Unknown <-> (get_state s b <> Unknown \/ needed g ts b)).
Proof.
  intros Hwf HB H. apply want_named_targets in H as (ts & Hs & Ht).
  exists ts. split; [exact Hs|]. intros b _. eapply want_targets_closure; eauto.
Qed.

Theorem C18_want_main_is_closure g decls defaults manifest adopt names s l s' l' :
  graph_wf g -> BInv g decls s ->
  want_main g defaults manifest adopt names (s, l) = Ok (s', l') ->
  exists ts, select_targets g defaults manifest adopt names = Ok ts /\
    forall b, b < length (g_builds g) ->
      (get_state s' b <> Unknown <-> (get_state s b <> Unknown \/ needed g ts b)).
Proof.
  intros Hwf HB H. apply want_main_targets in H as (ts & Hs & Ht).
  exists ts. split; [exact Hs|]. intros b _. eapply want_targets_closure; eauto.
Qed.
