(* C12, scanner level: the primitive scanner operations and the small loops of parse.rs
   (skip_spaces, read_while/read_ident, read_until_rbrace, read_escape, read_eval) are safe from
   every good scanner state.

   A state is good ([st], from DepfileSafe.v) when its offset is inside the buffer and not "bad"
   (a bad offset points at '\n' preceded by '\r': sc_back steps back two bytes from behind it).
   Loops that read arbitrary bytes without stepping back (read_until_rbrace, skip_comment, the
   literal part of read_eval_loop) only need the offset to be inside the buffer ([inb]). *)
From Coq Require Import String Lia ZifyBool.
From N2 Require Import Model.All Proofs.DepfileSafe.

Section PS.
  Variable buf : bytes.
  Hypothesis Hnul : nth_error buf (pred (length buf)) = Some 0%N.

  Notation st := (st buf).
  Notation nb := (nb buf).

  Definition inb (s : scanner) : Prop := sbuf s = buf /\ sofs s < length buf.

  Lemma st_inb s : st s -> inb s.
  Proof. intros (Hb & Ho & _). split; assumption. Qed.

  (* acceptable results: Ok in a good state satisfying [Q], or an error inside the buffer *)
  Definition goodq {A} (Q : A -> scanner -> Prop) (r : sres A) : Prop :=
    match r with
    | SOk a s' => st s' /\ Q a s'
    | SErr _ o => o <= length buf
    | _ => False
    end.

  Lemma goodq_impl {A} (Q Q' : A -> scanner -> Prop) r :
    (forall a s', st s' -> Q a s' -> Q' a s') -> goodq Q r -> goodq Q' r.
  Proof.
    intros H. destruct r; cbn; try tauto. intros [H1 H2]. split; [exact H1 | apply H; assumption].
  Qed.

  Lemma read_inb s : inb s ->
    exists c s1, sc_read s = SOk c s1 /\ sbuf s1 = buf /\ sofs s1 = S (sofs s) /\
                 nth_error buf (sofs s) = Some c /\
                 (c <> 0%N -> inb s1) /\ (c <> 0%N -> c <> 13%N -> st s1).
  Proof.
    intros (Hb & Ho). destruct (read_safe buf s Hb Ho) as (c & s1 & E & Hb1 & Ho1 & Ec).
    exists c, s1.
    assert (Hlt : c <> 0%N -> S (sofs s) < length buf) by (intro Hc; eapply nz_lt; eauto).
    split; [exact E|]. split; [exact Hb1|]. split; [exact Ho1|]. split; [exact Ec|]. split.
    - intro Hc. split; [exact Hb1|]. rewrite Ho1. auto.
    - intros Hc H13. split; [exact Hb1|]. rewrite Ho1. split; [auto|].
      eapply nb_after; eauto.
  Qed.

  Lemma peek_inb s : inb s -> exists c, sc_peek s = SOk c s /\ nth_error buf (sofs s) = Some c.
  Proof. intros (Hb & Ho). apply peek_safe; assumption. Qed.

  (* stepping back over the byte just read from a good state returns to that state's offset *)
  Lemma back_st s s1 : st s -> sbuf s1 = buf -> sofs s1 = S (sofs s) ->
    exists s', sc_back s1 = SOk tt s' /\ st s' /\ sofs s' = sofs s.
  Proof.
    intros (Hb & Ho & Hnb) Hb1 Ho1. apply back_one; assumption.
  Qed.

  (* stepping back over a byte that is not '\n' *)
  Lemma back_nonnl s o c : sbuf s = buf -> sofs s = S o -> nth_error buf o = Some c -> c <> 10%N ->
    exists s', sc_back s = SOk tt s' /\ st s' /\ sofs s' = o.
  Proof.
    intros Hb Ho Ec Hc.
    assert (Hlt : o < length buf) by (apply nth_error_Some; congruence).
    destruct (back_gen buf s o Hb Ho Hlt) as (s' & E & Hb' & Hnb' & [Hs|(Hs & E10 & E13)]).
    - exists s'. split; [exact E|]. split; [|exact Hs]. unfold DepfileSafe.st. rewrite Hs in *. auto.
    - congruence.
  Qed.

  Lemma skip_st ch s : st s ->
    exists b s', sc_skip ch s = SOk b s' /\
      ((b = true /\ nth_error buf (sofs s) = Some ch /\ sbuf s' = buf /\ sofs s' = S (sofs s) /\
        (ch <> 0%N -> ch <> 13%N -> st s'))
       \/ (b = false /\ st s' /\ sofs s' = sofs s)).
  Proof.
    intro Hst. unfold sc_skip.
    destruct (read_inb s (st_inb s Hst)) as (c & s1 & E & Hb1 & Ho1 & Ec & Hinb1 & Hst1).
    rewrite E. cbn [sbind].
    destruct (N.eqb_spec c ch) as [->|Hc].
    - exists true, s1. split; [reflexivity|]. left. auto 10.
    - destruct (back_st s s1 Hst Hb1 Ho1) as (s' & Eb & Hst' & Ho').
      rewrite Eb. cbn [sbind]. exists false, s'. split; [reflexivity|]. right. auto.
  Qed.

  (* expect of a byte other than NUL and CR *)
  Lemma expect_st ch s : st s -> ch <> 0%N -> ch <> 13%N ->
    goodq (fun _ s' => sofs s' = S (sofs s)) (sc_expect ch s).
  Proof.
    intros Hst Hch0 Hch13. unfold sc_expect.
    destruct (read_inb s (st_inb s Hst)) as (c & s1 & E & Hb1 & Ho1 & Ec & Hinb1 & Hst1).
    rewrite E. cbn [sbind].
    destruct (N.eqb_spec c ch) as [->|Hc].
    - cbn. auto.
    - destruct (back_st s s1 Hst Hb1 Ho1) as (s' & Eb & (Hb' & Ho' & Hnb') & Hs').
      rewrite Eb. cbn [sbind]. unfold sc_parse_error. cbn. lia.
  Qed.

  Lemma slice_ok s a b : sbuf s = buf -> a <= b -> b <= length buf ->
    exists l, sc_slice s a b = SOk l s.
  Proof.
    intros Hb Hab Hbl. unfold sc_slice. rewrite Hb.
    destruct (Nat.leb_spec a b) as [_|Hbad]; [|lia].
    destruct (Nat.leb_spec b (length buf)) as [_|Hbad]; [|lia].
    eexists. reflexivity.
  Qed.

  Lemma sc_skip_spaces_st f s :
    st s -> length buf <= f + sofs s -> goodq (fun _ s' => sofs s <= sofs s') (sc_skip_spaces f s).
  Proof.
    intros Hst Hf. pose proof (sc_skip_spaces_safe buf Hnul f s Hst Hf) as H.
    destruct (sc_skip_spaces f s); cbn in *; tauto.
  Qed.

  Ltac rd s Hin c s1 E Hb1 Ho1 Ec Hinb1 Hst1 :=
    destruct (read_inb s Hin) as (c & s1 & E & Hb1 & Ho1 & Ec & Hinb1 & Hst1);
    rewrite E; cbn [sbind].

  (* ---------------------------------------------------------------------------------- *)
  (* Parser::skip_spaces *)

  Lemma p_skip_spaces_safe f : forall s,
    st s -> length buf <= f + sofs s -> goodq (fun _ s' => sofs s <= sofs s') (p_skip_spaces f s).
  Proof.
    induction f as [|f IH]; intros s Hst Hf; [destruct Hst as (_ & Ho & _); lia|].
    cbn [p_skip_spaces].
    rd s (st_inb s Hst) c s1 E Hb1 Ho1 Ec Hinb1 Hst1.
    destruct (back_st s s1 Hst Hb1 Ho1) as (sb & Eb & Hstb & Hob).
    destruct (N.eqb_spec c 32) as [->|H32].
    - eapply goodq_impl; [|apply IH; [apply Hst1; discriminate | lia]].
      cbn; intros; lia.
    - destruct (N.eqb_spec c 36) as [->|H36].
      + assert (Hin1 : inb s1) by (apply Hinb1; discriminate).
        assert (Hs1 : st s1) by (apply Hst1; discriminate).
        destruct (peek_inb s1 Hin1) as (p & Ep & Ecp). rewrite Ep. cbn [sbind].
        destruct (N.eqb_spec p 10) as [->|Hp]; cbn [negb].
        * destruct (skip_st 10%N s1 Hs1) as (b & s2 & Es & [(_ & _ & Hb2 & Ho2 & Hst2)|(_ & Hst2 & Ho2)]);
            rewrite Es; cbn [sbind].
          -- eapply goodq_impl; [|apply IH; [apply Hst2; discriminate | lia]].
             cbn; intros; lia.
          -- eapply goodq_impl; [|apply IH; [exact Hst2 | lia]].
             cbn; intros; lia.
        * rewrite Eb. cbn. split; [exact Hstb | lia].
      + rewrite Eb. cbn. split; [exact Hstb | lia].
  Qed.

  (* ---------------------------------------------------------------------------------- *)
  (* read_while / read_ident *)

  Lemma read_while_safe ok : ok 0%N = false -> ok 13%N = false ->
    forall f s, st s -> length buf <= f + sofs s ->
    goodq (fun _ s' => sofs s <= sofs s') (read_while f ok s).
  Proof.
    intros Hok0 Hok13.
    induction f as [|f IH]; intros s Hst Hf; [destruct Hst as (_ & Ho & _); lia|].
    cbn [read_while].
    rd s (st_inb s Hst) c s1 E Hb1 Ho1 Ec Hinb1 Hst1.
    destruct (ok c) eqn:Eok.
    - assert (Hc0 : c <> 0%N) by congruence.
      assert (Hc13 : c <> 13%N) by congruence.
      eapply goodq_impl; [|apply IH; [apply Hst1; assumption | lia]].
      cbn; intros; lia.
    - destruct (back_st s s1 Hst Hb1 Ho1) as (sb & Eb & Hstb & Hob).
      rewrite Eb. cbn. split; [exact Hstb | lia].
  Qed.

  Lemma read_ident_gen_safe ok msg : ok 0%N = false -> ok 13%N = false ->
    forall f s, st s -> length buf <= f + sofs s ->
    goodq (fun _ s' => sofs s < sofs s') (read_ident_gen f ok msg s).
  Proof.
    intros Hok0 Hok13 f s Hst Hf. unfold read_ident_gen.
    pose proof (read_while_safe ok Hok0 Hok13 f s Hst Hf) as H.
    destruct (read_while f ok s) as [u s1|m o| | |]; cbn [goodq] in H; try contradiction; cbn [sbind];
      [|exact H].
    destruct H as (Hst1 & Hle).
    destruct (Nat.eqb_spec (sofs s1) (sofs s)) as [Heq|Hne].
    - unfold sc_parse_error. cbn. destruct Hst1 as (_ & Ho1 & _). lia.
    - destruct Hst1 as (Hb1 & Ho1 & Hnb1).
      destruct (slice_ok s1 (sofs s) (sofs s1) Hb1 Hle) as (l & El); [lia|].
      rewrite El. cbn. split; [split; auto | lia].
  Qed.

  Lemma read_ident_safe f s : st s -> length buf <= f + sofs s ->
    goodq (fun _ s' => sofs s < sofs s') (read_ident f s).
  Proof. apply read_ident_gen_safe; reflexivity. Qed.

  Lemma read_simple_varname_safe f s : st s -> length buf <= f + sofs s ->
    goodq (fun _ s' => sofs s < sofs s') (read_simple_varname f s).
  Proof. apply read_ident_gen_safe; reflexivity. Qed.

  (* ---------------------------------------------------------------------------------- *)
  (* read_until_rbrace: arbitrary bytes, never steps back *)

  Lemma read_until_rbrace_safe f : forall s,
    inb s -> length buf <= f + sofs s ->
    goodq (fun _ s' => sofs s < sofs s') (read_until_rbrace f s).
  Proof.
    induction f as [|f IH]; intros s Hin Hf; [destruct Hin as (_ & Ho); lia|].
    cbn [read_until_rbrace].
    rd s Hin c s1 E Hb1 Ho1 Ec Hinb1 Hst1.
    destruct (N.eqb_spec c 0) as [->|H0].
    - unfold sc_parse_error. cbn. destruct Hin as (_ & Ho). lia.
    - destruct (N.eqb_spec c 125) as [->|H125].
      + cbn. split; [apply Hst1; discriminate | lia].
      + eapply goodq_impl; [|apply IH; [apply Hinb1; assumption | lia]].
        cbn; intros; lia.
  Qed.

  (* ---------------------------------------------------------------------------------- *)
  (* read_escape: called right after a '$' *)

  Lemma read_escape_safe f s : st s -> length buf <= f + sofs s ->
    goodq (fun _ s' => sofs s < sofs s') (read_escape f s).
  Proof.
    intros Hst Hf. unfold read_escape.
    rd s (st_inb s Hst) c s1 E Hb1 Ho1 Ec Hinb1 Hst1.
    destruct (N.eqb_spec c 10) as [->|H10].
    - assert (Hs1 : st s1) by (apply Hst1; discriminate).
      pose proof (sc_skip_spaces_st f s1 Hs1 ltac:(lia)) as H.
      destruct (sc_skip_spaces f s1) as [u s2|m o| | |]; cbn [goodq] in H; try contradiction;
        cbn [sbind]; [|exact H].
      destruct H as (Hst2 & Hle). cbn. split; [exact Hst2 | lia].
    - destruct ((c =? 32) || (c =? 36) || (c =? 58))%N eqn:Esp.
      + cbn. split; [apply Hst1; lia | lia].
      + destruct (N.eqb_spec c 123) as [->|H123].
        * assert (Hin1 : inb s1) by (apply Hinb1; discriminate).
          pose proof (read_until_rbrace_safe f s1 Hin1 ltac:(lia)) as H.
          destruct (read_until_rbrace f s1) as [u s2|m o| | |]; cbn [goodq] in H; try contradiction;
            cbn [sbind]; [|exact H].
          destruct H as (Hst2 & Hlt).
          destruct Hst2 as (Hb2 & Ho2 & Hnb2).
          destruct (slice_ok s2 (sofs s1) (sofs s2 - 1) Hb2) as (l & El); [lia | lia |].
          rewrite El. cbn. split; [split; auto | lia].
        * destruct (back_nonnl s1 (sofs s) c Hb1 Ho1 Ec H10) as (sb & Eb & Hstb & Hob).
          rewrite Eb. cbn [sbind].
          pose proof (read_simple_varname_safe f sb Hstb ltac:(lia)) as H.
          destruct (read_simple_varname f sb) as [v s2|m o| | |]; cbn [goodq] in H; try contradiction;
            cbn [sbind]; [|exact H].
          destruct H as (Hst2 & Hlt). cbn. split; [exact Hst2 | lia].
  Qed.

  (* ---------------------------------------------------------------------------------- *)
  (* read_eval *)

  (* [p] is the offset of the last good state (start of read_eval, or just after an escape);
     the literal bytes after it may include '\r', so the current offset may be bad, but then it
     is strictly after [p] and the two-byte sc_back does not go below [p]. *)
  Lemma read_eval_loop_safe f path : forall s p ofs0 acc,
    inb s -> p <= sofs s -> (sofs s = p -> nb p) -> p <= ofs0 ->
    length buf <= f + sofs s ->
    goodq (fun r s' => let '(acc', ofs0', stop) := r in
                       p <= sofs s' /\ stop = sofs s' /\ p <= ofs0' /\ (acc' = acc \/ p < sofs s'))
          (read_eval_loop f path s ofs0 acc).
  Proof.
    induction f as [|f IH]; intros s p ofs0 acc Hin Hp Hnb Hofs0 Hf; [destruct Hin as (_ & Ho); lia|].
    cbn [read_eval_loop].
    rd s Hin c s1 E Hb1 Ho1 Ec Hinb1 Hst1.
    destruct Hin as (Hb & Ho).
    destruct (N.eqb_spec c 0) as [->|H0].
    { unfold sc_parse_error. cbn. lia. }
    destruct ((c =? 10) || path && ((c =? 32) || (c =? 58) || (c =? 124)))%N eqn:Eterm.
    { destruct (back_gen buf s1 (sofs s) Hb1 Ho1 Ho) as (s' & Eb & Hb' & Hnb' & [Hs|(Hs & E10 & E13)]);
        rewrite Eb; cbn [sbind goodq].
      - assert (Ho' : sofs s' < length buf) by lia.
        split; [split; [exact Hb'|]; split; assumption|].
        split; [lia|]. auto.
      - destruct (Nat.eq_dec (sofs s) p) as [Heq|Hne].
        + exfalso. specialize (Hnb Heq). rewrite <- Heq in Hnb. symmetry in Hs.
          exact (Hnb _ Hs E10 E13).
        + split; [split; [exact Hb'|]; split; [lia | exact Hnb']|].
          split; [lia|]. auto. }
    destruct (N.eqb_spec c 36) as [->|H36].
    - assert (Hs1 : st s1) by (apply Hst1; discriminate).
      assert (Hpre : exists acc1,
                 (if (ofs0 <? sofs s1 - 1)%nat
                  then sdo (l, s) <- sc_slice s1 ofs0 (sofs s1 - 1); SOk (Lit l :: acc) s
                  else SOk acc s1) = SOk acc1 s1).
      { destruct (Nat.ltb_spec ofs0 (sofs s1 - 1)) as [Hlt|Hge].
        - destruct (slice_ok s1 ofs0 (sofs s1 - 1) Hb1) as (l & El); [lia | lia |].
          rewrite El. cbn [sbind]. eexists. reflexivity.
        - eexists. reflexivity. }
      destruct Hpre as (acc1 & Epre). rewrite Epre. cbn [sbind].
      pose proof (read_escape_safe f s1 Hs1 ltac:(lia)) as H.
      destruct (read_escape f s1) as [e s2|m o| | |]; cbn [goodq] in H; try contradiction;
        cbn [sbind]; [|exact H].
      destruct H as (Hst2 & Hlt).
      eapply goodq_impl; [|apply (IH s2 (sofs s2) (sofs s2) (e :: acc1));
                           [apply st_inb; exact Hst2 | lia | intros _; apply Hst2 | lia | lia]].
      intros [[acc' ofs0'] stop] s' Hst' (H1 & H2 & H3 & H4). cbn beta in *.
      split; [lia|]. split; [lia|]. split; [lia|]. right; lia.
    - eapply goodq_impl; [|apply (IH s1 p ofs0 acc);
                           [apply Hinb1; assumption | lia | intro; lia | assumption | lia]].
      intros [[acc' ofs0'] stop] s' Hst' H. exact H.
  Qed.

  Lemma read_eval_safe f path s : st s -> length buf <= f + sofs s ->
    goodq (fun _ s' => sofs s < sofs s') (read_eval f path s).
  Proof.
    intros Hst Hf. unfold read_eval.
    pose proof (read_eval_loop_safe f path s (sofs s) (sofs s) [] (st_inb s Hst) (le_n _)
                                    ltac:(intros _; apply Hst) (le_n _) Hf) as H.
    destruct (read_eval_loop f path s (sofs s) []) as [[[acc ofs0] stop] s1|m o| | |];
      cbn [goodq] in H; try contradiction; cbn [sbind]; [|exact H].
    destruct H as (Hst1 & Hle & -> & Hofs0 & Hacc).
    destruct Hst1 as (Hb1 & Ho1 & Hnb1).
    destruct (Nat.ltb_spec ofs0 (sofs s1)) as [Hlt|Hge].
    - destruct (slice_ok s1 ofs0 (sofs s1) Hb1) as (l & El); [lia | lia |].
      rewrite El. cbn. split; [split; auto | lia].
    - cbn [sbind]. destruct acc as [|e acc].
      + unfold sc_parse_error. cbn. lia.
      + cbn. split; [split; auto|]. destruct Hacc as [Hacc|Hacc]; [discriminate | exact Hacc].
  Qed.
End PS.
