(* C06, what a terminated run guarantees: a trace that reaches a returned state ends with its
   EReturn, and the state it returned from is characterised by the value returned. *)
From Coq Require Import Lia ZArith List Bool Arith.
From N2 Require Import Model.All Proofs.SchedSpec Proofs.SchedInv Proofs.SchedRunBase
     Proofs.SchedRunStep Proofs.SchedRunCore Proofs.SchedRunAux Proofs.SchedRunRInv
     Proofs.SchedRunThms Proofs.SchedRunFinal Proofs.SchedLive Proofs.SchedBoundSpec Proofs.SchedBound
     Proofs.SchedBoundComplete Proofs.SchedTermSpec Proofs.SchedTerm.
Import ListNotations.

(* ------------------------------------------------------------------------------------ *)
(* an error verdict on a Queued step means its pool is not declared *)

Definition err_ok (cf : config) (r : rstate) : Prop :=
  match rs_ctl r with
  | CVerdict b VError _ =>
    get_state (rs_bs r) b = Queued ->
    pool_find (bs_pools (rs_bs r)) (pool_name (get_build (cf_graph cf) b)) = None
  | _ => True
  end.

Lemma pool_update_none ps name f : pool_update ps name f = None -> pool_find ps name = None.
Proof.
  intro H. destruct (pool_find ps name) as [p|] eqn:F; [|reflexivity].
  destruct (pool_update_some ps name f p F) as [ps' E]. congruence.
Qed.

Lemma step_err_ok cf decls r e r' : RInv cf decls r -> err_ok cf r -> step cf r e r' -> err_ok cf r'.
Proof.
  intros Hinv Hok Hs. pose proof (ri_ctl _ _ _ Hinv) as K.
  unfold err_ok. destruct Hs; try exact Hok; cbn [with_bs with_ctl rs_ctl rs_bs]; try exact I.
  - (* the verdict: the step is Ready *)
    destruct v; try exact I. intro E.
    match goal with Hc : rs_ctl r = CChecking b |- _ => rewrite Hc in K end.
    cbn [ctl_ok] in K. destruct K as (_ & _ & _ & E2). congruence.
  - (* enqueueing failed *)
    intros _. apply (pool_update_none _ _ (ppush_q b)). assumption.
Qed.

Lemma reachable_err_ok cf decls : graph_wf (cf_graph cf) -> forall r, reachable cf decls r -> err_ok cf r.
Proof.
  intros Hwf r Hr. induction Hr as [s fl W|r e r' Hr IH Ha|r s fl Hr IH Hc W].
  - exact I.
  - exact (step_err_ok cf decls r e r' (reachable_RInv_closed cf decls Hwf r Hr) IH (accept1_step cf r e r' Ha)).
  - exact I.
Qed.

(* ------------------------------------------------------------------------------------ *)
(* the shape of a trace that reaches a returned state *)

Lemma step_to_returned cf r e r' ok :
  step cf r e r' -> rs_ctl r' = CReturned ok ->
  e = EReturn ok /\ r' = with_ctl r (CReturned ok) /\ forall o, rs_ctl r <> CReturned o.
Proof.
  intros Hs Hc.
  destruct Hs; cbn [with_bs with_ctl rs_ctl] in Hc; try discriminate Hc; try congruence.
  all: injection Hc as <-; split; [reflexivity|]; split; [reflexivity|]; intros o E; congruence.
Qed.

Lemma accepts_to_returned cf : forall evs r r' ok,
  accepts cf r evs = Some r' -> rs_ctl r' = CReturned ok -> (forall o, rs_ctl r <> CReturned o) ->
  exists evs0 r1, evs = evs0 ++ [EReturn ok] /\ accepts cf r evs0 = Some r1 /\
                  accept1 cf r1 (EReturn ok) = Some r' /\ r' = with_ctl r1 (CReturned ok).
Proof.
  induction evs as [|e evs IH]; intros r r' ok A Hc Hnr; cbn [accepts] in A.
  - injection A as <-. exfalso. exact (Hnr ok Hc).
  - destruct (accept1 cf r e) as [r2|] eqn:E1; [|discriminate].
    assert (D : (exists o, rs_ctl r2 = CReturned o) \/ (forall o, rs_ctl r2 <> CReturned o)).
    { destruct (rs_ctl r2); try (right; intros; discriminate). left. eexists; reflexivity. }
    destruct D as [[o Hc2]|Hnr2].
    + destruct evs as [|e2 evs]; cbn [accepts] in A.
      * injection A as <-.
        destruct (step_to_returned cf r e r2 ok (accept1_step cf r e r2 E1) Hc) as (-> & Er & _).
        exists [], r. cbn [app accepts]. repeat split; assumption.
      * rewrite (C05_returned_is_final cf r2 o e2 Hc2) in A. discriminate A.
    + destruct (IH r2 r' ok A Hc Hnr2) as (evs0 & r1 & -> & A0 & A1 & Er).
      exists (e :: evs0), r1. cbn [app accepts]. rewrite E1. repeat split; assumption.
Qed.

(* the accepting cases of EReturn *)
Lemma return_inv_some cf r ok r' :
  step cf r (EReturn (Some ok)) r' ->
  (rs_ctl r = CIdle /\ (bs_pending (rs_bs r) = 0%Z \/ stuck_b cf r = true) /\ ok = (rs_failed r =? 0)) \/
  (ok = false /\ exists b rec, rs_ctl r = CFinished b TFailure rec /\ rs_failures_left r = Some 1) \/
  (ok = false /\ exists b rec, rs_ctl r = CFinished b TInterrupted rec).
Proof.
  intro H. inversion H; subst;
    first [ left; repeat split; assumption
          | right; left; split; [reflexivity|eexists; eexists; split; eassumption]
          | right; right; split; [reflexivity|eexists; eexists; eassumption] ].
Qed.

Lemma return_inv_none cf r r' :
  step cf r (EReturn None) r' -> exists b rec, rs_ctl r = CVerdict b VError rec.
Proof. intro H. inversion H; subst. eexists; eexists; eassumption. Qed.

(* ------------------------------------------------------------------------------------ *)

Section Final.
Variable cf : config.
Variable decls : list (bytes * nat).
Hypothesis Hwf : graph_wf (cf_graph cf).
Notation g := (cf_graph cf).
Notation nb := (length (g_builds (cf_graph cf))).

(* at the top of the loop with nothing pending, nothing runs *)
Lemma idle_nothing_pending r :
  RInv cf decls r -> rs_ctl r = CIdle -> bs_pending (rs_bs r) = 0%Z -> rs_running r = 0.
Proof.
  intros Hinv Hc P0. pose proof (ri_core _ _ _ Hinv) as C. pose proof (ri_running _ _ _ Hinv) as Rn.
  rewrite Hc in Rn. cbn [run_count_ok run_shift] in Rn. rewrite (bc_pending _ _ _ C) in P0.
  pose proof (count_state_nonneg g (rs_bs r) Want false).
  pose proof (count_state_nonneg g (rs_bs r) Ready false).
  pose proof (count_state_nonneg g (rs_bs r) Queued false).
  pose proof (count_state_nonneg g (rs_bs r) Running false). lia.
Qed.

Lemma stuck_b_inv r : stuck_b cf r = true -> rs_running r = 0 /\ 0 < rs_failed r.
Proof.
  unfold stuck_b. intro St.
  apply andb_true_iff in St. destruct St as [St _].
  apply andb_true_iff in St. destruct St as [St _].
  apply andb_true_iff in St. destruct St as [St _].
  apply andb_true_iff in St. destruct St as [R0 F0].
  apply Nat.eqb_eq in R0. apply Nat.ltb_lt in F0. auto.
Qed.

Theorem return_guarantee_holds r1 ok r' :
  reachable cf decls r1 -> accept1 cf r1 (EReturn ok) = Some r' -> return_guarantee cf r1 ok.
Proof.
  intros Hr A.
  pose proof (reachable_RInv_closed cf decls Hwf r1 Hr) as Hinv.
  pose proof (ri_ctl _ _ _ Hinv) as K.
  pose proof (accept1_step cf r1 _ r' A) as Hs.
  unfold return_guarantee.
  destruct ok as [ok|].
  - destruct (return_inv_some cf r1 ok r' Hs)
      as [(Hc & Hp & Hok)|[(-> & b & rec & Hc & Hfl)|(-> & b & rec & Hc)]].
    + (* from the top of the loop *)
      destruct ok.
      * symmetry in Hok. apply Nat.eqb_eq in Hok.
        assert (P0 : bs_pending (rs_bs r1) = 0%Z).
        { destruct Hp as [P0|St]; [exact P0|]. apply stuck_b_inv in St. lia. }
        split; [exact Hc|]. split; [exact Hok|].
        split; [exact (idle_nothing_pending r1 Hinv Hc P0)|]. split; [exact P0|].
        intros b L Kb. exact (C05_exit_status_closed cf decls Hwf r1 r' Hr A b Kb L).
      * left. symmetry in Hok. apply Nat.eqb_neq in Hok.
        split; [exact Hc|]. split; [lia|].
        split; [destruct Hp as [P0|St];
                [exact (idle_nothing_pending r1 Hinv Hc P0)|exact (proj1 (stuck_b_inv r1 St))]|].
        split.
        -- pose proof (ri_failed _ _ _ Hinv) as Fl.
           destruct (count_state_pos g (rs_bs r1) Failed ltac:(lia)) as (f & L & E).
           exists f. split; assumption.
        -- intros b L Kb. exact (C05_keep_going cf decls Hwf r1 r' Hr A Hc b L Kb).
    + (* the budget *)
      right. left. rewrite Hc in K. cbn [ctl_ok] in K. destruct K as (_ & _ & L & E).
      exists b, rec. repeat split; assumption.
    + (* interrupted *)
      right. right. rewrite Hc in K. cbn [ctl_ok] in K. destruct K as (_ & _ & L & E).
      exists b, rec. repeat split; assumption.
  - (* Err *)
    destruct (return_inv_none cf r1 r' Hs) as (b & rec & Hc).
    pose proof (reachable_err_ok cf decls Hwf r1 Hr) as Eo. unfold err_ok in Eo.
    rewrite Hc in K, Eo. cbn [ctl_ok] in K. destruct K as (L & _ & [(E & _)|(_ & E)]).
    + exists b, rec. split; [exact Hc|]. split; [exact L|]. left. exact E.
    + exists b, rec. split; [exact Hc|]. split; [exact L|]. right. split; [exact E|exact (Eo E)].
Qed.

(* the value returned is Ok(true) exactly when every wanted step is Done *)
Theorem success_iff_all_done r1 ok r' :
  reachable cf decls r1 -> accept1 cf r1 (EReturn ok) = Some r' ->
  (ok = Some true <-> all_done g (rs_bs r1)).
Proof.
  intros Hr A. pose proof (return_guarantee_holds r1 ok r' Hr A) as G.
  unfold return_guarantee in G. split.
  - intros ->. exact (proj2 (proj2 (proj2 (proj2 G)))).
  - intro AD. destruct ok as [[|]|]; [reflexivity| |]; exfalso.
    + destruct G as [(_ & _ & _ & (f & L & E) & _)|[(b & rec & _ & _ & L & E)|(b & rec & _ & L & E)]].
      * assert (X : get_state (rs_bs r1) f = Done) by (apply AD; [exact L|rewrite E; discriminate]). congruence.
      * assert (X : get_state (rs_bs r1) b = Done) by (apply AD; [exact L|rewrite E; discriminate]). congruence.
      * assert (X : get_state (rs_bs r1) b = Done) by (apply AD; [exact L|rewrite E; discriminate]). congruence.
    + destruct G as (b & rec & _ & L & [E|[E _]]).
      * assert (X : get_state (rs_bs r1) b = Done) by (apply AD; [exact L|rewrite E; discriminate]). congruence.
      * assert (X : get_state (rs_bs r1) b = Done) by (apply AD; [exact L|rewrite E; discriminate]). congruence.
Qed.

Theorem final_states r evs r' ok :
  reachable cf decls r -> (forall o, rs_ctl r <> CReturned o) ->
  accepts cf r evs = Some r' -> rs_ctl r' = CReturned ok ->
  exists evs0 r1,
    evs = evs0 ++ [EReturn ok] /\ accepts cf r evs0 = Some r1 /\
    accept1 cf r1 (EReturn ok) = Some r' /\ r' = with_ctl r1 (CReturned ok) /\
    return_guarantee cf r1 ok /\ (ok = Some true <-> all_done g (rs_bs r')) /\
    forall e, accept1 cf r' e = None.
Proof.
  intros Hr Hnr A Hc.
  destruct (accepts_to_returned cf evs r r' ok A Hc Hnr) as (evs0 & r1 & E & A0 & A1 & Er).
  pose proof (reach_accepts cf decls evs0 r r1 Hr A0) as Hr1.
  exists evs0, r1. split; [exact E|]. split; [exact A0|]. split; [exact A1|]. split; [exact Er|].
  split; [exact (return_guarantee_holds r1 ok r' Hr1 A1)|].
  split.
  - rewrite Er. cbn [with_ctl with_bs rs_bs]. exact (success_iff_all_done r1 ok r' Hr1 A1).
  - intro e. exact (C05_returned_is_final cf r' ok e Hc).
Qed.

(* every maximal trace is such a trace *)
Theorem terminated_run_guarantee r evs r' :
  1 <= cf_parallelism cf ->
  reachable cf decls r -> (forall o, rs_ctl r <> CReturned o) -> maximal cf r evs r' ->
  exists ok evs0 r1,
    rs_ctl r' = CReturned ok /\ evs = evs0 ++ [EReturn ok] /\ accepts cf r evs0 = Some r1 /\
    r' = with_ctl r1 (CReturned ok) /\ return_guarantee cf r1 ok /\
    (ok = Some true <-> all_done g (rs_bs r')).
Proof.
  intros Hpar Hr Hnr Hm.
  destruct (maximal_returned cf decls Hwf Hpar r evs r' Hr Hm) as [ok Hc].
  destruct (final_states r evs r' ok Hr Hnr (proj1 Hm) Hc) as (evs0 & r1 & E & A0 & _ & Er & G & S & _).
  exists ok, evs0, r1. repeat split; try assumption; apply S.
Qed.

End Final.
