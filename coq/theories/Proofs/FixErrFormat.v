(* Repair of audit finding 3 of AuditFindingsParse.v (Props/C12Depth.v): the exact content of a
   formatted parse error - file, 1-based line number, the text of that line as the code cuts it,
   and the caret column. *)
From Coq Require Import String Lia.
From N2 Require Import Model.All Proofs.DepfileSafe Proofs.ParseSpec Proofs.ParseSafeStmt Proofs.WorldInc.
From N2 Require Import Proofs.RenderTrunc Proofs.FixRender Proofs.FixErrFormatSpec.

Lemma count_nl_cons c l : count_nl (c :: l) = if (c =? 10)%N then S (count_nl l) else count_nl l.
Proof.
  unfold count_nl. cbn [filter]. rewrite (N.eqb_sym 10 c). destruct (c =? 10)%N; reflexivity.
Qed.

Lemma count_nl_app a b : count_nl (a ++ b) = count_nl a + count_nl b.
Proof. unfold count_nl. now rewrite filter_app, app_length. Qed.

Lemma count_nl_none l : ~ In 10%N l -> count_nl l = 0.
Proof.
  induction l as [|c l IH]; intro H; [reflexivity|]. rewrite count_nl_cons.
  destruct (N.eqb_spec c 10) as [->|_]; [exfalso; apply H; now left|]. apply IH. intro I. apply H. now right.
Qed.

(* ------------------------------------------------------------------------------------ *)
(* the lines before the offending one are skipped, and counted *)

Lemma fpe_skip filename msg eofs rest : forall b cur ln ofs,
  ofs + length cur + length b + 1 <= eofs ->
  fpe_lines true filename msg eofs (split_on 10%N cur (b ++ 10%N :: rest)) ln ofs =
  fpe_lines true filename msg eofs (split_on 10%N [] rest) (ln + S (count_nl b)) (ofs + length cur + length b + 1).
Proof.
  induction b as [|c b IH]; intros cur ln ofs H; cbn [app split_on length] in *.
  - rewrite N.eqb_refl. cbn [fpe_lines]. rewrite rev_length.
    destruct (Nat.leb_spec eofs (ofs + length cur)) as [L|_]; [lia|].
    f_equal; [cbn; lia | lia].
  - rewrite count_nl_cons. destruct (N.eqb_spec c 10) as [->|Hc].
    + cbn [fpe_lines]. rewrite rev_length.
      destruct (Nat.leb_spec eofs (ofs + length cur)) as [L|_]; [lia|].
      rewrite IH by (cbn [length]; lia). f_equal; cbn [length]; lia.
    + rewrite IH by (cbn [length]; lia). f_equal; cbn [length]; lia.
Qed.

(* the offending line is rendered *)
Lemma fpe_found filename msg eofs line rest ln ofs :
  ofs <= eofs <= ofs + length line ->
  fpe_lines true filename msg eofs (line :: rest) ln ofs =
  Ok (error_text filename msg (S ln) (err_window line (eofs - ofs))
                 (length (error_prefix filename (S ln)) + err_caret line (eofs - ofs))).
Proof.
  intros [H1 H2]. cbn [fpe_lines].
  destruct (Nat.leb_spec eofs (ofs + length line)) as [_|L]; [|lia].
  destruct (Nat.ltb_spec eofs ofs) as [L|_]; [lia|].
  unfold err_window, err_dots, err_context, err_caret, err_shown, error_text, error_prefix.
  destruct (40 <? eofs - ofs)%nat; cbn [bind];
    match goal with |- context[if (40 <? length ?c)%nat then _ else _] => destruct (40 <? length c)%nat end;
    cbn [bind]; f_equal; repeat rewrite <- app_assoc; reflexivity.
Qed.

Theorem format_parse_error_exact buf filename msg eofs before line after :
  buf = before ++ line ++ after -> ~ In 10%N line ->
  (before = [] \/ exists b', before = b' ++ [10%N]) -> (after = [] \/ exists a', after = 10%N :: a') ->
  length before <= eofs <= length before + length line ->
  format_parse_error buf filename msg eofs =
  Ok (error_text filename msg (S (count_nl before)) (err_window line (eofs - length before))
        (length (error_prefix filename (S (count_nl before))) + err_caret line (eofs - length before))).
Proof.
  intros -> Hl Hb Ha He. unfold format_parse_error, format_parse_error_gen.
  assert (Hline : exists rest, split_on 10%N [] (line ++ after) = line :: rest).
  { destruct Ha as [->|(a' & ->)].
    - rewrite app_nil_r, split_on_nosep by exact Hl. now exists [].
    - rewrite split_on_sep by exact Hl. now eexists. }
  destruct Hline as (rest & Hline).
  destruct Hb as [->|(b' & ->)].
  - cbn [app length count_nl filter] in *. rewrite Hline, fpe_found by lia. now rewrite Nat.sub_0_r.
  - rewrite <- app_assoc. cbn [app]. rewrite fpe_skip by (rewrite app_length in He; cbn [length] in *; lia).
    rewrite Hline, fpe_found by (rewrite app_length in He; cbn [length] in *; lia).
    rewrite count_nl_app, app_length. cbn [length Nat.add]. change (count_nl [10%N]) with 1.
    replace (0 + S (count_nl b')) with (S (count_nl b')) by lia.
    replace (count_nl b' + 1) with (S (count_nl b')) by lia. reflexivity.
Qed.

(* ------------------------------------------------------------------------------------ *)
(* every offset inside the buffer has such a line, and only one *)

Lemma split_last_nl : forall l : bytes,
  exists b t, l = b ++ t /\ ~ In 10%N t /\ (b = [] \/ exists b', b = b' ++ [10%N]).
Proof.
  induction l as [|c l (b & t & -> & Ht & Hb)]; [exists [], []; repeat split; [intros [] | now left]|].
  destruct Hb as [->|(b' & ->)].
  - destruct (N.eqb_spec c 10) as [->|Hc].
    + exists [10%N], t. split; [reflexivity|]. split; [exact Ht|]. right. now exists [].
    + exists [], (c :: t). split; [reflexivity|]. split; [|now left].
      intros [E|I]; [now apply Hc | now apply Ht].
  - exists (c :: b' ++ [10%N]), t. split; [reflexivity|]. split; [exact Ht|]. right. now exists (c :: b').
Qed.

Lemma split_first_nl : forall l : bytes,
  exists t a, l = t ++ a /\ ~ In 10%N t /\ (a = [] \/ exists a', a = 10%N :: a').
Proof.
  induction l as [|c l (t & a & -> & Ht & Ha)]; [exists [], []; repeat split; [intros [] | now left]|].
  destruct (N.eqb_spec c 10) as [->|Hc].
  - exists [], (10%N :: t ++ a). split; [reflexivity|]. split; [intros []|]. right. now eexists.
  - exists (c :: t), a. split; [reflexivity|]. split; [|exact Ha].
    intros [E|I]; [now apply Hc | now apply Ht].
Qed.

Theorem error_line_exists buf eofs : eofs <= length buf ->
  exists before line after,
    buf = before ++ line ++ after /\ ~ In 10%N line /\
    (before = [] \/ exists b', before = b' ++ [10%N]) /\ (after = [] \/ exists a', after = 10%N :: a') /\
    length before <= eofs <= length before + length line.
Proof.
  intro H. destruct (split_last_nl (firstn eofs buf)) as (b & t1 & E1 & H1 & Hb).
  destruct (split_first_nl (skipn eofs buf)) as (t2 & a & E2 & H2 & Ha).
  exists b, (t1 ++ t2), a. split; [|split; [|split; [|split]]]; try assumption.
  - rewrite <- (firstn_skipn eofs buf), E1, E2, <- !app_assoc. reflexivity.
  - intro I. apply in_app_or in I as [I|I]; [now apply H1 | now apply H2].
  - assert (L : length (firstn eofs buf) = eofs) by (rewrite firstn_length; lia).
    rewrite E1, app_length in L. rewrite app_length. lia.
Qed.

(* the line number is one more than the number of newlines before the error offset *)
Lemma error_lno_is_newlines_before buf eofs before line after :
  buf = before ++ line ++ after -> ~ In 10%N line -> length before <= eofs <= length before + length line ->
  S (count_nl before) = S (count_nl (firstn eofs buf)).
Proof.
  intros -> Hl He. f_equal. rewrite firstn_app, firstn_all2 by lia. rewrite count_nl_app.
  rewrite firstn_app. rewrite count_nl_app.
  assert (Z1 : count_nl (firstn (eofs - length before) line) = 0).
  { apply count_nl_none. intro I. apply Hl. rewrite <- (firstn_skipn (eofs - length before) line).
    apply in_or_app. now left. }
  replace (eofs - length before - length line) with 0 by lia. cbn [firstn].
  rewrite Z1. change (count_nl []) with 0. lia.
Qed.

(* ------------------------------------------------------------------------------------ *)
(* the window and the caret *)

(* a line of at most 40 bytes is shown whole, the caret is under the error column *)
Lemma err_window_short line col : length line <= 40 -> col <= length line ->
  err_window line col = line /\ err_caret line col = col.
Proof.
  intros H1 H2. unfold err_window, err_dots, err_context, err_caret, err_shown.
  destruct (Nat.ltb_spec 40 col) as [L|_]; [lia|].
  destruct (Nat.ltb_spec 40 (length line)) as [L|_]; [lia|]. split; reflexivity.
Qed.

Lemma nth_error_firstn_lt {A} : forall k n (l : list A), n < k -> nth_error (firstn k l) n = nth_error l n.
Proof.
  induction k as [|k IH]; intros n l H; [lia|]. destruct l as [|x l]; [now destruct n|].
  destruct n as [|n]; [reflexivity|]. cbn [firstn nth_error]. apply IH. lia.
Qed.

Lemma nth_error_skipn_add {A} : forall k n (l : list A), nth_error (skipn k l) n = nth_error l (k + n).
Proof.
  induction k as [|k IH]; intros n l; [reflexivity|]. destruct l as [|x l]; [now destruct n|].
  cbn [skipn Nat.add nth_error]. apply IH.
Qed.

Lemma floor_boundary_ascii s i : ascii_only s = true -> i <= length s -> floor_boundary s i = i.
Proof. intros Ha Hi. destruct i; cbn [floor_boundary]; rewrite icb_ascii by assumption; reflexivity. Qed.

Lemma ascii_only_skipn k s : ascii_only s = true -> ascii_only (skipn k s) = true.
Proof.
  unfold ascii_only. rewrite !forallb_forall. intros H x Hx. apply H.
  rewrite <- (firstn_skipn k s). apply in_or_app. now right.
Qed.

Lemma err_shown_nth ctx n b : ascii_only ctx = true -> n < 40 -> nth_error ctx n = Some b ->
  nth_error (err_shown ctx) n = Some b.
Proof.
  intros Ha Hn Hb. unfold err_shown. destruct (Nat.ltb_spec 40 (length ctx)) as [L|_]; [|exact Hb].
  rewrite floor_boundary_ascii by (assumption || lia).
  rewrite nth_error_app1 by (rewrite firstn_length; lia). now rewrite nth_error_firstn_lt.
Qed.

(* for an ASCII line the byte above the caret is the byte at the error column - except in one
   corner the code has: column exactly 40 in a line longer than 40 bytes (the front is trimmed only
   when the column is GREATER than 40, the back is cut AT 40) *)
Theorem caret_under_error_byte line col b :
  ascii_only line = true -> nth_error line col = Some b -> (col = 40 -> length line <= 40) ->
  nth_error (err_window line col) (err_caret line col) = Some b.
Proof.
  intros Ha Hb Hc.
  assert (Hlen : col < length line) by (apply nth_error_Some; congruence).
  unfold err_window, err_dots, err_context, err_caret.
  destruct (Nat.ltb_spec 40 col) as [L|L].
  - rewrite floor_boundary_ascii by (assumption || lia).
    replace (3 + (col - (col - 20))) with (length (bs "...") + 20) by (change (length (bs "...")) with 3; lia).
    rewrite nth_error_app2 by lia.
    replace (length (bs "...") + 20 - length (bs "...")) with 20 by lia.
    apply err_shown_nth; [now apply ascii_only_skipn | lia|].
    rewrite nth_error_skipn_add. replace (col - 20 + 20) with col by lia. exact Hb.
  - cbn [app]. destruct (Nat.eq_dec col 40) as [E|E].
    + unfold err_shown. destruct (Nat.ltb_spec 40 (length line)) as [L2|_]; [specialize (Hc E); lia | exact Hb].
    + apply err_shown_nth; [exact Ha | lia | exact Hb].
Qed.

Example caret_corner_case :
  let line := repeat_byte 97%N 40 ++ bs "X" ++ repeat_byte 97%N 9 in
  nth_error line 40 = Some 88%N /\ nth_error (err_window line 40) (err_caret line 40) = Some 46%N.
Proof. split; vm_compute; reflexivity. Qed.

(* ------------------------------------------------------------------------------------ *)
(* connected to the parser: every error of Parser::read *)

Theorem error_format_exact text filename s vs m o :
  good_scanner text s -> parser_read true (parse_fuel (text ++ [0%N])) s vs = SErr m o ->
  exists before line after,
    text ++ [0%N] = before ++ line ++ after /\ ~ In 10%N line /\
    (before = [] \/ exists b', before = b' ++ [10%N]) /\ (after = [] \/ exists a', after = 10%N :: a') /\
    length before <= o <= length before + length line /\
    S (count_nl before) = S (count_nl (firstn o (text ++ [0%N]))) /\
    format_parse_error (text ++ [0%N]) filename m o =
    Ok (error_text filename m (S (count_nl before)) (err_window line (o - length before))
          (length (error_prefix filename (S (count_nl before))) + err_caret line (o - length before))).
Proof.
  intros Hg E. pose proof (parser_read_safe_gen text s vs Hg) as H. rewrite E in H. cbn in H.
  destruct (error_line_exists (text ++ [0%N]) o H) as (before & line & after & Eb & Hl & Hb & Ha & He).
  exists before, line, after. repeat (split; [assumption|]). split.
  - now apply (error_lno_is_newlines_before _ _ before line after).
  - now apply (format_parse_error_exact _ _ _ _ before line after).
Qed.
