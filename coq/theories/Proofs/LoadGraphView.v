(* C10, loader half: whole manifests, by name.  The steps of the loaded graph, seen by name, are
   the views the `build` statements declare ([decl_view]), in order - so two spellings of the same
   statements load into the same graph up to the numbering of files. *)
From Coq Require Import String.
From N2 Require Import Model.All Proofs.EvalScope Proofs.GraphDedup Proofs.GraphAddBuild Proofs.GraphLoad.
From N2 Require Import Proofs.ParseSpell.
From N2 Require Import Proofs.LoadGraphSpec Proofs.LoadGraphBuild Proofs.LoadGraphRun Proofs.LoadGraphNorm
     Proofs.LoadGraphFile Proofs.LoadGraphNames.

Definition item_view (filename : bytes) (it : pbuild * vars * list (bytes * varlist)) : option step_view :=
  decl_view filename (fst (fst it)) (snd (fst it)) (snd it).

(* a default target names the canonical form of its path expanded in file scope *)
Definition default_name (pv : evalstring * vars) (n : bytes) : Prop :=
  canon (evaluate [vars_env (snd pv)] (fst pv)) = Ok n.

Lemma items_view l filename items bs :
  NamesUnique l -> Forall2 (item_ok l filename) items bs ->
  map (item_view filename) items = map (fun b => Some (view l b)) bs.
Proof.
  intros U H. induction H as [|it b items bs H1 H IH]; [reflexivity|].
  cbn [map]. rewrite IH. f_equal. unfold item_view, item_ok in *. apply build_ok_view; assumption.
Qed.

Lemma NamesUnique_start c : NamesUnique (loader_start c).
Proof. unfold NamesUnique. cbn. constructor; [intros [] | constructor]. Qed.

(* names are unique in the graph of a one-file manifest *)
Theorem load_manifest_names_unique depth fs name text sts r l :
  reads_to (text ++ [0%N]) (mkScanner (text ++ [0%N]) 0 1) [] sts r -> no_include sts ->
  load_manifest true (S depth) fs name text = Ok l -> NamesUnique l.
Proof.
  intros R NI H. rewrite (load_manifest_reads _ _ _ _ _ _ R NI) in H.
  apply bind_ok in H as [c [C H]]. apply bind_ok in H as [l' [RS H]].
  pose proof (run_stmts_unique name sts _ _ (LInv_start c) (reads_to_builds_wf _ _ _ _ _ R)
                               (NamesUnique_start c) RS) as U.
  destruct r as [[[st|] vs'] s'|m o|x|x|]; cbn [finish] in H; try discriminate.
  - inversion H; subst l. exact U.
  - apply bind_ok in H as [txt [_ H]]. discriminate.
Qed.

Theorem graph_view_of_reads depth fs name text sts r l :
  reads_to (text ++ [0%N]) (mkScanner (text ++ [0%N]) 0 1) [] sts r -> no_include sts ->
  load_manifest true (S depth) fs name text = Ok l ->
  map (item_view name) (build_items [(bs "phony", [])] sts) = map (fun b => Some (view l b)) (l_builds l) /\
  l_pools l = pools_of [] sts /\
  Forall2 default_name (default_items sts) (map (file_nm l) (l_defaults l)).
Proof.
  intros R NI H. pose proof (load_manifest_names_unique _ _ _ _ _ _ _ R NI H) as U.
  destruct (graph_of_reads _ _ _ _ _ _ _ R NI H) as (v & z & _ & _ & FB & _ & PL & FD & _).
  split; [apply items_view; assumption|]. split; [exact PL|]. apply default_ok_names. exact FD.
Qed.

(* C10, loader half, for a manifest that spells the statements [svs]: exactly one step per `build`
   statement, in order, each with the declared view; the declared pools; the declared defaults *)
Theorem graph_view_of_spelled_file depth fs name text svs vs' l :
  spells_file_v 1 [] svs vs' text -> ~ In 13%N text -> no_include svs ->
  load_manifest true (S depth) fs name text = Ok l ->
  map (item_view name) (build_items [(bs "phony", [])] svs) = map (fun b => Some (view l b)) (l_builds l) /\
  l_pools l = pools_of [] svs /\
  Forall2 default_name (default_items svs) (map (file_nm l) (l_defaults l)) /\
  l_builddir l = assoc_b (bs "builddir") vs'.
Proof.
  intros Hf H13 NI H.
  destruct (graph_of_spelled_file _ _ _ _ _ _ _ Hf H13 NI H) as (_ & FB & _ & PL & FD & BD & _).
  destruct (file_reads svs vs' text Hf H13) as (svs' & [z R] & N).
  pose proof (load_manifest_names_unique _ _ _ _ _ _ _ R (no_include_norm _ _ N NI) H) as U.
  split; [apply items_view; assumption|]. split; [exact PL|].
  split; [apply default_ok_names; exact FD | exact BD].
Qed.

Lemma map_Some_inj {A B C} (f : A -> C) (g : B -> C) : forall xs ys,
  map (fun x => Some (f x)) xs = map (fun y => Some (g y)) ys -> map f xs = map g ys.
Proof.
  induction xs as [|x xs IH]; intros [|y ys] H; try discriminate; [reflexivity|].
  cbn [map] in *. inversion H. f_equal. apply IH. assumption.
Qed.

Lemma default_name_fun pvs : forall n1 n2,
  Forall2 default_name pvs n1 -> Forall2 default_name pvs n2 -> n1 = n2.
Proof.
  induction pvs as [|pv r IH]; intros n1 n2 H1 H2; inversion H1; inversion H2; subst; [reflexivity|].
  f_equal; [unfold default_name in *; congruence | apply IH; assumption].
Qed.

(* the graph does not depend on the spelling *)
Theorem graph_spelling_independent_view depth fs name t1 t2 svs vs' l1 l2 :
  spells_file_v 1 [] svs vs' t1 -> spells_file_v 1 [] svs vs' t2 ->
  ~ In 13%N t1 -> ~ In 13%N t2 -> no_include svs ->
  load_manifest true (S depth) fs name t1 = Ok l1 -> load_manifest true (S depth) fs name t2 = Ok l2 ->
  map (view l1) (l_builds l1) = map (view l2) (l_builds l2) /\
  l_pools l1 = l_pools l2 /\
  map (file_nm l1) (l_defaults l1) = map (file_nm l2) (l_defaults l2) /\
  l_builddir l1 = l_builddir l2.
Proof.
  intros F1 F2 N1 N2 NI H1 H2.
  destruct (graph_view_of_spelled_file _ _ _ _ _ _ _ F1 N1 NI H1) as (A1 & A2 & A3 & A4).
  destruct (graph_view_of_spelled_file _ _ _ _ _ _ _ F2 N2 NI H2) as (B1 & B2 & B3 & B4).
  split; [apply map_Some_inj; congruence|]. split; [congruence|].
  split; [eapply default_name_fun; eassumption | congruence].
Qed.
