(* Repairs of audit findings D5, D6 (Props/C14Start.v): a generic "every loaded manifest satisfies
   P" principle for invariants of the loader, and the invariant of the consumer edges. *)
From Coq Require Import String Sorted.
From N2 Require Import Model.All Proofs.EvalScope Proofs.GraphDedup Proofs.GraphAddBuild Proofs.GraphLoad.
From N2 Require Import Proofs.LoadGraphFile Proofs.LoadGraphNames Proofs.FixLoadSpec.

(* ------------------------------------------------------------------------------------ *)
(* an invariant kept by the three primitive operations is kept by the whole load *)

Section LoadInvariant.
  Variable P : loader -> Prop.
  Hypothesis P_same : forall l l', l_files l' = l_files l -> l_builds l' = l_builds l -> P l -> P l'.
  Hypothesis P_path : forall l p envs l' id, P l -> evaluate_path l p envs = Ok (l', id) -> P l'.
  Hypothesis P_add : forall l filename fvars pb l', P l -> pb_explicit_outs pb <= length (pb_outs pb) ->
    loader_add_build true l filename fvars pb = Ok l' -> P l'.

  Lemma P_paths envs : forall ps l l' ids, P l -> evaluate_paths l ps envs = Ok (l', ids) -> P l'.
  Proof.
    induction ps as [|p rest IH]; intros l l' ids I H; cbn [evaluate_paths] in H.
    - inversion H; subst. exact I.
    - apply bind_ok in H as [[l1 id] [E1 H]]. apply bind_ok in H as [[l2 ids'] [E2 H]].
      inversion H; subst. eapply IH; [|exact E2]. eapply P_path; eassumption.
  Qed.

  Lemma stmts_loop_P rec fs reading buf filename :
    (forall rd l path content vs l', P l -> rec rd l path content vs = Ok l' -> P l') ->
    forall n l s vs l', P l -> stmts_loop true rec fs reading buf filename n l s vs = Ok l' -> P l'.
  Proof.
    intro REC. induction n as [|n IH]; intros l s vs l' I H; [discriminate|].
    cbn [stmts_loop] in H. fold (stmts_loop true rec fs reading buf filename) in H.
    destruct (parser_read true (parse_fuel buf) s vs) as [[[st|] vs1] s1| | | |] eqn:PR; try discriminate.
    2:{ inversion H; subst. eapply P_same; [| |exact I]; reflexivity. }
    2:{ apply bind_ok in H as [txt [_ H]]. discriminate. }
    destruct st as [name rv|pb|ds|p|p|name d].
    - eapply IH; [|exact H]. eapply P_same; [| |exact I]; reflexivity.
    - apply bind_ok in H as [l1 [E H]]. eapply IH; [|exact H].
      eapply P_add; [exact I | | exact E]. eapply parser_read_build. exact PR.
    - apply bind_ok in H as [[l1 ids] [E H]]. eapply IH; [|exact H].
      eapply P_same; [| |eapply P_paths; [exact I | exact E]]; reflexivity.
    - apply bind_ok in H as [[l1 id] [E H]].
      destruct (existsb (bytes_eqb (file_nm l1 id)) reading); [discriminate|].
      destruct (assoc_b (file_nm l1 id) fs) as [content|]; [|discriminate].
      apply bind_ok in H as [l2 [E2 H]]. eapply IH; [|exact H].
      eapply REC; [|exact E2]. eapply P_path; eassumption.
    - apply bind_ok in H as [[l1 id] [E H]].
      destruct (existsb (bytes_eqb (file_nm l1 id)) reading); [discriminate|].
      destruct (assoc_b (file_nm l1 id) fs) as [content|]; [|discriminate].
      apply bind_ok in H as [l2 [E2 H]]. eapply IH; [|exact H].
      eapply REC; [|exact E2]. eapply P_path; eassumption.
    - eapply IH; [|exact H]. eapply P_same; [| |exact I]; reflexivity.
  Qed.

  Lemma parse_file_r_P fs : forall depth reading l filename text inherited l',
    P l -> parse_file_r true depth fs reading l filename text inherited = Ok l' -> P l'.
  Proof.
    induction depth as [|depth IH]; intros reading l filename text inherited l' I H; [discriminate|].
    rewrite parse_file_r_unfold in H. apply bind_ok in H as [s0 [_ H]].
    eapply stmts_loop_P; [|exact I | exact H].
    intros rd l0 path content vs l0' I0 H0. eapply IH; eassumption.
  Qed.

  Theorem load_manifest_P depth fs name text l :
    (forall c, P (loader_start c)) -> load_manifest true depth fs name text = Ok l -> P l.
  Proof.
    intros S H. rewrite load_manifest_start in H. apply bind_ok in H as [c [_ H]].
    eapply parse_file_r_P; [apply S | exact H].
  Qed.
End LoadInvariant.

(* ------------------------------------------------------------------------------------ *)
(* D6: the consumer edges *)

Lemma dependents_from_app i : forall bs1 bs2 p,
  dependents_from (bs1 ++ bs2) p i = dependents_from bs1 p i ++ dependents_from bs2 (p + length bs1) i.
Proof.
  induction bs1 as [|b bs1 IH]; intros bs2 p; cbn [app dependents_from length].
  - now rewrite Nat.add_0_r.
  - rewrite IH, <- app_assoc. do 3 f_equal. lia.
Qed.

Lemma dependents_from_none i : forall bs p,
  (forall b, In b bs -> ~ In i (lb_ins b)) -> dependents_from bs p i = [].
Proof.
  induction bs as [|b bs IH]; intros p H; [reflexivity|]. cbn [dependents_from].
  rewrite (proj1 (count_occ_not_In Nat.eq_dec (lb_ins b) i)) by (apply H; now left).
  cbn [repeat app]. apply IH. intros b' Hb'. apply H. now right.
Qed.

(* interning a path appends files without dependents *)
Lemma id_from_canonical_files l c l' id : id_from_canonical l c = (l', id) ->
  l_builds l' = l_builds l /\
  exists ext, l_files l' = l_files l ++ ext /\ Forall (fun f => lf_dependents f = []) ext.
Proof.
  unfold id_from_canonical. destruct (find_file (l_files l) c 0); intro H; inversion H; subst; clear H.
  - split; [reflexivity|]. exists []. rewrite app_nil_r. split; [reflexivity | constructor].
  - split; [reflexivity|]. eexists. split; [reflexivity|]. constructor; [reflexivity | constructor].
Qed.

Lemma evaluate_path_files l p envs l' id : evaluate_path l p envs = Ok (l', id) ->
  l_builds l' = l_builds l /\
  exists ext, l_files l' = l_files l ++ ext /\ Forall (fun f => lf_dependents f = []) ext.
Proof.
  unfold evaluate_path. intro H.
  assert (H' : load_path l (evaluate envs p) = Ok (l', id)).
  { destruct (evaluate envs p); [discriminate | exact H]. }
  unfold load_path in H'. apply bind_ok in H' as [c [_ H']]. inversion H' as [H2].
  now apply id_from_canonical_files in H2.
Qed.

Definition LD (l : loader) : Prop := LInv l /\ DInv l.

Lemma LD_same l l' : l_files l' = l_files l -> l_builds l' = l_builds l -> LD l -> LD l'.
Proof.
  intros F B [I D]. split; [eapply LInv_same_graph; eassumption|].
  unfold DInv. rewrite F, B. exact D.
Qed.

Lemma LD_path l p envs l' id : LD l -> evaluate_path l p envs = Ok (l', id) -> LD l'.
Proof.
  intros [I D] H. destruct (evaluate_path_spec _ _ _ _ _ H) as [X _].
  destruct (evaluate_path_files _ _ _ _ _ H) as [B (ext & F & E)].
  split; [eapply Ext_LInv; eassumption|].
  intros i f Hf. rewrite B. rewrite F in Hf.
  destruct (Nat.lt_ge_cases i (length (l_files l))) as [L|G].
  - rewrite nth_error_app1 in Hf by exact L. now apply D.
  - rewrite nth_error_app2 in Hf by exact G. apply nth_error_In in Hf.
    rewrite Forall_forall in E. rewrite (E f Hf). symmetry. apply dependents_from_none.
    intros b Hb Hi. apply In_nth_error in Hb as [pb Hpb].
    pose proof (LI_ins_range l I pb b i Hpb Hi). lia.
Qed.

Lemma LD_paths envs ps l l' ids : LD l -> evaluate_paths l ps envs = Ok (l', ids) -> LD l'.
Proof. apply (P_paths LD LD_path). Qed.

(* the input loop of Graph::add_build *)
Lemma gab_files0_deps n : forall ins fs i f, nth_error fs i = Some f ->
  exists f', nth_error (fold_left (fun fs id => update_file fs id
                          (fun f => mkLFile (lf_name f) (lf_input f) (lf_dependents f ++ [n]))) ins fs) i = Some f' /\
             lf_dependents f' = lf_dependents f ++ repeat n (count_occ Nat.eq_dec ins i).
Proof.
  induction ins as [|id ins IH]; intros fs i f Hf; cbn [fold_left count_occ].
  - exists f. rewrite app_nil_r. split; [exact Hf | reflexivity].
  - set (g := fun f0 => mkLFile (lf_name f0) (lf_input f0) (lf_dependents f0 ++ [n])).
    assert (Hf1 : nth_error (update_file fs id g) i = Some (if (i =? id)%nat then g f else f)).
    { rewrite update_file_nth, Hf. destruct (i =? id)%nat; reflexivity. }
    destruct (IH _ i _ Hf1) as (f' & H1 & H2). exists f'. split; [exact H1|]. rewrite H2.
    destruct (Nat.eq_dec id i) as [->|Hne].
    + rewrite Nat.eqb_refl. cbn [g lf_dependents repeat]. rewrite <- app_assoc. reflexivity.
    + assert (E : (i =? id)%nat = false) by (apply Nat.eqb_neq; congruence). rewrite E. reflexivity.
Qed.

(* the output loop does not touch the dependents *)
Lemma gab_step1_deps l b fs d w id fs' d' w' :
  gab_step1 l b fs d w id = Ok (fs', d', w') -> map lf_dependents fs' = map lf_dependents fs.
Proof.
  unfold gab_step1. destruct (nth_error fs id) as [f|]; [|discriminate].
  destruct (lf_input f) as [prev|].
  - destruct (prev =? length (l_builds l))%nat; [|discriminate]. intro H. inversion H; subst. reflexivity.
  - intro H. inversion H; subst. apply update_file_map. reflexivity.
Qed.

Lemma fold_gab_deps l b : forall rest fs d w fs' d' w',
  fold_left (gab_step l b) rest (Ok (fs, d, w)) = Ok (fs', d', w') -> map lf_dependents fs' = map lf_dependents fs.
Proof.
  induction rest as [|id rest IH]; intros fs d w fs' d' w' H; cbn [fold_left] in H.
  - inversion H; subst. reflexivity.
  - unfold gab_step at 2 in H. cbn [bind] in H.
    destruct (gab_step1 l b fs d w id) as [[[fs1 d1] w1]|m|x|x|] eqn:E.
    + rewrite (IH _ _ _ _ _ _ H). eapply gab_step1_deps. exact E.
    + rewrite fold_gab_step_stuck in H by discriminate. discriminate.
    + rewrite fold_gab_step_stuck in H by discriminate. discriminate.
    + rewrite fold_gab_step_stuck in H by discriminate. discriminate.
    + rewrite fold_gab_step_stuck in H by discriminate. discriminate.
Qed.

Lemma nth_error_map_eq {A B} (h : A -> B) l1 l2 i x y :
  map h l1 = map h l2 -> nth_error l1 i = Some x -> nth_error l2 i = Some y -> h x = h y.
Proof.
  intros E H1 H2. apply (f_equal (fun l => nth_error l i)) in E.
  rewrite !nth_error_map, H1, H2 in E. cbn in E. now inversion E.
Qed.

Theorem graph_add_build_DInv fixed l b l' : DInv l -> graph_add_build fixed l b = Ok l' -> DInv l'.
Proof.
  intros D H. rewrite gab_unfold in H. apply bind_ok in H as [[[fs' dups] warns] [F H]].
  pose proof (fold_gab_deps l b _ _ _ _ _ _ _ F) as Hd.
  destruct (if dups then remove_duplicates fixed (lb_outs b) (lb_explicit_outs b) else (lb_outs b, lb_explicit_outs b))
    as [outs eo]. inversion H; subst l'; clear H.
  intros i f' Hf'. cbn [l_files l_builds] in *.
  assert (Li : i < length (l_files l)).
  { assert (L1 : i < length fs') by (apply nth_error_Some; congruence).
    rewrite <- (map_length lf_dependents), Hd, map_length in L1.
    assert (L2 : length (gab_files0 l b) = length (l_files l)).
    { rewrite <- (map_length lf_name), gab_files0_names, map_length. reflexivity. }
    lia. }
  destruct (nth_error (l_files l) i) as [f0|] eqn:Hf0; [|apply nth_error_None in Hf0; lia].
  destruct (gab_files0_deps (length (l_builds l)) (lb_ins b) _ i f0 Hf0) as (f1 & Hf1 & E1).
  fold (gab_files0 l b) in Hf1.
  rewrite (nth_error_map_eq lf_dependents _ _ i _ _ Hd Hf' Hf1), E1, (D i f0 Hf0).
  rewrite dependents_from_app. cbn [dependents_from set_outs lb_ins Nat.add]. now rewrite app_nil_r.
Qed.

Lemma LD_add l filename fvars pb l' : LD l -> pb_explicit_outs pb <= length (pb_outs pb) ->
  loader_add_build true l filename fvars pb = Ok l' -> LD l'.
Proof.
  intros [I D] EL H. split; [eapply loader_add_build_LInv; eassumption|].
  destruct (loader_add_build_ok _ _ _ _ _ _ H) as (l1 & ins & l2 & outs & rule & b & E1 & E2 & _ & _ & _ & _ & _ & _ & _ & _ & _ & G).
  eapply graph_add_build_DInv; [|exact G].
  apply (LD_paths _ _ _ _ _ (LD_paths _ _ _ _ _ (conj I D) E1) E2).
Qed.

Lemma LD_start c : LD (loader_start c).
Proof.
  split; [apply LInv_start|]. intros i f H. destruct i as [|[|i]]; cbn in H; inversion H; subst. reflexivity.
Qed.

Theorem load_manifest_DInv depth fs name text l :
  load_manifest true depth fs name text = Ok l -> DInv l.
Proof.
  intro H. exact (proj2 (load_manifest_P LD LD_same LD_path LD_add depth fs name text l LD_start H)).
Qed.

(* ------------------------------------------------------------------------------------ *)
(* what DInv says, edge by edge *)

Lemma dependents_from_count i q : forall bs p,
  count_occ Nat.eq_dec (dependents_from bs p i) q =
  match nth_error bs (q - p) with
  | Some b => if (p <=? q)%nat then count_occ Nat.eq_dec (lb_ins b) i else 0
  | None => 0
  end.
Proof.
  induction bs as [|b bs IH]; intros p; cbn [dependents_from].
  - destruct (q - p); reflexivity.
  - rewrite count_occ_app, IH.
    assert (R : forall n, count_occ Nat.eq_dec (repeat p n) q = if Nat.eq_dec p q then n else 0).
    { induction n as [|n IHn]; cbn [repeat count_occ]; [now destruct (Nat.eq_dec p q)|].
      rewrite IHn. destruct (Nat.eq_dec p q); reflexivity. }
    rewrite R. destruct (Nat.eq_dec p q) as [->|Hne].
    + rewrite Nat.sub_diag, Nat.leb_refl. cbn [nth_error].
      assert (E2 : (S q <=? q)%nat = false) by (apply Nat.leb_gt; lia). rewrite E2.
      destruct (nth_error bs (q - S q)); lia.
    + destruct (Nat.leb_spec p q) as [L|L].
      * replace (q - p) with (S (q - S p)) by lia. cbn [nth_error].
        assert (E2 : (S p <=? q)%nat = true) by (apply Nat.leb_le; lia). rewrite E2. reflexivity.
      * assert (E2 : (S p <=? q)%nat = false) by (apply Nat.leb_gt; lia). rewrite E2.
        destruct (nth_error bs (q - S p)); destruct (nth_error (b :: bs) (q - p)); reflexivity.
Qed.

(* one entry per occurrence of the file among the step's inputs, none for other steps *)
Theorem DInv_count l : DInv l -> forall i f p, nth_error (l_files l) i = Some f ->
  count_occ Nat.eq_dec (lf_dependents f) p =
  match nth_error (l_builds l) p with Some b => count_occ Nat.eq_dec (lb_ins b) i | None => 0 end.
Proof.
  intros D i f p Hf. rewrite (D i f Hf), dependents_from_count, Nat.sub_0_r. reflexivity.
Qed.

Theorem DInv_iff l : DInv l -> forall i f, nth_error (l_files l) i = Some f ->
  forall p, In p (lf_dependents f) <-> exists b, nth_error (l_builds l) p = Some b /\ In i (lb_ins b).
Proof.
  intros D i f Hf p. rewrite (count_occ_In Nat.eq_dec), (DInv_count l D i f p Hf). split.
  - destruct (nth_error (l_builds l) p) as [b|]; [|lia]. intro H. exists b. split; [reflexivity|].
    now apply (count_occ_In Nat.eq_dec).
  - intros (b & -> & Hi). now apply (count_occ_In Nat.eq_dec).
Qed.

(* the list is sorted: steps are entered in the order they are declared *)
Lemma dependents_from_sorted i : forall bs p, Sorted le (dependents_from bs p i) /\
  forall q, In q (dependents_from bs p i) -> p <= q.
Proof.
  induction bs as [|b bs IH]; intros p; cbn [dependents_from]; [split; [constructor | intros q []]|].
  destruct (IH (S p)) as [S1 B1].
  assert (G : forall n, Sorted le (repeat p n ++ dependents_from bs (S p) i)).
  { induction n as [|n IHn]; cbn [repeat app]; [exact S1|]. constructor; [exact IHn|].
    destruct n; cbn [repeat app].
    - destruct (dependents_from bs (S p) i) as [|q r] eqn:E; constructor.
      assert (S p <= q) by (apply B1; now left). lia.
    - constructor. lia. }
  split; [apply G|]. intros q Hq. apply in_app_or in Hq as [Hq|Hq].
  - apply repeat_spec in Hq. lia.
  - specialize (B1 q Hq). lia.
Qed.

Theorem DInv_sorted l : DInv l -> forall i f, nth_error (l_files l) i = Some f ->
  Sorted le (lf_dependents f).
Proof. intros D i f Hf. rewrite (D i f Hf). apply dependents_from_sorted. Qed.
