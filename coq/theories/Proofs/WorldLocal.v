(* C03.4: the verdict of a step depends on the rest of the world only through the cache and
   tree entries of the files in its own manifest. *)
From Coq Require Import String.
From N2 Require Import Model.All Proofs.DbSpec Proofs.WorldSpec Proofs.WorldBase Proofs.WorldDeps
     Proofs.WorldDirty.
From Coq Require Import Lia.

Definition agree_on (S : list bytes) (w w' : wstate) : Prop :=
  forall n, In n S -> cache_get (ws_cache w) n = cache_get (ws_cache w') n /\
                      fs_get (ws_fs w) n = fs_get (ws_fs w') n.

Lemma stat_agree S w w' n : agree_on S w w' -> In n S ->
  agree_on S (fst (stat w n)) (fst (stat w' n)) /\ snd (stat w n) = snd (stat w' n).
Proof.
  intros H Hn. destruct (H n Hn) as (_ & Hf). split; [|exact Hf].
  intros k Hk. unfold stat. cbn [fst ws_cache ws_fs]. destruct (H k Hk) as (Hc & Hfk).
  split; [|assumption]. destruct (bytes_eq_dec k n) as [->|Hne].
  - now rewrite !cache_get_set_same, Hf.
  - now rewrite !cache_get_set_other.
Qed.

Lemma ensure_agree g S : forall names w w' wa r wa' r', incl names S -> agree_on S w w' ->
  ensure_inputs g w names = (wa, r) -> ensure_inputs g w' names = (wa', r') ->
  r = r' /\ agree_on S wa wa'.
Proof.
  induction names as [|n names IH]; intros w w' wa r wa' r' Hi H E E'; cbn [ensure_inputs] in E, E'.
  - injection E as <- <-. injection E' as <- <-. now split.
  - assert (Hn : In n S) by (apply Hi; now left).
    assert (Hi' : incl names S) by (intros k Hk; apply Hi; now right).
    destruct (H n Hn) as (Hc & Hf). rewrite <- Hc in E'.
    destruct (cache_get (ws_cache w) n) as [[t|]|].
    + eapply IH; eassumption.
    + injection E as <- <-. injection E' as <- <-. now split.
    + destruct (producer_of g n).
      * injection E as <- <-. injection E' as <- <-. now split.
      * destruct (stat_agree S w w' n H Hn) as (Ha & Hv).
        destruct (stat w n) as [w1 v], (stat w' n) as [w1' v']. cbn [fst snd] in Ha, Hv. subst v'.
        destruct v as [t|].
        -- eapply IH; eassumption.
        -- injection E as <- <-. injection E' as <- <-. now split.
Qed.

Lemma stat_all_agree S : forall names w w' m wa mo wa' mo', incl names S -> agree_on S w w' ->
  stat_all w names m = (wa, mo) -> stat_all w' names m = (wa', mo') ->
  mo = mo' /\ agree_on S wa wa'.
Proof.
  induction names as [|n names IH]; intros w w' m wa mo wa' mo' Hi H E E'; cbn [stat_all] in E, E'.
  - injection E as <- <-. injection E' as <- <-. now split.
  - assert (Hn : In n S) by (apply Hi; now left).
    assert (Hi' : incl names S) by (intros k Hk; apply Hi; now right).
    destruct (stat_agree S w w' n H Hn) as (Ha & Hv).
    destruct (stat w n) as [w1 v], (stat w' n) as [w1' v']. cbn [fst snd] in Ha, Hv. subst v'.
    eapply IH; eassumption.
Qed.

Lemma manifest_of_agree S w w' bd d : agree_on S w w' -> incl (wb_dirtying bd ++ d ++ wb_outs bd) S ->
  manifest_of w bd d = manifest_of w' bd d.
Proof.
  intros H Hi. unfold manifest_of.
  rewrite (with_mtimes_ext (ws_cache w) (ws_cache w') (wb_dirtying bd))
    by (intros n Hn; apply H, Hi, in_or_app; now left).
  rewrite (with_mtimes_ext (ws_cache w) (ws_cache w') d)
    by (intros n Hn; apply H, Hi, in_or_app; right; apply in_or_app; now left).
  rewrite (with_mtimes_ext (ws_cache w) (ws_cache w') (wb_outs bd))
    by (intros n Hn; apply H, Hi, in_or_app; right; apply in_or_app; now right).
  reflexivity.
Qed.

Lemma unchanged_upstream_output : forall g w w' b bd,
  disc_of w b = disc_of w' b -> assoc_nat b (ws_hashes w) = assoc_nat b (ws_hashes w') ->
  (forall n, In n (wb_dirtying bd ++ disc_of w b ++ wb_outs bd) ->
     cache_get (ws_cache w) n = cache_get (ws_cache w') n /\ fs_get (ws_fs w) n = fs_get (ws_fs w') n) ->
  snd (check_build_dirty g w b bd) = snd (check_build_dirty g w' b bd).
Proof.
  intros g w w' b bd Hd Hh H.
  destruct (wb_cmdline bd) as [c|] eqn:Ec; [|now rewrite !phony_never_dirty].
  set (S := wb_dirtying bd ++ disc_of w b ++ wb_outs bd) in *.
  assert (I1 : incl (wb_dirtying bd) S) by (intros n Hn; apply in_or_app; now left).
  assert (I2 : incl (disc_of w b) S) by (intros n Hn; apply in_or_app; right; apply in_or_app; now left).
  assert (I3 : incl (wb_outs bd) S) by (intros n Hn; apply in_or_app; right; apply in_or_app; now right).
  destruct (check_build_dirty g w b bd) as [wf r] eqn:E.
  destruct (check_build_dirty g w' b bd) as [wf' r'] eqn:E'. cbn [snd].
  destruct (check_inv _ _ _ _ _ _ _ Ec E) as (wa & r1 & E1 & H1).
  destruct (check_inv _ _ _ _ _ _ _ Ec E') as (wa' & r1' & E1' & H1').
  destruct (ensure_agree g S _ _ _ _ _ _ _ I1 H E1 E1') as (<- & Ha).
  apply ensure_inputs_spec in E1 as (X1 & _ & _). apply ensure_inputs_spec in E1' as (X1' & _ & _).
  destruct r1 as [[n|]|n].
  - destruct H1 as (_ & ->), H1' as (_ & ->). reflexivity.
  - destruct H1 as (wb & r2 & E2 & H2), H1' as (wb' & r2' & E2' & H2').
    rewrite (cache_ext_disc_of _ _ b X1) in E2. rewrite (cache_ext_disc_of _ _ b X1'), <- Hd in E2'.
    destruct (ensure_agree g S _ _ _ _ _ _ _ I2 Ha E2 E2') as (<- & Hb).
    apply ensure_inputs_spec in E2 as (X2 & _ & _). apply ensure_inputs_spec in E2' as (X2' & _ & _).
    destruct r2 as [[n|]|n].
    + destruct H2 as (_ & ->), H2' as (_ & ->). reflexivity.
    + destruct H2 as (mo & E3 & ->), H2' as (mo' & E3' & ->).
      destruct (stat_all_agree S _ _ _ _ _ _ _ _ I3 Hb E3 E3') as (<- & Hc).
      destruct mo; [reflexivity|].
      apply stat_all_spec in E3 as (X3 & _ & _). apply stat_all_spec in E3' as (X3' & _ & _).
      pose proof (cache_ext_trans _ _ _ (cache_ext_trans _ _ _ X1 X2) X3) as X.
      pose proof (cache_ext_trans _ _ _ (cache_ext_trans _ _ _ X1' X2') X3') as X'.
      unfold verdict_tail.
      assert (Hw : ws_hashes wf = ws_hashes w) by apply X.
      assert (Hw' : ws_hashes wf' = ws_hashes w') by apply X'.
      rewrite Hw, Hw', <- Hh, (cache_ext_disc_of _ _ b X), (cache_ext_disc_of _ _ b X'), <- Hd.
      rewrite (manifest_of_agree S wf wf' bd (disc_of w b) Hc); [reflexivity|].
      unfold S. apply incl_refl.
    + destruct H2 as (_ & ->), H2' as (_ & ->). reflexivity.
  - destruct H1 as (_ & ->), H1' as (_ & ->). reflexivity.
Qed.

(* two fresh Works (nothing stat()ed yet): only the (name, mtime) pairs of the step's own files matter *)
Lemma unchanged_upstream_output_fresh : forall g w w' b bd,
  ws_cache w = [] -> ws_cache w' = [] ->
  disc_of w b = disc_of w' b -> assoc_nat b (ws_hashes w) = assoc_nat b (ws_hashes w') ->
  (forall n, In n (wb_dirtying bd ++ disc_of w b ++ wb_outs bd) -> fs_get (ws_fs w) n = fs_get (ws_fs w') n) ->
  snd (check_build_dirty g w b bd) = snd (check_build_dirty g w' b bd).
Proof.
  intros g w w' b bd C C' Hd Hh H. apply unchanged_upstream_output; try assumption.
  intros n Hn. split; [now rewrite C, C' | now apply H].
Qed.
