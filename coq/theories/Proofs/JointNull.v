(* Work 2 of the null-build theorem: on a tree where every wanted step with a command has a
   loaded hash equal to the hash of the manifest read from the tree, every verdict of a jointly
   accepted trace is clean, nothing is started and nothing is written. *)
From Coq Require Import Lia ZArith List Bool Arith.
From N2 Require Import Model.All Proofs.SchedSpec Proofs.SchedInv Proofs.SchedRunBase
     Proofs.SchedRunStep Proofs.SchedRunCore Proofs.SchedRunAux Proofs.SchedRunRInv Proofs.SchedRunThms.
From N2 Require Import Proofs.DbSpec Proofs.WorldSpec Proofs.WorldBase Proofs.WorldDeps Proofs.WorldDirty
     Proofs.WorldLog Proofs.JointSpec Proofs.JointBase Proofs.JointSched Proofs.JointInv Proofs.JointLog.
Import ListNotations.

Definition null_ctl (c : ctl) : Prop :=
  match c with
  | CIdle | CChecking _ | CVerdict _ VClean false | CReturned _ => True
  | _ => False
  end.

(* the items a null build consists of *)
Definition ok_item (j : jitem) : Prop :=
  match j with
  | JStart _ | JWrite _ _ | JFinish _ _ _ | JRecord _ _ => False
  | JVerdict _ v => v = VClean
  | JReturn ok => ok = Some true
  | _ => True
  end.

Section Work2.
Variable cf : config.
Variable decls : list (bytes * nat).
Variable wg : wgraph.
Notation g := (cf_graph cf).
Notation nb := (length (g_builds (cf_graph cf))).
Notation P := (producer_of wg).
Hypothesis Hwf : graph_wf g.
Hypothesis Hag : graphs_agree g wg.

Variable fs1 : fsmap.
Variable w20 : wstate.

Definition good (b : nat) : Prop :=
  exists h m, assoc_nat b (ws_hashes w20) = Some h /\
              fs_manifest fs1 (get_wbuild wg b) (disc_of w20 b) = Some m /\ hash_build m = h /\
              forall d, In d (disc_of w20 b) -> P d = None.

Record NInv (a : jst) : Prop := {
  ni_fs : ws_fs (j_w a) = fs1;
  ni_disc : ws_disc (j_w a) = ws_disc w20;
  ni_hashes : ws_hashes (j_w a) = ws_hashes w20;
  ni_states : forall x, In (get_state (rs_bs (j_r a)) x) [Unknown; Want; Ready; Done];
  ni_ctl : null_ctl (rs_ctl (j_r a));
  ni_run : j_run a = [];
  ni_tasks : rs_tasks_run (j_r a) = 0;
  ni_good : forall b, b < nb -> wb_cmdline (get_wbuild wg b) <> None ->
                      get_state (rs_bs (j_r a)) b <> Unknown -> good b;
}.

Lemma return_true r ok r' :
  RInv cf decls r -> (forall x, get_state (rs_bs r) x <> Failed) -> rs_ctl r = CIdle ->
  accept1 cf r (EReturn ok) = Some r' -> ok = Some true.
Proof.
  intros R Hnf Hc H. unfold accept1 in H. rewrite Hc in H. destruct ok as [ok|]; [|discriminate].
  match type of H with (if ?c then _ else _) = _ => destruct c eqn:E; [|discriminate] end.
  apply andb_true_iff in E. destruct E as [_ E]. apply eqb_prop in E. subst ok.
  pose proof (ri_failed _ _ _ R) as F.
  rewrite (count_state_zero_intro g (rs_bs r) Failed false) in F by (intros b _; apply Hnf).
  assert (E0 : rs_failed r = 0) by lia. rewrite E0. reflexivity.
Qed.

(* in a Work without running or failed steps the stat cache agrees with the tree *)
Lemma JInv_consistent a :
  JInv cf decls wg a -> (forall x, In (get_state (rs_bs (j_r a)) x) [Unknown; Want; Ready; Done]) ->
  cache_consistent (j_w a).
Proof.
  intros J Hst n v Hv. destruct (ji_cache _ _ _ _ J n v Hv) as [E|(p & _ & _ & Sp)]; [exact E|exfalso].
  specialize (Hst p). cbn [In] in Hst.
  destruct Sp as [[E _]|E]; rewrite E in Hst; intuition discriminate.
Qed.

Lemma JInv_stated a b :
  JInv cf decls wg a -> rs_ctl (j_r a) = CChecking b ->
  stated_generated wg (j_w a) (wb_dirtying (get_wbuild wg b)).
Proof.
  intros J Hc n In_ Hp. pose proof (ji_r _ _ _ _ J) as R.
  pose proof (ri_ctl _ _ _ R) as K. rewrite Hc in K. cbn [ctl_ok] in K. destruct K as (_ & _ & L & E).
  destruct (producer_of wg n) as [p|] eqn:Ep; [|congruence].
  destruct (dirtying_producer g wg Hwf Hag b n p L In_ Ep) as (Hop & Lp & Iop).
  assert (Ed : get_state (rs_bs (j_r a)) p = Done).
  { apply (bc_prod _ _ _ (ri_core _ _ _ R) b p); [rewrite E; cbn; tauto|exact Hop]. }
  rewrite (ji_done _ _ _ _ J p Ed n Iop). discriminate.
Qed.

Lemma disc_of_eq w w' b : ws_disc w = ws_disc w' -> disc_of w b = disc_of w' b.
Proof. unfold disc_of. now intros ->. Qed.

(* the verdict of a wanted step on the loaded state is clean *)
Lemma null_verdict a b w' res :
  JInv cf decls wg a -> NInv a -> rs_ctl (j_r a) = CChecking b ->
  check_build_dirty wg (j_w a) b (get_wbuild wg b) = (w', res) -> res = DClean.
Proof.
  intros J N Hc Ec. pose proof (ji_r _ _ _ _ J) as R.
  pose proof (ri_ctl _ _ _ R) as K. rewrite Hc in K. cbn [ctl_ok] in K. destruct K as (_ & _ & L & E).
  destruct (wb_cmdline (get_wbuild wg b)) as [c|] eqn:Hcmd.
  2:{ pose proof (phony_never_dirty wg (j_w a) b _ Hcmd) as H. rewrite Ec in H. exact H. }
  destruct (ni_good _ N b L) as (h & m & Hh & Hm & Hhm & Hsrc); [congruence|rewrite E; discriminate|].
  pose proof (disc_of_eq _ _ b (ni_disc _ N)) as Hd.
  destruct (check_from_fs wg (j_w a) b _ c Hcmd) as (m' & Hm' & Hv).
  - exact (JInv_consistent a J (ni_states _ N)).
  - intros n Hn. rewrite (ni_fs _ N). rewrite Hd in Hn. exact (fs_manifest_present _ _ _ _ Hm n Hn).
  - intros n Hn Hp. apply in_app_or in Hn. destruct Hn as [Hn|Hn].
    + exact (JInv_stated a b J Hc n Hn Hp).
    + rewrite Hd in Hn. destruct (Hp (Hsrc n Hn)).
  - rewrite (ni_fs _ N), Hd, Hm in Hm'. injection Hm' as <-.
    destruct (Hv w' res Ec) as (_ & _ & ->). rewrite (ni_hashes _ N), Hh, Hhm, N.eqb_refl. reflexivity.
Qed.

Lemma NInv_step a j b :
  JInv cf decls wg a -> NInv a -> jstep cf wg a j b -> NInv b /\ ok_item j.
Proof.
  intros J N Hstep. pose proof Hstep as (Hs & Hw & Hwr & Hrun).
  destruct a as [r w aw pend run], b as [r' w' aw' pend' run'].
  pose proof N as [Nf Nd Nh Nst Nc Nr Nt Ng].
  cbn [j_r j_w j_aw j_pend j_run] in *. subst run' run.
  pose proof (ji_r _ _ _ _ J) as R. pose proof (ji_aw _ _ _ _ J) as A. cbn [j_r j_aw] in R, A.
  destruct j as [c|b0|b0 v|b0 p n|b0|n|n t|b0 t rep|b0 h|ok]; cbn [proj_s1] in Hs; cbn [run_after ok_item] in *.
  7:{ (* write *) destruct Hwr as (x & [] & _). }
  all: apply accepts_one in Hs; pose proof (accept1_step cf _ _ _ Hs) as Hst;
    pose proof (step_tasks cf _ _ _ Hst) as Ht;
    destruct (accept_sum cf decls _ _ _ R Hs) as [S R']; cbn [ev_sum] in S.
  - (* update *)
    destruct S as [-> _]. destruct Hw as (-> & -> & ->). split; [exact N|exact I].
  - (* pop *)
    destruct S as (SS & Hc & Hc' & Lb & E). destruct Hw as (-> & -> & ->). split; [|exact I].
    constructor; cbn [j_r j_w j_run]; auto.
    + intro x. rewrite SS. apply Nst.
    + rewrite Hc'. exact I.
    + rewrite Hc, Hc' in Ht. cbn in Ht. lia.
    + intros x Lx Hcx Hx. rewrite SS in Hx. now apply Ng.
  - (* verdict *)
    destruct S as (SS & Hc & Hc' & Lb & E & Hph). destruct Hw as (res & Ec & Hcode & Haw).
    assert (res = DClean) by exact (null_verdict _ b0 w' res J N Hc Ec). subst res.
    assert (v = VClean) by (destruct v; cbn in Hcode; congruence). subst v.
    split; [|reflexivity]. pose proof (check_ext _ _ _ _ _ _ Ec) as (F & D & H & _).
    constructor; cbn [j_r j_w j_run]; try congruence.
    + intro x. rewrite SS. apply Nst.
    + rewrite Hc'. exact I.
    + rewrite Hc, Hc' in Ht. cbn in Ht. lia.
    + intros x Lx Hcx Hx. rewrite SS in Hx. now apply Ng.
  - (* set *)
    destruct S as (Lb & Ep & En & U & S). pose proof (Nst b0) as Hb0. rewrite Ep in Hb0. cbn [In] in Hb0.
    destruct p, n; try contradiction; try (exfalso; intuition discriminate).
    + (* Want -> Ready *)
      destruct S as (Hc & Hc'). destruct Hw as (-> & -> & ->). split; [|exact I].
      constructor; cbn [j_r j_w j_run]; auto.
      * intro x. destruct (Nat.eq_dec x b0) as [->|Hne]; [rewrite En; cbn; tauto|rewrite (U x Hne); apply Nst].
      * rewrite Hc'. exact I.
      * rewrite Hc, Hc' in Ht. cbn in Ht. lia.
      * intros x Lx Hcx Hx. apply Ng; auto.
        destruct (Nat.eq_dec x b0) as [->|Hne]; [rewrite Ep; discriminate|now rewrite <- (U x Hne)].
    + (* Ready -> Queued *)
      destruct S as (Hc & _). rewrite Hc in Nc. destruct Nc.
    + (* Ready -> Done *)
      destruct S as ((v & rec & Hc & Hv) & Hc'). rewrite Hc in Nc, A. cbn [null_ctl] in Nc.
      destruct v; try destruct Nc. destruct rec; try destruct Nc. cbn [aw_ok] in A. subst aw.
      cbn [wstepP aw_is] in Hw. destruct Hw as (-> & -> & ->). split; [|exact I].
      constructor; cbn [j_r j_w j_run]; auto.
      * intro x. destruct (Nat.eq_dec x b0) as [->|Hne]; [rewrite En; cbn; tauto|rewrite (U x Hne); apply Nst].
      * rewrite Hc'. exact I.
      * rewrite Hc, Hc' in Ht. cbn in Ht. lia.
      * intros x Lx Hcx Hx. apply Ng; auto.
        destruct (Nat.eq_dec x b0) as [->|Hne]; [rewrite Ep; discriminate|now rewrite <- (U x Hne)].
  - (* start *)
    destruct S as (_ & Hc & _). rewrite Hc in Nc. destruct Nc.
  - (* quiesce *)
    destruct S as [-> _]. destruct Hw as (-> & -> & ->). split; [exact N|exact I].
  - (* finish *)
    destruct S as (_ & _ & _ & _ & E). pose proof (Nst b0) as Hb0. rewrite E in Hb0. cbn [In] in Hb0.
    exfalso. intuition discriminate.
  - (* record *)
    destruct S as (_ & [(Hc & _)|(Hc & _)]); rewrite Hc in Nc; destruct Nc.
  - (* return *)
    destruct S as (SS & Hc' & Hc). destruct Hw as (-> & -> & ->).
    assert (Hci : rs_ctl r = CIdle).
    { destruct Hc as [Hc|[(q & rec & Hc)|(q & t & rec & Hc & _)]]; [exact Hc|rewrite Hc in Nc; destruct Nc ..]. }
    split.
    + constructor; cbn [j_r j_w j_run]; auto.
      * intro x. rewrite SS. apply Nst.
      * rewrite Hc'. exact I.
      * rewrite Hci, Hc' in Ht. cbn in Ht. lia.
      * intros x Lx Hcx Hx. rewrite SS in Hx. now apply Ng.
    + apply (return_true r ok r' R); [|exact Hci|exact Hs].
      intros x Ex. pose proof (Nst x) as Hx. rewrite Ex in Hx. cbn [In] in Hx. intuition discriminate.
Qed.

Lemma Work2_reach a tr b :
  JInv cf decls wg a -> NInv a -> jreach cf wg a tr b ->
  JInv cf decls wg b /\ NInv b /\ Forall ok_item tr.
Proof.
  intros J N H. induction H as [|tr b j c H IH Hs].
  - auto.
  - destruct IH as (Jb & Nb & Hf). destruct (NInv_step _ _ _ Jb Nb Hs) as (Nc & Hj).
    split; [exact (JInv_step cf decls wg Hag _ _ _ Jb Hs)|]. split; [exact Nc|].
    apply Forall_app. auto.
Qed.

End Work2.
