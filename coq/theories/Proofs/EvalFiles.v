(* C11 / C14: concrete manifests run through load_manifest (vm_compute witnesses). *)
From Coq Require Import String.
From N2 Require Import Model.All.

(* one manifest line, newline-terminated, in front of the rest of the text *)
Definition ln (s : string) (rest : bytes) : bytes := bs s ++ [10%N] ++ rest.
Arguments ln s%string rest.

(* subninja: the child sees v0 bound before the statement (and not v2 bound after it);
   the parent does not see the child's v1 *)
Lemma subninja_copy :
  exists l b0 b1,
    load_manifest true 5
      [(bs "sub.ninja", ln "v1 = child" (ln "build p: r" []))]
      (bs "build.ninja")
      (ln "rule r" (ln "  command = c.$v0.$v1.$v2" (ln "v0 = top" (ln "subninja sub.ninja"
       (ln "v2 = late" (ln "build o: r" [])))))) = Ok l /\
    l_builds l = [b0; b1] /\
    lb_file b0 = bs "sub.ninja" /\ lb_cmdline b0 = Some (bs "c.top.child.") /\
    lb_file b1 = bs "build.ninja" /\ lb_cmdline b1 = Some (bs "c.top..late").
Proof.
  eexists. eexists. eexists. split; [vm_compute; reflexivity|].
  split; [reflexivity|]. vm_compute. repeat split.
Qed.

(* F11: a binding made by an included file is not visible to the includer afterwards *)
Lemma include_extends_refuted :
  exists l b,
    load_manifest true 5
      [(bs "inc.ninja", ln "v0=sub" [])]
      (bs "build.ninja")
      (ln "rule r" (ln "  command = c-$v0" (ln "include inc.ninja" (ln "build o: r" [])))) = Ok l /\
    l_builds l = [b] /\ lb_cmdline b = Some (bs "c-").
Proof.
  eexists. eexists. split; [vm_compute; reflexivity|].
  split; [reflexivity|]. vm_compute. reflexivity.
Qed.

(* the included file does see the includer's earlier bindings (and rules) *)
Lemma include_sees_parent :
  exists l b,
    load_manifest true 5
      [(bs "inc.ninja", ln "build o: r" [])]
      (bs "build.ninja")
      (ln "rule r" (ln "  command = c-$v0" (ln "v0 = top" (ln "include inc.ninja" [])))) = Ok l /\
    l_builds l = [b] /\ lb_file b = bs "inc.ninja" /\ lb_cmdline b = Some (bs "c-top").
Proof.
  eexists. eexists. split; [vm_compute; reflexivity|].
  split; [reflexivity|]. vm_compute. split; reflexivity.
Qed.

(* a build-block binding is expanded in file scope, not seeing its sibling; the rule's binding
   sees $out, then the build block, then file scope *)
Lemma build_scope_example :
  exists l b,
    load_manifest true 5 [] (bs "build.ninja")
      (ln "x = file" (ln "y = filey" (ln "rule r" (ln "  command = $out.$x.$y.$z" (ln "  description = d.$x"
       (ln "build o$x: r" (ln "  x = bx.$x.$z" (ln "  z = bz" (ln "  description = e.$x.$z" [])))))))))
      = Ok l /\
    l_builds l = [b] /\
    lb_cmdline b = Some (bs "obx.file..bx.file..filey.bz") /\
    lb_desc b = Some (bs "e.file.").
Proof.
  eexists. eexists. split; [vm_compute; reflexivity|].
  split; [reflexivity|]. vm_compute. split; reflexivity.
Qed.

(* C14: the same file named by two statements under different spellings *)
Lemma second_producer_example :
  load_manifest true 5 [] (bs "build.ninja")
    (ln "rule r" (ln "  command = c" (ln "build o: r" (ln "build p ./o: r" []))))
  = Err (bs "build.ninja:4: ""o"" is already an output at build.ninja:3").
Proof. vm_compute. reflexivity. Qed.

Lemma second_producer_across_files_example :
  load_manifest true 5 [(bs "sub.ninja", ln "build d/../o: r" [])] (bs "build.ninja")
    (ln "rule r" (ln "  command = c" (ln "build o: r" (ln "subninja sub.ninja" []))))
  = Err (bs "sub.ninja:1: ""o"" is already an output at build.ninja:3").
Proof. vm_compute. reflexivity. Qed.

(* C14: one output four times, straddling the explicit/implicit boundary *)
Lemma repeat_example :
  exists l b,
    load_manifest true 5 [] (bs "build.ninja")
      (ln "rule r" (ln "  command = c" (ln "build o o | ./o p o: r" []))) = Ok l /\
    l_builds l = [b] /\ map (file_nm l) (lb_outs b) = [bs "o"; bs "p"] /\ lb_explicit_outs b = 1 /\
    l_warnings l = [bs "n2: warn: build.ninja:3: ""o"" is repeated in output list";
                    bs "n2: warn: build.ninja:3: ""o"" is repeated in output list";
                    bs "n2: warn: build.ninja:3: ""o"" is repeated in output list"].
Proof.
  eexists. eexists. split; [vm_compute; reflexivity|].
  split; [reflexivity|]. vm_compute. repeat split.
Qed.
