(* C10, parser half: with the fuel the loader gives it, Parser::read does not run out of fuel
   (C12, ParseSafeStmt.v), so the round trip of ParseRoundMain.v is total. *)
From Coq Require Import String.
From N2 Require Import Model.All Proofs.ParseSpec Proofs.ParseSafeStmt.
From N2 Require Import Proofs.ParseSpell Proofs.ParseRoundMain.

Lemma good_scanner_no13 text s :
  sbuf s = text ++ [0%N] -> sofs s <= length text -> ~ In 13%N (sbuf s) -> good_scanner text s.
Proof.
  intros Hb Ho H13. split; [exact Hb|]. split; [exact Ho|].
  intros o1 _ _ E. apply H13. rewrite Hb. eapply nth_error_In. exact E.
Qed.

Theorem statement_roundtrip_total pre F txt rest vs vs' st s :
  spells_pre vs vs' F -> spells_stmt (sline s + nlz F) st txt -> follow_ok st (rest ++ [0%N]) ->
  ~ In 13%N (sbuf s) ->
  sbuf s = pre ++ F ++ txt ++ rest ++ [0%N] -> sofs s = length pre ->
  exists st', parser_read true (parse_fuel (sbuf s)) s vs =
              SOk (Some st', vs')
                  (mkScanner (sbuf s) (length (pre ++ F ++ txt)) (sline s + nlz (F ++ txt))) /\
              norm_stmt st' = norm_stmt st.
Proof.
  intros HF Hst HX H13 Hb Ho.
  destruct (statement_roundtrip true pre F txt rest vs vs' st s (parse_fuel (sbuf s)) HF Hst HX H13 Hb Ho)
    as [E|H]; [|exact H].
  exfalso.
  assert (Hb' : sbuf s = (pre ++ F ++ txt ++ rest) ++ [0%N]) by (rewrite Hb, <- !app_assoc; reflexivity).
  assert (Hg : good_scanner (pre ++ F ++ txt ++ rest) s).
  { apply good_scanner_no13; [exact Hb' | rewrite Ho, app_length; lia | exact H13]. }
  pose proof (parser_read_safe_gen _ s vs Hg) as Hok. rewrite <- Hb', E in Hok. exact Hok.
Qed.

Theorem eof_roundtrip_total pre F vs vs' s :
  spells_pre vs vs' F -> ~ In 13%N (sbuf s) ->
  sbuf s = pre ++ F ++ [0%N] -> sofs s = length pre ->
  parser_read true (parse_fuel (sbuf s)) s vs =
  SOk (None, vs') (mkScanner (sbuf s) (length (pre ++ F)) (sline s + nlz F)).
Proof.
  intros HF H13 Hb Ho.
  destruct (eof_roundtrip true pre F vs vs' s (parse_fuel (sbuf s)) HF H13 Hb Ho) as [E|H]; [|exact H].
  exfalso.
  assert (Hb' : sbuf s = (pre ++ F) ++ [0%N]) by (rewrite Hb, <- !app_assoc; reflexivity).
  assert (Hg : good_scanner (pre ++ F) s).
  { apply good_scanner_no13; [exact Hb' | rewrite Ho, app_length; lia | exact H13]. }
  pose proof (parser_read_safe_gen _ s vs Hg) as Hok. rewrite <- Hb', E in Hok. exact Hok.
Qed.
