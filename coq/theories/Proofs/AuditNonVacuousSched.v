(* AUDIT - non-vacuity of the scheduler theorems (Props/C01 C04 C05 C06 C18 C19).
   Every Example instantiates ALL hypotheses of the named theorem on a concrete graph / state /
   trace and adds a fact showing that the instance is not degenerate (the bound is attained, the
   interesting disjunct is the one that holds, an excluded event is really refused ...). *)
From Coq Require Import Lia ZArith List Bool Arith String.
From N2 Require Import Model.All Proofs.SchedSpec Proofs.SchedInv Proofs.SchedWantSpec Proofs.SchedLive
     Proofs.SchedRunCore Proofs.SchedRunThms Proofs.SchedBoundSpec Proofs.SchedBoundComplete Proofs.SchedBoundEx.
Import ListNotations.

Definition after (cf : config) (r0 : rstate) (evs : list event) : rstate :=
  match accepts cf r0 evs with Some r => r | None => r0 end.

Lemma after_reachable cf decls r0 evs :
  reachable cf decls r0 -> (if accepts cf r0 evs then true else false) = true ->
  reachable cf decls (after cf r0 evs).
Proof.
  intros Hr H. unfold after. destruct (accepts cf r0 evs) as [r|] eqn:E; [|discriminate H].
  exact (reach_accepts cf decls evs r0 r Hr E).
Qed.

(* ------------------------------------------------------------------------------------ *)
(* the double-visit graph of SchedWantSpec.v: 0 waits for 1, 2 waits for 0                *)

Lemma dv_ord_0_1 : ord_reach double_visit_graph 0 1.
Proof. apply or_step. exists 1. split; [vm_compute; auto|reflexivity]. Qed.

Lemma dv_ord_2_0 : ord_reach double_visit_graph 2 0.
Proof. apply or_step. exists 0. split; [vm_compute; auto|reflexivity]. Qed.

(* step 1 has run; step 0 promoted, examined, queued, set Running: waiting for its EStart *)
Definition dv_starting0 : rstate :=
  after dv_cf dv_r0 (full_evs 1 ++ [ESet 0 Want Ready] ++ firstn 4 (full_evs 0)).

Lemma dv_starting0_reachable : reachable dv_cf [] dv_starting0.
Proof. apply after_reachable; [exact dv_reachable|vm_compute; reflexivity]. Qed.

Example C01_started_after_producers_nonvacuous :
  exists cf decls r b r' p,
    graph_wf (cf_graph cf) /\ reachable cf decls r /\ accept1 cf r (EStart b) = Some r' /\
    ord_reach (cf_graph cf) b p /\
    (* non-trivial: p was not Done when the Work started, and is Done now *)
    get_state dv_s0 p = Ready /\ get_state (rs_bs r') p = Done.
Proof.
  exists dv_cf, [], dv_starting0, 0. eexists. exists 1.
  split; [exact dv_graph_wf|]. split; [exact dv_starting0_reachable|].
  split; [vm_compute; reflexivity|]. split; [exact dv_ord_0_1|].
  split; vm_compute; reflexivity.
Qed.

Definition dv_after1 : rstate := after dv_cf dv_r0 (full_evs 1).
Lemma dv_after1_reachable : reachable dv_cf [] dv_after1.
Proof. apply after_reachable; [exact dv_reachable|vm_compute; reflexivity]. Qed.

Example C01_done_is_final_nonvacuous :
  exists cf decls r tr r' p,
    graph_wf (cf_graph cf) /\ reachable cf decls r /\ accepts cf r tr = Some r' /\
    get_state (rs_bs r) p = Done /\ length tr = 19.
Proof.
  exists dv_cf, [], dv_after1, (skipn 8 dv_run). eexists. exists 1.
  split; [exact dv_graph_wf|]. split; [exact dv_after1_reachable|].
  split; [vm_compute; reflexivity|]. split; vm_compute; reflexivity.
Qed.

Example C01_at_most_once_nonvacuous :
  exists cf decls s fl tr r b,
    graph_wf (cf_graph cf) /\
    wanted (cf_graph cf) (bs_new (length (g_builds (cf_graph cf))) decls) s /\
    accepts cf (run_init s fl) tr = Some r /\
    (* the bound is attained *) starts_of b tr = 1.
Proof.
  exists dv_cf, [], dv_s0, None, dv_run. eexists. exists 0.
  split; [exact dv_graph_wf|].
  split; [eapply w_step with (l := []) (f := 0); [apply w_refl|vm_compute; reflexivity]|].
  split; vm_compute; reflexivity.
Qed.

Example C01_at_most_once_reachable_nonvacuous :
  exists cf decls r tr r' b,
    graph_wf (cf_graph cf) /\ reachable cf decls r /\ accepts cf r tr = Some r' /\
    (* from the middle of a run; the bound is attained *) starts_of b tr = 1.
Proof.
  exists dv_cf, [], dv_after1, (skipn 8 dv_run). eexists. exists 2.
  split; [exact dv_graph_wf|]. split; [exact dv_after1_reachable|].
  split; vm_compute; reflexivity.
Qed.

(* ------------------------------------------------------------------------------------ *)
(* C04: parallelism                                                                      *)

Definition dv_running1 : rstate := after dv_cf dv_r0 (firstn 5 (full_evs 1)).
Lemma dv_running1_reachable : reachable dv_cf [] dv_running1.
Proof. apply after_reachable; [exact dv_reachable|vm_compute; reflexivity]. Qed.

Example C04_parallelism_nonvacuous :
  exists cf decls r,
    graph_wf (cf_graph cf) /\ reachable cf decls r /\
    (* the bound is attained *) rs_running r = cf_parallelism cf /\ rs_running r = 1.
Proof.
  exists dv_cf, [], dv_running1.
  split; [exact dv_graph_wf|]. split; [exact dv_running1_reachable|]. split; vm_compute; reflexivity.
Qed.

(* a graph with a declared pool of depth 1 holding two steps, and a step nobody wants:
     0: -> f0  (pool p)     1: -> f1  (pool p)     2: f0 f1 -> f2     3: -> f3 (not wanted) *)
Definition pl_graph : graph :=
  mkGraph [mkBuild [] 0 0 0 [0] false (Some (bs "p")); mkBuild [] 0 0 0 [1] false (Some (bs "p"));
           mkBuild [0; 1] 2 0 0 [2] false None; mkBuild [] 0 0 0 [3] false None]
          [mkFile (bs "f0") (Some 0) [2]; mkFile (bs "f1") (Some 1) [2];
           mkFile (bs "f2") (Some 2) []; mkFile (bs "f3") (Some 3) []].
Definition pl_decls : list (bytes * nat) := [(bs "p", 1)].
Definition pl_cf : config := mkConfig pl_graph 2 false.

Lemma pl_graph_wf : graph_wf pl_graph.
Proof.
  split.
  - intros f b H. destruct f as [|[|[|[|f]]]]; cbn in H; try (inversion H; subst; cbn; lia).
    unfold file_input in H. cbn in H. destruct f; discriminate H.
  - intros b f L I. destruct b as [|[|[|[|b]]]]; cbn in L, I |- *; try lia; try tauto.
Qed.

Definition pl_s0 : bstates :=
  match want_targets pl_graph (bs_new 4 pl_decls, []) [2] with
  | Ok (s, _) => s
  | _ => bs_new 4 pl_decls
  end.
Definition pl_r0 : rstate := run_init pl_s0 None.

Lemma pl_wanted : wanted pl_graph (bs_new 4 pl_decls) pl_s0.
Proof. eapply w_step with (l := []) (f := 2); [apply w_refl|vm_compute; reflexivity]. Qed.

Lemma pl_reachable : reachable pl_cf pl_decls pl_r0.
Proof. apply reach_init. exact pl_wanted. Qed.

(* step 0 runs in pool p, step 1 is queued in pool p *)
Definition pl_evs : list event :=
  [EPopReady 0; EVerdict 0 VDirty; ESet 0 Ready Queued; ESet 0 Queued Running; EStart 0;
   EPopReady 1; EVerdict 1 VDirty; ESet 1 Ready Queued].
Definition pl_full : rstate := after pl_cf pl_r0 pl_evs.
Lemma pl_full_reachable : reachable pl_cf pl_decls pl_full.
Proof. apply after_reachable; [exact pl_reachable|vm_compute; reflexivity]. Qed.

Example C04_pool_depth_nonvacuous :
  exists cf decls r p,
    graph_wf (cf_graph cf) /\ reachable cf decls r /\ In p (bs_pools (rs_bs r)) /\ (0 < p_depth p)%nat /\
    (* the bound is attained, a runner slot is free, and the second step of the pool is refused *)
    running_in_pool (cf_graph cf) (rs_bs r) (p_name p) = Z.of_nat (p_depth p) /\
    (rs_running r < cf_parallelism cf)%nat /\
    get_state (rs_bs r) 1 = Queued /\ accept1 cf r (ESet 1 Queued Running) = None.
Proof.
  exists pl_cf, pl_decls, pl_full, (mkPool (bs "p") [1] 1 1).
  split; [exact pl_graph_wf|]. split; [exact pl_full_reachable|].
  split; [vm_compute; tauto|]. split; [cbn; lia|].
  split; [vm_compute; reflexivity|]. split; [vm_compute; lia|]. split; vm_compute; reflexivity.
Qed.

Example C04_running_census_idle_nonvacuous :
  exists cf decls r,
    graph_wf (cf_graph cf) /\ reachable cf decls r /\
    (rs_ctl r = CIdle \/ (exists b, rs_ctl r = CChecking b) \/ (exists b v x, rs_ctl r = CVerdict b v x)) /\
    rs_running r = 1.
Proof.
  exists pl_cf, pl_decls, pl_full.
  split; [exact pl_graph_wf|]. split; [exact pl_full_reachable|]. split; [left|]; vm_compute; reflexivity.
Qed.

(* ------------------------------------------------------------------------------------ *)
(* C05: failures                                                                          *)

Definition dv_failed0 : rstate := after dv_cf dv_r0 dv_fail_run.
Lemma dv_failed0_reachable : reachable dv_cf [] dv_failed0.
Proof. apply after_reachable; [exact dv_reachable|vm_compute; reflexivity]. Qed.

Example C05_failed_is_final_nonvacuous :
  exists cf decls r tr r' p,
    graph_wf (cf_graph cf) /\ reachable cf decls r /\ accepts cf r tr = Some r' /\
    get_state (rs_bs r) p = Failed /\ tr <> [].
Proof.
  exists dv_cf, [], dv_failed0, [EReturn (Some false)]. eexists. exists 0.
  split; [exact dv_graph_wf|]. split; [exact dv_failed0_reachable|].
  split; [vm_compute; reflexivity|]. split; [vm_compute; reflexivity|discriminate].
Qed.

Example C05_no_start_downstream_of_failure_nonvacuous :
  exists cf decls r f b tr r',
    graph_wf (cf_graph cf) /\ reachable cf decls r /\ get_state (rs_bs r) f = Failed /\
    ord_reach (cf_graph cf) b f /\ accepts cf r tr = Some r' /\
    (* b is wanted, waits, and its promotion is refused *)
    get_state (rs_bs r) b = Want /\ accept1 cf r (ESet b Want Ready) = None /\ tr <> [].
Proof.
  exists dv_cf, [], dv_failed0, 0, 2, [EReturn (Some false)]. eexists.
  split; [exact dv_graph_wf|]. split; [exact dv_failed0_reachable|].
  split; [vm_compute; reflexivity|]. split; [exact dv_ord_2_0|].
  split; [vm_compute; reflexivity|]. split; [vm_compute; reflexivity|].
  split; [vm_compute; reflexivity|discriminate].
Qed.

Example C05_keep_going_nonvacuous :
  exists cf decls r r' b,
    graph_wf (cf_graph cf) /\ reachable cf decls r /\ accept1 cf r (EReturn (Some false)) = Some r' /\
    rs_ctl r = CIdle /\ (b < length (g_builds (cf_graph cf)))%nat /\ get_state (rs_bs r) b <> Unknown /\
    (* the third disjunct of the conclusion is the one that holds for b *)
    get_state (rs_bs r) b = Want /\ get_state (rs_bs r) 1 = Done /\ get_state (rs_bs r) 0 = Failed.
Proof.
  exists dv_cf, [], dv_failed0. eexists. exists 2.
  split; [exact dv_graph_wf|]. split; [exact dv_failed0_reachable|].
  split; [vm_compute; reflexivity|]. split; [vm_compute; reflexivity|].
  split; [cbn; lia|]. split; [vm_compute; discriminate|].
  split; [|split]; vm_compute; reflexivity.
Qed.

Definition dv_before_return : rstate := after dv_cf dv_r0 (removelast dv_run).
Lemma dv_before_return_reachable : reachable dv_cf [] dv_before_return.
Proof. apply after_reachable; [exact dv_reachable|vm_compute; reflexivity]. Qed.

Example C05_exit_status_nonvacuous :
  exists cf decls r r' b,
    graph_wf (cf_graph cf) /\ reachable cf decls r /\ accept1 cf r (EReturn (Some true)) = Some r' /\
    get_state (rs_bs r) b <> Unknown /\ (b < length (g_builds (cf_graph cf)))%nat /\
    (* three steps were wanted and have run *) rs_tasks_run r = 3.
Proof.
  exists dv_cf, [], dv_before_return. eexists. exists 2.
  split; [exact dv_graph_wf|]. split; [exact dv_before_return_reachable|].
  split; [vm_compute; reflexivity|]. split; [vm_compute; discriminate|]. split; [cbn; lia|].
  vm_compute; reflexivity.
Qed.

(* the failure budget: -k 1 *)
Definition dv_budget : rstate :=
  after dv_cf (run_init dv_s0 (Some 1))
        (full_evs 1 ++ [ESet 0 Want Ready] ++
         [EPopReady 0; EVerdict 0 VDirty; ESet 0 Ready Queued; ESet 0 Queued Running; EStart 0; EFinish 0 TFailure]).
Lemma dv_budget_reachable : reachable dv_cf [] dv_budget.
Proof.
  apply after_reachable; [|vm_compute; reflexivity].
  apply reach_init. eapply w_step with (l := []) (f := 0); [apply w_refl|vm_compute; reflexivity].
Qed.

Example C05_budget_nonvacuous :
  exists cf decls r b x e r',
    reachable cf decls r /\
    (rs_ctl r = CFinished b TInterrupted x \/ (rs_ctl r = CFinished b TFailure x /\ rs_failures_left r = Some 1%nat)) /\
    accept1 cf r e = Some r' /\
    (* the ordinary continuation is refused *) accept1 cf r (ESet b Running Failed) = None.
Proof.
  exists dv_cf, [], dv_budget, 0, false, (EReturn (Some false)). eexists.
  split; [exact dv_budget_reachable|].
  split; [right; split; vm_compute; reflexivity|]. split; vm_compute; reflexivity.
Qed.

(* ------------------------------------------------------------------------------------ *)
(* C06: the want traversal, progress                                                      *)

Example C06_want_terminates_nonvacuous :
  exists g decls s f l,
    graph_wf g /\ BInv g decls s /\
    (* three steps are visited, one of them twice *)
    exists s' l' rdy, want_file (want_fuel g) g (s, l) [] f = Ok ((s', l'), rdy) /\ length l' = 4.
Proof.
  exists double_visit_graph, [], (bs_new 3 []), 0, [].
  split; [exact dv_graph_wf|]. split; [exact (bs_new_BInv double_visit_graph [])|].
  do 3 eexists. split; vm_compute; reflexivity.
Qed.

(* a genuine cycle of ordering edges: 0: f1 -> f0, 1: f0 -> f1 *)
Definition cyc_graph : graph :=
  mkGraph [mkBuild [1] 1 0 0 [0] false None; mkBuild [0] 1 0 0 [1] false None]
          [mkFile (bs "a") (Some 0) [1]; mkFile (bs "b") (Some 1) [0]].

Lemma cyc_graph_wf : graph_wf cyc_graph.
Proof.
  split.
  - intros f b H. destruct f as [|[|f]]; cbn in H; try (inversion H; subst; cbn; lia).
    unfold file_input in H. cbn in H. destruct f; discriminate H.
  - intros b f L I. destruct b as [|[|b]]; cbn in L, I |- *; try lia; destruct I as [<-|[]]; lia.
Qed.

Example C06_cycle_message_is_cycle_nonvacuous :
  exists g decls s l f m,
    graph_wf g /\ BInv g decls s /\ want_file (want_fuel g) g (s, l) [] f = Err m /\
    m = bs "dependency cycle: a -> b -> a".
Proof.
  exists cyc_graph, [], (bs_new 2 []), [], 0. eexists.
  split; [exact cyc_graph_wf|]. split; [exact (bs_new_BInv cyc_graph [])|].
  split; vm_compute; reflexivity.
Qed.

Example C06_progress_nonvacuous :
  exists cf decls r,
    graph_wf (cf_graph cf) /\ (1 <= cf_parallelism cf)%nat /\ reachable cf decls r /\ rs_ctl r = CIdle /\
    (0 < bs_pending (rs_bs r))%Z /\ rs_running r = 0%nat /\ rs_failed r = 0%nat /\
    (* only the third disjunct holds: something must be promoted *)
    bs_ready (rs_bs r) = [] /\ some_startable (rs_bs r) = false /\
    some_promotable (cf_graph cf) (rs_bs r) = true.
Proof.
  exists dv_cf, [], dv_after1.
  split; [exact dv_graph_wf|]. split; [cbn; lia|]. split; [exact dv_after1_reachable|].
  split; [vm_compute; reflexivity|]. split; [vm_compute; reflexivity|].
  repeat split; vm_compute; reflexivity.
Qed.

Example C06_no_deadlock_nonvacuous :
  exists cf decls r n,
    (1 <= cf_parallelism cf)%nat /\ reachable cf decls r /\ rs_ctl r = CIdle /\
    (0 < bs_pending (rs_bs r))%Z /\ rs_running r = 0%nat /\ rs_failed r = 0%nat /\ n = 0.
Proof.
  exists dv_cf, [], dv_after1, 0.
  split; [cbn; lia|]. split; [exact dv_after1_reachable|].
  repeat split; vm_compute; reflexivity.
Qed.

Example C06_ok_acyclic_nonvacuous :
  exists g decls s s',
    graph_wf g /\ BInv g decls s /\ acyclic_wanted g s /\ wanted g s s' /\
    get_state s' 0 = Want /\ get_state s' 1 = Ready /\ get_state s' 2 = Want.
Proof.
  exists double_visit_graph, [], (bs_new 3 []), dv_s0.
  split; [exact dv_graph_wf|]. split; [exact (bs_new_BInv double_visit_graph [])|].
  split.
  - exists (fun _ => 0). intros b p H. exfalso. apply H.
    unfold get_state. cbn. destruct b as [|[|[|[|b]]]]; reflexivity.
  - split; [eapply w_step with (l := []) (f := 0); [apply w_refl|vm_compute; reflexivity]|].
    repeat split; vm_compute; reflexivity.
Qed.

(* ------------------------------------------------------------------------------------ *)
(* C18: the wanted set                                                                    *)

Example C18_wanted_is_closure_nonvacuous :
  exists g decls s l ts s' l',
    graph_wf g /\ BInv g decls s /\ want_targets g (s, l) ts = Ok (s', l') /\
    (* steps 0 1 2 are needed by target f2, step 3 is not *)
    get_state s' 0 = Ready /\ get_state s' 1 = Ready /\ get_state s' 2 = Want /\ get_state s' 3 = Unknown /\
    (3 < length (g_builds g))%nat.
Proof.
  exists pl_graph, pl_decls, (bs_new 4 pl_decls), [], [2]. do 2 eexists.
  split; [exact pl_graph_wf|]. split; [exact (bs_new_BInv pl_graph pl_decls)|].
  split; [vm_compute; reflexivity|].
  split; [vm_compute; reflexivity|]. split; [vm_compute; reflexivity|]. split; [vm_compute; reflexivity|].
  split; [vm_compute; reflexivity|cbn; lia].
Qed.

Example C18_nothing_outside_runs_nonvacuous :
  exists cf decls s fl tr r b,
    graph_wf (cf_graph cf) /\ wanted (cf_graph cf) (bs_new (length (g_builds (cf_graph cf))) decls) s /\
    accepts cf (run_init s fl) tr = Some r /\ (0 < starts_of b tr)%nat /\
    (* there is a step outside *) get_state s 3 = Unknown.
Proof.
  exists pl_cf, pl_decls, pl_s0, None, pl_evs. eexists. exists 0.
  split; [exact pl_graph_wf|]. split; [exact pl_wanted|].
  split; [vm_compute; reflexivity|]. split; [vm_compute; lia|vm_compute; reflexivity].
Qed.

Example C18_nothing_outside_runs_reachable_nonvacuous :
  exists cf decls r tr r' b,
    graph_wf (cf_graph cf) /\ reachable cf decls r /\ accepts cf r tr = Some r' /\ (0 < starts_of b tr)%nat /\
    (* there is a step outside, and examining it is refused *)
    get_state (rs_bs r) 3 = Unknown /\ accept1 cf r (EPopReady 3) = None.
Proof.
  exists pl_cf, pl_decls, pl_r0, pl_evs. eexists. exists 0.
  split; [exact pl_graph_wf|]. split; [exact pl_reachable|].
  split; [vm_compute; reflexivity|]. split; [vm_compute; lia|]. split; vm_compute; reflexivity.
Qed.

Example C18_wanted_set_fixed_nonvacuous :
  exists cf decls r tr r' b,
    graph_wf (cf_graph cf) /\ reachable cf decls r /\ accepts cf r tr = Some r' /\
    get_state (rs_bs r') b = Unknown /\ get_state (rs_bs r') 0 = Running.
Proof.
  exists pl_cf, pl_decls, pl_r0, pl_evs. eexists. exists 3.
  split; [exact pl_graph_wf|]. split; [exact pl_reachable|].
  split; [vm_compute; reflexivity|]. split; vm_compute; reflexivity.
Qed.

(* ------------------------------------------------------------------------------------ *)
(* C19: counters                                                                          *)

Example C19_update_is_census_nonvacuous :
  exists cf decls r c r',
    graph_wf (cf_graph cf) /\ reachable cf decls r /\ accept1 cf r (EUpdate c) = Some r' /\
    (* one step waits, one is queued, one runs; any other counter value is refused *)
    c = mkC6 1 0 1 1 0 0 /\ accept1 cf r (EUpdate (mkC6 1 0 0 2 0 0)) = None.
Proof.
  exists pl_cf, pl_decls, pl_full, (mkC6 1 0 1 1 0 0). eexists.
  split; [exact pl_graph_wf|]. split; [exact pl_full_reachable|].
  split; [vm_compute; reflexivity|]. split; [reflexivity|vm_compute; reflexivity].
Qed.

Example C19_running_nonvacuous :
  exists cf decls r,
    graph_wf (cf_graph cf) /\ reachable cf decls r /\ rs_ctl r = CIdle /\ rs_running r = 1.
Proof.
  exists pl_cf, pl_decls, pl_full.
  split; [exact pl_graph_wf|]. split; [exact pl_full_reachable|]. split; vm_compute; reflexivity.
Qed.

Example C19_tasks_run_nonvacuous :
  exists cf s fl tr r,
    accepts cf (run_init s fl) tr = Some r /\
    (* a success whose ESet Running Done is still to come *)
    pending_success (rs_ctl r) = 1 /\ succ_finishes tr = 1 /\ rs_tasks_run r = 0.
Proof.
  exists dv_cf, dv_s0, None, (firstn 6 (full_evs 1)). eexists.
  split; [vm_compute; reflexivity|]. repeat split; vm_compute; reflexivity.
Qed.

Example C19_tasks_run_eq_nonvacuous :
  exists cf s fl tr r,
    accepts cf (run_init s fl) tr = Some r /\ (forall b x, rs_ctl r <> CFinished b TSuccess x) /\
    rs_tasks_run r = 3.
Proof.
  exists dv_cf, dv_s0, None, dv_run. eexists.
  split; [vm_compute; reflexivity|]. split; [intros b x; vm_compute; discriminate|vm_compute; reflexivity].
Qed.

Example C19_finished_monotone_nonvacuous :
  exists cf decls r e r',
    graph_wf (cf_graph cf) /\ reachable cf decls r /\ accept1 cf r e = Some r' /\
    (* strict increase *)
    (k_done (census (cf_graph cf) (rs_bs r)) + 1 = k_done (census (cf_graph cf) (rs_bs r')))%Z.
Proof.
  exists dv_cf, [], (after dv_cf dv_r0 (firstn 7 (full_evs 1))), (ESet 1 Running Done). eexists.
  split; [exact dv_graph_wf|].
  split; [apply after_reachable; [exact dv_reachable|vm_compute; reflexivity]|].
  split; vm_compute; reflexivity.
Qed.

(* ------------------------------------------------------------------------------------ *)
(* C04: an undeclared pool, in a reachable state                                          *)

Definition up_graph : graph :=
  mkGraph [mkBuild [] 0 0 0 [0] false (Some (bs "nope"))] [mkFile (bs "f0") (Some 0) []].
Definition up_cf : config := mkConfig up_graph 1 false.
Definition up_s0 : bstates :=
  match want_targets up_graph (bs_new 1 [], []) [0] with Ok (s, _) => s | _ => bs_new 1 [] end.
Definition up_r : rstate := after up_cf (run_init up_s0 None) [EPopReady 0; EVerdict 0 VDirty].

Lemma up_r_reachable : reachable up_cf [] up_r.
Proof.
  apply after_reachable; [|vm_compute; reflexivity].
  apply reach_init. eapply w_step with (l := []) (f := 0); [apply w_refl|vm_compute; reflexivity].
Qed.

Example C04_unknown_pool_is_error_nonvacuous :
  exists cf r b r',
    accept1 cf r (ESet b Ready Queued) = Some r' /\
    pool_find (bs_pools (rs_bs r)) (pool_name (get_build (cf_graph cf) b)) = None /\
    (* in a reachable state *) reachable cf [] r /\ accept1 cf r' (EReturn None) <> None.
Proof.
  exists up_cf, up_r, 0. eexists.
  split; [vm_compute; reflexivity|]. split; [vm_compute; reflexivity|].
  split; [exact up_r_reachable|vm_compute; discriminate].
Qed.

(* ------------------------------------------------------------------------------------ *)
(* C06 / C18: target selection by name                                                    *)

Example C18_want_main_is_closure_nonvacuous :
  exists g decls defaults manifest adopt names s l s' l',
    graph_wf g /\ BInv g decls s /\ want_main g defaults manifest adopt names (s, l) = Ok (s', l') /\
    names = [bs "f2"; bs "./x/../f2"] /\ get_state s' 2 = Want /\ get_state s' 3 = Unknown.
Proof.
  exists pl_graph, pl_decls, [3], None, false, [bs "f2"; bs "./x/../f2"], (bs_new 4 pl_decls), []. do 2 eexists.
  split; [exact pl_graph_wf|]. split; [exact (bs_new_BInv pl_graph pl_decls)|].
  split; [vm_compute; reflexivity|]. split; [reflexivity|]. split; vm_compute; reflexivity.
Qed.

Example C18_want_named_is_closure_nonvacuous :
  exists g decls manifest adopt names s l s' l',
    graph_wf g /\ BInv g decls s /\ want_named g manifest adopt names (s, l) = Ok (s', l') /\
    (* the manifest's own file is skipped *) manifest = Some 3 /\ names = [bs "f3"; bs "f0"] /\
    get_state s' 0 = Ready /\ get_state s' 3 = Unknown.
Proof.
  exists pl_graph, pl_decls, (Some 3), false, [bs "f3"; bs "f0"], (bs_new 4 pl_decls), []. do 2 eexists.
  split; [exact pl_graph_wf|]. split; [exact (bs_new_BInv pl_graph pl_decls)|].
  split; [vm_compute; reflexivity|]. repeat split; vm_compute; reflexivity.
Qed.

Example C18_unknown_target_rejected_nonvacuous :
  exists g manifest names ts,
    select_named g manifest false names = Ok ts /\ names = [bs "f1"; bs "f2"] /\ ts = [1; 2] /\
    (* and an unknown name IS rejected *)
    select_named g manifest false [bs "f1"; bs "nope"] = Err (bs "unknown path requested: nope").
Proof.
  exists pl_graph, None, [bs "f1"; bs "f2"], [1; 2]. repeat split; vm_compute; reflexivity.
Qed.

Example C06_want_main_terminates_nonvacuous :
  exists g decls s defaults manifest adopt names l,
    graph_wf g /\ BInv g decls s /\
    (* no names, no defaults: every file is a target *)
    names = [] /\ defaults = [] /\
    exists s' l', want_main g defaults manifest adopt names (s, l) = Ok (s', l') /\ bs_pending s' = 4%Z.
Proof.
  exists pl_graph, pl_decls, (bs_new 4 pl_decls), [], None, false, [], [].
  split; [exact pl_graph_wf|]. split; [exact (bs_new_BInv pl_graph pl_decls)|].
  split; [reflexivity|]. split; [reflexivity|]. do 2 eexists. split; vm_compute; reflexivity.
Qed.

Example C19_total_nonvacuous :
  exists cf decls r,
    graph_wf (cf_graph cf) /\ reachable cf decls r /\
    count_wanted_nonphony (cf_graph cf) (rs_bs r) = 3 /\ length (g_builds (cf_graph cf)) = 4.
Proof.
  exists pl_cf, pl_decls, pl_full.
  split; [exact pl_graph_wf|]. split; [exact pl_full_reachable|]. split; vm_compute; reflexivity.
Qed.
