(* The run-loop theorems with the two want-traversal premises discharged
   (SchedWantInv.v): only [graph_wf (cf_graph cf)] remains. *)
From Coq Require Import Lia ZArith List Bool Arith.
From N2 Require Import Model.All Proofs.SchedSpec Proofs.SchedInv Proofs.SchedRunBase
     Proofs.SchedRunStep Proofs.SchedRunCore Proofs.SchedRunAux Proofs.SchedRunRInv
     Proofs.SchedRunThms Proofs.SchedWantInv.
Import ListNotations.

Section Final.
Variable cf : config.
Variable decls : list (bytes * nat).
Hypothesis Hwf : graph_wf (cf_graph cf).
Notation g := (cf_graph cf).
Notation nb := (length (g_builds (cf_graph cf))).

Let HB := wanted_preserves_BInv_holds (cf_graph cf) decls Hwf.
Let HF := wanted_frame_holds (cf_graph cf) Hwf.

Theorem reachable_RInv_closed r : reachable cf decls r -> RInv cf decls r.
Proof. exact (reachable_RInv cf decls HB HF r). Qed.

Theorem reachable_BInv_closed r :
  reachable cf decls r ->
  (rs_ctl r = CIdle \/ (exists b, rs_ctl r = CStarting b) \/
   (exists b t x, rs_ctl r = CFinished b t x) \/ (exists ok, rs_ctl r = CReturned (Some ok))) ->
  BInv g decls (rs_bs r).
Proof. exact (reachable_BInv cf decls HB HF r). Qed.

Theorem C01_started_after_producers_closed r b r' :
  reachable cf decls r -> accept1 cf r (EStart b) = Some r' ->
  forall p, ord_reach g b p -> get_state (rs_bs r') p = Done.
Proof. exact (C01_started_after_producers cf decls HB HF r b r'). Qed.

Theorem C01_done_is_final_closed r tr r' p :
  reachable cf decls r -> accepts cf r tr = Some r' ->
  get_state (rs_bs r) p = Done -> get_state (rs_bs r') p = Done.
Proof. exact (C01_done_is_final cf decls HB HF r tr r' p). Qed.

Theorem C05_failed_is_final_closed r tr r' p :
  reachable cf decls r -> accepts cf r tr = Some r' ->
  get_state (rs_bs r) p = Failed -> get_state (rs_bs r') p = Failed.
Proof. exact (C05_failed_is_final cf decls HB HF r tr r' p). Qed.

Theorem C01_at_most_once_closed s fl tr r b :
  wanted g (bs_new nb decls) s -> accepts cf (run_init s fl) tr = Some r -> starts_of b tr <= 1.
Proof. exact (C01_at_most_once cf decls HB HF s fl tr r b). Qed.

Theorem C01_at_most_once_reachable_closed r tr r' b :
  reachable cf decls r -> accepts cf r tr = Some r' -> starts_of b tr <= 1.
Proof. exact (C01_at_most_once_reachable cf decls HB HF r tr r' b). Qed.

Theorem C04_parallelism_closed r : reachable cf decls r -> rs_running r <= cf_parallelism cf.
Proof. exact (C04_parallelism cf decls HB HF r). Qed.

Theorem C04_running_census_closed r :
  reachable cf decls r ->
  run_count_ok (rs_ctl r) (rs_running r) (count_state g (rs_bs r) Running false).
Proof. exact (C04_running_census cf decls HB HF r). Qed.

Theorem C04_running_census_idle_closed r :
  reachable cf decls r ->
  (rs_ctl r = CIdle \/ (exists b, rs_ctl r = CChecking b) \/ (exists b v x, rs_ctl r = CVerdict b v x)) ->
  Z.of_nat (rs_running r) = count_state g (rs_bs r) Running false.
Proof. exact (C04_running_census_idle cf decls HB HF r). Qed.

Theorem C04_failed_census_closed r :
  reachable cf decls r -> Z.of_nat (rs_failed r) = count_state g (rs_bs r) Failed false.
Proof. exact (C04_failed_census cf decls HB HF r). Qed.

Theorem C04_pool_depth_closed r :
  reachable cf decls r -> forall p, In p (bs_pools (rs_bs r)) -> 0 < p_depth p ->
  (running_in_pool g (rs_bs r) (p_name p) <= Z.of_nat (p_depth p))%Z.
Proof. exact (C04_pool_depth cf decls HB HF r). Qed.

Theorem C05_no_start_downstream_of_failure_closed r f b tr r' :
  reachable cf decls r -> get_state (rs_bs r) f = Failed -> ord_reach g b f ->
  accepts cf r tr = Some r' -> starts_of b tr = 0.
Proof. exact (C05_no_start_downstream_of_failure cf decls HB HF r f b tr r'). Qed.

Theorem C05_exit_status_closed r r' :
  reachable cf decls r -> accept1 cf r (EReturn (Some true)) = Some r' ->
  forall b, get_state (rs_bs r) b <> Unknown -> b < nb -> get_state (rs_bs r) b = Done.
Proof. exact (C05_exit_status cf decls HB HF r r'). Qed.

Theorem C19_update_is_census_closed r c r' :
  reachable cf decls r -> accept1 cf r (EUpdate c) = Some r' -> c = census g (rs_bs r).
Proof. exact (C19_update_is_census cf decls HB HF r c r'). Qed.

Theorem C19_running_closed r :
  reachable cf decls r -> rs_ctl r = CIdle ->
  k_running (bs_counts (rs_bs r)) = Z.of_nat (rs_running r).
Proof. exact (C19_running cf decls HB HF r). Qed.

Theorem C19_finished_monotone_closed r e r' :
  reachable cf decls r -> accept1 cf r e = Some r' ->
  (k_done (census g (rs_bs r)) + k_failed (census g (rs_bs r)) <=
   k_done (census g (rs_bs r')) + k_failed (census g (rs_bs r')))%Z.
Proof. exact (C19_finished_monotone cf decls HB HF r e r'). Qed.

End Final.
