(* C10, loader half: a concrete manifest through load_manifest (vm_compute witness) - a pool, two
   rules, a step with all four input kinds and an implicit output, a step in a pool with a response
   file, a default; every name in its declared role. *)
From Coq Require Import String.
From N2 Require Import Model.All Proofs.EvalFiles.

Definition ex_manifest : bytes :=
  ln "builddir = out" (ln "cflags = -O2"
  (ln "pool link_pool" (ln "  depth = 2"
  (ln "rule cc" (ln "  command = gcc $cflags -c $in -o $out" (ln "  description = CC $out"
    (ln "  depfile = $out.d" (ln "  deps = gcc"
  (ln "rule link" (ln "  command = ld @$out.rsp -o $out" (ln "  rspfile = $out.rsp"
    (ln "  rspfile_content = $in_newline" (ln "  pool = link_pool"
  (ln "build $builddir/a.o | $builddir/a.lst: cc src/a.c | inc/a.h inc/b.h || gen/stamp |@ check/a"
    (ln "  cflags = -O0"
  (ln "build ${builddir}/app: link $builddir/a.o ./lib/../lib/z.a"
  (ln "default $builddir/app" []))))))))))))))))).

Lemma ex_manifest_graph :
  exists l b0 b1,
    load_manifest true 5 [] (bs "build.ninja") ex_manifest = Ok l /\
    l_builds l = [b0; b1] /\
    (* step 0: inputs by role, outputs by role, attributes *)
    lb_line b0 = 15%Z /\ lb_file b0 = bs "build.ninja" /\
    map (file_nm l) (lb_ins b0) = [bs "src/a.c"; bs "inc/a.h"; bs "inc/b.h"; bs "gen/stamp"; bs "check/a"] /\
    lb_explicit_ins b0 = 1 /\ lb_implicit_ins b0 = 2 /\ lb_order_only_ins b0 = 1 /\
    map (file_nm l) (lb_outs b0) = [bs "out/a.o"; bs "out/a.lst"] /\ lb_explicit_outs b0 = 1 /\
    lb_cmdline b0 = Some (bs "gcc -O0 -c src/a.c -o out/a.o") /\
    lb_desc b0 = Some (bs "CC out/a.o") /\ lb_depfile b0 = Some (bs "out/a.o.d") /\
    lb_showincludes b0 = false /\ lb_rspfile b0 = None /\ lb_pool b0 = None /\
    (* step 1 *)
    lb_line b1 = 17%Z /\
    map (file_nm l) (lb_ins b1) = [bs "out/a.o"; bs "lib/z.a"] /\
    lb_explicit_ins b1 = 2 /\ lb_implicit_ins b1 = 0 /\ lb_order_only_ins b1 = 0 /\
    map (file_nm l) (lb_outs b1) = [bs "out/app"] /\ lb_explicit_outs b1 = 1 /\
    lb_cmdline b1 = Some (bs "ld @out/app.rsp -o out/app") /\
    lb_rspfile b1 = Some (bs "out/app.rsp", bs "out/a.o" ++ [10%N] ++ bs "lib/z.a") /\
    lb_pool b1 = Some (bs "link_pool") /\ lb_desc b1 = None /\ lb_depfile b1 = None /\
    (* pools, defaults, builddir *)
    l_pools l = [(bs "link_pool", 2%N)] /\
    map (file_nm l) (l_defaults l) = [bs "out/app"] /\
    l_builddir l = Some (bs "out") /\ l_warnings l = [].
Proof.
  eexists. eexists. eexists. split; [vm_compute; reflexivity|].
  split; [reflexivity|]. vm_compute. repeat split.
Qed.

(* the same step from the declaration alone: [decl_view] (LoadGraphNames.v) on the abstract `build`
   statement, the file-level variables and the rule table gives the view of step 0 above *)
From N2 Require Import Proofs.LoadGraphBuild Proofs.LoadGraphNames.

Definition ex_cc_rule : varlist :=
  [ (bs "command", [Lit (bs "gcc "); Var (bs "cflags"); Lit (bs " -c "); Var (bs "in"); Lit (bs " -o "); Var (bs "out")]);
    (bs "description", [Lit (bs "CC "); Var (bs "out")]);
    (bs "depfile", [Var (bs "out"); Lit (bs ".d")]);
    (bs "deps", [Lit (bs "gcc")]) ].

Definition ex_cc_build : pbuild :=
  mkPBuild (bs "cc") 15
           [[Var (bs "builddir"); Lit (bs "/a.o")]; [Var (bs "builddir"); Lit (bs "/a.lst")]] 1
           [[Lit (bs "src/a.c")]; [Lit (bs "inc/a.h")]; [Lit (bs "inc/b.h")]; [Lit (bs "gen/stamp")]; [Lit (bs "check/a")]]
           1 2 1 1
           [(bs "cflags", [Lit (bs "-O0")])].

Example ex_decl_view :
  decl_view (bs "build.ninja") ex_cc_build [(bs "builddir", bs "out"); (bs "cflags", bs "-O2")]
            [(bs "phony", []); (bs "cc", ex_cc_rule)] =
  Some (mkView (bs "build.ninja") 15
               [bs "src/a.c"; bs "inc/a.h"; bs "inc/b.h"; bs "gen/stamp"; bs "check/a"] 1 2 1
               [bs "out/a.o"; bs "out/a.lst"] 1
               (Some (bs "gcc -O0 -c src/a.c -o out/a.o")) (Some (bs "CC out/a.o")) (Some (bs "out/a.o.d"))
               false None None false false).
Proof. vm_compute. reflexivity. Qed.

Example ex_view_agrees :
  match load_manifest true 5 [] (bs "build.ninja") ex_manifest with
  | Ok l => option_map (view l) (nth_error (l_builds l) 0)
  | _ => None
  end =
  decl_view (bs "build.ninja") ex_cc_build [(bs "builddir", bs "out"); (bs "cflags", bs "-O2")]
            [(bs "phony", []); (bs "cc", ex_cc_rule)].
Proof. vm_compute. reflexivity. Qed.
