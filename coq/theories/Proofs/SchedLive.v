(* Liveness-flavoured theorems of the run loop (C05 keep-going, C06 progress / no deadlock,
   C18 nothing outside the wanted set runs, C19 total): consequences of RInv / BInv and of the
   acyclicity of the wanted part of the graph. *)
From Coq Require Import Lia ZArith List Bool Arith.
From N2 Require Import Model.All Proofs.SchedSpec Proofs.SchedInv Proofs.SchedRunBase
     Proofs.SchedRunStep Proofs.SchedRunCore Proofs.SchedRunAux Proofs.SchedRunRInv
     Proofs.SchedRunThms Proofs.SchedRunFinal Proofs.SchedWantInv Proofs.SchedWantCycle.
Import ListNotations.

(* ------------------------------------------------------------------------------------ *)
(* small list facts *)

Lemma forallb_false_exists {A} (f : A -> bool) l :
  forallb f l = false -> exists x, In x l /\ f x = false.
Proof.
  induction l as [|a l IH]; cbn [forallb]; [discriminate|].
  destruct (f a) eqn:E; cbn [andb].
  - intro H. destruct (IH H) as (x & I & Hx). exists x. split; [now right|exact Hx].
  - intros _. exists a. split; [now left|exact E].
Qed.

Lemma count_state_pos g s st :
  (0 < count_state g s st false)%Z -> exists b, b < length (g_builds g) /\ get_state s b = st.
Proof.
  unfold count_state, indices. intro H.
  destruct (filter _ _) as [|b l] eqn:E; [cbn in H; lia|].
  assert (I : In b (b :: l)) by now left.
  rewrite <- E in I. apply filter_In in I. destruct I as [I Hb].
  apply in_seq in I. apply andb_true_iff in Hb. destruct Hb as [Hb _].
  apply bstate_eqb_eq in Hb. exists b. split; [lia|exact Hb].
Qed.

(* acyclicity only depends on which steps have a state *)
Lemma acyclic_wanted_known g s s' :
  (forall x, get_state s' x <> Unknown -> get_state s x <> Unknown) ->
  acyclic_wanted g s -> acyclic_wanted g s'.
Proof.
  intros H [rank Hr]. exists rank. intros b p Hb Hp. apply (Hr b p); [now apply H|exact Hp].
Qed.

Lemma ordering_any_producer g b p : ordering_producer g b p -> any_producer g b p.
Proof. intros (f & I & E). exists f. split; [now apply ordering_ins_incl|exact E]. Qed.

Lemma census_total g s :
  (k_want (census g s) + k_ready (census g s) + k_queued (census g s) +
   k_running (census g s) + k_done (census g s) + k_failed (census g s))%Z
  = Z.of_nat (count_wanted_nonphony g s).
Proof.
  unfold census, count_state, count_wanted_nonphony. cbn [k_want k_ready k_queued k_running k_done k_failed].
  generalize (indices (g_builds g)). intro l.
  induction l as [|a l IH]; [reflexivity|].
  cbn [filter]. destruct (get_state s a); destruct (b_phony (get_build g a));
    cbn [bstate_eqb negb andb orb length] in IH |- *; lia.
Qed.

(* ------------------------------------------------------------------------------------ *)

Section Live.
Variable cf : config.
Variable decls : list (bytes * nat).
Hypothesis Hwf : graph_wf (cf_graph cf).
Notation g := (cf_graph cf).
Notation nb := (length (g_builds (cf_graph cf))).

(* the run loop never gives a state to a step without one, nor takes one away *)
Lemma step_known r e r' x :
  RInv cf decls r -> step cf r e r' ->
  (get_state (rs_bs r') x <> Unknown <-> get_state (rs_bs r) x <> Unknown).
Proof.
  intros Hinv Hs.
  destruct (step_shape cf decls r e r' Hinv Hs) as [Same|(b & st & L & T & Gb & U & _)];
    [rewrite Same; tauto|].
  destruct (Nat.eq_dec x b) as [->|Ne]; [|rewrite (U x Ne); tauto].
  rewrite Gb. unfold trans_ok in T.
  destruct T as [[E ->]|[[E ->]|[[E ->]|[[E ->]|[[E ->]|[E ->]]]]]]; rewrite E;
    split; intros _; discriminate.
Qed.

Lemma accepts_known x : forall tr r r',
  RInv cf decls r -> accepts cf r tr = Some r' ->
  (get_state (rs_bs r') x <> Unknown <-> get_state (rs_bs r) x <> Unknown).
Proof.
  induction tr as [|e tr IH]; intros r r' Hinv H; cbn [accepts] in H.
  - inversion H; subst. tauto.
  - destruct (accept1 cf r e) as [r1|] eqn:E1; [|discriminate].
    pose proof (accept1_step cf r e r1 E1) as Hs.
    rewrite (IH r1 r' (step_RInv cf decls r e r1 Hinv Hs) H).
    exact (step_known r e r1 x Hinv Hs).
Qed.

(* A1 *)
Theorem reachable_acyclic r : reachable cf decls r -> acyclic_wanted g (rs_bs r).
Proof.
  induction 1 as [s fl W|r e r' Hr IH Ha|r s fl Hr IH Hc W]; cbn [run_init rs_bs].
  - apply (C06_ok_acyclic g decls (bs_new nb decls) s Hwf); [apply bs_new_BInv|apply bs_new_acyclic|exact W].
  - apply (acyclic_wanted_known g (rs_bs r) (rs_bs r')); [|exact IH].
    intros x Hx.
    apply (step_known r e r' x (reachable_RInv_closed cf decls Hwf r Hr) (accept1_step cf r e r' Ha)).
    exact Hx.
  - apply (C06_ok_acyclic g decls (rs_bs r) s Hwf); [|exact IH|exact W].
    apply (reachable_BInv_closed cf decls Hwf r Hr). right. right. right. exists true. exact Hc.
Qed.

(* ------------------------------------------------------------------------------------ *)
(* what an idle scheduler with no running task can still do *)

Definition can_progress (s : bstates) : Prop :=
  bs_ready s <> [] \/ some_startable s = true \/ some_promotable g s = true.

Section Idle.
Variable s : bstates.
Hypothesis B : BInv g decls s.
Variable rank : nat -> nat.
Hypothesis Hr : forall b p, get_state s b <> Unknown -> ordering_producer g b p -> rank p < rank b.
Hypothesis Hnorun : forall b, b < nb -> get_state s b <> Running.

Lemma idle_ready b : b < nb -> get_state s b = Ready -> can_progress s.
Proof.
  intros L E. left. intro Hn.
  assert (I : In b (bs_ready s)) by (apply (proj2 (bi_ready _ _ _ B)); auto).
  rewrite Hn in I. destruct I.
Qed.

Lemma idle_queued b : b < nb -> get_state s b = Queued -> can_progress s.
Proof.
  intros L E. right. left.
  destruct (bi_queued_in_pool _ _ _ B b L E) as (p & Ip & Hn & Iq).
  unfold some_startable. apply existsb_exists. exists p. split; [exact Ip|].
  apply andb_true_iff. split; [|destruct (p_queued p); [destruct Iq|reflexivity]].
  unfold pool_has_room. destruct (Nat.eqb_spec (p_depth p) 0) as [E0|E0]; [reflexivity|].
  cbn [orb]. apply Z.ltb_lt.
  rewrite (bi_pool_running _ _ _ B p Ip).
  rewrite (running_in_pool_zero_intro g s (p_name p) Hnorun). lia.
Qed.

(* a step in Want either can be promoted, or something else can be done, or it waits
   (transitively) for a failed step *)
Lemma idle_want : forall n b, rank b < n -> b < nb -> get_state s b = Want ->
  can_progress s \/ exists f, get_state s f = Failed /\ ord_reach g b f.
Proof.
  induction n as [|n IH]; intros b Hn L E; [lia|].
  destruct (producers_done g s (get_build g b)) eqn:PD.
  - left. right. right. unfold some_promotable. apply existsb_exists. exists b.
    split; [unfold indices; apply in_seq; lia|]. rewrite E, PD. reflexivity.
  - unfold producers_done in PD. apply forallb_false_exists in PD. destruct PD as (f & If & Hf).
    destruct (file_input g f) as [p|] eqn:Ef; [|discriminate].
    apply bstate_eqb_neq in Hf.
    assert (Hp : ordering_producer g b p) by (exists f; auto).
    assert (Lp : p < nb) by (apply (proj1 Hwf f p Ef)).
    assert (Kp : get_state s p <> Unknown).
    { apply (bi_closed _ _ _ B b p); [rewrite E; discriminate|now apply ordering_any_producer]. }
    assert (Rp : rank p < rank b) by (apply Hr; [rewrite E; discriminate|exact Hp]).
    destruct (get_state s p) eqn:Ep; try contradiction.
    + (* Want *)
      destruct (IH p) as [P|(f' & Ff & Rf)]; [lia|exact Lp|exact Ep| |].
      * now left.
      * right. exists f'. split; [exact Ff|]. eapply or_trans; eauto.
    + left. now apply (idle_ready p).
    + left. now apply (idle_queued p).
    + exfalso. now apply (Hnorun p Lp).
    + right. exists p. split; [exact Ep|]. now apply or_step.
Qed.

Lemma idle_cases b : b < nb -> get_state s b <> Unknown ->
  can_progress s \/ get_state s b = Done \/ get_state s b = Failed \/
  (get_state s b = Want /\ exists f, get_state s f = Failed /\ ord_reach g b f).
Proof.
  intros L K. destruct (get_state s b) eqn:E; try contradiction; auto.
  - destruct (idle_want (S (rank b)) b) as [P|X]; auto.
  - left. now apply (idle_ready b).
  - left. now apply (idle_queued b).
  - exfalso. now apply (Hnorun b L).
Qed.

End Idle.

(* facts about an idle reachable state *)
Lemma idle_norun r :
  reachable cf decls r -> rs_ctl r = CIdle -> rs_running r = 0 ->
  forall b, b < nb -> get_state (rs_bs r) b <> Running.
Proof.
  intros Hr Hc Hz. pose proof (reachable_RInv_closed cf decls Hwf r Hr) as Hinv.
  pose proof (ri_running _ _ _ Hinv) as Rn. rewrite Hc in Rn. cbn [run_count_ok run_shift] in Rn.
  apply count_state_zero. lia.
Qed.

Lemma idle_nofail r :
  reachable cf decls r -> rs_failed r = 0 -> forall b, get_state (rs_bs r) b <> Failed.
Proof.
  intros Hr Hz b E. pose proof (reachable_RInv_closed cf decls Hwf r Hr) as Hinv.
  pose proof (ri_failed _ _ _ Hinv) as Fl.
  assert (L : b < nb).
  { apply (BCore_range g decls _ b (ri_core _ _ _ Hinv)). rewrite E. discriminate. }
  apply (count_state_zero g (rs_bs r) Failed) with (b := b); [lia|exact L|exact E].
Qed.

(* A2 *)
Theorem C06_progress r :
  1 <= cf_parallelism cf -> reachable cf decls r -> rs_ctl r = CIdle ->
  (0 < bs_pending (rs_bs r))%Z -> rs_running r = 0 -> rs_failed r = 0 ->
  bs_ready (rs_bs r) <> [] \/ some_startable (rs_bs r) = true \/ some_promotable g (rs_bs r) = true.
Proof.
  intros _ Hr Hc Hp Hrun Hfail.
  assert (B : BInv g decls (rs_bs r)) by (apply (reachable_BInv_closed cf decls Hwf r Hr); now left).
  destruct (reachable_acyclic r Hr) as [rank Hrk].
  pose proof (idle_norun r Hr Hc Hrun) as NR.
  pose proof (idle_nofail r Hr Hfail) as NF.
  assert (Hb : exists b, b < nb /\ In (get_state (rs_bs r) b) [Want; Ready; Queued; Running]).
  { rewrite (bi_pending _ _ _ B) in Hp.
    pose proof (count_state_nonneg g (rs_bs r) Want false).
    pose proof (count_state_nonneg g (rs_bs r) Ready false).
    pose proof (count_state_nonneg g (rs_bs r) Queued false).
    pose proof (count_state_nonneg g (rs_bs r) Running false).
    assert (D : (0 < count_state g (rs_bs r) Want false \/ 0 < count_state g (rs_bs r) Ready false \/
                 0 < count_state g (rs_bs r) Queued false \/ 0 < count_state g (rs_bs r) Running false)%Z) by lia.
    destruct D as [D|[D|[D|D]]]; apply count_state_pos in D; destruct D as (b & L & E);
      exists b; (split; [exact L|]); rewrite E; cbn [In]; tauto. }
  destruct Hb as (b & L & Ib).
  assert (K : get_state (rs_bs r) b <> Unknown).
  { intro E. rewrite E in Ib. cbn [In] in Ib. intuition discriminate. }
  destruct (idle_cases (rs_bs r) B rank Hrk NR b L K) as [P|[E|[E|(E & f & Ff & _)]]].
  - exact P.
  - rewrite E in Ib. cbn [In] in Ib. intuition discriminate.
  - exfalso. exact (NF b E).
  - exfalso. exact (NF f Ff).
Qed.

(* A3, first half: the acceptor refuses a quiescent point where nothing runs and nothing failed *)
Theorem C06_no_deadlock r n :
  1 <= cf_parallelism cf -> reachable cf decls r -> rs_ctl r = CIdle ->
  (0 < bs_pending (rs_bs r))%Z -> rs_running r = 0 -> rs_failed r = 0 ->
  accept1 cf r (EQuiesce n) = None.
Proof.
  intros _ _ Hc _ Hrun Hfail.
  destruct (accept1 cf r (EQuiesce n)) as [r'|] eqn:E; [|reflexivity].
  apply accept1_step in E. inversion E; subst. lia.
Qed.

(* A4 *)
Theorem C05_keep_going r r' :
  reachable cf decls r -> accept1 cf r (EReturn (Some false)) = Some r' -> rs_ctl r = CIdle ->
  forall b, b < nb -> get_state (rs_bs r) b <> Unknown ->
    get_state (rs_bs r) b = Done \/ get_state (rs_bs r) b = Failed \/
    (get_state (rs_bs r) b = Want /\ exists f, get_state (rs_bs r) f = Failed /\ ord_reach g b f).
Proof.
  intros Hr Ha Hc b L K.
  assert (B : BInv g decls (rs_bs r)) by (apply (reachable_BInv_closed cf decls Hwf r Hr); now left).
  apply accept1_step in Ha. inversion Ha; subst; try congruence.
  match goal with H : _ \/ stuck_b cf r = true |- _ => destruct H as [P0|St] end.
  - (* nothing pending *)
    rewrite (bi_pending _ _ _ B) in P0.
    pose proof (count_state_nonneg g (rs_bs r) Want false).
    pose proof (count_state_nonneg g (rs_bs r) Ready false).
    pose proof (count_state_nonneg g (rs_bs r) Queued false).
    pose proof (count_state_nonneg g (rs_bs r) Running false).
    assert (W : count_state g (rs_bs r) Want false = 0%Z) by lia.
    assert (R : count_state g (rs_bs r) Ready false = 0%Z) by lia.
    assert (Q : count_state g (rs_bs r) Queued false = 0%Z) by lia.
    assert (U : count_state g (rs_bs r) Running false = 0%Z) by lia.
    pose proof (count_state_zero g (rs_bs r) _ W b L).
    pose proof (count_state_zero g (rs_bs r) _ R b L).
    pose proof (count_state_zero g (rs_bs r) _ Q b L).
    pose proof (count_state_zero g (rs_bs r) _ U b L).
    destruct (get_state (rs_bs r) b); auto; congruence.
  - unfold stuck_b in St.
    apply andb_true_iff in St. destruct St as [St NP].
    apply andb_true_iff in St. destruct St as [St NS].
    apply andb_true_iff in St. destruct St as [St RE].
    apply andb_true_iff in St. destruct St as [R0 _].
    apply Nat.eqb_eq in R0. apply negb_true_iff in NP. apply negb_true_iff in NS.
    destruct (reachable_acyclic r Hr) as [rank Hrk].
    pose proof (idle_norun r Hr Hc R0) as NR.
    destruct (idle_cases (rs_bs r) B rank Hrk NR b L K) as [[P|[P|P]]|X]; [| | |exact X].
    + destruct (bs_ready (rs_bs r)); [now contradiction P|discriminate].
    + congruence.
    + congruence.
Qed.

(* ------------------------------------------------------------------------------------ *)
(* A3, second half: in such a state some non-quiesce event is enabled (so the implementation's
   "BUG: no work to do and runner not running" cannot be reached) *)

Lemma bs_set_total_nopool s b bd st :
  get_state s b <> Unknown -> get_state s b <> Running -> st <> Running ->
  exists s', bs_set s b bd st = Ok s'.
Proof.
  intros K NR NS. unfold bs_set.
  apply bstate_eqb_neq in K. apply bstate_eqb_neq in NR. rewrite K, NR. cbn [bind].
  destruct st; try contradiction; cbn [bind]; eexists; reflexivity.
Qed.

Lemma bs_set_total_run s b bd :
  get_state s b = Queued -> pool_find (bs_pools s) (pool_name bd) <> None ->
  exists s', bs_set s b bd Running = Ok s'.
Proof.
  intros E F. unfold bs_set. rewrite E. cbn [bstate_eqb bind].
  destruct (pool_find (bs_pools s) (pool_name bd)) as [p|] eqn:EF; [|contradiction].
  destruct (pool_update_some (bs_pools s) (pool_name bd)
              (fun p => mkPool (p_name p) (p_queued p) (p_running p + 1) (p_depth p)) p EF) as [ps ->].
  cbn [bind]. eexists; reflexivity.
Qed.

Theorem C06_no_bug_panic r :
  1 <= cf_parallelism cf -> reachable cf decls r -> rs_ctl r = CIdle ->
  (0 < bs_pending (rs_bs r))%Z -> rs_running r = 0 -> rs_failed r = 0 ->
  exists e r', accept1 cf r e = Some r' /\
    exists b, e = EPopReady b \/ e = ESet b Queued Running \/ e = ESet b Want Ready.
Proof.
  intros Hpar Hr Hc Hp Hrun Hfail.
  assert (B : BInv g decls (rs_bs r)) by (apply (reachable_BInv_closed cf decls Hwf r Hr); now left).
  destruct (C06_progress r Hpar Hr Hc Hp Hrun Hfail) as [P|[P|P]].
  - (* a ready step can be examined *)
    destruct (bs_ready (rs_bs r)) as [|b q] eqn:ER; [contradiction|].
    assert (I : In b (bs_ready (rs_bs r))) by (rewrite ER; now left).
    apply (proj2 (bi_ready _ _ _ B)) in I. destruct I as [L E].
    exists (EPopReady b). eexists. split; [|exists b; now left].
    unfold accept1. rewrite Hc, E, ER. cbn [bstate_eqb negb remove_first]. rewrite Nat.eqb_refl.
    reflexivity.
  - (* a queued step can be started *)
    unfold some_startable in P. apply existsb_exists in P. destruct P as (p & Ip & Hp2).
    apply andb_true_iff in Hp2. destruct Hp2 as [Room Hq].
    destruct (p_queued p) as [|b q] eqn:EQ; [discriminate|].
    assert (Iq : In b (p_queued p)) by (rewrite EQ; now left).
    destruct (bi_pool_queued _ _ _ B p b Ip Iq) as [E Hn].
    assert (F : pool_find (bs_pools (rs_bs r)) (pool_name (get_build g b)) = Some p).
    { rewrite Hn. apply pool_find_of_In; [exact (bi_pool_names_nodup _ _ _ B)|exact Ip]. }
    destruct (pool_update_some (bs_pools (rs_bs r)) (pool_name (get_build g b))
                (fun p0 => mkPool (p_name p0) q (p_running p0) (p_depth p0)) p F) as [ps EU].
    destruct (bs_set_total_run
                (mkBS (bs_states (rs_bs r)) (bs_counts (rs_bs r)) (bs_pending (rs_bs r)) (bs_ready (rs_bs r)) ps)
                b (get_build g b)) as [s' ES].
    { exact E. }
    { cbn [bs_pools]. apply (pool_find_names (bs_pools (rs_bs r)) ps).
      - eapply pool_update_map; [|exact EU]. intro p0. reflexivity.
      - rewrite F. discriminate. }
    exists (ESet b Queued Running). eexists. split; [|exists b; right; now left].
    unfold accept1. rewrite Hc, E, F, Room, EQ, Hrun. cbn [bstate_eqb negb remove_first].
    rewrite Nat.eqb_refl.
    assert (Hlt : (0 <? cf_parallelism cf) = true) by (apply Nat.ltb_lt; lia).
    rewrite Hlt. cbn [negb]. rewrite EU, ES. reflexivity.
  - (* a step all of whose ordering producers are done can be promoted *)
    unfold some_promotable in P. apply existsb_exists in P. destruct P as (d & Id & Hd).
    apply andb_true_iff in Hd. destruct Hd as [E PD]. apply bstate_eqb_eq in E.
    destruct (bs_set_total_nopool (rs_bs r) d (get_build g d) Ready) as [s' ES];
      try (rewrite E; discriminate); try discriminate.
    exists (ESet d Want Ready). eexists. split; [|exists d; right; now right].
    unfold accept1. rewrite Hc, E, PD, ES. cbn [bstate_eqb andb]. reflexivity.
Qed.

(* ------------------------------------------------------------------------------------ *)
(* C18: only steps that were given a state by the want traversal are ever started *)

Lemma started_known b : forall tr r r',
  RInv cf decls r -> accepts cf r tr = Some r' -> 0 < starts_of b tr ->
  get_state (rs_bs r) b <> Unknown.
Proof.
  induction tr as [|e tr IH]; intros r r' Hinv H Hs; cbn [accepts] in H; [cbn in Hs; lia|].
  destruct (accept1 cf r e) as [r1|] eqn:E1; [|discriminate].
  pose proof (accept1_step cf r e r1 E1) as Hst.
  assert (D : e = EStart b \/ e <> EStart b).
  { destruct e; try (right; discriminate).
    destruct (Nat.eq_dec b0 b) as [->|Ne]; [left; reflexivity|right; congruence]. }
  destruct D as [->|Hne].
  - pose proof (ri_ctl _ _ _ Hinv) as K. inversion Hst; subst.
    match goal with Hc : rs_ctl r = CStarting _ |- _ => rewrite Hc in K end.
    cbn [ctl_ok] in K. destruct K as (_ & _ & _ & E). rewrite E. discriminate.
  - rewrite (starts_of_cons_other b e tr Hne) in Hs.
    apply (step_known r e r1 b Hinv Hst).
    exact (IH r1 r' (step_RInv cf decls r e r1 Hinv Hst) H Hs).
Qed.

Theorem C18_nothing_outside_runs s fl tr r b :
  wanted g (bs_new nb decls) s -> accepts cf (run_init s fl) tr = Some r ->
  0 < starts_of b tr -> get_state s b <> Unknown.
Proof.
  intros W H Hs.
  apply (started_known b tr (run_init s fl) r); [|exact H|exact Hs].
  apply (reachable_RInv_closed cf decls Hwf). now apply reach_init.
Qed.

Theorem C18_nothing_outside_runs_reachable r tr r' b :
  reachable cf decls r -> accepts cf r tr = Some r' ->
  0 < starts_of b tr -> get_state (rs_bs r) b <> Unknown.
Proof.
  intros Hr H Hs.
  exact (started_known b tr r r' (reachable_RInv_closed cf decls Hwf r Hr) H Hs).
Qed.

(* the set of steps with a state is the same throughout a run *)
Theorem C18_wanted_set_fixed r tr r' b :
  reachable cf decls r -> accepts cf r tr = Some r' ->
  (get_state (rs_bs r') b <> Unknown <-> get_state (rs_bs r) b <> Unknown).
Proof.
  intros Hr H. exact (accepts_known b tr r r' (reachable_RInv_closed cf decls Hwf r Hr) H).
Qed.

(* ------------------------------------------------------------------------------------ *)
(* C19: the six counters add up to the number of non-phony steps with a state *)

Theorem C19_total r :
  reachable cf decls r ->
  (k_want (bs_counts (rs_bs r)) + k_ready (bs_counts (rs_bs r)) + k_queued (bs_counts (rs_bs r)) +
   k_running (bs_counts (rs_bs r)) + k_done (bs_counts (rs_bs r)) + k_failed (bs_counts (rs_bs r)))%Z
  = Z.of_nat (count_wanted_nonphony g (rs_bs r)).
Proof.
  intro Hr. pose proof (reachable_RInv_closed cf decls Hwf r Hr) as Hinv.
  rewrite (bc_counts _ _ _ (ri_core _ _ _ Hinv)).
  apply census_total.
Qed.

End Live.

(* ------------------------------------------------------------------------------------ *)
(* C04: a step whose pool is not declared *)

Lemma bs_set_queued_pools s b bd s' :
  bs_set s b bd Queued = Ok s' -> pool_find (bs_pools s) (pool_name bd) = None ->
  bs_pools s' = bs_pools s.
Proof.
  intros H F. unfold bs_set in H.
  destruct (bstate_eqb (get_state s b) Unknown); cbn [bind] in H.
  - inversion H; subst. reflexivity.
  - destruct (bstate_eqb (get_state s b) Running); cbn [bind] in H.
    + destruct (pool_update (bs_pools s) (pool_name bd) _) as [ps|] eqn:EU; cbn [bind] in H; [|discriminate].
      apply pool_update_spec in EU. destruct EU as (l1 & p & l2 & _ & _ & _ & F2). congruence.
    + inversion H; subst. reflexivity.
Qed.

Theorem C04_unknown_pool_is_error cf r b r' :
  accept1 cf r (ESet b Ready Queued) = Some r' ->
  pool_find (bs_pools (rs_bs r)) (pool_name (get_build (cf_graph cf) b)) = None ->
  rs_ctl r' = CVerdict b VError false /\
  forall e r'', accept1 cf r' e = Some r'' -> e = EReturn None.
Proof.
  intros H F. apply accept1_step in H.
  assert (Hc : rs_ctl r' = CVerdict b VError false).
  { inversion H; subst; cbn [with_bs rs_ctl]; [|reflexivity].
    exfalso.
    match goal with HS : bs_set _ b _ Queued = Ok ?s1, HU : pool_update (bs_pools ?s1) _ _ = Some _ |- _ =>
      rewrite (bs_set_queued_pools _ _ _ _ HS F) in HU;
      apply pool_update_spec in HU; destruct HU as (l1 & p & l2 & _ & _ & _ & F2) end.
    congruence. }
  split; [exact Hc|].
  intros e r'' H2. apply accept1_step in H2.
  destruct H2; try reflexivity; try congruence.
  match goal with Hd : _ \/ _ |- _ => destruct Hd as [[Hv _]|[Hv _]]; congruence end.
Qed.

(* ... and after that error return nothing is accepted any more: no step is started *)
Theorem C04_unknown_pool_never_starts cf r b r' :
  accept1 cf r (ESet b Ready Queued) = Some r' ->
  pool_find (bs_pools (rs_bs r)) (pool_name (get_build (cf_graph cf) b)) = None ->
  forall tr r'', accepts cf r' tr = Some r'' -> forall x, starts_of x tr = 0.
Proof.
  intros H F tr r'' Ht x.
  destruct (C04_unknown_pool_is_error cf r b r' H F) as [Hc Honly].
  destruct tr as [|e tr]; [reflexivity|]. cbn [accepts] in Ht.
  destruct (accept1 cf r' e) as [r1|] eqn:E1; [|discriminate].
  pose proof (Honly e r1 E1) as ->.
  assert (Hc1 : rs_ctl r1 = CReturned None).
  { apply accept1_step in E1. inversion E1; subst; cbn [with_ctl with_bs rs_ctl]; congruence. }
  destruct tr as [|e2 tr]; [reflexivity|]. cbn [accepts] in Ht.
  rewrite (C05_returned_is_final cf r1 None e2 Hc1) in Ht. discriminate.
Qed.

(* ------------------------------------------------------------------------------------ *)
(* C18: without adopt, a name that does not resolve to a file stops target selection *)

Theorem C18_unknown_target_rejected g manifest : forall names ts,
  select_named g manifest false names = Ok ts ->
  forall n, In n names -> exists f, resolve_target g n = Ok (Some f).
Proof.
  induction names as [|n0 rest IH]; intros ts H n I; [destruct I|].
  cbn [select_named] in H.
  destruct (resolve_target g n0) as [[t|]| | | |] eqn:ER; cbn [bind] in H; try discriminate.
  destruct (select_named g manifest false rest) as [r| | | |] eqn:ES; cbn [bind] in H; try discriminate.
  destruct I as [<-|I]; [exists t; exact ER|exact (IH r eq_refl n I)].
Qed.

Theorem C18_unknown_target_rejected_want g manifest : forall names w w',
  want_named g manifest false names w = Ok w' ->
  forall n, In n names -> exists f, resolve_target g n = Ok (Some f).
Proof.
  induction names as [|n0 rest IH]; intros w w' H n I; [destruct I|].
  cbn [want_named] in H.
  destruct (resolve_target g n0) as [[t|]| | | |] eqn:ER; cbn [bind] in H; try discriminate.
  destruct I as [<-|I]; [exists t; exact ER|].
  destruct (opt_nat_eqb (Some t) manifest); [exact (IH w w' H n I)|].
  destruct (want_file (want_fuel g) g w [] t) as [r| | | |]; cbn [bind] in H; try discriminate.
  exact (IH (fst r) w' H n I).
Qed.

(* ------------------------------------------------------------------------------------ *)
(* C01 / C06: validation inputs impose no order.  Step 0 ("b") has one input, file 0, which is
   a validation input and is produced by step 1 ("v").  Wanting b's output makes both steps
   Ready; b is examined, queued, started (and finishes) while v is still Ready.
   (Dependencies discovered from depfiles do not occur in [graph] / [accept1] at all: the
   scheduler model never waits for them.) *)

Definition noval_graph : graph :=
  mkGraph [mkBuild [0] 0 0 0 [1] false None; mkBuild [] 0 0 0 [0] false None]
          [mkFile [118%N] (Some 1) [0]; mkFile [98%N] (Some 0) []].
Definition noval_cf : config := mkConfig noval_graph 1 false.
Definition noval_start : list event :=
  [EPopReady 0; EVerdict 0 VDirty; ESet 0 Ready Queued; ESet 0 Queued Running; EStart 0].
Definition noval_finish : list event := [EFinish 0 TSuccess; ERecord 0; ESet 0 Running Done].

Lemma noval_graph_wf : graph_wf noval_graph.
Proof.
  split.
  - intros f b H. destruct f as [|[|[|f]]]; cbn in H; inversion H; subst; cbn; lia.
  - intros b f L I. destruct b as [|[|b]]; cbn in L, I |- *; [|tauto|lia].
    destruct I as [<-|[]]. lia.
Qed.

Theorem validation_imposes_no_order_started :
  exists cf decls s log tr r b v f,
    graph_wf (cf_graph cf) /\
    want_targets (cf_graph cf) (bs_new (length (g_builds (cf_graph cf))) decls, []) [1] = Ok (s, log) /\
    accepts cf (run_init s None) tr = Some r /\
    In f (validation_ins (get_build (cf_graph cf) b)) /\ file_input (cf_graph cf) f = Some v /\
    starts_of b tr = 1 /\ get_state (rs_bs r) b = Running /\ get_state (rs_bs r) v = Ready.
Proof.
  exists noval_cf, []. eexists. eexists. exists noval_start. eexists. exists 0, 1, 0.
  split; [exact noval_graph_wf|].
  split; [vm_compute; reflexivity|].
  split; [vm_compute; reflexivity|].
  vm_compute. repeat split; auto.
Qed.

Theorem validation_imposes_no_order_done :
  exists cf decls s log tr r b v f,
    graph_wf (cf_graph cf) /\
    want_targets (cf_graph cf) (bs_new (length (g_builds (cf_graph cf))) decls, []) [1] = Ok (s, log) /\
    accepts cf (run_init s None) tr = Some r /\
    In f (validation_ins (get_build (cf_graph cf) b)) /\ file_input (cf_graph cf) f = Some v /\
    get_state (rs_bs r) b = Done /\ get_state (rs_bs r) v = Ready /\ starts_of v tr = 0.
Proof.
  exists noval_cf, []. eexists. eexists. exists (noval_start ++ noval_finish). eexists. exists 0, 1, 0.
  split; [exact noval_graph_wf|].
  split; [vm_compute; reflexivity|].
  split; [vm_compute; reflexivity|].
  vm_compute. repeat split; auto.
Qed.

