(* Vocabulary for the boundedness / termination half of C06 (Props/C06Bound.v).
   Definitions only. *)
From Coq Require Import List Arith.
From N2 Require Import Model.All Proofs.SchedSpec.
Import ListNotations.

(* ---- event classes ---- *)

Definition is_update (e : event) : bool := match e with EUpdate _ => true | _ => false end.
Definition is_pop (e : event) : bool := match e with EPopReady _ => true | _ => false end.
Definition is_verdict (e : event) : bool := match e with EVerdict _ _ => true | _ => false end.
Definition is_set (e : event) : bool := match e with ESet _ _ _ => true | _ => false end.
Definition is_start (e : event) : bool := match e with EStart _ => true | _ => false end.
Definition is_quiesce (e : event) : bool := match e with EQuiesce _ => true | _ => false end.
Definition is_finish (e : event) : bool := match e with EFinish _ _ => true | _ => false end.
Definition is_record (e : event) : bool := match e with ERecord _ => true | _ => false end.
Definition is_return (e : event) : bool := match e with EReturn _ => true | _ => false end.

(* the two events that leave the run state as it is *)
Definition is_stutter (e : event) : bool := is_update e || is_quiesce e.

(* number of events of a class in a trace *)
Definition count_ev (p : event -> bool) (tr : list event) : nat := length (filter p tr).

(* ---- potential ---- *)

(* sum of a weight of the state of every step of the graph *)
Definition state_sum (w : bstate -> nat) (g : graph) (s : bstates) : nat :=
  list_sum (map (fun i => w (get_state s i)) (indices (g_builds g))).

(* the longest chain of run-loop transitions still ahead of a step:
   Want -> Ready -> Queued -> Running -> Done/Failed *)
Definition sets_left (st : bstate) : nat :=
  match st with Want => 4 | Ready => 3 | Queued => 2 | Running => 1 | Unknown | Done | Failed => 0 end.

Definition run_potential (g : graph) (s : bstates) : nat := state_sum sets_left g s.

(* 0/1 weights of state classes *)
Definition w_unexamined (st : bstate) : nat := match st with Want | Ready => 1 | _ => 0 end.
Definition w_unstarted (st : bstate) : nat := match st with Want | Ready | Queued => 1 | _ => 0 end.
Definition w_unfinished (st : bstate) : nat := match st with Want | Ready | Queued | Running => 1 | _ => 0 end.

(* number of wanted steps that are not yet Done or Failed *)
Definition unfinished (g : graph) (s : bstates) : nat := state_sum w_unfinished g s.

(* ---- the environment of the run loop ---- *)

(* the environment's answers: a verdict for every examined step, a termination for every
   started one; a trace obeys them when every one of its events does *)
Definition obeys (vd : nat -> verdict) (tm : nat -> term) (e : event) : Prop :=
  match e with
  | EVerdict b v => v = vd b
  | EFinish b t => t = tm b
  | _ => True
  end.

(* some function of the graph bounds a measure of every trace accepted from a reachable state *)
Definition bounded_by_graph (measure : list event -> nat) : Prop :=
  exists f : graph -> nat, forall cf decls r evs r',
    graph_wf (cf_graph cf) -> reachable cf decls r -> accepts cf r evs = Some r' ->
    measure evs <= f (cf_graph cf).
