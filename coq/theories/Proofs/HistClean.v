(* Stage 5: a tree in which every wanted step is fresh is, on the outputs of the wanted steps, the
   tree a clean build of its sources produces. *)
From Coq Require Import Lia ZArith List Bool Arith.
From N2 Require Import Model.All Proofs.SchedSpec.
From N2 Require Import Proofs.DbSpec Proofs.WorldSpec Proofs.WorldBase Proofs.WorldDeps Proofs.WorldDirty
     Proofs.JointSpec Proofs.JointBase Proofs.HistSpec Proofs.HistBase.
Import ListNotations.

(* ------------------------------------------------------------------------------------ *)
(* a rank function on a finite set of steps can be compressed below the number of steps *)

Lemma filter_length_le {A} (f : A -> bool) l : length (filter f l) <= length l.
Proof. induction l as [|x l IH]; cbn [filter length]; [lia|]. destruct (f x); cbn [length]; lia. Qed.

Lemma filter_length_mono {A} (f h : A -> bool) l :
  (forall x, f x = true -> h x = true) -> length (filter f l) <= length (filter h l).
Proof.
  intro H. induction l as [|x l IH]; cbn [filter length]; [lia|].
  destruct (f x) eqn:Ef.
  - rewrite (H x Ef). cbn [length]. lia.
  - destruct (h x); cbn [length]; lia.
Qed.

Lemma filter_length_lt {A} (f h : A -> bool) l p :
  (forall x, f x = true -> h x = true) -> In p l -> f p = false -> h p = true ->
  length (filter f l) < length (filter h l).
Proof.
  intros H. induction l as [|x l IH]; intros Hp Hf Hh; [destruct Hp|]. cbn [filter length].
  destruct Hp as [->|Hp].
  - rewrite Hf, Hh. cbn [length]. pose proof (filter_length_mono f h l H). lia.
  - specialize (IH Hp Hf Hh). destruct (f x) eqn:Ef.
    + rewrite (H x Ef). cbn [length]. lia.
    + destruct (h x); cbn [length]; lia.
Qed.

Definition crank (rank : nat -> nat) (n : nat) (b : nat) : nat :=
  length (filter (fun x => rank x <? rank b) (seq 0 n)).

Lemma crank_lt rank n b : b < n -> crank rank n b < n.
Proof.
  intro L. unfold crank.
  assert (H : length (filter (fun x => rank x <? rank b) (seq 0 n)) < length (filter (fun _ => true) (seq 0 n))).
  { apply (filter_length_lt _ _ _ b); auto.
    - apply in_seq. lia.
    - apply Nat.ltb_irrefl. }
  pose proof (filter_length_le (fun _ : nat => true) (seq 0 n)) as H2. rewrite seq_length in H2. lia.
Qed.

Lemma crank_mono rank n p b : p < n -> rank p < rank b -> crank rank n p < crank rank n b.
Proof.
  intros L Hr. unfold crank. apply (filter_length_lt _ _ _ p).
  - intros x Hx. apply Nat.ltb_lt in Hx. apply Nat.ltb_lt. lia.
  - apply in_seq. lia.
  - apply Nat.ltb_irrefl.
  - now apply Nat.ltb_lt.
Qed.

(* ------------------------------------------------------------------------------------ *)

Section Clean.
Variable content : Type.
Variable stamp : bytes -> mtime -> content.
Variable cmd : bytes -> option (bytes * bytes) -> (bytes -> option content) -> (bytes -> content) * list bytes.
Variable g : graph.
Variable wg : wgraph.
Notation nb := (length (g_builds g)).
Notation P := (producer_of wg).
Notation bd_ b := (get_wbuild wg b).
Notation cont := (cont content stamp).
Notation run := (run content cmd).
Notation fresh_at := (fresh_at content stamp cmd).
Notation clean_cont := (clean_cont content cmd wg).

Hypothesis Hst : static_ok content cmd g wg.

Variable fs : fsmap.
Variable Wn : nat -> Prop.          (* the wanted steps *)
Hypothesis HA : forall b, Wn b -> wb_cmdline (bd_ b) <> None ->
  b < nb /\
  (exists deps, fresh_at fs (bd_ b) deps /\ forall d, In d deps -> P d = None) /\
  (forall n p, In n (wb_dirtying (bd_ b)) -> P n = Some p -> Wn p).

Lemma clean_cont_eq fuel c n :
  clean_cont fuel c n =
  match P n with
  | None => c n
  | Some b =>
    match wb_cmdline (bd_ b) with
    | None => c n
    | Some _ => match fuel with O => None | S f => Some (fst (run (bd_ b) (clean_cont f c)) n) end
    end
  end.
Proof. destruct fuel; reflexivity. Qed.

Lemma clean_cont_src fuel c n : P n = None -> clean_cont fuel c n = c n.
Proof. intro H. rewrite clean_cont_eq, H. reflexivity. Qed.

Lemma clean_by_rank (rank : nat -> nat) :
  (forall b p, Wn b -> ordering_producer g b p -> rank p < rank b) ->
  forall fuel b, Wn b -> wb_cmdline (bd_ b) <> None -> rank b < fuel ->
  forall o, In o (wb_outs (bd_ b)) -> clean_cont fuel (cont fs) o = cont fs o.
Proof.
  intros Hrank. pose proof (so_wf _ _ _ _ Hst) as Hwf. pose proof (so_agree _ _ _ _ Hst) as Hag.
  induction fuel as [|f IH]; intros b Hb Hc Hr o Ho; [lia|].
  destruct (HA b Hb Hc) as (Lb & (deps & (Hk & Hfr) & Hsrc) & Hcl).
  pose proof (so_hermetic _ _ _ _ Hst b Lb Hc) as Hherm.
  rewrite clean_cont_eq, (outs_producer g wg Hag b o Lb Ho).
  destruct (wb_cmdline (bd_ b)) as [cl|] eqn:Hcl'; [|congruence].
  (* the declared dirtying inputs are what the clean build has *)
  assert (Hdirty : forall n, In n (wb_dirtying (bd_ b)) -> clean_cont f (cont fs) n = cont fs n).
  { intros n Hn. destruct (P n) as [p|] eqn:Hp; [|now apply clean_cont_src].
    destruct (wb_cmdline (bd_ p)) as [clp|] eqn:Hcp; [|rewrite clean_cont_eq, Hp, Hcp; reflexivity].
    destruct (dirtying_producer g wg Hwf Hag b n p Lb Hn Hp) as (Hop & Lp & Io).
    apply (IH p); [exact (Hcl n p Hn Hp)|congruence| |exact Io].
    pose proof (Hrank b p Hb Hop). lia. }
  assert (E : run (bd_ b) (clean_cont f (cont fs)) = run (bd_ b) (cont fs)).
  { apply Hherm; [exact Hdirty|].
    intros n d Hn Hne Hcn.
    destruct (reported_in_files _ _ _ n d Hk Hn Hne Hcn) as [Hd|Hd]; [now apply Hdirty|].
    apply clean_cont_src. now apply Hsrc. }
  rewrite E. symmetry. now apply Hfr.
Qed.

(* the depth of the graph is at most the number of steps *)
Theorem clean_build_equiv :
  (exists rank : nat -> nat, forall b p, Wn b -> ordering_producer g b p -> rank p < rank b) ->
  forall fuel, nb <= fuel ->
  forall b, Wn b -> wb_cmdline (bd_ b) <> None ->
  forall o, In o (wb_outs (bd_ b)) -> cont fs o = clean_cont fuel (cont fs) o.
Proof.
  intros (rank & Hrank) fuel Hfuel b Hb Hc o Ho. symmetry.
  pose proof (so_wf _ _ _ _ Hst) as Hwf. destruct (HA b Hb Hc) as (Lb & _).
  apply (clean_by_rank (crank rank nb)) with (b := b); auto.
  - intros b' p' Hb' Hop. apply crank_mono; [|exact (Hrank b' p' Hb' Hop)].
    destruct Hop as (f & _ & Hf). exact (proj1 Hwf f p' Hf).
  - pose proof (crank_lt rank nb b Lb). lia.
Qed.

End Clean.
