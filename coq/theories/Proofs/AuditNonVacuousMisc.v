(* audit file: AuditNonVacuousMisc
   Machine-checked NON-VACUITY instances for the theorems of Props/C13.v, C15.v, C16.v, C17.v,
   C20.v: each example instantiates ALL hypotheses of the theorem with concrete data and adds a
   fact showing that the instance is not degenerate. *)
From Coq Require Import String Lia.
From N2 Require Import Model.All Model.Build.
From N2 Require Import Proofs.CanonBase Proofs.DepfileSpec Proofs.DepfileExamples.

(* ==================================================================================== *)
(* C13 *)

Fixpoint rep (n : nat) (l : bytes) : bytes := match n with O => [] | S n => l ++ rep n l end.

(* "foo/./bar/../baz//q"  -->  "foo/baz/q" *)
Definition c13_p : bytes := bs "foo/./bar/../baz//q".
Definition c13_q : bytes := bs "foo/baz/q".

(* C13_refines is universally quantified without premise, so it cannot be vacuous.  The two sides
   are independent definitions ([canon_impl] = index machine [impl_loop] over one mutated buffer,
   [canon] = [go] over a separate output list); they agree on this instance by computation. *)
Example C13_refines_instance : canon_impl c13_p = Ok c13_q /\ canon c13_p = Ok c13_q.
Proof. split; vm_compute; reflexivity. Qed.

(* the bound 60 of C13_total is reached: a path with exactly 60 components (58 names, ".", "b")
   is canonicalised and changed; 61 plain names panic, so the bound cannot be raised *)
Example C13_total_nonvacuous :
  exists p, p <> [] /\ (length (comps p) <= 60)%nat /\
    (* non-triviality *)
    length (comps p) = 60%nat /\ (exists q, canon p = Ok q /\ q <> p) /\
    (exists p', length (comps p') = 61%nat /\ canon p' = Panic 1%N).
Proof.
  exists (rep 58 (bs "a/") ++ bs "./b").
  split; [discriminate|]. split; [vm_compute; lia|]. split; [vm_compute; reflexivity|].
  split.
  - exists (rep 58 (bs "a/") ++ bs "b"). split; [vm_compute; reflexivity | vm_compute; discriminate].
  - exists (rep 61 (bs "a/")). split; vm_compute; reflexivity.
Qed.

(* all three branches of C13_outcomes occur *)
Example C13_outcomes_all_branches :
  (exists p q, canon p = Ok q) /\ (exists p, canon p = Panic 0%N) /\ (exists p, canon p = Panic 1%N).
Proof.
  split; [exists c13_p, c13_q; vm_compute; reflexivity|].
  split; [exists []; reflexivity|]. exists (rep 61 (bs "a/")). vm_compute. reflexivity.
Qed.

Example C13_idempotent_nonvacuous :
  exists p q, canon p = Ok q /\ q <> p /\ canon q = Ok q.
Proof. exists c13_p, c13_q. split; [vm_compute; reflexivity|]. split; [discriminate | vm_compute; reflexivity]. Qed.

Example C13_never_longer_nonvacuous :
  exists p q, canon p = Ok q /\ (length q < length p)%nat.
Proof. exists c13_p, c13_q. split; [vm_compute; reflexivity | vm_compute; lia]. Qed.

(* [sem] is defined from [comps]/[resolve] only (Model/Canon.v), not from [canon]; the value is a
   non-trivial triple here, and a path with another meaning has another [sem] *)
Example C13_sem_preserved_nonvacuous :
  exists p q, canon p = Ok q /\ q <> p /\
    sem p = (false, (0%nat, [bs "q"; bs "baz"; bs "foo"])) /\ sem q = sem p /\
    sem (bs "foo/bar/q") <> sem p /\ sem (bs "/foo/baz/q") <> sem p /\ sem (bs "../foo/baz/q") <> sem p.
Proof.
  exists c13_p, c13_q. split; [vm_compute; reflexivity|]. split; [discriminate|].
  split; [vm_compute; reflexivity|]. split; [vm_compute; reflexivity|].
  repeat split; vm_compute; discriminate.
Qed.

(* [normal_form] is not the constant [true]: it is false on the input and true on the output *)
Example C13_normal_form_nonvacuous :
  exists p q, canon p = Ok q /\ normal_form p = false /\ normal_form q = true /\
    normal_form (bs "a//b") = false /\ normal_form (bs "a/./b") = false /\ normal_form (bs "a/../b") = false /\
    normal_form [] = false.
Proof. exists c13_p, c13_q. repeat split; vm_compute; reflexivity. Qed.

Example C13_same_node_partial_nonvacuous :
  exists s p q p' q',
    uses_only s p = true /\ uses_only s q = true /\ canon p = Ok p' /\ canon q = Ok q' /\
    sem p = sem q /\ ends_dirlike p = ends_dirlike q /\ f17_class p = false /\
    (* non-triviality *)
    p <> q /\ p' <> p /\ q' <> q /\ p' = bs "../a/b".
Proof.
  exists 47%N, (bs ".././a//b"), (bs "../a/c/../b"), (bs "../a/b"), (bs "../a/b").
  repeat split; try (vm_compute; reflexivity); vm_compute; discriminate.
Qed.

(* a second instance in the directory-like class, with backslash as the only separator *)
Example C13_same_node_partial_nonvacuous_dirlike :
  exists s p q p' q',
    uses_only s p = true /\ uses_only s q = true /\ canon p = Ok p' /\ canon q = Ok q' /\
    sem p = sem q /\ ends_dirlike p = ends_dirlike q /\ f17_class p = false /\
    p <> q /\ ends_dirlike p = true /\ s = 92%N.
Proof.
  exists 92%N, (bs "a\b\."), (bs "a\.\b\"), (bs "a\b\"), (bs "a\b\").
  repeat split; try (vm_compute; reflexivity); vm_compute; discriminate.
Qed.

(* C13_same_node_refuted: the witness p = "../a/..", q = ".." is a realistic pair of spellings of the
   same directory (one separator style, both directory-like); it is exactly in the class excluded
   by [f17_class] in C13_same_node_partial *)
Example C13_same_node_refuted_witness_is_realistic :
  let p := bs "../a/.." in let q := bs ".." in
  canon p = Ok (bs "../") /\ canon q = Ok (bs "..") /\ sem p = (false, (1%nat, [])) /\ sem q = sem p /\
  f17_class p = true /\ f17_class q = true.
Proof. repeat split; vm_compute; reflexivity. Qed.

(* ==================================================================================== *)
(* C15 *)

(* ex2 of DepfileExamples.v: leading blank lines, continuation, "t :x" form, a repeated target,
   no newline after the last entry; the parse result is NOT the entry list itself *)
Example C15_roundtrip_nonvacuous :
  exists d t, spells_d d t /\
    (3 <= length d)%nat /\ merge_targets d <> d /\ (2 <= length (merge_targets d))%nat /\
    depfile_parse t = Ok (merge_targets d).
Proof.
  exists ex2_d, (ex2_text ++ [10%N]). split; [exact ex2_spells|].
  split; [vm_compute; lia|]. split; [vm_compute; discriminate|]. split; [vm_compute; lia|].
  vm_compute. reflexivity.
Qed.

(* "a: x\nb: y\na: z\n": the flattened list is a NON-identity permutation of the listed ones *)
Definition c15_d : list (bytes * list bytes) := [(bs "a", [bs "x"]); (bs "b", [bs "y"]); (bs "a", [bs "z"])].
Definition c15_text : bytes := bs "a: x" ++ [10%N] ++ bs "b: y" ++ [10%N] ++ bs "a: z" ++ [10%N].

Lemma c15_spells : spells_d c15_d c15_text.
Proof.
  assert (E : forall t v, good_target (bs t) -> good_path (bs v) ->
                entry_text (bs t, [bs v]) (bs t ++ [58%N] ++ ([32%N] ++ bs v ++ []) ++ [])).
  { intros t v Ht Hv. apply et_attached; [exact Ht | | constructor].
    apply dt0_cons; [apply (seps_cons [32%N] []); constructor | intros _; discriminate | exact Hv | constructor]. }
  eapply spells_eq.
  - eapply (sd_cons _ _ [] _ _ filler_nil (E "a"%string "x"%string ltac:(gt) ltac:(gp))).
    eapply (sd_cons _ _ [] _ _ filler_nil (E "b"%string "y"%string ltac:(gt) ltac:(gp))).
    eapply (sd_cons _ [] [] _ [] filler_nil (E "a"%string "z"%string ltac:(gt) ltac:(gp))).
    apply sd_nil, filler_nil.
  - vm_compute. reflexivity.
Qed.

Example C15_deps_all_listed_nonvacuous :
  exists d t, spells_d d t /\
    exists l, depfile_deps t = Ok l /\ l = [bs "x"; bs "z"; bs "y"] /\
              concat (map snd d) = [bs "x"; bs "y"; bs "z"] /\ l <> concat (map snd d) /\
              ~ NoDup (map fst d).
Proof.
  exists c15_d, c15_text. split; [exact c15_spells|].
  exists [bs "x"; bs "z"; bs "y"]. split; [vm_compute; reflexivity|]. split; [reflexivity|].
  split; [vm_compute; reflexivity|]. split; [vm_compute; discriminate|].
  intro H. inversion H as [|? ? Hn _]. apply Hn. right. left. reflexivity.
Qed.

(* ex1 of DepfileExamples.v has distinct targets: it instantiates both hypotheses of C15_deps_in_order *)
Example C15_deps_in_order_nonvacuous :
  exists d t, spells_d d t /\ NoDup (map fst d) /\
    (2 <= length d)%nat /\ depfile_deps t = Ok [bs "src/a.c"; bs "src/b.c"] /\
    concat (map snd d) = [bs "src/a.c"; bs "src/b.c"].
Proof.
  exists ex1_d, ex1_text. split; [exact ex1_spells|]. split.
  - cbn. constructor; [intros [H|[]]; vm_compute in H; discriminate H|]. constructor; [intros []|]. constructor.
  - split; [vm_compute; lia|]. split; vm_compute; reflexivity.
Qed.

(* both branches of C15_total occur; the error text is the formatted parse error *)
Example C15_total_both_branches :
  (exists t m, depfile_parse t = Ok m /\ m <> []) /\ (exists t e, depfile_parse t = Err e /\ e <> []).
Proof.
  split.
  - exists ex1_text. eexists. split; [vm_compute; reflexivity | discriminate].
  - exists (bs "a b"). eexists. split; [vm_compute; reflexivity | discriminate].
Qed.

(* C15_pinned_refuted: the witness f13_text = "a: x\na: y\n" is an ordinary two-line depfile *)
Example C15_pinned_refuted_witness_is_realistic :
  spells_d f13_d f13_text /\ depfile_deps_pinned f13_text = Ok [bs "y"] /\
  depfile_deps f13_text = Ok [bs "x"; bs "y"].
Proof. split; [exact f13_spells|]. split; vm_compute; reflexivity. Qed.

(* ==================================================================================== *)
(* C16 *)

Example C16_status_exit_code_nonvacuous :
  exists code, (code < 256)%N /\ code <> 0%N /\ decode_status (code * 256) = 1%N /\
    decode_status (0 * 256) = 0%N /\
    (* the premise matters: 256 is not an exit code, and the equation fails for it *)
    decode_status (256 * 256) <> (if (256 =? 0)%N then 0 else 1)%N.
Proof. exists 3%N. repeat split; try (vm_compute; reflexivity); vm_compute; discriminate. Qed.

Example C16_status_all_classes :
  decode_status 0 = 0%N /\ decode_status 256 = 1%N /\ decode_status 2 = 2%N /\ decode_status 130 = 2%N /\
  decode_status 9 = 1%N /\ decode_status 139 = 1%N /\ decode_status 127 = 1%N /\ decode_status 32512 = 1%N.
Proof. repeat split; vm_compute; reflexivity. Qed.

Example C16_output_is_concat_instance :
  accumulate [bs "ab"; []; bs "c"; bs "de"] = bs "abcde" /\ accumulate [bs "a"; bs "bcd"; bs "e"] = bs "abcde".
Proof. split; vm_compute; reflexivity. Qed.

(* ==================================================================================== *)
(* C17: a concrete world.  W = nat (version of the tree), G = nat (the version that was loaded).
   Version 0 has a stale manifest: regeneration runs 1 task and yields version 1.
   Version 7 regenerates to version 8, whose manifest does not load.
   Version 9: the regeneration command fails. *)

Definition w_load (w : nat) : outcome nat := if (w =? 8)%nat then Err (bs "parse error") else Ok w.
Definition w_regen (g : nat) (w : nat) : nat * option bool * nat :=
  if (w =? 0)%nat then (1, Some true, 1)%nat
  else if (w =? 7)%nat then (8, Some true, 1)%nat
  else if (w =? 9)%nat then (10, Some false, 1)%nat
  else (w, Some true, 0)%nat.
Definition w_main (g : nat) (reuse : bool) (w : nat) : nat * option bool * nat := ((w + 100)%nat, Some true, (2 + g)%nat).

Example C17_reload_uses_new_text_nonvacuous :
  exists (W G : Type) (load : W -> outcome G) (regen : G -> W -> W * option bool * nat)
         (main : G -> bool -> W -> W * option bool * nat) w0 g0 w1 t1 gm reuse,
    load w0 = Ok g0 /\ regen g0 w0 = (w1, Some true, S t1) /\
    bt_main_on (build load regen main w0) = Some (gm, reuse) /\
    (* non-triviality: the reloaded state differs from the first one *)
    gm <> g0 /\ w1 <> w0.
Proof.
  exists nat, nat, w_load, w_regen, w_main, 0, 0, 1, 0, 1, false.
  repeat split; try (vm_compute; reflexivity); discriminate.
Qed.

Example C17_failure_stops_nonvacuous :
  exists (W G : Type) (load : W -> outcome G) (regen : G -> W -> W * option bool * nat)
         (main : G -> bool -> W -> W * option bool * nat) w0 g0 w1 r1 t1,
    load w0 = Ok g0 /\ regen g0 w0 = (w1, r1, t1) /\ r1 <> Some true /\
    (* non-triviality: the same main phase does run, and succeeds, from another world *)
    bt_result (build load regen main w0) = BFailed /\
    (exists w, bt_result (build load regen main w) = BOk 3).
Proof.
  exists nat, nat, w_load, w_regen, w_main, 9, 9, 10, (Some false), 1.
  split; [reflexivity|]. split; [reflexivity|]. split; [discriminate|]. split; [reflexivity|].
  exists 1. reflexivity.
Qed.

Example C17_reload_error_stops_nonvacuous :
  exists (W G : Type) (load : W -> outcome G) (regen : G -> W -> W * option bool * nat)
         (main : G -> bool -> W -> W * option bool * nat) w0 g0 w1 t1,
    load w0 = Ok g0 /\ regen g0 w0 = (w1, Some true, S t1) /\ (forall g, load w1 <> Ok g).
Proof.
  exists nat, nat, w_load, w_regen, w_main, 7, 7, 8, 0.
  split; [reflexivity|]. split; [reflexivity|]. intros g. discriminate.
Qed.

Example C17_no_regen_when_clean_nonvacuous :
  exists (W G : Type) (load : W -> outcome G) (regen : G -> W -> W * option bool * nat)
         (main : G -> bool -> W -> W * option bool * nat) w0 g0 w1,
    load w0 = Ok g0 /\ regen g0 w0 = (w1, Some true, 0) /\ bt_result (build load regen main w0) = BOk 5.
Proof. exists nat, nat, w_load, w_regen, w_main, 3, 3, 3. repeat split. Qed.

Example C17_tasks_sum_nonvacuous :
  exists (W G : Type) (load : W -> outcome G) (regen : G -> W -> W * option bool * nat)
         (main : G -> bool -> W -> W * option bool * nat) w0 n,
    bt_result (build load regen main w0) = BOk n /\
    (* non-triviality: both phases ran tasks *)
    n = 4 /\ exists g0 w1 gm w2, load w0 = Ok g0 /\ regen g0 w0 = (w1, Some true, 1) /\ load w1 = Ok gm /\
                                 main gm false w1 = (w2, Some true, 3).
Proof. exists nat, nat, w_load, w_regen, w_main, 0, 4. split; [reflexivity|]. split; [reflexivity|]. exists 0, 1, 1, 101. repeat split. Qed.

(* ==================================================================================== *)
(* C20 *)

(* "a€b" = 61 E2 82 AC 62 *)
Definition euro_s : bytes := [97; 226; 130; 172; 98]%N.

Example C20_truncate_fits_nonvacuous :
  exists s max, (length s <= max)%nat /\ s <> [] /\ length s = max /\ truncate s max = s /\
                truncate s (max - 1) <> s.
Proof.
  exists euro_s, 5. split; [vm_compute; lia|]. split; [discriminate|]. split; [reflexivity|].
  split; [vm_compute; reflexivity | vm_compute; discriminate].
Qed.

(* max = 2 and max = 3 fall inside the three-byte character: the cut moves back to 1 *)
Example C20_truncate_utf8_nonvacuous :
  exists s max, utf8_ok s = true /\
    (max < length s)%nat /\ is_char_boundary s max = false /\ utf8_ok (firstn max s) = false /\
    truncate s max = [97%N] /\ truncate s 3 = [97%N] /\ truncate s 4 = [97; 226; 130; 172]%N /\
    utf8_ok (truncate s max) = true.
Proof.
  exists euro_s, 2. split; [vm_compute; reflexivity|]. split; [vm_compute; lia|].
  repeat split; vm_compute; reflexivity.
Qed.

Example C20_truncate_safe_instance :
  length (truncate euro_s 3) = 1%nat /\ is_char_boundary euro_s 3 = false /\ is_char_boundary euro_s 1 = true.
Proof. repeat split; vm_compute; reflexivity. Qed.

(* "hello" after 5 seconds: 10 bytes; it fits in 11 columns and does NOT fit in 10 (the premise
   is sharp), where the message is shortened instead *)
Example C20_task_message_fits_nonvacuous :
  exists m secs cols, (length m + length (time_note secs) < cols)%nat /\
    time_note secs <> [] /\ m <> [] /\
    task_message m secs cols = Ok (bs "hello (5s)") /\
    task_message m secs (cols - 1) = Ok (bs "he... (5s)").
Proof.
  exists (bs "hello"), 5%N, 11. split; [vm_compute; lia|].
  split; [vm_compute; discriminate|]. split; [discriminate|]. split; vm_compute; reflexivity.
Qed.

(* C20_task_message on a message that must be cut inside a multi-byte character *)
Example C20_task_message_instance :
  task_message (euro_s ++ euro_s) 7%N 11 = Ok ([97%N] ++ bs "... (7s)") /\
  utf8_ok (euro_s ++ euro_s) = true /\ is_char_boundary (euro_s ++ euro_s) 3 = false.
Proof. repeat split; vm_compute; reflexivity. Qed.

Example C20_bar_width_instance :
  progress_bar (mkCounts 3 1 0 2 5 1) 20 = bs "==========-----     " /\
  progress_bar (mkCounts 0 0 0 0 0 0) 4 = bs "    ".
Proof. split; vm_compute; reflexivity. Qed.

(* C20_task_message_pinned_refuted: the first witness is a single 4-byte emoji after 99 seconds in
   10 columns, the second an EMPTY message after 1000000 seconds; the second defect does not
   need the degenerate message: an ordinary message panics the same way *)
Example C20_task_message_pinned_refuted_realistic :
  task_message_pinned (bs "cc -c foo.c") 1000000%N 10 = Panic 31%N /\
  task_message_pinned (bs "cc " ++ [240; 159; 152; 128]%N ++ bs ".c") 99%N 14 = Panic 30%N /\
  (exists r, task_message (bs "cc -c foo.c") 1000000%N 10 = Ok r /\ length r = 10%nat) /\
  (exists r, task_message (bs "cc " ++ [240; 159; 152; 128]%N ++ bs ".c") 99%N 14 = Ok r /\ utf8_ok r = true).
Proof.
  split; [vm_compute; reflexivity|]. split; [vm_compute; reflexivity|].
  split; eexists; split; vm_compute; reflexivity.
Qed.
