(* C14: BuildOuts::remove_duplicates. *)
From Coq Require Import String.
From N2 Require Import Model.All.

(* keep the first occurrence of every element, in order; [seen] = what came before *)
Fixpoint dedup_from (seen : list nat) (l : list nat) : list nat :=
  match l with
  | [] => []
  | x :: r => if mem_nat x seen then dedup_from (seen ++ [x]) r else x :: dedup_from (seen ++ [x]) r
  end.
Definition dedup (l : list nat) : list nat := dedup_from [] l.

(* the occurrences that are dropped (every occurrence after the first), in order *)
Fixpoint repeats_from (seen : list nat) (l : list nat) : list nat :=
  match l with
  | [] => []
  | x :: r => if mem_nat x seen then x :: repeats_from (seen ++ [x]) r else repeats_from (seen ++ [x]) r
  end.
Definition repeats (l : list nat) : list nat := repeats_from [] l.

Definition distinct_prefix_count (e : nat) (ids : list nat) : nat := length (dedup (firstn e ids)).

Lemma mem_nat_In x l : mem_nat x l = true <-> In x l.
Proof.
  induction l as [|y r IH]; cbn [mem_nat In]; [split; [discriminate | intros []]|].
  rewrite orb_true_iff, IH, Nat.eqb_eq. split; intros [H|H]; auto.
Qed.

Lemma mem_nat_false x l : mem_nat x l = false <-> ~ In x l.
Proof.
  rewrite <- mem_nat_In. destruct (mem_nat x l); intuition congruence.
Qed.

Lemma mem_nat_app x a b : mem_nat x (a ++ b) = mem_nat x a || mem_nat x b.
Proof.
  induction a as [|y r IH]; cbn [mem_nat app]; [reflexivity|].
  rewrite IH. apply orb_assoc.
Qed.

(* only the set of seen elements matters *)
Lemma dedup_from_ext s s' l :
  (forall x, In x s <-> In x s') -> dedup_from s l = dedup_from s' l.
Proof.
  revert s s'. induction l as [|x r IH]; intros s s' H; [reflexivity|].
  cbn [dedup_from].
  assert (E : mem_nat x s = mem_nat x s').
  { destruct (mem_nat x s) eqn:A; symmetry.
    - apply mem_nat_In. apply H. apply mem_nat_In. exact A.
    - apply mem_nat_false. intro I. apply mem_nat_false in A. apply A. apply H. exact I. }
  rewrite E.
  rewrite (IH (s ++ [x]) (s' ++ [x])); [reflexivity|].
  intro y. rewrite !in_app_iff, H. reflexivity.
Qed.

Lemma repeats_from_ext s s' l :
  (forall x, In x s <-> In x s') -> repeats_from s l = repeats_from s' l.
Proof.
  revert s s'. induction l as [|x r IH]; intros s s' H; [reflexivity|].
  cbn [repeats_from].
  assert (E : mem_nat x s = mem_nat x s').
  { destruct (mem_nat x s) eqn:A; symmetry.
    - apply mem_nat_In. apply H. apply mem_nat_In. exact A.
    - apply mem_nat_false. intro I. apply mem_nat_false in A. apply A. apply H. exact I. }
  rewrite E.
  rewrite (IH (s ++ [x]) (s' ++ [x])); [reflexivity|].
  intro y. rewrite !in_app_iff, H. reflexivity.
Qed.

Lemma dedup_from_In s l x : In x (dedup_from s l) <-> In x l /\ ~ In x s.
Proof.
  revert s. induction l as [|y r IH]; intro s; cbn [dedup_from].
  - cbn [In]. tauto.
  - destruct (mem_nat y s) eqn:M.
    + apply mem_nat_In in M. rewrite IH, in_app_iff. cbn [In].
      split.
      * intros [I N]. split; [right; exact I | tauto].
      * intros [[E|I] N]; [subst; contradiction|]. split; [exact I|].
        intros [A|[E|[]]]; [contradiction | subst; contradiction].
    + apply mem_nat_false in M. cbn [In]. rewrite IH, in_app_iff. cbn [In].
      split.
      * intros [E|[I N]]; [subst; tauto | tauto].
      * intros [[E|I] N]; [left; exact E|].
        destruct (Nat.eq_dec y x) as [E|NE]; [left; exact E|]. right. split; [exact I|]. tauto.
Qed.

Lemma dedup_from_NoDup s l : NoDup (dedup_from s l).
Proof.
  revert s. induction l as [|y r IH]; intro s; cbn [dedup_from]; [constructor|].
  destruct (mem_nat y s); [apply IH|].
  constructor; [|apply IH].
  rewrite dedup_from_In, in_app_iff. cbn [In]. tauto.
Qed.

Lemma dedup_from_length_le s l : length (dedup_from s l) <= length l.
Proof.
  revert s. induction l as [|y r IH]; intro s; cbn [dedup_from length]; [lia|].
  destruct (mem_nat y s); cbn [length]; specialize (IH (s ++ [y])); lia.
Qed.

Lemma dedup_from_firstn_le s l e : length (dedup_from s (firstn e l)) <= length (dedup_from s l).
Proof.
  revert s e. induction l as [|y r IH]; intros s e.
  - rewrite firstn_nil. cbn. lia.
  - destruct e as [|e]; cbn [firstn dedup_from]; [cbn; lia|].
    destruct (mem_nat y s); cbn [length]; specialize (IH (s ++ [y]) e); lia.
Qed.

Lemma dedup_from_id s l :
  NoDup l -> (forall x, In x l -> ~ In x s) -> dedup_from s l = l.
Proof.
  revert s. induction l as [|y r IH]; intros s N D; [reflexivity|].
  cbn [dedup_from]. inversion N as [|? ? NI N']; subst.
  assert (M : mem_nat y s = false) by (apply mem_nat_false; apply D; left; reflexivity).
  rewrite M. f_equal. apply IH; [exact N'|].
  intros x I. rewrite in_app_iff. cbn [In]. intros [A|[E|[]]].
  - apply (D x); [right; exact I | exact A].
  - subst. contradiction.
Qed.

Lemma repeats_from_nil s l :
  NoDup l -> (forall x, In x l -> ~ In x s) -> repeats_from s l = [].
Proof.
  revert s. induction l as [|y r IH]; intros s N D; [reflexivity|].
  cbn [repeats_from]. inversion N as [|? ? NI N']; subst.
  assert (M : mem_nat y s = false) by (apply mem_nat_false; apply D; left; reflexivity).
  rewrite M. apply IH; [exact N'|].
  intros x I. rewrite in_app_iff. cbn [In]. intros [A|[E|[]]].
  - apply (D x); [right; exact I | exact A].
  - subst. contradiction.
Qed.

Lemma dedup_repeats_length s l :
  length (dedup_from s l) + length (repeats_from s l) = length l.
Proof.
  revert s. induction l as [|y r IH]; intro s; cbn [dedup_from repeats_from length]; [reflexivity|].
  destruct (mem_nat y s); cbn [length]; specialize (IH (s ++ [y])); lia.
Qed.

Lemma dedup_In l x : In x (dedup l) <-> In x l.
Proof. unfold dedup. rewrite dedup_from_In. cbn [In]. tauto. Qed.

Lemma dedup_NoDup l : NoDup (dedup l).
Proof. apply dedup_from_NoDup. Qed.

Lemma dedup_id l : NoDup l -> dedup l = l.
Proof. intro N. apply dedup_from_id; [exact N | intros x _ []]. Qed.

Lemma repeats_nil l : NoDup l -> repeats l = [].
Proof. intro N. apply repeats_from_nil; [exact N | intros x _ []]. Qed.

Lemma dedup_length_le l : length (dedup l) <= length l.
Proof. apply dedup_from_length_le. Qed.


(* ------------------------------------------------------------------------------------ *)
(* the loop *)

Fixpoint ndups_from (seen : list nat) (l : list nat) : nat :=
  match l with
  | [] => 0
  | x :: r => if mem_nat x seen then S (ndups_from (seen ++ [x]) r) else ndups_from (seen ++ [x]) r
  end.

Lemma ndups_from_length s l : ndups_from s l = length (repeats_from s l).
Proof.
  revert s. induction l as [|y r IH]; intro s; cbn [ndups_from repeats_from length]; [reflexivity|].
  destruct (mem_nat y s); cbn [length]; rewrite IH; reflexivity.
Qed.

Lemma remove_dups_loop_spec ids : forall i seen e0 ex acc,
  remove_dups_loop true ids i seen e0 ex acc =
  (rev acc ++ dedup_from seen ids, ex - ndups_from seen (firstn (e0 - i) ids)).
Proof.
  induction ids as [|id rest IH]; intros i seen e0 ex acc.
  - cbn [remove_dups_loop dedup_from]. rewrite app_nil_r, firstn_nil. cbn [ndups_from].
    rewrite Nat.sub_0_r. reflexivity.
  - cbn [remove_dups_loop dedup_from]. destruct (mem_nat id seen) eqn:M.
    + rewrite IH. f_equal.
      destruct (i <? e0) eqn:L.
      * apply Nat.ltb_lt in L. replace (e0 - i) with (S (e0 - S i)) by lia.
        cbn [firstn ndups_from]. rewrite M. lia.
      * apply Nat.ltb_ge in L. replace (e0 - i) with 0 by lia. replace (e0 - S i) with 0 by lia.
        cbn [firstn ndups_from]. reflexivity.
    + rewrite IH. cbn [rev]. rewrite <- app_assoc. cbn [app]. f_equal.
      destruct (i <? e0) eqn:L.
      * apply Nat.ltb_lt in L. replace (e0 - i) with (S (e0 - S i)) by lia.
        cbn [firstn ndups_from]. rewrite M. reflexivity.
      * apply Nat.ltb_ge in L. replace (e0 - i) with 0 by lia. replace (e0 - S i) with 0 by lia.
        cbn [firstn ndups_from]. reflexivity.
Qed.

Theorem remove_duplicates_spec ids e :
  e <= length ids ->
  remove_duplicates true ids e = (dedup ids, length (dedup (firstn e ids))).
Proof.
  intro L. unfold remove_duplicates. rewrite remove_dups_loop_spec.
  cbn [rev app]. rewrite Nat.sub_0_r. fold (dedup ids). f_equal.
  rewrite ndups_from_length. unfold dedup.
  pose proof (dedup_repeats_length [] (firstn e ids)) as H.
  rewrite firstn_length_le in H by exact L. lia.
Qed.

Lemma remove_duplicates_nodup ids e : NoDup (fst (remove_duplicates true ids e)).
Proof.
  unfold remove_duplicates. rewrite remove_dups_loop_spec. cbn [fst rev app]. apply dedup_from_NoDup.
Qed.

Lemma remove_duplicates_same_set ids e x :
  In x (fst (remove_duplicates true ids e)) <-> In x ids.
Proof.
  unfold remove_duplicates. rewrite remove_dups_loop_spec. cbn [fst rev app]. apply dedup_In.
Qed.

Lemma remove_duplicates_explicit_le ids e :
  e <= length ids ->
  snd (remove_duplicates true ids e) <= length (fst (remove_duplicates true ids e)).
Proof.
  intro L. rewrite remove_duplicates_spec by exact L. cbn [fst snd]. apply dedup_from_firstn_le.
Qed.

(* the explicit outputs of the result are the distinct explicit outputs of the input *)
Lemma dedup_from_app s a b : dedup_from s (a ++ b) = dedup_from s a ++ dedup_from (s ++ a) b.
Proof.
  revert s. induction a as [|y r IH]; intro s.
  - cbn [app dedup_from]. rewrite app_nil_r. reflexivity.
  - cbn [app dedup_from]. rewrite IH. rewrite <- app_assoc. cbn [app].
    destruct (mem_nat y s); reflexivity.
Qed.

Lemma remove_duplicates_explicit_prefix ids e :
  e <= length ids ->
  firstn (snd (remove_duplicates true ids e)) (fst (remove_duplicates true ids e)) = dedup (firstn e ids).
Proof.
  intro L. rewrite remove_duplicates_spec by exact L. cbn [fst snd].
  rewrite <- (firstn_skipn e ids) at 2. unfold dedup. rewrite dedup_from_app.
  rewrite firstn_app, Nat.sub_diag, firstn_O, app_nil_r. apply firstn_all.
Qed.

Lemma remove_duplicates_pinned_refuted :
  exists ids e, e <= length ids /\
    length (fst (remove_duplicates false ids e)) < snd (remove_duplicates false ids e).
Proof. exists [1; 1; 1], 3. vm_compute. split; lia. Qed.

Lemma repeats_from_app s a b : repeats_from s (a ++ b) = repeats_from s a ++ repeats_from (s ++ a) b.
Proof.
  revert s. induction a as [|y r IH]; intro s.
  - cbn [app repeats_from]. rewrite app_nil_r. reflexivity.
  - cbn [app repeats_from]. rewrite IH. rewrite <- app_assoc. cbn [app].
    destruct (mem_nat y s); reflexivity.
Qed.

Lemma repeats_snoc l x : repeats (l ++ [x]) = if mem_nat x l then repeats l ++ [x] else repeats l.
Proof.
  unfold repeats. rewrite repeats_from_app. cbn [app repeats_from].
  destruct (mem_nat x l); [reflexivity | apply app_nil_r].
Qed.

Lemma dedup_snoc l x : dedup (l ++ [x]) = if mem_nat x l then dedup l else dedup l ++ [x].
Proof.
  unfold dedup. rewrite dedup_from_app. cbn [app dedup_from].
  destruct (mem_nat x l); [apply app_nil_r | reflexivity].
Qed.

Lemma NoDup_app_l {A} (a b : list A) : NoDup (a ++ b) -> NoDup a.
Proof.
  induction a as [|x r IH]; intro N; [constructor|].
  cbn [app] in N. inversion N as [|? ? NI N']; subst. constructor; [|apply IH; exact N'].
  intro I. apply NI. apply in_app_iff. left. exact I.
Qed.

Lemma dedup_meaning l :
  NoDup (dedup l) /\ (forall x, In x (dedup l) <-> In x l) /\ (NoDup l -> dedup l = l) /\
  (forall x, dedup (l ++ [x]) = if mem_nat x l then dedup l else dedup l ++ [x]).
Proof. exact (conj (dedup_NoDup l) (conj (dedup_In l) (conj (dedup_id l) (dedup_snoc l)))). Qed.

Lemma repeats_meaning l :
  length (dedup l) + length (repeats l) = length l /\ (NoDup l -> repeats l = []) /\
  (forall x, repeats (l ++ [x]) = if mem_nat x l then repeats l ++ [x] else repeats l).
Proof. exact (conj (dedup_repeats_length [] l) (conj (repeats_nil l) (repeats_snoc l))). Qed.
