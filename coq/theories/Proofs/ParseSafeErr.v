(* C12: the shape of a formatted parse error (T4): message, file name, 1-based line number,
   a context line and a caret line. *)
From Coq Require Import String Lia.
From N2 Require Import Model.All Proofs.DepfileSafe Proofs.ParseSpec Proofs.ParseSafeStmt.

Lemma fpe_lines_shape filename msg eofs : forall lines ln ofs,
  ofs <= eofs -> eofs + 1 <= ofs + lines_len lines ->
  exists lno ctx pad,
    ln < lno <= ln + length lines /\
    length (error_prefix filename lno) <= pad /\
    fpe_lines true filename msg eofs lines ln ofs = Ok (error_text filename msg lno ctx pad).
Proof.
  induction lines as [|line rest IH]; intros ln ofs Hlo Hhi.
  - cbn in Hhi. lia.
  - cbn [fpe_lines].
    destruct (Nat.leb_spec eofs (ofs + length line)) as [Hfound|Hnot].
    + destruct (Nat.ltb_spec eofs ofs) as [Hbad|_]; [lia|].
      destruct (40 <? eofs - ofs)%nat; cbn [bind];
        match goal with |- context[if (40 <? length ?c)%nat then _ else _] =>
                        destruct (40 <? length c)%nat end; cbn [bind];
        match goal with
        | |- exists lno ctx pad, _ /\ _ /\ Ok (_ ++ ?DD ++ ?SS ++ _ ++ repeat_byte _ ?PP ++ _) = _ =>
          exists (S ln), (DD ++ SS), PP
        end;
        (split; [cbn [length]; lia|]; split; [unfold error_prefix; lia|]; unfold error_text, error_prefix; f_equal;
         repeat rewrite <- app_assoc; reflexivity).
    + cbn [lines_len fold_right] in Hhi. change (fold_right _ 0 ?x) with (lines_len x) in Hhi.
      destruct (IH (S ln) (ofs + length line + 1)) as (lno & ctx & pad & Hl & Hp & E); [lia | lia |].
      exists lno, ctx, pad. split; [cbn [length]; lia|]. split; [exact Hp | exact E].
Qed.

Lemma format_parse_error_shape buf filename msg eofs :
  eofs <= length buf ->
  exists lno ctx pad,
    1 <= lno /\
    length (error_prefix filename lno) <= pad /\
    format_parse_error buf filename msg eofs = Ok (error_text filename msg lno ctx pad).
Proof.
  intro H. unfold format_parse_error, format_parse_error_gen.
  destruct (fpe_lines_shape filename msg eofs (split_on 10%N [] buf) 0 0) as (lno & ctx & pad & Hl & Hp & E).
  - lia.
  - rewrite split_on_len. cbn. lia.
  - exists lno, ctx, pad. split; [lia|]. split; [exact Hp | exact E].
Qed.

(* T4: every error of Parser::read is formatted (no panic) and names the file and the line *)
Lemma error_format text filename s vs m o :
  good_scanner text s ->
  parser_read true (parse_fuel (text ++ [0%N])) s vs = SErr m o ->
  exists lno ctx pad,
    1 <= lno /\
    length (error_prefix filename lno) <= pad /\
    format_parse_error (text ++ [0%N]) filename m o = Ok (error_text filename m lno ctx pad).
Proof.
  intros Hg E. pose proof (parser_read_safe_gen text s vs Hg) as H. rewrite E in H. cbn in H.
  apply format_parse_error_shape. exact H.
Qed.
