(* Proofs about Model/Fancy.v, part 1: String::from_utf8_lossy.
   Whatever bytes go in, what comes out is well-formed UTF-8; well-formed input is unchanged;
   strict well-formedness implies the lead/continuation structure [utf8_ok] that the cutting
   theorems (truncate, task_message) are stated with. *)
From Coq Require Import List NArith Arith Lia Bool.
From N2 Require Import Base.Base Model.Scanner Model.Render Model.Fancy.
Import ListNotations.

Ltac nb := repeat match goal with
  | H : (_ && _)%bool = true |- _ => apply andb_true_iff in H; destruct H
  | H : (_ <=? _)%N = true |- _ => apply N.leb_le in H
  | H : (_ <? _)%N = true |- _ => apply N.ltb_lt in H
  | H : (_ <? _)%N = false |- _ => apply N.ltb_ge in H
  | H : (_ <=? _)%N = false |- _ => apply N.leb_gt in H
  | H : (_ =? _)%N = true |- _ => apply N.eqb_eq in H
  | H : (_ =? _)%N = false |- _ => apply N.eqb_neq in H
  end.

Lemma strict_repl y : utf8_strict (u_repl ++ y) = utf8_strict y.
Proof. reflexivity. Qed.

Lemma lossy_strict_n : forall n s, (length s <= n)%nat -> utf8_strict (lossy s) = true.
Proof.
  induction n as [|n IH]; intros s Hl.
  - destruct s; [reflexivity | simpl in Hl; lia].
  - destruct s as [|b r]; [reflexivity|].
    cbn [length] in Hl.
    assert (Hr : forall t, (length t <= length r)%nat -> utf8_strict (lossy t) = true)
      by (intros; apply IH; lia).
    cbn [lossy].
    destruct (b <? 128)%N eqn:E1.
    { cbn [utf8_strict]. rewrite E1. apply Hr; lia. }
    destruct ((194 <=? b) && (b <=? 223))%N eqn:E2.
    { destruct r as [|c1 r1]; [reflexivity|]. destruct (u_cont c1) eqn:C1.
      - cbn [utf8_strict]. rewrite E1, E2, C1. cbn [andb]. apply Hr. cbn [length]; lia.
      - rewrite strict_repl. apply Hr; lia. }
    destruct ((224 <=? b) && (b <=? 239))%N eqn:E3.
    { destruct r as [|c1 r1]; [reflexivity|]. destruct (second3 b c1) eqn:C1.
      - destruct r1 as [|c2 r2]; [reflexivity|]. destruct (u_cont c2) eqn:C2.
        + cbn [utf8_strict]. rewrite E1, E2, E3, C1, C2. cbn [andb]. apply Hr. cbn [length]; lia.
        + rewrite strict_repl. apply Hr. cbn [length]; lia.
      - rewrite strict_repl. apply Hr; lia. }
    destruct ((240 <=? b) && (b <=? 244))%N eqn:E4.
    { destruct r as [|c1 r1]; [reflexivity|]. destruct (second4 b c1) eqn:C1.
      - destruct r1 as [|c2 r2]; [reflexivity|]. destruct (u_cont c2) eqn:C2.
        + destruct r2 as [|c3 r3]; [reflexivity|]. destruct (u_cont c3) eqn:C3.
          * cbn [utf8_strict]. rewrite E1, E2, E3, E4, C1, C2, C3. cbn [andb]. apply Hr. cbn [length]; lia.
          * rewrite strict_repl. apply Hr. cbn [length]; lia.
        + rewrite strict_repl. apply Hr. cbn [length]; lia.
      - rewrite strict_repl. apply Hr; lia. }
    rewrite strict_repl. apply Hr; lia.
Qed.

Theorem lossy_strict s : utf8_strict (lossy s) = true.
Proof. apply (lossy_strict_n (length s)). lia. Qed.

Lemma lossy_id_n : forall n s, (length s <= n)%nat -> utf8_strict s = true -> lossy s = s.
Proof.
  induction n as [|n IH]; intros s Hl.
  - destruct s; [reflexivity | simpl in Hl; lia].
  - destruct s as [|b r]; [reflexivity|].
    cbn [length] in Hl.
    assert (Hr : forall t, (length t <= length r)%nat -> utf8_strict t = true -> lossy t = t)
      by (intros; apply IH; [lia | assumption]).
    cbn [lossy utf8_strict].
    destruct (b <? 128)%N eqn:E1.
    { intros H. f_equal. apply Hr; [lia | exact H]. }
    destruct ((194 <=? b) && (b <=? 223))%N eqn:E2.
    { destruct r as [|c1 r1]; [discriminate|]. intros H. apply andb_true_iff in H as [C1 H].
      rewrite C1. do 2 f_equal. apply Hr; [cbn [length]; lia | exact H]. }
    destruct ((224 <=? b) && (b <=? 239))%N eqn:E3.
    { destruct r as [|c1 [|c2 r2]]; try discriminate. intros H.
      apply andb_true_iff in H as [H H2]. apply andb_true_iff in H as [C1 C2].
      rewrite C1, C2. do 3 f_equal. apply Hr; [cbn [length]; lia | exact H2]. }
    destruct ((240 <=? b) && (b <=? 244))%N eqn:E4.
    { destruct r as [|c1 [|c2 [|c3 r3]]]; try discriminate. intros H.
      apply andb_true_iff in H as [H H3]. apply andb_true_iff in H as [H C3].
      apply andb_true_iff in H as [C1 C2].
      rewrite C1, C2, C3. do 4 f_equal. apply Hr; [cbn [length]; lia | exact H3]. }
    discriminate.
Qed.

Theorem lossy_id s : utf8_strict s = true -> lossy s = s.
Proof. apply (lossy_id_n (length s)). lia. Qed.

Corollary lossy_idempotent s : lossy (lossy s) = lossy s.
Proof. apply lossy_id, lossy_strict. Qed.

(* ---- strict well-formedness implies the lead/continuation structure ---- *)

Lemma u_cont_spec c : u_cont c = true -> ((128 <=? c) && (c <? 192))%N = true.
Proof. intro H; exact H. Qed.

Lemma second3_cont b c : second3 b c = true -> ((128 <=? c) && (c <? 192))%N = true.
Proof.
  unfold second3, u_cont. destruct (b =? 224)%N; [|destruct (b =? 237)%N]; intros H; nb;
    apply andb_true_iff; split; [apply N.leb_le | apply N.ltb_lt | apply N.leb_le | apply N.ltb_lt | apply N.leb_le | apply N.ltb_lt]; lia.
Qed.

Lemma second4_cont b c : second4 b c = true -> ((128 <=? c) && (c <? 192))%N = true.
Proof.
  unfold second4, u_cont. destruct (b =? 240)%N; [|destruct (b =? 244)%N]; intros H; nb;
    apply andb_true_iff; split; [apply N.leb_le | apply N.ltb_lt | apply N.leb_le | apply N.ltb_lt | apply N.leb_le | apply N.ltb_lt]; lia.
Qed.

Lemma range_false lo hi b : (hi <= b)%N -> ((lo <=? b) && (b <? hi))%N = false.
Proof. intros H. apply andb_false_iff. right. apply N.ltb_ge. exact H. Qed.

Lemma range_true lo hi b : (lo <= b)%N -> (b < hi)%N -> ((lo <=? b) && (b <? hi))%N = true.
Proof. intros H1 H2. apply andb_true_iff. split; [apply N.leb_le | apply N.ltb_lt]; assumption. Qed.

Lemma strict_ok_n : forall n s, (length s <= n)%nat -> utf8_strict s = true -> utf8_ok s = true.
Proof.
  unfold utf8_ok.
  induction n as [|n IH]; intros s Hl.
  - destruct s; [reflexivity | simpl in Hl; lia].
  - destruct s as [|b r]; [reflexivity|].
    cbn [length] in Hl.
    assert (Hr : forall t, (length t <= length r)%nat -> utf8_strict t = true -> utf8_ok_aux 0 t = true)
      by (intros; apply IH; [lia | assumption]).
    cbn [utf8_strict].
    destruct (b <? 128)%N eqn:E1.
    { intros H. cbn [utf8_ok_aux]. rewrite E1. apply Hr; [lia | exact H]. }
    destruct ((194 <=? b) && (b <=? 223))%N eqn:E2.
    { destruct r as [|c1 r1]; [discriminate|]. intros H. apply andb_true_iff in H as [C1 H].
      cbn [utf8_ok_aux]. rewrite E1. nb.
      rewrite (range_true 192 224 b) by lia. rewrite (u_cont_spec _ C1).
      apply Hr; [cbn [length]; lia | exact H]. }
    destruct ((224 <=? b) && (b <=? 239))%N eqn:E3.
    { destruct r as [|c1 [|c2 r2]]; try discriminate. intros H.
      apply andb_true_iff in H as [H H2]. apply andb_true_iff in H as [C1 C2].
      cbn [utf8_ok_aux]. rewrite E1. nb.
      rewrite (range_false 192 224 b) by lia. rewrite (range_true 224 240 b) by lia.
      rewrite (second3_cont _ _ C1), (u_cont_spec _ C2).
      apply Hr; [cbn [length]; lia | exact H2]. }
    destruct ((240 <=? b) && (b <=? 244))%N eqn:E4.
    { destruct r as [|c1 [|c2 [|c3 r3]]]; try discriminate. intros H.
      apply andb_true_iff in H as [H H3]. apply andb_true_iff in H as [H C3].
      apply andb_true_iff in H as [C1 C2].
      cbn [utf8_ok_aux]. rewrite E1. nb.
      rewrite (range_false 192 224 b) by lia. rewrite (range_false 224 240 b) by lia.
      rewrite (range_true 240 248 b) by lia.
      rewrite (second4_cont _ _ C1), (u_cont_spec _ C2), (u_cont_spec _ C3).
      apply Hr; [cbn [length]; lia | exact H3]. }
    discriminate.
Qed.

Theorem strict_ok s : utf8_strict s = true -> utf8_ok s = true.
Proof. apply (strict_ok_n (length s)). lia. Qed.

Corollary lossy_utf8_ok s : utf8_ok (lossy s) = true.
Proof. apply strict_ok, lossy_strict. Qed.

(* the replacement is real: an invalid byte becomes U+FFFD, a torn three-byte character one U+FFFD,
   an overlong form one per byte, and text around them survives *)
Example lossy_examples :
  lossy [255]%N = u_repl /\ lossy [97; 226; 130; 98]%N = [97]%N ++ u_repl ++ [98]%N /\
  lossy [192; 175]%N = u_repl ++ u_repl /\ lossy [226; 130; 172]%N = [226; 130; 172]%N /\
  lossy [237; 160; 128]%N = u_repl ++ u_repl ++ u_repl /\
  lossy [240; 159; 152; 128]%N = [240; 159; 152; 128]%N /\ lossy [244; 144; 128; 128]%N = u_repl ++ u_repl ++ u_repl ++ u_repl.
Proof. repeat split. Qed.
