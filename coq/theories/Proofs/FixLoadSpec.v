(* Vocabulary for Props/C14Start.v and Props/C01Loaded.v (definitions only). *)
From Coq Require Import String.
From N2 Require Import Model.All.

(* ---- the consumer edges (audit finding D6) ---- *)

(* what Graph::add_build leaves in the dependents list of file [i]: the ids of the steps, in
   order, each repeated once per occurrence of [i] among its inputs (explicit, implicit,
   order-only and validation inputs alike: lb_ins holds them all) *)
Fixpoint dependents_from (builds : list lbuild) (p : nat) (i : nat) : list nat :=
  match builds with
  | [] => []
  | b :: rest => repeat p (count_occ Nat.eq_dec (lb_ins b) i) ++ dependents_from rest (S p) i
  end.

Definition DInv (l : loader) : Prop :=
  forall i f, nth_error (l_files l) i = Some f -> lf_dependents f = dependents_from (l_builds l) 0 i.

(* ---- the World view of a loaded manifest (audit finding A8) ---- *)

Definition world_build (l : loader) (b : lbuild) : wbuild :=
  mkWBuild (map (file_nm l) (lb_ins b)) (lb_explicit_ins b) (lb_implicit_ins b) (lb_order_only_ins b)
           (map (file_nm l) (lb_outs b)) (lb_cmdline b) (lb_rspfile b).

Definition producer_entry (f : lfile) : list (bytes * nat) :=
  match lf_input f with Some p => [(lf_name f, p)] | None => [] end.

Definition world_graph_of (l : loader) : wgraph :=
  mkWGraph (map (world_build l) (l_builds l)) (flat_map producer_entry (l_files l)).
