(* C15 round trip: on a text that spells the abstract depfile [d] (DepfileSpec.spells_d) the
   parser returns [merge_targets d].

   Partial-correctness style: every lemma says "with whatever fuel, the function either runs out
   of fuel or returns this value in this state" ([pc]); DepfileSafe shows that the fuel given by
   [depfile_parse] is never exhausted, which closes the argument without fuel arithmetic.

   Scanner states are described by [at_ s pre suf]: the buffer is [pre ++ suf] and the offset is
   [length pre].  The buffer contains no '\r', so [sc_back] always steps back exactly one byte. *)
From Coq Require Import String.
From N2 Require Import Model.All Proofs.DepfileSpec Proofs.DepfileSafe.

Ltac norm_app := repeat rewrite <- app_assoc; cbn [app]; rewrite ?app_nil_r.

(* ------------------------------------------------------------------------------------ *)
(* facts about the specification vocabulary *)

Lemma path_char_spec c :
  path_char c = true -> c <> 0%N /\ c <> 32%N /\ c <> 10%N /\ c <> 13%N.
Proof.
  unfold path_char. intro H. apply negb_true_iff in H.
  apply orb_false_iff in H as [H H13]. apply orb_false_iff in H as [H H10].
  apply orb_false_iff in H as [H0 H32].
  apply N.eqb_neq in H0, H32, H10, H13. auto.
Qed.

Lemma term_chk_false x :
  x <> 0%N -> x <> 32%N -> x <> 10%N -> ((x =? 0) || (x =? 32) || (x =? 10))%N = false.
Proof.
  intros H0 H32 H10. apply N.eqb_neq in H0, H32, H10. now rewrite H0, H32, H10.
Qed.

Lemma good_path_head p :
  good_path p -> exists c r, p = c :: r /\ c <> 0%N /\ c <> 32%N /\ c <> 10%N /\ c <> 92%N.
Proof.
  intros (Hne & Hall & Hhd & _). destruct p as [|c r]; [contradiction|].
  exists c, r. split; [reflexivity|]. cbn in Hall. apply andb_true_iff in Hall as [Hc _].
  apply path_char_spec in Hc. cbn in Hhd. tauto.
Qed.

Lemma seps1_seps s : seps1 s -> seps s.
Proof. intros (a & b & Ha & Hb & ->). now constructor. Qed.

Lemma seps_app a b : seps a -> seps b -> seps (a ++ b).
Proof.
  induction 1 as [|x y Hx Hy IH]; intro Hb; [exact Hb|].
  rewrite <- app_assoc. constructor; auto.
Qed.

(* leading spaces of a separator run; the rest is empty or starts with backslash-newline *)
Lemma seps_split s :
  seps s -> exists n s', s = repeat 32%N n ++ s' /\ seps s' /\ (s' = [] \/ exists r, s' = 92%N :: 10%N :: r).
Proof.
  induction 1 as [|a b Ha Hb IH].
  - exists 0, []. split; [reflexivity|]. split; [constructor | now left].
  - destruct Ha.
    + destruct IH as (n & s' & -> & Hs' & Hhd). exists (S n), s'. auto.
    + exists 0, ([92; 10]%N ++ b). split; [reflexivity|]. split.
      * constructor; [constructor | exact Hb].
      * right. exists b. reflexivity.
Qed.

Lemma spaces_repeat sp : spaces sp -> sp = repeat 32%N (length sp).
Proof.
  induction sp as [|c r IH]; intro H; [reflexivity|].
  cbn. rewrite (H c (or_introl eq_refl)). f_equal. apply IH. intros x Hx. apply H. now right.
Qed.

Lemma blank_app a b : blank a -> blank b -> blank (a ++ b).
Proof. intros Ha Hb c Hc. apply in_app_or in Hc as [Hc|Hc]; auto. Qed.

Lemma filler_blank b f : blank b -> filler f -> filler (b ++ f).
Proof.
  intros Hb (b' & s & Hb' & Hs & ->). exists (b ++ b'), s.
  split; [now apply blank_app|]. split; [exact Hs | now rewrite app_assoc].
Qed.

(* canonical split of a filler: blank part, then separators that do not start with a space *)
Lemma filler_split f :
  filler f -> exists b s, f = b ++ s /\ blank b /\ seps s /\ (s = [] \/ exists r, s = 92%N :: 10%N :: r).
Proof.
  intros (b & s & Hb & Hs & ->).
  destruct (seps_split s Hs) as (n & s' & -> & Hs' & Hhd).
  exists (b ++ repeat 32%N n), s'. split; [now rewrite app_assoc|]. split; [|auto].
  apply blank_app; [exact Hb|]. intros c Hc. apply repeat_spec in Hc. now left.
Qed.

(* where a path may stop: NUL, space, newline, or backslash-newline *)
Definition term (T : bytes) : Prop :=
  exists c r, T = c :: r /\ (c = 0%N \/ c = 32%N \/ c = 10%N \/ (c = 92%N /\ exists r', r = 10%N :: r')).
(* where a prerequisite list stops: NUL or newline *)
Definition endT (T : bytes) : Prop := exists c r, T = c :: r /\ (c = 0%N \/ c = 10%N).

Lemma endT_term T : endT T -> term T.
Proof. intros (c & r & -> & [-> | ->]); eexists _, r; (split; [reflexivity|]); auto. Qed.

Lemma seps_term s T : seps s -> term T -> term (s ++ T).
Proof.
  intros Hs HT. destruct Hs as [|a b Ha Hb]; [exact HT|].
  destruct Ha; cbn [app].
  - exists 32%N, (b ++ T). auto.
  - exists 92%N, (10%N :: b ++ T). split; [reflexivity|]. right. right. right. split; [reflexivity|].
    now exists (b ++ T).
Qed.

Lemma seps_ne_term s X : seps s -> s <> [] -> term (s ++ X).
Proof.
  intros Hs Hne. destruct Hs as [|a b Ha Hb]; [contradiction|].
  destruct Ha; cbn [app]; rewrite <- ?app_assoc.
  - exists 32%N, (b ++ X). auto.
  - exists 92%N, (10%N :: b ++ X). split; [reflexivity|]. right. right. right. split; [reflexivity|].
    now exists (b ++ X).
Qed.

Lemma seps1_ne s : seps1 s -> s <> [].
Proof. intros (a & b & Ha & _ & ->). destruct Ha; discriminate. Qed.

(* prerequisites after the first, with the trailing separators included *)
Inductive dtail : list bytes -> bytes -> Prop :=
| dtl_end s : seps s -> dtail [] s
| dtl_more d ds s t : seps1 s -> good_path d -> dtail ds t -> dtail (d :: ds) (s ++ d ++ t).

(* all prerequisites of an entry, with the trailing separators included *)
Inductive dfirst : list bytes -> bytes -> Prop :=
| dfi_end s : seps s -> dfirst [] s
| dfi_more d ds s t : seps s -> good_path d -> dtail ds t -> dfirst (d :: ds) (s ++ d ++ t).

Lemma deps_text_dtail ds body tail : deps_text ds body -> seps tail -> dtail ds (body ++ tail).
Proof.
  induction 1 as [|d ds s t Hs Hd Ht IH]; intro Htail.
  - now constructor.
  - replace ((s ++ d ++ t) ++ tail) with (s ++ d ++ (t ++ tail)) by now norm_app.
    constructor; auto.
Qed.

Lemma dtail_term ds t T : dtail ds t -> endT T -> term (t ++ T).
Proof.
  intros H HT. destruct H as [s Hs|d ds s t Hs Hd Ht].
  - apply seps_term; [exact Hs | now apply endT_term].
  - rewrite <- app_assoc. apply seps_ne_term; [now apply seps1_seps | now apply seps1_ne].
Qed.

(* strip the leading spaces off a prerequisite text (they are eaten by Scanner::skip_spaces) *)
Lemma dfirst_split ds Z T :
  dfirst ds Z -> endT T ->
  exists n Z', Z = repeat 32%N n ++ Z' /\ dfirst ds Z' /\ exists c r, Z' ++ T = c :: r /\ c <> 32%N.
Proof.
  intros H (c0 & r0 & -> & Hc0). destruct H as [s Hs|d ds s t Hs Hd Ht].
  - destruct (seps_split s Hs) as (n & s' & -> & Hs' & Hhd). exists n, s'.
    split; [reflexivity|]. split; [now constructor|].
    destruct Hhd as [->|(r & ->)]; cbn [app].
    + exists c0, r0. split; [reflexivity|]. destruct Hc0 as [-> | ->]; discriminate.
    + eexists _, _. split; [reflexivity | discriminate].
  - destruct (seps_split s Hs) as (n & s' & -> & Hs' & Hhd). exists n, (s' ++ d ++ t).
    split; [now norm_app|]. split; [now constructor|].
    destruct Hhd as [->|(r & ->)]; cbn [app].
    + destruct (good_path_head d Hd) as (c & r & -> & _ & H32 & _). cbn [app].
      eexists _, _. split; [reflexivity | exact H32].
    + eexists _, _. split; [reflexivity | discriminate].
Qed.

Lemma good_target_colon t : good_target t -> good_path (t ++ [58%N]).
Proof.
  intros ((Hne & Hall & Hhd & Hlast) & _). split; [|split; [|split]].
  - destruct t; discriminate.
  - rewrite forallb_app, Hall. reflexivity.
  - destruct t as [|c r]; [contradiction | exact Hhd].
  - rewrite last_last. discriminate.
Qed.

Lemma strip_colon_yes t : strip_colon (t ++ [58%N]) = Some t.
Proof. unfold strip_colon. rewrite rev_app_distr. cbn. now rewrite rev_involutive. Qed.

Lemma strip_colon_no t : t <> [] -> last t 0%N <> 58%N -> strip_colon t = None.
Proof.
  intros Hne Hlast. unfold strip_colon.
  destruct (rev t) as [|x r] eqn:E.
  - reflexivity.
  - assert (Et : t = rev r ++ [x]) by (rewrite <- (rev_involutive t), E; reflexivity).
    rewrite Et, last_last in Hlast.
    destruct x as [|p]; [reflexivity|].
    do 6 (try destruct p as [p|p|]; try reflexivity).
    exfalso. apply Hlast. reflexivity.
Qed.

(* normal form of an entry text *)
Lemma entry_cases t ds et :
  entry_text (t, ds) et ->
  good_target t /\
  ((exists Z, et = t ++ [58%N] ++ Z /\ dfirst ds Z /\ (forall T, endT T -> term (Z ++ T))) \/
   (exists sp Z, et = t ++ sp ++ [58%N] ++ Z /\ spaces sp /\ sp <> [] /\ dfirst ds Z)).
Proof.
  intro H. inversion H as [t0 ds0 body tail Ht Hbody Htail | t0 ds0 sp body tail Ht Hsp Hne Hbody Htail];
    subst; (split; [exact Ht|]).
  - left. exists (body ++ tail). split; [reflexivity|].
    inversion Hbody as [|d ds' s t' Hs Hsne Hd Hrest]; subst.
    + split; [now constructor|]. intros T HT. apply seps_term; [exact Htail | now apply endT_term].
    + replace ((s ++ d ++ t') ++ tail) with (s ++ d ++ (t' ++ tail)) by now norm_app.
      split.
      * constructor; auto. now apply deps_text_dtail.
      * intros T HT. rewrite <- app_assoc. apply seps_ne_term; [exact Hs | now apply Hsne].
  - right. exists sp, (body ++ tail). split; [reflexivity|]. split; [exact Hsp|]. split; [exact Hne|].
    inversion Hbody as [|d ds' s t' Hs Hsne Hd Hrest]; subst.
    + now constructor.
    + replace ((s ++ d ++ t') ++ tail) with (s ++ d ++ (t' ++ tail)) by now norm_app.
      constructor; auto. now apply deps_text_dtail.
Qed.

(* no '\r' anywhere in a text that spells a depfile *)
Lemma seps_no13 s : seps s -> ~ In 13%N s.
Proof.
  induction 1 as [|a b Ha Hb IH]; [intros []|].
  intro Hin. apply in_app_or in Hin as [Hin|Hin]; [|auto].
  destruct Ha; cbn in Hin; intuition discriminate.
Qed.

Lemma blank_no13 b : blank b -> ~ In 13%N b.
Proof. intros H Hin. destruct (H _ Hin); discriminate. Qed.

Lemma good_path_no13 p : good_path p -> ~ In 13%N p.
Proof.
  intros (_ & Hall & _) Hin. rewrite forallb_forall in Hall. apply Hall in Hin. discriminate Hin.
Qed.

Lemma notin_app (x : N) a b : ~ In x a -> ~ In x b -> ~ In x (a ++ b).
Proof. intros Ha Hb Hin. apply in_app_or in Hin as [?|?]; auto. Qed.

Lemma dtail_no13 ds t : dtail ds t -> ~ In 13%N t.
Proof.
  induction 1 as [s Hs|d ds s t Hs Hd Ht IH].
  - now apply seps_no13.
  - repeat apply notin_app; auto using seps_no13, seps1_seps, good_path_no13.
Qed.

Lemma dfirst_no13 ds t : dfirst ds t -> ~ In 13%N t.
Proof.
  destruct 1 as [s Hs|d ds s t Hs Hd Ht].
  - now apply seps_no13.
  - repeat apply notin_app; eauto using seps_no13, good_path_no13, dtail_no13.
Qed.

Lemma filler_no13 f : filler f -> ~ In 13%N f.
Proof.
  intros (b & s & Hb & Hs & ->). apply notin_app; [now apply blank_no13 | now apply seps_no13].
Qed.

Lemma entry_no13 e et : entry_text e et -> ~ In 13%N et.
Proof.
  destruct e as [t ds]. intro H. destruct (entry_cases t ds et H) as ((Ht & _) & [(Z & -> & HZ & _)|(sp & Z & -> & Hsp & _ & HZ)]).
  - repeat apply notin_app; eauto using good_path_no13, dfirst_no13.
    cbn. intuition discriminate.
  - repeat apply notin_app; eauto using good_path_no13, dfirst_no13.
    + intro Hin. apply Hsp in Hin. discriminate.
    + cbn. intuition discriminate.
Qed.

Lemma spells_no13 d t : spells_d d t -> ~ In 13%N t.
Proof.
  induction 1 as [f Hf|e f et Hf He|e es f et rest Hf He Hr IH].
  - now apply filler_no13.
  - apply notin_app; [now apply filler_no13 | eapply entry_no13; eauto].
  - repeat apply notin_app; eauto using filler_no13, entry_no13.
    cbn. intuition discriminate.
Qed.

(* ------------------------------------------------------------------------------------ *)
(* partial correctness *)

Definition pc {A} (v : A) (Q : scanner -> Prop) (r : sres A) : Prop :=
  r = SFuel \/ exists s', r = SOk v s' /\ Q s'.

Lemma pc_step {A B} (P : sres B -> Prop) (r : sres A) (k : A -> scanner -> sres B) v Q :
  pc v Q r -> P SFuel -> (forall s', Q s' -> P (k v s')) -> P (sbind r k).
Proof.
  intros [->|(s' & -> & HQ)] HF HK; cbn [sbind]; auto.
Qed.

Lemma pc_mono {A} (v : A) (Q Q' : scanner -> Prop) r :
  pc v Q r -> (forall s, Q s -> Q' s) -> pc v Q' r.
Proof. intros [->|(s' & -> & HQ)] H; [now left | right; eauto]. Qed.

Lemma pc_fuel {A} (v : A) Q : pc v Q SFuel.
Proof. now left. Qed.

Lemma pc_ok {A} (v : A) (Q : scanner -> Prop) s : Q s -> pc v Q (SOk v s).
Proof. right; eauto. Qed.

Section Round.
  Variable buf : bytes.
  Hypothesis Hno13 : ~ In 13%N buf.

  Definition at_ (s : scanner) (pre suf : bytes) : Prop :=
    sbuf s = buf /\ pre ++ suf = buf /\ sofs s = length pre.

  Lemma at_eq s pre suf pre' suf' : at_ s pre suf -> pre = pre' -> suf = suf' -> at_ s pre' suf'.
  Proof. intros H -> ->. exact H. Qed.

  Lemma at_nth s pre c suf : at_ s pre (c :: suf) -> nth_error buf (length pre) = Some c.
  Proof.
    intros (_ & He & _). rewrite <- He, nth_error_app2, Nat.sub_diag by lia. reflexivity.
  Qed.

  Lemma read_at s pre c suf :
    at_ s pre (c :: suf) -> exists s', sc_read s = SOk c s' /\ at_ s' (pre ++ [c]) suf.
  Proof.
    intros Hat. pose proof (at_nth _ _ _ _ Hat) as En. destruct Hat as (Hb & He & Ho).
    unfold sc_read, sc_get. rewrite Hb, Ho, En. cbn [sbind]. rewrite Hb, Ho.
    destruct (Nat.eqb_spec (length pre) (length buf)) as [Heq|_].
    - rewrite <- He, app_length in Heq. cbn in Heq. lia.
    - eexists. split; [reflexivity|]. split; [reflexivity|]. split.
      + rewrite <- app_assoc. exact He.
      + cbn [sofs]. rewrite app_length. cbn. lia.
  Qed.

  Lemma peek_at s pre c suf : at_ s pre (c :: suf) -> sc_peek s = SOk c s.
  Proof.
    intros Hat. pose proof (at_nth _ _ _ _ Hat) as En. destruct Hat as (Hb & He & Ho).
    unfold sc_peek, sc_get. rewrite Hb, Ho, En. reflexivity.
  Qed.

  Lemma back_at s pre c suf :
    at_ s (pre ++ [c]) suf -> exists s', sc_back s = SOk tt s' /\ at_ s' pre (c :: suf).
  Proof.
    intros (Hb & He & Ho). rewrite <- app_assoc in He. cbn [app] in He.
    assert (En : nth_error buf (length pre) = Some c).
    { rewrite <- He, nth_error_app2, Nat.sub_diag by lia. reflexivity. }
    rewrite app_length in Ho. cbn [length] in Ho. rewrite Nat.add_1_r in Ho.
    unfold sc_back. rewrite Ho, Hb, En. cbv zeta.
    destruct (c =? 10)%N.
    - destruct (length pre) as [|o1] eqn:El.
      + eexists. split; [reflexivity|]. split; [reflexivity|]. split; [exact He | cbn; congruence].
      + rewrite match13.
        * eexists. split; [reflexivity|]. split; [reflexivity|]. split; [exact He | cbn; congruence].
        * intro E13. apply nth_error_In in E13. contradiction.
    - eexists. split; [reflexivity|]. split; [reflexivity|]. split; [exact He | reflexivity].
  Qed.

  (* read a byte and un-read it *)
  Lemma read_back_at s pre c suf :
    at_ s pre (c :: suf) ->
    exists s1 s2, sc_read s = SOk c s1 /\ sc_back s1 = SOk tt s2 /\ at_ s2 pre (c :: suf).
  Proof.
    intro Hat. destruct (read_at _ _ _ _ Hat) as (s1 & E1 & H1).
    destruct (back_at _ _ _ _ H1) as (s2 & E2 & H2). eauto.
  Qed.

  Lemma slice_at s pre P suf :
    at_ s (pre ++ P) suf -> sc_slice s (length pre) (length (pre ++ P)) = SOk P s.
  Proof.
    intros (Hb & He & Ho). unfold sc_slice. rewrite Hb.
    assert (E1 : (length pre <=? length (pre ++ P)) = true) by (apply Nat.leb_le; rewrite app_length; lia).
    assert (E2 : (length (pre ++ P) <=? length buf) = true)
      by (apply Nat.leb_le; rewrite <- He, !app_length; lia).
    rewrite E1, E2. cbn [andb]. f_equal.
    rewrite <- He, <- app_assoc, skipn_app, skipn_all, Nat.sub_diag. cbn [app skipn].
    replace (length (pre ++ P) - length pre) with (length P) by (rewrite app_length; lia).
    rewrite firstn_app, firstn_all, Nat.sub_diag. cbn. now rewrite app_nil_r.
  Qed.

  (* -------------------------------------------------------------------------------- *)

  Lemma skip_spaces_seps X :
    seps X -> forall pre c suf s f, at_ s pre (X ++ c :: suf) -> c <> 32%N -> c <> 92%N ->
    pc tt (fun s' => at_ s' (pre ++ X) (c :: suf)) (df_skip_spaces f s).
  Proof.
    induction 1 as [|a b Ha Hb IH]; intros pre c suf s f Hat H32 H92;
      (destruct f as [|f]; [apply pc_fuel|]); cbn [df_skip_spaces].
    - cbn [app] in Hat. destruct (read_back_at _ _ _ _ Hat) as (s1 & s2 & E1 & E2 & H2).
      rewrite E1. cbn [sbind].
      apply N.eqb_neq in H32, H92. rewrite H32, H92, E2. cbn [sbind].
      apply pc_ok. now rewrite app_nil_r.
    - destruct Ha.
      + cbn [app] in Hat. destruct (read_at _ _ _ _ Hat) as (s1 & E1 & H1).
        rewrite E1. cbn [sbind]. change (32 =? 32)%N with true. cbv iota.
        eapply pc_mono; [apply (IH (pre ++ [32%N]) c suf s1 f H1 H32 H92)|].
        intros s' Hs'. eapply at_eq; [exact Hs' | now norm_app | reflexivity].
      + cbn [app] in Hat. destruct (read_at _ _ _ _ Hat) as (s1 & E1 & H1).
        rewrite E1. cbn [sbind]. change (92 =? 32)%N with false. change (92 =? 92)%N with true. cbv iota.
        destruct (read_at _ _ _ _ H1) as (s2 & E2 & H2).
        rewrite E2. cbn [sbind]. change (10 =? 10)%N with true. cbv iota.
        eapply pc_mono; [apply (IH ((pre ++ [92%N]) ++ [10%N]) c suf s2 f H2 H32 H92)|].
        intros s' Hs'. eapply at_eq; [exact Hs' | now norm_app | reflexivity].
  Qed.

  Lemma path_loop_at P :
    forallb path_char P = true -> last P 0%N <> 92%N ->
    forall pre s f T, at_ s pre (P ++ T) -> term T ->
    pc tt (fun s' => at_ s' (pre ++ P) T) (df_read_path_loop f s).
  Proof.
    induction P as [|x P IH]; intros Hpc Hlast pre s f T Hat HT;
      (destruct f as [|f]; [apply pc_fuel|]); cbn [df_read_path_loop].
    - destruct HT as (c & r & -> & HT). cbn [app] in Hat.
      destruct (read_at _ _ _ _ Hat) as (s1 & E1 & H1). rewrite E1. cbn [sbind].
      destruct (back_at _ _ _ _ H1) as (s2 & E2 & H2).
      assert (Hback : pc tt (fun s' => at_ s' (pre ++ []) (c :: r)) (sc_back s1)).
      { rewrite E2. apply pc_ok. now rewrite app_nil_r. }
      destruct HT as [->|[->|[->|(-> & r' & ->)]]]; try exact Hback.
      change ((92 =? 0) || (92 =? 32) || (92 =? 10))%N with false. change (92 =? 92)%N with true. cbv iota.
      rewrite (peek_at _ _ _ _ H1). cbn [sbind]. change (10 =? 10)%N with true. cbv iota.
      exact Hback.
    - cbn [forallb] in Hpc. apply andb_true_iff in Hpc as [Hx Hpc].
      apply path_char_spec in Hx as (Hx0 & Hx32 & Hx10 & _).
      cbn [app] in Hat.
      destruct (read_at _ _ _ _ Hat) as (s1 & E1 & H1). rewrite E1. cbn [sbind].
      rewrite term_chk_false by assumption.
      assert (Hlast' : last P 0%N <> 92%N).
      { destruct P as [|y P']; [discriminate | exact Hlast]. }
      assert (Hrec : pc tt (fun s' => at_ s' (pre ++ x :: P) T) (df_read_path_loop f s1)).
      { eapply pc_mono; [apply (IH Hpc Hlast' (pre ++ [x]) s1 f T H1 HT)|].
        intros s' Hs'. eapply at_eq; [exact Hs' | now norm_app | reflexivity]. }
      destruct (N.eqb_spec x 92) as [->|Hx92]; [|exact Hrec].
      destruct P as [|y P']; [exfalso; apply Hlast; reflexivity|].
      cbn [app] in H1. rewrite (peek_at _ _ _ _ H1). cbn [sbind].
      cbn [forallb] in Hpc. apply andb_true_iff in Hpc as [Hy _].
      apply path_char_spec in Hy as (_ & _ & Hy10 & _).
      apply N.eqb_neq in Hy10. rewrite Hy10. exact Hrec.
  Qed.

  Lemma read_path_some X P T pre s f :
    seps X -> good_path P -> term T -> at_ s pre (X ++ P ++ T) ->
    pc (Some P) (fun s' => at_ s' (pre ++ X ++ P) T) (df_read_path f s).
  Proof.
    intros HX HP HT Hat. unfold df_read_path.
    destruct (good_path_head P HP) as (c & r & EP & _ & Hc32 & _ & Hc92).
    destruct HP as (Hne & Hall & _ & Hlast).
    eapply pc_step.
    - apply (skip_spaces_seps X HX pre c (r ++ T)); [|exact Hc32 | exact Hc92].
      rewrite EP in Hat. exact Hat.
    - apply pc_fuel.
    - intros s1 H1. cbv beta.
      assert (H1' : at_ s1 (pre ++ X) (P ++ T)) by (rewrite EP; exact H1).
      eapply pc_step.
      + apply (path_loop_at P Hall Hlast (pre ++ X) s1 f T H1' HT).
      + apply pc_fuel.
      + intros s2 H2. cbv beta.
        destruct H1' as (_ & _ & Ho1). pose proof H2 as (_ & _ & Ho2). rewrite Ho1, Ho2.
        destruct (Nat.eqb_spec (length ((pre ++ X) ++ P)) (length (pre ++ X))) as [Heq|_].
        * rewrite app_length in Heq. destruct P; [contradiction | cbn in Heq; lia].
        * rewrite (slice_at _ _ _ _ H2). cbn [sbind]. apply pc_ok.
          eapply at_eq; [exact H2 | now norm_app | reflexivity].
  Qed.

  Lemma read_path_none X T pre s f :
    seps X -> endT T -> at_ s pre (X ++ T) ->
    pc None (fun s' => at_ s' (pre ++ X) T) (df_read_path f s).
  Proof.
    intros HX HT Hat. unfold df_read_path.
    pose proof (endT_term T HT) as HT'.
    destruct HT as (c & r & -> & Hc).
    assert (Hc' : c <> 32%N /\ c <> 92%N) by (destruct Hc as [-> | ->]; split; discriminate).
    destruct Hc' as [Hc32 Hc92].
    eapply pc_step.
    - apply (skip_spaces_seps X HX pre c r); [exact Hat | exact Hc32 | exact Hc92].
    - apply pc_fuel.
    - intros s1 H1. cbv beta.
      eapply pc_step.
      + apply (path_loop_at [] eq_refl ltac:(discriminate) (pre ++ X) s1 f (c :: r) H1 HT').
      + apply pc_fuel.
      + intros s2 H2. cbv beta. rewrite app_nil_r in H2.
        destruct H1 as (_ & _ & Ho1). pose proof H2 as (_ & _ & Ho2). rewrite Ho1, Ho2.
        rewrite Nat.eqb_refl. apply pc_ok. exact H2.
  Qed.

  Lemma skip_blank_at b :
    blank b -> forall pre c suf s f, at_ s pre (b ++ c :: suf) -> c <> 32%N -> c <> 10%N ->
    pc tt (fun s' => at_ s' (pre ++ b) (c :: suf)) (df_skip_blank f s).
  Proof.
    induction b as [|x b IH]; intros Hb pre c suf s f Hat H32 H10;
      (destruct f as [|f]; [apply pc_fuel|]); cbn [df_skip_blank]; cbn [app] in Hat;
      rewrite (peek_at _ _ _ _ Hat); cbn [sbind].
    - apply N.eqb_neq in H32, H10. rewrite H32, H10. cbn [orb]. apply pc_ok. now rewrite app_nil_r.
    - assert (Ex : ((x =? 32) || (x =? 10))%N = true).
      { destruct (Hb x (or_introl eq_refl)) as [-> | ->]; reflexivity. }
      rewrite Ex. destruct (read_at _ _ _ _ Hat) as (s1 & E1 & H1). rewrite E1. cbn [sbind].
      eapply pc_mono; [apply (IH (fun y Hy => Hb y (or_intror Hy)) (pre ++ [x]) c suf s1 f H1 H32 H10)|].
      intros s' Hs'. eapply at_eq; [exact Hs' | now norm_app | reflexivity].
  Qed.

  Lemma sc_skip_spaces_at n :
    forall pre c suf s f, at_ s pre (repeat 32%N n ++ c :: suf) -> c <> 32%N ->
    pc tt (fun s' => at_ s' (pre ++ repeat 32%N n) (c :: suf)) (sc_skip_spaces f s).
  Proof.
    induction n as [|n IH]; intros pre c suf s f Hat H32;
      (destruct f as [|f]; [apply pc_fuel|]); cbn [sc_skip_spaces]; unfold sc_skip; cbn [repeat app] in Hat.
    - destruct (read_back_at _ _ _ _ Hat) as (s1 & s2 & E1 & E2 & H2).
      rewrite E1. cbn [sbind]. apply N.eqb_neq in H32. rewrite H32, E2. cbn [sbind].
      apply pc_ok. cbn [repeat]. now rewrite app_nil_r.
    - destruct (read_at _ _ _ _ Hat) as (s1 & E1 & H1). rewrite E1. cbn [sbind].
      change (32 =? 32)%N with true. cbn [sbind].
      eapply pc_mono; [apply (IH (pre ++ [32%N]) c suf s1 f H1 H32)|].
      intros s' Hs'. eapply at_eq; [exact Hs' | cbn [repeat]; now norm_app | reflexivity].
  Qed.

  Lemma expect_at s pre c suf :
    at_ s pre (c :: suf) -> exists s', sc_expect c s = SOk tt s' /\ at_ s' (pre ++ [c]) suf.
  Proof.
    intro Hat. destruct (read_at _ _ _ _ Hat) as (s1 & E1 & H1).
    unfold sc_expect. rewrite E1. cbn [sbind]. rewrite N.eqb_refl. eauto.
  Qed.

  Lemma read_deps_tail ds Z :
    dtail ds Z -> forall pre s f acc T, endT T -> at_ s pre (Z ++ T) ->
    pc (rev acc ++ ds) (fun s' => at_ s' (pre ++ Z) T) (df_read_deps f s acc).
  Proof.
    induction 1 as [X HX|d ds X t HX Hd Ht IH]; intros pre s f acc T HT Hat;
      (destruct f as [|f]; [apply pc_fuel|]); cbn [df_read_deps].
    - eapply pc_step; [apply (read_path_none X T pre s f HX HT Hat) | apply pc_fuel|].
      intros s1 H1. cbv beta iota. rewrite app_nil_r. apply pc_ok. exact H1.
    - assert (Hat' : at_ s pre (X ++ d ++ (t ++ T))) by (eapply at_eq; [exact Hat | reflexivity | now norm_app]).
      eapply pc_step;
        [apply (read_path_some X d (t ++ T) pre s f (seps1_seps _ HX) Hd (dtail_term _ _ _ Ht HT) Hat')
        | apply pc_fuel|].
      intros s1 H1. cbv beta iota.
      replace (rev acc ++ d :: ds) with (rev (d :: acc) ++ ds) by (cbn [rev]; now norm_app).
      eapply pc_mono; [apply (IH (pre ++ X ++ d) s1 f (d :: acc) T HT H1)|].
      intros s' Hs'. eapply at_eq; [exact Hs' | now norm_app | reflexivity].
  Qed.

  Lemma read_deps_first ds Z :
    dfirst ds Z -> forall pre s f T, endT T -> at_ s pre (Z ++ T) ->
    pc ds (fun s' => at_ s' (pre ++ Z) T) (df_read_deps f s []).
  Proof.
    destruct 1 as [X HX|d ds X t HX Hd Ht]; intros pre s f T HT Hat.
    - apply (read_deps_tail [] X (dtl_end X HX) pre s f [] T HT Hat).
    - destruct f as [|f]; [apply pc_fuel|]. cbn [df_read_deps].
      assert (Hat' : at_ s pre (X ++ d ++ (t ++ T))) by (eapply at_eq; [exact Hat | reflexivity | now norm_app]).
      eapply pc_step;
        [apply (read_path_some X d (t ++ T) pre s f HX Hd (dtail_term _ _ _ Ht HT) Hat')
        | apply pc_fuel|].
      intros s1 H1. cbv beta iota.
      eapply pc_mono; [apply (read_deps_tail ds t Ht (pre ++ X ++ d) s1 f [d] T HT H1)|].
      intros s' Hs'. eapply at_eq; [exact Hs' | now norm_app | reflexivity].
  Qed.

  (* -------------------------------------------------------------------------------- *)
  (* the main loop *)

  Definition ext (acc : list (bytes * list bytes)) (e : bytes * list bytes) :=
    smallmap_extend (fst e) (snd e) acc.

  (* the loop's blank/separator skipping in front of a token or the end *)
  Lemma filler_skip fl c suf pre s f :
    filler fl -> at_ s pre (fl ++ c :: suf) -> c <> 32%N -> c <> 10%N -> c <> 92%N ->
    exists b X, fl = b ++ X /\ seps X /\
      pc tt (fun s' => at_ s' (pre ++ b) (X ++ c :: suf)) (df_skip_blank f s).
  Proof.
    intros Hfl Hat H32 H10 H92.
    destruct (filler_split fl Hfl) as (b & X & -> & Hb & HX & Hhd).
    exists b, X. split; [reflexivity|]. split; [exact HX|].
    destruct Hhd as [->|(r & ->)].
    - cbn [app]. apply skip_blank_at; auto. eapply at_eq; [exact Hat | reflexivity | now norm_app].
    - cbn [app]. apply skip_blank_at; auto; [|discriminate|discriminate].
      eapply at_eq; [exact Hat | reflexivity | now norm_app].
  Qed.

  Definition donep (acc : list (bytes * list bytes)) (r : sres (list (bytes * list bytes))) : Prop :=
    pc acc (fun _ => True) r.

  Lemma nil_step fl pre suf s f acc :
    filler fl -> at_ s pre (fl ++ 0%N :: suf) -> donep acc (df_parse_loop true f s acc).
  Proof.
    intros Hfl Hat. destruct f as [|f]; [apply pc_fuel|]. cbn [df_parse_loop].
    destruct (filler_skip fl 0%N suf pre s f Hfl Hat) as (b & X & -> & HX & Hsk); try discriminate.
    unfold donep.
    eapply pc_step; [exact Hsk | apply pc_fuel|].
    intros s1 H1. cbv beta.
    eapply pc_step.
    - apply (read_path_none X (0%N :: suf) (pre ++ b) s1 f HX); [|exact H1].
      exists 0%N, suf. auto.
    - apply pc_fuel.
    - intros s2 H2. cbv beta iota.
      destruct (expect_at _ _ _ _ H2) as (s3 & E3 & _). rewrite E3. cbn [sbind].
      apply pc_ok. exact I.
  Qed.

  (* one entry = one iteration of the loop *)
  Definition stepp f acc' (Q : scanner -> Prop) (r : sres (list (bytes * list bytes))) : Prop :=
    r = SFuel \/ exists s', Q s' /\ r = df_parse_loop true f s' acc'.

  Lemma entry_step fl t ds et T pre s f acc :
    filler fl -> entry_text (t, ds) et -> endT T -> at_ s pre (fl ++ et ++ T) ->
    stepp f (smallmap_extend t ds acc) (fun s' => at_ s' (pre ++ fl ++ et) T)
          (df_parse_loop true (S f) s acc).
  Proof.
    intros Hfl Het HT Hat. cbn [df_parse_loop].
    destruct (entry_cases t ds et Het) as (Hgt & Hcases).
    pose proof Hgt as (Hgp & Hlast58).
    destruct (good_path_head t Hgp) as (c & tr & Et & _ & Hc32 & Hc10 & Hc92).
    assert (Eet : exists etr, et = c :: etr).
    { destruct Hcases as [(Z & -> & _)|(sp & Z & -> & _)]; rewrite Et; cbn [app]; eauto. }
    destruct Eet as (etr & Eet).
    assert (Hat0 : at_ s pre (fl ++ c :: (etr ++ T))) by (rewrite Eet in Hat; exact Hat).
    destruct (filler_skip fl c (etr ++ T) pre s f Hfl Hat0 Hc32 Hc10 Hc92) as (b & X & Efl & HX & Hsk).
    apply (pc_step (stepp f _ _)) with (1 := Hsk); [now left|].
    intros s1 H1. cbv beta.
    assert (H1' : at_ s1 (pre ++ b) (X ++ et ++ T)) by (rewrite Eet; exact H1).
    assert (Hpre : forall Y, (pre ++ b) ++ X ++ Y = pre ++ fl ++ Y) by (intro Y; rewrite Efl; now norm_app).
    destruct Hcases as [(Z & Ez & HZ & HZterm)|(sp & Z & Ez & Hsp & Hspne & HZ)].
    - (* "t:" *)
      assert (H1a : at_ s1 (pre ++ b) (X ++ (t ++ [58%N]) ++ (Z ++ T))).
      { eapply at_eq; [exact H1' | reflexivity | rewrite Ez; now norm_app]. }
      eapply pc_step;
        [apply (read_path_some X (t ++ [58%N]) (Z ++ T) (pre ++ b) s1 f HX (good_target_colon t Hgt)
                               (HZterm T HT) H1a)
        | now left|].
      intros s2 H2. cbv beta iota.
      destruct (dfirst_split ds Z T HZ HT) as (n & Z' & EZ & HZ' & c' & r' & EZT & Hc').
      assert (H2a : at_ s2 ((pre ++ b) ++ X ++ t ++ [58%N]) (repeat 32%N n ++ c' :: r')).
      { eapply at_eq; [exact H2 | reflexivity|]. rewrite <- EZT, EZ. now norm_app. }
      eapply pc_step; [apply (sc_skip_spaces_at n _ c' r' s2 f H2a Hc') | now left|].
      intros s3 H3. cbv beta.
      rewrite strip_colon_yes. cbn [sbind].
      assert (H3a : at_ s3 (((pre ++ b) ++ X ++ t ++ [58%N]) ++ repeat 32%N n) (Z' ++ T))
        by (rewrite EZT; exact H3).
      eapply pc_step; [apply (read_deps_first ds Z' HZ' _ s3 f T HT H3a) | now left|].
      intros s4 H4. cbv beta. right. exists s4. split; [|reflexivity].
      eapply at_eq; [exact H4 | | reflexivity]. rewrite Ez, EZ, Efl. now norm_app.
    - (* "t   :" *)
      assert (Hterm : term (sp ++ [58%N] ++ Z ++ T)).
      { destruct sp as [|x sp']; [contradiction|]. rewrite (Hsp x (or_introl eq_refl)).
        cbn [app]. eexists _, _. split; [reflexivity|]. auto. }
      assert (H1a : at_ s1 (pre ++ b) (X ++ t ++ (sp ++ [58%N] ++ Z ++ T))).
      { eapply at_eq; [exact H1' | reflexivity | rewrite Ez; now norm_app]. }
      eapply pc_step;
        [apply (read_path_some X t _ (pre ++ b) s1 f HX Hgp Hterm H1a) | now left|].
      intros s2 H2. cbv beta iota.
      assert (H2a : at_ s2 ((pre ++ b) ++ X ++ t) (repeat 32%N (length sp) ++ 58%N :: (Z ++ T))).
      { eapply at_eq; [exact H2 | reflexivity|]. rewrite <- (spaces_repeat sp Hsp). reflexivity. }
      eapply pc_step; [apply (sc_skip_spaces_at _ _ 58%N (Z ++ T) s2 f H2a); discriminate | now left|].
      intros s3 H3. cbv beta.
      rewrite strip_colon_no; [|rewrite Et; discriminate | exact Hlast58].
      destruct (expect_at _ _ _ _ H3) as (s4 & E4 & H4). rewrite E4. cbn [sbind].
      eapply pc_step; [apply (read_deps_first ds Z HZ _ s4 f T HT H4) | now left|].
      intros s5 H5. cbv beta. right. exists s5. split; [|reflexivity].
      eapply at_eq; [exact H5 | | reflexivity].
      rewrite <- (spaces_repeat sp Hsp), Ez, Efl. now norm_app.
  Qed.

  Lemma loop_spells d t :
    spells_d d t -> forall b0 pre s acc f, blank b0 -> at_ s pre (b0 ++ t ++ [0%N]) ->
    donep (fold_left ext d acc) (df_parse_loop true f s acc).
  Proof.
    induction 1 as [fl Hfl|e fl et Hfl Het|e es fl et rest Hfl Het Hrest IH];
      intros b0 pre s acc f Hb0 Hat.
    - cbn [fold_left]. apply (nil_step (b0 ++ fl) pre [] s f acc (filler_blank _ _ Hb0 Hfl)).
      eapply at_eq; [exact Hat | reflexivity | now norm_app].
    - destruct f as [|f]; [apply pc_fuel|]. destruct e as [t ds]. cbn [fold_left].
      assert (HT : endT [0%N]) by (exists 0%N, []; auto).
      assert (Hat' : at_ s pre ((b0 ++ fl) ++ et ++ [0%N])) by (eapply at_eq; [exact Hat | reflexivity | now norm_app]).
      destruct (entry_step (b0 ++ fl) t ds et [0%N] pre s f acc (filler_blank _ _ Hb0 Hfl) Het HT Hat')
        as [E|(s' & Hs' & E)]; rewrite E; [apply pc_fuel|].
      unfold ext at 1. cbn [fst snd].
      apply (nil_step [] _ [] s' f _ ltac:(exists [], []; repeat split; [intros ? [] | constructor]) Hs').
    - destruct f as [|f]; [apply pc_fuel|]. destruct e as [t ds]. cbn [fold_left].
      assert (HT : endT ([10%N] ++ rest ++ [0%N])) by (exists 10%N, (rest ++ [0%N]); auto).
      assert (Hat' : at_ s pre ((b0 ++ fl) ++ et ++ ([10%N] ++ rest ++ [0%N])))
        by (eapply at_eq; [exact Hat | reflexivity | now norm_app]).
      destruct (entry_step (b0 ++ fl) t ds et _ pre s f acc (filler_blank _ _ Hb0 Hfl) Het HT Hat')
        as [E|(s' & Hs' & E)]; rewrite E; [apply pc_fuel|].
      unfold ext at 1. cbn [fst snd].
      eapply (IH [10%N] _ s' _ f); [intros x [<-|[]]; now right | exact Hs'].
  Qed.
End Round.

(* ------------------------------------------------------------------------------------ *)

Lemma depfile_roundtrip d t : spells_d d t -> depfile_parse t = Ok (merge_targets d).
Proof.
  intro H. unfold depfile_parse, depfile_parse_gen. rewrite sc_new_nul. cbn [bind].
  pose proof (parse_loop_final true t) as Hfin.
  assert (Hno13 : ~ In 13%N (t ++ [0%N])).
  { apply notin_app; [eapply spells_no13; eauto | cbn; intuition discriminate]. }
  assert (Hat : at_ (t ++ [0%N]) (mkScanner (t ++ [0%N]) 0 1) [] ([] ++ t ++ [0%N])).
  { split; [reflexivity|]. split; reflexivity. }
  pose proof (loop_spells (t ++ [0%N]) Hno13 d t H [] [] _ [] (df_fuel t) ltac:(intros ? []) Hat) as Hpc.
  destruct Hpc as [E|(s' & E & _)]; rewrite E in *; [contradiction Hfin | reflexivity].
Qed.
