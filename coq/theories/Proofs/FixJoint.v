(* Repairs of audit findings A6 and A7 (Props/C03Local.v).
   A6: the World theorems C02_never_skips_changed_tree, C03_clean_after_record and
       C03_adopt_counts_as_up_to_date with the global premise [cache_consistent w2] replaced by
       consistency on the names the check reads; the joint invariants deliver that local fact,
       so the premise disappears for the states of a jointly accepted trace.
   A7: J1 / J3 from a start state that satisfies J1 / J3 (instead of "nothing is Done and the
       cache is empty"), and across the two phases of an invocation that reuses its Work. *)
From Coq Require Import Lia ZArith List Bool Arith.
From N2 Require Import Model.All Proofs.SchedSpec Proofs.SchedInv Proofs.SchedRunRInv Proofs.SchedRunFinal
     Proofs.SchedWantInv.
From N2 Require Import Proofs.DbSpec Proofs.WorldSpec Proofs.WorldBase Proofs.WorldDeps Proofs.WorldDirty
     Proofs.WorldHash Proofs.WorldLocal.
From N2 Require Import Proofs.JointSpec Proofs.JointBase Proofs.JointSched Proofs.JointInv Proofs.JointThms
     Proofs.JointProps.
From N2 Require Import Proofs.AuditFindings.
Import ListNotations.

(* ------------------------------------------------------------------------------------ *)
(* A6, World side *)

Lemma adopt_counts_as_up_to_date_local : forall g w b bd w1 h w2,
  record_finished w b bd None = Ok (w1, Some h) -> wb_cmdline bd <> None ->
  ws_fs w2 = ws_fs w1 ->
  local_consistent w2 (wb_dirtying bd ++ disc_of w2 b ++ wb_outs bd) ->
  assoc_nat b (ws_hashes w2) = Some h -> disc_of w2 b = disc_of w1 b ->
  stated_generated g w2 (wb_dirtying bd ++ disc_of w1 b) ->
  snd (check_build_dirty g w2 b bd) = DClean /\ disc_of w1 b = [].
Proof.
  intros g w b bd w1 h w2 E Hc Hf L Hh Hd Hs. split.
  - eapply A6_clean_after_record_local; eassumption.
  - pose proof (replace_wholesale _ _ _ _ _ _ E) as (Hk & _). cbn in Hk. now injection Hk.
Qed.

Definition names_eq_dec : forall a b : list bytes, {a = b} + {a <> b} := list_eq_dec (list_eq_dec N.eq_dec).

Lemma never_skips_changed_tree_local : forall g w b bd reported w1 h bd' w2 w2' r m0 n t0,
  record_finished w b bd reported = Ok (w1, Some h) ->
  manifest_of w1 bd (disc_of w1 b) = Some m0 -> wf_manifest m0 = true ->
  check_build_dirty g w2 b bd' = (w2', r) -> wb_cmdline bd' <> None ->
  assoc_nat b (ws_hashes w2) = Some h ->
  wb_rsp bd' = wb_rsp bd ->
  (forall m, manifest_of w2' bd' (disc_of w2 b) = Some m -> wf_manifest m = true /\ no_collision m m0) ->
  local_consistent w2 (wb_dirtying bd' ++ disc_of w2 b ++ wb_outs bd') ->
  In (n, t0) (mf_ins m0 ++ mf_discovered m0 ++ mf_outs m0) -> fs_get (ws_fs w2) n <> Some t0 ->
  r <> DClean.
Proof.
  intros g w b bd reported w1 h bd' w2 w2' r m0 n t0 Er Hm0 W0 Ec Hc Hh Hrsp Hwf L Hin Hfs Hr.
  subst r.
  refine (never_skips_changed _ _ _ _ _ _ _ _ _ _ _ _ Er Hm0 W0 Ec Hc Hh Hrsp Hwf _ eq_refl).
  destruct (names_eq_dec (wb_dirtying bd') (map fst (mf_ins m0))) as [E1|N1]; [|right; left; exact N1].
  destruct (names_eq_dec (disc_of w2 b) (map fst (mf_discovered m0))) as [E2|N2]; [|right; right; left; exact N2].
  destruct (names_eq_dec (wb_outs bd') (map fst (mf_outs m0))) as [E3|N3]; [|right; right; right; left; exact N3].
  left. exists n, t0. split; [exact Hin|]. intro Hcg.
  destruct (clean_has_manifest _ _ _ _ _ _ Ec Hc Hh) as (X & _).
  destruct X as (F & _ & _ & _ & _ & C).
  destruct (C n) as [E|E]; rewrite E in Hcg.
  - apply Hfs. symmetry. apply (L n); [|exact Hcg].
    rewrite E1, E2, E3, <- !map_app. apply (in_map fst) in Hin. exact Hin.
  - injection Hcg as Hcg. congruence.
Qed.

(* ------------------------------------------------------------------------------------ *)
(* joint side *)

Lemma reach_accepts' cf decls : forall tr r r',
  reachable cf decls r -> accepts cf r tr = Some r' -> reachable cf decls r'.
Proof.
  induction tr as [|e tr IH]; intros r r' Hr H; cbn [accepts] in H.
  - injection H as <-. exact Hr.
  - destruct (accept1 cf r e) as [r1|] eqn:E; [|discriminate]. apply (IH r1); [|exact H].
    eapply reach_step; eassumption.
Qed.

Section J.
Variable cf : config.
Variable decls : list (bytes * nat).
Variable wg : wgraph.
Notation g := (cf_graph cf).
Notation nb := (length (g_builds (cf_graph cf))).
Hypothesis Hwf : graph_wf g.
Hypothesis Hag : graphs_agree g wg.

(* J1 and J3 as properties of a pair of states *)
Definition J1 (r : rstate) (w : wstate) : Prop :=
  forall b o, get_state (rs_bs r) b = Done -> In o (wb_outs (get_wbuild wg b)) ->
              cache_get (ws_cache w) o = Some (fs_get (ws_fs w) o).
Definition J3 (r : rstate) (w : wstate) : Prop :=
  forall n v, cache_get (ws_cache w) n = Some v ->
    v = fs_get (ws_fs w) n \/
    exists p, producer_of wg n = Some p /\ In n (wb_outs (get_wbuild wg p)) /\
              (get_state (rs_bs r) p = Running \/ get_state (rs_bs r) p = Failed).

(* the start of a Work that satisfies the invariant *)
Definition inv_start (r0 : rstate) (w0 : wstate) : Prop :=
  RInv cf decls r0 /\ rs_ctl r0 = CIdle /\ J1 r0 w0 /\ J3 r0 w0.

Lemma fresh_start_inv_start r0 w0 : fresh_start cf decls r0 w0 -> inv_start r0 w0.
Proof.
  intros (R & Hc & Hd & Hca). split; [exact R|]. split; [exact Hc|]. split.
  - intros b o Eb. destruct (Hd b Eb).
  - intros n v Hv. rewrite Hca in Hv. discriminate Hv.
Qed.

Lemma outs_in_range p n : In n (wb_outs (get_wbuild wg p)) -> p < nb.
Proof.
  intro H. destruct (Nat.lt_ge_cases p nb) as [L|G]; [exact L|exfalso].
  unfold get_wbuild in H. rewrite nth_overflow in H by (rewrite (ga_len _ _ Hag); exact G). exact H.
Qed.

Lemma JInv_init_gen r0 w0 : inv_start r0 w0 -> JInv cf decls wg (jinit r0 w0).
Proof.
  intros (R & Hc & H1 & H3). constructor; cbn [jinit j_r j_w j_aw j_run].
  - exact R.
  - rewrite Hc. reflexivity.
  - intros x [].
  - intros n v Hv. destruct (H3 n v Hv) as [E|(p & _ & Ip & Sp)]; [now left|right].
    exists p. split; [exact (outs_in_range p n Ip)|]. split; [exact Ip|].
    destruct Sp as [Sp|Sp]; [left; split; [exact Sp|rewrite Hc; discriminate] | right; exact Sp].
  - intros b Eb o Ho. exact (H1 b o Eb Ho).
  - unfold focus_ok. rewrite Hc. exact I.
Qed.

Lemma jaccepted_JInv_gen r0 w0 tr r w :
  inv_start r0 w0 -> jaccepted cf wg r0 w0 tr r w -> writes_ok wg [] tr ->
  exists a, JInv cf decls wg a /\ j_r a = r /\ j_w a = w.
Proof.
  intros Hs Ha Ho.
  apply jaccepted_jrun in Ha; [|exact Ho]. apply jrun_end in Ha. destruct Ha as (b & Hr & Er & Ew).
  exists b. split; [|auto].
  apply (JInv_reach cf decls wg Hag _ _ _ (JInv_init_gen r0 w0 Hs) Hr).
Qed.

Lemma JInv_J1 a : JInv cf decls wg a -> J1 (j_r a) (j_w a).
Proof. intros Hinv b o Eb Io. exact (ji_done _ _ _ _ Hinv b Eb o Io). Qed.

Lemma JInv_J3 a : JInv cf decls wg a -> J3 (j_r a) (j_w a).
Proof.
  intros Hinv n v Hv. destruct (ji_cache _ _ _ _ Hinv n v Hv) as [E|(p & Lp & Ip & Sp)]; [now left|right].
  exists p. split; [exact (outs_producer g wg Hag p n Lp Ip)|]. split; [exact Ip|].
  destruct Sp as [[E _]|E]; auto.
Qed.

(* A7: the invariant is kept from any start that has it *)
Theorem invariant_kept r0 w0 tr r w :
  inv_start r0 w0 -> jaccepted cf wg r0 w0 tr r w -> writes_ok wg [] tr -> J1 r w /\ J3 r w.
Proof.
  intros Hs Ha Ho. destruct (jaccepted_JInv_gen _ _ _ _ _ Hs Ha Ho) as (a & Hinv & <- & <-).
  split; [now apply JInv_J1 | now apply JInv_J3].
Qed.

(* the facts at a verdict, from such a start: the cache agrees with the tree on everything the
   check of step b reads - its dirtying inputs, its outputs, and those of its discovered
   dependencies that are not outputs of a step that is running or has failed *)
Theorem checked_local_consistent r0 w0 tr r w b :
  inv_start r0 w0 -> jaccepted cf wg r0 w0 tr r w -> writes_ok wg [] tr -> rs_ctl r = CChecking b ->
  (forall d p, In d (disc_of w b) -> producer_of wg d = Some p ->
               get_state (rs_bs r) p <> Running /\ get_state (rs_bs r) p <> Failed) ->
  local_consistent w (wb_dirtying (get_wbuild wg b) ++ disc_of w b ++ wb_outs (get_wbuild wg b)).
Proof.
  intros Hs Ha Ho Hc Hdisc n Hn v Hv.
  destruct (jaccepted_JInv_gen _ _ _ _ _ Hs Ha Ho) as (a & Hinv & <- & <-).
  destruct (checking_facts cf decls _ b (ji_r _ _ _ _ Hinv) Hc) as (L & Hprod).
  destruct (ji_cache _ _ _ _ Hinv n v Hv) as [E|(p & Lp & Ip & Sp)]; [exact E|exfalso].
  apply in_app_or in Hn as [Hn|Hn]; [|apply in_app_or in Hn as [Hn|Hn]].
  - pose proof (Hprod p (dirtying_out_producer g wg Hwf Hag b n p L Lp Hn Ip)) as Ed.
    destruct Sp as [[E _]|E]; congruence.
  - destruct (Hdisc n p Hn (outs_producer g wg Hag p n Lp Ip)) as [N1 N2].
    destruct Sp as [[E _]|E]; [now apply N1 | now apply N2].
  - pose proof (ri_ctl _ _ _ (ji_r _ _ _ _ Hinv)) as K. rewrite Hc in K. cbn [ctl_ok] in K.
    destruct K as (_ & _ & _ & E).
    assert (p = b) by exact (outs_disjoint g wg Hag p b n Lp L Ip Hn). subst p.
    destruct Sp as [[E' _]|E']; congruence.
Qed.

Theorem checked_stated_generated_gen r0 w0 tr r w b :
  inv_start r0 w0 -> jaccepted cf wg r0 w0 tr r w -> writes_ok wg [] tr -> rs_ctl r = CChecking b ->
  stated_generated wg w (wb_dirtying (get_wbuild wg b)).
Proof.
  intros Hs Ha Ho Hc n In_ Hp. destruct (jaccepted_JInv_gen _ _ _ _ _ Hs Ha Ho) as (a & Hinv & <- & <-).
  destruct (checking_facts cf decls _ b (ji_r _ _ _ _ Hinv) Hc) as (L & Hprod).
  destruct (producer_of wg n) as [p|] eqn:Ep; [|congruence].
  destruct (dirtying_producer g wg Hwf Hag b n p L In_ Ep) as (Hop & Lp & Iop).
  rewrite (ji_done _ _ _ _ Hinv p (Hprod p Hop) n Iop). discriminate.
Qed.

(* A7, user form: start conditions spelled out *)
Theorem invariant_kept_reachable r0 w0 tr r w :
  reachable cf decls r0 -> rs_ctl r0 = CIdle -> J1 r0 w0 -> J3 r0 w0 ->
  jaccepted cf wg r0 w0 tr r w -> writes_ok wg [] tr -> J1 r w /\ J3 r w.
Proof.
  intros Hr Hc H1 H3. apply invariant_kept.
  split; [exact (reachable_RInv_closed cf decls Hwf r0 Hr)|]. auto.
Qed.

(* A7: the main phase of an invocation whose Work was used by a manifest-regeneration phase that
   examined (and completed) steps *)
Lemma inv_start_second_phase r1 w1 s fl :
  reachable cf decls r1 -> rs_ctl r1 = CReturned (Some true) -> wanted g (rs_bs r1) s ->
  J1 r1 w1 -> J3 r1 w1 ->
  reachable cf decls (run_init s fl) /\ rs_ctl (run_init s fl) = CIdle /\
  J1 (run_init s fl) w1 /\ J3 (run_init s fl) w1.
Proof.
  intros Hr Hc W H1 H3. split; [exact (reach_reuse cf decls r1 s fl Hr Hc W)|]. split; [reflexivity|].
  split.
  - intros b o Eb Io. cbn [run_init rs_bs] in Eb. apply (H1 b o); [|exact Io].
    destruct (wanted_frame_holds g Hwf _ _ b W) as [E|(_ & [E|E])]; congruence.
  - intros n v Hv. destruct (H3 n v Hv) as [E|(p & Ep & Ip & Sp)]; [now left|right].
    exists p. split; [exact Ep|]. split; [exact Ip|]. cbn [run_init rs_bs].
    destruct (wanted_frame_holds g Hwf _ _ p W) as [E|(E & _)]; [rewrite E; exact Sp|].
    destruct Sp as [Sp|Sp]; congruence.
Qed.

Theorem invariant_kept_two_phases r0 w0 tr1 r1 w1 s fl tr2 r2 w2 :
  reachable cf decls r0 -> rs_ctl r0 = CIdle -> J1 r0 w0 -> J3 r0 w0 ->
  jaccepted cf wg r0 w0 tr1 r1 w1 -> writes_ok wg [] tr1 ->
  rs_ctl r1 = CReturned (Some true) -> wanted g (rs_bs r1) s ->
  jaccepted cf wg (run_init s fl) w1 tr2 r2 w2 -> writes_ok wg [] tr2 ->
  (forall b, get_state (rs_bs r1) b = Done -> get_state (rs_bs (run_init s fl)) b = Done) /\
  J1 r2 w2 /\ J3 r2 w2.
Proof.
  intros Hr Hc H1 H3 Ha1 Ho1 Hc1 W Ha2 Ho2.
  destruct (invariant_kept_reachable _ _ _ _ _ Hr Hc H1 H3 Ha1 Ho1) as [K1 K3].
  assert (Hr1 : reachable cf decls r1) by exact (reach_accepts' cf decls _ _ _ Hr (proj1 Ha1)).
  destruct (inv_start_second_phase r1 w1 s fl Hr1 Hc1 W K1 K3) as (Q0 & Q1 & Q2 & Q3).
  split; [intros b E; cbn [run_init rs_bs];
          destruct (wanted_frame_holds g Hwf _ _ b W) as [E'|(E' & _)]; congruence|].
  exact (invariant_kept_reachable _ _ _ _ _ Q0 Q1 Q2 Q3 Ha2 Ho2).
Qed.

(* ---- A6: the World theorems at a verdict of a jointly accepted trace ---- *)

(* discovered dependencies that are source files (the premise of the null-build theorem) are
   never stale, and need not have been stat()ed *)
Lemma sources_ok (r : rstate) (w : wstate) b :
  (forall d, In d (disc_of w b) -> producer_of wg d = None) ->
  (forall d p, In d (disc_of w b) -> producer_of wg d = Some p ->
               get_state (rs_bs r) p <> Running /\ get_state (rs_bs r) p <> Failed).
Proof. intros H d p Hd Hp. rewrite (H d Hd) in Hp. discriminate Hp. Qed.

Lemma stated_generated_app w l1 l2 :
  stated_generated wg w l1 -> (forall d, In d l2 -> producer_of wg d = None) -> stated_generated wg w (l1 ++ l2).
Proof.
  intros H1 H2 n Hn Hp. apply in_app_or in Hn as [Hn|Hn]; [now apply H1 | exfalso; now apply Hp, H2].
Qed.

Theorem clean_after_record_joint s fl w0 tr r w2 b wpre reported w1 h :
  wanted g (bs_new nb decls) s -> ws_cache w0 = [] ->
  jaccepted cf wg (run_init s fl) w0 tr r w2 -> writes_ok wg [] tr -> rs_ctl r = CChecking b ->
  (forall d, In d (disc_of w2 b) -> producer_of wg d = None) ->
  record_finished wpre b (get_wbuild wg b) reported = Ok (w1, Some h) ->
  wb_cmdline (get_wbuild wg b) <> None -> ws_fs w2 = ws_fs w1 ->
  assoc_nat b (ws_hashes w2) = Some h -> disc_of w2 b = disc_of w1 b ->
  snd (check_build_dirty wg w2 b (get_wbuild wg b)) = DClean.
Proof.
  intros W Hca Ha Ho Hc Hsrc E Hcmd Hf Hh Hd.
  pose proof (fresh_start_inv_start _ _ (fresh_start_wanted cf decls Hwf s fl w0 W Hca)) as Hs.
  eapply A6_clean_after_record_local; try eassumption.
  - exact (checked_local_consistent _ _ _ _ _ b Hs Ha Ho Hc (sources_ok r w2 b Hsrc)).
  - apply stated_generated_app; [exact (checked_stated_generated_gen _ _ _ _ _ b Hs Ha Ho Hc)|].
    rewrite <- Hd. exact Hsrc.
Qed.

Theorem adopt_counts_as_up_to_date_joint s fl w0 tr r w2 b wpre w1 h :
  wanted g (bs_new nb decls) s -> ws_cache w0 = [] ->
  jaccepted cf wg (run_init s fl) w0 tr r w2 -> writes_ok wg [] tr -> rs_ctl r = CChecking b ->
  (forall d, In d (disc_of w2 b) -> producer_of wg d = None) ->
  record_finished wpre b (get_wbuild wg b) None = Ok (w1, Some h) ->
  wb_cmdline (get_wbuild wg b) <> None -> ws_fs w2 = ws_fs w1 ->
  assoc_nat b (ws_hashes w2) = Some h -> disc_of w2 b = disc_of w1 b ->
  snd (check_build_dirty wg w2 b (get_wbuild wg b)) = DClean /\ disc_of w1 b = [].
Proof.
  intros W Hca Ha Ho Hc Hsrc E Hcmd Hf Hh Hd.
  pose proof (fresh_start_inv_start _ _ (fresh_start_wanted cf decls Hwf s fl w0 W Hca)) as Hs.
  eapply adopt_counts_as_up_to_date_local; try eassumption.
  - exact (checked_local_consistent _ _ _ _ _ b Hs Ha Ho Hc (sources_ok r w2 b Hsrc)).
  - apply stated_generated_app; [exact (checked_stated_generated_gen _ _ _ _ _ b Hs Ha Ho Hc)|].
    rewrite <- Hd. exact Hsrc.
Qed.

Theorem never_skips_changed_tree_joint s fl w0 tr r w2 b wpre bd reported w1 h w2' res m0 n t0 :
  wanted g (bs_new nb decls) s -> ws_cache w0 = [] ->
  jaccepted cf wg (run_init s fl) w0 tr r w2 -> writes_ok wg [] tr -> rs_ctl r = CChecking b ->
  (forall d, In d (disc_of w2 b) -> producer_of wg d = None) ->
  record_finished wpre b bd reported = Ok (w1, Some h) ->
  manifest_of w1 bd (disc_of w1 b) = Some m0 -> wf_manifest m0 = true ->
  check_build_dirty wg w2 b (get_wbuild wg b) = (w2', res) -> wb_cmdline (get_wbuild wg b) <> None ->
  assoc_nat b (ws_hashes w2) = Some h -> wb_rsp (get_wbuild wg b) = wb_rsp bd ->
  (forall m, manifest_of w2' (get_wbuild wg b) (disc_of w2 b) = Some m -> wf_manifest m = true /\ no_collision m m0) ->
  In (n, t0) (mf_ins m0 ++ mf_discovered m0 ++ mf_outs m0) -> fs_get (ws_fs w2) n <> Some t0 ->
  res <> DClean.
Proof.
  intros W Hca Ha Ho Hc Hsrc E Hm0 W0 Ec Hcmd Hh Hrsp Hcol Hin Hfs.
  pose proof (fresh_start_inv_start _ _ (fresh_start_wanted cf decls Hwf s fl w0 W Hca)) as Hs.
  eapply never_skips_changed_tree_local; try eassumption.
  exact (checked_local_consistent _ _ _ _ _ b Hs Ha Ho Hc (sources_ok r w2 b Hsrc)).
Qed.

End J.

(* J3 at a verdict, from a fresh Work, in the form of Props/C03Local.v *)
Theorem local_consistent_for_checked_wanted (cf : config) (decls : list (bytes * nat)) (wg : wgraph) :
  graph_wf (cf_graph cf) -> graphs_agree (cf_graph cf) wg ->
  forall (s : bstates) (fl : option nat) (w0 : wstate) (tr : list jitem) (r : rstate) (w : wstate) (b : nat),
  wanted (cf_graph cf) (bs_new (length (g_builds (cf_graph cf))) decls) s -> ws_cache w0 = [] ->
  jaccepted cf wg (run_init s fl) w0 tr r w -> writes_ok wg [] tr -> rs_ctl r = CChecking b ->
  (forall d p, In d (disc_of w b) -> producer_of wg d = Some p ->
               get_state (rs_bs r) p <> Running /\ get_state (rs_bs r) p <> Failed) ->
  forall n, In n (wb_dirtying (get_wbuild wg b) ++ disc_of w b ++ wb_outs (get_wbuild wg b)) ->
  forall v, cache_get (ws_cache w) n = Some v -> v = fs_get (ws_fs w) n.
Proof.
  intros Hwf Hag s fl w0 tr r w b W Hca. apply (checked_local_consistent cf decls wg Hwf Hag).
  apply fresh_start_inv_start. now apply fresh_start_wanted.
Qed.
