(* Histories in which the manifest may change between invocations (the generalisation of
   Proofs/HistSpec.v, whose vocabulary it reuses).  Definitions only.

   Every invocation carries its own graph (i_cf, and the World view gi_wg) and must satisfy
   [static_ok] for it.  What changes w.r.t. the fixed-graph version:
   * the provenance of a log record cannot mention a step index: it names the build statement the
     record was made for ([wprov]);
   * the recorded manifests are collected per recorded hash: [GRh h m] = "m was recorded with hash
     h"; a clean verdict that hashes m to h must not collide with any member of GRh h, and the
     response file must agree (the hashed stream does not delimit the response-file path, so its
     injectivity needs the response file to be known - Props/C02.v has the same premise
     [wb_rsp bd' = wb_rsp bd]);
   * "the discovered dependencies are source files" has to hold in the graph of the invocation that
     loads them ([hg_invoke], the premise about [disc_of w0]): a file that was a source when it
     was recorded can be an output of the next manifest. *)
From Coq Require Import String.
From N2 Require Import Model.All Proofs.SchedSpec Proofs.DbSpec Proofs.WorldSpec Proofs.WorldDirty
     Proofs.JointSpec Proofs.HistSpec.

Section HistGSpec.
Variable content : Type.
Variable stamp : bytes -> mtime -> content.
Variable cmd : bytes -> option (bytes * bytes) -> (bytes -> option content) -> (bytes -> content) * list bytes.
Variable GRh : N -> manifest -> Prop.

Record ginvocation := mkGInv {
  gi_cf : config; gi_wg : wgraph; gi_decls : list (bytes * nat); gi_s : bstates; gi_fl : option nat;
  gi_tr : list jitem
}.

Inductive gitem :=
| GEdit (n : bytes) (t : option mtime)
| GInvoke (inv : ginvocation).

(* the record clause of [trace_gen]: the manifest is entered under its hash *)
Definition GRrec (b : nat) (m : manifest) : Prop := GRh (hash_build m) m.

(* the clean-verdict clause: no manifest recorded under the hash of the manifest compared differs
   from it in the hashed stream or in the response file *)
Definition nc_hash (wg : wgraph) (disc0 : nat -> list bytes) (b : nat) (fs : fsmap) : Prop :=
  forall m m0, fs_manifest fs (get_wbuild wg b) (disc0 b) = Some m -> GRh (hash_build m) m0 ->
    manifest_stream m = manifest_stream m0 /\ mf_rsp m = mf_rsp m0.

Inductive ghstep : hstate -> gitem -> hstate -> Prop :=
| hg_edit st n t : mt_wf t -> ghstep st (GEdit n t) (mkH (fs_set (h_fs st) n t) (h_log st) (h_ws st))
| hg_invoke st inv w0 r w1 :
    static_ok content cmd (cf_graph (gi_cf inv)) (gi_wg inv) ->
    cf_adopt (gi_cf inv) = false ->
    load_state (gi_wg inv) (h_fs st) (h_log st) = Ok w0 ->
    wanted (cf_graph (gi_cf inv)) (bs_new (length (g_builds (cf_graph (gi_cf inv)))) (gi_decls inv)) (gi_s inv) ->
    jaccepted (gi_cf inv) (gi_wg inv) (run_init (gi_s inv) (gi_fl inv)) w0 (gi_tr inv) r w1 ->
    writes_ok (gi_wg inv) [] (gi_tr inv) ->
    trace_gen content stamp cmd GRrec (gi_wg inv) (nc_hash (gi_wg inv) (disc_of w0)) (h_fs st) None (gi_tr inv) ->
    (* the dependency lists loaded for the wanted steps are source files of this manifest *)
    (forall b d, get_state (gi_s inv) b <> Unknown -> In d (disc_of w0 b) -> producer_of (gi_wg inv) d = None) ->
    log_limits (trace_ws (gi_wg inv) None (h_ws st) (gi_tr inv)) ->
    ghstep st (GInvoke inv) (mkH (ws_fs w1) (ws_log w1) (trace_ws (gi_wg inv) None (h_ws st) (gi_tr inv))).

Inductive ghsteps : hstate -> list gitem -> hstate -> Prop :=
| ghs_nil st : ghsteps st [] st
| ghs_cons st it st1 H st2 : ghstep st it st1 -> ghsteps st1 H st2 -> ghsteps st (it :: H) st2.

(* the provenance of a record: a build statement with these outputs, and a tree on which its
   manifest (well-formed, entered in GRh) hashed to the recorded hash and on which it was fresh
   with exactly the recorded dependencies *)
Definition wprov (x : wr) : Prop :=
  exists bd0 fs0 m0,
    wb_outs bd0 = w_outs x /\ fs_wf fs0 /\ fs_manifest fs0 bd0 (w_deps x) = Some m0 /\
    hash_build m0 = w_hash x /\ GRh (w_hash x) m0 /\ wf_manifest m0 = true /\
    fresh_at content stamp cmd fs0 bd0 (w_deps x).

Definition GHInv (st : hstate) : Prop :=
  fs_wf (h_fs st) /\ hlog_is (h_log st) (h_ws st) /\ log_limits (h_ws st) /\ Forall wprov (h_ws st).

End HistGSpec.
