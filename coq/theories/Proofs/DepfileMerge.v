(* C15: what grouping by target (merge_targets / smallmap_extend) does to the flattened
   prerequisite list, and the two read_depfile theorems that follow from the round trip. *)
From N2 Require Import Model.All Proofs.DepfileSpec Proofs.DepfileRound.

Lemma ext_perm k v m :
  Permutation (concat (map snd (smallmap_extend k v m))) (concat (map snd m) ++ v).
Proof.
  induction m as [|[k' v'] r IH]; cbn [smallmap_extend].
  - cbn. rewrite app_nil_r. apply Permutation_refl.
  - destruct (bytes_eqb k' k); cbn [map snd concat]; rewrite <- !app_assoc; apply Permutation_app_head.
    + apply Permutation_app_comm.
    + exact IH.
Qed.

Lemma fold_perm d : forall acc,
  Permutation (concat (map snd (fold_left (fun acc e => smallmap_extend (fst e) (snd e) acc) d acc)))
              (concat (map snd acc) ++ concat (map snd d)).
Proof.
  induction d as [|e d IH]; intro acc; cbn [fold_left map concat].
  - rewrite app_nil_r. apply Permutation_refl.
  - eapply Permutation_trans; [apply IH|]. rewrite app_assoc. apply Permutation_app_tail.
    apply ext_perm.
Qed.

Lemma merge_perm d : Permutation (concat (map snd (merge_targets d))) (concat (map snd d)).
Proof. apply (fold_perm d []). Qed.

Lemma ext_fresh k v m : ~ In k (map fst m) -> smallmap_extend k v m = m ++ [(k, v)].
Proof.
  induction m as [|[k' v'] r IH]; intro Hn; cbn [smallmap_extend app]; [reflexivity|].
  destruct (bytes_eqb k' k) eqn:E.
  - apply bytes_eqb_spec in E. exfalso. apply Hn. left. exact E.
  - rewrite IH; [reflexivity|]. intro Hin. apply Hn. right. exact Hin.
Qed.

Lemma fold_nodup d : forall acc,
  NoDup (map fst (acc ++ d)) ->
  fold_left (fun acc e => smallmap_extend (fst e) (snd e) acc) d acc = acc ++ d.
Proof.
  induction d as [|[k v] d IH]; intros acc Hnd; cbn [fold_left fst snd].
  - now rewrite app_nil_r.
  - rewrite map_app in Hnd. cbn [map fst] in Hnd.
    pose proof (NoDup_remove_2 _ _ _ Hnd) as Hk.
    rewrite ext_fresh.
    + rewrite IH; [now rewrite <- app_assoc|].
      rewrite <- app_assoc. cbn [app]. rewrite map_app. exact Hnd.
    + intro Hin. apply Hk. apply in_or_app. now left.
Qed.

Lemma merge_nodup d : NoDup (map fst d) -> merge_targets d = d.
Proof. intro H. apply (fold_nodup d [] H). Qed.

Lemma depfile_deps_all_listed d t :
  spells_d d t -> exists l, depfile_deps t = Ok l /\ Permutation l (concat (map snd d)).
Proof.
  intro H. exists (concat (map snd (merge_targets d))). split.
  - unfold depfile_deps. rewrite (depfile_roundtrip d t H). reflexivity.
  - apply merge_perm.
Qed.

Lemma depfile_deps_in_order d t :
  spells_d d t -> NoDup (map fst d) -> depfile_deps t = Ok (concat (map snd d)).
Proof.
  intros H Hnd. unfold depfile_deps. rewrite (depfile_roundtrip d t H). cbn [bind].
  now rewrite merge_nodup.
Qed.
