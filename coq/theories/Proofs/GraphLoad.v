(* C14: the invariant LInv holds for every loader produced by load_manifest. *)
From Coq Require Import String.
From N2 Require Import Model.All Proofs.EvalScope Proofs.GraphDedup Proofs.GraphAddBuild.

(* ------------------------------------------------------------------------------------ *)
(* interning paths only appends producer-less files *)

Record Ext (l l' : loader) : Prop := mkExt {
  Ext_files : exists ext, l_files l' = l_files l ++ ext /\ Forall (fun f => lf_input f = None) ext;
  Ext_builds : l_builds l' = l_builds l;
  Ext_rules : l_rules l' = l_rules l;
}.

Lemma Ext_refl l : Ext l l.
Proof. constructor; try reflexivity. exists []. rewrite app_nil_r. split; [reflexivity | constructor]. Qed.

Lemma Ext_trans l1 l2 l3 : Ext l1 l2 -> Ext l2 l3 -> Ext l1 l3.
Proof.
  intros [[e1 [F1 N1]] B1 R1] [[e2 [F2 N2]] B2 R2]. constructor; try congruence.
  exists (e1 ++ e2). rewrite F2, F1, app_assoc. split; [reflexivity|].
  apply Forall_app. split; assumption.
Qed.

Lemma Ext_length l l' : Ext l l' -> length (l_files l) <= length (l_files l').
Proof. intros [[e [F _]] _ _]. rewrite F, app_length. lia. Qed.

Lemma Ext_nth l l' j f : Ext l l' -> nth_error (l_files l) j = Some f -> nth_error (l_files l') j = Some f.
Proof.
  intros [[e [F _]] _ _] H. rewrite F, nth_error_app1; [exact H|]. apply nth_error_Some. congruence.
Qed.

Lemma Ext_file_nm l l' j : Ext l l' -> j < length (l_files l) -> file_nm l' j = file_nm l j.
Proof.
  intros E L. unfold file_nm. destruct (nth_error (l_files l) j) as [f|] eqn:F.
  - rewrite (Ext_nth _ _ _ _ E F). reflexivity.
  - apply nth_error_None in F. lia.
Qed.

Lemma Ext_LInv l l' : Ext l l' -> LInv l -> LInv l'.
Proof.
  intros E I. pose proof (Ext_length _ _ E) as LEN.
  destruct E as [[e [F N]] B R]. constructor; rewrite ?B.
  - intros i f p Hf Hp. rewrite F in Hf.
    destruct (Nat.lt_ge_cases i (length (l_files l))) as [L|G].
    + rewrite nth_error_app1 in Hf by exact L. eapply LI_producer_listed; eassumption.
    + rewrite nth_error_app2 in Hf by exact G. apply nth_error_In in Hf.
      rewrite Forall_forall in N. rewrite (N f Hf) in Hp. discriminate.
  - intros p b o Hb Ho. destruct (LI_outs_produced l I p b o Hb Ho) as [f [Hf Hp]].
    exists f. split; [|exact Hp]. rewrite F, nth_error_app1; [exact Hf|].
    apply nth_error_Some. congruence.
  - intros p b Hb. eapply LI_outs_nodup; eassumption.
  - intros p b Hb. eapply LI_explicit_le; eassumption.
  - intros p b i Hb Hi. pose proof (LI_ins_range l I p b i Hb Hi). lia.
Qed.

Lemma find_file_spec fs name : forall i k,
  find_file fs name i = Some k ->
  i <= k /\ exists f, nth_error fs (k - i) = Some f /\ lf_name f = name.
Proof.
  induction fs as [|x r IH]; intros i k H; [discriminate|].
  cbn [find_file] in H. destruct (bytes_eqb (lf_name x) name) eqn:E.
  - inversion H; subst k. split; [lia|]. rewrite Nat.sub_diag. exists x. split; [reflexivity|].
    apply bytes_eqb_spec. exact E.
  - destruct (IH _ _ H) as [L [f [Hf Hn]]]. split; [lia|]. exists f. split; [|exact Hn].
    replace (k - i) with (S (k - S i)) by lia. exact Hf.
Qed.

Lemma id_from_canonical_spec l c l' id :
  id_from_canonical l c = (l', id) ->
  Ext l l' /\ id < length (l_files l') /\ file_nm l' id = c.
Proof.
  unfold id_from_canonical. destruct (find_file (l_files l) c 0) as [k|] eqn:F; intro H; inversion H; subst; clear H.
  - destruct (find_file_spec _ _ _ _ F) as [_ [f [Hf Hn]]]. rewrite Nat.sub_0_r in Hf.
    split; [apply Ext_refl|]. split.
    + apply nth_error_Some. congruence.
    + unfold file_nm. rewrite Hf. exact Hn.
  - split; [|split].
    + constructor; try reflexivity. cbn [l_files]. eexists. split; [reflexivity|].
      constructor; [reflexivity | constructor].
    + cbn [l_files]. rewrite app_length. cbn [length]. lia.
    + unfold file_nm. cbn [l_files]. rewrite nth_error_app2 by lia. rewrite Nat.sub_diag. reflexivity.
Qed.

Lemma evaluate_path_spec l p envs l' id :
  evaluate_path l p envs = Ok (l', id) ->
  Ext l l' /\ id < length (l_files l') /\ canon (evaluate envs p) = Ok (file_nm l' id).
Proof.
  unfold evaluate_path. intro H.
  assert (H' : load_path l (evaluate envs p) = Ok (l', id)).
  { destruct (evaluate envs p); [discriminate | exact H]. }
  unfold load_path in H'. apply bind_ok in H' as [c [C H']]. inversion H' as [H2].
  destruct (id_from_canonical_spec _ _ _ _ H2) as [E [R N]].
  split; [exact E|]. split; [exact R|]. rewrite N. exact C.
Qed.

(* every id returned names the canonical form of the path's expansion in [envs] *)
Lemma evaluate_paths_spec envs : forall ps l l' ids,
  evaluate_paths l ps envs = Ok (l', ids) ->
  Ext l l' /\ Forall (fun id => id < length (l_files l')) ids /\
  Forall2 (fun p id => canon (evaluate envs p) = Ok (file_nm l' id)) ps ids.
Proof.
  induction ps as [|p rest IH]; intros l l' ids H.
  - cbn [evaluate_paths] in H. inversion H; subst. split; [apply Ext_refl|]. split; constructor.
  - cbn [evaluate_paths] in H. apply bind_ok in H as [[l1 id] [E1 H]].
    apply bind_ok in H as [[l2 ids'] [E2 H]]. inversion H; subst; clear H.
    destruct (evaluate_path_spec _ _ _ _ _ E1) as [X1 [R1 C1]].
    destruct (IH _ _ _ E2) as [X2 [R2 C2]].
    split; [eapply Ext_trans; eassumption|]. split.
    + constructor; [|exact R2]. pose proof (Ext_length _ _ X2). lia.
    + constructor; [|exact C2]. rewrite (Ext_file_nm _ _ _ X2 R1). exact C1.
Qed.

Lemma Forall2_length_eq {A B} (P : A -> B -> Prop) a b : Forall2 P a b -> length a = length b.
Proof. induction 1; cbn [length]; congruence. Qed.

Theorem loader_add_build_LInv l filename fvars pb l' :
  LInv l -> pb_explicit_outs pb <= length (pb_outs pb) ->
  loader_add_build true l filename fvars pb = Ok l' -> LInv l'.
Proof.
  intros I EL H.
  destruct (loader_add_build_ok _ _ _ _ _ _ H)
    as (l1 & ins & l2 & outs & rule & b & E1 & E2 & _ & _ & _ & Bi & Bo & Be & _ & _ & _ & G).
  destruct (evaluate_paths_spec _ _ _ _ _ E1) as [X1 [R1 _]].
  destruct (evaluate_paths_spec _ _ _ _ _ E2) as [X2 [_ C2]].
  apply (graph_add_build_LInv l2 b l').
  - eapply Ext_LInv; [exact X2|]. eapply Ext_LInv; [exact X1 | exact I].
  - rewrite Bi. intros i Hi. rewrite Forall_forall in R1. pose proof (R1 i Hi).
    pose proof (Ext_length _ _ X2). lia.
  - rewrite Be, Bo, <- (Forall2_length_eq _ _ _ C2). exact EL.
  - exact G.
Qed.

(* ------------------------------------------------------------------------------------ *)
(* the parser: explicit_outs counts a prefix of outs *)

Lemma sbind_ok {A B} (r : sres A) (f : A -> scanner -> sres B) b s :
  sbind r f = SOk b s -> exists a s0, r = SOk a s0 /\ f a s0 = SOk b s.
Proof. destruct r; cbn [sbind]; try discriminate. intro H. eauto. Qed.

Lemma read_paths_to_len : forall fuel s acc r s',
  read_paths_to fuel s acc = SOk r s' -> length acc <= length r.
Proof.
  induction fuel as [|fuel IH]; intros s acc r s' H; [discriminate|].
  cbn [read_paths_to] in H. apply sbind_ok in H as (p & s1 & _ & H).
  destruct ((p =? 58) || (p =? 124) || (p =? 10))%N.
  - inversion H; subst. lia.
  - apply sbind_ok in H as (e & s2 & _ & H). apply sbind_ok in H as (u & s3 & _ & H).
    apply IH in H. rewrite app_length in H. cbn [length] in H. lia.
Qed.

Lemma read_unevaluated_paths_to_len fuel s acc r s' :
  read_unevaluated_paths_to fuel s acc = SOk r s' -> length acc <= length r.
Proof.
  unfold read_unevaluated_paths_to. intro H. apply sbind_ok in H as (u & s1 & _ & H).
  eapply read_paths_to_len. exact H.
Qed.

Lemma read_build_explicit fixed fuel s st s' :
  read_build fixed fuel s = SOk st s' ->
  exists pb, st = SBuild pb /\ pb_explicit_outs pb <= length (pb_outs pb).
Proof.
  unfold read_build. intro H. cbv zeta in H.
  apply sbind_ok in H as (outs & s1 & E1 & H).
  apply sbind_ok in H as (p & s2 & _ & H).
  apply sbind_ok in H as (outs' & s3 & E3 & H).
  assert (L : length outs <= length outs').
  { destruct (p =? 124)%N.
    - apply sbind_ok in E3 as (c & s4 & _ & E3). eapply read_unevaluated_paths_to_len. exact E3.
    - inversion E3; subst. lia. }
  repeat match type of H with
         | sbind _ _ = SOk _ _ => apply sbind_ok in H as (? & ? & _ & H)
         end.
  inversion H; subst. eexists. split; [reflexivity|]. cbn [pb_explicit_outs pb_outs]. exact L.
Qed.

Lemma read_rule_shape fixed fuel s st s' :
  read_rule fixed fuel s = SOk st s' -> exists n v, st = SRule n v.
Proof.
  unfold read_rule. intro H.
  repeat match type of H with
         | sbind _ _ = SOk _ _ => apply sbind_ok in H as (? & ? & _ & H)
         end.
  inversion H; subst. eauto.
Qed.

Lemma read_pool_shape fixed fuel s st s' :
  read_pool fixed fuel s = SOk st s' -> exists n d, st = SPool n d.
Proof.
  unfold read_pool. intro H.
  repeat match type of H with
         | sbind _ _ = SOk _ _ => apply sbind_ok in H as (? & ? & _ & H)
         end.
  match type of H with match ?v with _ => _ end = _ => destruct v as [|[k v0] rest] end.
  - inversion H; subst. eauto.
  - destruct (parse_usize (evaluate [] v0)); [|discriminate]. inversion H; subst. eauto.
Qed.

Lemma read_default_shape fuel s st s' :
  read_default fuel s = SOk st s' -> exists ds, st = SDefault ds.
Proof.
  unfold read_default. intro H. apply sbind_ok in H as (ds & s1 & _ & H).
  destruct ds; [discriminate|]. apply sbind_ok in H as (u & s2 & _ & H). inversion H; subst. eauto.
Qed.

Lemma parser_read_build fixed : forall fuel s vs pb vs' s',
  parser_read fixed fuel s vs = SOk (Some (SBuild pb), vs') s' ->
  pb_explicit_outs pb <= length (pb_outs pb).
Proof.
  induction fuel as [|fuel IH]; intros s vs pb vs' s' H; [discriminate|].
  cbn [parser_read] in H. apply sbind_ok in H as (c & s1 & _ & H).
  destruct (c =? 0)%N; [discriminate|].
  destruct (c =? 10)%N; [apply sbind_ok in H as (u & s2 & _ & H); eapply IH; exact H|].
  destruct (c =? 35)%N; [apply sbind_ok in H as (u & s2 & _ & H); eapply IH; exact H|].
  destruct ((c =? 32) || (c =? 9))%N; [discriminate|].
  apply sbind_ok in H as (ident & s2 & _ & H). apply sbind_ok in H as (u & s3 & _ & H).
  destruct (bytes_eqb ident (bs "rule")).
  { apply sbind_ok in H as (st & s4 & E & H). apply read_rule_shape in E as (n & v & ->). discriminate. }
  destruct (bytes_eqb ident (bs "build")).
  { apply sbind_ok in H as (st & s4 & E & H). apply read_build_explicit in E as (pb0 & -> & L).
    inversion H; subst. exact L. }
  destruct (bytes_eqb ident (bs "default")).
  { apply sbind_ok in H as (st & s4 & E & H). apply read_default_shape in E as (ds & ->). discriminate. }
  destruct (bytes_eqb ident (bs "include")).
  { apply sbind_ok in H as (e & s4 & _ & H). discriminate. }
  destruct (bytes_eqb ident (bs "subninja")).
  { apply sbind_ok in H as (e & s4 & _ & H). discriminate. }
  destruct (bytes_eqb ident (bs "pool")).
  { apply sbind_ok in H as (st & s4 & E & H). apply read_pool_shape in E as (n & d & ->). discriminate. }
  apply sbind_ok in H as (v & s4 & _ & H). eapply IH. exact H.
Qed.

(* ------------------------------------------------------------------------------------ *)
(* the statement loop of Loader::parse_with_parser *)

(* [rec reading' l path content vs] reads an included file; [reading] are the canonical names of
   the files being read right now (fix for F20) *)
Definition stmts_loop (fixed : bool) (rec : list bytes -> loader -> bytes -> bytes -> vars -> outcome loader)
           (fs : list (bytes * bytes)) (reading : list bytes) (buf filename : bytes) :=
  fix stmts (n : nat) (l : loader) (s : scanner) (vs : vars) : outcome loader :=
    match n with
    | O => OutOfFuel
    | S n =>
      match parser_read fixed (parse_fuel buf) s vs with
      | SErr m o => do txt <- format_parse_error buf filename m o; Err txt
      | SPanic x => Panic x
      | SOob x => OutOfBounds x
      | SFuel => OutOfFuel
      | SOk (None, vs) _ => Ok (with_builddir l (assoc_b (bs "builddir") vs))
      | SOk (Some st, vs) s =>
        match st with
        | SInclude p | SSubninja p =>
          do r <- evaluate_path l p [vars_env vs];
          let '(l, id) := r in
          let path := file_nm l id in
          if existsb (bytes_eqb path) reading
          then Err (filename ++ bs ": " ++ path ++ bs " includes itself")
          else
          match assoc_b path fs with
          | None => Err (bs "read " ++ path ++ bs ": No such file or directory (os error 2)")
          | Some content =>
            do l <- rec (reading ++ [path]) l path content vs;
            stmts n l s vs
          end
        | SDefault ds =>
          do r <- evaluate_paths l ds [vars_env vs];
          let '(l, ids) := r in
          stmts n (with_defaults l (l_defaults l ++ ids)) s vs
        | SRule name rv => stmts n (with_rules l (insert_b name rv (l_rules l))) s vs
        | SBuild pb =>
          do l <- loader_add_build fixed l filename vs pb;
          stmts n l s vs
        | SPool name depth => stmts n (with_pools l (insert_b name depth (l_pools l))) s vs
        end
      end
    end.

Lemma parse_file_r_unfold fixed depth fs reading l filename text inherited :
  parse_file_r fixed (S depth) fs reading l filename text inherited =
  do s0 <- sc_new (text ++ [0%N]);
  stmts_loop fixed (parse_file_r fixed depth fs) fs reading (text ++ [0%N]) filename
             (S (length (text ++ [0%N]))) l s0 inherited.
Proof. reflexivity. Qed.

Lemma parse_file_unfold fixed depth fs l filename text inherited :
  parse_file fixed (S depth) fs l filename text inherited =
  do s0 <- sc_new (text ++ [0%N]);
  stmts_loop fixed (parse_file_r fixed depth fs) fs [] (text ++ [0%N]) filename
             (S (length (text ++ [0%N]))) l s0 inherited.
Proof. reflexivity. Qed.

Lemma LInv_same_graph l l' :
  l_files l' = l_files l -> l_builds l' = l_builds l -> LInv l -> LInv l'.
Proof. intros F B I. destruct I as [A1 A2 A3 A4 A5]. constructor; rewrite ?F, ?B; assumption. Qed.

Lemma stmts_loop_LInv rec fs reading buf filename :
  (forall rd l path content vs l', LInv l -> rec rd l path content vs = Ok l' -> LInv l') ->
  forall n l s vs l', LInv l -> stmts_loop true rec fs reading buf filename n l s vs = Ok l' -> LInv l'.
Proof.
  intro REC. induction n as [|n IH]; intros l s vs l' I H; [discriminate|].
  cbn [stmts_loop] in H. fold (stmts_loop true rec fs reading buf filename) in H.
  destruct (parser_read true (parse_fuel buf) s vs) as [[[st|] vs1] s1| | | |] eqn:PR; try discriminate.
  2:{ inversion H; subst. eapply LInv_same_graph; [| |exact I]; reflexivity. }
  2:{ apply bind_ok in H as [txt [_ H]]. discriminate. }
  destruct st as [name rv|pb|ds|p|p|name d].
  - eapply IH; [|exact H]. eapply LInv_same_graph; [| |exact I]; reflexivity.
  - apply bind_ok in H as [l1 [E H]]. eapply IH; [|exact H].
    eapply loader_add_build_LInv; [exact I | | exact E].
    eapply parser_read_build. exact PR.
  - apply bind_ok in H as [[l1 ids] [E H]]. eapply IH; [|exact H].
    destruct (evaluate_paths_spec _ _ _ _ _ E) as [X _].
    eapply LInv_same_graph; [| |eapply Ext_LInv; [exact X | exact I]]; reflexivity.
  - apply bind_ok in H as [[l1 id] [E H]].
    destruct (evaluate_path_spec _ _ _ _ _ E) as [X _].
    destruct (existsb (bytes_eqb (file_nm l1 id)) reading); [discriminate|].
    destruct (assoc_b (file_nm l1 id) fs) as [content|]; [|discriminate].
    apply bind_ok in H as [l2 [E2 H]]. eapply IH; [|exact H].
    eapply REC; [|exact E2]. eapply Ext_LInv; [exact X | exact I].
  - apply bind_ok in H as [[l1 id] [E H]].
    destruct (evaluate_path_spec _ _ _ _ _ E) as [X _].
    destruct (existsb (bytes_eqb (file_nm l1 id)) reading); [discriminate|].
    destruct (assoc_b (file_nm l1 id) fs) as [content|]; [|discriminate].
    apply bind_ok in H as [l2 [E2 H]]. eapply IH; [|exact H].
    eapply REC; [|exact E2]. eapply Ext_LInv; [exact X | exact I].
  - eapply IH; [|exact H]. eapply LInv_same_graph; [| |exact I]; reflexivity.
Qed.

Lemma parse_file_r_LInv fs : forall depth reading l filename text inherited l',
  LInv l -> parse_file_r true depth fs reading l filename text inherited = Ok l' -> LInv l'.
Proof.
  induction depth as [|depth IH]; intros reading l filename text inherited l' I H; [discriminate|].
  rewrite parse_file_r_unfold in H. apply bind_ok in H as [s0 [_ H]].
  eapply stmts_loop_LInv; [|exact I | exact H].
  intros rd l0 path content vs l0' I0 H0. eapply IH; eassumption.
Qed.

Lemma parse_file_LInv fs depth l filename text inherited l' :
  LInv l -> parse_file true depth fs l filename text inherited = Ok l' -> LInv l'.
Proof. apply parse_file_r_LInv. Qed.

Lemma LInv_new : LInv loader_new.
Proof.
  constructor; cbn [loader_new l_files l_builds].
  - intros i f p H. destruct i; discriminate.
  - intros p b o H. destruct p; discriminate.
  - intros p b H. destruct p; discriminate.
  - intros p b H. destruct p; discriminate.
  - intros p b i H. destruct p; discriminate.
Qed.

Theorem load_manifest_LInv depth fs name text l :
  load_manifest true depth fs name text = Ok l -> LInv l.
Proof.
  unfold load_manifest. intro H. apply bind_ok in H as [c [_ H]].
  destruct (id_from_canonical loader_new c) as [l0 id] eqn:E.
  destruct (id_from_canonical_spec _ _ _ _ E) as [X _].
  eapply parse_file_LInv; [|exact H]. eapply Ext_LInv; [exact X | apply LInv_new].
Qed.

(* an error from Graph::add_build is the result of the whole load: no loader comes back *)
Lemma stmts_loop_build_err fixed rec fs reading buf filename n l s vs pb vs1 s1 m :
  parser_read fixed (parse_fuel buf) s vs = SOk (Some (SBuild pb), vs1) s1 ->
  loader_add_build fixed l filename vs1 pb = Err m ->
  stmts_loop fixed rec fs reading buf filename (S n) l s vs = Err m.
Proof. intros PR E. cbn [stmts_loop]. rewrite PR, E. reflexivity. Qed.

(* include and subninja alike: the child file is read with the bindings made so far, and the
   parent goes on with exactly those bindings afterwards (finding F11 for include) *)
Lemma stmts_loop_child_scope fixed rec fs reading buf filename n l s vs st p vs1 s1 l1 id content :
  st = SInclude p \/ st = SSubninja p ->
  parser_read fixed (parse_fuel buf) s vs = SOk (Some st, vs1) s1 ->
  evaluate_path l p [vars_env vs1] = Ok (l1, id) ->
  existsb (bytes_eqb (file_nm l1 id)) reading = false ->
  assoc_b (file_nm l1 id) fs = Some content ->
  stmts_loop fixed rec fs reading buf filename (S n) l s vs =
  do l2 <- rec (reading ++ [file_nm l1 id]) l1 (file_nm l1 id) content vs1;
  stmts_loop fixed rec fs reading buf filename n l2 s1 vs1.
Proof.
  intros [->| ->] PR E X A; cbn [stmts_loop]; rewrite PR, E; cbn [bind]; rewrite X, A; reflexivity.
Qed.

(* a file that is being read is not read again (finding F20): the load ends with a diagnostic *)
Lemma stmts_loop_include_cycle fixed rec fs reading buf filename n l s vs st p vs1 s1 l1 id :
  st = SInclude p \/ st = SSubninja p ->
  parser_read fixed (parse_fuel buf) s vs = SOk (Some st, vs1) s1 ->
  evaluate_path l p [vars_env vs1] = Ok (l1, id) ->
  existsb (bytes_eqb (file_nm l1 id)) reading = true ->
  stmts_loop fixed rec fs reading buf filename (S n) l s vs =
  Err (filename ++ bs ": " ++ file_nm l1 id ++ bs " includes itself").
Proof.
  intros [->| ->] PR E X; cbn [stmts_loop]; rewrite PR, E; cbn [bind]; rewrite X; reflexivity.
Qed.
