(* C10, loader half: the statement loop of Loader::parse_with_parser is a fold of a declarative
   per-statement semantics ([run_stmts]) over the sequence of Parser::read results ([reads_to]).
   Vocabulary + L1 (parse_file_is_run_stmts).  One file, no include/subninja. *)
From Coq Require Import String.
From N2 Require Import Model.All Proofs.EvalScope Proofs.GraphDedup Proofs.GraphAddBuild Proofs.GraphLoad.
From N2 Require Import Proofs.ParseSpec Proofs.ParseSafeStmt.

(* ------------------------------------------------------------------------------------ *)
(* the declarative semantics: one statement, read while the file-level variables were [vs] *)

Definition is_include (st : statement) : bool :=
  match st with SInclude _ | SSubninja _ => true | _ => false end.

Definition no_include (sts : list (statement * vars)) : Prop :=
  Forall (fun sv => is_include (fst sv) = false) sts.

(* include/subninja are outside this semantics (every theorem assumes [no_include]) *)
Definition stmt_step (l : loader) (filename : bytes) (st : statement) (vs : vars) : outcome loader :=
  match st with
  | SRule name rv => Ok (with_rules l (insert_b name rv (l_rules l)))
  | SPool name d => Ok (with_pools l (insert_b name d (l_pools l)))
  | SDefault ds =>
    do r <- evaluate_paths l ds [vars_env vs];
    let '(l1, ids) := r in Ok (with_defaults l1 (l_defaults l1 ++ ids))
  | SBuild pb => loader_add_build true l filename vs pb
  | SInclude _ | SSubninja _ => Err (bs "include/subninja: not in the one-file semantics")
  end.

Fixpoint run_stmts (l : loader) (filename : bytes) (sts : list (statement * vars)) : outcome loader :=
  match sts with
  | [] => Ok l
  | (st, vs) :: r => do l1 <- stmt_step l filename st vs; run_stmts l1 filename r
  end.

(* ------------------------------------------------------------------------------------ *)
(* the loader's sequence of Parser::read calls: the statements returned, each with the file-level
   variables that came back with it, and the first result that is not a statement *)

Definition is_stmt_result (r : sres (option statement * vars)) : Prop :=
  exists st vs s, r = SOk (Some st, vs) s.

Inductive reads_to (buf : bytes) : scanner -> vars -> list (statement * vars) ->
                                   sres (option statement * vars) -> Prop :=
| rt_last s vs r :
    parser_read true (parse_fuel buf) s vs = r -> ~ is_stmt_result r -> reads_to buf s vs [] r
| rt_stmt s vs st vs1 s1 sts r :
    parser_read true (parse_fuel buf) s vs = SOk (Some st, vs1) s1 ->
    reads_to buf s1 vs1 sts r ->
    reads_to buf s vs ((st, vs1) :: sts) r.

(* the reads succeed: statements, then the end of the file with final variables [vs'] *)
Definition reads (buf : bytes) (s : scanner) (vs : vars) (sts : list (statement * vars)) (vs' : vars) : Prop :=
  exists s', reads_to buf s vs sts (SOk (None, vs') s').

(* what the loader makes of the last result *)
Definition finish (buf filename : bytes) (l : loader) (r : sres (option statement * vars)) : outcome loader :=
  match r with
  | SOk (None, vs) _ => Ok (with_builddir l (assoc_b (bs "builddir") vs))
  | SOk (Some _, _) _ => OutOfFuel          (* not a last result *)
  | SErr m o => do txt <- format_parse_error buf filename m o; Err txt
  | SPanic x => Panic x
  | SOob x => OutOfBounds x
  | SFuel => OutOfFuel
  end.

(* every build statement the parser returns has its explicit outputs among its outputs *)
Definition builds_wf (sts : list (statement * vars)) : Prop :=
  Forall (fun sv => match fst sv with
                    | SBuild pb => pb_explicit_outs pb <= length (pb_outs pb)
                    | _ => True
                    end) sts.

Lemma reads_to_builds_wf buf s vs sts r : reads_to buf s vs sts r -> builds_wf sts.
Proof.
  induction 1 as [s vs r E N|s vs st vs1 s1 sts r E H IH]; [constructor|].
  constructor; [|exact IH]. cbn [fst]. destruct st; try exact I.
  eapply parser_read_build. exact E.
Qed.

(* ------------------------------------------------------------------------------------ *)
(* L1: the statement loop is run_stmts over the reads *)

Lemma bind_assoc {A B C} (o : outcome A) (f : A -> outcome B) (g : B -> outcome C) :
  bind (bind o f) g = bind o (fun a => bind (f a) g).
Proof. destruct o; reflexivity. Qed.

Lemma stmts_loop_is_run_stmts rec fs reading text filename s vs sts r :
  reads_to (text ++ [0%N]) s vs sts r -> no_include sts ->
  forall n l, good_scanner text s -> length text + 2 <= n + sofs s ->
  stmts_loop true rec fs reading (text ++ [0%N]) filename n l s vs =
  do l' <- run_stmts l filename sts; finish (text ++ [0%N]) filename l' r.
Proof.
  induction 1 as [s vs r E N|s vs st vs1 s1 sts r E H IH]; intros NI n l G F.
  - destruct n as [|n]; [destruct G as (_ & Ho & _); lia|].
    cbn [stmts_loop run_stmts bind]. rewrite E.
    destruct r as [[[st|] vs1] s1|m o|x|x|]; try reflexivity.
    exfalso. apply N. exists st, vs1, s1. reflexivity.
  - destruct n as [|n]; [destruct G as (_ & Ho & _); lia|].
    pose proof (parser_read_safe_gen text s vs G) as P. rewrite E in P. destruct P as [G1 LT].
    inversion NI as [|sv r0 NI1 NI2]; subst. cbn [fst] in NI1.
    assert (F1 : length text + 2 <= n + sofs s1) by lia.
    cbn [stmts_loop]. fold (stmts_loop true rec fs reading (text ++ [0%N]) filename). rewrite E.
    cbn [run_stmts]. rewrite bind_assoc.
    destruct st as [name rv|pb|ds|p|p|name d]; try discriminate NI1; cbn [stmt_step bind].
    + apply IH; assumption.
    + destruct (loader_add_build true l filename vs1 pb) as [l1|m|x|x|]; cbn [bind]; try reflexivity.
      apply IH; assumption.
    + destruct (evaluate_paths l ds [vars_env vs1]) as [[l1 ids]|m|x|x|]; cbn [bind]; try reflexivity.
      apply IH; assumption.
    + apply IH; assumption.
Qed.

Lemma sc_new_text text : sc_new (text ++ [0%N]) = Ok (mkScanner (text ++ [0%N]) 0 1).
Proof. unfold sc_new. rewrite rev_app_distr. reflexivity. Qed.

(* whatever the reads end with: parser errors, loader errors and the loaded graph alike *)
Theorem parse_file_is_run_stmts_gen depth fs l filename text inherited sts r :
  reads_to (text ++ [0%N]) (mkScanner (text ++ [0%N]) 0 1) inherited sts r -> no_include sts ->
  parse_file true (S depth) fs l filename text inherited =
  do l' <- run_stmts l filename sts; finish (text ++ [0%N]) filename l' r.
Proof.
  intros R NI. rewrite parse_file_unfold, sc_new_text. cbn [bind].
  eapply stmts_loop_is_run_stmts; try eassumption.
  - apply good_scanner_initial.
  - cbn [sofs]. rewrite app_length. cbn [length]. lia.
Qed.

Theorem parse_file_is_run_stmts depth fs l filename text inherited sts vs_final :
  reads (text ++ [0%N]) (mkScanner (text ++ [0%N]) 0 1) inherited sts vs_final -> no_include sts ->
  parse_file true (S depth) fs l filename text inherited =
  do l' <- run_stmts l filename sts; Ok (with_builddir l' (assoc_b (bs "builddir") vs_final)).
Proof.
  intros [s' R] NI. rewrite (parse_file_is_run_stmts_gen _ _ _ _ _ _ _ _ R NI). reflexivity.
Qed.

(* the reads always exist: every text has its sequence of statements and a last result, and the
   last result is never a panic, an out-of-bounds read or fuel exhaustion *)
Lemma reads_to_total text vs : forall k s, good_scanner text s -> length text - sofs s < k ->
  exists sts r, reads_to (text ++ [0%N]) s vs sts r.
Proof.
  intros k. revert vs. induction k as [|k IH]; intros vs s G K; [lia|].
  destruct (parser_read true (parse_fuel (text ++ [0%N])) s vs) as [[[st|] vs1] s1|m o|x|x|] eqn:E.
  - pose proof (parser_read_safe_gen text s vs G) as P. rewrite E in P. destruct P as [G1 LT].
    destruct (IH vs1 s1 G1) as (sts & r & R); [destruct G1 as (_ & Ho & _); lia|].
    exists ((st, vs1) :: sts), r. eapply rt_stmt; eassumption.
  - eexists [], _. apply rt_last; [exact E|]. intros (st & v & z & X). discriminate.
  - eexists [], _. apply rt_last; [exact E|]. intros (st & v & z & X). discriminate.
  - eexists [], _. apply rt_last; [exact E|]. intros (st & v & z & X). discriminate.
  - eexists [], _. apply rt_last; [exact E|]. intros (st & v & z & X). discriminate.
  - eexists [], _. apply rt_last; [exact E|]. intros (st & v & z & X). discriminate.
Qed.

Theorem reads_exist text vs :
  exists sts r, reads_to (text ++ [0%N]) (mkScanner (text ++ [0%N]) 0 1) vs sts r.
Proof.
  apply (reads_to_total text vs (S (length text))); [apply good_scanner_initial | cbn [sofs]; lia].
Qed.

Lemma reads_to_fun buf s vs sts r : reads_to buf s vs sts r ->
  forall sts' r', reads_to buf s vs sts' r' -> sts' = sts /\ r' = r.
Proof.
  induction 1 as [s vs r E N|s vs st vs1 s1 sts r E H IH]; intros sts' r' H'.
  - inversion H' as [? ? ? E' N'|? ? st' vs1' s1' sts0 ? E' H0]; subst.
    + split; reflexivity.
    + exfalso. apply N. exists st', vs1', s1'. exact E'.
  - inversion H' as [? ? ? E' N'|? ? st' vs1' s1' sts0 ? E' H0]; subst.
    + exfalso. apply N'. exists st, vs1, s1. exact E.
    + rewrite E in E'. inversion E'; subst. destruct (IH _ _ H0) as [-> ->]. split; reflexivity.
Qed.
