(* Proofs about Model/Render.v: truncate, UTF-8 prefix/concatenation facts. *)
From Coq Require Import List NArith Arith Lia Bool.
From N2 Require Import Base.Base Model.Scanner Model.Render.
Import ListNotations.

(* ---------- char boundaries and trunc_boundary ---------- *)

Lemma icb_zero s : is_char_boundary s 0 = true.
Proof. reflexivity. Qed.

Lemma icb_len s : is_char_boundary s (length s) = true.
Proof.
  unfold is_char_boundary. rewrite Nat.eqb_refl.
  destruct (length s =? 0)%nat; reflexivity.
Qed.

Lemma trunc_boundary_le s max : (trunc_boundary s max <= max)%nat.
Proof.
  induction max as [|m IH]; cbn [trunc_boundary].
  - destruct (is_char_boundary s 0); lia.
  - destruct (is_char_boundary s (S m)); lia.
Qed.

Lemma trunc_boundary_icb s max : is_char_boundary s (trunc_boundary s max) = true.
Proof.
  induction max as [|m IH]; cbn [trunc_boundary].
  - destruct (is_char_boundary s 0) eqn:E; [exact E | apply icb_zero].
  - destruct (is_char_boundary s (S m)) eqn:E; [exact E | exact IH].
Qed.

Lemma truncate_safe s max :
  (length (truncate s max) <= max)%nat /\
  (exists t, s = truncate s max ++ t) /\
  is_char_boundary s (length (truncate s max)) = true.
Proof.
  unfold truncate. destruct (length s <=? max)%nat eqn:E.
  - apply Nat.leb_le in E. split; [exact E|]. split.
    + exists []. now rewrite app_nil_r.
    + apply icb_len.
  - apply Nat.leb_gt in E. pose proof (trunc_boundary_le s max) as Hle.
    assert (Hl : length (firstn (trunc_boundary s max) s) = trunc_boundary s max)
      by (rewrite firstn_length; lia).
    rewrite Hl. split; [exact Hle|]. split.
    + exists (skipn (trunc_boundary s max) s). symmetry. apply firstn_skipn.
    + apply trunc_boundary_icb.
Qed.

Lemma truncate_fits s max : (length s <= max)%nat -> truncate s max = s.
Proof.
  intros H. unfold truncate. apply Nat.leb_le in H. now rewrite H.
Qed.

Lemma truncate_length_le s max : (length (truncate s max) <= max)%nat.
Proof. apply truncate_safe. Qed.

(* ---------- UTF-8 structure ---------- *)

Definition is_cont (c : N) : bool := ((128 <=? c) && (c <? 192))%N.

Lemma utf8_aux_head_need need c r :
  utf8_ok_aux need (c :: r) = true -> is_cont c = false -> need = 0%nat.
Proof.
  destruct need as [|n]; [reflexivity|].
  cbn [utf8_ok_aux]. unfold is_cont. intros H Hc. rewrite Hc in H. discriminate.
Qed.

(* one byte consumed: there is a successor state, and the byte is accepted in front of any
   string accepted from that state *)
Lemma utf8_aux_step need c r :
  utf8_ok_aux need (c :: r) = true ->
  exists need', utf8_ok_aux need' r = true /\
                forall r', utf8_ok_aux need' r' = true -> utf8_ok_aux need (c :: r') = true.
Proof.
  destruct need as [|n]; cbn [utf8_ok_aux].
  - destruct (c <? 128)%N. { intros H. exists 0%nat. auto. }
    destruct ((192 <=? c) && (c <? 224))%N. { intros H. exists 1%nat. auto. }
    destruct ((224 <=? c) && (c <? 240))%N. { intros H. exists 2%nat. auto. }
    destruct ((240 <=? c) && (c <? 248))%N. { intros H. exists 3%nat. auto. }
    discriminate.
  - destruct ((128 <=? c) && (c <? 192))%N; [|discriminate].
    intros H. exists n. auto.
Qed.

(* position [i] of [s] is the end of [s] or holds a non-continuation byte *)
Definition bnd (s : bytes) (i : nat) : Prop :=
  i = length s \/ exists c, nth_error s i = Some c /\ is_cont c = false.

Lemma bnd_tail c r j : bnd (c :: r) (S j) -> bnd r j.
Proof.
  intros [E | (c' & E & Hc)].
  - left. cbn [length] in E. lia.
  - right. exists c'. split; [exact E | exact Hc].
Qed.

Lemma utf8_aux_bnd0 need s : utf8_ok_aux need s = true -> bnd s 0 -> need = 0%nat.
Proof.
  intros H [E | (c & E & Hc)].
  - destruct s as [|c r]; [|discriminate E].
    cbn [utf8_ok_aux] in H. apply Nat.eqb_eq in H. exact H.
  - destruct s as [|c' r]; [discriminate E|].
    cbn [nth_error] in E. injection E as ->.
    eapply utf8_aux_head_need; eauto.
Qed.

Lemma icb_bnd s i :
  is_char_boundary s i = true -> i <> 0%nat -> bnd s i.
Proof.
  unfold is_char_boundary, bnd. intros H Hi.
  destruct (i =? 0)%nat eqn:E0. { apply Nat.eqb_eq in E0. contradiction. }
  destruct (i =? length s)%nat eqn:E1. { apply Nat.eqb_eq in E1. left. exact E1. }
  destruct (nth_error s i) as [c|]; [|discriminate].
  right. exists c. split; [reflexivity|]. unfold is_cont.
  apply negb_true_iff in H. exact H.
Qed.

Lemma utf8_prefix_aux : forall i s need,
  utf8_ok_aux need s = true -> (i <= length s)%nat -> (i = 0%nat -> need = 0%nat) -> bnd s i ->
  utf8_ok_aux need (firstn i s) = true.
Proof.
  induction i as [|j IH]; intros s need H Hle H0 Hb.
  - rewrite (H0 eq_refl). reflexivity.
  - destruct s as [|c r]; [cbn [length] in Hle; lia|].
    cbn [firstn]. destruct (utf8_aux_step _ _ _ H) as (need' & Hr & Hk).
    apply bnd_tail in Hb.
    apply Hk. apply IH; [exact Hr | cbn [length] in Hle; lia | | exact Hb].
    intros ->. eapply utf8_aux_bnd0; eauto.
Qed.

Lemma utf8_prefix s i :
  utf8_ok s = true -> (i <= length s)%nat -> is_char_boundary s i = true ->
  utf8_ok (firstn i s) = true.
Proof.
  intros H Hle Hb. destruct i as [|j]; [reflexivity|].
  unfold utf8_ok in *. apply utf8_prefix_aux; [exact H | exact Hle | discriminate |].
  apply icb_bnd; [exact Hb | discriminate].
Qed.

Lemma truncate_utf8 s max : utf8_ok s = true -> utf8_ok (truncate s max) = true.
Proof.
  intros H. unfold truncate. destruct (length s <=? max)%nat eqn:E; [exact H|].
  apply Nat.leb_gt in E. pose proof (trunc_boundary_le s max) as Hle.
  apply utf8_prefix; [exact H | lia | apply trunc_boundary_icb].
Qed.

Lemma utf8_aux_app : forall a need b,
  utf8_ok_aux need a = true -> utf8_ok_aux 0 b = true -> utf8_ok_aux need (a ++ b) = true.
Proof.
  induction a as [|c r IH]; intros need b Ha Hb.
  - cbn [utf8_ok_aux] in Ha. apply Nat.eqb_eq in Ha. subst need. exact Hb.
  - cbn [app]. destruct (utf8_aux_step _ _ _ Ha) as (need' & Hr & Hk).
    apply Hk. apply IH; assumption.
Qed.

Lemma utf8_app a b : utf8_ok a = true -> utf8_ok b = true -> utf8_ok (a ++ b) = true.
Proof. unfold utf8_ok. apply utf8_aux_app. Qed.

(* ---------- ASCII strings ---------- *)

Definition ascii_only (s : bytes) : bool := forallb (fun c => (c <? 128)%N) s.

Lemma ascii_only_utf8 s : ascii_only s = true -> utf8_ok s = true.
Proof.
  unfold utf8_ok. induction s as [|c r IH]; [reflexivity|].
  cbn [ascii_only forallb utf8_ok_aux]. intros H. apply andb_true_iff in H as [Hc Hr].
  rewrite Hc. apply IH. exact Hr.
Qed.

Lemma ascii_only_app a b : ascii_only (a ++ b) = ascii_only a && ascii_only b.
Proof. unfold ascii_only. apply forallb_app. Qed.

Lemma dec_digits_ascii : forall fuel n acc,
  ascii_only acc = true -> ascii_only (dec_digits fuel n acc) = true.
Proof.
  induction fuel as [|f IH]; intros n acc Hacc; cbn [dec_digits]; [exact Hacc|].
  assert (Hd : ascii_only ((48 + n mod 10)%N :: acc) = true).
  { cbn [ascii_only forallb]. apply andb_true_iff. split; [|exact Hacc].
    apply N.ltb_lt. pose proof (N.mod_lt n 10 ltac:(discriminate)). lia. }
  destruct (n <? 10)%N; [exact Hd | apply IH; exact Hd].
Qed.

Lemma dec_of_N_ascii n : ascii_only (dec_of_N n) = true.
Proof. unfold dec_of_N. apply dec_digits_ascii. reflexivity. Qed.

Lemma time_note_ascii secs : ascii_only (time_note secs) = true.
Proof.
  unfold time_note. destruct (2 <? secs)%N; [|reflexivity].
  rewrite !ascii_only_app, dec_of_N_ascii. reflexivity.
Qed.

Lemma time_note_utf8 secs : utf8_ok (time_note secs) = true.
Proof. apply ascii_only_utf8, time_note_ascii. Qed.
