(* Specification vocabulary of the C12 statements (definitions only). *)
From Coq Require Import String.
From N2 Require Import Model.All.

(* a scanner over [text ++ [0]] that has not consumed the NUL and does not sit on the '\n' of
   a "\r\n" pair (sc_back steps back two bytes from behind such a '\n'; no parser function
   ever leaves the scanner there) *)
Definition good_scanner (text : bytes) (s : scanner) : Prop :=
  sbuf s = text ++ [0%N] /\ sofs s <= length text /\
  forall o1, sofs s = S o1 -> nth_error (text ++ [0%N]) (sofs s) = Some 10%N ->
             nth_error (text ++ [0%N]) o1 <> Some 13%N.

(* acceptable results of Parser::read from state [s] *)
Definition parser_read_ok (text : bytes) (s : scanner) (r : sres (option statement * vars)) : Prop :=
  match r with
  | SOk (Some _, _) s' => good_scanner text s' /\ sofs s < sofs s'
  | SOk (None, _) s' => good_scanner text s'
  | SErr _ o => o <= length (text ++ [0%N])
  | SPanic _ | SOob _ | SFuel => False
  end.

(* the text of a formatted parse error: message, "file:line: ", a context line, and a caret
   line of [pad] spaces *)
Definition error_prefix (filename : bytes) (lno : nat) : bytes :=
  filename ++ bs ":" ++ dec_of_nat lno ++ bs ": ".
Definition error_text (filename msg : bytes) (lno : nat) (ctx : bytes) (pad : nat) : bytes :=
  bs "parse error: " ++ msg ++ [10%N] ++ error_prefix filename lno ++
  ctx ++ [10%N] ++ repeat_byte 32%N pad ++ bs "^" ++ [10%N].
