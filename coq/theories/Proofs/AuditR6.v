(* Audit of Props/C16Dirs.v, Props/C03Explain.v, Props/C20Width.v (round 6).
   Part (a): every hypothesis of the main conditional theorems instantiated on concrete data and
   fed into the real theorem.  Part (b), lemmas named W_*: a demonstration for each weakness found. *)
From Coq Require Import String List NArith Lia.
From N2 Require Import Model.All Model.Fancy Model.Explain Model.Terminal Model.Fs.
From N2 Require Import Proofs.WorldSpec Proofs.ExplainProofs Proofs.FancyFrame Proofs.TerminalProofs.
From N2 Require Import Proofs.FsProofs Proofs.FsWf.
From N2 Require Import Props.C16Dirs Props.C03Explain Props.C20Width.
Import ListNotations.

(* ======================================================================================== *)
(* C16 *)

(* outputs a/b/o1 a/b/o2 /w/y/o4 top (no "." / ".." left), from w/c in ex_fs *)
Definition au_outs : list bytes := [bs "a/b/o1"; bs "a/b/o2"; bs "/w/y/o4"; bs "top"].

Ltac clear_tac :=
  split; [reflexivity|]; intros i c Hi;
  do 4 (try (destruct i as [|i]; [vm_compute; discriminate|])); vm_compute in Hi; lia.

Lemma au_outs_clear : forall o d, In o au_outs -> lp_parent (path_new o) = Some d -> clear_path ex_fs ex_cwd d.
Proof.
  intros o d [<-|[<-|[<-|[<-|[]]]]] H; vm_compute in H; inversion H; subst; clear_tac.
Qed.

(* (a) all three premises of C16_output_dirs_succeed_unless_blocked hold; the theorem is applied *)
Example nv_C16_succeed : exists fs', create_parent_dirs ex_fs ex_cwd au_outs = (None, fs').
Proof. exact (C16_output_dirs_succeed_unless_blocked ex_fs ex_cwd au_outs ex_wf eq_refl au_outs_clear). Qed.
(* ... and the success is a non-trivial one: three directories are new *)
Example nv_C16_succeed_creates : length (snd (create_parent_dirs ex_fs ex_cwd au_outs)) = (length ex_fs + 3)%nat.
Proof. vm_compute. reflexivity. Qed.

(* (a) a concrete failing call (/f/d/o, f a regular file) fed into C16_output_dirs_failure_means_blocked;
   the block is then exhibited, which the theorem itself does not do *)
Definition au_blocked : list bytes := [bs "/f/d/o"].
Example nv_C16_failure : ~ (forall o d, In o au_blocked -> lp_parent (path_new o) = Some d -> clear_path ex_fs ex_cwd d).
Proof. exact (C16_output_dirs_failure_means_blocked ex_fs ex_cwd au_blocked ENOTDIR ex_fs ex_wf eq_refl ex_create_blocked). Qed.
Example nv_C16_failure_witness :
  lp_parent (path_new (bs "/f/d/o")) = Some (mkL true [bs "f"; bs "d"]) /\
  node_at ex_fs (loc_prefix ex_cwd (mkL true [bs "f"; bs "d"]) 1) = Some (KFile (s [1;2])).
Proof. vm_compute. split; reflexivity. Qed.

(* (a) C16_step_prepared with a response file r/q.rsp, then a second step whose response file is the
   existing regular file /f (the right-hand disjunct of the third conjunct is exercised) *)
Definition au_rsp1 : option (bytes * bytes) := Some (bs "r/q.rsp", s [7;8;9]).
Definition au_fs1 : fstree := snd (prepare_step ex_fs ex_cwd ex_outs au_rsp1).
Lemma au_step1 : prepare_step ex_fs ex_cwd ex_outs au_rsp1 = (None, au_fs1).
Proof. vm_compute. reflexivity. Qed.
Example nv_C16_step_prepared :
  is_dir_l au_fs1 ex_cwd (mkL false [bs ".."; bs "x"]) = true /\
  read_l au_fs1 ex_cwd (path_new (bs "r/q.rsp")) = Some (KFile (s [7;8;9])) /\
  lookup au_fs1 [bs "f"] = Some (KFile (s [1;2])).
Proof.
  destruct (C16_step_prepared _ _ _ _ _ au_step1) as (D & R & F). split; [|split].
  - apply (D (bs "../x/o3")); [right; right; left; reflexivity|vm_compute; reflexivity].
  - apply (R _ _ eq_refl).
  - destruct (F [bs "f"] (KFile (s [1;2])) eq_refl) as [H|(n & c & E & _ & H)]; [exact H|].
    inversion E; subst. vm_compute in H. discriminate H.
Qed.

Definition au_rsp2 : option (bytes * bytes) := Some (bs "/f", s [5]).
Definition au_fs2 : fstree := snd (prepare_step au_fs1 ex_cwd [bs "z/o"] au_rsp2).
Lemma au_step2 : prepare_step au_fs1 ex_cwd [bs "z/o"] au_rsp2 = (None, au_fs2).
Proof. vm_compute. reflexivity. Qed.
Example nv_C16_step_prepared_overwrite : lookup au_fs2 [bs "f"] = Some (KFile (s [5])).
Proof.
  destruct (C16_step_prepared _ _ _ _ _ au_step2) as (_ & _ & F).
  destruct (F [bs "f"] (KFile (s [1;2])) ltac:(vm_compute; reflexivity)) as [H|(n & c & E & _ & H)].
  - vm_compute in H. discriminate.
  - inversion E; subst. exact H.
Qed.

(* (a) C16_steps_prepared_stay_prepared: a successful and a failing second step *)
Example nv_C16_stay_prepared_ok : is_dir_l au_fs2 ex_cwd (mkL false [bs "a"; bs "b"]) = true.
Proof.
  apply (C16_steps_prepared_stay_prepared _ _ _ _ _ _ _ _ _ au_step1 au_step2 (bs "a/b/o1"));
    [left; reflexivity|vm_compute; reflexivity].
Qed.
Lemma au_step2_fails : prepare_step au_fs1 ex_cwd au_blocked None = (Some ENOTDIR, au_fs1).
Proof. vm_compute. reflexivity. Qed.
Example nv_C16_stay_prepared_failing : is_dir_l au_fs1 ex_cwd (mkL false [bs "a"; bs "b"]) = true.
Proof.
  apply (C16_steps_prepared_stay_prepared _ _ _ _ _ _ _ _ _ au_step1 au_step2_fails (bs "a/b/o2"));
    [right; left; reflexivity|vm_compute; reflexivity].
Qed.

(* (b) W1: the third conjunct of C16_step_prepared does not tie the changed location to the response
   file: a "preparation" that overwrites EVERY regular file with the content satisfies it. *)
Definition clobber (c : bytes) (fs : fstree) : fstree :=
  map (fun e : path * kind => (fst e, match snd e with KDir => KDir | KFile _ => KFile c end)) fs.
Lemma W_C16_step_prepared_frame_allows_clobbering_every_file (n c : bytes) (fs : fstree) :
  forall q k, lookup fs q = Some k ->
    lookup (clobber c fs) q = Some k \/
    exists n' c', Some (n, c) = Some (n', c') /\ k <> KDir /\ lookup (clobber c fs) q = Some (KFile c').
Proof.
  induction fs as [|[p k0] r IH]; simpl; intros q k H; [discriminate|].
  destruct (path_eqb p q); [|now apply IH]. inversion H; subst. destruct k as [|ct].
  - now left.
  - right. exists n, c. split; [reflexivity|]. split; [discriminate|reflexivity].
Qed.

(* (b) W2: "not every directory is clear" (the conclusion of C16_output_dirs_failure_means_blocked) is
   no evidence of a blocking file: it holds on the empty tree for a name with "..", and it holds in a
   case where create_parent_dirs SUCCEEDS.  The theorem is only the contrapositive of
   C16_output_dirs_succeed_unless_blocked; it exhibits no file, no output and no errno. *)
Lemma W_C16_not_clear_without_any_file : ~ clear_path [] [] (mkL false [bs ".."]).
Proof. intros [H _]. vm_compute in H. discriminate. Qed.
Lemma W_C16_not_clear_yet_succeeds :
  fst (create_parent_dirs ex_fs ex_cwd [bs "../x/o3"]) = None /\
  ~ (forall o d, In o [bs "../x/o3"] -> lp_parent (path_new o) = Some d -> clear_path ex_fs ex_cwd d).
Proof.
  split; [vm_compute; reflexivity|]. intros A.
  destruct (A (bs "../x/o3") (mkL false [bs ".."; bs "x"]) (or_introl eq_refl) ltac:(vm_compute; reflexivity)) as [H _].
  vm_compute in H. discriminate.
Qed.

(* (b) W3: the system calls never look at the working directory itself.  In a tree where cwd does not
   exist, mkdir("a") "succeeds" (the kernel: ENOENT) and leaves an ill-formed tree; Path::new("")
   .is_dir() is true in the model (std: false).  C16_output_dirs_created / C16_step_prepared carry
   no premise on cwd, so they also speak about such states. *)
Lemma W_C16_missing_cwd_not_noticed :
  create_parent_dirs [] [bs "nowhere"] [bs "a/o"] = (None, [([bs "nowhere"; bs "a"], KDir)]) /\
  ~ fs_wf [([bs "nowhere"; bs "a"], KDir)] /\
  is_dir_l [] [bs "nowhere"] (mkL false []) = true.
Proof.
  split; [vm_compute; reflexivity|]. split; [|reflexivity].
  intros W. destruct (W [bs "nowhere"; bs "a"] KDir ltac:(vm_compute; reflexivity)) as [_ H].
  vm_compute in H. discriminate.
Qed.

(* ======================================================================================== *)
(* C03 *)

(* (a) the premises of _missing_is_missing and _changed_is_changed on the example step *)
Definition au_w_gone : wstate := ex_w [(bs "a.c", ex_t 1); (bs "o", ex_t 3)] [(0%nat, hash_build ex_manifest)].
Lemma au_gone : explain_reason ex_g au_w_gone 0 ex_bd = Some (RMissing (bs "a.h")).
Proof. vm_compute. reflexivity. Qed.
Example nv_C03_missing :
  In (bs "a.h") (wb_dirtying ex_bd ++ disc_of au_w_gone 0 ++ wb_outs ex_bd) /\
  cache_get (ws_cache (fst (check_build_dirty ex_g au_w_gone 0 ex_bd))) (bs "a.h") = Some None.
Proof. exact (C03_explain_missing_is_missing _ _ _ _ _ au_gone). Qed.

Definition au_w_touched : wstate :=
  ex_w [(bs "a.c", ex_t 1); (bs "a.h", ex_t 9); (bs "o", ex_t 3)] [(0%nat, hash_build ex_manifest)].
Definition au_m : manifest := mkManifest [(bs "a.c", ex_t 1)] [(bs "a.h", ex_t 9)] (bs "cc a.c") None [(bs "o", ex_t 3)].
Lemma au_touched : explain_reason ex_g au_w_touched 0 ex_bd = Some (RChanged au_m).
Proof. vm_compute. reflexivity. Qed.
Example nv_C03_changed : exists prev, assoc_nat 0 (ws_hashes au_w_touched) = Some prev /\ hash_build au_m <> prev /\
  manifest_of (fst (check_build_dirty ex_g au_w_touched 0 ex_bd)) ex_bd (disc_of au_w_touched 0) = Some au_m.
Proof. exact (C03_explain_changed_is_changed _ _ _ _ _ au_touched). Qed.

(* (a) an accepted replay with two verdicts, a finish, a write and a record: cc a.c -> o ; ld o -> p *)
Definition au_bd1 : wbuild := mkWBuild [bs "o"] 1 0 0 [bs "p"] (Some (bs "ld o")) None.
Definition au_g : wgraph := mkWGraph [ex_bd; au_bd1] [(bs "o", 0%nat); (bs "p", 1%nat)].
Definition au_w0 : wstate := mkW [(bs "a.c", ex_t 1); (bs "a.h", ex_t 2)] [] [] [] [] [].
Definition au_m0 : manifest := mkManifest [(bs "a.c", ex_t 1)] [(bs "a.h", ex_t 2)] (bs "cc a.c") None [(bs "o", ex_t 4)].
Definition au_evs : list wevent :=
  [WVerdict 0 1; WFinish 0 0 (Some [bs "a.h"]); WWrite (bs "o") (Some (ex_t 4)); WRecord 0 (hash_build au_m0); WVerdict 1 1].
Definition au_locs : list bytes := [bs "build.ninja:3"; bs "build.ninja:6"].
Lemma au_replay_ok : exists w', replay au_g au_w0 None au_evs 0 = WOk w'.
Proof. eexists. vm_compute. reflexivity. Qed.
Example nv_C03_trace_covers : map fst (explain_trace au_g au_locs au_w0 None au_evs) = [0%nat; 1%nat].
Proof. destruct au_replay_ok as [w' H]. exact (C03_explain_trace_covers _ au_locs _ _ _ _ _ H). Qed.
(* what the theorem leaves out: the messages themselves *)
Example nv_C03_trace_messages : explain_trace au_g au_locs au_w0 None au_evs =
  [(0%nat, [bs "explain: build.ninja:3: input o missing"]); (1%nat, [bs "explain: build.ninja:6: input p missing"])].
Proof. vm_compute. reflexivity. Qed.

(* (b) W4: C03_explain_trace_covers only compares [map fst]: a function that logs nothing at all for
   any verdict satisfies the same statement, with no premise. *)
Definition silent_trace (evs : list wevent) : list (nat * list bytes) := map (fun b => (b, [])) (verdict_steps evs).
Lemma W_C03_trace_covers_met_by_silence : forall evs, map fst (silent_trace evs) = verdict_steps evs.
Proof. intros evs. unfold silent_trace. rewrite map_map. simpl. apply map_id. Qed.
(* ... and the premise is not what makes it true at verdicts: explain_trace ignores the verdict value,
   so the conclusion also holds on a trace the replay rejects (claimed clean, computed dirty) *)
Lemma W_C03_trace_covers_on_rejected_trace :
  (exists d, replay au_g au_w0 None [WVerdict 0 0; WVerdict 1 0] 0 = WMismatch 0 1 d) /\
  map fst (explain_trace au_g au_locs au_w0 None [WVerdict 0 0; WVerdict 1 0]) = verdict_steps [WVerdict 0 0; WVerdict 1 0].
Proof. split; [eexists; vm_compute; reflexivity|vm_compute; reflexivity]. Qed.

(* ======================================================================================== *)
(* C20 *)

Definition au_st : fstate :=
  mkFState (bs "log line" ++ [10%N]) (mkCounts 1 0 2 2 3 0)
           [mkFTask 1 0 (bs "compiling a rather long file name.c") (Some (bs "warning: unused variable 'x' [-Wunused]"));
            mkFTask 2 4000 (bs "ld") None] false.

(* (a) C20_frame_any_terminal on a 12-column terminal, two tasks, one with an output line *)
Example nv_C20_frame : exists body,
  f_print au_st 5000 12 = Ok (frame_of au_st (body ++ more_line 2), mkFState clear_seq (fs_counts au_st) (fs_tasks au_st) false) /\
  Forall (fun l => (length l <= 12)%nat) body /\ (2 <= length body <= 16)%nat.
Proof.
  destruct (C20_frame_any_terminal au_st 5000 (Some 12%N)) as (body & E & L & C & _).
  exists body. split; [exact E|]. split; [exact L|exact C].
Qed.
Example nv_C20_frame_body : exists rest, f_print au_st 5000 12 = Ok (rest, mkFState clear_seq (fs_counts au_st) (fs_tasks au_st) false) /\
  skipn 74 rest = bs "comp... (5s)" ++ [10%N] ++ bs "  warning: u" ++ [10%N] ++ bs "ld" ++ [10%N; 27%N] ++ bs "[4A".
Proof. eexists. split; [vm_compute; reflexivity|vm_compute; reflexivity]. Qed.

(* (b) W5: the width bound of C20_frame_any_terminal covers the task lines only.  The first line of
   every frame (status_line) has at least 64 columns, so on an accepted terminal of 10..63 columns
   it wraps and the cursor-up count at the end of the frame is one short. *)
Lemma W_C20_status_line_wider_than_accepted_terminal :
  (N.to_nat (max_cols (Some 10%N)) <? length (status_line (mkCounts 0 0 0 0 0 0) 0) - 1)%nat = true /\
  length (status_line (mkCounts 0 0 0 0 0 0) 0) = 65%nat.
Proof. vm_compute. split; reflexivity. Qed.

(* (b) W6: the threshold 10 plays no part in C20_frame_any_terminal (frame_spec needs 2 columns): the
   same statement holds for a get_cols that accepts every width from 2 upwards. *)
Definition max_cols2 (io : option N) : N := match io with Some c => if (c <? 2)%N then 80%N else c | None => 80%N end.
Lemma W_C20_frame_statement_does_not_need_10 : forall st now io, let cols := N.to_nat (max_cols2 io) in
  exists body, f_print st now cols = Ok (frame_of st (body ++ more_line (length (fs_tasks st))), mkFState clear_seq (fs_counts st) (fs_tasks st) (fs_verbose st)) /\
    Forall (fun l => (length l <= cols)%nat) body /\
    (Nat.min max_tasks (length (fs_tasks st)) <= length body <= 2 * max_tasks)%nat /\
    (Forall task_valid (fs_tasks st) -> Forall (fun l => utf8_ok l = true) body).
Proof.
  intros st now io cols. apply frame_spec. unfold cols, max_cols2. destruct io as [c|]; [|lia].
  destruct (c <? 2)%N eqn:E; [lia|]. apply N.ltb_ge in E. lia.
Qed.
