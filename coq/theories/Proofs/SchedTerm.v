(* C06, termination, universal form: from every reachable state that has not returned some
   non-stuttering event is accepted, whatever the environment answers; the scheduler needs the
   environment only while a step is being examined or a command runs; hence every maximal
   trace ends in a returned state, and no infinite run makes infinitely many moves. *)
From Coq Require Import Lia ZArith List Bool Arith.
From N2 Require Import Model.All Proofs.SchedSpec Proofs.SchedInv Proofs.SchedRunBase
     Proofs.SchedRunStep Proofs.SchedRunCore Proofs.SchedRunAux Proofs.SchedRunRInv
     Proofs.SchedRunThms Proofs.SchedRunFinal Proofs.SchedLive Proofs.SchedBoundSpec Proofs.SchedBound
     Proofs.SchedBoundStutter Proofs.SchedBoundComplete Proofs.SchedBoundAny Proofs.SchedTermSpec.
Import ListNotations.

(* ------------------------------------------------------------------------------------ *)
(* event classes *)

(* every event is a stutter, a scheduler move or an environment move, and only one of them *)
Lemma move_classes e :
  (if is_stutter e then 1 else 0) + (if sched_move e then 1 else 0) + (if env_move e then 1 else 0) = 1.
Proof. destruct e; reflexivity. Qed.

Lemma nonstutter_sched_or_env e : is_stutter e = false -> sched_move e = true \/ env_move e = true.
Proof. destruct e; cbn; auto; discriminate. Qed.

Lemma sched_move_nonstutter e : sched_move e = true -> is_stutter e = false.
Proof. destruct e; cbn; auto; discriminate. Qed.

Lemma env_move_nonstutter e : env_move e = true -> is_stutter e = false.
Proof. destruct e; cbn; auto; discriminate. Qed.

(* an environment move is accepted only where the acceptor awaits one *)
Lemma env_move_awaited cf r e r' :
  accept1 cf r e = Some r' -> env_move e = true -> awaits_env r.
Proof.
  intros H He. apply accept1_step in H.
  destruct H; cbn [env_move] in He; try discriminate He.
  - left. eexists; eassumption.
  - right. split; assumption.
Qed.

(* while a step is being examined, nothing but its verdict is accepted *)
Lemma checking_only_verdict cf r b e r' :
  rs_ctl r = CChecking b -> accept1 cf r e = Some r' -> exists v, e = EVerdict b v.
Proof.
  intros Hc H. apply accept1_step in H.
  destruct H; try congruence.
  match goal with Hc2 : rs_ctl _ = CChecking _ |- _ => rewrite Hc in Hc2; injection Hc2 as -> end.
  eexists; reflexivity.
Qed.

(* the scheduler moves accepted at the top of the loop *)
Lemma idle_sched_moves cf r e r' :
  rs_ctl r = CIdle -> accept1 cf r e = Some r' -> sched_move e = true ->
  exists b, e = EPopReady b \/ e = ESet b Queued Running \/ e = ESet b Want Ready \/
            e = EReturn (Some (rs_failed r =? 0)).
Proof.
  intros Hc H He. apply accept1_step in H.
  destruct H; cbn [sched_move] in He; try discriminate He; try congruence.
  - exists b. right. left. reflexivity.
  - exists b. left. reflexivity.
  - exists d. right. right. left. reflexivity.
  - exists 0. right. right. right. subst ok. reflexivity.
Qed.

(* ------------------------------------------------------------------------------------ *)

Section Term.
Variable cf : config.
Variable decls : list (bytes * nat).
Hypothesis Hwf : graph_wf (cf_graph cf).
Hypothesis Hpar : 1 <= cf_parallelism cf.
Notation g := (cf_graph cf).
Notation nb := (length (g_builds (cf_graph cf))).

(* ---- some move is always accepted ---- *)

Section Env.
Variable vd : nat -> verdict.
Variable tm : nat -> term.
Hypothesis Hvd : forall b, b_phony (get_build g b) = true -> vd b <> VDirty.

(* the first event of a completing continuation *)
Theorem never_stuck r :
  reachable cf decls r -> (forall ok, rs_ctl r <> CReturned ok) ->
  exists e r', is_stutter e = false /\ obeys vd tm e /\ accept1 cf r e = Some r'.
Proof.
  intros Hr Hnr.
  destruct (C06_no_dead_end cf decls Hwf Hpar vd tm Hvd r Hr Hnr)
    as (evs & ok & r' & A & _ & Ob & St & _).
  destruct evs as [|e evs].
  - cbn [app accepts] in A.
    destruct (accept1 cf r (EReturn ok)) as [r1|] eqn:E1; [|discriminate].
    exists (EReturn ok), r1. repeat split. exact E1.
  - cbn [app accepts] in A.
    destruct (accept1 cf r e) as [r1|] eqn:E1; [|discriminate].
    exists e, r1. rewrite count_ev_cons in St.
    split; [destruct (is_stutter e); [lia|reflexivity]|].
    split; [exact (Forall_inv Ob)|exact E1].
Qed.

End Env.

(* ... and where the acceptor does not await the environment, a scheduler move is *)
Theorem scheduler_never_waits r :
  reachable cf decls r -> (forall ok, rs_ctl r <> CReturned ok) -> ~ awaits_env r ->
  exists e r', sched_move e = true /\ accept1 cf r e = Some r'.
Proof.
  intros Hr Hnr Hna.
  destruct (never_stuck (fun _ => VClean) (fun _ => TSuccess) ltac:(intros; discriminate) r Hr Hnr)
    as (e & r' & Hst & _ & A).
  exists e, r'. split; [|exact A].
  destruct (nonstutter_sched_or_env e Hst) as [Hs|He]; [exact Hs|].
  exfalso. exact (Hna (env_move_awaited cf r e r' A He)).
Qed.

(* the form asked for: at the top of the loop with nothing running, the scheduler pops a ready
   step, starts a queued one, promotes a waiting one, or returns *)
Theorem idle_scheduler_move r :
  reachable cf decls r -> rs_ctl r = CIdle -> rs_running r = 0 ->
  exists e r', sched_move e = true /\ accept1 cf r e = Some r' /\
    exists b, e = EPopReady b \/ e = ESet b Queued Running \/ e = ESet b Want Ready \/
              e = EReturn (Some (rs_failed r =? 0)).
Proof.
  intros Hr Hc Hrun.
  destruct (scheduler_never_waits r Hr) as (e & r' & Hs & A).
  - intros ok E. congruence.
  - intros [(b & E)|(_ & Hpos)]; [congruence|lia].
  - exists e, r'. split; [exact Hs|]. split; [exact A|].
    exact (idle_sched_moves cf r e r' Hc A Hs).
Qed.

(* in the middle of an iteration too, except while the verdict is awaited *)
Theorem mid_iteration_scheduler_move r :
  reachable cf decls r ->
  (exists b v rec, rs_ctl r = CVerdict b v rec) \/ (exists b, rs_ctl r = CStarting b) \/
  (exists b t rec, rs_ctl r = CFinished b t rec) ->
  exists e r', sched_move e = true /\ accept1 cf r e = Some r'.
Proof.
  intros Hr Hc. apply (scheduler_never_waits r Hr).
  - intros ok E. destruct Hc as [(b & v & x & E2)|[(b & E2)|(b & t & x & E2)]]; congruence.
  - intros [(b0 & E)|(E & _)]; destruct Hc as [(b & v & x & E2)|[(b & E2)|(b & t & x & E2)]]; congruence.
Qed.

(* ---- the environment is never refused ---- *)

(* every verdict on the step being examined is accepted (a step without a command cannot be
   found dirty), and every termination of every running command *)
Theorem env_never_refused r :
  reachable cf decls r ->
  (forall b, rs_ctl r = CChecking b ->
     forall v, (v = VDirty -> b_phony (get_build g b) = false) ->
       exists r', accept1 cf r (EVerdict b v) = Some r') /\
  (rs_ctl r = CIdle -> 0 < rs_running r ->
     (exists b, b < nb /\ get_state (rs_bs r) b = Running) /\
     forall b t, get_state (rs_bs r) b = Running -> exists r', accept1 cf r (EFinish b t) = Some r').
Proof.
  intro Hr. split.
  - intros b Hc v Hv. eexists. exact (acc_verdict cf r b v Hc Hv).
  - intros Hc Hrun. split.
    + destruct (some_running cf decls Hwf r Hr Hc Hrun) as (b & E & _).
      exists b. split; [|exact E].
      pose proof (reachable_RInv_closed cf decls Hwf r Hr) as Hinv.
      apply (BCore_range g decls _ b (ri_core _ _ _ Hinv)). rewrite E. discriminate.
    + intros b t E. eexists. exact (acc_finish cf r b t Hc E Hrun).
Qed.

(* ---- maximal traces ---- *)

Lemma returned_maximal r evs r' ok :
  accepts cf r evs = Some r' -> rs_ctl r' = CReturned ok -> maximal cf r evs r'.
Proof.
  intros A Hc. split; [exact A|]. intros e _. exact (C05_returned_is_final cf r' ok e Hc).
Qed.

Lemma maximal_returned r evs r' :
  reachable cf decls r -> maximal cf r evs r' -> exists ok, rs_ctl r' = CReturned ok.
Proof.
  intros Hr [A Hmax].
  pose proof (reach_accepts cf decls evs r r' Hr A) as Hr'.
  destruct (rs_ctl r') as [|b|b v x|b|b t x|ok] eqn:Hc; try (exists ok; reflexivity); exfalso.
  all: destruct (never_stuck (fun _ => VClean) (fun _ => TSuccess) ltac:(intros; discriminate) r' Hr')
         as (e & r2 & Hst & _ & A2); [intros ok E; congruence|].
  all: rewrite (Hmax e Hst) in A2; discriminate A2.
Qed.

Theorem every_run_terminates r evs r' :
  reachable cf decls r -> maximal cf r evs r' ->
  (exists ok, rs_ctl r' = CReturned ok) /\
  count_ev (fun e => negb (is_stutter e)) evs <= 9 * unfinished g (rs_bs r) + 1 /\
  unfinished g (rs_bs r) <= nb.
Proof.
  intros Hr Hm. split; [exact (maximal_returned r evs r' Hr Hm)|].
  exact (C06_trace_length_partial cf decls Hwf r evs r' Hr (proj1 Hm)).
Qed.

Theorem maximal_iff_returned r evs r' :
  reachable cf decls r -> accepts cf r evs = Some r' ->
  (maximal cf r evs r' <-> exists ok, rs_ctl r' = CReturned ok).
Proof.
  intros Hr A. split.
  - exact (maximal_returned r evs r' Hr).
  - intros [ok Hc]. exact (returned_maximal r evs r' ok A Hc).
Qed.

(* every accepted trace is the beginning of a maximal one, whatever the environment answers *)
Theorem maximal_extension vd tm :
  (forall b, b_phony (get_build g b) = true -> vd b <> VDirty) ->
  forall r evs r1, reachable cf decls r -> accepts cf r evs = Some r1 ->
  exists evs2 r', maximal cf r (evs ++ evs2) r' /\ Forall (obeys vd tm) evs2 /\
                  count_ev is_stutter evs2 = 0 /\
                  length evs2 <= 4 * run_potential g (rs_bs r1) + 8.
Proof.
  intros Hvd r evs r1 Hr A.
  pose proof (reach_accepts cf decls evs r r1 Hr A) as Hr1.
  assert (D : (exists ok, rs_ctl r1 = CReturned ok) \/ (forall ok, rs_ctl r1 <> CReturned ok)).
  { destruct (rs_ctl r1); try (right; intros; discriminate). left. eexists; reflexivity. }
  destruct D as [[ok Hc]|Hnr].
  - exists [], r1. rewrite app_nil_r.
    split; [exact (returned_maximal r evs r1 ok A Hc)|].
    split; [constructor|]. split; [reflexivity|cbn; lia].
  - destruct (C06_no_dead_end cf decls Hwf Hpar vd tm Hvd r1 Hr1 Hnr)
      as (evs2 & ok & r' & A2 & Hc & Ob & St & Len & _).
    exists (evs2 ++ [EReturn ok]), r'.
    split; [apply (returned_maximal r _ r' ok); [rewrite accepts_app, A; exact A2|exact Hc]|].
    split; [apply Forall_app; split; [exact Ob|repeat constructor]|].
    rewrite count_ev_app, app_length, St. cbn. lia.
Qed.

End Term.

(* ------------------------------------------------------------------------------------ *)
(* infinite runs *)

Section Infinite.
Variable cf : config.
Variable decls : list (bytes * nat).
Hypothesis Hwf : graph_wf (cf_graph cf).
Notation g := (cf_graph cf).

Lemma prefix_S f n : prefix f (S n) = prefix f n ++ [f n].
Proof. unfold prefix. rewrite seq_S, map_app. reflexivity. Qed.

Lemma prefix_count_mono p f : forall n m, n <= m -> count_ev p (prefix f n) <= count_ev p (prefix f m).
Proof.
  intros n m H. induction H as [|m H IH]; [lia|].
  rewrite prefix_S, count_ev_app. lia.
Qed.

(* infinitely many moves would give prefixes with any number of them *)
Lemma many_moves f :
  (forall n, exists m, n <= m /\ is_stutter (f m) = false) ->
  forall k, exists n, k <= count_ev (fun e => negb (is_stutter e)) (prefix f n).
Proof.
  intros Hinf k. induction k as [|k [n IH]]; [exists 0; lia|].
  destruct (Hinf n) as (m & Hm & Hst).
  exists (S m). rewrite prefix_S, count_ev_app, count_ev_cons, Hst. cbn [negb].
  pose proof (prefix_count_mono (fun e => negb (is_stutter e)) f n m Hm). lia.
Qed.

Theorem no_infinite_run r f :
  reachable cf decls r -> infinite_run cf r f ->
  ~ (forall n, exists m, n <= m /\ is_stutter (f m) = false).
Proof.
  intros Hr Hrun Hinf.
  destruct (many_moves f Hinf (9 * unfinished g (rs_bs r) + 2)) as [n Hn].
  destruct (accepts cf r (prefix f n)) as [r'|] eqn:A; [|exact (Hrun n A)].
  pose proof (C06_trace_length_partial cf decls Hwf r (prefix f n) r' Hr A) as [B _]. lia.
Qed.

(* the moves of an infinite run all lie in a bounded number of positions *)
Theorem infinite_run_moves r f n :
  reachable cf decls r -> infinite_run cf r f ->
  count_ev (fun e => negb (is_stutter e)) (prefix f n) <= 9 * unfinished g (rs_bs r) + 1.
Proof.
  intros Hr Hrun.
  destruct (accepts cf r (prefix f n)) as [r'|] eqn:A; [|exfalso; exact (Hrun n A)].
  exact (proj1 (C06_trace_length_partial cf decls Hwf r (prefix f n) r' Hr A)).
Qed.

End Infinite.
