(* audit file: AuditNonVacuousLoad

   Machine-checked NON-VACUITY examples for the theorems of Props/C10Load.v, Props/C10Incl.v,
   Props/C11.v and Props/C14.v: for each theorem

     exists <its universally quantified variables>, <ALL its premises> /\ <a non-degeneracy fact>

   with concrete manifests (those of Proofs/LoadGraphEx.v, LoadInclEx.v, ParseRoundEx.v, and two
   spellings of a small rule/build/default file built here). *)
From Coq Require Import String.
From N2 Require Import Model.All.
From N2 Require Import Proofs.EvalScope Proofs.EvalFiles Proofs.GraphDedup Proofs.GraphAddBuild Proofs.GraphLoad.
From N2 Require Import Proofs.ParseSpell Proofs.ParseRoundEx.
From N2 Require Import Proofs.LoadGraphSpec Proofs.LoadGraphBuild Proofs.LoadGraphRun Proofs.LoadGraphNorm
     Proofs.LoadGraphFile Proofs.LoadGraphNames Proofs.LoadGraphView Proofs.LoadGraphEx.
From N2 Require Import Proofs.LoadInclSpec Proofs.LoadInclRun Proofs.LoadInclFlat Proofs.LoadInclIsolated
     Proofs.LoadInclEx.

(* ------------------------------------------------------------------------------------ *)
(* helpers *)

Lemma notin13' (l : bytes) : forallb (fun c => negb (c =? 13)%N) l = true -> ~ In 13%N l.
Proof.
  intros H I. rewrite forallb_forall in H. specialize (H _ I). discriminate H.
Qed.
Ltac no13 := apply notin13'; vm_compute; reflexivity.

Lemma no_include_b (sts : list (statement * vars)) :
  forallb (fun sv => negb (is_include (fst sv))) sts = true -> no_include sts.
Proof.
  intro H. apply Forall_forall. intros sv I. rewrite forallb_forall in H. specialize (H sv I).
  destruct (is_include (fst sv)); [discriminate H | reflexivity].
Qed.

Definition name0 : bytes := bs "build.ninja".
Definition init_sc (text : bytes) : scanner := mkScanner (text ++ [0%N]) 0 1.

(* ------------------------------------------------------------------------------------ *)
(* A. the one-file manifest of LoadGraphEx.v (pool, two rules, two builds, default), through the
      parser's own reads *)

Definition m_sts : list (statement * vars) := fst (file_stmts ex_manifest []).
Definition m_r : sres (option statement * vars) := snd (file_stmts ex_manifest []).
Definition m_vs : vars := [(bs "builddir", bs "out"); (bs "cflags", bs "-O2")].
Definition m_end : scanner := match m_r with SOk _ s => s | _ => mkScanner [] 0 0 end.

Lemma m_reads : reads_to (ex_manifest ++ [0%N]) (init_sc ex_manifest) [] m_sts m_r.
Proof. exact (file_stmts_reads ex_manifest []). Qed.

Lemma m_r_eq : m_r = SOk (None, m_vs) m_end.
Proof. vm_compute. reflexivity. Qed.

Lemma m_no_include : no_include m_sts.
Proof. apply no_include_b. vm_compute. reflexivity. Qed.

Lemma m_counts : count_builds m_sts = 2 /\ length m_sts = 6.
Proof. vm_compute. split; reflexivity. Qed.

Example C10_parse_file_is_run_stmts_nonvacuous :
  exists depth fs l filename text inherited sts vs_final,
    reads (text ++ [0%N]) (mkScanner (text ++ [0%N]) 0 1) inherited sts vs_final /\ no_include sts /\
    count_builds sts = 2 /\ length sts = 6 /\ vs_final <> [] /\
    exists l', parse_file true (S depth) fs l filename text inherited = Ok l' /\ length (l_builds l') = 2.
Proof.
  exists 4, [], (loader_start name0), name0, ex_manifest, [], m_sts, m_vs.
  split; [exists m_end; rewrite <- m_r_eq; exact m_reads|].
  split; [exact m_no_include|]. split; [apply m_counts|]. split; [apply m_counts|].
  split; [discriminate|].
  eexists. split; vm_compute; reflexivity.
Qed.

Example C10_load_manifest_reads_nonvacuous :
  exists depth fs name text sts r,
    reads_to (text ++ [0%N]) (mkScanner (text ++ [0%N]) 0 1) [] sts r /\ no_include sts /\
    count_builds sts = 2 /\
    exists l, load_manifest true (S depth) fs name text = Ok l /\ length (l_builds l) = 2.
Proof.
  exists 4, [], name0, ex_manifest, m_sts, m_r.
  split; [exact m_reads|]. split; [exact m_no_include|]. split; [apply m_counts|].
  eexists. split; vm_compute; reflexivity.
Qed.

(* the same theorem on a text whose reads END WITH A PARSE ERROR behind a good statement *)
Definition bad_text : bytes := ln "build a: phony b" (ln "build a b" []).

Example C10_load_manifest_reads_nonvacuous_error :
  exists depth fs name text sts r,
    reads_to (text ++ [0%N]) (mkScanner (text ++ [0%N]) 0 1) [] sts r /\ no_include sts /\
    count_builds sts = 1 /\ (exists m o, r = SErr m o) /\
    exists m, load_manifest true (S depth) fs name text = Err m.
Proof.
  exists 4, [], name0, bad_text, (fst (file_stmts bad_text [])), (snd (file_stmts bad_text [])).
  split; [exact (file_stmts_reads bad_text [])|].
  split; [apply no_include_b; vm_compute; reflexivity|].
  split; [vm_compute; reflexivity|].
  split; [eexists; eexists; vm_compute; reflexivity|].
  eexists. vm_compute. reflexivity.
Qed.

Example C10_run_stmts_spec_nonvacuous :
  exists filename sts l0 l,
    LInv l0 /\ builds_wf sts /\ run_stmts l0 filename sts = Ok l /\
    (* the premise LInv is shown for the loader load_manifest starts from *)
    l0 = loader_start name0 /\ count_builds sts = 2 /\ length (l_builds l) = 2 /\
    length (l_files l) = 10.
Proof.
  exists name0, m_sts, (loader_start name0). eexists.
  split; [apply LInv_start|].
  split; [exact (reads_to_builds_wf _ _ _ _ _ m_reads)|].
  split; [vm_compute; reflexivity|].
  split; [reflexivity|]. split; [apply m_counts|]. split; vm_compute; reflexivity.
Qed.

Example C10_run_stmts_names_unique_nonvacuous :
  exists filename sts l0 l,
    LInv l0 /\ builds_wf sts /\ NamesUnique l0 /\ run_stmts l0 filename sts = Ok l /\
    l0 = loader_start name0 /\ count_builds sts = 2 /\ length (l_files l) = 10.
Proof.
  exists name0, m_sts, (loader_start name0). eexists.
  split; [apply LInv_start|].
  split; [exact (reads_to_builds_wf _ _ _ _ _ m_reads)|].
  split; [apply NamesUnique_start|].
  split; [vm_compute; reflexivity|].
  split; [reflexivity|]. split; [apply m_counts|]. vm_compute; reflexivity.
Qed.

(* C10_add_build_spec / C14_loader_add_build_LInv / C11_paths_scope: one `build` statement whose
   paths use a build-block binding and a file-level variable *)
Definition one_pb : pbuild :=
  mkPBuild (bs "phony") 3 [[Lit (bs "o"); Var (bs "x")]; [Lit (bs "./o1")]] 1 [[Var (bs "y")]] 1 0 0 0
           [(bs "y", [Lit (bs "in"); Var (bs "x")])].

Example C10_add_build_spec_nonvacuous :
  exists l filename vs pb l',
    LInv l /\ pb_explicit_outs pb <= length (pb_outs pb) /\
    loader_add_build true l filename vs pb = Ok l' /\
    map lf_name (l_files l') = [name0; bs "in1"; bs "o1"] /\ length (l_builds l') = 1.
Proof.
  exists (loader_start name0), name0, [(bs "x", bs "1")], one_pb. eexists.
  split; [apply LInv_start|]. split; [vm_compute; repeat constructor|].
  split; [vm_compute; reflexivity|]. split; vm_compute; reflexivity.
Qed.

Example C11_paths_scope_nonvacuous :
  exists fixed l filename fvars pb l',
    loader_add_build fixed l filename fvars pb = Ok l' /\
    pb_ins pb <> [] /\ pb_vars pb <> [] /\ fvars <> [] /\
    map lf_name (l_files l') = [name0; bs "in1"; bs "o1"].
Proof.
  exists true, (loader_start name0), name0, [(bs "x", bs "1")], one_pb. eexists.
  split; [vm_compute; reflexivity|].
  split; [discriminate|]. split; [discriminate|]. split; [discriminate|]. vm_compute. reflexivity.
Qed.

Example C11_first_env_wins_nonvacuous :
  exists e rest v es,
    assoc_b v e = Some es /\
    (* the value refers to the variable itself, bound differently further out *)
    eval_var (e :: rest) v = bs "a.outer" /\ evaluate (e :: rest) es = bs "a.a.outer".
Proof.
  exists [(bs "x", [Lit (bs "a."); Var (bs "x")])], [[(bs "x", [Lit (bs "outer")])]], (bs "x"),
         [Lit (bs "a."); Var (bs "x")].
  repeat split.
Qed.

(* ------------------------------------------------------------------------------------ *)
(* B. a file of three statements (rule, build with every section and a binding, default) spelled
      in two genuinely different ways *)

Definition cmd_eval : evalstring := [Lit (bs "cc "); Var (bs "in")].
Definition rule_bl : list (bytes * evalstring) := [(bs "command", cmd_eval)].

Lemma cmd_value_a : value_text cmd_eval (bs "cc $in").
Proof.
  split; [|split].
  - exists [Lit (bs "cc "); Var (bs "in")]. split; [|reflexivity]. vm_compute.
    refine (se_lit false [99; 99; 32]%N _ _ _ _ _); [discriminate | reflexivity|].
    refine (se_var false [105; 110]%N _ [] _ _ _ I); [discriminate | reflexivity | constructor].
  - intros r E. discriminate E.
  - intros r E. discriminate E.
Qed.

Lemma cmd_value_b : value_text cmd_eval (bs "cc$ ${in}").
Proof.
  split; [|split].
  - exists [Lit (bs "cc"); Lit (bs " "); Var (bs "in")]. split; [|reflexivity]. vm_compute.
    refine (se_lit false [99; 99]%N _ _ _ _ _); [discriminate | reflexivity|].
    refine (se_esc false 32%N _ _ _ _); [now left|].
    refine (se_bvar false [105; 110]%N _ [] _ _ _); [discriminate | reflexivity | constructor].
  - intros r E. discriminate E.
  - intros r E. discriminate E.
Qed.

Definition rule_block_a : bytes :=
  repeat 32%N 2 ++ bs "command" ++ sp1 ++ [61%N] ++ sp1 ++ bs "cc $in" ++ [10%N] ++ [].
Definition rule_block_b : bytes :=
  repeat 32%N 1 ++ bs "command" ++ [] ++ [61%N] ++ [] ++ bs "cc$ ${in}" ++ [10%N] ++ [].
Definition rule_text_a : bytes := bs "rule" ++ sp1 ++ bs "cc" ++ [10%N] ++ rule_block_a.
Definition rule_text_b : bytes := bs "rule" ++ (sp1 ++ sp1) ++ bs "cc" ++ [10%N] ++ rule_block_b.

Definition rule_stmt : statement := SRule (bs "cc") (block_vars rule_bl).

Lemma rule_spells_a ln0 : spells_stmt ln0 rule_stmt rule_text_a.
Proof.
  apply (ss_rule ln0 sp1 (bs "cc") rule_bl rule_block_a);
    [repeat constructor | discriminate | split; [discriminate | reflexivity]|].
  apply sb_cons;
    [split; [discriminate | reflexivity] | reflexivity | repeat constructor | repeat constructor
     | exact cmd_value_a | constructor].
Qed.

Lemma rule_spells_b ln0 : spells_stmt ln0 rule_stmt rule_text_b.
Proof.
  apply (ss_rule ln0 (sp1 ++ sp1) (bs "cc") rule_bl rule_block_b);
    [repeat constructor | discriminate | split; [discriminate | reflexivity]|].
  apply sb_cons;
    [split; [discriminate | reflexivity] | reflexivity | repeat constructor | repeat constructor
     | exact cmd_value_b | constructor].
Qed.

Definition ex_filler2 : bytes := bs "x=1" ++ nl ++ nl ++ bs "# other" ++ nl.

Lemma ex_filler2_spells : spells_pre [] [(bs "x", bs "1")] ex_filler2.
Proof.
  change ex_filler2 with (bs "x" ++ [] ++ [61%N] ++ [] ++ bs "1" ++ [10%N] ++
                          (10%N :: 35%N :: bs " other" ++ 10%N :: [])).
  apply (pr_bind (bs "x") [] [] (p "1") (bs "1") [] _ _);
    [split; [discriminate | reflexivity] | reflexivity | constructor | constructor
     | apply plain_value_text; [discriminate | reflexivity | discriminate] | ].
  apply pr_blank. apply pr_comment; [reflexivity | constructor].
Qed.

(* the build statement stands on line 6 in both spellings: 2 lines of rule, 3 of filler *)
Definition build6 : statement := SBuild (decl_build ex_decl 6 (block_vars ex_block)).
Definition x1 : vars := [(bs "x", bs "1")].

Definition default_a : bytes := bs "default" ++ sp1 ++ (bs "a.o" ++ [] ++ []) ++ [10%N].
Definition cont2 : bytes := 36%N :: 10%N :: 32%N :: 32%N :: [].
Definition default_b : bytes := bs "default" ++ cont2 ++ (bs "a.o" ++ sp1 ++ []) ++ [10%N].

Definition file_a : bytes := [] ++ rule_text_a ++ (ex_filler ++ ex_text_a ++ (nl ++ default_a ++ [])).
Definition file_b : bytes := [] ++ rule_text_b ++ (ex_filler2 ++ ex_text_b ++ ([] ++ default_b ++ [])).

Definition file_svs : list (statement * vars) :=
  [(rule_stmt, []); (build6, x1); (SDefault [p "a.o"], x1)].

Lemma file_a_spells : spells_file_v 1 [] file_svs x1 file_a.
Proof.
  unfold file_a, file_svs.
  apply (sfv_stmt 1 [] [] x1 [] rule_stmt rule_text_a _ (ex_filler ++ ex_text_a ++ (nl ++ default_a ++ []))).
  - constructor.
  - apply rule_spells_a.
  - exists 35%N, (skipn 1 (ex_filler ++ ex_text_a ++ (nl ++ default_a ++ [])) ++ [0%N]).
    split; [reflexivity | discriminate].
  - apply (sfv_stmt _ [] x1 x1 ex_filler build6 ex_text_a _ (nl ++ default_a ++ [])).
    + exact ex_filler_spells.
    + exact (ss_build (3 + nlz ex_filler) sp1 ex_decl _ ex_block _ ltac:(repeat constructor)
                      ex_line_a eq_refl ex_block_a).
    + exists 10%N, (default_a ++ [] ++ [0%N]). split; [reflexivity | discriminate].
    + apply (sfv_stmt _ x1 x1 x1 nl (SDefault [p "a.o"]) default_a _ []).
      * apply pr_blank. constructor.
      * apply ss_default; [repeat constructor | discriminate | | reflexivity].
        apply paths_one; [discriminate | reflexivity | sep0].
      * exists 0%N, []. split; [reflexivity | discriminate].
      * apply sfv_end. constructor.
Qed.

Lemma file_b_spells : spells_file_v 1 [] file_svs x1 file_b.
Proof.
  unfold file_b, file_svs.
  apply (sfv_stmt 1 [] [] x1 [] rule_stmt rule_text_b _ (ex_filler2 ++ ex_text_b ++ ([] ++ default_b ++ []))).
  - constructor.
  - apply rule_spells_b.
  - exists 120%N, (skipn 1 (ex_filler2 ++ ex_text_b ++ ([] ++ default_b ++ [])) ++ [0%N]).
    split; [reflexivity | discriminate].
  - apply (sfv_stmt _ [] x1 x1 ex_filler2 build6 ex_text_b _ ([] ++ default_b ++ [])).
    + exact ex_filler2_spells.
    + exact (ss_build (3 + nlz ex_filler2) sp1 ex_decl _ ex_block _ ltac:(repeat constructor)
                      ex_line_b eq_refl ex_block_b).
    + exists 100%N, (skipn 1 default_b ++ [] ++ [0%N]). split; [reflexivity | discriminate].
    + apply (sfv_stmt _ x1 x1 x1 [] (SDefault [p "a.o"]) default_b _ []).
      * constructor.
      * apply ss_default; [repeat constructor | discriminate | | reflexivity].
        apply paths_one; [discriminate | reflexivity | sep1].
      * exists 0%N, []. split; [reflexivity | discriminate].
      * apply sfv_end. constructor.
Qed.

Lemma file_svs_no_include : no_include file_svs.
Proof. apply no_include_b. reflexivity. Qed.

Definition get_ok (o : outcome loader) : loader := match o with Ok l => l | _ => loader_new end.
Definition la : loader := get_ok (load_manifest true 5 [] name0 file_a).
Definition lb : loader := get_ok (load_manifest true 5 [] name0 file_b).

Lemma la_load : load_manifest true 5 [] name0 file_a = Ok la.
Proof. vm_compute. reflexivity. Qed.
Lemma lb_load : load_manifest true 5 [] name0 file_b = Ok lb.
Proof. vm_compute. reflexivity. Qed.

Example C10_file_reads_nonvacuous :
  exists svs vs' text,
    spells_file_v 1 [] svs vs' text /\ ~ In 13%N text /\ length svs = 3 /\ count_builds svs = 1.
Proof.
  exists file_svs, x1, file_a.
  split; [exact file_a_spells|]. split; [no13|]. split; reflexivity.
Qed.

Example C10_load_manifest_is_run_stmts_nonvacuous :
  exists depth fs name text svs vs',
    spells_file_v 1 [] svs vs' text /\ ~ In 13%N text /\ no_include svs /\
    count_builds svs = 1 /\ exists l, load_manifest true (S depth) fs name text = Ok l.
Proof.
  exists 4, [], name0, file_a, file_svs, x1.
  split; [exact file_a_spells|]. split; [no13|]. split; [exact file_svs_no_include|].
  split; [reflexivity|]. exists la. exact la_load.
Qed.

Example C10_graph_nonvacuous :
  exists depth fs name text svs vs' l,
    spells_file_v 1 [] svs vs' text /\ ~ In 13%N text /\ no_include svs /\
    load_manifest true (S depth) fs name text = Ok l /\
    (* a rule, a build with all four input kinds and an implicit output, a default; loaded *)
    count_builds svs = 1 /\ length svs = 3 /\ default_items svs <> [] /\
    map (fun b => (lb_line b, lb_cmdline b, map (file_nm l) (lb_ins b), map (file_nm l) (lb_outs b))) (l_builds l) =
      [(6%Z, Some (bs "cc a.c"), [bs "a.c"; bs "h.h"; bs "gen"; bs "val"], [bs "a.o"; bs "a.map"])].
Proof.
  exists 4, [], name0, file_a, file_svs, x1, la.
  split; [exact file_a_spells|]. split; [no13|]. split; [exact file_svs_no_include|].
  split; [exact la_load|].
  split; [reflexivity|]. split; [reflexivity|]. split; [discriminate|].
  vm_compute. reflexivity.
Qed.

Example C10_graph_view_nonvacuous :
  exists depth fs name text svs vs' l,
    spells_file_v 1 [] svs vs' text /\ ~ In 13%N text /\ no_include svs /\
    load_manifest true (S depth) fs name text = Ok l /\
    count_builds svs = 1 /\
    (* the declared view exists (is not None) *)
    exists v, map (item_view name) (build_items [(bs "phony", [])] svs) = [Some v] /\
              sv_cmdline v = Some (bs "cc a.c").
Proof.
  exists 4, [], name0, file_b, file_svs, x1, lb.
  split; [exact file_b_spells|]. split; [no13|]. split; [exact file_svs_no_include|].
  split; [exact lb_load|]. split; [reflexivity|].
  eexists. split; vm_compute; reflexivity.
Qed.

Example C10_graph_spelling_independent_nonvacuous :
  exists depth fs name t1 t2 svs vs' l1 l2,
    spells_file_v 1 [] svs vs' t1 /\ spells_file_v 1 [] svs vs' t2 /\
    ~ In 13%N t1 /\ ~ In 13%N t2 /\ no_include svs /\
    load_manifest true (S depth) fs name t1 = Ok l1 /\ load_manifest true (S depth) fs name t2 = Ok l2 /\
    (* different texts (even of different length and with a different number of lines), one build,
       and the two loaders are NOT equal (the rule tables keep the pieces as they were read) *)
    t1 <> t2 /\ length t1 <> length t2 /\ nlz t1 <> nlz t2 /\ count_builds svs = 1 /\
    length (l_builds l1) = 1 /\ l_rules l1 <> l_rules l2.
Proof.
  exists 4, [], name0, file_a, file_b, file_svs, x1, la, lb.
  split; [exact file_a_spells|]. split; [exact file_b_spells|].
  split; [no13|]. split; [no13|]. split; [exact file_svs_no_include|].
  split; [exact la_load|]. split; [exact lb_load|].
  split; [vm_compute; discriminate|]. split; [vm_compute; discriminate|].
  split; [vm_compute; discriminate|]. split; [reflexivity|].
  split; [vm_compute; reflexivity|]. vm_compute. discriminate.
Qed.

(* ------------------------------------------------------------------------------------ *)
(* C. manifests with include / subninja (LoadInclEx.v: build.ninja includes a.ninja, which
      subninjas b.ninja) *)

Example C10_load_is_run_stmts_files_nonvacuous :
  exists depth fs name text sts r,
    reads_to (text ++ [0%N]) (mkScanner (text ++ [0%N]) 0 1) [] sts r /\
    existsb (fun sv => is_include (fst sv)) sts = true /\ count_builds sts = 2 /\
    exists l, load_manifest true (S depth) fs name text = Ok l /\ length (l_builds l) = 4.
Proof.
  exists 4, ex_fs, name0, ex_main, (fst (file_stmts ex_main [])), (snd (file_stmts ex_main [])).
  split; [exact (file_stmts_reads ex_main [])|].
  split; [vm_compute; reflexivity|]. split; [vm_compute; reflexivity|].
  eexists. split; vm_compute; reflexivity.
Qed.

Example C10_flat_file_run_nonvacuous :
  exists fs depth reading filename text inherited items,
    flat_file depth fs reading filename text inherited = Some items /\
    length items = 12 /\ count_builds (stmts_of items) = 4 /\
    exists l', run_file depth fs reading (loader_start name0) filename text inherited = Ok l' /\
               length (l_builds l') = 4.
Proof.
  exists ex_fs, 5, [], name0, ex_main, []. eexists.
  split; [vm_compute; reflexivity|]. split; [reflexivity|]. split; [vm_compute; reflexivity|].
  eexists. split; vm_compute; reflexivity.
Qed.

Example C10_include_order_nonvacuous :
  exists depth fs name text l,
    load_manifest true depth fs name text = Ok l /\
    fs <> [] /\ map lb_file (l_builds l) = [bs "a.ninja"; bs "b.ninja"; name0; name0].
Proof.
  exists 5, ex_fs, name0, ex_main. eexists.
  split; [vm_compute; reflexivity|]. split; [discriminate|]. vm_compute. reflexivity.
Qed.

Example C10_run_flat_spec_nonvacuous :
  exists items l0 l,
    LInv l0 /\ fitems_wf items /\ run_flat l0 items = Ok l /\
    l0 = loader_start name0 /\ length items = 12 /\ length (l_builds l) = 4.
Proof.
  exists (match flat_file 5 ex_fs [] name0 ex_main [] with Some x => x | None => [] end),
         (loader_start name0). eexists.
  split; [apply LInv_start|].
  split; [apply (flat_file_wf ex_fs 5 [] name0 ex_main []); vm_compute; reflexivity|].
  split; [vm_compute; reflexivity|]. split; [reflexivity|]. split; vm_compute; reflexivity.
Qed.

(* C11_child_scope_isolated: the two-file manifest of LoadInclEx.v with and without the include
   line *)
Definition iso_st : statement := SInclude [Lit (bs "a.ninja")].
Definition iso_vs : vars := [(bs "v", bs "top")].

Lemma iso_split : fst (file_stmts iso_main []) = iso_pre ++ (iso_st, iso_vs) :: iso_post.
Proof. vm_compute. reflexivity. Qed.
Lemma iso_split' : fst (file_stmts iso_main' []) = iso_pre ++ iso_post.
Proof. vm_compute. reflexivity. Qed.

Example C11_child_scope_isolated_nonvacuous :
  exists depth fs reading l0 file pre st p vs post l l',
    is_child_line st p /\ LInv l0 /\ NamesUnique l0 /\ builds_wf (pre ++ post) /\
    run_stmts_files depth fs reading l0 file (pre ++ (st, vs) :: post) = Ok l /\
    run_stmts_files depth fs reading l0 file (pre ++ post) = Ok l' /\
    (* statements on both sides of the line; the child adds a step and redeclares a rule *)
    length pre = 2 /\ count_builds post = 2 /\ length (l_builds l) = 3 /\ length (l_builds l') = 2 /\
    l_rules l <> l_rules l'.
Proof.
  exists 4, iso_fs, [], (loader_start name0), name0, iso_pre, iso_st, [Lit (bs "a.ninja")], iso_vs, iso_post.
  eexists. eexists.
  split; [left; reflexivity|]. split; [apply LInv_start|]. split; [apply NamesUnique_start|].
  split; [rewrite <- iso_split'; apply file_stmts_wf|].
  split; [vm_compute; reflexivity|]. split; [vm_compute; reflexivity|].
  split; [reflexivity|]. split; [vm_compute; reflexivity|].
  split; [vm_compute; reflexivity|]. split; [vm_compute; reflexivity|].
  vm_compute. discriminate.
Qed.

Example C11_manifest_child_scope_isolated_nonvacuous :
  exists depth fs name text text' pre st p vs post r r' l l',
    is_child_line st p /\
    reads_to (text ++ [0%N]) (mkScanner (text ++ [0%N]) 0 1) [] (pre ++ (st, vs) :: post) r /\
    reads_to (text' ++ [0%N]) (mkScanner (text' ++ [0%N]) 0 1) [] (pre ++ post) r' /\
    load_manifest true (S depth) fs name text = Ok l /\
    load_manifest true (S depth) fs name text' = Ok l' /\
    length pre = 2 /\ count_builds post = 2 /\ length (l_builds l) = 3 /\ length (l_builds l') = 2.
Proof.
  exists 4, iso_fs, name0, iso_main, iso_main', iso_pre, iso_st, [Lit (bs "a.ninja")], iso_vs, iso_post,
         (snd (file_stmts iso_main [])), (snd (file_stmts iso_main' [])).
  eexists. eexists.
  split; [left; reflexivity|].
  split; [rewrite <- iso_split; exact (file_stmts_reads iso_main [])|].
  split; [rewrite <- iso_split'; exact (file_stmts_reads iso_main' [])|].
  split; [vm_compute; reflexivity|]. split; [vm_compute; reflexivity|].
  split; [reflexivity|]. split; [vm_compute; reflexivity|].
  split; vm_compute; reflexivity.
Qed.

(* C11_child_scope_step: one step of the loader's statement loop at a subninja line *)
Definition step_fs : list (bytes * bytes) := [(bs "a.ninja", ln "build p$v: phony" [])].
Definition step_buf : bytes := ln "v = top" (ln "subninja a.ninja" (ln "build q: phony" [])) ++ [0%N].

Example C11_child_scope_step_nonvacuous :
  exists fixed rec fs reading buf filename n l s vs st p vs1 s1 l1 id content,
    (st = SInclude p \/ st = SSubninja p) /\
    parser_read fixed (parse_fuel buf) s vs = SOk (Some st, vs1) s1 /\
    evaluate_path l p [vars_env vs1] = Ok (l1, id) /\
    existsb (bytes_eqb (file_nm l1 id)) reading = false /\
    assoc_b (file_nm l1 id) fs = Some content /\
    (* the variables changed in front of the line, the child uses them, the loop goes on *)
    vs1 <> vs /\ id = 1 /\
    exists l2, stmts_loop fixed rec fs reading buf filename (S n) l s vs = Ok l2 /\
               map lf_name (l_files l2) = [name0; bs "a.ninja"; bs "ptop"; bs "q"].
Proof.
  exists true, (parse_file_r true 3 step_fs), step_fs, [], step_buf, name0, 10, (loader_start name0),
         (mkScanner step_buf 0 1), [], (SSubninja [Lit (bs "a.ninja")]), [Lit (bs "a.ninja")],
         [(bs "v", bs "top")].
  eexists. eexists. exists 1. eexists.
  split; [right; reflexivity|].
  split; [vm_compute; reflexivity|]. split; [vm_compute; reflexivity|].
  split; [vm_compute; reflexivity|]. split; [vm_compute; reflexivity|].
  split; [discriminate|]. split; [reflexivity|].
  eexists. split; vm_compute; reflexivity.
Qed.

(* ------------------------------------------------------------------------------------ *)
(* D. C14 *)

Example C14_unique_producer_nonvacuous :
  exists depth fs name text l,
    load_manifest true depth fs name text = Ok l /\ length (l_builds l) = 2 /\
    length (filter (fun f => match lf_input f with Some _ => true | None => false end) (l_files l)) = 3.
Proof.
  exists 5, [], name0, ex_manifest. eexists.
  split; [vm_compute; reflexivity|]. split; vm_compute; reflexivity.
Qed.

(* a loader with one step, obtained from load_manifest: files 0 = build.ninja, 1 = o (made by step 0) *)
Definition one_text : bytes := ln "rule r" (ln "  command = c" (ln "build o: r" [])).
Definition l_one : loader := get_ok (load_manifest true 5 [] name0 one_text).

Lemma l_one_load : load_manifest true 5 [] name0 one_text = Ok l_one.
Proof. vm_compute. reflexivity. Qed.
Lemma l_one_LInv : LInv l_one.
Proof. exact (load_manifest_LInv _ _ _ _ _ l_one_load). Qed.
Lemma l_one_files : map (fun f => (lf_name f, lf_input f)) (l_files l_one) = [(name0, None); (bs "o", Some 0)].
Proof. vm_compute. reflexivity. Qed.

Definition mk_b (ins outs : list nat) (eo : nat) : lbuild :=
  mkLBuild name0 9 ins 0 0 0 outs eo (Some (bs "cmd")) None None false None None false false.

Example C14_second_producer_rejected_nonvacuous :
  exists (fixed : bool) l b pre o post f prev,
    LInv l /\ lb_outs b = pre ++ o :: post /\
    (forall o', In o' pre -> exists f', nth_error (l_files l) o' = Some f' /\ lf_input f' = None) /\
    nth_error (l_files l) o = Some f /\ lf_input f = Some prev /\
    (* the loader comes from load_manifest; outputs in front of and behind the offending one *)
    load_manifest true 5 [] name0 one_text = Ok l /\ pre <> [] /\ post <> [] /\ l_builds l <> [].
Proof.
  exists true, l_one, (mk_b [] [0; 1; 0] 3), [0], 1, [0]. eexists. exists 0.
  split; [exact l_one_LInv|]. split; [reflexivity|].
  split.
  { intros o' [<-|[]]. eexists. split; vm_compute; reflexivity. }
  split; [vm_compute; reflexivity|]. split; [reflexivity|].
  split; [exact l_one_load|]. split; [discriminate|]. split; [discriminate|].
  vm_compute. discriminate.
Qed.

Example C14_any_second_producer_rejected_nonvacuous :
  exists fixed l b o f prev,
    LInv l /\ (forall o', In o' (lb_outs b) -> o' < length (l_files l)) /\
    In o (lb_outs b) /\ nth_error (l_files l) o = Some f /\ lf_input f = Some prev /\
    fixed = false /\ length (lb_outs b) = 3 /\ load_manifest true 5 [] name0 one_text = Ok l.
Proof.
  exists false, l_one, (mk_b [] [0; 1; 0] 3), 1. eexists. exists 0.
  split; [exact l_one_LInv|].
  split.
  { intros o' H. vm_compute in H. vm_compute.
    destruct H as [<-|[<-|[<-|[]]]]; repeat constructor. }
  split; [right; left; reflexivity|]. split; [vm_compute; reflexivity|].
  split; [reflexivity|]. split; [reflexivity|]. split; [reflexivity | exact l_one_load].
Qed.

Example C14_graph_add_build_LInv_nonvacuous :
  exists l b l',
    LInv l /\ (forall i, In i (lb_ins b) -> i < length (l_files l)) /\
    lb_explicit_outs b <= length (lb_outs b) /\ graph_add_build true l b = Ok l' /\
    load_manifest true 5 [] name0 one_text = Ok l /\ lb_ins b <> [] /\ length (l_builds l') = 2 /\
    map lf_input (l_files l') = [Some 1; Some 0].
Proof.
  exists l_one, (mk_b [1] [0] 1). eexists.
  split; [exact l_one_LInv|].
  split; [intros i [<-|[]]; vm_compute; repeat constructor|].
  split; [vm_compute; repeat constructor|].
  split; [vm_compute; reflexivity|]. split; [exact l_one_load|]. split; [discriminate|].
  split; vm_compute; reflexivity.
Qed.

Example C14_repeat_within_statement_nonvacuous :
  exists l b,
    LInv l /\ (forall i, In i (lb_ins b) -> i < length (l_files l)) /\
    (forall o, In o (lb_outs b) -> exists f, nth_error (l_files l) o = Some f /\ lf_input f = None) /\
    lb_explicit_outs b <= length (lb_outs b) /\
    (* an output really is repeated, across the explicit/implicit boundary *)
    load_manifest true 5 [] name0 one_text = Ok l /\ repeats (lb_outs b) = [0; 0] /\ lb_explicit_outs b = 2 /\
    exists l', graph_add_build true l b = Ok l' /\ length (l_warnings l') = 2.
Proof.
  exists l_one, (mk_b [1] [0; 0; 0] 2).
  split; [exact l_one_LInv|].
  split; [intros i [<-|[]]; vm_compute; repeat constructor|].
  split.
  { intros o H. vm_compute in H. destruct H as [<-|[<-|[<-|[]]]]; eexists; split; vm_compute; reflexivity. }
  split; [vm_compute; repeat constructor|].
  split; [exact l_one_load|]. split; [vm_compute; reflexivity|]. split; [reflexivity|].
  eexists. split; vm_compute; reflexivity.
Qed.

(* ------------------------------------------------------------------------------------ *)
(* CHECKS: every example above really is an instance of the theorem it is named after - the
   theorem of Props/ applies to the witnesses with the example's conjuncts as its premises *)
From N2 Require Props.C10Load Props.C10Incl Props.C11 Props.C14.

Lemma check_load_examples_match_theorems : True.
Proof.
  destruct C10_parse_file_is_run_stmts_nonvacuous as (depth & fs & l & filename & text & inherited & sts & vsf & H1 & H2 & _).
  pose proof (Props.C10Load.C10_parse_file_is_run_stmts depth fs l filename text inherited sts vsf H1 H2) as _.
  clear.
  destruct C10_load_manifest_reads_nonvacuous as (depth & fs & name & text & sts & r & H1 & H2 & _).
  pose proof (Props.C10Load.C10_load_manifest_reads depth fs name text sts r H1 H2) as _.
  clear.
  destruct C10_load_manifest_reads_nonvacuous_error as (depth & fs & name & text & sts & r & H1 & H2 & _).
  pose proof (Props.C10Load.C10_load_manifest_reads depth fs name text sts r H1 H2) as _.
  clear.
  destruct C10_run_stmts_spec_nonvacuous as (filename & sts & l0 & l & H1 & H2 & H3 & _).
  pose proof (Props.C10Load.C10_run_stmts_spec filename sts l0 l H1 H2 H3) as _.
  clear.
  destruct C10_run_stmts_names_unique_nonvacuous as (filename & sts & l0 & l & H1 & H2 & H3 & H4 & _).
  pose proof (Props.C10Load.C10_run_stmts_names_unique filename sts l0 l H1 H2 H3 H4) as _.
  clear.
  destruct C10_add_build_spec_nonvacuous as (l & filename & vs & pb & l' & H1 & H2 & H3 & _).
  pose proof (Props.C10Load.C10_add_build_spec l filename vs pb l' H1 H2 H3) as _.
  pose proof (Props.C14.C14_loader_add_build_LInv l filename vs pb l' H1 H2 H3) as _.
  clear.
  destruct C11_paths_scope_nonvacuous as (fixed & l & filename & fvars & pb & l' & H1 & _).
  pose proof (Props.C11.C11_paths_scope fixed l filename fvars pb l' H1) as _.
  clear.
  destruct C11_first_env_wins_nonvacuous as (e & rest & v & es & H1 & _).
  pose proof (Props.C11.C11_first_env_wins e rest v es H1) as _.
  clear.
  destruct C10_file_reads_nonvacuous as (svs & vs' & text & H1 & H2 & _).
  pose proof (Props.C10Load.C10_file_reads svs vs' text H1 H2) as _.
  clear.
  destruct C10_load_manifest_is_run_stmts_nonvacuous as (depth & fs & name & text & svs & vs' & H1 & H2 & H3 & _).
  pose proof (Props.C10Load.C10_load_manifest_is_run_stmts depth fs name text svs vs' H1 H2 H3) as _.
  clear.
  destruct C10_graph_nonvacuous as (depth & fs & name & text & svs & vs' & l & H1 & H2 & H3 & H4 & _).
  pose proof (Props.C10Load.C10_graph depth fs name text svs vs' l H1 H2 H3 H4) as _.
  clear.
  destruct C10_graph_view_nonvacuous as (depth & fs & name & text & svs & vs' & l & H1 & H2 & H3 & H4 & _).
  pose proof (Props.C10Load.C10_graph_view depth fs name text svs vs' l H1 H2 H3 H4) as _.
  clear.
  destruct C10_graph_spelling_independent_nonvacuous
    as (depth & fs & name & t1 & t2 & svs & vs' & l1 & l2 & H1 & H2 & H3 & H4 & H5 & H6 & H7 & _).
  pose proof (Props.C10Load.C10_graph_spelling_independent depth fs name t1 t2 svs vs' l1 l2 H1 H2 H3 H4 H5 H6 H7) as _.
  clear.
  destruct C10_load_is_run_stmts_files_nonvacuous as (depth & fs & name & text & sts & r & H1 & _).
  pose proof (Props.C10Incl.C10_load_is_run_stmts_files depth fs name text sts r H1) as _.
  clear.
  destruct C10_flat_file_run_nonvacuous as (fs & depth & reading & filename & text & inherited & items & H1 & _).
  pose proof (Props.C10Incl.C10_flat_file_run fs depth reading filename text inherited items H1) as _.
  clear.
  destruct C10_include_order_nonvacuous as (depth & fs & name & text & l & H1 & _).
  pose proof (Props.C10Incl.C10_include_order depth fs name text l H1) as _.
  pose proof (Props.C14.C14_unique_producer depth fs name text l H1) as _.
  clear.
  destruct C10_run_flat_spec_nonvacuous as (items & l0 & l & H1 & H2 & H3 & _).
  pose proof (Props.C10Incl.C10_run_flat_spec items l0 l H1 H2 H3) as _.
  clear.
  destruct C11_child_scope_isolated_nonvacuous
    as (depth & fs & reading & l0 & file & pre & st & p0 & vs & post & l & l' & H1 & H2 & H3 & H4 & H5 & H6 & _).
  pose proof (Props.C10Incl.C11_child_scope_isolated depth fs reading l0 file pre st p0 vs post l l' H1 H2 H3 H4 H5 H6) as _.
  clear.
  destruct C11_manifest_child_scope_isolated_nonvacuous
    as (depth & fs & name & text & text' & pre & st & p0 & vs & post & r & r' & l & l' & H1 & H2 & H3 & H4 & H5 & _).
  pose proof (Props.C10Incl.C11_manifest_child_scope_isolated depth fs name text text' pre st p0 vs post r r' l l' H1 H2 H3 H4 H5) as _.
  clear.
  destruct C11_child_scope_step_nonvacuous
    as (fixed & rec & fs & reading & buf & filename & n & l & s & vs & st & p0 & vs1 & s1 & l1 & id & content &
        H1 & H2 & H3 & H4 & H5 & _).
  pose proof (Props.C11.C11_child_scope_step fixed rec fs reading buf filename n l s vs st p0 vs1 s1 l1 id content H1 H2 H3 H4 H5) as _.
  clear.
  destruct C14_unique_producer_nonvacuous as (depth & fs & name & text & l & H1 & _).
  pose proof (Props.C14.C14_unique_producer depth fs name text l H1) as _.
  clear.
  destruct C14_second_producer_rejected_nonvacuous as (fixed & l & b & pre & o & post & f & prev & H1 & H2 & H3 & H4 & H5 & _).
  pose proof (Props.C14.C14_second_producer_rejected fixed l b pre o post f prev H1 H2 H3 H4 H5) as _.
  clear.
  destruct C14_any_second_producer_rejected_nonvacuous as (fixed & l & b & o & f & prev & H1 & H2 & H3 & H4 & H5 & _).
  pose proof (Props.C14.C14_any_second_producer_rejected fixed l b o f prev H1 H2 H3 H4 H5) as _.
  clear.
  destruct C14_graph_add_build_LInv_nonvacuous as (l & b & l' & H1 & H2 & H3 & H4 & _).
  pose proof (Props.C14.C14_graph_add_build_LInv l b l' H1 H2 H3 H4) as _.
  clear.
  destruct C14_repeat_within_statement_nonvacuous as (l & b & H1 & H2 & H3 & H4 & _).
  pose proof (Props.C14.C14_repeat_within_statement l b H1 H2 H3 H4) as _.
  exact I.
Qed.
