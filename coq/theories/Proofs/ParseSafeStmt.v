(* C12, statement level: read_vardef, read_scoped_vars, read_rule, read_pool, read_paths_to,
   read_build, read_default, skip_comment and Parser::read are safe from every good scanner
   state, given fuel >= remaining bytes + a small constant. *)
From Coq Require Import String Lia ZifyBool.
From N2 Require Import Model.All Proofs.DepfileSafe Proofs.ParseSpec Proofs.ParseSafeScan.

Section PS.
  Variable buf : bytes.
  Hypothesis Hnul : nth_error buf (pred (length buf)) = Some 0%N.

  Notation st := (st buf).
  Notation nb := (nb buf).
  Notation inb := (inb buf).
  Notation goodq := (goodq buf).

  (* consume the result of a sub-call: on Ok continue with a good state, on Err finish *)
  Ltac stepH H a s1 Hst HQ :=
    match type of H with
    | ParseSafeScan.goodq _ _ ?r =>
      destruct r as [a s1|?m ?o|?|?|]; cbn [ParseSafeScan.goodq] in H; try contradiction; cbn [sbind];
      [destruct H as (Hst & HQ) | exact H]
    end.

  Lemma read_known s c : st s -> nth_error buf (sofs s) = Some c -> c <> 0%N -> c <> 13%N ->
    exists s1, sc_read s = SOk c s1 /\ st s1 /\ sofs s1 = S (sofs s).
  Proof.
    intros Hst Ec Hc0 Hc13.
    destruct (read_inb buf Hnul s (st_inb buf s Hst)) as (c' & s1 & E & Hb1 & Ho1 & Ec' & Hinb1 & Hst1).
    assert (c' = c) by congruence. subst c'.
    exists s1. auto.
  Qed.

  Lemma peek_st s : st s -> exists c, sc_peek s = SOk c s /\ nth_error buf (sofs s) = Some c.
  Proof. intro Hst. apply peek_inb. apply st_inb. exact Hst. Qed.

  (* ---------------------------------------------------------------------------------- *)

  Lemma read_vardef_safe f s : st s -> length buf <= f + sofs s ->
    goodq (fun _ s' => sofs s < sofs s') (read_vardef true f s).
  Proof.
    intros Hst Hf. unfold read_vardef.
    pose proof (p_skip_spaces_safe buf Hnul f s Hst Hf) as H1. stepH H1 u1 s1 Hst1 Hle1.
    pose proof (expect_st buf Hnul 61%N s1 Hst1 ltac:(discriminate) ltac:(discriminate)) as H2.
    stepH H2 u2 s2 Hst2 Hle2.
    pose proof (p_skip_spaces_safe buf Hnul f s2 Hst2 ltac:(lia)) as H3. stepH H3 u3 s3 Hst3 Hle3.
    destruct (peek_st s3 Hst3) as (p & Ep & Ecp). rewrite Ep. cbn [sbind].
    destruct (N.eqb_spec p 10) as [->|Hp].
    - pose proof (expect_st buf Hnul 10%N s3 Hst3 ltac:(discriminate) ltac:(discriminate)) as H4.
      stepH H4 u4 s4 Hst4 Hle4. cbn. split; [exact Hst4 | lia].
    - pose proof (read_eval_safe buf Hnul f false s3 Hst3 ltac:(lia)) as H4.
      destruct (read_eval f false s3) as [v s4|m o| | |]; cbn [ParseSafeScan.goodq] in H4;
        try contradiction; [|exact H4].
      destruct H4 as (Hst4 & Hlt4).
      pose proof (expect_st buf Hnul 10%N s4 Hst4 ltac:(discriminate) ltac:(discriminate)) as H5.
      stepH H5 u5 s5 Hst5 Hle5. cbn. split; [exact Hst5 | lia].
  Qed.

  Lemma read_scoped_vars_safe valid f : forall s acc,
    st s -> length buf + 1 <= f + sofs s ->
    goodq (fun _ s' => sofs s <= sofs s') (read_scoped_vars true f valid s acc).
  Proof.
    induction f as [|f IH]; intros s acc Hst Hf; [destruct Hst as (_ & Ho & _); lia|].
    cbn [read_scoped_vars].
    destruct (peek_st s Hst) as (p & Ep & Ecp). rewrite Ep. cbn [sbind].
    destruct (negb (p =? 32)%N).
    - cbn. split; [exact Hst | lia].
    - pose proof (sc_skip_spaces_st buf Hnul f s Hst ltac:(lia)) as H1. stepH H1 u1 s1 Hst1 Hle1.
      pose proof (read_ident_safe buf Hnul f s1 Hst1 ltac:(lia)) as H2. stepH H2 name s2 Hst2 Hlt2.
      destruct (negb (valid name)).
      + unfold sc_parse_error. cbn. destruct Hst2 as (_ & Ho2 & _). lia.
      + pose proof (p_skip_spaces_safe buf Hnul f s2 Hst2 ltac:(lia)) as H3. stepH H3 u3 s3 Hst3 Hle3.
        pose proof (read_vardef_safe f s3 Hst3 ltac:(lia)) as H4. stepH H4 v s4 Hst4 Hlt4.
        eapply goodq_impl; [|apply IH; [exact Hst4 | lia]].
        cbn; intros; lia.
  Qed.

  Lemma read_rule_safe f s : st s -> length buf + 1 <= f + sofs s ->
    goodq (fun _ s' => sofs s < sofs s') (read_rule true f s).
  Proof.
    intros Hst Hf. unfold read_rule.
    pose proof (read_ident_safe buf Hnul f s Hst ltac:(lia)) as H1. stepH H1 name s1 Hst1 Hlt1.
    pose proof (expect_st buf Hnul 10%N s1 Hst1 ltac:(discriminate) ltac:(discriminate)) as H2.
    stepH H2 u2 s2 Hst2 Hle2.
    pose proof (read_scoped_vars_safe rule_var_ok f s2 [] Hst2 ltac:(lia)) as H3.
    stepH H3 vs s3 Hst3 Hle3. cbn. split; [exact Hst3 | lia].
  Qed.

  Lemma read_pool_safe f s : st s -> length buf + 1 <= f + sofs s ->
    goodq (fun _ s' => sofs s < sofs s') (read_pool true f s).
  Proof.
    intros Hst Hf. unfold read_pool.
    pose proof (read_ident_safe buf Hnul f s Hst ltac:(lia)) as H1. stepH H1 name s1 Hst1 Hlt1.
    pose proof (expect_st buf Hnul 10%N s1 Hst1 ltac:(discriminate) ltac:(discriminate)) as H2.
    stepH H2 u2 s2 Hst2 Hle2.
    pose proof (read_scoped_vars_safe (fun n => bytes_eqb n (bs "depth")) f s2 [] Hst2 ltac:(lia)) as H3.
    stepH H3 vs s3 Hst3 Hle3.
    destruct vs as [|[k v] vs].
    - cbn. split; [exact Hst3 | lia].
    - destruct (parse_usize (evaluate [] v)) as [d|m].
      + cbn. split; [exact Hst3 | lia].
      + unfold sc_parse_error. cbn. destruct Hst3 as (_ & Ho3 & _). lia.
  Qed.

  Lemma read_paths_to_safe f : forall s acc,
    st s -> length buf + 1 <= f + sofs s ->
    goodq (fun _ s' => sofs s <= sofs s') (read_paths_to f s acc).
  Proof.
    induction f as [|f IH]; intros s acc Hst Hf; [destruct Hst as (_ & Ho & _); lia|].
    cbn [read_paths_to].
    destruct (peek_st s Hst) as (p & Ep & Ecp). rewrite Ep. cbn [sbind].
    destruct ((p =? 58) || (p =? 124) || (p =? 10))%N.
    - cbn. split; [exact Hst | lia].
    - pose proof (read_eval_safe buf Hnul f true s Hst ltac:(lia)) as H1. stepH H1 e s1 Hst1 Hlt1.
      pose proof (p_skip_spaces_safe buf Hnul f s1 Hst1 ltac:(lia)) as H2. stepH H2 u2 s2 Hst2 Hle2.
      eapply goodq_impl; [|apply IH; [exact Hst2 | lia]].
      cbn; intros; lia.
  Qed.

  Lemma read_unevaluated_paths_to_safe f s acc :
    st s -> length buf + 1 <= f + sofs s ->
    goodq (fun _ s' => sofs s <= sofs s') (read_unevaluated_paths_to f s acc).
  Proof.
    intros Hst Hf. unfold read_unevaluated_paths_to.
    pose proof (p_skip_spaces_safe buf Hnul f s Hst ltac:(lia)) as H1. stepH H1 u1 s1 Hst1 Hle1.
    eapply goodq_impl; [|apply read_paths_to_safe; [exact Hst1 | lia]].
    cbn; intros; lia.
  Qed.

  (* the optional "| ...", "|| ...", "|@ ..." sections of a build line *)
  Lemma build_opt_outs f s p outs :
    st s -> nth_error buf (sofs s) = Some p -> length buf + 1 <= f + sofs s ->
    goodq (fun _ s' => sofs s <= sofs s')
          (if (p =? 124)%N
           then sdo (_, s) <- sc_read s; read_unevaluated_paths_to f s outs
           else SOk outs s).
  Proof.
    intros Hst Ecp Hf.
    destruct (N.eqb_spec p 124) as [->|Hp].
    - destruct (read_known s 124%N Hst Ecp ltac:(discriminate) ltac:(discriminate)) as (s1 & E & Hst1 & Ho1).
      rewrite E. cbn [sbind].
      eapply goodq_impl; [|apply read_unevaluated_paths_to_safe; [exact Hst1 | lia]].
      cbn; intros; lia.
    - cbn. split; [exact Hst | lia].
  Qed.

  Lemma build_opt_implicit f s p ins :
    st s -> nth_error buf (sofs s) = Some p -> length buf + 1 <= f + sofs s ->
    goodq (fun _ s' => sofs s <= sofs s')
          (if (p =? 124)%N then
             sdo (_, s) <- sc_read s;
             sdo (p2, s) <- sc_peek s;
             if ((p2 =? 124) || (p2 =? 64))%N then sdo (_, s) <- sc_back s; SOk ins s
             else read_unevaluated_paths_to f s ins
           else SOk ins s).
  Proof.
    intros Hst Ecp Hf.
    destruct (N.eqb_spec p 124) as [->|Hp].
    - destruct (read_known s 124%N Hst Ecp ltac:(discriminate) ltac:(discriminate)) as (s1 & E & Hst1 & Ho1).
      rewrite E. cbn [sbind].
      destruct (peek_st s1 Hst1) as (p2 & Ep2 & Ecp2). rewrite Ep2. cbn [sbind].
      destruct ((p2 =? 124) || (p2 =? 64))%N.
      + destruct (back_st buf s s1 Hst ltac:(apply Hst1) Ho1) as (sb & Eb & Hstb & Hob).
        rewrite Eb. cbn. split; [exact Hstb | lia].
      + eapply goodq_impl; [|apply read_unevaluated_paths_to_safe; [exact Hst1 | lia]].
        cbn; intros; lia.
    - cbn. split; [exact Hst | lia].
  Qed.

  Lemma build_opt_order_only f s p ins :
    st s -> nth_error buf (sofs s) = Some p -> length buf + 1 <= f + sofs s ->
    goodq (fun _ s' => sofs s <= sofs s')
          (if (p =? 124)%N then
             sdo (_, s) <- sc_read s;
             sdo (p2, s) <- sc_peek s;
             if (p2 =? 64)%N then sdo (_, s) <- sc_back s; SOk ins s
             else sdo (_, s) <- sc_expect 124%N s; read_unevaluated_paths_to f s ins
           else SOk ins s).
  Proof.
    intros Hst Ecp Hf.
    destruct (N.eqb_spec p 124) as [->|Hp].
    - destruct (read_known s 124%N Hst Ecp ltac:(discriminate) ltac:(discriminate)) as (s1 & E & Hst1 & Ho1).
      rewrite E. cbn [sbind].
      destruct (peek_st s1 Hst1) as (p2 & Ep2 & Ecp2). rewrite Ep2. cbn [sbind].
      destruct (p2 =? 64)%N.
      + destruct (back_st buf s s1 Hst ltac:(apply Hst1) Ho1) as (sb & Eb & Hstb & Hob).
        rewrite Eb. cbn. split; [exact Hstb | lia].
      + pose proof (expect_st buf Hnul 124%N s1 Hst1 ltac:(discriminate) ltac:(discriminate)) as H2.
        stepH H2 u2 s2 Hst2 Hle2.
        eapply goodq_impl; [|apply read_unevaluated_paths_to_safe; [exact Hst2 | lia]].
        cbn; intros; lia.
    - cbn. split; [exact Hst | lia].
  Qed.

  Lemma build_opt_validation f s p ins :
    st s -> nth_error buf (sofs s) = Some p -> length buf + 1 <= f + sofs s ->
    goodq (fun _ s' => sofs s <= sofs s')
          (if (p =? 124)%N then
             sdo (_, s) <- sc_read s;
             sdo (_, s) <- sc_expect 64%N s;
             read_unevaluated_paths_to f s ins
           else SOk ins s).
  Proof.
    intros Hst Ecp Hf.
    destruct (N.eqb_spec p 124) as [->|Hp].
    - destruct (read_known s 124%N Hst Ecp ltac:(discriminate) ltac:(discriminate)) as (s1 & E & Hst1 & Ho1).
      rewrite E. cbn [sbind].
      pose proof (expect_st buf Hnul 64%N s1 Hst1 ltac:(discriminate) ltac:(discriminate)) as H2.
      stepH H2 u2 s2 Hst2 Hle2.
      eapply goodq_impl; [|apply read_unevaluated_paths_to_safe; [exact Hst2 | lia]].
      cbn; intros; lia.
    - cbn. split; [exact Hst | lia].
  Qed.

  Lemma read_build_safe f s : st s -> length buf + 1 <= f + sofs s ->
    goodq (fun _ s' => sofs s < sofs s') (read_build true f s).
  Proof.
    intros Hst Hf. unfold read_build.
    pose proof (read_unevaluated_paths_to_safe f s [] Hst Hf) as H1. stepH H1 outs s1 Hst1 Hle1.
    destruct (peek_st s1 Hst1) as (p1 & Ep1 & Ecp1). rewrite Ep1. cbn [sbind].
    pose proof (build_opt_outs f s1 p1 outs Hst1 Ecp1 ltac:(lia)) as H2. stepH H2 outs2 s2 Hst2 Hle2.
    pose proof (expect_st buf Hnul 58%N s2 Hst2 ltac:(discriminate) ltac:(discriminate)) as H3.
    stepH H3 u3 s3 Hst3 Hle3.
    pose proof (p_skip_spaces_safe buf Hnul f s3 Hst3 ltac:(lia)) as H4. stepH H4 u4 s4 Hst4 Hle4.
    pose proof (read_ident_safe buf Hnul f s4 Hst4 ltac:(lia)) as H5. stepH H5 rule s5 Hst5 Hlt5.
    pose proof (read_unevaluated_paths_to_safe f s5 [] Hst5 ltac:(lia)) as H6. stepH H6 ins s6 Hst6 Hle6.
    destruct (peek_st s6 Hst6) as (p6 & Ep6 & Ecp6). rewrite Ep6. cbn [sbind].
    pose proof (build_opt_implicit f s6 p6 ins Hst6 Ecp6 ltac:(lia)) as H7. stepH H7 ins7 s7 Hst7 Hle7.
    destruct (peek_st s7 Hst7) as (p7 & Ep7 & Ecp7). rewrite Ep7. cbn [sbind].
    pose proof (build_opt_order_only f s7 p7 ins7 Hst7 Ecp7 ltac:(lia)) as H8. stepH H8 ins8 s8 Hst8 Hle8.
    destruct (peek_st s8 Hst8) as (p8 & Ep8 & Ecp8). rewrite Ep8. cbn [sbind].
    pose proof (build_opt_validation f s8 p8 ins8 Hst8 Ecp8 ltac:(lia)) as H9. stepH H9 ins9 s9 Hst9 Hle9.
    pose proof (expect_st buf Hnul 10%N s9 Hst9 ltac:(discriminate) ltac:(discriminate)) as H10.
    stepH H10 u10 s10 Hst10 Hle10.
    pose proof (read_scoped_vars_safe (fun _ => true) f s10 [] Hst10 ltac:(lia)) as H11.
    stepH H11 vs s11 Hst11 Hle11.
    cbn. split; [exact Hst11 | lia].
  Qed.

  Lemma read_default_safe f s : st s -> length buf + 1 <= f + sofs s ->
    goodq (fun _ s' => sofs s < sofs s') (read_default f s).
  Proof.
    intros Hst Hf. unfold read_default.
    pose proof (read_unevaluated_paths_to_safe f s [] Hst Hf) as H1. stepH H1 ds s1 Hst1 Hle1.
    destruct ds as [|d ds].
    - unfold sc_parse_error. cbn. destruct Hst1 as (_ & Ho1 & _). lia.
    - pose proof (expect_st buf Hnul 10%N s1 Hst1 ltac:(discriminate) ltac:(discriminate)) as H2.
      stepH H2 u2 s2 Hst2 Hle2. cbn. split; [exact Hst2 | lia].
  Qed.

  (* skip_comment reads arbitrary bytes up to and including '\n', or up to the NUL *)
  Lemma skip_comment_safe f : forall s p,
    inb s -> p <= sofs s -> (sofs s = p -> nth_error buf p <> Some 0%N) ->
    length buf <= f + sofs s ->
    goodq (fun _ s' => p < sofs s') (skip_comment f s).
  Proof.
    induction f as [|f IH]; intros s p Hin Hp Hnz Hf; [destruct Hin as (_ & Ho); lia|].
    cbn [skip_comment].
    destruct (read_inb buf Hnul s Hin) as (c & s1 & E & Hb1 & Ho1 & Ec & Hinb1 & Hst1).
    rewrite E. cbn [sbind].
    destruct (N.eqb_spec c 0) as [->|H0].
    - destruct (back_nonnl buf s1 (sofs s) 0%N Hb1 Ho1 Ec ltac:(discriminate)) as (sb & Eb & Hstb & Hob).
      rewrite Eb. cbn. split; [exact Hstb|].
      destruct (Nat.eq_dec (sofs s) p) as [Heq|Hne]; [|lia].
      exfalso. apply (Hnz Heq). rewrite <- Heq. exact Ec.
    - destruct (N.eqb_spec c 10) as [->|H10].
      + cbn. split; [apply Hst1; discriminate | lia].
      + apply (IH s1 p); [apply Hinb1; exact H0 | lia | intro; lia | lia].
  Qed.

  (* ---------------------------------------------------------------------------------- *)
  (* Parser::read *)

  Lemma parser_read_safe f : forall s vs,
    st s -> length buf + 2 <= f + sofs s ->
    goodq (fun r s' => fst r <> None -> sofs s < sofs s') (parser_read true f s vs).
  Proof.
    induction f as [|f IH]; intros s vs Hst Hf; [destruct Hst as (_ & Ho & _); lia|].
    cbn [parser_read].
    destruct (peek_st s Hst) as (c & Ep & Ec). rewrite Ep. cbn [sbind].
    destruct (N.eqb_spec c 0) as [->|H0].
    { cbn. split; [exact Hst|]. intro HH; now contradiction HH. }
    destruct (N.eqb_spec c 10) as [->|H10].
    { destruct (read_known s 10%N Hst Ec ltac:(discriminate) ltac:(discriminate)) as (s1 & E & Hst1 & Ho1).
      rewrite E. cbn [sbind].
      eapply goodq_impl; [|apply IH; [exact Hst1 | lia]].
      cbn; intros a s' _ HQ Hne. specialize (HQ Hne). lia. }
    destruct (N.eqb_spec c 35) as [->|H35].
    { pose proof (skip_comment_safe f s (sofs s) (st_inb buf s Hst) (le_n _)
                                    ltac:(intros _; rewrite Ec; discriminate) ltac:(lia)) as H1.
      stepH H1 u1 s1 Hst1 Hlt1.
      eapply goodq_impl; [|apply IH; [exact Hst1 | lia]].
      cbn; intros a s' _ HQ Hne. specialize (HQ Hne). lia. }
    destruct ((c =? 32) || (c =? 9))%N.
    { unfold sc_parse_error. cbn. destruct Hst as (_ & Ho & _). lia. }
    pose proof (read_ident_safe buf Hnul f s Hst ltac:(lia)) as H1. stepH H1 ident s1 Hst1 Hlt1.
    pose proof (p_skip_spaces_safe buf Hnul f s1 Hst1 ltac:(lia)) as H2. stepH H2 u2 s2 Hst2 Hle2.
    destruct (bytes_eqb ident (bs "rule")).
    { pose proof (read_rule_safe f s2 Hst2 ltac:(lia)) as H3. stepH H3 st3 s3 Hst3 Hlt3.
      cbn. split; [exact Hst3 | intros _; lia]. }
    destruct (bytes_eqb ident (bs "build")).
    { pose proof (read_build_safe f s2 Hst2 ltac:(lia)) as H3. stepH H3 st3 s3 Hst3 Hlt3.
      cbn. split; [exact Hst3 | intros _; lia]. }
    destruct (bytes_eqb ident (bs "default")).
    { pose proof (read_default_safe f s2 Hst2 ltac:(lia)) as H3. stepH H3 st3 s3 Hst3 Hlt3.
      cbn. split; [exact Hst3 | intros _; lia]. }
    destruct (bytes_eqb ident (bs "include")).
    { pose proof (read_eval_safe buf Hnul f false s2 Hst2 ltac:(lia)) as H3. stepH H3 e3 s3 Hst3 Hlt3.
      cbn. split; [exact Hst3 | intros _; lia]. }
    destruct (bytes_eqb ident (bs "subninja")).
    { pose proof (read_eval_safe buf Hnul f false s2 Hst2 ltac:(lia)) as H3. stepH H3 e3 s3 Hst3 Hlt3.
      cbn. split; [exact Hst3 | intros _; lia]. }
    destruct (bytes_eqb ident (bs "pool")).
    { pose proof (read_pool_safe f s2 Hst2 ltac:(lia)) as H3. stepH H3 st3 s3 Hst3 Hlt3.
      cbn. split; [exact Hst3 | intros _; lia]. }
    pose proof (read_vardef_safe f s2 Hst2 ltac:(lia)) as H3. stepH H3 v s3 Hst3 Hlt3.
    eapply goodq_impl; [|apply IH; [exact Hst3 | lia]].
    cbn; intros a s' _ HQ Hne. specialize (HQ Hne). lia.
  Qed.
End PS.

(* ------------------------------------------------------------------------------------ *)
(* T1 in closed form: buffers [text ++ [0]] *)

Lemma good_scanner_st text s : good_scanner text s <-> st (text ++ [0%N]) s.
Proof.
  unfold good_scanner, st, nb. rewrite app_length. cbn [length].
  split; intros (H1 & H2 & H3); (split; [exact H1|]; split; [lia | exact H3]).
Qed.

Lemma good_scanner_initial text line : good_scanner text (mkScanner (text ++ [0%N]) 0 line).
Proof.
  split; [reflexivity|]. cbn [sofs]. split; [lia|]. intros o1 E. discriminate E.
Qed.

Lemma parser_read_safe_fuel text f s vs :
  good_scanner text s -> length (text ++ [0%N]) + 2 <= f + sofs s ->
  parser_read_ok text s (parser_read true f s vs).
Proof.
  intros Hg Hf. apply good_scanner_st in Hg.
  pose proof (parser_read_safe (text ++ [0%N]) (nul_terminated text) f s vs Hg Hf) as H.
  unfold parser_read_ok.
  destruct (parser_read true f s vs) as [[[stm|] vs'] s'|m o| | |]; cbn in H; try contradiction.
  - destruct H as (Hst' & HQ). split; [apply good_scanner_st; exact Hst'|]. apply HQ. discriminate.
  - destruct H as (Hst' & _). apply good_scanner_st; exact Hst'.
  - exact H.
Qed.

Lemma parser_read_safe_gen text s vs :
  good_scanner text s ->
  parser_read_ok text s (parser_read true (parse_fuel (text ++ [0%N])) s vs).
Proof.
  intro Hg. apply parser_read_safe_fuel; [exact Hg|]. unfold parse_fuel. lia.
Qed.

Lemma parser_read_safe_initial text vs :
  parser_read_ok text (mkScanner (text ++ [0%N]) 0 1)
                 (parser_read true (parse_fuel (text ++ [0%N])) (mkScanner (text ++ [0%N]) 0 1) vs).
Proof. apply parser_read_safe_gen. apply good_scanner_initial. Qed.

(* the same at the initial state, with the predicates spelled out *)
Lemma parser_read_safe_initial_explicit : forall text vs,
  match parser_read true (parse_fuel (text ++ [0%N])) (mkScanner (text ++ [0%N]) 0 1) vs with
  | SOk (Some _, _) s' => sbuf s' = text ++ [0%N] /\ 0 < sofs s' <= length text
  | SOk (None, _) _ => True
  | SErr _ o => o <= length (text ++ [0%N])
  | SPanic _ => False
  | SOob _ => False
  | SFuel => False
  end.
Proof.
  intros text vs. pose proof (parser_read_safe_initial text vs) as H. unfold parser_read_ok in H.
  destruct (parser_read true _ _ vs) as [[[stm|] vs'] s'|m o| | |]; try contradiction; [| exact I | exact H].
  destruct H as ((Hb & Ho & _) & Hlt). cbn [sofs] in Hlt. auto.
Qed.
