(* Histories: one invocation preserves the history invariant and leaves every wanted step fresh;
   edits preserve the invariant; induction over the history. *)
From Coq Require Import Lia ZArith List Bool Arith.
From N2 Require Import Model.All Proofs.SchedSpec Proofs.SchedInv Proofs.SchedRunBase
     Proofs.SchedRunStep Proofs.SchedRunCore Proofs.SchedRunAux Proofs.SchedRunRInv Proofs.SchedRunThms
     Proofs.SchedWantInv Proofs.SchedRunFinal Proofs.SchedLive.
From N2 Require Import Proofs.DbSpec Proofs.WorldSpec Proofs.WorldBase Proofs.WorldDeps Proofs.WorldDirty
     Proofs.WorldHash Proofs.WorldLog Proofs.JointSpec Proofs.JointBase Proofs.JointSched Proofs.JointInv
     Proofs.JointThms Proofs.JointLog Proofs.JointMain Proofs.HistSpec Proofs.HistBase Proofs.HistInv.
Import ListNotations.

(* what a Work loaded from the persistent log sees *)
Lemma load_facts wg fs log ws w0 :
  hlog_is log ws -> Forall in_bounds ws -> table_small ws -> load_state wg fs log = Ok w0 ->
  ws_fs w0 = fs /\ ws_cache w0 = [] /\ log_is w0 ws /\
  forall b, assoc_nat b (ws_disc w0) = option_map fst (last_applicable (producer_of wg) ws b None) /\
            assoc_nat b (ws_hashes w0) = option_map snd (last_applicable (producer_of wg) ws b None).
Proof.
  intros [(-> & ->)|(wp & Hlog & <-)] Hb Hs El.
  - pose proof (log_is_fresh wg fs w0 El) as Hl. cbn in El. injection El as <-.
    cbn [ws_fs ws_cache ws_disc ws_hashes last_applicable assoc_nat option_map]. auto.
  - destruct (load_log_is wg fs wp ws Hlog Hb Hs) as (wL & El' & Hfs & Hca & _ & _ & HlL & Hld).
    rewrite El in El'. injection El' as <-. auto.
Qed.

Section Invoke.
Variable content : Type.
Variable stamp : bytes -> mtime -> content.
Variable cmd : bytes -> option (bytes * bytes) -> (bytes -> option content) -> (bytes -> content) * list bytes.
Variable GR : nat -> manifest -> Prop.
Variable cf : config.
Variable decls : list (bytes * nat).
Variable wg : wgraph.
Notation g := (cf_graph cf).
Notation nb := (length (g_builds (cf_graph cf))).
Notation bd_ b := (get_wbuild wg b).
Notation fresh_at := (fresh_at content stamp cmd).
Notation trace_ok := (trace_ok content stamp cmd GR wg).
Notation recs_ok := (recs_ok content stamp cmd GR (cf_graph cf) wg).
Notation P := (producer_of wg).

Hypothesis Hst : static_ok content cmd (cf_graph cf) wg.
Hypothesis Had : cf_adopt cf = false.

(* ---- the record invariant of a fixed graph provides what Proofs/HistInv.v needs ---- *)

Section Fixed.
Variable w0 : wstate.
Variable ws0 : list wr.
Hypothesis Hload : forall b,
  assoc_nat b (ws_disc w0) = option_map fst (last_applicable P ws0 b None) /\
  assoc_nat b (ws_hashes w0) = option_map snd (last_applicable P ws0 b None).
Hypothesis Hrecs0 : recs_ok ws0.

Lemma loaded_record b prev :
  assoc_nat b (ws_hashes w0) = Some prev ->
  last_applicable P ws0 b None = Some (disc_of w0 b, prev).
Proof.
  intro Hp. destruct (Hload b) as (Ld & Lh). rewrite Hp in Lh. unfold disc_of. rewrite Ld.
  destruct (last_applicable P ws0 b None) as [[d0 h0]|]; [|discriminate].
  cbn [option_map fst snd] in *. now injection Lh as ->.
Qed.

Lemma fixed_srcs b : b < nb -> srcs wg (disc_of w0 b).
Proof.
  intro L. destruct (Hload b) as (Ld & _). unfold disc_of. rewrite Ld.
  destruct (last_applicable P ws0 b None) as [[d0 h0]|] eqn:E; cbn [option_map fst].
  - exact (proj1 (Hrecs0 b L d0 h0 E)).
  - intros d [].
Qed.

Lemma fixed_src0 b d : b < nb -> In d (disc_of w0 b) -> P d = None.
Proof. intros L Hd. exact (proj1 (fixed_srcs b L d Hd)). Qed.

Lemma fixed_clean0 : forall b prev fs m, b < nb -> wb_cmdline (bd_ b) <> None ->
  assoc_nat b (ws_hashes w0) = Some prev -> fs_wf fs ->
  fs_manifest fs (bd_ b) (disc_of w0 b) = Some m -> hash_build m = prev ->
  nc_fixed GR wg (disc_of w0) b fs ->
  fresh_at fs (bd_ b) (disc_of w0 b).
Proof.
  intros b prev fs m Lb Hcne Hprev Wf Efs Hhm Hnc.
  pose proof (loaded_record b prev Hprev) as El0.
  destruct (Hrecs0 b Lb _ _ El0) as (Hs0 & Hp). destruct (Hp Hcne) as (fs0 & m0 & Wf0 & Em0 & Hh0 & Hgr & Hfr).
  assert (Hnames : forall n, In n (files_of (bd_ b) (disc_of w0 b)) -> wf_name n = true).
  { intros n Hn. unfold files_of in Hn. apply in_app_or in Hn. destruct Hn as [Hn|Hn].
    - apply (so_names _ _ _ _ Hst b n Lb). apply in_or_app. now left.
    - apply in_app_or in Hn. destruct Hn as [Hn|Hn].
      + exact (proj2 (Hs0 n Hn)).
      + apply (so_names _ _ _ _ Hst b n Lb). apply in_or_app. now right. }
  assert (Wm : wf_manifest m = true).
  { apply (fs_manifest_wf fs (bd_ b) (disc_of w0 b) m); auto. exact (so_cmd255 _ _ _ _ Hst b Lb). }
  assert (Wm0 : wf_manifest m0 = true).
  { apply (fs_manifest_wf fs0 (bd_ b) (disc_of w0 b) m0); auto. exact (so_cmd255 _ _ _ _ Hst b Lb). }
  assert (Em : m = m0).
  { apply (same_hash_same_manifest fs fs0 (bd_ b) (disc_of w0 b) m m0 Efs Em0 Wm Wm0 (Hnc m m0 Efs Hgr)).
    congruence. }
  subst m0.
  apply (fresh_at_agree content stamp cmd (bd_ b) (disc_of w0 b) fs0 fs).
  - exact (so_hermetic _ _ _ _ Hst b Lb Hcne).
  - exact Hfr.
  - exact (fs_manifest_agree _ _ _ _ _ Efs Em0).
Qed.

End Fixed.

Lemma fixed_rec_step : forall ws b deps h fs m, recs_ok ws -> b < nb -> wb_cmdline (bd_ b) <> None ->
  fs_wf fs -> fs_manifest fs (bd_ b) deps = Some m -> hash_build m = h -> GR b m ->
  fresh_at fs (bd_ b) deps -> srcs wg deps -> recs_ok (ws ++ [wr_of (bd_ b) deps h]).
Proof.
  intros ws b deps h fs m Rc Lb Hcne Wf Hfm Hhm Hgr Hfr Hsrc x Lx deps' h' Hl.
  pose proof (so_agree _ _ _ _ Hst) as Hag.
  assert (Hown : forall o, In o (wb_outs (bd_ b)) -> P o = Some b)
    by (intros o Ho; exact (outs_producer g wg Hag b o Lb Ho)).
  rewrite last_applicable_snoc in Hl.
  destruct (Nat.eq_dec x b) as [->|Hne].
  - rewrite (applicable_own wg (bd_ b) _ h b (so_outs _ _ _ _ Hst b Lb) Hown) in Hl.
    cbn [wr_of w_deps w_hash] in Hl. injection Hl as <- <-. split; [exact Hsrc|]. intros _.
    exists fs, m. auto.
  - rewrite (applicable_other P (bd_ b) _ h b x (so_outs _ _ _ _ Hst b Lb) Hown Hne) in Hl.
    exact (Rc x Lx deps' h' Hl).
Qed.

Lemma invoke_core fs log ws w0 s fl tr r w1 :
  fs_wf fs -> hlog_is log ws -> Forall in_bounds ws -> table_small ws -> recs_ok ws ->
  load_state wg fs log = Ok w0 -> wanted g (bs_new nb decls) s ->
  jaccepted cf wg (run_init s fl) w0 tr r w1 -> writes_ok wg [] tr ->
  trace_ok (disc_of w0) fs None tr ->
  fs_wf (ws_fs w1) /\ (log_is w1 (trace_ws wg None ws tr) /\ recs_ok (trace_ws wg None ws tr)) /\
  (rs_ctl r = CReturned (Some true) ->
   forall b, get_state s b <> Unknown -> wb_cmdline (bd_ b) <> None ->
     b < nb /\ fresh_at (ws_fs w1) (bd_ b) (disc_of w1 b) /\
     forall d, In d (disc_of w1 b) -> producer_of wg d = None).
Proof.
  intros Wf Hlog Hb Hs Hrc El W Ha Ho Ht.
  destruct (load_facts wg fs log ws w0 Hlog Hb Hs El) as (Hfs & Hca & Hlog0 & Hload).
  pose proof (so_wf _ _ _ _ Hst) as Hwf.
  destruct (fresh_start_wanted cf decls Hwf s fl w0 W Hca) as (R & Hc & Hd & _).
  pose proof Ha as (Hacc & _).
  apply jaccepted_jrun in Ha; [|exact Ho].
  pose proof (JInv_init cf decls wg _ w0 R Hc Hd Hca) as J.
  assert (L : LInv cf wg w0 ws (fun b => b < nb) (jinit (run_init s fl) w0) ws).
  { apply LInv_init; auto. intros b Hb'. exact (BCore_range g decls _ b (ri_core _ _ _ R) Hb'). }
  assert (F : FInv content stamp cmd cf wg recs_ok (jinit (run_init s fl) w0) ws None).
  { constructor; cbn [jinit j_r j_w j_aw j_pend].
    - now rewrite Hfs.
    - discriminate.
    - intros b _ _ [E|[E|E]]; [destruct (Hd b E)|rewrite Hc in E; discriminate ..].
    - exact Hlog0.
    - exact Hrc. }
  assert (Ht' : trace_ok (disc_of w0) (ws_fs (j_w (jinit (run_init s fl) w0))) None tr)
    by (cbn [jinit j_w]; now rewrite Hfs).
  destruct (inv_run content stamp cmd GR cf decls wg Hst Had w0 ws Hload recs_ok (nc_fixed GR wg (disc_of w0))
              (fun b => b < nb)
              (fixed_src0 w0 ws Hload Hrc) (fixed_clean0 w0 ws Hload Hrc) fixed_rec_step
              tr _ ws ws None r w1 J L F Ht' Ha)
    as (a' & wsL' & lf' & Er & Ew & J' & L' & F').
  subst r w1. split; [exact (fi_wf _ _ _ _ _ _ _ _ _ F')|]. split.
  - split; [exact (fi_log _ _ _ _ _ _ _ _ _ F')|exact (fi_recs _ _ _ _ _ _ _ _ _ F')].
  - intros Hret b Hw Hcmd.
    pose proof (ji_r _ _ _ _ J') as R1. pose proof (ri_ctl _ _ _ R1) as K. rewrite Hret in K.
    cbn [ctl_ok] in K. destruct K as (_ & _ & AD).
    assert (Hw' : get_state (rs_bs (j_r a')) b <> Unknown)
      by (apply (proj2 (accepts_known cf decls b _ _ _ R Hacc)); exact Hw).
    assert (Lb : b < nb) by exact (BCore_range g decls _ b (ri_core _ _ _ R1) Hw').
    split; [exact Lb|].
    assert (Sb : settled (j_r a') b) by (left; destruct (AD b) as [E|E]; [contradiction|exact E]).
    split; [exact (fi_settled _ _ _ _ _ _ _ _ _ F' b Lb Hcmd Sb)|].
    exact (proj1 (li_settled _ _ _ _ _ _ _ L' b Lb Hcmd Sb)).
Qed.

(* the wanted set is closed under the producers of declared dirtying inputs *)
Lemma wanted_closed s b n p :
  wanted g (bs_new nb decls) s -> get_state s b <> Unknown ->
  In n (wb_dirtying (bd_ b)) -> producer_of wg n = Some p -> get_state s p <> Unknown.
Proof.
  intros W Hb Hn Hp. pose proof (so_wf _ _ _ _ Hst) as Hwf. pose proof (so_agree _ _ _ _ Hst) as Hag.
  assert (R : RInv cf decls (run_init s None))
    by (apply (reachable_RInv_closed cf decls Hwf); now constructor).
  pose proof (ri_core _ _ _ R) as C. cbn [run_init rs_bs] in C.
  assert (Lb : b < nb) by exact (BCore_range g decls s b C Hb).
  destruct (dirtying_producer g wg Hwf Hag b n p Lb Hn Hp) as ((f & Hf & Hfi) & _).
  apply (bc_closed _ _ _ C b p Hb). exists f. split; [now apply ordering_in_ins|exact Hfi].
Qed.

End Invoke.

(* ------------------------------------------------------------------------------------ *)

Section HistMain.
Variable content : Type.
Variable stamp : bytes -> mtime -> content.
Variable cmd : bytes -> option (bytes * bytes) -> (bytes -> option content) -> (bytes -> content) * list bytes.
Variable GR : nat -> manifest -> Prop.
Variable g : graph.
Variable wg : wgraph.
Notation nb := (length (g_builds g)).
Notation bd_ b := (get_wbuild wg b).
Notation fresh := (fresh content stamp cmd).
Notation fresh_at := (fresh_at content stamp cmd).
Notation HInv := (HInv content stamp cmd GR g wg).
Notation hstep := (hstep content stamp cmd GR g wg).
Notation hsteps := (hsteps content stamp cmd GR g wg).

Hypothesis Hst : static_ok content cmd g wg.

(* stage 4a: the empty log *)
Lemma HInv_init fs : fs_wf fs -> HInv (mkH fs [] []).
Proof.
  intro Wf. split; [exact Wf|]. split; [left; auto|]. split; [split; [constructor|]|].
  - unfold table_small. cbn. lia.
  - intros b _ deps h E. discriminate.
Qed.

(* stages 1-3 for one item *)
Lemma hstep_inv st it st' : HInv st -> hstep st it st' -> HInv st'.
Proof.
  intros (Wf & Hlog & (Hb & Hs) & Hrc) H. set (ws := h_ws st) in *.
  inversion H as [st0 n t Hmt|st0 inv w0 r w1 Hg Had El W Ha Ho Ht Hlim]; subst st0 it st'.
  - split; [cbn [h_fs]; now apply fs_wf_set|]. cbn [h_log h_ws].
    split; [exact Hlog|]. split; [split; [exact Hb|exact Hs]|exact Hrc].
  - assert (Hst' : static_ok content cmd (cf_graph (i_cf inv)) wg) by (rewrite Hg; exact Hst).
    assert (Hrc' : recs_ok content stamp cmd GR (cf_graph (i_cf inv)) wg ws) by (rewrite Hg; exact Hrc).
    rewrite <- Hg in W.
    destruct (invoke_core content stamp cmd GR (i_cf inv) (i_decls inv) wg Hst' Had _ _ ws w0 _ _ _ r w1
                Wf Hlog Hb Hs Hrc' El W Ha Ho Ht) as (Wf1 & (Hlog1 & Hrc1) & _).
    split; [exact Wf1|]. cbn [h_log h_ws]. split; [right; exists w1; auto|].
    split; [exact Hlim|]. rewrite <- Hg. exact Hrc1.
Qed.

(* stage 4: induction over the history *)
Theorem history_invariant st H st' : HInv st -> hsteps st H st' -> HInv st'.
Proof. intros Hi Hs. induction Hs as [st|st it st1 H st2 H1 _ IH]; [exact Hi|]. apply IH. exact (hstep_inv _ _ _ Hi H1). Qed.

Lemma hsteps_snoc_inv st H it st2 :
  hsteps st (H ++ [it]) st2 -> exists st1, hsteps st H st1 /\ hstep st1 it st2.
Proof.
  revert st. induction H as [|x H IH]; intros st Hs; cbn [app] in Hs.
  - inversion Hs as [|? ? st1 ? ? H1 H2]; subst. inversion H2; subst. exists st. split; [constructor|exact H1].
  - inversion Hs as [|? ? st1 ? ? H1 H2]; subst. destruct (IH st1 H2) as (st1' & Ha & Hb).
    exists st1'. split; [econstructor; eassumption|exact Hb].
Qed.

(* after an invocation that returns success every wanted step with a command is fresh *)
Lemma invoke_all_fresh st inv st2 pre :
  HInv st -> hstep st (HInvoke inv) st2 -> i_tr inv = pre ++ [JReturn (Some true)] ->
  forall b, get_state (i_s inv) b <> Unknown -> wb_cmdline (bd_ b) <> None ->
    b < nb /\
    (exists deps, fresh_at (h_fs st2) (bd_ b) deps /\ forall d, In d deps -> producer_of wg d = None) /\
    (forall n p, In n (wb_dirtying (bd_ b)) -> producer_of wg n = Some p -> get_state (i_s inv) p <> Unknown).
Proof.
  intros (Wf & Hlog & (Hb & Hs) & Hrc) H Htr b Hw Hcmd. set (ws := h_ws st) in *.
  inversion H as [|st0 inv0 w0 r w1 Hg Had El W Ha Ho Ht Hlim]; subst st0 inv0 st2.
  assert (Hst' : static_ok content cmd (cf_graph (i_cf inv)) wg) by (rewrite Hg; exact Hst).
  assert (Hrc' : recs_ok content stamp cmd GR (cf_graph (i_cf inv)) wg ws) by (rewrite Hg; exact Hrc).
  rewrite <- Hg in W |- *.
  pose proof Ha as Ha'. rewrite Htr in Ha'. apply jaccepted_ends_return in Ha'.
  destruct (invoke_core content stamp cmd GR (i_cf inv) (i_decls inv) wg Hst' Had _ _ ws w0 _ _ _ r w1
              Wf Hlog Hb Hs Hrc' El W Ha Ho Ht) as (_ & _ & Hfr).
  destruct (Hfr Ha' b Hw Hcmd) as (Lb & Hf & Hsrc). split; [exact Lb|]. split.
  - exists (disc_of w1 b). split; [exact Hf|exact Hsrc].
  - intros n p Hn Hp. exact (wanted_closed content cmd (i_cf inv) (i_decls inv) wg Hst' _ b n p W Hw Hn Hp).
Qed.

End HistMain.
