(* Basic facts about the stat cache, stat, stat_all, ensure_inputs (Model/World.v). *)
From Coq Require Import String.
From N2 Require Import Model.All Proofs.DbSpec Proofs.WorldSpec.
From Coq Require Import Lia.

Lemma bytes_eqb_refl n : bytes_eqb n n = true.
Proof. now apply bytes_eqb_spec. Qed.

Lemma bytes_eqb_neq a b : a <> b -> bytes_eqb a b = false.
Proof. intros H. destruct (bytes_eqb a b) eqn:E; [|reflexivity]. apply bytes_eqb_spec in E. contradiction. Qed.

Lemma bytes_eq_dec (a b : bytes) : {a = b} + {a <> b}.
Proof. apply list_eq_dec, N.eq_dec. Qed.

Lemma cache_get_nil n : cache_get [] n = None.
Proof. reflexivity. Qed.

Lemma cache_get_cons k x r n :
  cache_get ((k, x) :: r) n = if bytes_eqb k n then Some x else cache_get r n.
Proof. reflexivity. Qed.

Lemma cache_get_set_same : forall c n v, cache_get (cache_set c n v) n = Some v.
Proof.
  induction c as [|[k x] c IH]; intros n v; cbn [cache_set].
  - now rewrite cache_get_cons, bytes_eqb_refl.
  - destruct (bytes_eqb k n) eqn:E; rewrite cache_get_cons, E; [reflexivity | apply IH].
Qed.

Lemma cache_get_set_other : forall c n v n', n' <> n -> cache_get (cache_set c n v) n' = cache_get c n'.
Proof.
  induction c as [|[k x] c IH]; intros n v n' Hne; cbn [cache_set].
  - rewrite cache_get_cons, bytes_eqb_neq by congruence. reflexivity.
  - destruct (bytes_eqb k n) eqn:E.
    + apply bytes_eqb_spec in E. subst k. rewrite !cache_get_cons, bytes_eqb_neq by congruence. reflexivity.
    + rewrite !cache_get_cons. destruct (bytes_eqb k n'); [reflexivity | now apply IH].
Qed.

(* ------------------------------------------------------------------------------------ *)
(* cache_ext *)

Lemma cache_ext_refl w : cache_ext w w.
Proof. unfold cache_ext. repeat split. intros n. now left. Qed.

Lemma cache_ext_trans w1 w2 w3 : cache_ext w1 w2 -> cache_ext w2 w3 -> cache_ext w1 w3.
Proof.
  intros (F1 & D1 & H1 & T1 & L1 & C1) (F2 & D2 & H2 & T2 & L2 & C2).
  unfold cache_ext. repeat split; try congruence.
  intros n. destruct (C2 n) as [E|E].
  - rewrite E. apply C1.
  - right. now rewrite E, F1.
Qed.

Lemma stat_ext w n : cache_ext w (fst (stat w n)).
Proof.
  unfold stat, cache_ext. cbn [fst snd ws_cache ws_fs ws_disc ws_hashes ws_tbl ws_log]. repeat split. intros n'.
  destruct (bytes_eq_dec n' n) as [->|Hne].
  - right. apply cache_get_set_same.
  - left. now apply cache_get_set_other.
Qed.

Lemma stat_val w n : snd (stat w n) = fs_get (ws_fs w) n.
Proof. reflexivity. Qed.

Lemma stat_cached w n : cache_get (ws_cache (fst (stat w n))) n = Some (fs_get (ws_fs w) n).
Proof. unfold stat. cbn [fst snd ws_cache ws_fs ws_disc ws_hashes ws_tbl ws_log]. apply cache_get_set_same. Qed.

Lemma stat_grow w n : cache_get (ws_cache w) n = None ->
  forall k v, cache_get (ws_cache w) k = Some v -> cache_get (ws_cache (fst (stat w n))) k = Some v.
Proof.
  intros Hn k v Hk. unfold stat. cbn [fst snd ws_cache ws_fs ws_disc ws_hashes ws_tbl ws_log]. rewrite cache_get_set_other; [assumption|]. congruence.
Qed.

Lemma cache_ext_disc_of w w' b : cache_ext w w' -> disc_of w' b = disc_of w b.
Proof. intros (_ & D & _). unfold disc_of. now rewrite D. Qed.

Lemma cache_ext_consistent w w' : cache_ext w w' -> cache_consistent w -> cache_consistent w'.
Proof.
  intros (F & _ & _ & _ & _ & C) Hc n v Hv. rewrite F. destruct (C n) as [E|E]; rewrite E in Hv.
  - now apply Hc.
  - now injection Hv as <-.
Qed.

Lemma cache_ext_cached w w' n : cache_ext w w' -> cache_get (ws_cache w) n <> None ->
  cache_get (ws_cache w') n <> None.
Proof. intros (_ & _ & _ & _ & _ & C) Hn. destruct (C n) as [E|E]; rewrite E; [assumption|discriminate]. Qed.

Lemma cache_ext_stated g w w' names : cache_ext w w' -> stated_generated g w names -> stated_generated g w' names.
Proof. intros He Hs n Hin Hp. eapply cache_ext_cached; [eassumption|]. now apply Hs. Qed.

Lemma cache_ext_present w w' names : cache_ext w w' -> present w names -> present w' names.
Proof. intros (F & _) Hp n Hin. rewrite F. now apply Hp. Qed.

(* if the final cache says Missing, the old cache said so or the tree says so *)
Lemma cache_ext_missing w w' n : cache_ext w w' -> cache_get (ws_cache w') n = Some None ->
  cache_get (ws_cache w) n = Some None \/ fs_get (ws_fs w) n = None.
Proof.
  intros (_ & _ & _ & _ & _ & C) Hn. destruct (C n) as [E|E]; rewrite E in Hn.
  - now left.
  - right. now injection Hn.
Qed.

(* ------------------------------------------------------------------------------------ *)
(* stat_all *)

Definition fs_missing (fs : fsmap) (n : bytes) : bool :=
  match fs_get fs n with None => true | Some _ => false end.

Lemma stat_all_spec : forall names w m w' m', stat_all w names m = (w', m') ->
  cache_ext w w' /\ m' = m || existsb (fs_missing (ws_fs w)) names /\
  forall n, In n names -> cache_get (ws_cache w') n = Some (fs_get (ws_fs w) n).
Proof.
  induction names as [|n names IH]; intros w m w' m' E; cbn [stat_all] in E.
  - injection E as <- <-. split; [apply cache_ext_refl|]. split; [now rewrite orb_false_r|]. intros n [].
  - destruct (stat w n) as [w1 v] eqn:Es.
    assert (Hw1 : w1 = fst (stat w n)) by now rewrite Es.
    assert (Hv : v = fs_get (ws_fs w) n) by (change v with (snd (w1, v)); now rewrite <- Es).
    apply IH in E as (Hext & Hm & Hc).
    assert (He1 : cache_ext w w1) by (rewrite Hw1; apply stat_ext).
    assert (F1 : ws_fs w1 = ws_fs w) by apply He1.
    split; [eapply cache_ext_trans; eassumption|]. split.
    + rewrite Hm, F1. cbn [existsb]. unfold fs_missing at 2. rewrite <- Hv. now rewrite orb_assoc.
    + intros k [<-|Hk].
      * destruct Hext as (_ & _ & _ & _ & _ & C). destruct (C n) as [Ek|Ek]; rewrite Ek.
        -- rewrite Hw1. apply stat_cached.
        -- now rewrite F1.
      * rewrite <- F1. now apply Hc.
Qed.

Lemma existsb_fs_missing_false fs names :
  existsb (fs_missing fs) names = false <-> forall n, In n names -> fs_get fs n <> None.
Proof.
  split.
  - intros H n Hin Hn. assert (existsb (fs_missing fs) names = true); [|congruence].
    apply existsb_exists. exists n. split; [assumption|]. unfold fs_missing. now rewrite Hn.
  - intros H. destruct (existsb (fs_missing fs) names) eqn:E; [|reflexivity].
    apply existsb_exists in E as (n & Hin & Hm). unfold fs_missing in Hm.
    specialize (H n Hin). destruct (fs_get fs n); [discriminate|congruence].
Qed.

Lemma existsb_fs_missing_true fs names :
  existsb (fs_missing fs) names = true -> exists n, In n names /\ fs_get fs n = None.
Proof.
  intros E. apply existsb_exists in E as (n & Hin & Hm). exists n. split; [assumption|].
  unfold fs_missing in Hm. now destruct (fs_get fs n).
Qed.

(* ------------------------------------------------------------------------------------ *)
(* ensure_inputs *)

Definition cache_grow (w w' : wstate) : Prop :=
  forall k v, cache_get (ws_cache w) k = Some v -> cache_get (ws_cache w') k = Some v.

Lemma ensure_inputs_spec g : forall names w w' r, ensure_inputs g w names = (w', r) ->
  cache_ext w w' /\ cache_grow w w' /\
  match r with
  | inl None => forall n, In n names -> exists t, cache_get (ws_cache w') n = Some (Some t)
  | inl (Some n) => In n names /\ cache_get (ws_cache w') n = Some None
  | inr n => In n names /\ cache_get (ws_cache w') n = None /\ producer_of g n <> None
  end.
Proof.
  induction names as [|n names IH]; intros w w' r E; cbn [ensure_inputs] in E.
  - injection E as <- <-. split; [apply cache_ext_refl|]. split; [now intros k v|]. intros n [].
  - destruct (cache_get (ws_cache w) n) as [[t|]|] eqn:Ec.
    + apply IH in E as (Hext & Hg & Hr). split; [assumption|]. split; [assumption|].
      destruct r as [[m|]|m].
      * destruct Hr. split; [now right|assumption].
      * intros k [<-|Hk]; [exists t; now apply Hg | now apply Hr].
      * destruct Hr as (? & ? & ?). split; [now right|]. now split.
    + injection E as <- <-. split; [apply cache_ext_refl|]. split; [now intros k v|]. split; [now left|assumption].
    + destruct (producer_of g n) as [p|] eqn:Ep.
      * injection E as <- <-. split; [apply cache_ext_refl|]. split; [now intros k v|].
        split; [now left|]. split; [assumption|]. rewrite Ep. discriminate.
      * destruct (stat w n) as [w1 v] eqn:Es.
        assert (Hw1 : w1 = fst (stat w n)) by now rewrite Es.
        assert (Hv : v = fs_get (ws_fs w) n) by (change v with (snd (w1, v)); now rewrite <- Es).
        assert (He1 : cache_ext w w1) by (rewrite Hw1; apply stat_ext).
        assert (Hg1 : cache_grow w w1) by (rewrite Hw1; intros k x Hk; now apply stat_grow).
        assert (Hc1 : cache_get (ws_cache w1) n = Some v) by (rewrite Hw1, Hv; apply stat_cached).
        destruct v as [t|].
        -- apply IH in E as (Hext & Hg & Hr).
           split; [eapply cache_ext_trans; eassumption|].
           split; [intros k x Hk; apply Hg; now apply Hg1|].
           destruct r as [[m|]|m].
           ++ destruct Hr. split; [now right|assumption].
           ++ intros k [<-|Hk]; [exists t; now apply Hg | now apply Hr].
           ++ destruct Hr as (? & ? & ?). split; [now right|]. now split.
        -- injection E as <- <-. split; [assumption|]. split; [assumption|]. split; [now left|assumption].
Qed.

(* with a consistent cache, present inputs and stat()ed generated inputs: no complaint *)
Lemma ensure_inputs_ok g : forall names w, cache_consistent w -> present w names ->
  stated_generated g w names -> exists w', ensure_inputs g w names = (w', inl None).
Proof.
  induction names as [|n names IH]; intros w Hc Hp Hs; cbn [ensure_inputs].
  - now exists w.
  - assert (Hp' : present w names) by (intros k Hk; apply Hp; now right).
    assert (Hs' : stated_generated g w names) by (intros k Hk; apply Hs; now right).
    destruct (cache_get (ws_cache w) n) as [[t|]|] eqn:Ec.
    + now apply IH.
    + exfalso. apply Hc in Ec. symmetry in Ec. revert Ec. apply Hp. now left.
    + destruct (producer_of g n) as [p|] eqn:Ep.
      * exfalso. apply (Hs n); [now left | rewrite Ep; discriminate | assumption].
      * destruct (stat w n) as [w1 v] eqn:Es.
        assert (Hw1 : w1 = fst (stat w n)) by now rewrite Es.
        assert (Hv : v = fs_get (ws_fs w) n) by (change v with (snd (w1, v)); now rewrite <- Es).
        assert (He1 : cache_ext w w1) by (rewrite Hw1; apply stat_ext).
        destruct v as [t|].
        -- apply IH.
           ++ eapply cache_ext_consistent; eassumption.
           ++ eapply cache_ext_present; eassumption.
           ++ eapply cache_ext_stated; eassumption.
        -- exfalso. symmetry in Hv. revert Hv. apply Hp. now left.
Qed.

(* the verdict of ensure_inputs depends on the graph only through "has a producer" *)
Lemma ensure_inputs_graph g1 g2 : forall names w,
  (forall n, In n names -> (producer_of g1 n = None <-> producer_of g2 n = None)) ->
  ensure_inputs g1 w names = ensure_inputs g2 w names.
Proof.
  induction names as [|n names IH]; intros w H; cbn [ensure_inputs]; [reflexivity|].
  assert (H' : forall k, In k names -> (producer_of g1 k = None <-> producer_of g2 k = None))
    by (intros k Hk; apply H; now right).
  destruct (cache_get (ws_cache w) n) as [[t|]|]; [now apply IH | reflexivity |].
  specialize (H n (or_introl eq_refl)).
  destruct (producer_of g1 n) as [p1|], (producer_of g2 n) as [p2|].
  - reflexivity.
  - exfalso. destruct H as [_ H]. specialize (H eq_refl). discriminate.
  - exfalso. destruct H as [H _]. specialize (H eq_refl). discriminate.
  - destruct (stat w n) as [w1 [t|]]; [now apply IH | reflexivity].
Qed.

(* ------------------------------------------------------------------------------------ *)
(* with_mtimes *)

Lemma with_mtimes_fs c fs : forall names,
  (forall n, In n names -> cache_get c n = Some (fs_get fs n)) ->
  with_mtimes c names = fs_mtimes fs names.
Proof.
  induction names as [|n names IH]; intros H; cbn [with_mtimes fs_mtimes]; [reflexivity|].
  rewrite (H n (or_introl eq_refl)), IH by (intros k Hk; apply H; now right). reflexivity.
Qed.

Lemma with_mtimes_names c : forall names l, with_mtimes c names = Some l ->
  map fst l = names /\ forall n t, In (n, t) l -> cache_get c n = Some (Some t).
Proof.
  induction names as [|n names IH]; intros l E; cbn [with_mtimes] in E.
  - injection E as <-. split; [reflexivity|]. intros n t [].
  - destruct (cache_get c n) as [[t|]|] eqn:Ec; try discriminate.
    destruct (with_mtimes c names) as [l'|] eqn:El; try discriminate.
    injection E as <-. destruct (IH l' eq_refl) as (Hn & Hc). split; [cbn; now rewrite Hn|].
    intros k x [[= <- <-]|Hk]; [assumption | now apply Hc].
Qed.

Lemma with_mtimes_ext c c' : forall names,
  (forall n, In n names -> cache_get c n = cache_get c' n) -> with_mtimes c names = with_mtimes c' names.
Proof.
  induction names as [|n names IH]; intros H; cbn [with_mtimes]; [reflexivity|].
  rewrite (H n (or_introl eq_refl)), IH by (intros k Hk; apply H; now right). reflexivity.
Qed.

Lemma fs_mtimes_some fs : forall names, (forall n, In n names -> fs_get fs n <> None) ->
  exists l, fs_mtimes fs names = Some l.
Proof.
  induction names as [|n names IH]; intros H; cbn [fs_mtimes]; [now eexists|].
  destruct IH as (l & ->); [intros k Hk; apply H; now right|].
  specialize (H n (or_introl eq_refl)). destruct (fs_get fs n) as [t|]; [now eexists | congruence].
Qed.

(* ------------------------------------------------------------------------------------ *)
(* record_finished, taken apart *)

Definition with_disc (w : wstate) (b : nat) (deps : list bytes) : wstate :=
  mkW (ws_fs w) (ws_cache w) ((b, deps) :: ws_disc w) (ws_hashes w) (ws_tbl w) (ws_log w).

Lemma record_finished_inv w b bd reported w1 r : record_finished w b bd reported = Ok (w1, r) ->
  exists deps wa mi wb mo,
    keep_deps (wb_dirtying bd) (reported_names reported) [] = Ok deps /\
    stat_all (with_disc w b deps) (wb_dirtying bd ++ deps) false = (wa, mi) /\
    stat_all wa (wb_outs bd) false = (wb, mo) /\
    ((mi || mo = true /\ w1 = wb /\ r = None) \/
     (mi || mo = false /\ exists m bytes tbl,
        manifest_of wb bd deps = Some m /\
        write_build (ws_tbl wb) (wb_outs bd) deps (hash_build m) = Ok (bytes, tbl) /\
        w1 = mkW (ws_fs wb) (ws_cache wb) (ws_disc wb) (ws_hashes wb) tbl (ws_log wb ++ bytes) /\
        r = Some (hash_build m))).
Proof.
  unfold record_finished. fold (reported_names reported).
  destruct (keep_deps (wb_dirtying bd) (reported_names reported) []) as [deps| | | |]; cbn [bind]; try discriminate.
  fold (with_disc w b deps).
  destruct (stat_all (with_disc w b deps) (wb_dirtying bd ++ deps) false) as [wa mi] eqn:Ea.
  destruct (stat_all wa (wb_outs bd) false) as [wb mo] eqn:Eb.
  intros E. exists deps, wa, mi, wb, mo. split; [reflexivity|]. split; [exact Ea|]. split; [exact Eb|].
  destruct (mi || mo) eqn:Em.
  - left. injection E as <- <-. now repeat split.
  - right. split; [reflexivity|].
    destruct (manifest_of wb bd deps) as [m|] eqn:Emf; [|discriminate].
    destruct (write_build (ws_tbl wb) (wb_outs bd) deps (hash_build m)) as [[bytes tbl]| | | |] eqn:Ewb; cbn [bind] in E; try discriminate.
    injection E as <- <-. exists m, bytes, tbl. now repeat split.
Qed.

Lemma disc_of_with_disc_same w b deps : disc_of (with_disc w b deps) b = deps.
Proof. unfold disc_of, with_disc. cbn [ws_disc assoc_nat]. now rewrite Nat.eqb_refl. Qed.

Lemma disc_of_with_disc_other w b deps b' : b' <> b -> disc_of (with_disc w b deps) b' = disc_of w b'.
Proof.
  intros Hne. unfold disc_of, with_disc. cbn [ws_disc assoc_nat].
  destruct (b' =? b)%nat eqn:E; [apply Nat.eqb_eq in E; contradiction | reflexivity].
Qed.
