(* C10, spelling independence with include/subninja: a THIRD spelling of the three files of
   LoadInclSpellEx.v, which keeps every `build` on the line it has in the first spelling
   (other spacing, `${v}`, continuations behind `default`): the strict theorem applies. *)
From Coq Require Import String.
From N2 Require Import Model.All Proofs.EvalFiles.
From N2 Require Import Proofs.ParseSpell Proofs.ParseRoundEx.
From N2 Require Import Proofs.LoadGraphSpec Proofs.LoadGraphRun Proofs.LoadGraphNorm Proofs.LoadGraphFile
     Proofs.LoadGraphNames.
From N2 Require Import Proofs.LoadInclSpec Proofs.LoadInclFlat.
From N2 Require Import Proofs.LoadInclSpellSpec Proofs.LoadInclSpellEx.

Definition cmd_c_text3 : bytes := bs "c.${v}.${w}".

Lemma cmd_c_3 : value_text cmd_c cmd_c_text3.
Proof.
  apply (value_of _ _ cmd_c); [|reflexivity | intros r E; discriminate E | intros r E; discriminate E].
  vm_compute.
  refine (se_lit false [99; 46]%N _ _ _ _ _); [discriminate | reflexivity|].
  refine (se_bvar false [118]%N _ _ _ _ _); [discriminate | reflexivity|].
  refine (se_lit false [46]%N _ _ _ _ _); [discriminate | reflexivity|].
  refine (se_bvar false [119]%N _ [] _ _ _); [discriminate | reflexivity | constructor].
Qed.

(* ------------------------------------------------------------------------------------ *)
(* build.ninja *)

Definition m3_T1 : bytes :=
  bs "rule" ++ sp 1 ++ bs "r" ++ [10%N] ++ (repeat 32%N 1 ++ bs "command" ++ [] ++ eq1 ++ [] ++ cmd_c_text3 ++ [10%N] ++ []).
Definition m3_F2 : bytes := bs "v" ++ [] ++ eq1 ++ [] ++ bs "top" ++ [10%N] ++ [].
Definition m3_T2 : bytes := bs "include" ++ sp 3 ++ bs "a.ninja".
Definition m3_F3 : bytes := [10%N].
Definition m3_T3 : bytes := bs "build" ++ sp 1 ++ lsimple (bs "o1") (sp 1) [] (bs "r2") ++ [].
Definition m3_T4 : bytes := bs "build" ++ sp 1 ++ lsimple (bs "o2") [] (sp 2) (bs "r") ++ [].
Definition m3_T5 : bytes := bs "default" ++ (sp 1 ++ cont 4) ++ (bs "o1" ++ [] ++ []) ++ [10%N].

Definition m3_R4 : bytes := [] ++ m3_T5 ++ [].
Definition m3_R3 : bytes := [] ++ m3_T4 ++ m3_R4.
Definition m3_R2 : bytes := m3_F3 ++ m3_T3 ++ m3_R3.
Definition m3_R1 : bytes := m3_F2 ++ m3_T2 ++ m3_R2.
Definition ex_main3 : bytes := [] ++ m3_T1 ++ m3_R1.

Example ex_main3_text : ex_main3 =
  ln "rule r" (ln " command=c.${v}.${w}" (ln "v=top" (ln "include   a.ninja"
  (ln "build o1 :r2" (ln "build o2:  r" (ln "default $" (ln "    o1" []))))))).
Proof. vm_compute. reflexivity. Qed.

Lemma ex_main3_spells : spells_file_v 1 [] (main_svs 5 6) vs_top ex_main3.
Proof.
  unfold ex_main3, main_svs.
  refine (sfv_stmt 1 [] _ _ [] _ m3_T1 _ m3_R1 (pr_nil _) _ _ _).
  { apply (ss_rule _ (sp 1) (bs "r") [(bs "command", cmd_c)]); [wsp | discriminate | idn|].
    apply (block_one _ 0); [idn | reflexivity | wsp | wsp | exact cmd_c_3]. }
  { follow. }
  unfold m3_R1.
  refine (sfv_stmt _ [] _ _ m3_F2 _ m3_T2 _ m3_R2 _ _ _ _).
  { apply pre_bind_plain; [idn | reflexivity | wsp | wsp | discriminate | reflexivity | discriminate | constructor]. }
  { apply ss_include; [wsp | apply plain_value_text; [discriminate | reflexivity | discriminate] | discriminate | reflexivity]. }
  { follow. }
  unfold m3_R2.
  refine (sfv_stmt _ _ _ _ m3_F3 _ m3_T3 _ m3_R3 _ _ _ _).
  { apply pr_blank. constructor. }
  { refine (simple_build _ (sp 1) (bs "o1") (sp 1) [] (bs "r2") _ _ _ _ _ _ _);
      [wsp | reflexivity | discriminate | reflexivity | sep1 | wsp | idn]. }
  { follow. }
  unfold m3_R3.
  refine (sfv_stmt _ _ _ _ [] _ m3_T4 _ m3_R4 (pr_nil _) _ _ _).
  { refine (simple_build _ (sp 1) (bs "o2") [] (sp 2) (bs "r") _ _ _ _ _ _ _);
      [wsp | reflexivity | discriminate | reflexivity | sep0 | wsp | idn]. }
  { follow. }
  unfold m3_R4.
  refine (sfv_stmt _ _ _ _ [] _ m3_T5 _ [] (pr_nil _) _ _ _).
  { apply ss_default; [wsp | discriminate | apply paths_one; [discriminate | reflexivity | sep0] | reflexivity]. }
  { follow. }
  apply sfv_end. constructor.
Qed.

(* ------------------------------------------------------------------------------------ *)
(* a.ninja *)

Definition a3_F1 : bytes :=
  bs "v" ++ sp 2 ++ eq1 ++ sp 2 ++ bs "child" ++ [10%N] ++ (bs "w" ++ [] ++ eq1 ++ [] ++ bs "cw" ++ [10%N] ++ []).
Definition a3_T1 : bytes :=
  bs "rule" ++ sp 3 ++ bs "r2" ++ [10%N] ++ (repeat 32%N 4 ++ bs "command" ++ sp 1 ++ eq1 ++ sp 1 ++ cmd_d_text2 ++ [10%N] ++ []).
Definition a3_T2 : bytes :=
  bs "pool" ++ sp 2 ++ bs "pl" ++ [10%N] ++ (repeat 32%N 1 ++ bs "depth" ++ [] ++ eq1 ++ [] ++ bs "2" ++ [10%N] ++ []).
Definition a3_T3 : bytes := bs "build" ++ sp 1 ++ lsimple (bs "p") (sp 1) (sp 1) (bs "r") ++ [].
Definition a3_T4 : bytes := bs "subninja" ++ sp 1 ++ bs "b.ninja".
Definition a3_F5 : bytes := 10%N :: [].

Definition a3_R3 : bytes := [] ++ a3_T4 ++ a3_F5.
Definition a3_R2 : bytes := [] ++ a3_T3 ++ a3_R3.
Definition a3_R1 : bytes := [] ++ a3_T2 ++ a3_R2.
Definition ex_a3 : bytes := a3_F1 ++ a3_T1 ++ a3_R1.

Example ex_a3_text : ex_a3 =
  ln "v  =  child" (ln "w=cw" (ln "rule   r2" (ln "    command = d.${v}.${w}" (ln "pool  pl" (ln " depth=2"
  (ln "build p : r" (ln "subninja b.ninja" []))))))).
Proof. vm_compute. reflexivity. Qed.

Lemma ex_a3_spells : spells_file_v 1 vs_top (a_svs 7) vs_child ex_a3.
Proof.
  unfold ex_a3, a_svs.
  refine (sfv_stmt 1 vs_top _ _ a3_F1 _ a3_T1 _ a3_R1 _ _ _ _).
  { apply pre_bind_plain; [idn | reflexivity | wsp | wsp | discriminate | reflexivity | discriminate|].
    apply pre_bind_plain; [idn | reflexivity | wsp | wsp | discriminate | reflexivity | discriminate|].
    constructor. }
  { apply (ss_rule _ (sp 3) (bs "r2") [(bs "command", cmd_d)]); [wsp | discriminate | idn|].
    apply block_one; [idn | reflexivity | wsp | wsp | exact cmd_d_2]. }
  { follow. }
  unfold a3_R1.
  refine (sfv_stmt _ _ _ _ [] _ a3_T2 _ a3_R2 (pr_nil _) _ _ _).
  { apply (ss_pool _ (sp 2) (bs "pl") [Lit (bs "2")] 2); [wsp | discriminate | idn | | reflexivity].
    apply (block_one _ 0); [idn | reflexivity | wsp | wsp | apply plain_value_text; [discriminate | reflexivity | discriminate]]. }
  { follow. }
  unfold a3_R2.
  refine (sfv_stmt _ _ _ _ [] _ a3_T3 _ a3_R3 (pr_nil _) _ _ _).
  { refine (simple_build _ (sp 1) (bs "p") (sp 1) (sp 1) (bs "r") _ _ _ _ _ _ _);
      [wsp | reflexivity | discriminate | reflexivity | sep1 | wsp | idn]. }
  { follow. }
  unfold a3_R3.
  refine (sfv_stmt _ _ _ _ [] _ a3_T4 _ a3_F5 (pr_nil _) _ _ _).
  { apply ss_subninja; [wsp | apply plain_value_text; [discriminate | reflexivity | discriminate] | discriminate | reflexivity]. }
  { follow. }
  apply sfv_end. apply pr_blank. constructor.
Qed.

(* ------------------------------------------------------------------------------------ *)
(* b.ninja *)

Definition b3_T1 (o : bytes) : bytes := bs "build" ++ sp 1 ++ lsimple o (sp 2) (sp 2) (bs "r2") ++ [].
Definition b3_of (o : bytes) : bytes := [] ++ b3_T1 o ++ [].
Definition ex_b3 : bytes := b3_of (bs "q").

Example ex_b3_text : ex_b3 = ln "build q  :  r2" [].
Proof. vm_compute. reflexivity. Qed.

Lemma b3_spells o : o <> [] -> forallb (plain_char true) o = true ->
  spells_file_v 1 vs_child (b_svs o 1) vs_child (b3_of o).
Proof.
  intros Ho Hp. unfold b3_of, b_svs.
  refine (sfv_stmt 1 vs_child _ _ [] _ (b3_T1 o) _ [] (pr_nil _) _ _ _).
  { refine (simple_build _ (sp 1) o (sp 2) (sp 2) (bs "r2") _ _ _ _ _ _ _);
      [wsp | reflexivity | exact Ho | exact Hp | sep1 | wsp | idn]. }
  { follow. }
  apply sfv_end. constructor.
Qed.

Lemma b3_no_cr o : forallb (plain_char true) o = true -> ~ In 13%N (b3_of o).
Proof. intro Hp. unfold b3_of, b3_T1, lsimple. nocr Hp. Qed.
