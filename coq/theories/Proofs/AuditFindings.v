(* AUDIT - defects found in the STATEMENTS of Props/C01 C02 C03 C03Joint C04 C05 C06 C09 C18 C19,
   each with a machine-checked demonstration and a proposed repair (as a comment).
   (Parser / loader findings: AuditFindingsParse.v;  canon / depfile / db / render: AuditFindingsMisc.v.) *)
From Coq Require Import String List NArith ZArith Lia Bool Arith.
From N2 Require Import Model.All Proofs.SchedSpec Proofs.SchedInv Proofs.SchedRunRInv Proofs.SchedRunFinal Proofs.SchedWantInv Proofs.SchedWantCycle.
From N2 Require Import Proofs.GraphAddBuild Proofs.GraphLoad.
From N2 Require Import Proofs.DbSpec Proofs.WorldSpec Proofs.JointSpec Proofs.WorldBase Proofs.WorldDirty Proofs.WorldLocal.
Import ListNotations.

(* ==================================================================================== *)
(* A1  C02_clean_implies_recorded_manifest is VACUOUS.
       Its first premise
         forall m1 m2, hash_build m1 = hash_build m2 -> manifest_stream m1 = manifest_stream m2
       (global injectivity of a 64-bit hash) is false.  WorldSpec.v says so itself ("false by
       counting"); in the model it is even refutable by computation, because [bytes = list N]
       does not bound a "byte" by 256 and [of_le] packs 256 :: 0 and 0 :: 1 into the same word. *)

Definition coll1 : manifest := mkManifest [] [] [256%N; 0%N] None [].
Definition coll2 : manifest := mkManifest [] [] [0%N; 1%N] None [].

Lemma hash_collision :
  hash_build coll1 = hash_build coll2 /\ manifest_stream coll1 <> manifest_stream coll2.
Proof. split; [vm_compute; reflexivity|vm_compute; discriminate]. Qed.

Theorem A1_C02_clean_implies_recorded_manifest_premise_false :
  ~ (forall m1 m2, hash_build m1 = hash_build m2 -> manifest_stream m1 = manifest_stream m2).
Proof.
  intro H. destruct hash_collision as [E N]. exact (N (H coll1 coll2 E)).
Qed.

(* so the theorem follows from False; restated without looking at its proof: *)
Theorem A1_C02_clean_implies_recorded_manifest_from_false :
  forall (P : Prop),
    (forall m1 m2, hash_build m1 = hash_build m2 -> manifest_stream m1 = manifest_stream m2) -> P.
Proof. intros P H. exfalso. exact (A1_C02_clean_implies_recorded_manifest_premise_false H). Qed.

(* Proposed repair: delete the theorem - C02_clean_means_identical already states the same
   consequence under the satisfiable per-pair premise [no_collision m m0] - or restate it as

     Theorem C02_clean_implies_recorded_manifest : forall g w b bd reported w1 h bd' w2 w2' m0 m,
       record_finished w b bd reported = Ok (w1, Some h) ->
       manifest_of w1 bd (disc_of w1 b) = Some m0 ->
       check_build_dirty g w2 b bd' = (w2', DClean) -> wb_cmdline bd' <> None ->
       assoc_nat b (ws_hashes w2) = Some h ->
       manifest_of w2' bd' (disc_of w2 b) = Some m -> no_collision m m0 ->
       manifest_stream m = manifest_stream m0.

   (Independently: [wf_manifest] / [wf_name] should bound every byte by 256; today a "byte" 256
   is a well-formed name character, which is what makes the collision above computable.) *)

(* ==================================================================================== *)
(* A2  C03_null_build_invocation_returned has the SAME unsatisfiable premise as
       C03_null_build_invocation (the one already under repair):
         forall ws1, log_is w1 ws1 -> Forall in_bounds ws1 /\ table_small ws1.
       [log_is] does not determine the hashes: the writer stores [hash mod 2^64], so adding 2^64
       to the hash of any record gives another decoding of the same log, which is not
       [in_bounds].  The premise can only hold for a log without any record. *)

Definition two64 : N := 18446744073709551616%N.

Lemma enc_build_mod outs deps h : enc_build outs deps (h + two64) = enc_build outs deps h.
Proof.
  unfold enc_build.
  replace ((h + two64) mod 18446744073709551616)%N with (h mod 18446744073709551616)%N; [reflexivity|].
  unfold two64. rewrite <- N.add_mod_idemp_r by discriminate.
  rewrite N.mod_same by discriminate. rewrite N.add_0_r. reflexivity.
Qed.

Lemma write_build_mod tbl outs deps h :
  write_build tbl outs deps (h + two64) = write_build tbl outs deps h.
Proof.
  unfold write_build.
  destruct (ensure_ids outs tbl (N.of_nat (length tbl))) as [[[[oids p1] t1] n1]| | | |]; cbn [bind]; try reflexivity.
  destruct (ensure_ids deps t1 n1) as [[[[dids p2] t2] n2]| | | |]; cbn [bind]; try reflexivity.
  rewrite enc_build_mod. reflexivity.
Qed.

Definition bump (r : wr) : wr := mkWr (w_outs r) (w_deps r) (w_hash r + two64).

Lemma log_from_bump tbl r rest : log_from tbl (bump r :: rest) = log_from tbl (r :: rest).
Proof. cbn [log_from bump w_outs w_deps w_hash]. rewrite write_build_mod. reflexivity. Qed.

Lemma bump_not_in_bounds r : ~ in_bounds (bump r).
Proof.
  intros (_ & _ & _ & H). cbn [bump w_hash] in H. unfold two64 in H. lia.
Qed.

(* every log with at least one record has a decoding that is out of bounds *)
Theorem A2_log_is_not_unique : forall w r rest,
  log_is w (r :: rest) -> log_is w (bump r :: rest) /\ ~ Forall in_bounds (bump r :: rest).
Proof.
  intros w r rest (body & Hb & Hl). split.
  - exists body. rewrite log_from_bump. split; assumption.
  - intro F. inversion F as [|x l Hx Hr]; subst. exact (bump_not_in_bounds r Hx).
Qed.

Theorem A2_null_build_premise_unsatisfiable : forall w ws,
  log_is w ws -> ws <> [] ->
  ~ (forall ws1, log_is w ws1 -> Forall in_bounds ws1 /\ table_small ws1).
Proof.
  intros w ws L NE H. destruct ws as [|r rest]; [exact (NE eq_refl)|].
  destruct (A2_log_is_not_unique w r rest L) as [L' NB].
  exact (NB (proj1 (H _ L'))).
Qed.

(* Proposed repair (both C03_null_build_invocation and ..._returned): quantify existentially,
   or name the record list Work 1 leaves:
       (exists ws1, log_is w1 ws1 /\ Forall in_bounds ws1 /\ table_small ws1)
   (this is what C09_log_is_record / C09_log_is_no_record propagate along the trace: from
   [log_is w0 ws0] one gets [log_is w1 (ws0 ++ records of tr1)]). *)

(* ==================================================================================== *)
(* A3  C06_no_deadlock is TRIVIAL: it is the last conjunct of the EQuiesce guard of [accept1]
       read backwards.  Of its six premises only [rs_running r = 0] and [rs_failed r = 0] are
       used; [reachable], [1 <= cf_parallelism], [rs_ctl r = CIdle], [0 < bs_pending] are not. *)

Theorem A3_C06_no_deadlock_is_the_guard : forall cf r n,
  rs_running r = 0 -> rs_failed r = 0 -> accept1 cf r (EQuiesce n) = None.
Proof.
  intros cf r n H1 H2. unfold accept1. rewrite H1, H2.
  destruct (rs_ctl r) as [| |b v rec| |b t rec|]; try reflexivity.
  - cbn. rewrite andb_false_r. reflexivity.
  - destruct v; try reflexivity. destruct rec; reflexivity.
  - destruct t; try reflexivity. destruct rec; reflexivity.
Qed.

(* The property with content is C06_no_bug_panic / C06_progress (some OTHER event is acceptable in
   such a state); C06_no_deadlock adds nothing to it.  Proposed repair: either drop it, or state
   what the name promises - the run loop is never stuck:
       forall cf decls, graph_wf (cf_graph cf) -> (1 <= cf_parallelism cf) ->
       forall r, reachable cf decls r -> (forall ok, rs_ctl r <> CReturned ok) ->
       exists e r', accept1 cf r e = Some r' /\ is_stutter e = false
   (which is C06_no_dead_end without the length bound). *)

(* ==================================================================================== *)
(* A4  Theorems that hold by ONE-STEP case analysis of [accept1]: the premise
       [reachable cf decls r] is not used, so they are facts about the acceptor's definition,
       not about the states an invocation can reach.  (Not wrong; but they are presented next to
       invariants that do need reachability.) *)

Theorem A4_C05_record_only_after_success_definitional : forall cf r b r',
  accept1 cf r (ERecord b) = Some r' ->
  rs_ctl r = CFinished b TSuccess false \/ (cf_adopt cf = true /\ rs_ctl r = CVerdict b VDirty false).
Proof.
  intros cf r b r' H. unfold accept1 in H.
  destruct (rs_ctl r) as [| |b0 v rec| |b0 t rec|]; try discriminate H.
  - destruct v; try discriminate H. destruct rec; try discriminate H.
    destruct (b0 =? b) eqn:E; cbn in H; [|discriminate H].
    destruct (cf_adopt cf) eqn:A; [|discriminate H].
    apply Nat.eqb_eq in E. subst. right. split; reflexivity.
  - destruct t; try discriminate H. destruct rec; try discriminate H.
    destruct (b0 =? b) eqn:E; [|discriminate H]. apply Nat.eqb_eq in E. subst. left. reflexivity.
Qed.

Theorem A4_C05_budget_definitional : forall cf r b x e r',
  (rs_ctl r = CFinished b TInterrupted x \/ (rs_ctl r = CFinished b TFailure x /\ rs_failures_left r = Some 1)) ->
  accept1 cf r e = Some r' -> e = EReturn (Some false).
Proof.
  intros cf r b x e r' [Hc|[Hc Hf]] H; unfold accept1 in H; rewrite Hc in H.
  - destruct e as [| | | | | | | |[[|]|]]; try discriminate H; try (destruct x; discriminate H). reflexivity.
  - destruct e as [| | |b' p n | | | | |[[|]|]]; try discriminate H; try (destruct x; discriminate H).
    + destruct p; try discriminate H. destruct n; try discriminate H.
      destruct (b =? b'); [|discriminate H]. rewrite Hf in H. discriminate H.
    + reflexivity.
Qed.

(* ==================================================================================== *)
(* A5  C06_all_done_on_success is C05_exit_status verbatim (same statement, same proof term):
       one property counted under two claims. *)

Definition stmt_C05_exit_status : Prop :=
  forall cf decls, graph_wf (cf_graph cf) -> forall r r', reachable cf decls r ->
  accept1 cf r (EReturn (Some true)) = Some r' -> forall b, get_state (rs_bs r) b <> Unknown ->
  (b < length (g_builds (cf_graph cf)))%nat -> get_state (rs_bs r) b = Done.
Definition stmt_C06_all_done_on_success : Prop :=
  forall cf decls, graph_wf (cf_graph cf) -> forall r r', reachable cf decls r ->
  accept1 cf r (EReturn (Some true)) = Some r' -> forall b, get_state (rs_bs r) b <> Unknown ->
  (b < length (g_builds (cf_graph cf)))%nat -> get_state (rs_bs r) b = Done.
Lemma A5_same_statement : stmt_C05_exit_status = stmt_C06_all_done_on_success.
Proof. reflexivity. Qed.

(* ==================================================================================== *)
(* A6  (composition gap, not vacuity)  The World theorems C02_never_skips_changed_tree,
       C03_clean_after_record and C03_adopt_counts_as_up_to_date assume the GLOBAL premise
       [cache_consistent w2].  The joint theorems deliver only the LOCAL fact (J3 at a verdict:
       the entries of wb_dirtying ++ wb_outs of the step being checked agree with the tree), and
       J3 itself says the global premise is false whenever another step is Running (or Failed)
       and has written an output.  Such a state, with a verdict being computed in it, is
       reachable as soon as parallelism is 2: *)

Local Open Scope string_scope.

(* two independent steps:  0: a -> o ;  1: a -> q *)
Definition k_g : graph :=
  mkGraph [mkBuild [0] 1 0 0 [1] false None; mkBuild [0] 1 0 0 [2] false None]
          [mkFile (bs "a") None [0; 1]; mkFile (bs "o") (Some 0) []; mkFile (bs "q") (Some 1) []].
Definition k_wg : wgraph :=
  mkWGraph [mkWBuild [bs "a"] 1 0 0 [bs "o"] (Some (bs "c0")) None;
            mkWBuild [bs "a"] 1 0 0 [bs "q"] (Some (bs "c1")) None]
           [(bs "o", 0); (bs "q", 1)].
Definition k_cf : config := mkConfig k_g 2 false.
Definition k_s : bstates :=
  match want_targets k_g (bs_new 2 [], []) [1; 2] with Ok w => fst w | _ => bs_new 2 [] end.
Definition k_w0 : wstate := mkW [(bs "a", (1%N, 0%N))] [] [] [] [] signature.
(* step 0 runs and has written o; step 1 has been popped: its verdict is computed now *)
Definition k_tr : list jitem :=
  [JPop 0; JVerdict 0 VDirty; JSet 0 Ready Queued; JSet 0 Queued Running; JStart 0;
   JWrite (bs "o") (Some (2%N, 0%N)); JPop 1].

Theorem A6_global_cache_consistency_fails_at_a_verdict :
  exists r w,
    wanted k_g (bs_new 2 []) k_s /\
    jaccepted k_cf k_wg (run_init k_s None) k_w0 k_tr r w /\ writes_ok k_wg [] k_tr /\
    rs_ctl r = CChecking 1 /\
    (* the premise of the World theorems is false here ... *)
    ~ cache_consistent w /\
    (* ... although nothing the check of step 1 looks at is stale *)
    (forall n, In n (wb_dirtying (get_wbuild k_wg 1) ++ disc_of w 1 ++ wb_outs (get_wbuild k_wg 1)) ->
       forall v, cache_get (ws_cache w) n = Some v -> v = fs_get (ws_fs w) n).
Proof.
  do 2 eexists.
  split; [eapply w_step with (l := [(0, Ready)]) (f := 2);
          [eapply w_step with (l := []) (f := 1); [constructor|vm_compute; reflexivity]|vm_compute; reflexivity]|].
  split; [split; vm_compute; reflexivity|].
  split; [cbn; split; [exists 0; split; left; reflexivity|exact I]|].
  split; [reflexivity|].
  split.
  - intro C. specialize (C (bs "o") None). vm_compute in C. specialize (C eq_refl). discriminate C.
  - intros n Hin v Hv. vm_compute in Hin. destruct Hin as [<-|[<-|[]]]; vm_compute in Hv |- *; congruence.
Qed.

(* Proposed repair: replace [cache_consistent w2] in those three theorems by the local premise
     forall n, In n (wb_dirtying bd ++ disc_of w2 b ++ wb_outs bd) ->
       forall v, cache_get (ws_cache w2) n = Some v -> v = fs_get (ws_fs w2) n
   (check_build_dirty reads nothing else: C03_unchanged_upstream_output), and extend
   joint_at_verdict / joint_cache_consistent_for_checked from wb_dirtying ++ wb_outs to
   wb_dirtying ++ disc_of w b ++ wb_outs, so that the two halves compose outside the null build. *)

(* ==================================================================================== *)
(* A7  (coverage gap)  The [_reachable] variants joint_done_outputs_cached_reachable and
       joint_cache_stale_only_running_failed_reachable start from a reachable run state r0 with
         rs_ctl r0 = CIdle,  forall b, get_state (rs_bs r0) b <> Done,  ws_cache w0 = [].
       For the states [reachable] adds over a fresh Work - a Work reused by the main phase after
       the manifest-regeneration phase returned (constructor reach_reuse) - the second premise
       forces the regeneration phase to have wanted NOTHING: a phase that returned true leaves
       every wanted step Done.  So these theorems say nothing about the main phase of any
       invocation whose manifest has a regeneration step (it is examined, found clean, Done). *)

Theorem A7_reused_work_without_done_had_empty_first_phase :
  forall cf decls, graph_wf (cf_graph cf) ->
  forall r s fl,
    reachable cf decls r -> rs_ctl r = CReturned (Some true) -> wanted (cf_graph cf) (rs_bs r) s ->
    (forall b, get_state (rs_bs (run_init s fl)) b <> Done) ->
    forall b, get_state (rs_bs r) b = Unknown.
Proof.
  intros cf decls Hwf r s fl Hr Hc W ND b.
  pose proof (ri_ctl cf decls r (reachable_RInv_closed cf decls Hwf r Hr)) as K.
  rewrite Hc in K. cbn [ctl_ok] in K. destruct K as (_ & _ & K).
  destruct (K b) as [U|D]; [exact U|]. exfalso.
  destruct (wanted_frame_holds (cf_graph cf) Hwf (rs_bs r) s b W) as [E|(E & _)].
  - apply (ND b). cbn [run_init rs_bs]. rewrite E. exact D.
  - rewrite D in E. discriminate E.
Qed.

(* Proposed repair: make the start condition the invariant itself instead of "nothing is Done and
   the cache is empty":
     (forall b o, get_state (rs_bs r0) b = Done -> In o (wb_outs (get_wbuild wg b)) ->
                  cache_get (ws_cache w0) o = Some (fs_get (ws_fs w0) o)) /\
     (forall n v, cache_get (ws_cache w0) n = Some v -> v = fs_get (ws_fs w0) n \/ <stale only for Running/Failed>)
   i.e. J1 /\ J3 of the previous phase, which those theorems themselves establish. *)

(* ==================================================================================== *)
(* A6, continued: the repaired statement IS provable from the existing theorems - restrict the
   cache to the names the check reads, apply the global theorem there, and transfer the verdict
   back with C03_unchanged_upstream_output. *)

Local Close Scope string_scope.

Definition local_consistent (w : wstate) (names : list bytes) : Prop :=
  forall n, In n names -> forall v, cache_get (ws_cache w) n = Some v -> v = fs_get (ws_fs w) n.

Definition restrict_cache (names : list bytes) (c : cache) : cache :=
  filter (fun e => existsb (bytes_eqb (fst e)) names) c.

Lemma existsb_names k names : existsb (bytes_eqb k) names = true <-> In k names.
Proof.
  rewrite existsb_exists. split.
  - intros (x & Hx & E). apply bytes_eqb_spec in E. subst. exact Hx.
  - intro H. exists k. split; [exact H|apply bytes_eqb_refl].
Qed.

Lemma cache_get_restrict_in names c n :
  In n names -> cache_get (restrict_cache names c) n = cache_get c n.
Proof.
  intro Hn. induction c as [|[k x] r IH]; [reflexivity|].
  unfold restrict_cache. cbn [filter fst]. fold (restrict_cache names r).
  destruct (existsb (bytes_eqb k) names) eqn:E.
  - rewrite !cache_get_cons. destruct (bytes_eqb k n); [reflexivity|exact IH].
  - rewrite cache_get_cons. destruct (bytes_eqb k n) eqn:E2; [|exact IH].
    apply bytes_eqb_spec in E2. subst k. apply existsb_names in Hn. congruence.
Qed.

Lemma cache_get_restrict_out names c n v :
  cache_get (restrict_cache names c) n = Some v -> In n names.
Proof.
  induction c as [|[k x] r IH]; [discriminate|].
  unfold restrict_cache. cbn [filter fst]. fold (restrict_cache names r).
  destruct (existsb (bytes_eqb k) names) eqn:E; [|exact IH].
  rewrite cache_get_cons. destruct (bytes_eqb k n) eqn:E2; [|exact IH].
  intros _. apply bytes_eqb_spec in E2. subst k. apply existsb_names. exact E.
Qed.

Theorem A6_clean_after_record_local : forall g w b bd reported w1 h w2,
  record_finished w b bd reported = Ok (w1, Some h) -> wb_cmdline bd <> None ->
  ws_fs w2 = ws_fs w1 ->
  local_consistent w2 (wb_dirtying bd ++ disc_of w2 b ++ wb_outs bd) ->
  assoc_nat b (ws_hashes w2) = Some h -> disc_of w2 b = disc_of w1 b ->
  stated_generated g w2 (wb_dirtying bd ++ disc_of w1 b) ->
  snd (check_build_dirty g w2 b bd) = DClean.
Proof.
  intros g w b bd reported w1 h w2 E Hc Hf L Hh Hd Hs.
  set (names := wb_dirtying bd ++ disc_of w2 b ++ wb_outs bd) in *.
  set (w2r := mkW (ws_fs w2) (restrict_cache names (ws_cache w2)) (ws_disc w2) (ws_hashes w2) (ws_tbl w2) (ws_log w2)).
  assert (Hdr : disc_of w2r b = disc_of w2 b) by reflexivity.
  rewrite (unchanged_upstream_output g w2 w2r b bd (eq_sym Hdr) eq_refl).
  - apply (clean_after_record g w b bd reported w1 h w2r E Hc Hf); [|exact Hh|rewrite Hdr; exact Hd|].
    + intros n v H. cbn [w2r ws_cache ws_fs] in H |- *.
      pose proof (cache_get_restrict_out _ _ _ _ H) as Hn.
      rewrite (cache_get_restrict_in _ _ _ Hn) in H. exact (L n Hn v H).
    + intros n Hn Hp. cbn [w2r ws_cache]. rewrite cache_get_restrict_in; [exact (Hs n Hn Hp)|].
      unfold names. rewrite Hd. apply in_app_or in Hn. apply in_or_app.
      destruct Hn as [Hn|Hn]; [left; exact Hn|right; apply in_or_app; left; exact Hn].
  - intros n Hn. split; [|reflexivity].
    cbn [w2r ws_cache]. symmetry. apply cache_get_restrict_in. exact Hn.
Qed.

(* ==================================================================================== *)
(* A8  (composition gap)  [graph_wf (cf_graph cf)] - premise of nearly every C01/C04/C05/C06/C18/C19
       theorem - and [graphs_agree] are never established for the result of [load_manifest]: the
       development has no function from a [loader] (Model/Load.v) to a [graph] (Model/Sched.v) or
       a [wgraph] (Model/World.v), so C14_unique_producer (LInv of every loaded manifest) and the
       scheduler theorems do not meet inside Coq.  The premise is satisfiable and is what LInv
       gives; the missing link is short: *)

Definition sched_build (b : lbuild) : build :=
  mkBuild (lb_ins b) (lb_explicit_ins b) (lb_implicit_ins b) (lb_order_only_ins b) (lb_outs b)
          (match lb_cmdline b with None => true | Some _ => false end) (lb_pool b).
Definition sched_file (f : lfile) : file := mkFile (lf_name f) (lf_input f) (lf_dependents f).
Definition sched_graph_of (l : loader) : graph :=
  mkGraph (map sched_build (l_builds l)) (map sched_file (l_files l)).

Theorem A8_loaded_graph_is_wf : forall l, LInv l -> graph_wf (sched_graph_of l).
Proof.
  intros l I. split.
  - intros f b H. unfold file_input, sched_graph_of in H. cbn [g_files] in H.
    rewrite nth_error_map in H. destruct (nth_error (l_files l) f) as [lf|] eqn:E; [|discriminate H].
    cbn in H. destruct (LI_producer_listed l I f lf b E H) as (bb & Hb & _).
    cbn [sched_graph_of g_builds]. rewrite map_length. apply nth_error_Some. congruence.
  - intros b f Hb Hin. cbn [sched_graph_of g_builds g_files] in *. rewrite map_length in *.
    destruct (nth_error (l_builds l) b) as [lb|] eqn:E; [|apply nth_error_None in E; lia].
    unfold get_build in Hin. cbn [sched_graph_of g_builds] in Hin.
    rewrite (nth_error_nth (map sched_build (l_builds l)) b dummy_build (x := sched_build lb)) in Hin
      by (rewrite nth_error_map, E; reflexivity).
    exact (LI_ins_range l I b lb f E Hin).
Qed.

Corollary A8_every_loaded_manifest_has_a_wf_graph : forall depth fs name text l,
  load_manifest true depth fs name text = Ok l -> graph_wf (sched_graph_of l).
Proof. intros depth fs name text l H. apply A8_loaded_graph_is_wf. exact (load_manifest_LInv depth fs name text l H). Qed.

(* Proposed repair: add [sched_graph_of] (and the analogous [world_graph_of]) to Model/, extract
   them so that the check compares them with the graph the instrumented binary dumps, and state
   A8 (plus [graphs_agree (sched_graph_of l) (world_graph_of l)] under NamesUnique) in Props/C14. *)

(* ==================================================================================== *)
(* A9  (minor) decorative premises: hypotheses the statement does not need.  They do no harm to
       soundness but suggest a dependence that is not there.
         C06_cycle_message_is_cycle : [graph_wf g] and [BInv g decls s] are unused (below);
         C06_progress               : [1 <= cf_parallelism cf] is unused (and with parallelism 0
                                      its second disjunct [some_startable] does NOT mean that a
                                      start is acceptable - C06_no_bug_panic is the precise one);
         C05_exit_status / C06_all_done_on_success : [b < length (g_builds ..)] is unused;
         C09_spellings_collapse     : the three premises about the second spelling n2 are unused
                                      (the conclusion is "d occurs exactly once", true of every kept d);
         C05_record_only_after_success, C05_budget : [reachable] unused (A4);
         C06_no_deadlock            : four of six premises unused (A3). *)

Theorem A9_cycle_message_needs_no_invariant : forall g s l f m,
  want_file (want_fuel g) g (s, l) [] f = Err m ->
  exists cyc x, m = cycle_message g cyc x /\ cyc <> [] /\ hd x cyc = x /\ ord_chain g (cyc ++ [x]).
Proof.
  intros g s l f m H. eapply (proj2 (want_err g (want_fuel g))); [exact H|]. cbn. exact I.
Qed.
