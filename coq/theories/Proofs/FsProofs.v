(* Proofs about Model/Fs.v: create_dir_all, Work::create_parent_dirs, task::write_rspfile. *)
From N2 Require Import Base.Base Model.Fs.

Lemma path_eqb_spec (a b : path) : path_eqb a b = true <-> a = b.
Proof. apply list_eqb_spec. intros; apply bytes_eqb_spec. Qed.

Lemma path_eqb_refl (a : path) : path_eqb a a = true.
Proof. now apply path_eqb_spec. Qed.

Lemma path_eqb_false (a b : path) : a <> b -> path_eqb a b = false.
Proof.
  intro H. destruct (path_eqb a b) eqn:E; [|reflexivity].
  apply path_eqb_spec in E. contradiction.
Qed.

(* [fs'] keeps everything [fs] holds, node for node (file contents included) *)
Definition extends (fs fs' : fstree) : Prop :=
  forall q k, lookup fs q = Some k -> lookup fs' q = Some k.

(* whatever [fs'] holds where [fs] held nothing is a directory *)
Definition only_dirs_added (fs fs' : fstree) : Prop :=
  forall q k, lookup fs q = None -> lookup fs' q = Some k -> k = KDir.

Lemma extends_refl fs : extends fs fs.
Proof. intros q k H; exact H. Qed.

Lemma extends_trans a b c : extends a b -> extends b c -> extends a c.
Proof. intros H1 H2 q k H. apply H2, H1, H. Qed.

Lemma oda_refl fs : only_dirs_added fs fs.
Proof. intros q k H1 H2. rewrite H1 in H2. discriminate. Qed.

Lemma oda_trans a b c :
  extends b c -> only_dirs_added a b -> only_dirs_added b c -> only_dirs_added a c.
Proof.
  intros E H1 H2 q k Ha Hc.
  destruct (lookup b q) as [k1|] eqn:Hb.
  - assert (k1 = KDir) by (eapply H1; eauto). subst.
    apply E in Hb. rewrite Hb in Hc. now inversion Hc.
  - eapply H2; eauto.
Qed.

Lemma node_at_lookup fs q : q <> [] -> node_at fs q = lookup fs q.
Proof. destruct q; [contradiction|reflexivity]. Qed.

Lemma app_one_not_nil (cur : path) (c : bytes) : cur ++ [c] <> [].
Proof. destruct cur; discriminate. Qed.

Lemma node_at_mono fs fs' q k : extends fs fs' -> node_at fs q = Some k -> node_at fs' q = Some k.
Proof. intros E H. destruct q; [exact H|]. simpl in *. now apply E. Qed.

Lemma step_comp_mono fs fs' cur c p :
  extends fs fs' -> step_comp fs cur c = inr p -> step_comp fs' cur c = inr p.
Proof.
  unfold step_comp. intros E H.
  destruct (fs_is_dotdot c); [exact H|]. destruct (fs_is_dot c); [exact H|].
  destruct (node_at fs (cur ++ [c])) as [[|ct]|] eqn:N; try discriminate.
  now rewrite (node_at_mono _ _ _ _ E N).
Qed.

Lemma walk_mono fs fs' : extends fs fs' ->
  forall cs cur p, walk fs cur cs = inr p -> walk fs' cur cs = inr p.
Proof.
  intros E. induction cs as [|c r IH]; intros cur p H; simpl in *; [exact H|].
  destruct (step_comp fs cur c) as [e|cur'] eqn:S; [discriminate|].
  rewrite (step_comp_mono _ _ _ _ _ E S). now apply IH.
Qed.

Lemma is_dir_mono fs fs' cwd p : extends fs fs' -> is_dir_l fs cwd p = true -> is_dir_l fs' cwd p = true.
Proof.
  unfold is_dir_l. intros E H.
  destruct (walk fs (lp_start cwd p) (lp_comps p)) as [e|q] eqn:W; [discriminate|].
  now rewrite (walk_mono _ _ E _ _ _ W).
Qed.

Lemma walk_app fs : forall a b cur,
  walk fs cur (a ++ b) = match walk fs cur a with inl e => inl e | inr c => walk fs c b end.
Proof.
  induction a as [|x a IH]; intros b cur; simpl; [reflexivity|].
  destruct (step_comp fs cur x); [reflexivity|apply IH].
Qed.

Lemma split_last_spec : forall cs pre c, split_last cs = Some (pre, c) -> cs = pre ++ [c].
Proof.
  induction cs as [|x r IH]; intros pre c H; simpl in H; [discriminate|].
  destruct r as [|y r'].
  - inversion H; subst. reflexivity.
  - destruct (split_last (y :: r')) as [[pre' l]|] eqn:S; [|discriminate].
    inversion H; subst. simpl. f_equal. now apply IH.
Qed.

Lemma split_last_none cs : split_last cs = None -> cs = [].
Proof.
  induction cs as [|x r IH]; [reflexivity|]. simpl.
  destruct r as [|y r']; [discriminate|].
  destruct (split_last (y :: r')) as [[? ?]|]; [discriminate|].
  intros _. specialize (IH eq_refl). discriminate.
Qed.

(* ---------------------------------------------------------------------------------------- *)
(* mkdir *)

Lemma mkdir_shape fs cwd p fs' : sys_mkdir fs cwd p = inr fs' ->
  exists q, fs' = (q, KDir) :: fs /\ lookup fs q = None.
Proof.
  unfold sys_mkdir. destruct (split_last (lp_comps p)) as [[pre c]|]; [|discriminate].
  destruct (walk fs (lp_start cwd p) pre) as [e|cur]; [discriminate|].
  destruct (fs_is_dotdot c || fs_is_dot c); [discriminate|].
  destruct (node_at fs (cur ++ [c])) eqn:N; [discriminate|].
  intros H; inversion H; subst. exists (cur ++ [c]). split; [reflexivity|].
  now rewrite <- node_at_lookup by apply app_one_not_nil.
Qed.

Lemma cons_new_extends fs q k : lookup fs q = None -> extends fs ((q, k) :: fs).
Proof.
  intros N q' k' H. simpl. destruct (path_eqb q q') eqn:E; [|exact H].
  apply path_eqb_spec in E. subst. rewrite N in H. discriminate.
Qed.

Lemma cons_dir_oda fs q : only_dirs_added fs ((q, KDir) :: fs).
Proof.
  intros q' k' H1 H2. simpl in H2. destruct (path_eqb q q'); [now inversion H2|].
  rewrite H1 in H2. discriminate.
Qed.

Lemma mkdir_extends fs cwd p fs' : sys_mkdir fs cwd p = inr fs' -> extends fs fs' /\ only_dirs_added fs fs'.
Proof.
  intros H. destruct (mkdir_shape _ _ _ _ H) as [q [-> N]].
  split; [now apply cons_new_extends|apply cons_dir_oda].
Qed.

Lemma mkdir_makes_dir fs cwd p fs' : sys_mkdir fs cwd p = inr fs' -> is_dir_l fs' cwd p = true.
Proof.
  intros H. pose proof (mkdir_extends _ _ _ _ H) as [E _]. revert H.
  unfold sys_mkdir, is_dir_l.
  destruct (split_last (lp_comps p)) as [[pre c]|] eqn:S; [|discriminate].
  apply split_last_spec in S. rewrite S.
  destruct (walk fs (lp_start cwd p) pre) as [e|cur] eqn:W; [discriminate|].
  destruct (fs_is_dotdot c || fs_is_dot c) eqn:D; [discriminate|].
  destruct (node_at fs (cur ++ [c])) eqn:N; [discriminate|].
  intros H; inversion H; subst.
  rewrite walk_app. rewrite (walk_mono _ _ E _ _ _ W). simpl.
  unfold step_comp. apply orb_false_iff in D as [D1 D2]. rewrite D1, D2.
  rewrite node_at_lookup by apply app_one_not_nil. simpl. now rewrite path_eqb_refl.
Qed.

(* mkdir on something that already is a directory: EEXIST *)
Lemma mkdir_on_dir fs cwd p : lp_comps p <> [] -> is_dir_l fs cwd p = true -> sys_mkdir fs cwd p = inl EEXIST.
Proof.
  unfold is_dir_l, sys_mkdir. intros NE.
  destruct (split_last (lp_comps p)) as [[pre c]|] eqn:S.
  - apply split_last_spec in S. rewrite S, walk_app.
    destruct (walk fs (lp_start cwd p) pre) as [e|cur]; [discriminate|].
    simpl. unfold step_comp.
    destruct (fs_is_dotdot c); [reflexivity|]. destruct (fs_is_dot c); [reflexivity|]. simpl.
    destruct (node_at fs (cur ++ [c])) as [[|ct]|]; try discriminate; reflexivity.
  - apply split_last_none in S. contradiction.
Qed.

(* ---------------------------------------------------------------------------------------- *)
(* create_dir_all *)

Lemma probe_facts fs cwd p : forall k unc fs1 unc',
  cda_probe fs cwd p k unc = inr (fs1, unc') ->
  extends fs fs1 /\ only_dirs_added fs fs1 /\ unc <= unc' /\ unc' <= unc + k /\
  (unc' = unc -> k <> 0 -> is_dir_l fs1 cwd (anc p k) = true).
Proof.
  induction k as [|k IH]; intros unc fs1 unc' H; simpl in H.
  - inversion H; subst. repeat split; auto using extends_refl, oda_refl; try lia.
  - destruct (sys_mkdir fs cwd (anc p (S k))) as [e|fs'] eqn:M.
    + destruct e; try discriminate.
      * apply IH in H as (E & O & L1 & L2 & _). repeat split; auto; try lia.
      * destruct (is_dir_l fs cwd (anc p (S k))) eqn:D; [|discriminate].
        inversion H; subst. repeat split; auto using extends_refl, oda_refl; lia.
    + inversion H; subst. destruct (mkdir_extends _ _ _ _ M) as [E O].
      repeat split; auto; try lia. intros _ _. eapply mkdir_makes_dir; eauto.
Qed.

Lemma fill_facts cwd p : forall n fs j e fs',
  cda_fill fs cwd p j n = (e, fs') -> extends fs fs' /\ only_dirs_added fs fs'.
Proof.
  induction n as [|n IH]; intros fs j e fs' H; simpl in H.
  - inversion H; subst. split; auto using extends_refl, oda_refl.
  - destruct (sys_mkdir fs cwd (anc p j)) as [er|fs1] eqn:M.
    + destruct (errno_eqb er EEXIST && is_dir_l fs cwd (anc p j)).
      * eapply IH; eauto.
      * inversion H; subst. split; auto using extends_refl, oda_refl.
    + destruct (mkdir_extends _ _ _ _ M) as [E O]. apply IH in H as [E2 O2].
      split; [eapply extends_trans; eauto|eapply oda_trans; eauto].
Qed.

Lemma fill_last_is_dir cwd p : forall m fs j fs',
  cda_fill fs cwd p j (S m) = (None, fs') -> is_dir_l fs' cwd (anc p (j + m)) = true.
Proof.
  induction m as [|m IH]; intros fs j fs' H.
  - rewrite Nat.add_0_r. simpl in H.
    destruct (sys_mkdir fs cwd (anc p j)) as [er|fs1] eqn:M.
    + destruct (errno_eqb er EEXIST && is_dir_l fs cwd (anc p j)) eqn:C; [|discriminate].
      inversion H; subst. now apply andb_true_iff in C as [_ C].
    + inversion H; subst. eapply mkdir_makes_dir; eauto.
  - replace (j + S m) with (S j + m) by lia.
    change (cda_fill fs cwd p j (S (S m))) with
      (match sys_mkdir fs cwd (anc p j) with
       | inr fs1 => cda_fill fs1 cwd p (S j) (S m)
       | inl e => if errno_eqb e EEXIST && is_dir_l fs cwd (anc p j)
                  then cda_fill fs cwd p (S j) (S m) else (Some e, fs)
       end) in H.
    destruct (sys_mkdir fs cwd (anc p j)) as [er|fs1].
    + destruct (errno_eqb er EEXIST && is_dir_l fs cwd (anc p j)); [|discriminate].
      eapply IH; eauto.
    + eapply IH; eauto.
Qed.

Lemma anc_full p : anc p (length (lp_comps p)) = p.
Proof. destruct p as [r cs]. unfold anc. simpl. now rewrite firstn_all. Qed.

Lemma cda_extends fs cwd p e fs' : create_dir_all fs cwd p = (e, fs') -> extends fs fs' /\ only_dirs_added fs fs'.
Proof.
  unfold create_dir_all. destruct (lp_comps p) as [|c cs] eqn:C.
  - intros H; inversion H; subst. split; auto using extends_refl, oda_refl.
  - destruct (cda_probe fs cwd p (length (c :: cs)) 0) as [er|[fs1 unc]] eqn:P.
    + intros H; inversion H; subst. split; auto using extends_refl, oda_refl.
    + intros H. apply probe_facts in P as (E & O & _). apply fill_facts in H as [E2 O2].
      split; [eapply extends_trans; eauto|eapply oda_trans; eauto].
Qed.

Lemma cda_creates fs cwd p fs' : create_dir_all fs cwd p = (None, fs') -> is_dir_l fs' cwd p = true.
Proof.
  unfold create_dir_all. destruct (lp_comps p) as [|c cs] eqn:C.
  - intros _. unfold is_dir_l. now rewrite C.
  - destruct (cda_probe fs cwd p (length (c :: cs)) 0) as [er|[fs1 unc]] eqn:P; [discriminate|].
    intros H. apply probe_facts in P as (E & O & L1 & L2 & Z).
    rewrite <- C in *. destruct unc as [|u].
    + simpl in H. inversion H; subst. rewrite <- (anc_full p). apply Z; [reflexivity|].
      rewrite C. discriminate.
    + apply fill_last_is_dir in H.
      replace (S (length (lp_comps p) - S u) + u) with (length (lp_comps p)) in H by lia.
      now rewrite anc_full in H.
Qed.

(* on a path that is a directory already: nothing happens *)
Lemma cda_noop fs cwd p : is_dir_l fs cwd p = true -> create_dir_all fs cwd p = (None, fs).
Proof.
  intros D. unfold create_dir_all. destruct (lp_comps p) as [|c cs] eqn:C; [reflexivity|].
  rewrite <- C. assert (NE : lp_comps p <> []) by (rewrite C; discriminate).
  destruct (length (lp_comps p)) as [|n] eqn:L.
  - destruct (lp_comps p); [contradiction|discriminate].
  - simpl. rewrite <- L, anc_full. rewrite (mkdir_on_dir _ _ _ NE D), D. rewrite L.
    replace (S n - 0) with (S n) by lia. reflexivity.
Qed.

(* ---------------------------------------------------------------------------------------- *)
(* Work::create_parent_dirs *)

Lemma lp_eqb_spec a b : lp_eqb a b = true -> a = b.
Proof.
  destruct a as [ra ca], b as [rb cb]. unfold lp_eqb. simpl. intros H.
  apply andb_true_iff in H as [H1 H2]. apply Bool.eqb_prop in H1. apply path_eqb_spec in H2. now subst.
Qed.

Lemma cpd_extends cwd : forall outs fs dirs e fs',
  cpd_loop fs cwd dirs outs = (e, fs') -> extends fs fs' /\ only_dirs_added fs fs'.
Proof.
  induction outs as [|o r IH]; intros fs dirs e fs' H; simpl in H.
  - inversion H; subst. split; auto using extends_refl, oda_refl.
  - destruct (lp_parent (path_new o)) as [par|]; [|eapply IH; eauto].
    destruct (existsb (lp_eqb par) dirs); [eapply IH; eauto|].
    destruct (create_dir_all fs cwd par) as [[er|] fs1] eqn:C.
    + inversion H; subst. eapply cda_extends; eauto.
    + apply cda_extends in C as [E O]. apply IH in H as [E2 O2].
      split; [eapply extends_trans; eauto|eapply oda_trans; eauto].
Qed.

Lemma cpd_creates cwd : forall outs fs dirs fs',
  (forall d, In d dirs -> is_dir_l fs cwd d = true) ->
  cpd_loop fs cwd dirs outs = (None, fs') ->
  forall o d, In o outs -> lp_parent (path_new o) = Some d -> is_dir_l fs' cwd d = true.
Proof.
  induction outs as [|o r IH]; intros fs dirs fs' HD H o' d I P; [contradiction|].
  simpl in H. destruct I as [<-|I].
  - rewrite P in H. destruct (existsb (lp_eqb d) dirs) eqn:X.
    + apply existsb_exists in X as [d' [I' Q]]. apply lp_eqb_spec in Q. subst d'.
      apply cpd_extends in H as [E _]. eapply is_dir_mono; eauto.
    + destruct (create_dir_all fs cwd d) as [[er|] fs1] eqn:C; [discriminate|].
      apply cda_creates in C. apply cpd_extends in H as [E _]. eapply is_dir_mono; eauto.
  - destruct (lp_parent (path_new o)) as [par|]; [|eapply IH; eauto].
    destruct (existsb (lp_eqb par) dirs); [eapply IH; eauto|].
    destruct (create_dir_all fs cwd par) as [[er|] fs1] eqn:C; [discriminate|].
    pose proof (cda_extends _ _ _ _ _ C) as [E _]. apply cda_creates in C.
    eapply IH; [|exact H|exact I|exact P].
    intros d' I'. apply in_app_or in I' as [I'|[<-|[]]]; [|exact C].
    eapply is_dir_mono; eauto.
Qed.

Lemma cpd_noop cwd : forall outs fs dirs,
  (forall o d, In o outs -> lp_parent (path_new o) = Some d -> is_dir_l fs cwd d = true) ->
  cpd_loop fs cwd dirs outs = (None, fs).
Proof.
  induction outs as [|o r IH]; intros fs dirs H; [reflexivity|]. simpl.
  destruct (lp_parent (path_new o)) as [par|] eqn:P.
  - destruct (existsb (lp_eqb par) dirs).
    + apply IH. intros o' d I. apply H. now right.
    + rewrite cda_noop by (eapply H; [now left|exact P]).
      apply IH. intros o' d I. apply H. now right.
  - apply IH. intros o' d I. apply H. now right.
Qed.

Theorem create_parent_dirs_creates fs cwd outs fs' :
  create_parent_dirs fs cwd outs = (None, fs') ->
  forall o d, In o outs -> lp_parent (path_new o) = Some d -> is_dir_l fs' cwd d = true.
Proof. intros H. eapply cpd_creates; [|exact H]. intros d []. Qed.

Theorem create_parent_dirs_frame fs cwd outs e fs' :
  create_parent_dirs fs cwd outs = (e, fs') -> extends fs fs' /\ only_dirs_added fs fs'.
Proof. apply cpd_extends. Qed.

Theorem create_parent_dirs_idempotent fs cwd outs fs' :
  create_parent_dirs fs cwd outs = (None, fs') -> create_parent_dirs fs' cwd outs = (None, fs').
Proof. intros H. apply cpd_noop. eapply create_parent_dirs_creates; eauto. Qed.

(* the cache of directories already handled changes nothing: the same result as calling
   create_dir_all for every output in turn *)
Fixpoint cpd_plain (fs : fstree) (cwd : path) (outs : list bytes) : fsres :=
  match outs with
  | [] => (None, fs)
  | o :: r => match lp_parent (path_new o) with
              | None => cpd_plain fs cwd r
              | Some par => match create_dir_all fs cwd par with
                            | (Some e, fs') => (Some e, fs')
                            | (None, fs') => cpd_plain fs' cwd r
                            end
              end
  end.

Lemma cpd_is_plain cwd : forall outs fs dirs,
  (forall d, In d dirs -> is_dir_l fs cwd d = true) ->
  cpd_loop fs cwd dirs outs = cpd_plain fs cwd outs.
Proof.
  induction outs as [|o r IH]; intros fs dirs HD; [reflexivity|]. simpl.
  destruct (lp_parent (path_new o)) as [par|]; [|now apply IH].
  destruct (existsb (lp_eqb par) dirs) eqn:X.
  - apply existsb_exists in X as [d' [I' Q]]. apply lp_eqb_spec in Q. subst d'.
    rewrite cda_noop by now apply HD. now apply IH.
  - destruct (create_dir_all fs cwd par) as [[er|] fs1] eqn:C; [reflexivity|].
    pose proof (cda_extends _ _ _ _ _ C) as [E _]. apply cda_creates in C.
    apply IH. intros d' I'. apply in_app_or in I' as [I'|[<-|[]]]; [|exact C].
    eapply is_dir_mono; eauto.
Qed.

Theorem create_parent_dirs_cache_is_transparent fs cwd outs :
  create_parent_dirs fs cwd outs = cpd_plain fs cwd outs.
Proof. apply cpd_is_plain. intros d []. Qed.

(* ---------------------------------------------------------------------------------------- *)
(* task::write_rspfile *)

Lemma write_shape fs cwd p content fs' : sys_write_l fs cwd p content = inr fs' ->
  exists loc, fs' = (loc, KFile content) :: fs /\ lookup fs loc <> Some KDir /\ loc <> []
              /\ read_l fs' cwd p = Some (KFile content).
Proof.
  unfold sys_write_l, read_l.
  destruct (split_last (lp_comps p)) as [[pre c]|]; [|discriminate].
  destruct (walk fs (lp_start cwd p) pre) as [e|cur] eqn:W; [discriminate|].
  destruct (fs_is_dotdot c || fs_is_dot c); [discriminate|].
  intros H. exists (cur ++ [c]).
  assert (N : node_at fs (cur ++ [c]) <> Some KDir /\ fs' = (cur ++ [c], KFile content) :: fs).
  { destruct (node_at fs (cur ++ [c])) as [[|ct]|]; try discriminate; inversion H; split; congruence. }
  destruct N as [N ->]. rewrite node_at_lookup in N by apply app_one_not_nil.
  repeat split; auto using app_one_not_nil.
  assert (E : forall q k, lookup fs q = Some KDir -> k = KDir -> lookup ((cur ++ [c], KFile content) :: fs) q = Some k).
  { intros q k L ->. simpl. destruct (path_eqb (cur ++ [c]) q) eqn:Q; [|exact L].
    apply path_eqb_spec in Q. subst. contradiction. }
  (* the walk to the directory still succeeds: directories are untouched *)
  assert (WM : forall cs a b, walk fs a cs = inr b -> walk ((cur ++ [c], KFile content) :: fs) a cs = inr b).
  { induction cs as [|x r IH]; intros a b Hw; simpl in Hw; simpl; [exact Hw|].
    unfold step_comp in Hw |- *. destruct (fs_is_dotdot x); [now apply IH|]. destruct (fs_is_dot x); [now apply IH|].
    destruct (node_at fs (a ++ [x])) as [[|ct]|] eqn:NA; try discriminate.
    rewrite node_at_lookup in NA by apply app_one_not_nil.
    rewrite node_at_lookup by apply app_one_not_nil.
    rewrite (E _ KDir NA eq_refl). now apply IH. }
  rewrite (WM _ _ _ W). rewrite node_at_lookup by apply app_one_not_nil. simpl. now rewrite path_eqb_refl.
Qed.

Lemma sys_write_ok fs cwd name content fs' :
  sys_write fs cwd name content = inr fs' -> sys_write_l fs cwd (path_new name) content = inr fs'.
Proof.
  unfold sys_write. destruct (name_last_dot name).
  - destruct (walk fs (lp_start cwd (path_new name)) (lp_comps (path_new name))); discriminate.
  - destruct (name_trailing_sep name); [|auto].
    destruct (split_last (lp_comps (path_new name))) as [[pre c]|]; [|discriminate].
    destruct (walk fs (lp_start cwd (path_new name)) pre); discriminate.
Qed.

Theorem write_rspfile_writes fs cwd name content fs' :
  write_rspfile fs cwd name content = (None, fs') ->
  read_l fs' cwd (path_new name) = Some (KFile content) /\
  exists loc, lookup fs' loc = Some (KFile content) /\
    forall q, q <> loc ->
      (forall k, lookup fs q = Some k -> lookup fs' q = Some k) /\
      (forall k, lookup fs q = None -> lookup fs' q = Some k -> k = KDir).
Proof.
  unfold write_rspfile. intros H.
  set (p := path_new name) in *.
  destruct (match lp_parent p with Some parent => create_dir_all fs cwd parent | None => (None, fs) end)
    as [[er|] fs1] eqn:C; [discriminate|].
  assert (EO : extends fs fs1 /\ only_dirs_added fs fs1).
  { destruct (lp_parent p); [eapply cda_extends; eauto|]. inversion C; subst. split; auto using extends_refl, oda_refl. }
  destruct EO as [E O].
  destruct (sys_write fs1 cwd name content) as [er|fs2] eqn:Wr; [discriminate|].
  inversion H; subst. apply sys_write_ok in Wr. fold p in Wr. apply write_shape in Wr as (loc & -> & ND & NE & R).
  split; [exact R|]. exists loc. split; [simpl; now rewrite path_eqb_refl|].
  intros q Q. simpl. rewrite path_eqb_false by congruence. split.
  - intros k L. now apply E.
  - intros k L1 L2. eapply O; eauto.
Qed.

(* a failed write_rspfile has at most created directories *)
Theorem write_rspfile_failure_frame fs cwd name content e fs' :
  write_rspfile fs cwd name content = (Some e, fs') -> extends fs fs' /\ only_dirs_added fs fs'.
Proof.
  unfold write_rspfile. set (p := path_new name).
  destruct (match lp_parent p with Some parent => create_dir_all fs cwd parent | None => (None, fs) end)
    as [[er|] fs1] eqn:C.
  - intros H; inversion H; subst.
    destruct (lp_parent p); [eapply cda_extends; eauto|discriminate].
  - assert (EO : extends fs fs1 /\ only_dirs_added fs fs1).
    { destruct (lp_parent p); [eapply cda_extends; eauto|]. inversion C; subst. split; auto using extends_refl, oda_refl. }
    destruct (sys_write fs1 cwd name content); intros H; inversion H; subst. exact EO.
Qed.

(* ---------------------------------------------------------------------------------------- *)
(* non-vacuity: a step with outputs in new, nested, shared and parent-relative directories *)

Definition s (l : list nat) : bytes := map N.of_nat l.
Definition ex_fs : fstree := [ ([s [119]], KDir); ([s [119]; s [99]], KDir); ([s [102]], KFile (s [1;2])) ].
Definition ex_cwd : path := [s [119]; s [99]].
(* outputs  a/b/o1  a/b/o2  ../x/o3  top  *)
Definition ex_outs : list bytes :=
  [ s [97;47;98;47;111;49]; s [97;47;98;47;111;50]; s [46;46;47;120;47;111;51]; s [116;111;112] ].

Example ex_create_ok :
  fst (create_parent_dirs ex_fs ex_cwd ex_outs) = None /\
  fs_listing (snd (create_parent_dirs ex_fs ex_cwd ex_outs)) =
    [ ([s [119]; s [120]], KDir); ([s [119]; s [99]; s [97]; s [98]], KDir); ([s [119]; s [99]; s [97]], KDir);
      ([s [119]], KDir); ([s [119]; s [99]], KDir); ([s [102]], KFile (s [1;2])) ].
Proof. vm_compute. split; reflexivity. Qed.

(* an output below a regular file: ENOTDIR, nothing created *)
Example ex_create_blocked :
  create_parent_dirs ex_fs ex_cwd [ s [47;102;47;100;47;111] ] = (Some ENOTDIR, ex_fs).
Proof. vm_compute. reflexivity. Qed.

Example ex_rsp :
  fst (write_rspfile ex_fs ex_cwd (s [114;47;113;46;114;115;112]) (s [7;8;9])) = None.
Proof. vm_compute. reflexivity. Qed.

(* ---------------------------------------------------------------------------------------- *)
(* the two preparations together *)

Definition dirs_kept (fs fs' : fstree) : Prop := forall q, lookup fs q = Some KDir -> lookup fs' q = Some KDir.

Lemma extends_dirs_kept fs fs' : extends fs fs' -> dirs_kept fs fs'.
Proof. intros E q H. now apply E. Qed.

Lemma walk_dirs_kept fs fs' : dirs_kept fs fs' -> forall cs cur p, walk fs cur cs = inr p -> walk fs' cur cs = inr p.
Proof.
  intros K. induction cs as [|c r IH]; intros cur p H; simpl in *; [exact H|].
  unfold step_comp in *. destruct (fs_is_dotdot c); [now apply IH|]. destruct (fs_is_dot c); [now apply IH|].
  destruct (node_at fs (cur ++ [c])) as [[|ct]|] eqn:N; try discriminate.
  rewrite node_at_lookup in N by apply app_one_not_nil.
  rewrite node_at_lookup by apply app_one_not_nil. rewrite (K _ N). now apply IH.
Qed.

Lemma is_dir_dirs_kept fs fs' cwd p : dirs_kept fs fs' -> is_dir_l fs cwd p = true -> is_dir_l fs' cwd p = true.
Proof.
  unfold is_dir_l. intros K H.
  destruct (walk fs (lp_start cwd p) (lp_comps p)) as [e|q] eqn:W; [discriminate|].
  now rewrite (walk_dirs_kept _ _ K _ _ _ W).
Qed.

Lemma write_rspfile_dirs_kept fs cwd name content e fs' :
  write_rspfile fs cwd name content = (e, fs') -> dirs_kept fs fs'.
Proof.
  unfold write_rspfile. set (p := path_new name).
  destruct (match lp_parent p with Some parent => create_dir_all fs cwd parent | None => (None, fs) end)
    as [[er|] fs1] eqn:C.
  - intros H; inversion H; subst. apply extends_dirs_kept.
    destruct (lp_parent p); [eapply cda_extends; eauto|discriminate].
  - assert (E : extends fs fs1).
    { destruct (lp_parent p); [eapply cda_extends; eauto|]. inversion C; subst. apply extends_refl. }
    destruct (sys_write fs1 cwd name content) as [er|fs2] eqn:Wr; intros H; inversion H; subst.
    + now apply extends_dirs_kept.
    + apply sys_write_ok in Wr. apply write_shape in Wr as (loc & -> & ND & NE & _).
      intros q L. apply E in L. simpl. destruct (path_eqb loc q) eqn:Q; [|exact L].
      apply path_eqb_spec in Q. subst. contradiction.
Qed.

Theorem prepare_step_ready fs cwd outs rsp fs' :
  prepare_step fs cwd outs rsp = (None, fs') ->
  (forall o d, In o outs -> lp_parent (path_new o) = Some d -> is_dir_l fs' cwd d = true) /\
  (forall n c, rsp = Some (n, c) -> read_l fs' cwd (path_new n) = Some (KFile c)) /\
  (forall q k, lookup fs q = Some k ->
     lookup fs' q = Some k \/ exists n c, rsp = Some (n, c) /\ k <> KDir /\ lookup fs' q = Some (KFile c)).
Proof.
  unfold prepare_step. destruct (create_parent_dirs fs cwd outs) as [[e|] fs1] eqn:C; [discriminate|].
  pose proof (create_parent_dirs_creates _ _ _ _ C) as D.
  pose proof (create_parent_dirs_frame _ _ _ _ _ C) as [E1 _].
  destruct rsp as [[n c]|].
  - intros W. pose proof (write_rspfile_dirs_kept _ _ _ _ _ _ W) as K.
    pose proof (write_rspfile_writes _ _ _ _ _ W) as (R & loc & LL & FR).
    split; [|split].
    + intros o d I Pp. eapply is_dir_dirs_kept; [exact K|]. eapply D; eauto.
    + intros n' c' Q. inversion Q; subst. exact R.
    + intros q k L. apply E1 in L.
      destruct (list_eq_dec (list_eq_dec N.eq_dec) q loc) as [->|Ne].
      * destruct k as [|ct].
        -- left. now apply K.
        -- right. exists n, c. repeat split; [discriminate|exact LL].
      * left. now apply (FR q Ne).
  - intros H; inversion H; subst. split; [|split].
    + exact D.
    + intros n c Q. discriminate.
    + intros q k L. left. now apply E1.
Qed.

(* preparing one step never undoes what was prepared for another: directories stay directories,
   whether it succeeds or fails *)
Theorem prepare_step_keeps_dirs fs cwd outs rsp e fs' :
  prepare_step fs cwd outs rsp = (e, fs') -> dirs_kept fs fs'.
Proof.
  unfold prepare_step. destruct (create_parent_dirs fs cwd outs) as [[er|] fs1] eqn:C.
  - intros H; inversion H; subst. apply extends_dirs_kept. eapply create_parent_dirs_frame; eauto.
  - pose proof (create_parent_dirs_frame _ _ _ _ _ C) as [E1 _].
    destruct rsp as [[n c]|].
    + intros W. apply write_rspfile_dirs_kept in W. intros q L. apply W. now apply E1.
    + intros H; inversion H; subst. now apply extends_dirs_kept.
Qed.

Corollary prepare_steps_all_ready fs cwd outs1 rsp1 fs1 outs2 rsp2 e fs2 :
  prepare_step fs cwd outs1 rsp1 = (None, fs1) -> prepare_step fs1 cwd outs2 rsp2 = (e, fs2) ->
  forall o d, In o outs1 -> lp_parent (path_new o) = Some d -> is_dir_l fs2 cwd d = true.
Proof.
  intros H1 H2 o d I Pp. apply prepare_step_ready in H1 as (D & _).
  eapply is_dir_dirs_kept; [eapply prepare_step_keeps_dirs; exact H2|]. eapply D; eauto.
Qed.

(* the frame of a prepared step, exactly: without a response file nothing that existed changes and
   what is new is a directory; with one, the same holds everywhere except at the one location where
   the file now is (and that location was not a directory) *)
Theorem prepare_step_exact fs cwd outs rsp fs' :
  prepare_step fs cwd outs rsp = (None, fs') ->
  match rsp with
  | None => extends fs fs' /\ only_dirs_added fs fs'
  | Some (n, c) =>
    exists loc, lookup fs' loc = Some (KFile c) /\ lookup fs loc <> Some KDir /\
      forall q, q <> loc ->
        (forall k, lookup fs q = Some k -> lookup fs' q = Some k) /\
        (forall k, lookup fs q = None -> lookup fs' q = Some k -> k = KDir)
  end.
Proof.
  unfold prepare_step. destruct (create_parent_dirs fs cwd outs) as [[e|] fs1] eqn:C; [discriminate|].
  pose proof (create_parent_dirs_frame _ _ _ _ _ C) as [E1 O1].
  destruct rsp as [[n c]|].
  - intros W. pose proof (write_rspfile_dirs_kept _ _ _ _ _ _ W) as K.
    pose proof (write_rspfile_writes _ _ _ _ _ W) as (_ & loc & LL & FR).
    exists loc. split; [exact LL|]. split.
    + intros D. apply E1 in D. apply K in D. congruence.
    + intros q Ne. destruct (FR q Ne) as [F1 F2]. split.
      * intros k L. apply F1. now apply E1.
      * intros k L1 L2. destruct (lookup fs1 q) as [k1|] eqn:L.
        -- assert (k1 = KDir) by (eapply O1; eauto). subst. specialize (F1 KDir eq_refl). congruence.
        -- eapply F2; eauto.
  - intros H; inversion H; subst. now split.
Qed.
